import AtreeProofs.Codec.InlIED
/-
  Round trip of standalone slabs WITH inlined arrays / maps (not the compact form): map data /
  collision-group slabs and array data slabs whose shared inlined-extra-data section is present.
-/
namespace Atree.Codec
open Atree Atree.Gen DM

/-! ### measures against sizes -/

mutual
theorem Stor.size_pos : (s : Stor) → s.RTI → 1 ≤ s.size
  | .val size pay, h => by unfold Stor.RTI validElem at h; simp only [Stor.size]; exact h.1
  | .ref _, _ => by simp [Stor.size, slabIDStorableSize]; omega
  | .some s, _ => by simp only [Stor.size, someOverhead]; omega
  | .arr _ _ _, _ => by simp only [Stor.size, inlinedArrayDataSlabPrefixSize]; omega
  | .map _ _ _, _ => by simp only [Stor.size, inlinedMapDataSlabPrefixSize]; omega
end

mutual
theorem Stor.fuelI_le_size : (s : Stor) → s.RTI → s.fuelI ≤ s.size
  | .val size pay, h => by
    have := Stor.size_pos (.val size pay) h
    simp only [Stor.fuelI]; exact this
  | .ref _, _ => by simp [Stor.fuelI, Stor.size, slabIDStorableSize]; omega
  | .some s, h => by
    have := Stor.fuelI_le_size s h
    simp only [Stor.fuelI, Stor.size, someOverhead]; omega
  | .arr _ _ es, h => by
    have := fuelISts_le es h.2.2.2.1
    simp only [Stor.fuelI, Stor.size, inlinedArrayDataSlabPrefixSize]; omega
  | .map _ _ els, h => by
    have := MEls.fuelI_le_size els h.2.2.1
    simp only [Stor.fuelI, Stor.size, inlinedMapDataSlabPrefixSize]; omega
theorem fuelISts_le : (l : List Stor) → rtiSts l → fuelISts l ≤ sizeSts l + 1
  | [], _ => by simp [fuelISts]
  | s :: ss, h => by
    have h1 := Stor.fuelI_le_size s h.1
    have h2 := fuelISts_le ss h.2
    have h3 := Stor.size_pos s h.1
    simp only [fuelISts, sizeSts]; omega
theorem SEl.fuelI_lt_size : (e : SEl) → e.RTI → e.fuelI + 1 ≤ e.size
  | .mk k v, h => by
    have hk := Stor.fuelI_le_size k h.1
    have hv := Stor.fuelI_le_size v h.2.1
    have hk1 := Stor.size_pos k h.1
    have hv1 := Stor.size_pos v h.2.1
    simp only [SEl.fuelI, SEl.size, singleElementPrefixSize]; omega
theorem MEl.fuelI_le_size : (e : MEl) → e.RTI → e.fuelI ≤ e.size
  | .single e, h => by
    have := SEl.fuelI_lt_size e h
    simp only [MEl.fuelI, MEl.size]; omega
  | .inl els, h => by
    have := MEls.fuelI_le_size els h
    simp only [MEl.fuelI, MEl.size, inlineCollisionGroupPrefixSize]; omega
  | .ext _, _ => by
    simp [MEl.fuelI, MEl.size, externalCollisionGroupPrefixSize, slabIDStorableSize]
theorem MEls.fuelI_le_size : (els : MEls) → els.RTI → els.fuelI ≤ els.size + 1
  | .hkey _ _ es, h => by
    have h1 := fuelIMElList_le es h.2.2.2.2.1
    have h2 := sizeMEl_eq es
    simp only [MEls.fuelI, MEls.size, hkeyElementsPrefixSize]; omega
  | .single _ es, h => by
    have h1 := fuelISElList_le es h.2.2.2.1
    simp only [MEls.fuelI, MEls.size, singleElementsPrefixSize]; omega
theorem fuelIMElList_le : (l : List MEl) → rtiMElList l → fuelIMElList l ≤ bytesMEl l + 1
  | [], _ => by simp [fuelIMElList]
  | e :: es, h => by
    have h1 := MEl.fuelI_le_size e h.1
    have h2 := fuelIMElList_le es h.2
    have h3 : 1 ≤ e.fuelI := by
      cases e with
      | single e => simp [MEl.fuelI]
      | inl els => simp [MEl.fuelI]
      | ext id => simp [MEl.fuelI]
    simp only [fuelIMElList, bytesMEl]; omega
theorem fuelISElList_le : (l : List SEl) → rtiSElList l → fuelISElList l ≤ sizeSEl l + 1
  | [], _ => by simp [fuelISElList]
  | e :: es, h => by
    have h1 := SEl.fuelI_lt_size e h.1
    have h2 := fuelISElList_le es h.2
    simp only [fuelISElList, sizeSEl]; omega
end

mutual
theorem Stor.dneed_le : (s : Stor) → s.dneed ≤ s.vneedI
  | .val _ _ => by simp [Stor.dneed]
  | .ref _ => by simp [Stor.dneed]
  | .some s => by have := Stor.dneed_le s; simp only [Stor.dneed, Stor.vneedI]; omega
  | .arr _ _ es => by have := dneedSts_le es; simp only [Stor.dneed, Stor.vneedI]; omega
  | .map _ _ els => by have := MEls.dneed_le els; simp only [Stor.dneed, Stor.vneedI]; omega
theorem dneedSts_le : (l : List Stor) → dneedSts l ≤ vneedISts l
  | [] => by simp [dneedSts]
  | s :: ss => by
    have h1 := Stor.dneed_le s
    have h2 := dneedSts_le ss
    simp only [dneedSts, vneedISts]; omega
theorem SEl.dneed_le : (e : SEl) → e.dneed ≤ e.vneedI
  | .mk k v => by
    have h1 := Stor.dneed_le k
    have h2 := Stor.dneed_le v
    simp only [SEl.dneed, SEl.vneedI]; omega
theorem MEl.dneed_le : (e : MEl) → e.dneed ≤ e.vneedI
  | .single e => by have := SEl.dneed_le e; simp only [MEl.dneed, MEl.vneedI]; exact this
  | .inl els => by have := MEls.dneed_le els; simp only [MEl.dneed, MEl.vneedI]; omega
  | .ext _ => by simp [MEl.dneed]
theorem MEls.dneed_le : (els : MEls) → els.dneed ≤ els.vneedI
  | .hkey _ _ es => by have := dneedMElList_le es; simp only [MEls.dneed, MEls.vneedI]; omega
  | .single _ es => by have := dneedSElList_le es; simp only [MEls.dneed, MEls.vneedI]; omega
theorem dneedMElList_le : (l : List MEl) → dneedMElList l ≤ vneedIMElList l
  | [] => by simp [dneedMElList]
  | e :: es => by
    have h1 := MEl.dneed_le e
    have h2 := dneedMElList_le es
    simp only [dneedMElList, vneedIMElList]; omega
theorem dneedSElList_le : (l : List SEl) → dneedSElList l ≤ vneedISElList l
  | [] => by simp [dneedSElList]
  | e :: es => by
    have h1 := SEl.dneed_le e
    have h2 := dneedSElList_le es
    simp only [dneedSElList, vneedISElList]; omega
end

mutual
theorem Stor.OK_of_RTI : (s : Stor) → s.RTI → s.OK
  | .val _ _, h => h
  | .ref _, _ => trivial
  | .some s, h => Stor.OK_of_RTI s h
  | .arr _ _ es, h => okSts_of_RTI es h.2.2.2.1
  | .map _ _ els, h => MEls.OK_of_RTI els h.2.2.1
theorem okSts_of_RTI : (l : List Stor) → rtiSts l → okSts l
  | [], _ => trivial
  | s :: ss, h => ⟨Stor.OK_of_RTI s h.1, okSts_of_RTI ss h.2⟩
theorem SEl.OK_of_RTI : (e : SEl) → e.RTI → e.OK
  | .mk k v, h => ⟨Stor.OK_of_RTI k h.1, Stor.OK_of_RTI v h.2.1⟩
theorem MEl.OK_of_RTI : (e : MEl) → e.RTI → e.OK
  | .single e, h => SEl.OK_of_RTI e h
  | .inl els, h => MEls.OK_of_RTI els h
  | .ext _, _ => trivial
theorem MEls.OK_of_RTI : (els : MEls) → els.RTI → els.OK
  | .hkey _ _ es, h => ⟨h.2.1, okMElList_of_RTI es h.2.2.2.2.1⟩
  | .single _ es, h => okSElList_of_RTI es h.2.2.2.1
theorem okMElList_of_RTI : (l : List MEl) → rtiMElList l → okMElList l
  | [], _ => trivial
  | e :: es, h => ⟨MEl.OK_of_RTI e h.1, okMElList_of_RTI es h.2⟩
theorem okSElList_of_RTI : (l : List SEl) → rtiSElList l → okSElList l
  | [], _ => trivial
  | e :: es, h => ⟨SEl.OK_of_RTI e h.1, okSElList_of_RTI es h.2⟩
end

/-! ### map data slabs -/

/-- What the encoder and the decoder rely on for a map data slab, inlined arrays / maps allowed
    (not the compact form). -/
structure MapDataOKI (s : MapData) : Prop where
  rt : s.els.RTI
  noCompact : s.els.noCompact
  nest : s.els.vneedI ≤ maxNestedLevels
  entries : (encMEls s.els []).2.length ≤ 256
  next : validNext s.next
  extra : ∀ x, s.extra = some x → validMapExtra x
  size : s.size ≤ maxUint32

theorem mapDataContent_encI (id : SlabID) (h : SlabHead) (extra : Option MapExtra) (next : SlabID)
    (els : MEls) (hrt : els.RTI) (hnc : els.noCompact) (hnest : els.vneedI ≤ maxNestedLevels)
    (h256 : (encMEls els []).2.length ≤ 256)
    (hsz : versionAndFlagSize + els.size + (if h.isRoot then 0 else SlabIDLength) ≤ maxUint32)
    (more : Bytes) (n : Nat) :
    mapDataContent id h extra next (encMEls els []).2 ((encMEls els []).1 ++ more) n =
      .ok (.mdata { id := id, next := next, extra := extra, els := els, anySize := !h.hasSizeLimit,
                    group := decide (h.mapType = .collisionGroup) }) (n + els.allocsI) := by
  have hlen := lenMEls_eq els [] (MEls.OK_of_RTI els hrt) hnc
  have hw := wfNext_of_acc (accMElsI els [] hrt hnc) hnest more
  have hfuel := MEls.fuelI_le_size els hrt
  have hdn := MEls.dneed_le els
  unfold mapDataContent
  rw [decMElsG_new _ _ _ _ _ _ hw]
  have hrem : ((encMEls els []).1 ++ more).length - more.length = els.size := by simp [hlen]
  have hspec := decMElsG_encI els hrt hnc (((encMEls els []).1 ++ more).length + 1) 0 more els.size 0 id.addr []
    (encMEls els []).2 n XOK.nil ⟨[], by simp⟩ h256
    (by simp only [List.length_append, hlen]; omega)
    (by simp only [maxDecodeDepth, maxNestedLevels] at hnest ⊢; omega) (Nat.le_refl _)
  rw [hrem, DM.bind_ok hspec]
  simp only
  have h1 : ¬ (versionAndFlagSize + els.size > maxUint32) := by split at hsz <;> omega
  have h2 : ¬ (¬ h.isRoot = true ∧ versionAndFlagSize + els.size + SlabIDLength > maxUint32) := by
    intro hc
    rw [if_neg hc.1] at hsz
    omega
  rw [DM.ite_apply, if_neg h1, DM.ite_apply, if_neg h2]
  rfl

/-- slice elements the decoder allocates for the inlined-extra-data section -/
def iedAllocs (xs : List XD) : Nat :=
  if xs.isEmpty then 0 else (findDuplicateTypeInfo xs).length + xs.length

/-- `newMapDataSlabFromDataV1` on what `MapDataSlab.Encode` writes after the two head bytes -/
theorem newMapDataSlabFromDataV1_encI (id : SlabID) (h : SlabHead) (extra : Option MapExtra) (next : SlabID)
    (els : MEls) (hroot : h.isRoot = extra.isSome) (hinl : h.hasInlinedSlabs = !(encMEls els []).2.isEmpty)
    (hnx : h.hasNextSlabID = decide (next ≠ SlabID.undef))
    (hrt : els.RTI) (hnc : els.noCompact) (hnest : els.vneedI ≤ maxNestedLevels)
    (h256 : (encMEls els []).2.length ≤ 256) (hnext : validNext next)
    (hextra : ∀ x, extra = some x → validMapExtra x)
    (hsz : versionAndFlagSize + els.size + (if extra.isSome then 0 else SlabIDLength) ≤ maxUint32)
    (more : Bytes) (n : Nat) :
    newMapDataSlabFromDataV1 id h (mapExtraBytes extra ++ (encodeIEDSection (encMEls els []).2 ++
        ((if decide (next ≠ SlabID.undef) = true then encodeSlabID next else []) ++ ((encMEls els []).1 ++ more)))) n =
      .ok (.mdata { id := id, next := next, extra := extra, els := els, anySize := !h.hasSizeLimit,
                    group := decide (h.mapType = .collisionGroup) }) (n + iedAllocs (encMEls els []).2 + els.allocsI) := by
  have hxok : XOK (encMEls els []).2 := (encMEls_state els [] hrt hnc XOK.nil).2
  have hcontent : ∀ (nx : SlabID) (k : Nat), mapDataContent id h extra nx (encMEls els []).2 ((encMEls els []).1 ++ more) k =
      .ok (.mdata { id := id, next := nx, extra := extra, els := els, anySize := !h.hasSizeLimit,
                    group := decide (h.mapType = .collisionGroup) }) (k + els.allocsI) := by
    intro nx k
    exact mapDataContent_encI id h extra nx els hrt hnc hnest h256 (by rw [hroot]; exact hsz) more k
  have hied : ∀ (k : Nat), mapDataV1AfterIED id h extra (encMEls els []).2
      ((if decide (next ≠ SlabID.undef) = true then encodeSlabID next else []) ++ ((encMEls els []).1 ++ more)) k =
      .ok (.mdata { id := id, next := next, extra := extra, els := els, anySize := !h.hasSizeLimit,
                    group := decide (h.mapType = .collisionGroup) }) (k + els.allocsI) := by
    intro k
    unfold mapDataV1AfterIED
    rw [hnx]
    by_cases hn : next = SlabID.undef
    · subst hn
      simp only [ne_eq, not_true_eq_false, decide_false, Bool.false_eq_true, ↓reduceIte, List.nil_append]
      exact hcontent _ k
    · simp only [ne_eq, hn, not_false_eq_true, decide_true, ↓reduceIte]
      have hl : ¬ (encodeSlabID next ++ ((encMEls els []).1 ++ more)).length < SlabIDLength := by
        simp [length_encodeSlabID, SlabIDLength]
      rw [if_neg hl, newSlabIDFromRawBytes_enc_append next hnext.1 hnext.2]
      simp only [DM.pure_bind]
      unfold sliceFrom
      rw [if_pos (by simp [length_encodeSlabID, SlabIDLength])]
      simp only [DM.pure_bind]
      have hdrop : (encodeSlabID next ++ ((encMEls els []).1 ++ more)).drop SlabIDLength = (encMEls els []).1 ++ more :=
        List.drop_left' (by simp [length_encodeSlabID, SlabIDLength])
      rw [hdrop]
      exact hcontent _ k
  have hafter : mapDataV1AfterExtra id h extra (encodeIEDSection (encMEls els []).2 ++
      ((if decide (next ≠ SlabID.undef) = true then encodeSlabID next else []) ++ ((encMEls els []).1 ++ more))) n =
      .ok (.mdata { id := id, next := next, extra := extra, els := els, anySize := !h.hasSizeLimit,
                    group := decide (h.mapType = .collisionGroup) }) (n + iedAllocs (encMEls els []).2 + els.allocsI) := by
    unfold mapDataV1AfterExtra
    rw [hinl]
    by_cases hemp : (encMEls els []).2 = []
    · simp only [hemp, List.isEmpty_nil, Bool.not_true, Bool.false_eq_true, ↓reduceIte, encodeIEDSection,
        List.nil_append, iedAllocs, Nat.add_zero]
      have := hied n
      rw [hemp] at this
      exact this
    · have hne : (encMEls els []).2.isEmpty = false := by
        cases hxs : (encMEls els []).2 with
        | nil => exact absurd hxs hemp
        | cons a b => rfl
      simp only [hne, Bool.not_false, ↓reduceIte, encodeIEDSection, iedAllocs, Bool.false_eq_true]
      rw [DM.bind_ok (newInlinedExtraDataFromData_enc (encMEls els []).2 hxok hemp h256 _ n)]
      have := hied (n + (findDuplicateTypeInfo (encMEls els []).2).length + (encMEls els []).2.length)
      simp only [Nat.add_assoc] at this ⊢
      exact this
  unfold newMapDataSlabFromDataV1
  cases extra with
  | none =>
    simp only [Option.isSome_none] at hroot
    simp only [hroot, Bool.false_eq_true, ↓reduceIte, mapExtraBytes, List.nil_append]
    exact hafter
  | some x =>
    simp only [Option.isSome_some] at hroot
    simp only [hroot, ↓reduceIte, mapExtraBytes]
    rw [newMapExtraDataFromData_enc x (hextra x rfl)]
    simp only [DM.pure_bind]
    exact hafter

/-- `DecodeSlab` on the encoding of a map data / collision-group slab with inlined arrays / maps
    (any depth, shared and repeated type infos; not the compact form), followed by ANY `more` bytes -/
theorem decodeSlab_encodeMapDataI (s : MapData) (ok : MapDataOKI s) (more : Bytes) (n : Nat) :
    decodeSlab s.id (encodeMapData s ++ more) n
      = .ok (.mdata s) (n + iedAllocs (encMEls s.els []).2 + s.els.allocsI) := by
  obtain ⟨id, next, extra, els, anySize, group⟩ := s
  obtain ⟨hrt, hnc, hnest, h256, hnext, hextra, hsize⟩ := ok
  simp only at hrt hnc hnest h256 hnext hextra hsize
  have hf := head_mdata_facts (decide (next ≠ SlabID.undef)) (!(encMEls els []).2.isEmpty) group els.hasPtr anySize
    extra.isSome
  simp only at hf
  obtain ⟨hf1, hf2, hf3, hf4, _, hf6, hf7, hf8⟩ := hf
  unfold encodeMapData
  simp only [List.cons_append, List.nil_append, List.append_assoc]
  rw [decodeSlab_of_flat_unsupported (decodeSlabFlat_map _ _ _ _ n hf1),
    decodeSlabGen_mapData _ _ _ _ hf1 (by rw [hf2]; cases group <;> simp),
    newMapDataSlabFromData_cons2]
  have hty : ¬ ((if group = true then MapType.collisionGroup else MapType.data) ≠ MapType.data ∧
      (if group = true then MapType.collisionGroup else MapType.data) ≠ MapType.collisionGroup) := by
    cases group <;> simp
  rw [hf2, hf3, if_neg hty]
  simp only [show ¬ ((1 : Nat) = 0) by decide, ↓reduceIte]
  have hsz' : versionAndFlagSize + els.size + (if extra.isSome then 0 else SlabIDLength) ≤ maxUint32 := by
    simpa [MapData.size] using hsize
  have key := newMapDataSlabFromDataV1_encI id _ extra next els hf4 hf7 hf8 hrt hnc hnest h256 hnext hextra hsz' more n
  rw [hf6, hf2] at key
  refine Eq.trans ?_ (Eq.trans key ?_)
  · rfl
  · cases group <;> simp

/-! ### array data slabs with inlined children -/

/-- What the encoder and the decoder rely on for an array data slab that holds at least one inlined
    array / map (not the compact form). -/
structure ArrDataOKI (a : ArrData) : Prop where
  rt : rtiSts a.elems
  noCompact : noCompactSts a.elems
  nest : vneedISts a.elems + 1 ≤ maxNestedLevels
  count : a.elems.length < 65536
  inlined : (encSts a.elems []).2 ≠ []
  entries : (encSts a.elems []).2.length ≤ 256
  next : validNext a.next
  ty : ∀ t, a.ty = some t → validTy t
  size : a.size ≤ maxUint32

theorem newArrayDataSlabFromDataG_cons2 (id : SlabID) (b0 b1 : Nat) (tail : Bytes) :
    newArrayDataSlabFromDataG id (b0 :: b1 :: tail) =
      if (⟨b0, b1⟩ : SlabHead).arrayType ≠ .data then DM.fail
      else if (⟨b0, b1⟩ : SlabHead).version = 0 then newArrayDataSlabFromDataV0G id ⟨b0, b1⟩ tail
      else if (⟨b0, b1⟩ : SlabHead).version = 1 then newArrayDataSlabFromDataV1G id ⟨b0, b1⟩ tail
      else DM.fail := by
  unfold newArrayDataSlabFromDataG
  have h2 : ¬ (b0 :: b1 :: tail).length < versionAndFlagSize := by simp [versionAndFlagSize]
  rw [if_neg h2]
  unfold sliceTo sliceFrom
  rw [if_pos (by simp [versionAndFlagSize]), if_pos (by simp [versionAndFlagSize])]
  simp only [DM.pure_bind, versionAndFlagSize, List.take_succ_cons, List.take_zero, newHeadFromData,
    List.drop_succ_cons, List.drop_zero]

/-- the root's extra-data section of an array slab -/
def arrExtraBytes : Option TyInfo → Bytes
  | some t => encodeExtraData t
  | none => []

theorem arrDataContentG_enc (id : SlabID) (isRoot : Bool) (ty : Option TyInfo) (next : SlabID)
    (elems : List Stor) (hrt : rtiSts elems) (hnc : noCompactSts elems)
    (hnest : vneedISts elems + 1 ≤ maxNestedLevels) (hcount : elems.length < 65536)
    (h256 : (encSts elems []).2.length ≤ 256)
    (hsz : (if isRoot then arrayRootDataSlabPrefixSize else arrayDataSlabPrefixSize) + sizeSts elems ≤ maxUint32)
    (extra : Bytes) (n : Nat) :
    arrDataContentG id isRoot ty next true (encSts elems []).2
        (arrayHead16 elems.length ++ ((encSts elems []).1 ++ extra)) n =
      if extra ≠ [] then .error .decoding (n + elems.length + allocsISts elems)
      else .ok (.adata { id := id, next := next, ty := ty, elems := elems }) (n + elems.length + allocsISts elems) := by
  have hlen := lenSts_eq elems [] (okSts_of_RTI elems hrt) hnc
  have hacc : Acc (arrayHead16 elems.length ++ (encSts elems []).1) (vneedISts elems + 1) := by
    have := Acc.array16 (l := encStParts elems []) (k := vneedISts elems)
      (by rw [encStParts_length]; exact hcount) (accStPartsI elems [] hrt hnc)
    rw [encStParts_length, encStParts_flatten] at this
    exact this
  have hw := wfNext_of_acc hacc hnest extra
  rw [List.append_assoc] at hw
  have hfuel := fuelISts_le elems hrt
  have hdn := dneedSts_le elems
  have hL : (arrayHead16 elems.length ++ ((encSts elems []).1 ++ extra)).length = 3 + sizeSts elems + extra.length := by
    simp only [List.length_append, length_arrayHead16, hlen]; omega
  unfold arrDataContentG
  rw [if_neg (by rw [hL]; simp only [arrayDataSlabElementHeadSize]; omega)]
  have hhead : (Dec.new (arrayHead16 elems.length ++ ((encSts elems []).1 ++ extra))).decodeArrayHead
      = some (elems.length, (⟨(encSts elems []).1 ++ extra, sizeSts elems, 3⟩ : Dec)) := by
    show Dec.decodeHeadOf 4 _ = _
    rw [decodeHeadOf_new hw]
    have hrem : (arrayHead16 elems.length ++ ((encSts elems []).1 ++ extra)).length - extra.length = 3 + sizeSts elems := by
      rw [hL]; omega
    rw [hrem]
    have := decodeArrayHead_head16 hcount ((encSts elems []).1 ++ extra) (3 + sizeSts elems) 0 (by omega)
    simp only [Nat.zero_add, Nat.add_sub_cancel_left] at this
    exact this
  rw [hhead]
  simp only [DM.liftOpt_some, DM.pure_bind]
  have hc1 : ¬ (elems.length > maxUint32) := by simp only [maxUint32]; omega
  simp only [hc1, ↓reduceIte]
  rw [DM.alloc_bind]
  simp only
  have hspec := decStsG_encI elems hrt hnc ((arrayHead16 elems.length ++ ((encSts elems []).1 ++ extra)).length + 1) 0
    extra (sizeSts elems) 3 id.addr [] (encSts elems []).2
    (if isRoot then arrayRootDataSlabPrefixSize else arrayDataSlabPrefixSize) (n + elems.length)
    XOK.nil ⟨[], by simp⟩ h256 (by rw [hL]; omega)
    (by simp only [maxDecodeDepth, maxNestedLevels] at hnest ⊢; omega) (Nat.le_refl _) hsz
  rw [DM.bind_ok hspec]
  simp only [Dec.numBytesDecoded, Nat.sub_self]
  by_cases hex : extra = []
  · subst hex
    have hc : ¬ (True ∧ 3 + sizeSts elems < (arrayHead16 elems.length ++ ((encSts elems []).1 ++ [])).length) := by
      rw [hL]; simp
    simp only [hc, ↓reduceIte, ne_eq, not_true_eq_false]
    rfl
  · have hpos : 0 < extra.length := List.length_pos_iff.2 hex
    have hc : 3 + sizeSts elems < (arrayHead16 elems.length ++ ((encSts elems []).1 ++ extra)).length := by
      rw [hL]; omega
    simp only [true_and, hc, ↓reduceIte, ne_eq, hex, not_false_eq_true]
    rfl

theorem newArrayExtraDataFromData_arr (ty : Option TyInfo) (hty : ∀ t, ty = some t → validTy t) (rest : Bytes) :
    ∀ t, ty = some t → newArrayExtraDataFromData (arrExtraBytes ty ++ rest) = pure (t, rest) := by
  intro t ht
  subst ht
  exact newArrayExtraDataFromData_enc t (hty t rfl) rest

/-- the part of `newArrayDataSlabFromDataV1` after the root's extra data -/
theorem arrDataV1AfterExtraG_enc (id : SlabID) (h : SlabHead) (ty : Option TyInfo) (next : SlabID)
    (elems : List Stor) (hroot : h.isRoot = ty.isSome) (hinl : h.hasInlinedSlabs = true)
    (hnx : h.hasNextSlabID = decide (next ≠ SlabID.undef))
    (hrt : rtiSts elems) (hnc : noCompactSts elems) (hnest : vneedISts elems + 1 ≤ maxNestedLevels)
    (hcount : elems.length < 65536) (hne : (encSts elems []).2 ≠ []) (h256 : (encSts elems []).2.length ≤ 256)
    (hnext : validNext next)
    (hsz : (if ty.isSome then arrayRootDataSlabPrefixSize else arrayDataSlabPrefixSize) + sizeSts elems ≤ maxUint32)
    (extra : Bytes) (n : Nat) :
    arrDataV1AfterExtraG id h ty
      (encodeIED (encSts elems []).2 ++ ((if decide (next ≠ SlabID.undef) = true then encodeSlabID next else []) ++
        (arrayHead16 elems.length ++ ((encSts elems []).1 ++ extra)))) n =
      if extra ≠ [] then .error .decoding (n + iedAllocs (encSts elems []).2 + elems.length + allocsISts elems)
      else .ok (.adata { id := id, next := next, ty := ty, elems := elems })
        (n + iedAllocs (encSts elems []).2 + elems.length + allocsISts elems) := by
  have hxok : XOK (encSts elems []).2 := (encSts_state elems [] hrt hnc XOK.nil).2
  have hemp : (encSts elems []).2.isEmpty = false := by
    cases hxs : (encSts elems []).2 with
    | nil => exact absurd hxs hne
    | cons a b => rfl
  unfold arrDataV1AfterExtraG
  rw [hinl]
  simp only [↓reduceIte]
  rw [DM.bind_ok (newInlinedExtraDataFromData_enc (encSts elems []).2 hxok hne h256 _ n)]
  simp only [iedAllocs, hemp, Bool.false_eq_true, ↓reduceIte]
  unfold arrDataV1AfterIEDG
  rw [hnx, hroot]
  by_cases hnxt : next = SlabID.undef
  · have hd : decide (next ≠ SlabID.undef) = false := by simp [hnxt]
    simp only [hd, Bool.false_eq_true, ↓reduceIte, List.nil_append]
    have := arrDataContentG_enc id ty.isSome ty SlabID.undef elems hrt hnc hnest hcount h256 hsz extra
      (n + (findDuplicateTypeInfo (encSts elems []).2).length + (encSts elems []).2.length)
    rw [hnxt]
    simp only [Nat.add_assoc] at this ⊢
    exact this
  · have hd : decide (next ≠ SlabID.undef) = true := by simp [hnxt]
    simp only [hd, ↓reduceIte]
    rw [newSlabIDFromRawBytes_enc_append next hnext.1 hnext.2]
    simp only [DM.pure_bind]
    unfold sliceFrom
    rw [if_pos (by simp [length_encodeSlabID, SlabIDLength])]
    simp only [DM.pure_bind]
    rw [List.drop_left' (by simp [length_encodeSlabID, SlabIDLength])]
    have := arrDataContentG_enc id ty.isSome ty next elems hrt hnc hnest hcount h256 hsz extra
      (n + (findDuplicateTypeInfo (encSts elems []).2).length + (encSts elems []).2.length)
    simp only [Nat.add_assoc] at this ⊢
    exact this

/-- the first part of the decoder gives up at the has-inlined-slabs flag -/
theorem dataV1AfterExtra_inlined (id : SlabID) (h : SlabHead) (tyo : Option TyInfo) (data : Bytes) (k : Nat)
    (hinl : h.hasInlinedSlabs = true) : dataV1AfterExtra id h tyo data k = .error .unsupported k := by
  unfold dataV1AfterExtra
  rw [hinl]
  rfl

/-- `decodeSlabFlat` on a version-1 array data slab register whose head has the has-inlined-slabs bit -/
theorem decodeSlabFlat_adata_inlined (id : SlabID) (b0 b1 : Nat) (tail : Bytes) (n : Nat)
    (h1 : (⟨b0, b1⟩ : SlabHead).slabType = .array) (h2 : (⟨b0, b1⟩ : SlabHead).arrayType = .data)
    (h3 : (⟨b0, b1⟩ : SlabHead).version = 1) (h7 : (⟨b0, b1⟩ : SlabHead).hasInlinedSlabs = true)
    (hextra : (⟨b0, b1⟩ : SlabHead).isRoot = true → ∃ t rest, newArrayExtraDataFromData tail = pure (t, rest)) :
    decodeSlabFlat id (b0 :: b1 :: tail) n = .error .unsupported n := by
  rw [decodeSlabFlat_cons2, h1]
  simp only [h2]
  rw [newArrayDataSlabFromData_cons2, h2, h3]
  simp only [ne_eq, not_true_eq_false, ↓reduceIte, show ¬ ((1 : Nat) = 0) by decide]
  unfold newArrayDataSlabFromDataV1
  by_cases hr : (⟨b0, b1⟩ : SlabHead).isRoot = true
  · obtain ⟨t, rest, he⟩ := hextra hr
    simp only [hr, ↓reduceIte]
    rw [he]
    simp only [DM.pure_bind]
    exact dataV1AfterExtra_inlined _ _ _ _ _ h7
  · simp only [hr, Bool.false_eq_true, ↓reduceIte]
    exact dataV1AfterExtra_inlined _ _ _ _ _ h7

/-- `DecodeSlab` on the encoding of an array data slab that holds inlined arrays / maps (any depth,
    shared and repeated type infos; not the compact form), followed by `extra` bytes -/
theorem decodeSlab_encodeArrDataI (a : ArrData) (ok : ArrDataOKI a) (extra : Bytes) (n : Nat) :
    decodeSlab a.id (encodeArrData a ++ extra) n =
      if extra ≠ [] then .error .decoding (n + iedAllocs (encSts a.elems []).2 + a.elems.length + allocsISts a.elems)
      else .ok (.adata a) (n + iedAllocs (encSts a.elems []).2 + a.elems.length + allocsISts a.elems) := by
  obtain ⟨id, next, ty, elems⟩ := a
  obtain ⟨hrt, hnc, hnest, hcount, hinl, h256, hnext, hty, hsize⟩ := ok
  simp only at hrt hnc hnest hcount hinl h256 hnext hty hsize
  have hne : (encSts elems []).2.isEmpty = false := by
    cases hxs : (encSts elems []).2 with
    | nil => exact absurd hxs hinl
    | cons a b => rfl
  have hf := head_adata_facts (decide (next ≠ SlabID.undef)) true (anyPtrSts elems) ty.isSome
  simp only at hf
  obtain ⟨hf1, hf2, hf3, hf4, _, _, hf7, hf8⟩ := hf
  have hsz' : (if ty.isSome then arrayRootDataSlabPrefixSize else arrayDataSlabPrefixSize) + sizeSts elems ≤ maxUint32 := by
    simpa [ArrData.size] using hsize
  have hgen := arrDataV1AfterExtraG_enc id _ ty next elems hf4 hf7 hf8 hrt hnc hnest hcount hinl h256 hnext hsz' extra n
  unfold encodeArrData
  simp only [hne, Bool.not_false, List.cons_append, List.nil_append, List.append_assoc, encodeIEDSection,
    Bool.false_eq_true, ↓reduceIte]
  cases ty with
  | none =>
    have hr4 : _ = false := hf4
    simp only [List.nil_append]
    have hflat := decodeSlabFlat_adata_inlined id _ _
      (encodeIED (encSts elems []).2 ++ ((if decide (next ≠ SlabID.undef) = true then encodeSlabID next else []) ++
        (arrayHead16 elems.length ++ ((encSts elems []).1 ++ extra)))) n hf1 hf2 hf3 hf7
      (by intro hr; rw [hr4] at hr; cases hr)
    rw [decodeSlab_of_flat_unsupported hflat, decodeSlabGen_cons2, hf1]
    simp only [hf2]
    rw [newArrayDataSlabFromDataG_cons2, hf2, hf3]
    simp only [ne_eq, not_true_eq_false, ↓reduceIte, show ¬ ((1 : Nat) = 0) by decide]
    unfold newArrayDataSlabFromDataV1G
    rw [hr4]
    simp only [Bool.false_eq_true, ↓reduceIte]
    exact hgen
  | some t =>
    have hr4 : _ = true := hf4
    have hflat := decodeSlabFlat_adata_inlined id _ _
      (encodeExtraData t ++ (encodeIED (encSts elems []).2 ++
        ((if decide (next ≠ SlabID.undef) = true then encodeSlabID next else []) ++
        (arrayHead16 elems.length ++ ((encSts elems []).1 ++ extra))))) n hf1 hf2 hf3 hf7
      (by intro _; exact ⟨t, _, newArrayExtraDataFromData_enc t (hty t rfl) _⟩)
    rw [decodeSlab_of_flat_unsupported hflat, decodeSlabGen_cons2, hf1]
    simp only [hf2]
    rw [newArrayDataSlabFromDataG_cons2, hf2, hf3]
    simp only [ne_eq, not_true_eq_false, ↓reduceIte, show ¬ ((1 : Nat) = 0) by decide]
    unfold newArrayDataSlabFromDataV1G
    rw [hr4]
    simp only [↓reduceIte]
    rw [newArrayExtraDataFromData_enc t (hty t rfl)]
    simp only [DM.pure_bind]
    exact hgen

end Atree.Codec
