import AtreeProofs.Codec.CmpSlab
/-
  Re-encoding what the decoder returns for a slab with compact maps gives the register back:
  `encSt (normSt s xs) xs = encSt s xs` (bytes AND extra-data state), and the has-pointers flag is
  the same.
-/
namespace Atree.Codec
open Atree Atree.Gen DM

/-! ### the decoded elements of a compact map, re-encoded -/

theorem normVals_append (elems : List MEl) : ∀ (a b : List (Nat × Nat)) (st : List XD),
    normVals elems (a ++ b) st = normVals elems a st ++ normVals elems b (encVals elems a st).2
  | [], b, st => by simp [normVals, encVals]
  | k :: a, b, st => by
    simp only [List.cons_append, normVals, encVals, normVals_append elems a b]

theorem encVals_append_state (elems : List MEl) : ∀ (a b : List (Nat × Nat)) (st : List XD),
    (encVals elems (a ++ b) st).2 = (encVals elems b (encVals elems a st).2).2
  | [], b, st => by simp [encVals]
  | k :: a, b, st => by
    simp only [List.cons_append, encVals, encVals_append_state elems a b]

theorem mapM_normVals (elems : List MEl) : ∀ (ks : List (Nat × Nat)) (st : List XD),
    (normVals elems ks st).mapM compactKey = some ks
  | [], st => by simp [normVals]
  | k :: ks, st => by
    simp only [normVals, List.mapM_cons, compactKey, mapM_normVals elems ks]
    rfl

/-- looking a key up among the decoded elements skips the elements of other keys -/
theorem encFind_skip_normVals (elems : List MEl) (k : Nat × Nat) (rest : List MEl) (st : List XD) :
    ∀ (done : List (Nat × Nat)) (st0 : List XD), k ∉ done →
      encFind k (normVals elems done st0 ++ rest) st = encFind k rest st
  | [], st0, _ => by simp [normVals]
  | k' :: done, st0, hk => by
    have hne : ¬ ((k'.1, k'.2) = k) := by
      intro h; apply hk; rw [← h]; exact List.mem_cons_self ..
    simp only [normVals, List.cons_append, encFind, if_neg hne]
    exact encFind_skip_normVals elems k rest st done _ (fun h => hk (List.mem_cons_of_mem _ h))

/-- asking `addCompactMapExtraData` again with what the shared entry holds gives the same answer -/
theorem addCompactXD_idem (xs : List XD) (x : MapExtra) (hkeys : List Nat) (keys : List (Nat × Nat))
    {x' : MapExtra} {hk' : List Nat}
    (hget : (addCompactXD xs x hkeys keys).2.2[(addCompactXD xs x hkeys keys).1]?
      = some (.cmap x' hk' (addCompactXD xs x hkeys keys).2.1)) :
    addCompactXD xs x' hk' (addCompactXD xs x hkeys keys).2.1 = addCompactXD xs x hkeys keys := by
  unfold addCompactXD at hget ⊢
  cases hf : findIdxFrom (sameCompactType x.ty keys) xs 0 with
  | none =>
    rw [hf] at hget
    simp only [List.getElem?_append_right (Nat.le_refl _), Nat.sub_self, List.getElem?_cons_zero, Option.some.injEq,
      XD.cmap.injEq] at hget
    simp only [hf]
    rw [← hget.1, ← hget.2.1, hf]
  | some i =>
    rw [hf] at hget
    obtain ⟨_, y, hy, hp⟩ := findIdxFrom_some _ xs 0 i hf
    simp only [Nat.sub_zero] at hy
    simp only [hy] at hget
    cases y with
    | arr t => simp [sameCompactType] at hp
    | map m => simp [sameCompactType] at hp
    | cmap x'' hk'' keys'' =>
      rw [hy] at hget
      simp only [Option.some.injEq, XD.cmap.injEq] at hget
      simp only [sameCompactType, Bool.and_eq_true] at hp
      have hfun : sameCompactType x'.ty keys'' = sameCompactType x.ty keys := by
        funext z
        cases z with
        | arr t => rfl
        | map m => rfl
        | cmap a b c =>
          simp only [sameCompactType]
          rw [← hget.1, eq_of_beq hp.1, eq_of_beq hp.2]
      simp only [hy]
      rw [hfun, hf]
      simp only [hy]

/-! ### decoding does not change which maps are compact-eligible -/

theorem compactKey_normMEl (e : MEl) (xs : List XD) : compactKey (normMEl e xs) = compactKey e := by
  cases e with
  | single se =>
    obtain ⟨k, v⟩ := se
    cases k with
    | val s p => simp only [normMEl, normSEl, normSt, compactKey]
    | ref id => simp only [normMEl, normSEl, normSt, compactKey]
    | some s => simp only [normMEl, normSEl, normSt, compactKey]
    | arr ty idx es => simp only [normMEl, normSEl, normSt, compactKey]
    | map x idx els =>
      cases els with
      | hkey level hkeys elems =>
        simp only [normMEl, normSEl, normSt]
        split
        · split <;> simp only [compactKey]
        · simp only [compactKey]
      | single level elems => simp only [normMEl, normSEl, normSt, compactKey]
  | inl els => simp only [normMEl, compactKey]
  | ext id => simp only [normMEl, compactKey]

theorem mapM_compactKey_norm : ∀ (l : List MEl) (xs : List XD),
    (normMElList l xs).mapM compactKey = l.mapM compactKey
  | [], xs => by simp only [normMElList]
  | e :: es, xs => by
    simp only [normMElList, List.mapM_cons, compactKey_normMEl, mapM_compactKey_norm es]

theorem compactKeys_norm (x : MapExtra) (l : List MEl) (xs : List XD) :
    compactKeys x (normMElList l xs) = compactKeys x l := by
  unfold compactKeys
  rw [length_normMElList, mapM_compactKey_norm]

/-! ### re-encoding -/

mutual
theorem encSt_norm : (s : Stor) → (xs : List XD) → s.RTI → s.nodupKeys → XOKC xs →
    encSt (normSt s xs) xs = encSt s xs
  | .val _ _, xs, _, _, _ => by simp only [normSt]
  | .ref _, xs, _, _, _ => by simp only [normSt]
  | .some s, xs, h, nd, hx => by simp only [normSt, encSt, encSt_norm s xs h nd hx]
  | .arr ty idx es, xs, h, nd, hx => by
    obtain ⟨_, hxa, _⟩ := addArrayXD_specC xs ty hx h.1
    simp only [normSt, encSt, length_normSts, encSts_norm es _ h.2.2.2.1 nd hxa]
  | .map x idx (.hkey level hkeys elems), xs, h, nd, hx => by
    obtain ⟨hmx, hidx, hels, hsz⟩ := h
    have hes : rtiMElList elems := hels.2.2.2.2.1
    cases hc : compactKeys x elems with
    | none =>
      obtain ⟨_, hxa, _⟩ := addMapXD_specC xs x hx hmx
      have hc' : compactKeys x (normMElList elems (addMapXD xs x).2) = none := by rw [compactKeys_norm]; exact hc
      simp only [normSt, hc, encSt, hc', length_normMElList, encMElList_norm elems _ hes nd.2 hxa]
    | some keys =>
      have hm := compactKeys_mapM hc
      have hnd := nd.1 keys hc
      have hperm := addCompactXD_perm xs x hkeys keys
      have hv := cmap_validC hmx hels hc
      obtain ⟨_, hxa, x', hk', hget⟩ := addCompactXD_specC xs x hkeys keys hx hv
      have hE : encSt (.map x idx (.hkey level hkeys elems)) xs =
          (inlinedHead CBORTagInlinedCompactMap (addCompactXD xs x hkeys keys).1 ++ encodeIdx idx ++
            head 4 (addCompactXD xs x hkeys keys).2.1.length ++
            (encVals elems (addCompactXD xs x hkeys keys).2.1 (addCompactXD xs x hkeys keys).2.2).1,
           (encVals elems (addCompactXD xs x hkeys keys).2.1 (addCompactXD xs x hkeys keys).2.2).2) := by
        simp only [encSt, hc, foldl_encFind_eq, List.nil_append]
      have hN : normSt (.map x idx (.hkey level hkeys elems)) xs =
          .map x' idx (.hkey 0 hk'
            (normVals elems (addCompactXD xs x hkeys keys).2.1 (addCompactXD xs x hkeys keys).2.2)) := by
        simp only [normSt, hc, foldl_normFind_eq, List.nil_append, hget]
      have hent : (XD.cmap x' hk' (addCompactXD xs x hkeys keys).2.1).validC := hxa _ (List.mem_of_getElem? hget)
      have hcN : compactKeys x' (normVals elems (addCompactXD xs x hkeys keys).2.1 (addCompactXD xs x hkeys keys).2.2)
          = some (addCompactXD xs x hkeys keys).2.1 := by
        unfold compactKeys
        rw [if_pos ⟨hent.2.2.2.2.2.1, by rw [length_normVals]; exact hent.2.2.2.2.2.2⟩]
        exact mapM_normVals elems _ _
      have hidem := addCompactXD_idem xs x hkeys keys hget
      have hcnd : (addCompactXD xs x hkeys keys).2.1.Nodup := hperm.nodup_iff.2 hnd
      have hcached : ∀ k ∈ (addCompactXD xs x hkeys keys).2.1, hasKey k elems :=
        fun k hk => hasKey_of_mapM elems keys hm k (hperm.subset hk)
      have hfind : ∀ k st, XOKC st → hasKey k elems → encSt (normFind k elems st) st = encFind k elems st :=
        fun k st hst hk => encFind_norm k elems st hes nd.2 hst hk
      -- the states the loop goes through are valid, so `hfind` applies along the way
      have hvals : ∀ (ks done : List (Nat × Nat)), (addCompactXD xs x hkeys keys).2.1 = done ++ ks →
          encVals (normVals elems (addCompactXD xs x hkeys keys).2.1 (addCompactXD xs x hkeys keys).2.2) ks
              (encVals elems done (addCompactXD xs x hkeys keys).2.2).2
            = encVals elems ks (encVals elems done (addCompactXD xs x hkeys keys).2.2).2 := by
        intro ks
        induction ks with
        | nil => intro done _; simp only [encVals]
        | cons k ks ih =>
          intro done hsplit
          have hkin : k ∈ (addCompactXD xs x hkeys keys).2.1 := by rw [hsplit]; simp
          have hknot : k ∉ done := by
            rw [hsplit] at hcnd
            have := (List.nodup_append.1 hcnd).2.2
            intro hd
            exact this k hd k (List.mem_cons_self ..) rfl
          have hstd := (encVals_stateC elems hes done _ hxa).2
          have hV : normVals elems (addCompactXD xs x hkeys keys).2.1 (addCompactXD xs x hkeys keys).2.2
              = normVals elems done (addCompactXD xs x hkeys keys).2.2 ++
                (MEl.single (.mk (.val k.1 k.2)
                    (normFind k elems (encVals elems done (addCompactXD xs x hkeys keys).2.2).2)) ::
                  normVals elems ks (encFind k elems (encVals elems done (addCompactXD xs x hkeys keys).2.2).2).2) := by
            conv => lhs; rw [hsplit]
            rw [normVals_append]; simp only [normVals]
          have hfk : encFind k (normVals elems (addCompactXD xs x hkeys keys).2.1 (addCompactXD xs x hkeys keys).2.2)
                (encVals elems done (addCompactXD xs x hkeys keys).2.2).2
              = encFind k elems (encVals elems done (addCompactXD xs x hkeys keys).2.2).2 := by
            rw [hV, encFind_skip_normVals elems k _ _ done _ hknot]
            simp only [encFind, ↓reduceIte]
            exact hfind k _ hstd (hcached k hkin)
          have hstate : (encVals elems (done ++ [k]) (addCompactXD xs x hkeys keys).2.2).2
              = (encFind k elems (encVals elems done (addCompactXD xs x hkeys keys).2.2).2).2 := by
            rw [encVals_append_state]; simp only [encVals]
          have ih' := ih (done ++ [k]) (by rw [hsplit]; simp)
          rw [hstate] at ih'
          simp only [encVals, hfk, ih']
      have hv0 := hvals (addCompactXD xs x hkeys keys).2.1 [] (by simp)
      simp only [encVals] at hv0
      rw [hN, hE]
      simp only [encSt, hcN, foldl_encFind_eq, List.nil_append, hidem, hv0]
  | .map x idx (.single level elems), xs, h, nd, hx => by
    obtain ⟨_, hxa, _⟩ := addMapXD_specC xs x hx h.1
    simp only [normSt, encSt, length_normSElList, encSElList_norm elems _ h.2.2.1.2.2.2.1 nd hxa]
theorem encSts_norm : (l : List Stor) → (xs : List XD) → rtiSts l → nodupKeysSts l → XOKC xs →
    encSts (normSts l xs) xs = encSts l xs
  | [], xs, _, _, _ => by simp only [normSts]
  | s :: ss, xs, h, nd, hx => by
    have h1 := encSt_norm s xs h.1 nd.1 hx
    have hst := (encSt_stateC s xs h.1 hx).2
    have h2 := encSts_norm ss (encSt s xs).2 h.2 nd.2 hst
    simp only [normSts, encSts, h1, h2]
theorem encFind_norm : (k : Nat × Nat) → (l : List MEl) → (xs : List XD) → rtiMElList l → nodupKeysMElList l →
    XOKC xs → hasKey k l → encSt (normFind k l xs) xs = encFind k l xs
  | k, [], xs, _, _, _, hk => by cases hk
  | k, .single (.mk (.val s p) v) :: rest, xs, h, nd, hx, hk => by
    by_cases hkk : (s, p) = k
    · simp only [normFind, encFind, if_pos hkk]
      exact encSt_norm v xs h.1.2.1 nd.1.2 hx
    · have hk' : hasKey k rest := by
        simp only [hasKey] at hk
        rcases hk with hk | hk
        · exact absurd hk hkk
        · exact hk
      simp only [normFind, encFind, if_neg hkk]
      exact encFind_norm k rest xs h.2 nd.2 hx hk'
  | k, .single (.mk (.ref _) _) :: rest, xs, h, nd, hx, hk => by
    simp only [normFind, encFind]; exact encFind_norm k rest xs h.2 nd.2 hx hk
  | k, .single (.mk (.some _) _) :: rest, xs, h, nd, hx, hk => by
    simp only [normFind, encFind]; exact encFind_norm k rest xs h.2 nd.2 hx hk
  | k, .single (.mk (.arr _ _ _) _) :: rest, xs, h, nd, hx, hk => by
    simp only [normFind, encFind]; exact encFind_norm k rest xs h.2 nd.2 hx hk
  | k, .single (.mk (.map _ _ _) _) :: rest, xs, h, nd, hx, hk => by
    simp only [normFind, encFind]; exact encFind_norm k rest xs h.2 nd.2 hx hk
  | k, .inl _ :: rest, xs, h, nd, hx, hk => by
    simp only [normFind, encFind]; exact encFind_norm k rest xs h.2 nd.2 hx hk
  | k, .ext _ :: rest, xs, h, nd, hx, hk => by
    simp only [normFind, encFind]; exact encFind_norm k rest xs h.2 nd.2 hx hk
theorem encSEl_norm : (e : SEl) → (xs : List XD) → e.RTI → e.nodupKeys → XOKC xs →
    encSEl (normSEl e xs) xs = encSEl e xs
  | .mk k v, xs, h, nd, hx => by
    have h1 := encSt_norm k xs h.1 nd.1 hx
    have hst := (encSt_stateC k xs h.1 hx).2
    have h2 := encSt_norm v (encSt k xs).2 h.2.1 nd.2 hst
    simp only [normSEl, encSEl, h1, h2]
theorem encMEl_norm : (e : MEl) → (xs : List XD) → e.RTI → e.nodupKeys → XOKC xs →
    encMEl (normMEl e xs) xs = encMEl e xs
  | .single e, xs, h, nd, hx => by simp only [normMEl, encMEl, encSEl_norm e xs h nd hx]
  | .inl els, xs, h, nd, hx => by simp only [normMEl, encMEl, encMEls_norm els xs h nd hx]
  | .ext _, xs, _, _, _ => by simp only [normMEl]
theorem encMEls_norm : (els : MEls) → (xs : List XD) → els.RTI → els.nodupKeys → XOKC xs →
    encMEls (normMEls els xs) xs = encMEls els xs
  | .hkey _ _ es, xs, h, nd, hx => by
    simp only [normMEls, encMEls, length_normMElList, encMElList_norm es xs h.2.2.2.2.1 nd hx]
  | .single _ es, xs, h, nd, hx => by
    simp only [normMEls, encMEls, length_normSElList, encSElList_norm es xs h.2.2.2.1 nd hx]
theorem encMElList_norm : (l : List MEl) → (xs : List XD) → rtiMElList l → nodupKeysMElList l → XOKC xs →
    encMElList (normMElList l xs) xs = encMElList l xs
  | [], xs, _, _, _ => by simp only [normMElList]
  | e :: es, xs, h, nd, hx => by
    have h1 := encMEl_norm e xs h.1 nd.1 hx
    have hst := (encMEl_stateC e xs h.1 hx).2
    have h2 := encMElList_norm es (encMEl e xs).2 h.2 nd.2 hst
    simp only [normMElList, encMElList, h1, h2]
theorem encSElList_norm : (l : List SEl) → (xs : List XD) → rtiSElList l → nodupKeysSElList l → XOKC xs →
    encSElList (normSElList l xs) xs = encSElList l xs
  | [], xs, _, _, _ => by simp only [normSElList]
  | e :: es, xs, h, nd, hx => by
    have h1 := encSEl_norm e xs h.1 nd.1 hx
    have hst := (encSEl_stateC e xs h.1 hx).2
    have h2 := encSElList_norm es (encSEl e xs).2 h.2 nd.2 hst
    simp only [normSElList, encSElList, h1, h2]
end

/-! ### the has-pointers flag -/

/-- does the value of the first single element whose key is `k` hold a pointer -/
def valPtrOf (k : Nat × Nat) : List MEl → Bool
  | [] => false
  | .single (.mk (.val s p) v) :: rest => if (s, p) = k then v.hasPtr else valPtrOf k rest
  | _ :: rest => valPtrOf k rest

theorem any_congr_mem {α : Type} {f g : α → Bool} : ∀ (l : List α), (∀ a ∈ l, f a = g a) → l.any f = l.any g
  | [], _ => rfl
  | a :: l, h => by
    simp only [List.any_cons, h a (List.mem_cons_self ..),
      any_congr_mem l (fun b hb => h b (List.mem_cons_of_mem _ hb))]

theorem any_valPtrOf_keys : ∀ (elems : List MEl) (keys : List (Nat × Nat)),
    elems.mapM compactKey = some keys → keys.Nodup →
    keys.any (fun k => valPtrOf k elems) = anyPtrMEl elems := by
  intro elems
  induction elems with
  | nil =>
    intro keys h _
    simp only [List.mapM_nil, Option.pure_def, Option.some.injEq] at h
    subst h; rfl
  | cons e es ih =>
    intro keys h hnd
    rw [List.mapM_cons] at h
    cases hk : compactKey e with
    | none => rw [hk] at h; cases h
    | some k0 =>
      rw [hk] at h
      cases hm : es.mapM compactKey with
      | none => rw [hm] at h; cases h
      | some ks =>
        rw [hm] at h
        simp only [Option.pure_def, Option.bind_eq_bind, Option.bind_some, Option.some.injEq] at h
        subst h
        obtain ⟨hnot, hnd'⟩ := List.nodup_cons.1 hnd
        match e, hk with
        | .single (.mk (.val s p) v), hk =>
          simp only [compactKey, Option.some.injEq] at hk
          subst hk
          have ih' := ih ks hm hnd'
          have hrest : ks.any (fun k => valPtrOf k (MEl.single (SEl.mk (Stor.val s p) v) :: es))
              = ks.any (fun k => valPtrOf k es) := by
            apply any_congr_mem
            intro k hkin
            have hne : (s, p) ≠ k := fun h => hnot (h ▸ hkin)
            simp only [valPtrOf, hne, ↓reduceIte]
          rw [List.any_cons, hrest, ih']
          simp only [valPtrOf, ↓reduceIte, anyPtrMEl, MEl.hasPtr, SEl.hasPtr, Stor.hasPtr, Bool.false_or]

theorem anyPtr_normVals (elems : List MEl) (hfind : ∀ k st, (normFind k elems st).hasPtr = valPtrOf k elems) :
    ∀ (ks : List (Nat × Nat)) (st : List XD),
      anyPtrMEl (normVals elems ks st) = ks.any (fun k => valPtrOf k elems)
  | [], st => rfl
  | k :: ks, st => by
    simp only [normVals, anyPtrMEl, MEl.hasPtr, SEl.hasPtr, Stor.hasPtr, Bool.false_or, List.any_cons, hfind,
      anyPtr_normVals elems hfind ks]

mutual
theorem hasPtr_normSt : (s : Stor) → (xs : List XD) → s.nodupKeys → (normSt s xs).hasPtr = s.hasPtr
  | .val _ _, xs, _ => by simp only [normSt]
  | .ref _, xs, _ => by simp only [normSt]
  | .some s, xs, nd => by simp only [normSt, Stor.hasPtr, hasPtr_normSt s xs nd]
  | .arr ty idx es, xs, nd => by simp only [normSt, Stor.hasPtr, anyPtrSts_norm es _ nd]
  | .map x idx (.hkey level hkeys elems), xs, nd => by
    cases hc : compactKeys x elems with
    | none => simp only [normSt, hc, Stor.hasPtr, MEls.hasPtr, anyPtrMEl_norm elems _ nd.2]
    | some keys =>
      have hm := compactKeys_mapM hc
      have hnd := nd.1 keys hc
      have hperm := addCompactXD_perm xs x hkeys keys
      have hfind : ∀ k st, (normFind k elems st).hasPtr = valPtrOf k elems :=
        fun k st => hasPtr_normFind k elems st nd.2
      have hany : anyPtrMEl (normVals elems (addCompactXD xs x hkeys keys).2.1 (addCompactXD xs x hkeys keys).2.2)
          = anyPtrMEl elems := by
        rw [anyPtr_normVals elems hfind, hperm.any_eq]
        exact any_valPtrOf_keys elems keys hm hnd
      simp only [normSt, hc, foldl_normFind_eq, List.nil_append]
      split <;> simp only [Stor.hasPtr, MEls.hasPtr, hany]
  | .map x idx (.single level elems), xs, nd => by
    simp only [normSt, Stor.hasPtr, MEls.hasPtr, anyPtrSEl_norm elems _ nd]
theorem anyPtrSts_norm : (l : List Stor) → (xs : List XD) → nodupKeysSts l → anyPtrSts (normSts l xs) = anyPtrSts l
  | [], xs, _ => by simp only [normSts]
  | s :: ss, xs, nd => by simp only [normSts, anyPtrSts, hasPtr_normSt s xs nd.1, anyPtrSts_norm ss _ nd.2]
theorem hasPtr_normFind : (k : Nat × Nat) → (l : List MEl) → (xs : List XD) → nodupKeysMElList l →
    (normFind k l xs).hasPtr = valPtrOf k l
  | k, [], xs, _ => by simp only [normFind, valPtrOf, Stor.hasPtr]
  | k, .single (.mk (.val s p) v) :: rest, xs, nd => by
    simp only [normFind, valPtrOf]
    split
    · exact hasPtr_normSt v xs nd.1.2
    · exact hasPtr_normFind k rest xs nd.2
  | k, .single (.mk (.ref _) _) :: rest, xs, nd => by simp only [normFind, valPtrOf]; exact hasPtr_normFind k rest xs nd.2
  | k, .single (.mk (.some _) _) :: rest, xs, nd => by simp only [normFind, valPtrOf]; exact hasPtr_normFind k rest xs nd.2
  | k, .single (.mk (.arr _ _ _) _) :: rest, xs, nd => by simp only [normFind, valPtrOf]; exact hasPtr_normFind k rest xs nd.2
  | k, .single (.mk (.map _ _ _) _) :: rest, xs, nd => by simp only [normFind, valPtrOf]; exact hasPtr_normFind k rest xs nd.2
  | k, .inl _ :: rest, xs, nd => by simp only [normFind, valPtrOf]; exact hasPtr_normFind k rest xs nd.2
  | k, .ext _ :: rest, xs, nd => by simp only [normFind, valPtrOf]; exact hasPtr_normFind k rest xs nd.2
theorem hasPtr_normSEl : (e : SEl) → (xs : List XD) → e.nodupKeys → (normSEl e xs).hasPtr = e.hasPtr
  | .mk k v, xs, nd => by simp only [normSEl, SEl.hasPtr, hasPtr_normSt k xs nd.1, hasPtr_normSt v _ nd.2]
theorem hasPtr_normMEl : (e : MEl) → (xs : List XD) → e.nodupKeys → (normMEl e xs).hasPtr = e.hasPtr
  | .single e, xs, nd => by simp only [normMEl, MEl.hasPtr, hasPtr_normSEl e xs nd]
  | .inl els, xs, nd => by simp only [normMEl, MEl.hasPtr, hasPtr_normMEls els xs nd]
  | .ext _, xs, _ => by simp only [normMEl]
theorem hasPtr_normMEls : (els : MEls) → (xs : List XD) → els.nodupKeys → (normMEls els xs).hasPtr = els.hasPtr
  | .hkey _ _ es, xs, nd => by simp only [normMEls, MEls.hasPtr, anyPtrMEl_norm es xs nd]
  | .single _ es, xs, nd => by simp only [normMEls, MEls.hasPtr, anyPtrSEl_norm es xs nd]
theorem anyPtrMEl_norm : (l : List MEl) → (xs : List XD) → nodupKeysMElList l →
    anyPtrMEl (normMElList l xs) = anyPtrMEl l
  | [], xs, _ => by simp only [normMElList]
  | e :: es, xs, nd => by simp only [normMElList, anyPtrMEl, hasPtr_normMEl e xs nd.1, anyPtrMEl_norm es _ nd.2]
theorem anyPtrSEl_norm : (l : List SEl) → (xs : List XD) → nodupKeysSElList l →
    anyPtrSEl (normSElList l xs) = anyPtrSEl l
  | [], xs, _ => by simp only [normSElList]
  | e :: es, xs, nd => by simp only [normSElList, anyPtrSEl, hasPtr_normSEl e xs nd.1, anyPtrSEl_norm es _ nd.2]
end

/-! ### the slabs -/

/-- encoding the decoded map data slab gives the register back -/
theorem encodeMapData_norm (s : MapData) (ok : MapDataOKC s) :
    encodeMapData { s with els := normMEls s.els [] } = encodeMapData s := by
  unfold encodeMapData
  simp only [encMEls_norm s.els [] ok.rt ok.nodup XOKC.nil, hasPtr_normMEls s.els [] ok.nodup]

/-- encoding the decoded array data slab gives the register back -/
theorem encodeArrData_norm (a : ArrData) (ok : ArrDataOKC a) :
    encodeArrData { a with elems := normSts a.elems [] } = encodeArrData a := by
  unfold encodeArrData
  simp only [encSts_norm a.elems [] ok.rt ok.nodup XOKC.nil, anyPtrSts_norm a.elems [] ok.nodup, length_normSts]

end Atree.Codec
