import AtreeProofs.Codec.RoundTripM
/-
  Round trip of map data / collision-group slabs, of array data slabs and large-value slabs holding
  wrapped values (no inlined slabs).
-/
namespace Atree.Codec
open Atree Atree.Gen DM

/-! ### the fuel `decodeSlabGen` provides is enough -/

theorem Stor.fuelNeed_le_size : (s : Stor) → s.RT → s.noInl → s.fuelNeed ≤ s.size
  | .val size pay, h, _ => by
    have : 1 ≤ size := by unfold Stor.RT validElem at h; exact h.1
    simp only [Stor.fuelNeed, Stor.size]; omega
  | .ref _, _, _ => by simp [Stor.fuelNeed, Stor.size, slabIDStorableSize]; omega
  | .some s, h, hn => by
    have := Stor.fuelNeed_le_size s h hn
    simp only [Stor.fuelNeed, Stor.size, someOverhead]; omega
  | .arr _ _ _, _, hn => hn.elim
  | .map _ _ _, _, hn => hn.elim

theorem Stor.fuelNeed_pos (s : Stor) : 1 ≤ s.fuelNeed := by
  rw [Stor.fuelNeed_eq]; omega

theorem SEl.fuelNeed_lt_size (e : SEl) (h : e.RT) (hn : e.noInl) : e.fuelNeed + 1 ≤ e.size := by
  obtain ⟨k, v⟩ := e
  have hk := Stor.fuelNeed_le_size k h.1 hn.1
  have hv := Stor.fuelNeed_le_size v h.2.1 hn.2
  have hk1 := Stor.fuelNeed_pos k
  have hv1 := Stor.fuelNeed_pos v
  simp only [SEl.fuelNeed, SEl.size, singleElementPrefixSize]
  omega

theorem fuelSElList_le : (l : List SEl) → rtSElList l → noInlSElList l → fuelSElList l ≤ sizeSEl l + 1
  | [], _, _ => by simp [fuelSElList]
  | e :: es, h, hn => by
    have h1 := SEl.fuelNeed_lt_size e h.1 hn.1
    have h2 := fuelSElList_le es h.2 hn.2
    simp only [fuelSElList, sizeSEl]; omega

mutual
theorem MEl.fuelNeed_le_size : (e : MEl) → e.RT → e.noInl → e.fuelNeed ≤ e.size
  | .single e, h, hn => by
    have := SEl.fuelNeed_lt_size e h hn
    simp only [MEl.fuelNeed, MEl.size]; omega
  | .inl els, h, hn => by
    have := MEls.fuelNeed_le_size els h hn
    simp only [MEl.fuelNeed, MEl.size, inlineCollisionGroupPrefixSize]; omega
  | .ext _, _, _ => by
    simp [MEl.fuelNeed, MEl.size, externalCollisionGroupPrefixSize, slabIDStorableSize]
theorem MEls.fuelNeed_le_size : (els : MEls) → els.RT → els.noInl → els.fuelNeed ≤ els.size + 1
  | .hkey _ _ es, h, hn => by
    have h1 := fuelMElList_le es h.2.2.2.2.1 hn
    have h2 := sizeMEl_eq es
    simp only [MEls.fuelNeed, MEls.size, hkeyElementsPrefixSize]; omega
  | .single _ es, h, hn => by
    have h1 := fuelSElList_le es h.2.2.2.1 hn
    simp only [MEls.fuelNeed, MEls.size, singleElementsPrefixSize]; omega
theorem fuelMElList_le : (l : List MEl) → rtMElList l → noInlMElList l → fuelMElList l ≤ bytesMEl l + 1
  | [], _, _ => by simp [fuelMElList]
  | e :: es, h, hn => by
    have h1 := MEl.fuelNeed_le_size e h.1 hn.1
    have h2 := fuelMElList_le es h.2 hn.2
    have h3 : 1 ≤ e.fuelNeed := by
      cases e with
      | single e => simp [MEl.fuelNeed]
      | inl els => simp [MEl.fuelNeed]
      | ext id => simp [MEl.fuelNeed]
    simp only [fuelMElList, bytesMEl]; omega
end

/-! ### the elements of a map data slab on a fresh decoder -/

theorem decMElsG_new (fuel cdepth : Nat) (data rest' : Bytes) (addr : Nat) (xs : List XD)
    (hw : wfNext data = some rest') :
    decMElsG fuel cdepth (Dec.new data) addr xs
      = decMElsG fuel cdepth { data := data, remaining := data.length - rest'.length, consumed := 0 } addr xs := by
  cases fuel with
  | zero => simp [decMElsG]
  | succ f =>
    conv => lhs; unfold decMElsG
    conv => rhs; unfold decMElsG
    have : (Dec.new data).decodeArrayHead
        = ({ data := data, remaining := data.length - rest'.length, consumed := 0 } : Dec).decodeArrayHead :=
      decodeHeadOf_new hw
    rw [this]

/-- What the encoder and the decoder rely on for a map data slab without inlined slabs. -/
structure MapDataOK (s : MapData) : Prop where
  rt : s.els.RT
  noInl : s.els.noInl
  nest : s.els.vneed ≤ maxNestedLevels
  next : validNext s.next
  extra : ∀ x, s.extra = some x → validMapExtra x
  size : s.size ≤ maxUint32

theorem mapDataContent_enc (id : SlabID) (h : SlabHead) (extra : Option MapExtra) (next : SlabID)
    (els : MEls) (hrt : els.RT) (hni : els.noInl) (hnest : els.vneed ≤ maxNestedLevels)
    (hsz : versionAndFlagSize + els.size + (if h.isRoot then 0 else SlabIDLength) ≤ maxUint32)
    (more : Bytes) (n : Nat) :
    mapDataContent id h extra next [] ((encMEls els []).1 ++ more) n =
      .ok (.mdata { id := id, next := next, extra := extra, els := els, anySize := !h.hasSizeLimit,
                    group := decide (h.mapType = .collisionGroup) }) (n + els.allocs) := by
  have hlen := lenMEls_eq els [] (MEls.OK_of_RT els hrt hni) (MEls.noCompact_of_noInl els hni)
  have hw := wfNext_of_acc (accMEls els [] hrt hni) hnest more
  have hfuel := MEls.fuelNeed_le_size els hrt hni
  unfold mapDataContent
  rw [decMElsG_new _ _ _ _ _ _ hw]
  have hrem : ((encMEls els []).1 ++ more).length - more.length = els.size := by simp [hlen]
  have hspec := decMElsG_enc els hrt hni (((encMEls els []).1 ++ more).length + 1) 0 more els.size 0 id.addr [] [] n
    (by simp only [List.length_append, hlen]; omega)
    (by simp only [maxDecodeDepth, maxNestedLevels] at hnest ⊢; omega) (Nat.le_refl _)
  rw [hrem, DM.bind_ok hspec]
  simp only
  have h1 : ¬ (versionAndFlagSize + els.size > maxUint32) := by split at hsz <;> omega
  have h2 : ¬ (¬ h.isRoot = true ∧ versionAndFlagSize + els.size + SlabIDLength > maxUint32) := by
    intro hc
    rw [if_neg hc.1] at hsz
    omega
  rw [DM.ite_apply, if_neg h1, DM.ite_apply, if_neg h2]
  rfl

theorem newMapDataSlabFromData_cons2 (id : SlabID) (b0 b1 : Nat) (tail : Bytes) :
    newMapDataSlabFromData id (b0 :: b1 :: tail) =
      if (⟨b0, b1⟩ : SlabHead).mapType ≠ .data ∧ (⟨b0, b1⟩ : SlabHead).mapType ≠ .collisionGroup then DM.fail
      else if (⟨b0, b1⟩ : SlabHead).version = 0 then newMapDataSlabFromDataV0 id ⟨b0, b1⟩ tail
      else if (⟨b0, b1⟩ : SlabHead).version = 1 then newMapDataSlabFromDataV1 id ⟨b0, b1⟩ tail
      else DM.fail := by
  unfold newMapDataSlabFromData
  have h2 : ¬ (b0 :: b1 :: tail).length < versionAndFlagSize := by simp [versionAndFlagSize]
  rw [if_neg h2]
  unfold sliceTo sliceFrom
  rw [if_pos (by simp [versionAndFlagSize]), if_pos (by simp [versionAndFlagSize])]
  simp only [DM.pure_bind, versionAndFlagSize, List.take_succ_cons, List.take_zero, newHeadFromData,
    List.drop_succ_cons, List.drop_zero]

theorem decodeSlabGen_mapData (id : SlabID) (b0 b1 : Nat) (tail : Bytes)
    (h1 : (⟨b0, b1⟩ : SlabHead).slabType = .map)
    (h2 : (⟨b0, b1⟩ : SlabHead).mapType = .data ∨ (⟨b0, b1⟩ : SlabHead).mapType = .collisionGroup) :
    decodeSlabGen id (b0 :: b1 :: tail) = newMapDataSlabFromData id (b0 :: b1 :: tail) := by
  rw [decodeSlabGen_cons2, h1]
  rcases h2 with h | h <;> simp only [h]

/-- the root's extra-data section -/
def mapExtraBytes : Option MapExtra → Bytes
  | some x => encodeMapExtra x
  | none => []

theorem mapExtraBytes_eq (extra : Option MapExtra) :
    (match extra with | some x => encodeMapExtra x | none => []) = mapExtraBytes extra := by
  cases extra <;> rfl

/-- `newMapDataSlabFromDataV1` on what `MapDataSlab.Encode` writes after the two head bytes -/
theorem newMapDataSlabFromDataV1_enc (id : SlabID) (h : SlabHead) (extra : Option MapExtra) (next : SlabID)
    (els : MEls) (hroot : h.isRoot = extra.isSome) (hinl : h.hasInlinedSlabs = false)
    (hnx : h.hasNextSlabID = decide (next ≠ SlabID.undef))
    (hrt : els.RT) (hni : els.noInl) (hnest : els.vneed ≤ maxNestedLevels) (hnext : validNext next)
    (hextra : ∀ x, extra = some x → validMapExtra x)
    (hsz : versionAndFlagSize + els.size + (if extra.isSome then 0 else SlabIDLength) ≤ maxUint32)
    (more : Bytes) (n : Nat) :
    newMapDataSlabFromDataV1 id h (mapExtraBytes extra ++
        ((if decide (next ≠ SlabID.undef) = true then encodeSlabID next else []) ++ ((encMEls els []).1 ++ more))) n =
      .ok (.mdata { id := id, next := next, extra := extra, els := els, anySize := !h.hasSizeLimit,
                    group := decide (h.mapType = .collisionGroup) }) (n + els.allocs) := by
  have hcontent : ∀ (nx : SlabID), mapDataContent id h extra nx [] ((encMEls els []).1 ++ more) n =
      .ok (.mdata { id := id, next := nx, extra := extra, els := els, anySize := !h.hasSizeLimit,
                    group := decide (h.mapType = .collisionGroup) }) (n + els.allocs) := by
    intro nx
    exact mapDataContent_enc id h extra nx els hrt hni hnest (by rw [hroot]; exact hsz) more n
  have hafter : mapDataV1AfterExtra id h extra
      ((if decide (next ≠ SlabID.undef) = true then encodeSlabID next else []) ++ ((encMEls els []).1 ++ more)) n =
      .ok (.mdata { id := id, next := next, extra := extra, els := els, anySize := !h.hasSizeLimit,
                    group := decide (h.mapType = .collisionGroup) }) (n + els.allocs) := by
    unfold mapDataV1AfterExtra
    rw [hinl]
    simp only [Bool.false_eq_true, ↓reduceIte]
    unfold mapDataV1AfterIED
    rw [hnx]
    by_cases hn : next = SlabID.undef
    · subst hn
      simp only [ne_eq, not_true_eq_false, decide_false, Bool.false_eq_true, ↓reduceIte, List.nil_append]
      exact hcontent _
    · simp only [ne_eq, hn, not_false_eq_true, decide_true, ↓reduceIte]
      have hl : ¬ (encodeSlabID next ++ ((encMEls els []).1 ++ more)).length < SlabIDLength := by
        simp [length_encodeSlabID, SlabIDLength]
      rw [if_neg hl, newSlabIDFromRawBytes_enc_append next hnext.1 hnext.2]
      simp only [DM.pure_bind]
      unfold sliceFrom
      rw [if_pos (by simp [length_encodeSlabID, SlabIDLength])]
      simp only [DM.pure_bind]
      have hdrop : (encodeSlabID next ++ ((encMEls els []).1 ++ more)).drop SlabIDLength = (encMEls els []).1 ++ more :=
        List.drop_left' (by simp [length_encodeSlabID, SlabIDLength])
      rw [hdrop]
      exact hcontent _
  unfold newMapDataSlabFromDataV1
  cases extra with
  | none =>
    simp only [Option.isSome_none] at hroot
    simp only [hroot, Bool.false_eq_true, ↓reduceIte, mapExtraBytes, List.nil_append]
    exact hafter
  | some x =>
    simp only [Option.isSome_some] at hroot
    simp only [hroot, ↓reduceIte, mapExtraBytes]
    rw [newMapExtraDataFromData_enc x (hextra x rfl)]
    simp only [DM.pure_bind]
    exact hafter

/-- `DecodeSlab` on the encoding of a map data / collision-group slab followed by ANY `more` bytes:
    the slab comes back (the map data slab decoder has no end-of-data check). -/
theorem decodeSlab_encodeMapData (s : MapData) (ok : MapDataOK s) (more : Bytes) (n : Nat) :
    decodeSlab s.id (encodeMapData s ++ more) n = .ok (.mdata s) (n + s.els.allocs) := by
  obtain ⟨id, next, extra, els, anySize, group⟩ := s
  obtain ⟨hrt, hni, hnest, hnext, hextra, hsize⟩ := ok
  simp only at hrt hni hnest hnext hextra hsize
  have hxs : (encMEls els []).2 = [] := encMEls_noInl els [] hni
  have hf := head_mdata_facts (decide (next ≠ SlabID.undef)) false group els.hasPtr anySize extra.isSome
  simp only at hf
  obtain ⟨hf1, hf2, hf3, hf4, _, hf6, hf7, hf8⟩ := hf
  unfold encodeMapData
  simp only [hxs, List.isEmpty_nil, Bool.not_true, encodeIEDSection, ↓reduceIte, List.cons_append, List.nil_append,
    List.append_assoc]
  rw [decodeSlab_of_flat_unsupported (decodeSlabFlat_map _ _ _ _ n hf1),
    decodeSlabGen_mapData _ _ _ _ hf1 (by rw [hf2]; cases group <;> simp),
    newMapDataSlabFromData_cons2]
  have hty : ¬ ((if group = true then MapType.collisionGroup else MapType.data) ≠ MapType.data ∧
      (if group = true then MapType.collisionGroup else MapType.data) ≠ MapType.collisionGroup) := by
    cases group <;> simp
  rw [hf2, hf3, if_neg hty]
  simp only [show ¬ ((1 : Nat) = 0) by decide, ↓reduceIte]
  have hsz' : versionAndFlagSize + els.size + (if extra.isSome then 0 else SlabIDLength) ≤ maxUint32 := by
    simpa [MapData.size] using hsize
  have key := newMapDataSlabFromDataV1_enc id _ extra next els hf4 hf7 hf8 hrt hni hnest hnext hextra hsz' more n
  rw [hf6, hf2] at key
  refine Eq.trans ?_ (Eq.trans key ?_)
  · rfl
  · cases group <;> simp

end Atree.Codec
