import AtreeModel.Codec.Cbor
/-
  Facts about the CBOR model: heads consume input, the validator consumes at least one byte per
  expected item (so an array head of `n` is only accepted when at least `n` bytes follow), and the
  stream-decoder operations keep `consumed + unread = total`.
-/
namespace Atree.Codec
theorem wfHead_length {data rest : Bytes} {h : Head} (hh : wfHead data = some (h, rest)) :
    rest.length < data.length := by
  unfold wfHead at hh
  cases data with
  | nil => simp at hh
  | cons b tl =>
    simp only at hh
    repeat' split at hh
    all_goals first
      | (simp at hh; done)
      | (simp at hh; obtain ⟨-, h2⟩ := hh; subst h2; (try simp only [List.length_cons, List.length_drop]); omega)

def pending : List Frame → Nat
  | [] => 0
  | .items n _ :: stk => n + 1 + pending stk
  | .indefArr _ _ :: stk => 1 + pending stk
  | .indefMap _ _ :: stk => 1 + pending stk
  | .indefStr _ _ :: stk => 1 + pending stk
  | .tag _ :: stk => 1 + pending stk

theorem pending_pushItems (c d : Nat) (stk : List Frame) :
    pending (pushItems c d stk) = c + pending stk := by
  cases c <;> simp [pushItems, pending] <;> omega

theorem wfItemStep_spec {d : Nat} {inTag : Bool} {stk stk' : List Frame} {data rest' : Bytes}
    (h : wfItemStep d inTag stk data = some (stk', rest')) :
    pending stk ≤ pending stk' ∧ rest'.length < data.length := by
  unfold wfItemStep at h
  split at h
  · simp at h
  · rename_i hd rest hwf
    have hlen := wfHead_length hwf
    repeat' split at h
    all_goals first
      | (simp at h; done)
      | (simp at h; obtain ⟨h1, h2⟩ := h; subst h1; subst h2
         (try simp only [pending, pending_pushItems, List.length_drop]); omega)

theorem wfRun_step {fuel : Nat} (ih : ∀ (stk : List Frame) (data rest : Bytes),
      wfRun fuel stk data = some rest → pending stk + rest.length ≤ data.length)
    {d : Nat} {inTag : Bool} {stk0 : List Frame} {data rest : Bytes}
    (h : (match wfItemStep d inTag stk0 data with
          | none => none
          | some (stk', rest') => wfRun fuel stk' rest') = some rest) :
    pending stk0 + 1 + rest.length ≤ data.length := by
  split at h
  · simp at h
  · rename_i stk' rest' hstep
    have hs := wfItemStep_spec hstep
    have := ih _ _ _ h
    omega

/-- The validator needs at least one byte for each item it still expects. -/
theorem wfRun_pending : ∀ (fuel : Nat) (stk : List Frame) (data rest : Bytes),
    wfRun fuel stk data = some rest → pending stk + rest.length ≤ data.length := by
  intro fuel
  induction fuel with
  | zero =>
    intro stk data rest h
    cases stk with
    | nil => simp [wfRun] at h; subst h; simp [pending]
    | cons f stk => simp [wfRun] at h
  | succ fuel ih =>
    intro stk data rest h
    cases stk with
    | nil => simp [wfRun] at h; subst h; simp [pending]
    | cons f stk =>
      cases data with
      | nil => simp [wfRun] at h
      | cons b tl =>
        cases f with
        | items n depth =>
          cases n with
          | zero =>
            simp only [wfRun, popItem] at h
            have := wfRun_step ih h
            simp only [pending]; omega
          | succ n =>
            simp only [wfRun, popItem] at h
            have := wfRun_step ih h
            simp only [pending] at *; omega
        | tag depth =>
          simp only [wfRun] at h
          have := wfRun_step ih h
          simp only [pending]; omega
        | indefArr i depth =>
          simp only [wfRun] at h
          split at h
          · have := ih _ _ _ h; simp only [pending, List.length_cons] at *; omega
          · split at h
            · simp at h
            · have := wfRun_step ih h
              simp only [pending] at *; omega
        | indefMap i depth =>
          simp only [wfRun] at h
          split at h
          · split at h
            · simp at h
            · have := ih _ _ _ h; simp only [pending, List.length_cons] at *; omega
          · split at h
            · simp at h
            · have := wfRun_step ih h
              simp only [pending] at *; omega
        | indefStr t depth =>
          simp only [wfRun] at h
          split at h
          · have := ih _ _ _ h; simp only [pending, List.length_cons] at *; omega
          · split at h
            · simp at h
            · split at h
              · simp at h
              · have := wfRun_step ih h
                simp only [pending] at *; omega

theorem wfNext_length {data rest : Bytes} (h : wfNext data = some rest) : rest.length < data.length := by
  have := wfRun_pending _ _ _ _ h
  simp [pending] at this
  omega

/-! ### the stream decoder -/

/-- bookkeeping invariant of `Dec` over an input of `total` bytes -/
def DecInv (total : Nat) (d : Dec) : Prop := d.consumed + d.data.length = total

theorem DecInv.new (data : Bytes) : DecInv data.length (Dec.new data) := by
  simp [DecInv, Dec.new]

theorem DecInv.consumed_le {t : Nat} {d : Dec} (h : DecInv t d) : d.consumed ≤ t := by
  unfold DecInv at h; omega

theorem prepareNext_data {d d' : Dec} (h : d.prepareNext = some d') :
    d'.data = d.data ∧ d'.consumed = d.consumed := by
  unfold Dec.prepareNext at h
  repeat' split at h
  all_goals first
    | (simp at h; done)
    | (simp at h; subst h; exact ⟨rfl, rfl⟩)

theorem prepareNext_inv {t : Nat} {d d' : Dec} (hi : DecInv t d) (h : d.prepareNext = some d') :
    DecInv t d' := by
  have := prepareNext_data h
  unfold DecInv at *; rw [this.1, this.2]; exact hi

theorem advance_inv {t : Nat} {d d' : Dec} {rest : Bytes} (hi : DecInv t d)
    (hr : rest.length ≤ d.data.length) (h : d.advance rest = some d') :
    DecInv t d' ∧ d'.data = rest ∧ d'.consumed = d.consumed + (d.data.length - rest.length) := by
  unfold Dec.advance at h
  simp only at h
  split at h
  · simp at h
  · simp at h; subst h; unfold DecInv at *; simp; omega

theorem nextType_inv {t : Nat} {d d' : Dec} {c : CType} (hi : DecInv t d)
    (h : d.nextType = some (c, d')) : DecInv t d' := by
  unfold Dec.nextType at h
  split at h
  · simp at h
  · rename_i d1 hp
    have := prepareNext_inv hi hp
    split at h
    · simp at h
    · simp at h; rw [← h.2]; exact this

theorem decodeHeadOf_inv {t major v : Nat} {d d' : Dec} (hi : DecInv t d)
    (h : d.decodeHeadOf major = some (v, d')) : DecInv t d' := by
  unfold Dec.decodeHeadOf at h
  split at h
  · simp at h
  · rename_i d1 hp
    have hi1 := prepareNext_inv hi hp
    split at h
    · simp at h
    · split at h
      · simp at h
      · split at h
        · simp at h
        · rename_i hd' rest hwf
          split at h
          · simp at h
          · split at h
            · simp at h
            · rename_i d2 hadv
              simp at h
              rw [← h.2]
              exact (advance_inv hi1 (Nat.le_of_lt (wfHead_length hwf)) hadv).1

theorem decodeBytes_inv {t : Nat} {b : Bytes} {d d' : Dec} (hi : DecInv t d)
    (h : d.decodeBytes = some (b, d')) : DecInv t d' ∧ d.consumed + b.length + 1 ≤ d'.consumed := by
  unfold Dec.decodeBytes at h
  split at h
  · simp at h
  · rename_i d1 hp
    have hd := prepareNext_data hp
    have hi1 := prepareNext_inv hi hp
    split at h
    · simp at h
    · split at h
      · simp at h
      · split at h
        · simp at h
        · rename_i hd' rest hwf
          have hl := wfHead_length hwf
          split at h
          · simp at h
          · split at h
            · simp at h
            · split at h
              · simp at h
              · rename_i hlen d2 hadv
                simp at h
                have hdr : (rest.drop hd'.val).length ≤ d1.data.length := by
                  simp only [List.length_drop]; omega
                have := advance_inv hi1 hdr hadv
                rw [← h.2, ← h.1]
                refine ⟨this.1, ?_⟩
                rw [this.2.2, hd.2]
                simp only [List.length_take, List.length_drop]
                omega

theorem wfHead_t {b : Nat} {tl rest : Bytes} {h : Head} (hh : wfHead (b :: tl) = some (h, rest)) :
    h.t = b / 32 % 8 ∧ h.ai = b % 32 := by
  unfold wfHead at hh
  simp only at hh
  repeat' split at hh
  all_goals first
    | (simp at hh; done)
    | (simp at hh; obtain ⟨h1, -⟩ := hh; subst h1; exact ⟨rfl, rfl⟩)

/-- On a fresh decoder an array head of `n` is only returned when at least `n` bytes follow it. -/
theorem decodeArrayHead_new_bound {data : Bytes} {n : Nat} {d' : Dec}
    (h : (Dec.new data).decodeArrayHead = some (n, d')) : n + 1 ≤ data.length := by
  unfold Dec.decodeArrayHead Dec.decodeHeadOf at h
  split at h
  · simp at h
  · rename_i d1 hp
    unfold Dec.prepareNext Dec.new at hp
    simp only [Nat.lt_irrefl, ↓reduceIte, gt_iff_lt] at hp
    split at hp
    · simp at hp
    · rename_i rest hwf
      simp at hp
      subst hp
      simp only at h
      cases data with
      | nil => simp at h
      | cons b tl =>
        simp only at h
        split at h
        · simp at h
        · rename_i hty
          split at h
          · simp at h
          · rename_i hd rest1 hwfh
            split at h
            · simp at h
            · rename_i hai
              split at h
              · simp at h
              · simp at h
                rw [← h.1]
                have htt := wfHead_t hwfh
                have ht : hd.t = 4 := by rw [htt.1]; simpa using hty
                have hl := wfHead_length hwfh
                unfold wfNext at hwf
                simp only [List.length_cons, wfRun] at hwf
                unfold wfItemStep at hwf
                rw [hwfh] at hwf
                simp only at hwf
                rw [if_neg (by omega), if_pos (Or.inl ht)] at hwf
                split at hwf
                · simp at hwf
                · rename_i stk' rest' hstep
                  have hd32 : ¬ (0 + 1 > maxNestedLevels) := by decide
                  rw [if_neg hd32, if_neg hai] at hstep
                  split at hstep
                  · simp at hstep
                  · split at hstep
                    · simp at hstep
                    · simp at hstep
                      obtain ⟨h1, h2⟩ := hstep
                      subst h1; subst h2
                      have := wfRun_pending _ _ _ _ hwf
                      rw [pending_pushItems] at this
                      simp only [pending, List.length_cons] at *
                      omega

/-! ### fuel -/

theorem wfRun_fuel_step {f1 f2 : Nat}
    (ih : ∀ (stk : List Frame) (data : Bytes), data.length ≤ f1 → data.length ≤ f2 →
      wfRun f1 stk data = wfRun f2 stk data)
    {d : Nat} {inTag : Bool} {stk0 : List Frame} {data : Bytes} (h1 : data.length ≤ f1 + 1)
    (h2 : data.length ≤ f2 + 1) :
    (match wfItemStep d inTag stk0 data with
      | none => none
      | some (stk', rest') => wfRun f1 stk' rest') =
    (match wfItemStep d inTag stk0 data with
      | none => none
      | some (stk', rest') => wfRun f2 stk' rest') := by
  cases hs : wfItemStep d inTag stk0 data with
  | none => rfl
  | some p =>
    obtain ⟨stk', rest'⟩ := p
    have := (wfItemStep_spec hs).2
    simp only
    exact ih _ _ (by omega) (by omega)

/-- The fuel of the validator is not a restriction: any two amounts that are at least the input
    length give the same answer (so `wfNext`, which uses exactly the input length, never fails for
    lack of fuel). -/
theorem wfRun_fuel_irrelevant : ∀ (f1 f2 : Nat) (stk : List Frame) (data : Bytes),
    data.length ≤ f1 → data.length ≤ f2 → wfRun f1 stk data = wfRun f2 stk data := by
  intro f1
  induction f1 with
  | zero =>
    intro f2 stk data h1 h2
    have hd : data = [] := List.eq_nil_of_length_eq_zero (by omega)
    subst hd
    cases stk with
    | nil => cases f2 <;> rfl
    | cons f stk => cases f2 <;> rfl
  | succ f1 ih =>
    intro f2 stk data h1 h2
    cases stk with
    | nil => cases f2 <;> rfl
    | cons f stk =>
      cases data with
      | nil => cases f2 <;> rfl
      | cons b tl =>
        cases f2 with
        | zero => simp at h2
        | succ f2 =>
          have ih' := fun stk data h1 h2 => ih f2 stk data h1 h2
          have htl1 : tl.length ≤ f1 := by simpa using h1
          have htl2 : tl.length ≤ f2 := by simpa using h2
          cases f with
          | items n depth =>
            simp only [wfRun]
            exact wfRun_fuel_step ih' h1 h2
          | tag depth =>
            simp only [wfRun]
            exact wfRun_fuel_step ih' h1 h2
          | indefArr i depth =>
            simp only [wfRun]
            split
            · exact ih' _ _ htl1 htl2
            · split
              · rfl
              · exact wfRun_fuel_step ih' h1 h2
          | indefMap i depth =>
            simp only [wfRun]
            split
            · split
              · rfl
              · exact ih' _ _ htl1 htl2
            · split
              · rfl
              · exact wfRun_fuel_step ih' h1 h2
          | indefStr t depth =>
            simp only [wfRun]
            split
            · exact ih' _ _ htl1 htl2
            · split
              · rfl
              · split
                · rfl
                · exact wfRun_fuel_step ih' h1 h2

end Atree.Codec
