import AtreeProofs.Codec.InlDecode
/-
  Round trip of the shared inlined-extra-data section (array and map extra data; type infos that
  occur more than once are written once and referred to by `CBORTagTypeInfoRef`).
-/
namespace Atree.Codec
open Atree Atree.Gen DM

/-! ### type-info references -/

theorem acc_tyRef (i : Nat) (hi : i < 2 ^ 64) : Acc (tagHead8 CBORTagTypeInfoRef ++ head 0 i) 1 := by
  simp only [tagHead8, List.cons_append, List.nil_append]
  exact Acc.tag8 _ (Acc.uint hi)

theorem findIdxFrom_lt {α : Type} (p : α → Bool) (l : List α) (i : Nat) (h : findIdxFrom p l 0 = some i) :
    i < l.length := by
  obtain ⟨_, y, hy, _⟩ := findIdxFrom_some p l 0 i h
  simp only [Nat.sub_zero] at hy
  exact lt_length_of_get hy

theorem acc_encodeTyRef (dups : List Bytes) (hd : dups.length < 2 ^ 64) (ty : TyInfo) (hv : validTy ty) :
    Acc (encodeTyRef dups ty) 1 := by
  unfold encodeTyRef
  cases hf : findIdxFrom (· == encodeTy ty) dups 0 with
  | none => exact acc_encodeTy ty hv
  | some i => exact acc_tyRef i (by have := findIdxFrom_lt _ _ _ hf; omega)

theorem length_encodeTyRef_pos (dups : List Bytes) (ty : TyInfo) : 0 < (encodeTyRef dups ty).length := by
  unfold encodeTyRef
  split
  · simp [tagHead8]
  · exact length_encodeTy_pos ty

theorem headLen_pos (n : Nat) : 1 ≤ headLen n := by
  unfold headLen; repeat' split
  all_goals omega

/-- `cbor.Unmarshal` of a minimal-head unsigned integer into a `uint64` -/
theorem unmarshalUint64_head {i : Nat} (hi : i < 2 ^ 64) : unmarshalUint64 (head 0 i) = some i := by
  have hw : wfNext (head 0 i) = some [] := by
    have := wfNext_of_acc (Acc.uint hi) (by decide) []
    simpa using this
  have hh : wfHead (head 0 i) = some (⟨0, aiOf i, i⟩, []) := by
    have := wfHead_head (major := 0) (by omega) hi []
    simpa using this
  unfold unmarshalUint64
  rw [hw]
  simp only
  obtain ⟨f, hf⟩ : ∃ f, (head 0 i).length = f + 1 := ⟨(head 0 i).length - 1, by
    have := length_head 0 i; have := headLen_pos i; omega⟩
  rw [hf]
  unfold parseToUint64
  have hs : stripSelfDescribed (head 0 i).length (head 0 i) = head 0 i := by
    rw [hf]; unfold stripSelfDescribed; rw [hh]; simp
  have hb : builtinTagsOK (head 0 i).length (head 0 i) = true := by
    rw [hf]; unfold builtinTagsOK; rw [hh]; simp
  simp only [hs, hb, Bool.not_true, Bool.false_eq_true, ↓reduceIte, hh]

/-- the first two bytes of an encoded type info are not a type-info reference -/
theorem encodeTy_not_ref (ty : TyInfo) : (encodeTy ty).take 2 ≠ [0xd8, CBORTagTypeInfoRef] := by
  cases ty with
  | plain n =>
    simp only [encodeTy]
    unfold head
    repeat' split
    all_goals simp [CBORTagTypeInfoRef]
    all_goals omega
  | composite n =>
    simp only [encodeTy, head_tagCompositeTI, List.cons_append, List.nil_append, CBORTagTypeInfoRef]
    intro h
    have : ((0xd8 : Nat) :: 160 :: head 0 n).take 2 = [0xd8, 160] := rfl
    rw [this] at h
    simp at h

/-- `nextType` on a fresh decoder -/
theorem nextType_new {data rest' : Bytes} (hw : wfNext data = some rest') :
    (Dec.new data).nextType
      = ({ data := data, remaining := data.length - rest'.length, consumed := 0 } : Dec).nextType := by
  have hlt := wfNext_length hw
  have hpos : 0 < data.length - rest'.length := by omega
  conv => lhs; unfold Dec.nextType Dec.prepareNext Dec.new
  simp only [Nat.lt_irrefl, ↓reduceIte, gt_iff_lt, hw]
  conv => rhs; unfold Dec.nextType
  rw [prepareNext_pos hpos]

theorem typeInfoAsIs_enc (ty : TyInfo) (hv : validTy ty) : typeInfoAsIs (encodeTy ty) = pure ty := by
  have hw : wfNext (encodeTy ty) = some [] := by
    have := wfNext_of_acc (acc_encodeTy ty hv) (by decide) []
    simpa using this
  unfold typeInfoAsIs
  have hnew : decodeTypeInfo (Dec.new (encodeTy ty))
      = decodeTypeInfo { data := encodeTy ty, remaining := (encodeTy ty).length, consumed := 0 } := by
    conv => lhs; unfold decodeTypeInfo
    conv => rhs; unfold decodeTypeInfo
    rw [nextType_new hw]
    simp
  rw [hnew]
  have := decodeTypeInfo_encR ty hv [] (encodeTy ty).length 0 (Nat.le_refl _)
  simp only [List.append_nil] at this
  rw [this]
  rfl

/-- the type-info decoder of the inlined-extra-data section on what the encoder's closure writes -/
theorem decodeTypeInfoRef_enc (tis : List TyInfo) (htis : ∀ t ∈ tis, validTy t) (hlen : tis.length < 2 ^ 64)
    (ty : TyInfo) (hv : validTy ty) (rest : Bytes) (R c : Nat)
    (hR : (encodeTyRef (tis.map encodeTy) ty).length ≤ R) :
    decodeTypeInfoRef tis { data := encodeTyRef (tis.map encodeTy) ty ++ rest, remaining := R, consumed := c }
      = pure (ty, { data := rest, remaining := R - (encodeTyRef (tis.map encodeTy) ty).length,
                    consumed := c + (encodeTyRef (tis.map encodeTy) ty).length }) := by
  have hpos := length_encodeTyRef_pos (tis.map encodeTy) ty
  unfold decodeTypeInfoRef
  by_cases h0 : tis.length = 0
  · have : tis = [] := List.length_eq_zero_iff.1 h0
    subst this
    simp only [List.length_nil, ↓reduceIte, List.map_nil, encodeTyRef, findIdxFrom]
    have := decodeTypeInfo_encR ty hv rest R c (by simpa [encodeTyRef, findIdxFrom] using hR)
    exact this
  · rw [if_neg h0]
    have hacc := acc_encodeTyRef (tis.map encodeTy) (by simpa using hlen) ty hv
    have hw := wfNext_of_acc hacc (by decide) rest
    have hraw : ({ data := encodeTyRef (tis.map encodeTy) ty ++ rest, remaining := R, consumed := c } : Dec).decodeRawBytes
        = some (encodeTyRef (tis.map encodeTy) ty,
                { data := rest, remaining := R - (encodeTyRef (tis.map encodeTy) ty).length,
                  consumed := c + (encodeTyRef (tis.map encodeTy) ty).length }) := by
      unfold Dec.decodeRawBytes
      rw [prepareNext_pos (by simp only; omega)]
      simp only [hw]
      unfold Dec.advance
      have hk : (encodeTyRef (tis.map encodeTy) ty ++ rest).length - rest.length
          = (encodeTyRef (tis.map encodeTy) ty).length := by simp
      simp only [hk]
      rw [if_neg (by omega)]
      simp
    rw [hraw]
    simp only [DM.liftOpt_some, DM.pure_bind]
    have hkey : typeInfoOfRaw tis (encodeTyRef (tis.map encodeTy) ty) = pure ty := by
      unfold typeInfoOfRaw encodeTyRef
      cases hf : findIdxFrom (· == encodeTy ty) (tis.map encodeTy) 0 with
      | none =>
        simp only
        by_cases hl : (encodeTy ty).length > 2
        · rw [if_pos hl]
          unfold sliceTo
          rw [if_pos (by omega)]
          simp only [DM.pure_bind]
          rw [if_neg (encodeTy_not_ref ty)]
          exact typeInfoAsIs_enc ty hv
        · rw [if_neg hl]
          exact typeInfoAsIs_enc ty hv
      | some i =>
        obtain ⟨_, y, hy, hp⟩ := findIdxFrom_some _ (tis.map encodeTy) 0 i hf
        simp only [Nat.sub_zero] at hy
        have hi : i < tis.length := by have := lt_length_of_get hy; simpa using this
        have hhl : 0 < (head 0 i).length := by
          have := length_head 0 i; have := headLen_pos i; omega
        simp only [tagHead8, List.cons_append, List.nil_append]
        have hgt : (0xd8 :: CBORTagTypeInfoRef :: head 0 i).length > 2 := by
          simp only [List.length_cons]; omega
        have hle2 : 2 ≤ (0xd8 :: CBORTagTypeInfoRef :: head 0 i).length := by omega
        simp only [hgt, ↓reduceIte]
        unfold sliceTo
        simp only [hle2, ↓reduceIte, DM.pure_bind, List.take_succ_cons, List.take_zero]
        unfold typeInfoByRef sliceFrom
        simp only [hle2, ↓reduceIte, DM.pure_bind, List.drop_succ_cons, List.drop_zero]
        rw [unmarshalUint64_head (by omega)]
        simp only [DM.liftOpt_some, DM.pure_bind]
        have hge : ¬ (i ≥ tis.length) := by omega
        simp only [hge, ↓reduceIte]
        rw [List.getElem?_eq_getElem hi]
        simp only
        have hyi : encodeTy tis[i] = encodeTy ty := by
          rw [List.getElem?_map, List.getElem?_eq_getElem hi] at hy
          simp only [Option.map_some, Option.some.injEq] at hy
          rw [hy]
          exact eq_of_beq hp
        rw [encodeTy_inj (htis _ (List.getElem_mem hi)) hv hyi]
    rw [hkey]
    simp only [DM.pure_bind]

/-! ### one entry, the entries -/

/-- an entry the encoder and the decoder agree on (no compact-map entries) -/
def XD.valid : XD → Prop
  | .arr t => validTy t
  | .map m => validMapExtra m
  | .cmap _ _ _ => False

theorem XOK_iff (xs : List XD) : XOK xs ↔ ∀ x ∈ xs, x.valid := by
  constructor
  · intro h x hx; have := h x hx; cases x <;> exact this
  · intro h x hx; have := h x hx; cases x <;> exact this

theorem head6_247 : head 6 CBORTagInlinedArrayExtraData = [0xd8, 247] := by decide
theorem head6_248 : head 6 CBORTagInlinedMapExtraData = [0xd8, 248] := by decide

theorem acc_encodeXD (dups : List Bytes) (hd : dups.length < 2 ^ 64) (x : XD) (hv : x.valid) :
    Acc (encodeXD dups x) 3 := by
  cases x with
  | arr ty =>
    have hl : AccList [encodeTyRef dups ty] 1 := by
      intro b hb; simp only [List.mem_cons, List.not_mem_nil, or_false] at hb; subst hb
      exact acc_encodeTyRef dups hd ty hv
    have h1 := Acc.array (by simp [maxArrayElements]) hl
    have h2 := Acc.tag8 247 h1
    simpa [encodeXD, head6_247, arrayExtraDataLength] using h2
  | map m =>
    have hl : AccList [encodeTyRef dups m.ty, head 0 m.count, head 0 m.seed] 1 := by
      intro b hb
      simp only [List.mem_cons, List.not_mem_nil, or_false] at hb
      rcases hb with rfl | rfl | rfl
      · exact acc_encodeTyRef dups hd m.ty hv.1
      · exact (Acc.uint hv.2.1).mono (by omega)
      · exact (Acc.uint hv.2.2).mono (by omega)
    have h1 := Acc.array (by simp [maxArrayElements]) hl
    have h2 := Acc.tag8 248 h1
    simpa [encodeXD, head6_248, encodeMapExtraWith, mapExtraDataLength, flatten_triple] using h2
  | cmap a b c => exact hv.elim

theorem length_encodeXD_pos (dups : List Bytes) (x : XD) : 0 < (encodeXD dups x).length := by
  cases x with
  | arr t => simp only [encodeXD, List.length_append, length_head]; have := headLen_pos CBORTagInlinedArrayExtraData; omega
  | map m => simp only [encodeXD, List.length_append, length_head]; have := headLen_pos CBORTagInlinedMapExtraData; omega
  | cmap a b c =>
    simp only [encodeXD, List.length_append, length_head]; have := headLen_pos CBORTagInlinedCompactMapExtraData; omega

/-- `decXD` on an encoded entry -/
theorem decXD_enc (fuel : Nat) (tis : List TyInfo) (htis : ∀ t ∈ tis, validTy t) (hlen : tis.length < 2 ^ 64)
    (x : XD) (hv : x.valid) (rest : Bytes) (R c : Nat) (hR : (encodeXD (tis.map encodeTy) x).length ≤ R) :
    decXD fuel tis { data := encodeXD (tis.map encodeTy) x ++ rest, remaining := R, consumed := c }
      = pure (x, { data := rest, remaining := R - (encodeXD (tis.map encodeTy) x).length,
                   consumed := c + (encodeXD (tis.map encodeTy) x).length }) := by
  have h1 : headLen 1 = 1 := rfl
  have h3 : headLen 3 = 1 := rfl
  cases x with
  | arr ty =>
    have hpos := length_encodeTyRef_pos (tis.map encodeTy) ty
    simp only [encodeXD, head6_247, arrayExtraDataLength, List.cons_append, List.nil_append, List.append_assoc,
      List.length_cons, List.length_append, length_head, h1] at hR ⊢
    unfold decXD
    rw [decodeTagNumber_tag8 _ _ _ _ (by omega)]
    simp only [DM.liftOpt_some, DM.pure_bind, CBORTagInlinedArrayExtraData, ↓reduceIte]
    unfold newArrayExtraDataRef
    rw [decodeArrayHead_head (by omega) _ (R - 2) (c + 2) (by rw [h1]; omega)]
    simp only [DM.liftOpt_some, DM.pure_bind, arrayExtraDataLength, ne_eq, not_true_eq_false, ↓reduceIte, h1]
    rw [decodeTypeInfoRef_enc tis htis hlen ty hv rest (R - 2 - 1) (c + 2 + 1) (by omega)]
    simp only [DM.pure_bind]
    congr 3 <;> omega
  | map m =>
    have hpos := length_encodeTyRef_pos (tis.map encodeTy) m.ty
    have hc1 := headLen_pos m.count
    have hs1 := headLen_pos m.seed
    simp only [encodeXD, head6_248, encodeMapExtraWith, mapExtraDataLength, List.cons_append, List.nil_append,
      List.append_assoc, List.length_cons, List.length_append, length_head, h3] at hR ⊢
    unfold decXD
    rw [decodeTagNumber_tag8 _ _ _ _ (by omega)]
    simp only [DM.liftOpt_some, DM.pure_bind, CBORTagInlinedArrayExtraData, CBORTagInlinedMapExtraData,
      show ¬ ((248 : Nat) = 247) by decide, ↓reduceIte]
    unfold newMapExtraData
    rw [decodeArrayHead_head (by omega) _ (R - 2) (c + 2) (by rw [h3]; omega)]
    simp only [DM.liftOpt_some, DM.pure_bind, mapExtraDataLength, ne_eq, not_true_eq_false, ↓reduceIte, h3]
    rw [decodeTypeInfoRef_enc tis htis hlen m.ty hv.1 _ (R - 2 - 1) (c + 2 + 1) (by omega)]
    simp only [DM.pure_bind]
    rw [decodeUint64_head hv.2.1 _ _ _ (by omega)]
    simp only [DM.liftOpt_some, DM.pure_bind]
    rw [decodeUint64_head hv.2.2 _ _ _ (by omega)]
    simp only [DM.liftOpt_some, DM.pure_bind]
    congr 3 <;> omega
  | cmap a b c => exact hv.elim

theorem decXDs_enc (fuel : Nat) (tis : List TyInfo) (htis : ∀ t ∈ tis, validTy t) (hlen : tis.length < 2 ^ 64) :
    ∀ (xs : List XD), (∀ x ∈ xs, x.valid) → ∀ (rest : Bytes) (R c : Nat),
      (xs.flatMap (encodeXD (tis.map encodeTy))).length ≤ R →
      decXDs fuel tis xs.length { data := xs.flatMap (encodeXD (tis.map encodeTy)) ++ rest, remaining := R, consumed := c }
        = pure (xs, { data := rest, remaining := R - (xs.flatMap (encodeXD (tis.map encodeTy))).length,
                      consumed := c + (xs.flatMap (encodeXD (tis.map encodeTy))).length }) := by
  intro xs
  induction xs with
  | nil => intro _ rest R c _; simp [decXDs]
  | cons x xs ih =>
    intro hv rest R c hR
    simp only [List.flatMap_cons, List.length_append, List.append_assoc, List.length_cons] at hR ⊢
    unfold decXDs
    rw [decXD_enc fuel tis htis hlen x (hv x (List.mem_cons_self ..)) _ R c (by omega)]
    simp only [DM.pure_bind]
    rw [ih (fun y hy => hv y (List.mem_cons_of_mem _ hy)) rest _ _ (by omega)]
    simp only [DM.pure_bind]
    congr 3 <;> omega

theorem decTypeInfos_enc : ∀ (tis : List TyInfo), (∀ t ∈ tis, validTy t) → ∀ (rest : Bytes) (R c : Nat),
    ((tis.map encodeTy).flatten).length ≤ R →
    decTypeInfos tis.length { data := (tis.map encodeTy).flatten ++ rest, remaining := R, consumed := c }
      = pure (tis, { data := rest, remaining := R - ((tis.map encodeTy).flatten).length,
                     consumed := c + ((tis.map encodeTy).flatten).length }) := by
  intro tis
  induction tis with
  | nil => intro _ rest R c _; simp [decTypeInfos]
  | cons t ts ih =>
    intro hv rest R c hR
    simp only [List.map_cons, List.flatten_cons, List.length_append, List.append_assoc, List.length_cons] at hR ⊢
    unfold decTypeInfos
    rw [decodeTypeInfo_encR t (hv t (List.mem_cons_self ..)) _ R c (by omega)]
    simp only [DM.pure_bind]
    rw [ih (fun y hy => hv y (List.mem_cons_of_mem _ hy)) rest _ _ (by omega)]
    simp only [DM.pure_bind]
    congr 3 <;> omega

/-! ### the duplicated type infos are encoded type infos of entries -/

theorem mem_insertBytes {b k : Bytes} : ∀ {l : List Bytes}, b ∈ insertBytes k l → b = k ∨ b ∈ l
  | [], h => by simp only [insertBytes, List.mem_cons, List.not_mem_nil, or_false] at h; exact Or.inl h
  | x :: xs, h => by
    unfold insertBytes at h
    split at h
    · simp only [List.mem_cons] at h ⊢; exact h
    · simp only [List.mem_cons] at h ⊢
      rcases h with h | h
      · exact Or.inr (Or.inl h)
      · rcases mem_insertBytes h with h' | h'
        · exact Or.inl h'
        · exact Or.inr (Or.inr h')

theorem mem_sortBytes {b : Bytes} : ∀ {l : List Bytes}, b ∈ sortBytes l → b ∈ l
  | [], h => by simp [sortBytes] at h
  | x :: xs, h => by
    have h' : b ∈ insertBytes x (sortBytes xs) := h
    rcases mem_insertBytes h' with h1 | h1
    · exact h1 ▸ List.mem_cons_self ..
    · exact List.mem_cons_of_mem _ (mem_sortBytes h1)

theorem mem_dupScan {b : Bytes} : ∀ (l : List Bytes) (prev : Bytes) (e : Bool), b ∈ dupScan prev e l → b = prev ∨ b ∈ l
  | [], prev, e, h => by simp [dupScan] at h
  | x :: rest, prev, e, h => by
    unfold dupScan at h
    split at h
    · split at h
      · rcases mem_dupScan rest prev true h with h' | h'
        · exact Or.inl h'
        · exact Or.inr (List.mem_cons_of_mem _ h')
      · simp only [List.mem_cons] at h
        rcases h with h | h
        · exact Or.inl h
        · rcases mem_dupScan rest prev true h with h' | h'
          · exact Or.inl h'
          · exact Or.inr (List.mem_cons_of_mem _ h')
    · rcases mem_dupScan rest x false h with h' | h'
      · exact Or.inr (h' ▸ List.mem_cons_self ..)
      · exact Or.inr (List.mem_cons_of_mem _ h')

theorem mem_findDuplicateTypeInfo {b : Bytes} {xs : List XD} (h : b ∈ findDuplicateTypeInfo xs) :
    b ∈ xs.map (fun x => encodeTy x.ty) := by
  unfold findDuplicateTypeInfo at h
  split at h
  · simp at h
  · split at h
    · simp at h
    · rename_i a rest heq
      apply mem_sortBytes
      rw [heq]
      rcases mem_dupScan rest a false h with h' | h'
      · exact h' ▸ List.mem_cons_self ..
      · exact List.mem_cons_of_mem _ h'

theorem exists_tis : ∀ (l : List Bytes), (∀ b ∈ l, ∃ t, validTy t ∧ encodeTy t = b) →
    ∃ tis : List TyInfo, tis.map encodeTy = l ∧ ∀ t ∈ tis, validTy t
  | [], _ => ⟨[], rfl, fun _ h => by cases h⟩
  | b :: bs, h => by
    obtain ⟨t, ht, hb⟩ := h b (List.mem_cons_self ..)
    obtain ⟨ts, hts, hv⟩ := exists_tis bs (fun x hx => h x (List.mem_cons_of_mem _ hx))
    refine ⟨t :: ts, by simp [hb, hts], ?_⟩
    intro y hy
    simp only [List.mem_cons] at hy
    rcases hy with rfl | hy
    · exact ht
    · exact hv y hy

theorem XD.valid_ty {x : XD} (h : x.valid) : validTy x.ty := by
  cases x with
  | arr t => exact h
  | map m => exact h.1
  | cmap a b c => exact h.elim

theorem length_le_flatten : ∀ (l : List Bytes), (∀ b ∈ l, 0 < b.length) → l.length ≤ l.flatten.length
  | [], _ => by simp
  | b :: bs, h => by
    have h1 := h b (List.mem_cons_self ..)
    have h2 := length_le_flatten bs (fun x hx => h x (List.mem_cons_of_mem _ hx))
    simp only [List.length_cons, List.flatten_cons, List.length_append]; omega

theorem length_le_flatMap_encodeXD (dups : List Bytes) : ∀ (xs : List XD),
    xs.length ≤ (xs.flatMap (encodeXD dups)).length
  | [] => by simp
  | x :: xs => by
    have h1 := length_encodeXD_pos dups x
    have h2 := length_le_flatMap_encodeXD dups xs
    simp only [List.length_cons, List.flatMap_cons, List.length_append]; omega

/-! ### the whole section -/

theorem length_insertBytes (k : Bytes) : ∀ (l : List Bytes), (insertBytes k l).length = l.length + 1
  | [] => rfl
  | x :: xs => by
    unfold insertBytes
    split
    · simp
    · simp [length_insertBytes k xs]

theorem length_sortBytes : ∀ (l : List Bytes), (sortBytes l).length = l.length
  | [] => rfl
  | x :: xs => by
    show (insertBytes x (sortBytes xs)).length = _
    rw [length_insertBytes, length_sortBytes xs]; simp

theorem length_dupScan_le : ∀ (l : List Bytes) (prev : Bytes) (e : Bool), (dupScan prev e l).length ≤ l.length
  | [], _, _ => by simp [dupScan]
  | x :: rest, prev, e => by
    unfold dupScan
    split
    · split
      · have := length_dupScan_le rest prev true; simp only [List.length_cons]; omega
      · have := length_dupScan_le rest prev true; simp only [List.length_cons]; omega
    · have := length_dupScan_le rest x false; simp only [List.length_cons]; omega

theorem length_findDuplicateTypeInfo_le (xs : List XD) : (findDuplicateTypeInfo xs).length ≤ xs.length := by
  unfold findDuplicateTypeInfo
  split
  · simp
  · split
    · simp
    · rename_i a rest heq
      have h1 := length_dupScan_le rest a false
      have h2 := length_sortBytes (xs.map (fun x => encodeTy x.ty))
      rw [heq] at h2
      simp only [List.length_cons, List.length_map] at h2
      omega

theorem flatMap_eq_flatten_map {α : Type} (f : α → Bytes) (l : List α) : l.flatMap f = (l.map f).flatten := by
  induction l with
  | nil => rfl
  | cons x xs ih => simp [List.flatMap_cons, ih]

/-- `newInlinedExtraDataFromData` on an encoded inlined-extra-data section followed by `rest`: the
    entries come back; the decoder allocates one slot per duplicated type info and one per entry -/
theorem newInlinedExtraDataFromData_enc (xs : List XD) (hx : XOK xs) (hne : xs ≠ []) (hlen : xs.length ≤ 256)
    (rest : Bytes) (n : Nat) :
    newInlinedExtraDataFromData (encodeIED xs ++ rest) n
      = .ok (xs, rest) (n + (findDuplicateTypeInfo xs).length + xs.length) := by
  have hv : ∀ x ∈ xs, x.valid := (XOK_iff xs).1 hx
  -- the duplicated type infos as type infos
  obtain ⟨tis, htd, htv⟩ := exists_tis (findDuplicateTypeInfo xs) (by
    intro b hb
    have := mem_findDuplicateTypeInfo hb
    obtain ⟨x, hxm, rfl⟩ := List.mem_map.1 this
    exact ⟨x.ty, XD.valid_ty (hv x hxm), rfl⟩)
  have hdl := length_findDuplicateTypeInfo_le xs
  have htl : tis.length = (findDuplicateTypeInfo xs).length := by rw [← htd]; simp
  have htl64 : tis.length < 2 ^ 64 := by omega
  -- the shape of the encoding
  have henc : encodeIED xs = head 4 2 ++ (head 4 tis.length ++ ((tis.map encodeTy).flatten ++
      (head 4 xs.length ++ xs.flatMap (encodeXD (tis.map encodeTy))))) := by
    unfold encodeIED
    simp only [inlinedExtraDataArrayCount, htd, htl, List.append_assoc]
  -- the validator accepts it
  have hacc : Acc (encodeIED xs) 5 := by
    have hA1 : Acc (head 4 (tis.map encodeTy).length ++ (tis.map encodeTy).flatten) 2 := by
      refine Acc.array (by simp [maxArrayElements]; omega) ?_
      intro b hb
      obtain ⟨t, ht, rfl⟩ := List.mem_map.1 hb
      exact acc_encodeTy t (htv t ht)
    have hA2 : Acc (head 4 (xs.map (encodeXD (tis.map encodeTy))).length ++ (xs.map (encodeXD (tis.map encodeTy))).flatten) 4 := by
      refine Acc.array (by simp [maxArrayElements]; omega) ?_
      intro b hb
      obtain ⟨x, hxm, rfl⟩ := List.mem_map.1 hb
      exact acc_encodeXD _ (by simp; omega) x (hv x hxm)
    have hl : AccList [head 4 (tis.map encodeTy).length ++ (tis.map encodeTy).flatten,
        head 4 (xs.map (encodeXD (tis.map encodeTy))).length ++ (xs.map (encodeXD (tis.map encodeTy))).flatten] 4 := by
      intro b hb
      simp only [List.mem_cons, List.not_mem_nil, or_false] at hb
      rcases hb with rfl | rfl
      · exact hA1.mono (by omega)
      · exact hA2
    have := Acc.array (by simp [maxArrayElements]) hl
    rw [henc]
    simpa [flatten_pair, flatMap_eq_flatten_map, List.append_assoc] using this
  have hw := wfNext_of_acc hacc (by decide) rest
  -- lengths
  have hL : (encodeIED xs).length = 1 + headLen tis.length + ((tis.map encodeTy).flatten).length +
      headLen xs.length + (xs.flatMap (encodeXD (tis.map encodeTy))).length := by
    rw [henc]; simp [length_head, headLen]; omega
  have h2 : headLen 2 = 1 := rfl
  have hp1 := headLen_pos tis.length
  have hp2 := headLen_pos xs.length
  have hcnt1 : tis.length ≤ ((tis.map encodeTy).flatten).length := by
    have := length_le_flatten (tis.map encodeTy) (by
      intro b hb; obtain ⟨t, _, rfl⟩ := List.mem_map.1 hb; exact length_encodeTy_pos t)
    simpa using this
  have hcnt2 := length_le_flatMap_encodeXD (tis.map encodeTy) xs
  have hxpos : 0 < xs.length := List.length_pos_iff.2 hne
  unfold newInlinedExtraDataFromData
  simp only
  -- outer array head on the fresh decoder
  have hhead : (Dec.new (encodeIED xs ++ rest)).decodeArrayHead
      = some (2, (⟨head 4 tis.length ++ ((tis.map encodeTy).flatten ++
          (head 4 xs.length ++ (xs.flatMap (encodeXD (tis.map encodeTy)) ++ rest))),
          (encodeIED xs).length - 1, 1⟩ : Dec)) := by
    show Dec.decodeHeadOf 4 _ = _
    rw [decodeHeadOf_new hw]
    have hrem : (encodeIED xs ++ rest).length - rest.length = (encodeIED xs).length := by simp
    rw [hrem]
    have hdata : encodeIED xs ++ rest = head 4 2 ++ (head 4 tis.length ++ ((tis.map encodeTy).flatten ++
        (head 4 xs.length ++ (xs.flatMap (encodeXD (tis.map encodeTy)) ++ rest)))) := by
      rw [henc]; simp only [List.append_assoc]
    rw [hdata]
    have := decodeArrayHead_head (n := 2) (by omega) (head 4 tis.length ++ ((tis.map encodeTy).flatten ++
        (head 4 xs.length ++ (xs.flatMap (encodeXD (tis.map encodeTy)) ++ rest)))) (encodeIED xs).length 0
      (by rw [h2]; omega)
    simp only [h2, Nat.zero_add] at this
    exact this
  rw [hhead]
  simp only [DM.liftOpt_some, DM.pure_bind, inlinedExtraDataArrayCount, ne_eq, not_true_eq_false, ↓reduceIte]
  rw [decodeArrayHead_head (by omega) _ _ _ (by omega)]
  simp only [DM.liftOpt_some, DM.pure_bind]
  have hc1 : ¬ (tis.length > (encodeIED xs ++ rest).length) := by
    simp only [List.length_append]; omega
  simp only [hc1, ↓reduceIte]
  rw [DM.alloc_bind]
  simp only
  rw [decTypeInfos_enc tis htv _ _ _ (by omega)]
  simp only [DM.pure_bind]
  rw [decodeArrayHead_head (by omega) _ _ _ (by omega)]
  simp only [DM.liftOpt_some, DM.pure_bind]
  have hc2 : ¬ (xs.length = 0) := by omega
  have hc3 : ¬ (xs.length > (encodeIED xs ++ rest).length) := by
    simp only [List.length_append]; omega
  simp only [hc2, hc3, ↓reduceIte]
  rw [DM.alloc_bind]
  simp only
  rw [decXDs_enc _ tis htv htl64 xs hv rest _ _ (by omega)]
  simp only [DM.pure_bind, Dec.numBytesDecoded]
  unfold sliceFrom
  have hcons : 1 + headLen tis.length + ((tis.map encodeTy).flatten).length + headLen xs.length +
      (xs.flatMap (encodeXD (tis.map encodeTy))).length = (encodeIED xs).length := by omega
  rw [hcons, if_pos (by simp)]
  simp only [DM.pure_bind, List.drop_left, DM.pure_apply, htl]

end Atree.Codec
