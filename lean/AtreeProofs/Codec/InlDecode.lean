import AtreeProofs.Codec.InlAccept
/-
  The mutually recursive decoders of the second part run on encoder output WITH inlined arrays and
  maps (not the compact form).  The decoder is handed the complete list `xs` of extra-data entries
  of the slab; the encoder assigned its indexes while the list was still growing, so the statement
  is relative to a state `xs0` of the encoder of which `xs` is an extension.
-/
namespace Atree.Codec
open Atree Atree.Gen DM

/-- `xs` extends `xs1` -/
def Ext (xs1 xs : List XD) : Prop := ∃ t, xs = xs1 ++ t

theorem Ext.of_state {a b xs : List XD} (h : StateOK a b) (he : Ext b xs) : Ext a xs := by
  obtain ⟨⟨t1, rfl⟩, _⟩ := h
  obtain ⟨t2, rfl⟩ := he
  exact ⟨t1 ++ t2, by simp⟩

theorem Ext.get {a xs : List XD} {i : Nat} {x : XD} (he : Ext a xs) (h : a[i]? = some x) : xs[i]? = some x := by
  obtain ⟨t, rfl⟩ := he
  exact getElem?_of_prefix h

theorem getXD_some {xs : List XD} {i : Nat} {x : XD} (h : xs[i]? = some x) : getXD xs i = pure x := by
  unfold getXD
  have hi : i < xs.length := by
    rcases Nat.lt_or_ge i xs.length with h' | h'
    · exact h'
    · rw [List.getElem?_eq_none h'] at h; cases h
  rw [if_neg (by omega), h]

theorem lt_length_of_get {α : Type} {xs : List α} {i : Nat} {x : α} (h : xs[i]? = some x) : i < xs.length := by
  rcases Nat.lt_or_ge i xs.length with h' | h'
  · exact h'
  · rw [List.getElem?_eq_none h'] at h; cases h

/-- `decodeIdx` on an encoded slab index -/
theorem decodeIdx_enc {idx : Nat} (hidx : idx < 2 ^ 64) (rest : Bytes) (R c : Nat) (hR : 9 ≤ R) :
    decodeIdx { data := encodeIdx idx ++ rest, remaining := R, consumed := c }
      = pure (idx, { data := rest, remaining := R - 9, consumed := c + 9 }) := by
  unfold decodeIdx encodeIdx
  rw [List.append_assoc]
  have h8 : headLen SlabIndexLength = 1 := rfl
  rw [decodeBytes_head (by simp [SlabIndexLength]) _ _ (length_beBytes _ _) R c (by rw [h8]; simp [SlabIndexLength]; omega)]
  simp only [DM.liftOpt_some, DM.pure_bind, length_beBytes, ne_eq, not_true_eq_false, ↓reduceIte, h8]
  have : copyN SlabIndexLength (beBytes SlabIndexLength idx) = beBytes SlabIndexLength idx := by
    have := copyN_append_left (b := []) (length_beBytes SlabIndexLength idx)
    simpa using this
  rw [this, beVal_beBytes (by simpa [SlabIndexLength] using hidx)]
  simp only [SlabIndexLength]

theorem encSt_map_eq (x : MapExtra) (idx : Nat) (els : MEls) (xs : List XD)
    (nc : (Stor.map x idx els).noCompact) :
    encSt (.map x idx els) xs =
      (inlinedHead CBORTagInlinedMap (addMapXD xs x).1 ++ encodeIdx idx ++ (encMEls els (addMapXD xs x).2).1,
       (encMEls els (addMapXD xs x).2).2) := by
  cases els with
  | hkey level hkeys elems =>
    have hc : compactKeys x elems = none := nc.1
    simp only [encSt, hc, encMEls, List.append_assoc]
  | single level elems =>
    simp only [encSt, encMEls, List.append_assoc]

theorem Stor.noCompact_map_els {x : MapExtra} {idx : Nat} {els : MEls} (nc : (Stor.map x idx els).noCompact) :
    els.noCompact := by
  cases els with
  | hkey level hkeys elems => exact nc.2
  | single level elems => exact nc


mutual
theorem decStG_encI : (s : Stor) → s.RTI → s.noCompact → ∀ (fuel depth : Nat) (rest : Bytes) (R c addr : Nat)
    (xs0 xs : List XD) (n : Nat), XOK xs0 → Ext (encSt s xs0).2 xs → xs.length ≤ 256 →
    s.fuelI ≤ fuel → depth + s.dneed ≤ maxDecodeDepth → s.size ≤ R →
    decStG fuel depth { data := (encSt s xs0).1 ++ rest, remaining := R, consumed := c } addr xs n
      = .ok (s, { data := rest, remaining := R - s.size, consumed := c + s.size }) (n + s.allocsI)
  | .val size pay, h, _, fuel, depth, rest, R, c, addr, xs0, xs, n, _, _, _, hf, hd, hR => by
    obtain ⟨f, rfl⟩ : ∃ f, fuel = f + 1 := ⟨fuel - 1, by simp only [Stor.fuelI] at hf; omega⟩
    simp only [encSt, Stor.size] at hR ⊢
    have := decStG_elem { size := size, pay := .val pay } h f depth rest R c addr xs
      (by simp only [Stor.dneed] at hd; omega) hR
    simp only [Stor.ofElem] at this
    rw [this]; rfl
  | .ref id, h, _, fuel, depth, rest, R, c, addr, xs0, xs, n, _, _, _, hf, hd, hR => by
    obtain ⟨f, rfl⟩ : ∃ f, fuel = f + 1 := ⟨fuel - 1, by simp only [Stor.fuelI] at hf; omega⟩
    simp only [encSt, Stor.size] at hR ⊢
    have := decStG_elem { size := slabIDStorableSize, pay := .ref id } ⟨rfl, h.1, h.2⟩ f depth rest R c addr xs
      (by simp only [Stor.dneed] at hd; omega) hR
    simp only [Stor.ofElem] at this
    rw [this]; rfl
  | .some s, h, nc, fuel, depth, rest, R, c, addr, xs0, xs, n, hx, he, h256, hf, hd, hR => by
    obtain ⟨f, rfl⟩ : ∃ f, fuel = f + 1 := ⟨fuel - 1, by simp only [Stor.fuelI] at hf; omega⟩
    simp only [Stor.fuelI, Stor.dneed, Stor.size, someOverhead] at hf hd hR
    simp only [encSt] at he
    have ih := decStG_encI s h nc f (depth + 1) rest (R - 2) (c + 2) addr xs0 xs n hx he h256
      (by omega) (by omega) (by omega)
    simp only [encSt, tagHead8, List.cons_append, List.nil_append]
    unfold decStG
    rw [if_neg (by omega)]
    rw [nextType_pos (by simp only; omega) rfl]
    simp only [DM.liftOpt_some, DM.pure_bind, ctypeOf_d8]
    rw [decodeTagNumber_tag8 _ _ _ _ (by omega)]
    simp only [DM.liftOpt_some, DM.pure_bind, CBORTagSlabID, CBORTagInlinedArray, CBORTagInlinedMap,
      CBORTagInlinedCompactMap, tagGapValue, tagSomeValue]
    simp only [show ¬ ((165 : Nat) = 250) by decide, show ¬ ((165 : Nat) = 251) by decide,
      show ¬ ((165 : Nat) = 252) by decide, show ¬ ((165 : Nat) = 255) by decide,
      show ¬ ((165 : Nat) = 161) by decide, ↓reduceIte]
    rw [DM.bind_ok ih]
    simp only [DM.pure_apply, Stor.size, Stor.allocsI, someOverhead]
    have e1 : R - 2 - s.size = R - (2 + s.size) := by omega
    have e2 : c + 2 + s.size = c + (2 + s.size) := by omega
    rw [e1, e2]
  | .arr ty idx es, h, nc, fuel, depth, rest, R, c, addr, xs0, xs, n, hx, he, h256, hf, hd, hR => by
    obtain ⟨hty, hidx, hlen, hes, hsz⟩ := h
    obtain ⟨ha, hxa, hget⟩ := addArrayXD_spec xs0 ty hx hty
    obtain ⟨f, rfl⟩ : ∃ f, fuel = f + 1 := ⟨fuel - 1, by simp only [Stor.fuelI] at hf; omega⟩
    obtain ⟨f', rfl⟩ : ∃ f', f = f' + 1 := ⟨f - 1, by simp only [Stor.fuelI] at hf; omega⟩
    simp only [Stor.fuelI, Stor.dneed, Stor.size, inlinedArrayDataSlabPrefixSize] at hf hd hR hsz
    simp only [encSt] at he
    have hst := encSts_state es (addArrayXD xs0 ty).2 hes nc hxa
    have hgx : xs[(addArrayXD xs0 ty).1]? = some (.arr ty) := (Ext.of_state (StateOK.refl hxa) (Ext.of_state hst he)).get hget
    have hi256 : (addArrayXD xs0 ty).1 < 256 := by have := lt_length_of_get hgx; omega
    have ih := decStsG_encI es hes nc f' (depth + 1) rest (R - 17) (c + 17) addr (addArrayXD xs0 ty).2 xs
      inlinedArrayDataSlabPrefixSize (n + es.length) hxa he h256 (by omega) (by omega) (by omega)
      (by simp only [inlinedArrayDataSlabPrefixSize]; omega)
    simp only [encSt, inlinedHead, List.cons_append, List.nil_append, List.append_assoc]
    unfold decStG
    rw [if_neg (by omega)]
    rw [nextType_pos (by simp only; omega) rfl]
    simp only [DM.liftOpt_some, DM.pure_bind, ctypeOf_d8]
    rw [decodeTagNumber_tag8 _ _ _ _ (by omega)]
    simp only [DM.liftOpt_some, DM.pure_bind, CBORTagInlinedArray, ↓reduceIte]
    unfold decInlArr
    have h83 : (0x83 : Nat) :: 0x18 :: (addArrayXD xs0 ty).1 % 256 :: (encodeIdx idx ++ (arrayHead16 es.length ++
          ((encSts es (addArrayXD xs0 ty).2).1 ++ rest)))
        = head 4 3 ++ (0x18 :: (addArrayXD xs0 ty).1 % 256 :: (encodeIdx idx ++ (arrayHead16 es.length ++
          ((encSts es (addArrayXD xs0 ty).2).1 ++ rest)))) := by simp [head]
    have h3 : headLen 3 = 1 := rfl
    rw [h83, decodeArrayHead_head (by omega) _ (R - 2) (c + 2) (by rw [h3]; omega)]
    simp only [DM.liftOpt_some, DM.pure_bind, DecodeInlinedArrayStorable_inlinedArrayDataSlabArrayCount, ne_eq,
      not_true_eq_false, ↓reduceIte, h3]
    rw [decodeUint64_fixed8 (Nat.mod_lt _ (by omega)) _ (R - 2 - 1) (c + 2 + 1) (by omega)]
    simp only [DM.liftOpt_some, DM.pure_bind, Nat.mod_eq_of_lt hi256]
    rw [getXD_some hgx]
    simp only [DM.pure_bind]
    rw [decodeIdx_enc hidx _ (R - 2 - 1 - 2) (c + 2 + 1 + 2) (by omega)]
    simp only [DM.pure_bind]
    rw [decodeArrayHead_head16 hlen _ (R - 2 - 1 - 2 - 9) (c + 2 + 1 + 2 + 9) (by omega)]
    simp only [DM.liftOpt_some, DM.pure_bind]
    have hc1 : ¬ (es.length > maxUint32) := by simp only [maxUint32]; omega
    simp only [hc1, ↓reduceIte]
    rw [DM.alloc_bind]
    simp only
    have hR' : R - 2 - 1 - 2 - 9 - 3 = R - 17 := by omega
    have hc' : c + 2 + 1 + 2 + 9 + 3 = c + 17 := by omega
    rw [hR', hc', DM.bind_ok ih]
    simp only [DM.pure_apply, Stor.size, Stor.allocsI, inlinedArrayDataSlabPrefixSize]
    have e1 : R - 17 - sizeSts es = R - (17 + sizeSts es) := by omega
    have e2 : c + 17 + sizeSts es = c + (17 + sizeSts es) := by omega
    have e3 : n + es.length + allocsISts es = n + (es.length + allocsISts es) := by omega
    rw [e1, e2, e3]
  | .map x idx els, h, nc, fuel, depth, rest, R, c, addr, xs0, xs, n, hx, he, h256, hf, hd, hR => by
    obtain ⟨hmx, hidx, hels, hsz⟩ := h
    obtain ⟨ha, hxa, hget⟩ := addMapXD_spec xs0 x hx hmx
    have hnc := Stor.noCompact_map_els nc
    obtain ⟨f, rfl⟩ : ∃ f, fuel = f + 1 := ⟨fuel - 1, by simp only [Stor.fuelI] at hf; omega⟩
    obtain ⟨f', rfl⟩ : ∃ f', f = f' + 1 := ⟨f - 1, by simp only [Stor.fuelI] at hf; omega⟩
    simp only [Stor.fuelI, Stor.dneed, Stor.size, inlinedMapDataSlabPrefixSize] at hf hd hR hsz
    rw [encSt_map_eq x idx els xs0 nc] at he ⊢
    simp only at he
    have hst := encMEls_state els (addMapXD xs0 x).2 hels hnc hxa
    have hgx : xs[(addMapXD xs0 x).1]? = some (.map x) := (Ext.of_state (StateOK.refl hxa) (Ext.of_state hst he)).get hget
    have hi256 : (addMapXD xs0 x).1 < 256 := by have := lt_length_of_get hgx; omega
    have ih := decMElsG_encI els hels hnc f' (depth + 1) rest (R - 14) (c + 14) addr (addMapXD xs0 x).2 xs n
      hxa he h256 (by omega) (by omega) (by omega)
    simp only [inlinedHead, List.cons_append, List.nil_append, List.append_assoc]
    unfold decStG
    rw [if_neg (by omega)]
    rw [nextType_pos (by simp only; omega) rfl]
    simp only [DM.liftOpt_some, DM.pure_bind, ctypeOf_d8]
    rw [decodeTagNumber_tag8 _ _ _ _ (by omega)]
    simp only [DM.liftOpt_some, DM.pure_bind, CBORTagInlinedArray, CBORTagInlinedMap,
      show ¬ ((251 : Nat) = 250) by decide, ↓reduceIte]
    unfold decInlMap
    have h83 : (0x83 : Nat) :: 0x18 :: (addMapXD xs0 x).1 % 256 :: (encodeIdx idx ++
          ((encMEls els (addMapXD xs0 x).2).1 ++ rest))
        = head 4 3 ++ (0x18 :: (addMapXD xs0 x).1 % 256 :: (encodeIdx idx ++
          ((encMEls els (addMapXD xs0 x).2).1 ++ rest))) := by simp [head]
    have h3 : headLen 3 = 1 := rfl
    rw [h83, decodeArrayHead_head (by omega) _ (R - 2) (c + 2) (by rw [h3]; omega)]
    simp only [DM.liftOpt_some, DM.pure_bind, DecodeInlinedMapStorable_inlinedMapDataSlabArrayCount, ne_eq,
      not_true_eq_false, ↓reduceIte, h3]
    rw [decodeUint64_fixed8 (Nat.mod_lt _ (by omega)) _ (R - 2 - 1) (c + 2 + 1) (by omega)]
    simp only [DM.liftOpt_some, DM.pure_bind, Nat.mod_eq_of_lt hi256]
    rw [getXD_some hgx]
    simp only [DM.pure_bind]
    rw [decodeIdx_enc hidx _ (R - 2 - 1 - 2) (c + 2 + 1 + 2) (by omega)]
    simp only [DM.pure_bind]
    have hR' : R - 2 - 1 - 2 - 9 = R - 14 := by omega
    have hc' : c + 2 + 1 + 2 + 9 = c + 14 := by omega
    rw [hR', hc', DM.bind_ok ih]
    have hc1 : ¬ (14 + els.size > maxUint32) := by omega
    simp only [Stor.size, Stor.allocsI, inlinedMapDataSlabPrefixSize]
    have e1 : R - 14 - els.size = R - (14 + els.size) := by omega
    have e2 : c + 14 + els.size = c + (14 + els.size) := by omega
    rw [e1, e2]
    simp only [hc1, ↓reduceIte]
    rfl
theorem decStsG_encI : (l : List Stor) → rtiSts l → noCompactSts l → ∀ (fuel cdepth : Nat) (rest : Bytes)
    (R c addr : Nat) (xs0 xs : List XD) (size0 n : Nat), XOK xs0 → Ext (encSts l xs0).2 xs → xs.length ≤ 256 →
    fuelISts l ≤ fuel → cdepth + dneedSts l ≤ maxDecodeDepth → sizeSts l ≤ R → size0 + sizeSts l ≤ maxUint32 →
    decStsG fuel l.length cdepth { data := (encSts l xs0).1 ++ rest, remaining := R, consumed := c } addr xs size0 n
      = .ok (l, size0 + sizeSts l, { data := rest, remaining := R - sizeSts l, consumed := c + sizeSts l })
          (n + allocsISts l)
  | [], _, _, fuel, cdepth, rest, R, c, addr, xs0, xs, size0, n, _, _, _, _, _, _, _ => by
    cases fuel <;> simp [decStsG, encSts, sizeSts, allocsISts, DM.pure_apply]
  | s :: ss, h, nc, fuel, cdepth, rest, R, c, addr, xs0, xs, size0, n, hx, he, h256, hf, hd, hR, hS => by
    obtain ⟨f, rfl⟩ : ∃ f, fuel = f + 1 := ⟨fuel - 1, by simp only [fuelISts] at hf; omega⟩
    simp only [fuelISts, dneedSts, sizeSts] at hf hd hR hS
    simp only [encSts] at he
    have hst1 := encSt_state s xs0 h.1 nc.1 hx
    have hst2 := encSts_state ss (encSt s xs0).2 h.2 nc.2 hst1.2
    have ih1 := decStG_encI s h.1 nc.1 f cdepth ((encSts ss (encSt s xs0).2).1 ++ rest) R c addr xs0 xs n hx
      (Ext.of_state hst2 he) h256 (by omega) (by omega) (by omega)
    have ih2 := decStsG_encI ss h.2 nc.2 f cdepth rest (R - s.size) (c + s.size) addr (encSt s xs0).2 xs
      (size0 + s.size) (n + s.allocsI) hst1.2 he h256 (by omega) (by omega) (by omega) (by omega)
    simp only [encSts, List.length_cons, List.append_assoc, decStsG]
    rw [DM.bind_ok ih1]
    have hle : ¬ (size0 + s.size > maxUint32) := by omega
    simp only [hle, ↓reduceIte]
    rw [DM.bind_ok ih2]
    simp only [DM.pure_apply, sizeSts, allocsISts]
    have e1 : size0 + s.size + sizeSts ss = size0 + (s.size + sizeSts ss) := by omega
    have e2 : R - s.size - sizeSts ss = R - (s.size + sizeSts ss) := by omega
    have e3 : c + s.size + sizeSts ss = c + (s.size + sizeSts ss) := by omega
    have e4 : n + s.allocsI + allocsISts ss = n + (s.allocsI + allocsISts ss) := by omega
    rw [e1, e2, e3, e4]
theorem decSElG_encI : (e : SEl) → e.RTI → e.noCompact → ∀ (fuel cdepth : Nat) (rest : Bytes) (R c addr : Nat)
    (xs0 xs : List XD) (n : Nat), XOK xs0 → Ext (encSEl e xs0).2 xs → xs.length ≤ 256 →
    e.fuelI ≤ fuel → cdepth + e.dneed ≤ maxDecodeDepth → e.size ≤ R →
    decSElG fuel cdepth { data := (encSEl e xs0).1 ++ rest, remaining := R, consumed := c } addr xs n
      = .ok (e, { data := rest, remaining := R - e.size, consumed := c + e.size }) (n + e.allocsI)
  | .mk k v, h, nc, fuel, cdepth, rest, R, c, addr, xs0, xs, n, hx, he, h256, hf, hd, hR => by
    obtain ⟨hk, hv, hsz⟩ := h
    obtain ⟨f, rfl⟩ : ∃ f, fuel = f + 1 := ⟨fuel - 1, by simp only [SEl.fuelI] at hf; omega⟩
    simp only [SEl.fuelI, SEl.dneed, SEl.size, singleElementPrefixSize] at hf hd hR hsz
    simp only [encSEl] at he
    have hst1 := encSt_state k xs0 hk nc.1 hx
    have hst2 := encSt_state v (encSt k xs0).2 hv nc.2 hst1.2
    have ih1 := decStG_encI k hk nc.1 f cdepth ((encSt v (encSt k xs0).2).1 ++ rest) (R - 1) (c + 1) addr xs0 xs n hx
      (Ext.of_state hst2 he) h256 (by omega) (by omega) (by omega)
    have ih2 := decStG_encI v hv nc.2 f cdepth rest (R - 1 - k.size) (c + 1 + k.size) addr (encSt k xs0).2 xs
      (n + k.allocsI) hst1.2 he h256 (by omega) (by omega) (by omega)
    simp only [encSEl, List.cons_append, List.append_assoc]
    unfold decSElG
    have h82 : (0x82 : Nat) :: ((encSt k xs0).1 ++ ((encSt v (encSt k xs0).2).1 ++ rest))
        = head 4 2 ++ ((encSt k xs0).1 ++ ((encSt v (encSt k xs0).2).1 ++ rest)) := by simp [head]
    have hh2 : headLen 2 = 1 := rfl
    rw [h82, decodeArrayHead_head (by omega) _ _ _ (by rw [hh2]; omega)]
    simp only [DM.liftOpt_some, DM.pure_bind, ne_eq, not_true_eq_false, ↓reduceIte, hh2]
    rw [DM.bind_ok ih1]
    simp only
    rw [DM.bind_ok ih2]
    have hle : ¬ (1 + k.size + v.size > maxUint32) := by omega
    simp only [SEl.size, SEl.allocsI, singleElementPrefixSize]
    have e1 : R - 1 - k.size - v.size = R - (1 + k.size + v.size) := by omega
    have e2 : c + 1 + k.size + v.size = c + (1 + k.size + v.size) := by omega
    have e3 : n + k.allocsI + v.allocsI = n + (k.allocsI + v.allocsI) := by omega
    rw [e1, e2, e3]
    simp only [hle, ↓reduceIte]
    rfl
theorem decMElG_encI : (e : MEl) → e.RTI → e.noCompact → ∀ (fuel cdepth : Nat) (rest : Bytes) (R c addr : Nat)
    (xs0 xs : List XD) (n : Nat), XOK xs0 → Ext (encMEl e xs0).2 xs → xs.length ≤ 256 →
    e.fuelI ≤ fuel → cdepth + e.dneed ≤ maxDecodeDepth → e.size ≤ R →
    decMElG fuel cdepth { data := (encMEl e xs0).1 ++ rest, remaining := R, consumed := c } addr xs n
      = .ok (e, { data := rest, remaining := R - e.size, consumed := c + e.size }) (n + e.allocsI)
  | .single e, h, nc, fuel, cdepth, rest, R, c, addr, xs0, xs, n, hx, he, h256, hf, hd, hR => by
    obtain ⟨f, rfl⟩ : ∃ f, fuel = f + 1 := ⟨fuel - 1, by simp only [MEl.fuelI] at hf; omega⟩
    simp only [MEl.fuelI, MEl.dneed, MEl.size] at hf hd hR
    simp only [encMEl] at he
    have hspec := decSElG_encI e h nc f cdepth rest R c addr xs0 xs n hx he h256 (by omega) hd hR
    obtain ⟨k, v⟩ := e
    simp only [encMEl, encSEl, List.cons_append] at hspec ⊢
    unfold decMElG
    rw [nextType_pos (by simp only [SEl.size, singleElementPrefixSize] at hR ⊢; omega) rfl]
    simp only [DM.liftOpt_some, DM.pure_bind, ctypeOf_82]
    rw [DM.bind_ok hspec]
    simp only [DM.pure_apply, MEl.size, MEl.allocsI]
  | .inl els, h, nc, fuel, cdepth, rest, R, c, addr, xs0, xs, n, hx, he, h256, hf, hd, hR => by
    obtain ⟨f, rfl⟩ : ∃ f, fuel = f + 1 := ⟨fuel - 1, by simp only [MEl.fuelI] at hf; omega⟩
    simp only [MEl.fuelI, MEl.dneed, MEl.size, inlineCollisionGroupPrefixSize] at hf hd hR
    simp only [encMEl] at he
    have ih := decMElsG_encI els h nc f cdepth rest (R - 2) (c + 2) addr xs0 xs n hx he h256
      (by omega) (by omega) (by omega)
    simp only [encMEl, tagHead8, List.cons_append, List.nil_append]
    unfold decMElG
    rw [nextType_pos (by simp only; omega) rfl]
    simp only [DM.liftOpt_some, DM.pure_bind, ctypeOf_d8]
    rw [decodeTagNumber_tag8 _ _ _ _ (by omega)]
    simp only [DM.liftOpt_some, DM.pure_bind, CBORTagInlineCollisionGroup, ↓reduceIte]
    rw [DM.bind_ok ih]
    simp only [DM.pure_apply, MEl.size, MEl.allocsI, inlineCollisionGroupPrefixSize]
    have e1 : R - 2 - els.size = R - (2 + els.size) := by omega
    have e2 : c + 2 + els.size = c + (2 + els.size) := by omega
    rw [e1, e2]
  | .ext id, h, _, fuel, cdepth, rest, R, c, addr, xs0, xs, n, _, _, _, hf, hd, hR => by
    obtain ⟨f, rfl⟩ : ∃ f, fuel = f + 1 := ⟨fuel - 1, by simp only [MEl.fuelI] at hf; omega⟩
    obtain ⟨f', rfl⟩ : ∃ f', f = f' + 1 := ⟨f - 1, by simp only [MEl.fuelI] at hf; omega⟩
    simp only [MEl.dneed, MEl.size, externalCollisionGroupPrefixSize] at hd hR
    have hspec := decStG_elem { size := slabIDStorableSize, pay := .ref id } ⟨rfl, h.1, h.2⟩ f' cdepth rest
      (R - 2) (c + 2) addr xs (by omega) (by simp only; omega)
    simp only [encMEl, tagHead8, List.cons_append, List.nil_append]
    unfold decMElG
    rw [nextType_pos (by simp only; omega) rfl]
    simp only [DM.liftOpt_some, DM.pure_bind, ctypeOf_d8]
    rw [decodeTagNumber_tag8 _ _ _ _ (by omega)]
    simp only [DM.liftOpt_some, DM.pure_bind, CBORTagInlineCollisionGroup, CBORTagExternalCollisionGroup,
      show ¬ ((254 : Nat) = 253) by decide, ↓reduceIte]
    rw [hspec]
    simp only [DM.pure_bind, Stor.ofElem, DM.pure_apply, MEl.size, MEl.allocsI, externalCollisionGroupPrefixSize,
      Nat.add_zero]
    have e1 : R - 2 - slabIDStorableSize = R - (2 + slabIDStorableSize) := by omega
    have e2 : c + 2 + slabIDStorableSize = c + (2 + slabIDStorableSize) := by omega
    rw [e1, e2]
theorem decMElsG_encI : (els : MEls) → els.RTI → els.noCompact → ∀ (fuel cdepth : Nat) (rest : Bytes)
    (R c addr : Nat) (xs0 xs : List XD) (n : Nat), XOK xs0 → Ext (encMEls els xs0).2 xs → xs.length ≤ 256 →
    els.fuelI ≤ fuel → cdepth + els.dneed ≤ maxDecodeDepth → els.size ≤ R →
    decMElsG fuel cdepth { data := (encMEls els xs0).1 ++ rest, remaining := R, consumed := c } addr xs n
      = .ok (els, { data := rest, remaining := R - els.size, consumed := c + els.size }) (n + els.allocsI)
  | .hkey level hkeys es, h, nc, fuel, cdepth, rest, R, c, addr, xs0, xs, n, hx, he, h256, hf, hd, hR => by
    obtain ⟨hlev, hlen, h8192, hhk, hes, hsz⟩ := h
    obtain ⟨f, rfl⟩ : ∃ f, fuel = f + 1 := ⟨fuel - 1, by simp only [MEls.fuelI] at hf; omega⟩
    simp only [MEls.fuelI, MEls.dneed, MEls.size, hkeyElementsPrefixSize] at hf hd hR hsz
    simp only [encMEls] at he
    have hse := sizeMEl_eq es
    have ih := decMElListG_encI es hes nc f cdepth rest (R - 8 - 8 * es.length) (c + 8 + 8 * es.length) addr xs0 xs
      hkeyElementsPrefixSize (n + hkeys.length + es.length) hx he h256 (by omega) (by omega) (by omega)
      (by simp only [hkeyElementsPrefixSize]; omega)
    have h3 : headLen 3 = 1 := rfl
    have hl1 := headLen_small hlev
    have hklen : (encodeHkeys hkeys).length = hkeys.length * 8 := by rw [length_encodeHkeys]; omega
    simp only [encMEls, List.cons_append, List.nil_append, List.append_assoc]
    have hstart : (0x83 : Nat) :: level % 256 :: (bytesHead16 (hkeys.length * 8) ++ (encodeHkeys hkeys ++
          (arrayHead16 es.length ++ ((encMElList es xs0).1 ++ rest))))
        = head 4 3 ++ (head 0 level ++ (bytesHead16 (encodeHkeys hkeys).length ++ (encodeHkeys hkeys ++
          (arrayHead16 es.length ++ ((encMElList es xs0).1 ++ rest))))) := by
      rw [← level_head hlev, hklen]; simp [head]
    rw [hstart]
    unfold decMElsG
    rw [decodeArrayHead_head (by omega) _ R c (by rw [h3]; omega)]
    simp only [DM.liftOpt_some, DM.pure_bind, ne_eq, not_true_eq_false, ↓reduceIte, h3]
    rw [decodeUint64_head (by omega) _ (R - 1) (c + 1) (by rw [hl1]; omega)]
    simp only [DM.liftOpt_some, DM.pure_bind, hl1]
    rw [decodeBytes_head16 (by rw [hklen]; omega) _ (R - 1 - 1) (c + 1 + 1) (by rw [hklen]; omega)]
    simp only [DM.liftOpt_some, DM.pure_bind]
    have hmod : ¬ ((encodeHkeys hkeys).length % digestSize ≠ 0) := by
      rw [hklen]; simp [digestSize]
    have hdiv : (encodeHkeys hkeys).length / digestSize = hkeys.length := by
      rw [hklen]; simp [digestSize]
    simp only [hmod, ↓reduceIte, hdiv]
    rw [DM.alloc_bind]
    simp only
    have hdig : digestsOf hkeys.length (encodeHkeys hkeys) = hkeys := by
      have := digestsOf_encodeHkeys hkeys [] hhk
      simpa using this
    rw [hdig]
    rw [decodeArrayHead_head16 (by omega) _ _ _ (by rw [hklen]; omega)]
    simp only [DM.liftOpt_some, DM.pure_bind]
    have hc1 : ¬ (es.length > maxUint32) := by simp only [maxUint32]; omega
    have hc2 : ¬ (hkeys.length ≠ 0 ∧ hkeys.length ≠ es.length) := by omega
    have hc3 : ¬ (hkeys.length = 0 ∧ es.length > 0) := by omega
    simp only [hc1, hc2, hc3, ↓reduceIte]
    rw [DM.alloc_bind]
    simp only
    have hR' : R - 1 - 1 - (3 + (encodeHkeys hkeys).length) - 3 = R - 8 - 8 * es.length := by rw [hklen]; omega
    have hc' : c + 1 + 1 + (3 + (encodeHkeys hkeys).length) + 3 = c + 8 + 8 * es.length := by rw [hklen]; omega
    rw [hR', hc', DM.bind_ok ih]
    simp only [DM.pure_apply, MEls.size, MEls.allocsI, hkeyElementsPrefixSize]
    have e1 : R - 8 - 8 * es.length - bytesMEl es = R - (8 + sizeMEl es) := by omega
    have e2 : c + 8 + 8 * es.length + bytesMEl es = c + (8 + sizeMEl es) := by omega
    have e3 : n + hkeys.length + es.length + allocsIMElList es = n + (hkeys.length + es.length + allocsIMElList es) := by omega
    rw [e1, e2, e3]
  | .single level es, h, nc, fuel, cdepth, rest, R, c, addr, xs0, xs, n, hx, he, h256, hf, hd, hR => by
    obtain ⟨hlev, hne, h64k, hes, hsz⟩ := h
    obtain ⟨f, rfl⟩ : ∃ f, fuel = f + 1 := ⟨fuel - 1, by simp only [MEls.fuelI] at hf; omega⟩
    simp only [MEls.fuelI, MEls.dneed, MEls.size, singleElementsPrefixSize] at hf hd hR hsz
    simp only [encMEls] at he
    have ih := decSElsG_encI es hes nc f cdepth rest (R - 6) (c + 6) addr xs0 xs singleElementsPrefixSize
      (n + 0 + es.length) hx he h256 (by omega) (by omega) (by omega) (by simp only [singleElementsPrefixSize]; omega)
    have h3 : headLen 3 = 1 := rfl
    have h0 : headLen 0 = 1 := rfl
    have hl1 := headLen_small hlev
    have hpos : 0 < es.length := List.length_pos_iff.2 hne
    simp only [encMEls, List.cons_append, List.nil_append, List.append_assoc]
    have hstart : (0x83 : Nat) :: level % 256 :: 0x40 :: (arrayHead16 es.length ++ ((encSElList es xs0).1 ++ rest))
        = head 4 3 ++ (head 0 level ++ (head 2 0 ++ (([] : Bytes) ++
            (arrayHead16 es.length ++ ((encSElList es xs0).1 ++ rest))))) := by
      rw [← level_head hlev]; simp [head]
    rw [hstart]
    unfold decMElsG
    rw [decodeArrayHead_head (by omega) _ R c (by rw [h3]; omega)]
    simp only [DM.liftOpt_some, DM.pure_bind, ne_eq, not_true_eq_false, ↓reduceIte, h3]
    rw [decodeUint64_head (by omega) _ (R - 1) (c + 1) (by rw [hl1]; omega)]
    simp only [DM.liftOpt_some, DM.pure_bind, hl1]
    have hdb := decodeBytes_head (l := 0) (by omega) [] (arrayHead16 es.length ++ ((encSElList es xs0).1 ++ rest)) rfl
      (R - 1 - 1) (c + 1 + 1) (by rw [h0]; omega)
    rw [hdb]
    simp only [DM.liftOpt_some, DM.pure_bind, List.length_nil, h0, Nat.zero_mod, not_true_eq_false,
      ↓reduceIte, Nat.zero_div]
    rw [DM.alloc_bind]
    simp only [digestsOf]
    rw [decodeArrayHead_head16 (by omega) _ _ _ (by omega)]
    simp only [DM.liftOpt_some, DM.pure_bind]
    have hc1 : ¬ (es.length > maxUint32) := by simp only [maxUint32]; omega
    have hc3 : (0 : Nat) = 0 ∧ es.length > 0 := ⟨rfl, hpos⟩
    simp only [hc1, hc3, ↓reduceIte, and_self]
    rw [DM.alloc_bind]
    have hR' : R - 1 - 1 - (1 + 0) - 3 = R - 6 := by omega
    have hc' : c + 1 + 1 + (1 + 0) + 3 = c + 6 := by omega
    rw [hR', hc']
    have hfin : (decSElsG f es.length cdepth { data := (encSElList es xs0).1 ++ rest, remaining := R - 6, consumed := c + 6 }
        addr xs singleElementsPrefixSize >>= fun x => (pure (MEls.single level x.1, x.2.2) : DM (MEls × Dec)))
        (n + 0 + es.length) = .ok (MEls.single level es, { data := rest, remaining := R - 6 - sizeSEl es, consumed := c + 6 + sizeSEl es })
          (n + 0 + es.length + allocsISElList es) := by
      rw [DM.bind_ok ih]; rfl
    simp only [MEls.size, MEls.allocsI, singleElementsPrefixSize]
    have e1 : R - 6 - sizeSEl es = R - (6 + sizeSEl es) := by omega
    have e2 : c + 6 + sizeSEl es = c + (6 + sizeSEl es) := by omega
    have e3 : n + 0 + es.length + allocsISElList es = n + (0 + es.length + allocsISElList es) := by omega
    rw [e1, e2, e3] at hfin
    simp only [singleElementsPrefixSize] at hfin
    simpa using hfin
theorem decSElsG_encI : (l : List SEl) → rtiSElList l → noCompactSElList l → ∀ (fuel cdepth : Nat) (rest : Bytes)
    (R c addr : Nat) (xs0 xs : List XD) (size0 n : Nat), XOK xs0 → Ext (encSElList l xs0).2 xs → xs.length ≤ 256 →
    fuelISElList l ≤ fuel → cdepth + dneedSElList l ≤ maxDecodeDepth → sizeSEl l ≤ R →
    size0 + sizeSEl l ≤ maxUint32 →
    decSElsG fuel l.length cdepth { data := (encSElList l xs0).1 ++ rest, remaining := R, consumed := c } addr xs size0 n
      = .ok (l, size0 + sizeSEl l, { data := rest, remaining := R - sizeSEl l, consumed := c + sizeSEl l })
          (n + allocsISElList l)
  | [], _, _, fuel, cdepth, rest, R, c, addr, xs0, xs, size0, n, _, _, _, _, _, _, _ => by
    cases fuel <;> simp [decSElsG, encSElList, sizeSEl, allocsISElList, DM.pure_apply]
  | e :: es, h, nc, fuel, cdepth, rest, R, c, addr, xs0, xs, size0, n, hx, he, h256, hf, hd, hR, hS => by
    obtain ⟨f, rfl⟩ : ∃ f, fuel = f + 1 := ⟨fuel - 1, by simp only [fuelISElList] at hf; omega⟩
    simp only [fuelISElList, dneedSElList, sizeSEl] at hf hd hR hS
    simp only [encSElList] at he
    have hst1 := encSEl_state e xs0 h.1 nc.1 hx
    have hst2 := encSElList_state es (encSEl e xs0).2 h.2 nc.2 hst1.2
    have ih1 := decSElG_encI e h.1 nc.1 f cdepth ((encSElList es (encSEl e xs0).2).1 ++ rest) R c addr xs0 xs n hx
      (Ext.of_state hst2 he) h256 (by omega) (by omega) (by omega)
    have ih2 := decSElsG_encI es h.2 nc.2 f cdepth rest (R - e.size) (c + e.size) addr (encSEl e xs0).2 xs
      (size0 + e.size) (n + e.allocsI) hst1.2 he h256 (by omega) (by omega) (by omega) (by omega)
    simp only [encSElList, List.length_cons, List.append_assoc, decSElsG]
    rw [DM.bind_ok ih1]
    have hle : ¬ (size0 + e.size > maxUint32) := by omega
    simp only [hle, ↓reduceIte]
    rw [DM.bind_ok ih2]
    simp only [DM.pure_apply, sizeSEl, allocsISElList]
    have e1 : size0 + e.size + sizeSEl es = size0 + (e.size + sizeSEl es) := by omega
    have e2 : R - e.size - sizeSEl es = R - (e.size + sizeSEl es) := by omega
    have e3 : c + e.size + sizeSEl es = c + (e.size + sizeSEl es) := by omega
    have e4 : n + e.allocsI + allocsISElList es = n + (e.allocsI + allocsISElList es) := by omega
    rw [e1, e2, e3, e4]
theorem decMElListG_encI : (l : List MEl) → rtiMElList l → noCompactMElList l → ∀ (fuel cdepth : Nat) (rest : Bytes)
    (R c addr : Nat) (xs0 xs : List XD) (size0 n : Nat), XOK xs0 → Ext (encMElList l xs0).2 xs → xs.length ≤ 256 →
    fuelIMElList l ≤ fuel → cdepth + dneedMElList l ≤ maxDecodeDepth → bytesMEl l ≤ R →
    size0 + sizeMEl l ≤ maxUint32 →
    decMElListG fuel l.length cdepth { data := (encMElList l xs0).1 ++ rest, remaining := R, consumed := c } addr xs size0 n
      = .ok (l, size0 + sizeMEl l, { data := rest, remaining := R - bytesMEl l, consumed := c + bytesMEl l })
          (n + allocsIMElList l)
  | [], _, _, fuel, cdepth, rest, R, c, addr, xs0, xs, size0, n, _, _, _, _, _, _, _ => by
    cases fuel <;> simp [decMElListG, encMElList, sizeMEl, bytesMEl, allocsIMElList, DM.pure_apply]
  | e :: es, h, nc, fuel, cdepth, rest, R, c, addr, xs0, xs, size0, n, hx, he, h256, hf, hd, hR, hS => by
    obtain ⟨f, rfl⟩ : ∃ f, fuel = f + 1 := ⟨fuel - 1, by simp only [fuelIMElList] at hf; omega⟩
    simp only [fuelIMElList, dneedMElList, bytesMEl, sizeMEl, digestSize] at hf hd hR hS
    simp only [encMElList] at he
    have hst1 := encMEl_state e xs0 h.1 nc.1 hx
    have hst2 := encMElList_state es (encMEl e xs0).2 h.2 nc.2 hst1.2
    have ih1 := decMElG_encI e h.1 nc.1 f cdepth ((encMElList es (encMEl e xs0).2).1 ++ rest) R c addr xs0 xs n hx
      (Ext.of_state hst2 he) h256 (by omega) (by omega) (by omega)
    have ih2 := decMElListG_encI es h.2 nc.2 f cdepth rest (R - e.size) (c + e.size) addr (encMEl e xs0).2 xs
      (size0 + digestSize + e.size) (n + e.allocsI) hst1.2 he h256 (by omega) (by omega) (by omega)
      (by simp only [digestSize]; omega)
    simp only [encMElList, List.length_cons, List.append_assoc, decMElListG]
    rw [DM.bind_ok ih1]
    have hle : ¬ (size0 + digestSize + e.size > maxUint32) := by simp only [digestSize]; omega
    simp only [hle, ↓reduceIte]
    rw [DM.bind_ok ih2]
    simp only [DM.pure_apply, sizeMEl, bytesMEl, allocsIMElList, digestSize]
    have e1 : size0 + 8 + e.size + sizeMEl es = size0 + (8 + e.size + sizeMEl es) := by omega
    have e2 : R - e.size - bytesMEl es = R - (e.size + bytesMEl es) := by omega
    have e3 : c + e.size + bytesMEl es = c + (e.size + bytesMEl es) := by omega
    have e4 : n + e.allocsI + allocsIMElList es = n + (e.allocsI + allocsIMElList es) := by omega
    rw [e1, e2, e3, e4]
end

end Atree.Codec
