import AtreeProofs.Codec.Machine
import AtreeProofs.Codec.NoPanicG
/-
  Allocation accounting for the decoders of the second part.

  `VInv d stk`: the stream decoder `d` is inside (or between) validated items and `stk` is what the
  CBOR validator still expected when it had validated the input up to `d`'s position — so an array
  head read at this point is followed by as many items (each at least one byte) as it announces.
  `Pre B d stk n c`: with allocation counter `n` and a credit of `c` slice elements already paid for,
  `n + c + 2·(unread bytes) ≤ B + 2·(items the validator still expects)`.  Every `make(k)` of the
  decoders is paid either by the `k` items an array head announces (twice, for compact maps) or by
  the bytes of a byte string just read, so the invariant is preserved, and `n ≤ B` at every point.
-/
namespace Atree.Codec
open DM Atree.Gen

/-! ### the validator's view of a decoder state -/

def VInv (d : Dec) (stk : List Frame) : Prop :=
  (∀ f ∈ stk, ItemFrame f) ∧
    ∃ fuel out, wfRun fuel stk d.data = some out ∧ out.length + d.remaining = d.data.length

theorem pending_pos_of_item {f : Frame} (hf : ItemFrame f) (s : List Frame) : 1 ≤ pending (f :: s) := by
  cases hf <;> simp [pending] <;> omega

theorem VInv.pending_le {d : Dec} {stk : List Frame} (h : VInv d stk) : pending stk ≤ d.remaining := by
  obtain ⟨_, fuel, out, hr, hl⟩ := h
  have := wfRun_pending _ _ _ _ hr
  omega

theorem VInv.remaining_le {d : Dec} {stk : List Frame} (h : VInv d stk) : d.remaining ≤ d.data.length := by
  obtain ⟨_, fuel, out, _, hl⟩ := h
  omega

theorem VInv.nil_remaining {d : Dec} (h : VInv d []) : d.remaining = 0 := by
  obtain ⟨_, fuel, out, hr, hl⟩ := h
  rw [wfRun_nil] at hr
  cases hr
  omega

theorem VInv.remaining_pos {d : Dec} {f : Frame} {s : List Frame} (h : VInv d (f :: s)) : 0 < d.remaining := by
  have h1 := h.pending_le
  have h2 := pending_pos_of_item (h.1 f (List.mem_cons_self ..)) s
  omega

theorem VInv.new (data : Bytes) : VInv (Dec.new data) [] :=
  ⟨fun _ h => absurd h List.not_mem_nil, ⟨0, data, by simp [wfRun, Dec.new], by simp [Dec.new]⟩⟩

/-- the stack the next operation works on: a decoder between items validates the next item first -/
def effStk : List Frame → List Frame
  | [] => [.items 0 0]
  | stk => stk

/-- the stack after one whole item -/
def next1 : List Frame → List Frame
  | [] => []
  | f :: s => afterItem f s

def topDepth : List Frame → Nat
  | [] => 0
  | f :: _ => frameDepth f

def topInTag : List Frame → Bool
  | [] => false
  | f :: _ => frameInTag f

theorem effStk_ne_nil (stk : List Frame) : effStk stk ≠ [] := by cases stk <;> simp [effStk]

theorem effStk_eq {stk : List Frame} : ∃ f s, effStk stk = f :: s ∧ afterItem f s = next1 stk ∧
    frameDepth f = topDepth stk ∧ frameInTag f = topInTag stk := by
  cases stk with
  | nil => exact ⟨.items 0 0, [], rfl, rfl, rfl, rfl⟩
  | cons f s => exact ⟨f, s, rfl, rfl, rfl, rfl⟩

theorem pending_next1 {stk : List Frame} (h : ∀ f ∈ stk, ItemFrame f) : pending (next1 stk) + 1 ≥ pending stk := by
  cases stk with
  | nil => simp [next1, pending]
  | cons f s =>
    cases h f (List.mem_cons_self ..) with
    | items n d => cases n <;> simp [next1, afterItem, popItem, pending] <;> omega
    | tag d => simp [next1, afterItem, pending]; omega

theorem pending_eff_next1 {stk : List Frame} (h : ∀ f ∈ stk, ItemFrame f) :
    pending (effStk stk) = pending (next1 stk) + 1 := by
  cases stk with
  | nil => simp [next1, effStk, pending]
  | cons f s =>
    cases h f (List.mem_cons_self ..) with
    | items n d => cases n <;> simp [next1, effStk, afterItem, popItem, pending] <;> omega
    | tag d => simp [next1, effStk, afterItem, pending]; omega

theorem itemFrames_next1 {stk : List Frame} (h : ∀ f ∈ stk, ItemFrame f) : ∀ f ∈ next1 stk, ItemFrame f := by
  cases stk with
  | nil => intro f hf; cases hf
  | cons g s =>
    intro f hf
    cases h g (List.mem_cons_self ..) with
    | items n d =>
      cases n with
      | zero => exact h f (List.mem_cons_of_mem _ hf)
      | succ n =>
        simp only [next1, afterItem, popItem, List.mem_cons] at hf
        rcases hf with rfl | hf
        · exact .items _ _
        · exact h f (List.mem_cons_of_mem _ hf)
    | tag d => exact h f (List.mem_cons_of_mem _ hf)

/-! ### the accounting invariant -/

def Pre (B : Nat) (d : Dec) (stk : List Frame) (n c : Nat) : Prop :=
  VInv d stk ∧ n + c + 2 * d.data.length ≤ B + 2 * pending stk

theorem Pre.le {B : Nat} {d : Dec} {stk : List Frame} {n c : Nat} (h : Pre B d stk n c) : n ≤ B := by
  have h1 := h.1.pending_le
  have h2 := h.1.remaining_le
  have := h.2
  omega

theorem Pre.weaken {B : Nat} {d : Dec} {stk : List Frame} {n c c' : Nat} (h : Pre B d stk n c) (hc : c' ≤ c) :
    Pre B d stk n c' := ⟨h.1, by have := h.2; omega⟩

theorem Pre.alloc {B : Nat} {d : Dec} {stk : List Frame} {n c k : Nat} (h : Pre B d stk n c) (hk : k ≤ c) :
    Pre B d stk (n + k) (c - k) := ⟨h.1, by have := h.2; omega⟩

theorem Pre.new {B : Nat} (data : Bytes) {n : Nat} (h : n + 2 * data.length ≤ B) : Pre B (Dec.new data) [] n 0 :=
  ⟨VInv.new data, by simpa [Dec.new, pending] using h⟩

/-- `prepareNext` -/
theorem Pre.prepareNext {B : Nat} {d d' : Dec} {stk : List Frame} {n c : Nat} (h : Pre B d stk n c)
    (hp : d.prepareNext = some d') :
    Pre B d' (effStk stk) n c ∧ d'.data = d.data ∧ d'.consumed = d.consumed ∧ 0 < d'.remaining := by
  cases stk with
  | nil =>
    have hr := h.1.nil_remaining
    unfold Dec.prepareNext at hp
    rw [if_neg (by omega)] at hp
    cases hw : wfNext d.data with
    | none => rw [hw] at hp; cases hp
    | some rest =>
      rw [hw] at hp
      simp only [Option.some.injEq] at hp
      subst hp
      have hlt := wfNext_length hw
      refine ⟨⟨⟨?_, d.data.length, rest, hw, by simp only; omega⟩, ?_⟩, rfl, rfl, by simp only; omega⟩
      · intro f hf
        simp only [effStk, List.mem_cons, List.not_mem_nil, or_false] at hf
        subst hf; exact .items 0 0
      · have := h.2
        simp only [effStk, pending] at this ⊢
        omega
  | cons f s =>
    have hpos := h.1.remaining_pos
    rw [prepareNext_pos hpos] at hp
    cases hp
    exact ⟨h, rfl, rfl, hpos⟩

/-- the new stack after a head of the given major type has been read -/
def headStk (major v : Nat) (stk : List Frame) : List Frame :=
  if major = 4 then pushItems v (topDepth stk + 1) (next1 stk)
  else if major = 6 then .tag (if topInTag stk then topDepth stk + 1 else topDepth stk) :: next1 stk
  else next1 stk

theorem itemFrames_pushItems {v d : Nat} {stk : List Frame} (h : ∀ f ∈ stk, ItemFrame f) :
    ∀ f ∈ pushItems v d stk, ItemFrame f := by
  cases v with
  | zero => exact h
  | succ v =>
    intro f hf
    simp only [pushItems, List.mem_cons] at hf
    rcases hf with rfl | hf
    · exact .items _ _
    · exact h f hf

/-- `decodeHeadOf` for the three major types the decoders read heads of -/
theorem Pre.decodeHeadOf {B : Nat} {d d' : Dec} {stk : List Frame} {n c major v : Nat} (h : Pre B d stk n c)
    (hm : major = 0 ∨ major = 4 ∨ major = 6) (hop : d.decodeHeadOf major = some (v, d')) :
    Pre B d' (headStk major v stk) n (c + (if major = 4 then 2 * v else 0)) ∧ d'.data.length < d.data.length := by
  unfold Dec.decodeHeadOf at hop
  cases hp : d.prepareNext with
  | none => rw [hp] at hop; cases hop
  | some d1 =>
    rw [hp] at hop
    obtain ⟨h1, hdata, hcons, hpos⟩ := h.prepareNext hp
    obtain ⟨f, s, heff, hnext, hdep, hint⟩ := @effStk_eq stk
    rw [heff] at h1
    simp only at hop
    cases hd : d1.data with
    | nil => rw [hd] at hop; cases hop
    | cons b tl =>
      rw [hd] at hop
      simp only at hop
      by_cases hb : b / 32 % 8 ≠ major
      · rw [if_pos hb] at hop; cases hop
      · rw [if_neg hb] at hop
        have hb' : b / 32 % 8 = major := by omega
        cases hwf : wfHead (b :: tl) with
        | none => rw [hwf] at hop; cases hop
        | some p =>
          obtain ⟨hh, rest⟩ := p
          rw [hwf] at hop
          simp only at hop
          by_cases hai : hh.ai = 31
          · rw [if_pos hai] at hop; cases hop
          · rw [if_neg hai] at hop
            cases hadv : d1.advance rest with
            | none => rw [hadv] at hop; cases hop
            | some d2 =>
              rw [hadv] at hop
              simp only [Option.some.injEq, Prod.mk.injEq] at hop
              obtain ⟨hv, hd2⟩ := hop
              subst hd2
              have ht : hh.t = major := by rw [← hb']; exact ((wfHead_t hwf).1)
              have hrl := wfHead_length hwf
              -- the decoder's `advance`
              unfold Dec.advance at hadv
              rw [hd] at hadv
              by_cases hk : (b :: tl).length - rest.length > d1.remaining
              · rw [if_pos hk] at hadv; cases hadv
              · rw [if_neg hk] at hadv
                simp only [Option.some.injEq] at hadv
                subst hadv
                -- the validator's step
                obtain ⟨hfr, fuel, out, hrun, hlen⟩ := h1.1
                rw [hd] at hrun hlen
                have hitem := hfr f (List.mem_cons_self ..)
                cases fuel with
                | zero => simp [wfRun] at hrun
                | succ fuel =>
                  rw [wfRun_item_step hitem] at hrun
                  cases hstep : wfItemStep (frameDepth f) (frameInTag f) (afterItem f s) (b :: tl) with
                  | none => rw [hstep] at hrun; cases hrun
                  | some sr =>
                  obtain ⟨stk', rest'⟩ := sr
                  rw [hstep] at hrun
                  simp only at hrun
                  unfold wfItemStep at hstep
                  rw [hwf] at hstep
                  simp only at hstep
                  have hJ := h1.2
                  rw [hd] at hJ
                  have hpe : pending (f :: s) = pending (next1 stk) + 1 := by
                    rw [← heff]; exact pending_eff_next1 h.1.1
                  have hfn := itemFrames_next1 h.1.1
                  rcases hm with rfl | rfl | rfl
                  · -- unsigned integer
                    simp only [ht, show ¬ ((0 : Nat) = 2 ∨ (0 : Nat) = 3) by decide,
                      show ¬ ((0 : Nat) = 4 ∨ (0 : Nat) = 5) by decide, show ¬ ((0 : Nat) = 6) by decide,
                      ↓reduceIte, Option.some.injEq, Prod.mk.injEq] at hstep
                    obtain ⟨rfl, rfl⟩ := hstep
                    rw [hnext] at hrun
                    refine ⟨⟨⟨?_, fuel, out, hrun, ?_⟩, ?_⟩, ?_⟩
                    · simpa [headStk] using hfn
                    · simp only [List.length_cons] at hlen hk hrl ⊢; omega
                    · simp only [headStk, List.length_cons] at hJ hrl ⊢
                      simp only [show ¬ ((0 : Nat) = 4) by decide, show ¬ ((0 : Nat) = 6) by decide, ↓reduceIte]
                      omega
                    · simp only [hdata.symm, hd, List.length_cons] at hrl ⊢; omega
                  · -- array head
                    simp only [ht, show ¬ ((4 : Nat) = 2 ∨ (4 : Nat) = 3) by decide,
                      show ((4 : Nat) = 4 ∨ (4 : Nat) = 5) by decide, ↓reduceIte, hai] at hstep
                    by_cases c1 : frameDepth f + 1 > maxNestedLevels
                    · simp only [c1, ↓reduceIte] at hstep; cases hstep
                    · by_cases c2 : hh.val ≥ 2 ^ 63
                      · simp only [c1, c2, ↓reduceIte] at hstep; cases hstep
                      · by_cases c3 : hh.val > maxArrayElements
                        · simp only [c1, c2, c3, ↓reduceIte] at hstep; cases hstep
                        · simp only [c1, c2, c3, ↓reduceIte, Option.some.injEq, Prod.mk.injEq] at hstep
                          obtain ⟨rfl, rfl⟩ := hstep
                          rw [hnext, hdep, hv] at hrun
                          refine ⟨⟨⟨?_, fuel, out, hrun, ?_⟩, ?_⟩, ?_⟩
                          · have := itemFrames_pushItems (v := v) (d := topDepth stk + 1) hfn
                            simpa [headStk] using this
                          · simp only [List.length_cons] at hlen hk hrl ⊢; omega
                          · simp only [headStk, ↓reduceIte, pending_pushItems, List.length_cons] at hJ hrl ⊢
                            omega
                          · simp only [hdata.symm, hd, List.length_cons] at hrl ⊢; omega
                  · -- tag number
                    simp only [ht, show ¬ ((6 : Nat) = 2 ∨ (6 : Nat) = 3) by decide,
                      show ¬ ((6 : Nat) = 4 ∨ (6 : Nat) = 5) by decide, ↓reduceIte] at hstep
                    have hrun' : wfRun fuel (.tag (if topInTag stk then topDepth stk + 1 else topDepth stk) :: next1 stk) rest
                        = some out := by
                      rw [← hnext, ← hdep, ← hint]
                      cases hfi : frameInTag f with
                      | true =>
                        rw [hfi] at hstep
                        simp only [↓reduceIte] at hstep ⊢
                        by_cases c1 : frameDepth f + 1 > maxNestedLevels
                        · simp only [c1, ↓reduceIte] at hstep; cases hstep
                        · simp only [c1, ↓reduceIte, Option.some.injEq, Prod.mk.injEq] at hstep
                          obtain ⟨rfl, rfl⟩ := hstep
                          exact hrun
                      | false =>
                        rw [hfi] at hstep
                        simp only [Bool.false_eq_true, ↓reduceIte, Option.some.injEq, Prod.mk.injEq] at hstep ⊢
                        obtain ⟨rfl, rfl⟩ := hstep
                        exact hrun
                    refine ⟨⟨⟨?_, fuel, out, hrun', ?_⟩, ?_⟩, ?_⟩
                    · intro g hg
                      simp only [headStk, show ¬ ((6 : Nat) = 4) by decide, ↓reduceIte, List.mem_cons] at hg
                      rcases hg with rfl | hg
                      · exact .tag _
                      · exact hfn g hg
                    · simp only [List.length_cons] at hlen hk hrl ⊢; omega
                    · simp only [headStk, show ¬ ((6 : Nat) = 4) by decide, ↓reduceIte, pending,
                        List.length_cons] at hJ hrl ⊢
                      omega
                    · simp only [hdata.symm, hd, List.length_cons] at hrl ⊢; omega

theorem effStk_effStk (stk : List Frame) : effStk (effStk stk) = effStk stk := by
  cases stk <;> rfl

theorem next1_effStk (stk : List Frame) : next1 (effStk stk) = next1 stk := by
  cases stk <;> rfl

theorem topDepth_effStk (stk : List Frame) : topDepth (effStk stk) = topDepth stk := by
  cases stk <;> rfl

theorem topInTag_effStk (stk : List Frame) : topInTag (effStk stk) = topInTag stk := by
  cases stk <;> rfl

theorem headStk_effStk (major v : Nat) (stk : List Frame) : headStk major v (effStk stk) = headStk major v stk := by
  unfold headStk
  rw [next1_effStk, topDepth_effStk, topInTag_effStk]

/-- `nextType` -/
theorem Pre.nextType {B : Nat} {d d' : Dec} {stk : List Frame} {n c : Nat} {t : CType} (h : Pre B d stk n c)
    (hop : d.nextType = some (t, d')) : Pre B d' (effStk stk) n c ∧ d'.data = d.data := by
  unfold Dec.nextType at hop
  cases hp : d.prepareNext with
  | none => rw [hp] at hop; cases hop
  | some d1 =>
    rw [hp] at hop
    obtain ⟨h1, hdata, _, _⟩ := h.prepareNext hp
    simp only at hop
    cases hd : d1.data with
    | nil => rw [hd] at hop; cases hop
    | cons b tl =>
      rw [hd] at hop
      simp only [Option.some.injEq, Prod.mk.injEq] at hop
      obtain ⟨_, rfl⟩ := hop
      exact ⟨h1, hdata⟩

/-- `decodeBytes`: one item consumed; the bytes returned pay for twice their number of slice elements -/
theorem Pre.decodeBytes {B : Nat} {d d' : Dec} {stk : List Frame} {n c : Nat} {bs : Bytes} (h : Pre B d stk n c)
    (hop : d.decodeBytes = some (bs, d')) :
    Pre B d' (next1 stk) n (c + 2 * bs.length) ∧ d'.data.length < d.data.length := by
  unfold Dec.decodeBytes at hop
  cases hp : d.prepareNext with
  | none => rw [hp] at hop; cases hop
  | some d1 =>
    rw [hp] at hop
    obtain ⟨h1, hdata, hcons, hpos⟩ := h.prepareNext hp
    obtain ⟨f, s, heff, hnext, hdep, hint⟩ := @effStk_eq stk
    rw [heff] at h1
    simp only at hop
    cases hd : d1.data with
    | nil => rw [hd] at hop; cases hop
    | cons b tl =>
      rw [hd] at hop
      simp only at hop
      by_cases hb : b / 32 % 8 ≠ 2
      · rw [if_pos hb] at hop; cases hop
      · rw [if_neg hb] at hop
        have hb' : b / 32 % 8 = 2 := by omega
        cases hwf : wfHead (b :: tl) with
        | none => rw [hwf] at hop; cases hop
        | some p =>
          obtain ⟨hh, rest⟩ := p
          rw [hwf] at hop
          simp only at hop
          by_cases hai : hh.ai = 31
          · rw [if_pos hai] at hop; cases hop
          · rw [if_neg hai] at hop
            by_cases hlt : rest.length < hh.val
            · rw [if_pos hlt] at hop; cases hop
            · rw [if_neg hlt] at hop
              cases hadv : d1.advance (rest.drop hh.val) with
              | none => rw [hadv] at hop; cases hop
              | some d2 =>
                rw [hadv] at hop
                simp only [Option.some.injEq, Prod.mk.injEq] at hop
                obtain ⟨hbs, hd2⟩ := hop
                subst hd2
                have ht : hh.t = 2 := by rw [← hb']; exact ((wfHead_t hwf).1)
                have hrl := wfHead_length hwf
                have hbl : bs.length = hh.val := by rw [← hbs, List.length_take]; omega
                unfold Dec.advance at hadv
                rw [hd] at hadv
                by_cases hk : (b :: tl).length - (rest.drop hh.val).length > d1.remaining
                · rw [if_pos hk] at hadv; cases hadv
                · rw [if_neg hk] at hadv
                  simp only [Option.some.injEq] at hadv
                  subst hadv
                  obtain ⟨hfr, fuel, out, hrun, hlen⟩ := h1.1
                  rw [hd] at hrun hlen
                  have hitem := hfr f (List.mem_cons_self ..)
                  cases fuel with
                  | zero => simp [wfRun] at hrun
                  | succ fuel =>
                    rw [wfRun_item_step hitem] at hrun
                    cases hstep : wfItemStep (frameDepth f) (frameInTag f) (afterItem f s) (b :: tl) with
                    | none => rw [hstep] at hrun; cases hrun
                    | some sr =>
                    obtain ⟨stk', rest'⟩ := sr
                    rw [hstep] at hrun
                    simp only at hrun
                    unfold wfItemStep at hstep
                    rw [hwf] at hstep
                    simp only [ht, true_or, ↓reduceIte, hai] at hstep
                    by_cases c2 : hh.val ≥ 2 ^ 63
                    · simp only [c2, ↓reduceIte] at hstep; cases hstep
                    · simp only [c2, hlt, ↓reduceIte, Option.some.injEq, Prod.mk.injEq] at hstep
                      obtain ⟨rfl, rfl⟩ := hstep
                      rw [hnext] at hrun
                      have hJ := h1.2
                      rw [hd] at hJ
                      have hpe : pending (f :: s) = pending (next1 stk) + 1 := by
                        rw [← heff]; exact pending_eff_next1 h.1.1
                      have hfn := itemFrames_next1 h.1.1
                      have hdl : (rest.drop hh.val).length = rest.length - hh.val := List.length_drop ..
                      refine ⟨⟨⟨hfn, fuel, out, hrun, ?_⟩, ?_⟩, ?_⟩
                      · simp only [List.length_cons, hdl] at hlen hk hrl ⊢; omega
                      · simp only [List.length_cons, hdl] at hJ hrl ⊢; omega
                      · simp only [hdata.symm, hd, List.length_cons, hdl] at hrl ⊢; omega

/-- `decodeRawBytes`: one item skipped -/
theorem Pre.decodeRawBytes {B : Nat} {d d' : Dec} {stk : List Frame} {n c : Nat} {raw : Bytes} (h : Pre B d stk n c)
    (hop : d.decodeRawBytes = some (raw, d')) :
    Pre B d' (next1 stk) n c ∧ d'.data.length < d.data.length := by
  unfold Dec.decodeRawBytes at hop
  cases hp : d.prepareNext with
  | none => rw [hp] at hop; cases hop
  | some d1 =>
    rw [hp] at hop
    obtain ⟨h1, hdata, hcons, hpos⟩ := h.prepareNext hp
    obtain ⟨f, s, heff, hnext, hdep, hint⟩ := @effStk_eq stk
    rw [heff] at h1
    simp only at hop
    cases hw : wfNext d1.data with
    | none => rw [hw] at hop; cases hop
    | some rest =>
      rw [hw] at hop
      simp only at hop
      cases hadv : d1.advance rest with
      | none => rw [hadv] at hop; cases hop
      | some d2 =>
        rw [hadv] at hop
        simp only [Option.some.injEq, Prod.mk.injEq] at hop
        obtain ⟨_, hd2⟩ := hop
        subst hd2
        have hrl := wfNext_length hw
        unfold Dec.advance at hadv
        by_cases hk : d1.data.length - rest.length > d1.remaining
        · rw [if_pos hk] at hadv; cases hadv
        · rw [if_neg hk] at hadv
          simp only [Option.some.injEq] at hadv
          subst hadv
          obtain ⟨hfr, fuel, out, hrun, hlen⟩ := h1.1
          have hitem := hfr f (List.mem_cons_self ..)
          obtain ⟨F', hrun'⟩ := wfRun_skip_item hitem hrun hw
          rw [hnext] at hrun'
          have hJ := h1.2
          have hpe : pending (f :: s) = pending (next1 stk) + 1 := by
            rw [← heff]; exact pending_eff_next1 h.1.1
          have hfn := itemFrames_next1 h.1.1
          refine ⟨⟨⟨hfn, F', out, hrun', ?_⟩, ?_⟩, ?_⟩
          · simp only; omega
          · simp only; omega
          · simp only [← hdata]; omega

end Atree.Codec
