import AtreeModel.Codec.Hyp
import AtreeProofs.Codec.CmpSlab
import AtreeProofs.Codec.RoundTripW
import AtreeProofs.Codec.VDepthW
/-
  The Bool-valued checkers of `AtreeModel/Codec/Hyp.lean` decide the Prop-valued hypotheses of the
  codec theorems: for every checker `xB v = true ↔ X v` (and `vneedB = vneed`, `vneedIB = vneedI`
  for the two Nat-valued nesting measures).  So "the check passed on this slab" means "this slab is
  in the domain of the theorem".
-/
namespace Atree.Codec
open Atree Atree.Gen

/-! ### helpers -/

theorem not_isEmpty_iff {α : Type} (l : List α) : (!l.isEmpty) = true ↔ l ≠ [] := by
  cases l <;> simp

theorem optAllB_iff {α : Type} {p : α → Bool} {P : α → Prop} (h : ∀ a, p a = true ↔ P a) (o : Option α) :
    optAllB p o = true ↔ ∀ x, o = some x → P x := by
  cases o with
  | none => simp [optAllB]
  | some a => simp [optAllB, h]

theorem implB_iff {b c : Bool} {P : Prop} (h : c = true ↔ P) : (!b || c) = true ↔ (b = true → P) := by
  cases b <;> simp [h]

theorem nodupB_iff : (l : List (Nat × Nat)) → (nodupB l = true ↔ l.Nodup)
  | [] => by simp [nodupB]
  | k :: ks => by
    simp only [nodupB, Bool.and_eq_true, Bool.not_eq_true', List.nodup_cons, nodupB_iff ks]
    constructor
    · rintro ⟨h1, h2⟩
      refine ⟨?_, h2⟩
      intro hm
      have : ks.contains k = true := List.contains_iff_mem.2 hm
      rw [h1] at this; cases this
    · rintro ⟨h1, h2⟩
      refine ⟨?_, h2⟩
      cases hc : ks.contains k with
      | false => rfl
      | true => exact absurd (List.contains_iff_mem.1 hc) h1

/-! ### scalars -/

theorem validElemB_iff (e : Elem) : validElemB e = true ↔ validElem e := by
  obtain ⟨size, pay⟩ := e
  cases pay <;> simp [validElemB, validElem]

theorem validTyB_iff (t : TyInfo) : validTyB t = true ↔ validTy t := by
  cases t <;> simp [validTyB, validTy]

theorem validMapExtraB_iff (x : MapExtra) : validMapExtraB x = true ↔ validMapExtra x := by
  simp [validMapExtraB, validMapExtra, validTyB_iff]

theorem validNextB_iff (id : SlabID) : validNextB id = true ↔ validNext id := by
  simp [validNextB, validNext]

theorem validChildHdrB_iff (addr : Nat) (h : Hdr) : validChildHdrB addr h = true ↔ validChildHdr addr h := by
  simp [validChildHdrB, validChildHdr]

theorem validMChildHdrB_iff (addr : Nat) (h : MChildHdr) : validMChildHdrB addr h = true ↔ validMChildHdr addr h := by
  simp [validMChildHdrB, validMChildHdr]

/-! ### `noInl` -/

mutual
theorem Stor.noInlB_iff : (s : Stor) → (s.noInlB = true ↔ s.noInl)
  | .val _ _ => by simp [Stor.noInlB, Stor.noInl]
  | .ref _ => by simp [Stor.noInlB, Stor.noInl]
  | .some s => by simp only [Stor.noInlB, Stor.noInl]; exact Stor.noInlB_iff s
  | .arr _ _ _ => by simp [Stor.noInlB, Stor.noInl]
  | .map _ _ _ => by simp [Stor.noInlB, Stor.noInl]
theorem SEl.noInlB_iff : (e : SEl) → (e.noInlB = true ↔ e.noInl)
  | .mk k v => by simp only [SEl.noInlB, SEl.noInl, Bool.and_eq_true, Stor.noInlB_iff k, Stor.noInlB_iff v]
theorem MEl.noInlB_iff : (e : MEl) → (e.noInlB = true ↔ e.noInl)
  | .single e => by simp only [MEl.noInlB, MEl.noInl]; exact SEl.noInlB_iff e
  | .inl els => by simp only [MEl.noInlB, MEl.noInl]; exact MEls.noInlB_iff els
  | .ext _ => by simp [MEl.noInlB, MEl.noInl]
theorem MEls.noInlB_iff : (els : MEls) → (els.noInlB = true ↔ els.noInl)
  | .hkey _ _ es => by simp only [MEls.noInlB, MEls.noInl]; exact noInlMElListB_iff es
  | .single _ es => by simp only [MEls.noInlB, MEls.noInl]; exact noInlSElListB_iff es
theorem noInlMElListB_iff : (l : List MEl) → (noInlMElListB l = true ↔ noInlMElList l)
  | [] => by simp [noInlMElListB, noInlMElList]
  | e :: es => by
    simp only [noInlMElListB, noInlMElList, Bool.and_eq_true, MEl.noInlB_iff e, noInlMElListB_iff es]
theorem noInlSElListB_iff : (l : List SEl) → (noInlSElListB l = true ↔ noInlSElList l)
  | [] => by simp [noInlSElListB, noInlSElList]
  | e :: es => by
    simp only [noInlSElListB, noInlSElList, Bool.and_eq_true, SEl.noInlB_iff e, noInlSElListB_iff es]
end

theorem noInlStsB_iff : (l : List Stor) → (noInlStsB l = true ↔ noInlSts l)
  | [] => by simp [noInlStsB, noInlSts]
  | s :: ss => by simp only [noInlStsB, noInlSts, Bool.and_eq_true, Stor.noInlB_iff s, noInlStsB_iff ss]

/-! ### `RT` -/

mutual
theorem Stor.rtB_iff : (s : Stor) → (s.rtB = true ↔ s.RT)
  | .val _ _ => by simp only [Stor.rtB, Stor.RT]; exact validElemB_iff _
  | .ref _ => by simp [Stor.rtB, Stor.RT]
  | .some s => by simp only [Stor.rtB, Stor.RT]; exact Stor.rtB_iff s
  | .arr _ _ _ => by simp [Stor.rtB, Stor.RT]
  | .map _ _ _ => by simp [Stor.rtB, Stor.RT]
theorem SEl.rtB_iff : (e : SEl) → (e.rtB = true ↔ e.RT)
  | .mk k v => by
    simp only [SEl.rtB, SEl.RT, Bool.and_eq_true, decide_eq_true_eq, Stor.rtB_iff k, Stor.rtB_iff v]
theorem MEl.rtB_iff : (e : MEl) → (e.rtB = true ↔ e.RT)
  | .single e => by simp only [MEl.rtB, MEl.RT]; exact SEl.rtB_iff e
  | .inl els => by simp only [MEl.rtB, MEl.RT]; exact MEls.rtB_iff els
  | .ext _ => by simp [MEl.rtB, MEl.RT]
theorem MEls.rtB_iff : (els : MEls) → (els.rtB = true ↔ els.RT)
  | .hkey _ _ es => by
    simp only [MEls.rtB, MEls.RT, Bool.and_eq_true, decide_eq_true_eq, List.all_eq_true, rtMElListB_iff es]
  | .single _ es => by
    simp only [MEls.rtB, MEls.RT, Bool.and_eq_true, decide_eq_true_eq, not_isEmpty_iff, rtSElListB_iff es]
theorem rtMElListB_iff : (l : List MEl) → (rtMElListB l = true ↔ rtMElList l)
  | [] => by simp [rtMElListB, rtMElList]
  | e :: es => by simp only [rtMElListB, rtMElList, Bool.and_eq_true, MEl.rtB_iff e, rtMElListB_iff es]
theorem rtSElListB_iff : (l : List SEl) → (rtSElListB l = true ↔ rtSElList l)
  | [] => by simp [rtSElListB, rtSElList]
  | e :: es => by simp only [rtSElListB, rtSElList, Bool.and_eq_true, SEl.rtB_iff e, rtSElListB_iff es]
end

/-! ### `vneed` -/

mutual
theorem Stor.vneedB_eq : (s : Stor) → s.vneedB = s.vneed
  | .val _ _ => rfl
  | .ref _ => rfl
  | .some s => by simp only [Stor.vneedB, Stor.vneed, Stor.vneedB_eq s]
  | .arr _ _ _ => rfl
  | .map _ _ _ => rfl
theorem SEl.vneedB_eq : (e : SEl) → e.vneedB = e.vneed
  | .mk k v => by simp only [SEl.vneedB, SEl.vneed, Stor.vneedB_eq k, Stor.vneedB_eq v]
theorem MEl.vneedB_eq : (e : MEl) → e.vneedB = e.vneed
  | .single e => by simp only [MEl.vneedB, MEl.vneed, SEl.vneedB_eq e]
  | .inl els => by simp only [MEl.vneedB, MEl.vneed, MEls.vneedB_eq els]
  | .ext _ => rfl
theorem MEls.vneedB_eq : (els : MEls) → els.vneedB = els.vneed
  | .hkey _ _ es => by simp only [MEls.vneedB, MEls.vneed, vneedMElListB_eq es]
  | .single _ es => by simp only [MEls.vneedB, MEls.vneed, vneedSElListB_eq es]
theorem vneedMElListB_eq : (l : List MEl) → vneedMElListB l = vneedMElList l
  | [] => rfl
  | e :: es => by simp only [vneedMElListB, vneedMElList, MEl.vneedB_eq e, vneedMElListB_eq es]
theorem vneedSElListB_eq : (l : List SEl) → vneedSElListB l = vneedSElList l
  | [] => rfl
  | e :: es => by simp only [vneedSElListB, vneedSElList, SEl.vneedB_eq e, vneedSElListB_eq es]
end

theorem vneedStsB_eq : (l : List Stor) → vneedStsB l = vneedSts l
  | [] => rfl
  | s :: ss => by simp only [vneedStsB, vneedSts, Stor.vneedB_eq s, vneedStsB_eq ss]

/-! ### `RTI` -/

mutual
theorem Stor.rtiB_iff : (s : Stor) → (s.rtiB = true ↔ s.RTI)
  | .val _ _ => by simp only [Stor.rtiB, Stor.RTI]; exact validElemB_iff _
  | .ref _ => by simp [Stor.rtiB, Stor.RTI]
  | .some s => by simp only [Stor.rtiB, Stor.RTI]; exact Stor.rtiB_iff s
  | .arr _ _ es => by
    simp only [Stor.rtiB, Stor.RTI, Bool.and_eq_true, decide_eq_true_eq, validTyB_iff, rtiStsB_iff es]
  | .map _ _ els => by
    simp only [Stor.rtiB, Stor.RTI, Bool.and_eq_true, decide_eq_true_eq, validMapExtraB_iff, MEls.rtiB_iff els]
theorem rtiStsB_iff : (l : List Stor) → (rtiStsB l = true ↔ rtiSts l)
  | [] => by simp [rtiStsB, rtiSts]
  | s :: ss => by simp only [rtiStsB, rtiSts, Bool.and_eq_true, Stor.rtiB_iff s, rtiStsB_iff ss]
theorem SEl.rtiB_iff : (e : SEl) → (e.rtiB = true ↔ e.RTI)
  | .mk k v => by
    simp only [SEl.rtiB, SEl.RTI, Bool.and_eq_true, decide_eq_true_eq, Stor.rtiB_iff k, Stor.rtiB_iff v]
theorem MEl.rtiB_iff : (e : MEl) → (e.rtiB = true ↔ e.RTI)
  | .single e => by simp only [MEl.rtiB, MEl.RTI]; exact SEl.rtiB_iff e
  | .inl els => by simp only [MEl.rtiB, MEl.RTI]; exact MEls.rtiB_iff els
  | .ext _ => by simp [MEl.rtiB, MEl.RTI]
theorem MEls.rtiB_iff : (els : MEls) → (els.rtiB = true ↔ els.RTI)
  | .hkey _ _ es => by
    simp only [MEls.rtiB, MEls.RTI, Bool.and_eq_true, decide_eq_true_eq, List.all_eq_true, rtiMElListB_iff es]
  | .single _ es => by
    simp only [MEls.rtiB, MEls.RTI, Bool.and_eq_true, decide_eq_true_eq, not_isEmpty_iff, rtiSElListB_iff es]
theorem rtiMElListB_iff : (l : List MEl) → (rtiMElListB l = true ↔ rtiMElList l)
  | [] => by simp [rtiMElListB, rtiMElList]
  | e :: es => by simp only [rtiMElListB, rtiMElList, Bool.and_eq_true, MEl.rtiB_iff e, rtiMElListB_iff es]
theorem rtiSElListB_iff : (l : List SEl) → (rtiSElListB l = true ↔ rtiSElList l)
  | [] => by simp [rtiSElListB, rtiSElList]
  | e :: es => by simp only [rtiSElListB, rtiSElList, Bool.and_eq_true, SEl.rtiB_iff e, rtiSElListB_iff es]
end

/-! ### `vneedI` -/

mutual
theorem Stor.vneedIB_eq : (s : Stor) → s.vneedIB = s.vneedI
  | .val _ _ => rfl
  | .ref _ => rfl
  | .some s => by simp only [Stor.vneedIB, Stor.vneedI, Stor.vneedIB_eq s]
  | .arr _ _ es => by simp only [Stor.vneedIB, Stor.vneedI, vneedIStsB_eq es]
  | .map _ _ els => by simp only [Stor.vneedIB, Stor.vneedI, MEls.vneedIB_eq els]
theorem vneedIStsB_eq : (l : List Stor) → vneedIStsB l = vneedISts l
  | [] => rfl
  | s :: ss => by simp only [vneedIStsB, vneedISts, Stor.vneedIB_eq s, vneedIStsB_eq ss]
theorem SEl.vneedIB_eq : (e : SEl) → e.vneedIB = e.vneedI
  | .mk k v => by simp only [SEl.vneedIB, SEl.vneedI, Stor.vneedIB_eq k, Stor.vneedIB_eq v]
theorem MEl.vneedIB_eq : (e : MEl) → e.vneedIB = e.vneedI
  | .single e => by simp only [MEl.vneedIB, MEl.vneedI, SEl.vneedIB_eq e]
  | .inl els => by simp only [MEl.vneedIB, MEl.vneedI, MEls.vneedIB_eq els]
  | .ext _ => rfl
theorem MEls.vneedIB_eq : (els : MEls) → els.vneedIB = els.vneedI
  | .hkey _ _ es => by simp only [MEls.vneedIB, MEls.vneedI, vneedIMElListB_eq es]
  | .single _ es => by simp only [MEls.vneedIB, MEls.vneedI, vneedISElListB_eq es]
theorem vneedIMElListB_eq : (l : List MEl) → vneedIMElListB l = vneedIMElList l
  | [] => rfl
  | e :: es => by simp only [vneedIMElListB, vneedIMElList, MEl.vneedIB_eq e, vneedIMElListB_eq es]
theorem vneedISElListB_eq : (l : List SEl) → vneedISElListB l = vneedISElList l
  | [] => rfl
  | e :: es => by simp only [vneedISElListB, vneedISElList, SEl.vneedIB_eq e, vneedISElListB_eq es]
end

/-! ### `OK` -/

mutual
theorem Stor.okB_iff : (s : Stor) → (s.okB = true ↔ s.OK)
  | .val _ _ => by simp only [Stor.okB, Stor.OK]; exact validElemB_iff _
  | .ref _ => by simp [Stor.okB, Stor.OK]
  | .some s => by simp only [Stor.okB, Stor.OK]; exact Stor.okB_iff s
  | .arr _ _ es => by simp only [Stor.okB, Stor.OK]; exact okStsB_iff es
  | .map _ _ els => by simp only [Stor.okB, Stor.OK]; exact MEls.okB_iff els
theorem okStsB_iff : (l : List Stor) → (okStsB l = true ↔ okSts l)
  | [] => by simp [okStsB, okSts]
  | s :: ss => by simp only [okStsB, okSts, Bool.and_eq_true, Stor.okB_iff s, okStsB_iff ss]
theorem SEl.okB_iff : (e : SEl) → (e.okB = true ↔ e.OK)
  | .mk k v => by simp only [SEl.okB, SEl.OK, Bool.and_eq_true, Stor.okB_iff k, Stor.okB_iff v]
theorem MEl.okB_iff : (e : MEl) → (e.okB = true ↔ e.OK)
  | .single e => by simp only [MEl.okB, MEl.OK]; exact SEl.okB_iff e
  | .inl els => by simp only [MEl.okB, MEl.OK]; exact MEls.okB_iff els
  | .ext _ => by simp [MEl.okB, MEl.OK]
theorem MEls.okB_iff : (els : MEls) → (els.okB = true ↔ els.OK)
  | .hkey _ _ es => by simp only [MEls.okB, MEls.OK, Bool.and_eq_true, decide_eq_true_eq, okMElListB_iff es]
  | .single _ es => by simp only [MEls.okB, MEls.OK]; exact okSElListB_iff es
theorem okMElListB_iff : (l : List MEl) → (okMElListB l = true ↔ okMElList l)
  | [] => by simp [okMElListB, okMElList]
  | e :: es => by simp only [okMElListB, okMElList, Bool.and_eq_true, MEl.okB_iff e, okMElListB_iff es]
theorem okSElListB_iff : (l : List SEl) → (okSElListB l = true ↔ okSElList l)
  | [] => by simp [okSElListB, okSElList]
  | e :: es => by simp only [okSElListB, okSElList, Bool.and_eq_true, SEl.okB_iff e, okSElListB_iff es]
end

/-! ### `noCompact` -/

mutual
theorem Stor.noCompactB_iff : (s : Stor) → (s.noCompactB = true ↔ s.noCompact)
  | .val _ _ => by simp [Stor.noCompactB, Stor.noCompact]
  | .ref _ => by simp [Stor.noCompactB, Stor.noCompact]
  | .some s => by simp only [Stor.noCompactB, Stor.noCompact]; exact Stor.noCompactB_iff s
  | .arr _ _ es => by simp only [Stor.noCompactB, Stor.noCompact]; exact noCompactStsB_iff es
  | .map _ _ (.hkey _ _ es) => by
    simp only [Stor.noCompactB, Stor.noCompact, Bool.and_eq_true, Option.isNone_iff_eq_none,
      noCompactMElListB_iff es]
  | .map _ _ (.single _ es) => by simp only [Stor.noCompactB, Stor.noCompact]; exact noCompactSElListB_iff es
theorem noCompactStsB_iff : (l : List Stor) → (noCompactStsB l = true ↔ noCompactSts l)
  | [] => by simp [noCompactStsB, noCompactSts]
  | s :: ss => by
    simp only [noCompactStsB, noCompactSts, Bool.and_eq_true, Stor.noCompactB_iff s, noCompactStsB_iff ss]
theorem SEl.noCompactB_iff : (e : SEl) → (e.noCompactB = true ↔ e.noCompact)
  | .mk k v => by
    simp only [SEl.noCompactB, SEl.noCompact, Bool.and_eq_true, Stor.noCompactB_iff k, Stor.noCompactB_iff v]
theorem MEl.noCompactB_iff : (e : MEl) → (e.noCompactB = true ↔ e.noCompact)
  | .single e => by simp only [MEl.noCompactB, MEl.noCompact]; exact SEl.noCompactB_iff e
  | .inl els => by simp only [MEl.noCompactB, MEl.noCompact]; exact MEls.noCompactB_iff els
  | .ext _ => by simp [MEl.noCompactB, MEl.noCompact]
theorem MEls.noCompactB_iff : (els : MEls) → (els.noCompactB = true ↔ els.noCompact)
  | .hkey _ _ es => by simp only [MEls.noCompactB, MEls.noCompact]; exact noCompactMElListB_iff es
  | .single _ es => by simp only [MEls.noCompactB, MEls.noCompact]; exact noCompactSElListB_iff es
theorem noCompactMElListB_iff : (l : List MEl) → (noCompactMElListB l = true ↔ noCompactMElList l)
  | [] => by simp [noCompactMElListB, noCompactMElList]
  | e :: es => by
    simp only [noCompactMElListB, noCompactMElList, Bool.and_eq_true, MEl.noCompactB_iff e,
      noCompactMElListB_iff es]
theorem noCompactSElListB_iff : (l : List SEl) → (noCompactSElListB l = true ↔ noCompactSElList l)
  | [] => by simp [noCompactSElListB, noCompactSElList]
  | e :: es => by
    simp only [noCompactSElListB, noCompactSElList, Bool.and_eq_true, SEl.noCompactB_iff e,
      noCompactSElListB_iff es]
end

/-! ### `nodupKeys` -/

mutual
theorem Stor.nodupKeysB_iff : (s : Stor) → (s.nodupKeysB = true ↔ s.nodupKeys)
  | .val _ _ => by simp [Stor.nodupKeysB, Stor.nodupKeys]
  | .ref _ => by simp [Stor.nodupKeysB, Stor.nodupKeys]
  | .some s => by simp only [Stor.nodupKeysB, Stor.nodupKeys]; exact Stor.nodupKeysB_iff s
  | .arr _ _ es => by simp only [Stor.nodupKeysB, Stor.nodupKeys]; exact nodupKeysStsB_iff es
  | .map _ _ (.hkey _ _ es) => by
    simp only [Stor.nodupKeysB, Stor.nodupKeys, Bool.and_eq_true, optAllB_iff nodupB_iff,
      nodupKeysMElListB_iff es]
  | .map _ _ (.single _ es) => by simp only [Stor.nodupKeysB, Stor.nodupKeys]; exact nodupKeysSElListB_iff es
theorem nodupKeysStsB_iff : (l : List Stor) → (nodupKeysStsB l = true ↔ nodupKeysSts l)
  | [] => by simp [nodupKeysStsB, nodupKeysSts]
  | s :: ss => by
    simp only [nodupKeysStsB, nodupKeysSts, Bool.and_eq_true, Stor.nodupKeysB_iff s, nodupKeysStsB_iff ss]
theorem SEl.nodupKeysB_iff : (e : SEl) → (e.nodupKeysB = true ↔ e.nodupKeys)
  | .mk k v => by
    simp only [SEl.nodupKeysB, SEl.nodupKeys, Bool.and_eq_true, Stor.nodupKeysB_iff k, Stor.nodupKeysB_iff v]
theorem MEl.nodupKeysB_iff : (e : MEl) → (e.nodupKeysB = true ↔ e.nodupKeys)
  | .single e => by simp only [MEl.nodupKeysB, MEl.nodupKeys]; exact SEl.nodupKeysB_iff e
  | .inl els => by simp only [MEl.nodupKeysB, MEl.nodupKeys]; exact MEls.nodupKeysB_iff els
  | .ext _ => by simp [MEl.nodupKeysB, MEl.nodupKeys]
theorem MEls.nodupKeysB_iff : (els : MEls) → (els.nodupKeysB = true ↔ els.nodupKeys)
  | .hkey _ _ es => by simp only [MEls.nodupKeysB, MEls.nodupKeys]; exact nodupKeysMElListB_iff es
  | .single _ es => by simp only [MEls.nodupKeysB, MEls.nodupKeys]; exact nodupKeysSElListB_iff es
theorem nodupKeysMElListB_iff : (l : List MEl) → (nodupKeysMElListB l = true ↔ nodupKeysMElList l)
  | [] => by simp [nodupKeysMElListB, nodupKeysMElList]
  | e :: es => by
    simp only [nodupKeysMElListB, nodupKeysMElList, Bool.and_eq_true, MEl.nodupKeysB_iff e,
      nodupKeysMElListB_iff es]
theorem nodupKeysSElListB_iff : (l : List SEl) → (nodupKeysSElListB l = true ↔ nodupKeysSElList l)
  | [] => by simp [nodupKeysSElListB, nodupKeysSElList]
  | e :: es => by
    simp only [nodupKeysSElListB, nodupKeysSElList, Bool.and_eq_true, SEl.nodupKeysB_iff e,
      nodupKeysSElListB_iff es]
end

/-! ### the encoder's extra-data state -/

theorem xokB_iff (xs : List XD) : xokB xs = true ↔ XOK xs := by
  unfold xokB XOK
  rw [List.all_eq_true]
  refine forall_congr' fun x => imp_congr_right fun _ => ?_
  cases x with
  | arr t => exact validTyB_iff t
  | map m => exact validMapExtraB_iff m
  | cmap _ _ _ => simp [XD.validB]

theorem XD.validCB_iff (x : XD) : x.validCB = true ↔ x.validC := by
  cases x with
  | arr t => exact validTyB_iff t
  | map m => exact validMapExtraB_iff m
  | cmap m hkeys keys =>
    simp only [XD.validCB, XD.validC, Bool.and_eq_true, decide_eq_true_eq, List.all_eq_true,
      validMapExtraB_iff, validElemB_iff]

theorem xokcB_iff (xs : List XD) : xokcB xs = true ↔ XOKC xs := by
  unfold xokcB XOKC
  rw [List.all_eq_true]
  exact forall_congr' fun x => imp_congr_right fun _ => XD.validCB_iff x

/-! ### the slab-level predicates -/

theorem dataOKB_iff (ty : TyInfo) (s : DataSlab) : dataOKB ty s = true ↔ DataOK ty s := by
  simp only [dataOKB, Bool.and_eq_true, decide_eq_true_eq, List.all_eq_true, validElemB_iff, validNextB_iff,
    Bool.not_eq_true', implB_iff (validTyB_iff ty)]
  constructor
  · rintro ⟨h1, h2, h3, h4, h5, h6, h7, h8⟩
    exact ⟨h1, h2, h3, h4, h5, h6, h7, h8⟩
  · rintro ⟨h1, h2, h3, h4, h5, h6, h7, h8⟩
    exact ⟨h1, h2, h3, h4, h5, h6, h7, h8⟩

theorem metaOKB_iff (ty : TyInfo) (m : MetaSlab Unit) : metaOKB ty m = true ↔ MetaOK ty m := by
  simp only [metaOKB, Bool.and_eq_true, decide_eq_true_eq, List.all_eq_true, validChildHdrB_iff,
    List.isEmpty_iff, implB_iff (validTyB_iff ty)]
  constructor
  · rintro ⟨h1, h2, h3, h4, h5, h6, h7, h8, h9⟩
    exact ⟨h1, h2, h3, h4, h5, h6, h7, h8, h9⟩
  · rintro ⟨h1, h2, h3, h4, h5, h6, h7, h8, h9⟩
    exact ⟨h1, h2, h3, h4, h5, h6, h7, h8, h9⟩

theorem mapMetaOKB_iff (m : MapMeta) : mapMetaOKB m = true ↔ MapMetaOK m := by
  simp only [mapMetaOKB, Bool.and_eq_true, decide_eq_true_eq, List.all_eq_true, validMChildHdrB_iff,
    optAllB_iff validMapExtraB_iff]
  constructor
  · rintro ⟨h1, h2, h3, h4⟩
    exact ⟨h1, h2, h3, h4⟩
  · rintro ⟨h1, h2, h3, h4⟩
    exact ⟨h1, h2, h3, h4⟩

theorem mapDataOKB_iff (s : MapData) : mapDataOKB s = true ↔ MapDataOK s := by
  simp only [mapDataOKB, Bool.and_eq_true, decide_eq_true_eq, MEls.rtB_iff, MEls.noInlB_iff, MEls.vneedB_eq,
    validNextB_iff, optAllB_iff validMapExtraB_iff]
  constructor
  · rintro ⟨h1, h2, h3, h4, h5, h6⟩
    exact ⟨h1, h2, h3, h4, h5, h6⟩
  · rintro ⟨h1, h2, h3, h4, h5, h6⟩
    exact ⟨h1, h2, h3, h4, h5, h6⟩

theorem anyNotFlat_iff (l : List Stor) : l.any (fun s => !s.isFlat) = true ↔ ∃ s ∈ l, s.isFlat = false := by
  simp only [List.any_eq_true, Bool.not_eq_true']

theorem arrDataOKWB_iff (a : ArrData) : arrDataOKWB a = true ↔ ArrDataOKW a := by
  simp only [arrDataOKWB, Bool.and_eq_true, decide_eq_true_eq, rtiStsB_iff, noInlStsB_iff, anyNotFlat_iff,
    vneedIStsB_eq, validNextB_iff, optAllB_iff validTyB_iff]
  constructor
  · rintro ⟨h1, h2, h3, h4, h5, h6, h7, h8⟩
    exact ⟨h1, h2, h3, h4, h5, h6, h7, h8⟩
  · rintro ⟨h1, h2, h3, h4, h5, h6, h7, h8⟩
    exact ⟨h1, h2, h3, h4, h5, h6, h7, h8⟩

theorem mapDataOKIB_iff (s : MapData) : mapDataOKIB s = true ↔ MapDataOKI s := by
  simp only [mapDataOKIB, Bool.and_eq_true, decide_eq_true_eq, MEls.rtiB_iff, MEls.noCompactB_iff,
    MEls.vneedIB_eq, validNextB_iff, optAllB_iff validMapExtraB_iff]
  constructor
  · rintro ⟨h1, h2, h3, h4, h5, h6, h7⟩
    exact ⟨h1, h2, h3, h4, h5, h6, h7⟩
  · rintro ⟨h1, h2, h3, h4, h5, h6, h7⟩
    exact ⟨h1, h2, h3, h4, h5, h6, h7⟩

theorem arrDataOKIB_iff (a : ArrData) : arrDataOKIB a = true ↔ ArrDataOKI a := by
  simp only [arrDataOKIB, Bool.and_eq_true, decide_eq_true_eq, rtiStsB_iff, noCompactStsB_iff, vneedIStsB_eq,
    not_isEmpty_iff, validNextB_iff, optAllB_iff validTyB_iff]
  constructor
  · rintro ⟨h1, h2, h3, h4, h5, h6, h7, h8, h9⟩
    exact ⟨h1, h2, h3, h4, h5, h6, h7, h8, h9⟩
  · rintro ⟨h1, h2, h3, h4, h5, h6, h7, h8, h9⟩
    exact ⟨h1, h2, h3, h4, h5, h6, h7, h8, h9⟩

theorem mapDataOKCB_iff (s : MapData) : mapDataOKCB s = true ↔ MapDataOKC s := by
  simp only [mapDataOKCB, Bool.and_eq_true, decide_eq_true_eq, MEls.rtiB_iff, MEls.nodupKeysB_iff,
    MEls.vneedIB_eq, validNextB_iff, optAllB_iff validMapExtraB_iff]
  constructor
  · rintro ⟨h1, h2, h3, h4, h5, h6, h7⟩
    exact ⟨h1, h2, h3, h4, h5, h6, h7⟩
  · rintro ⟨h1, h2, h3, h4, h5, h6, h7⟩
    exact ⟨h1, h2, h3, h4, h5, h6, h7⟩

theorem arrDataOKCB_iff (a : ArrData) : arrDataOKCB a = true ↔ ArrDataOKC a := by
  simp only [arrDataOKCB, Bool.and_eq_true, decide_eq_true_eq, rtiStsB_iff, nodupKeysStsB_iff, vneedIStsB_eq,
    not_isEmpty_iff, validNextB_iff, optAllB_iff validTyB_iff]
  constructor
  · rintro ⟨h1, h2, h3, h4, h5, h6, h7, h8, h9⟩
    exact ⟨h1, h2, h3, h4, h5, h6, h7, h8, h9⟩
  · rintro ⟨h1, h2, h3, h4, h5, h6, h7, h8, h9⟩
    exact ⟨h1, h2, h3, h4, h5, h6, h7, h8, h9⟩

theorem mapDataOKXB_iff (s : MapData) : mapDataOKXB s = true ↔ MapDataOKX s := by
  simp only [mapDataOKXB, Bool.and_eq_true, decide_eq_true_eq, MEls.rtiB_iff, MEls.nodupKeysB_iff,
    validNextB_iff, optAllB_iff validMapExtraB_iff]
  constructor
  · rintro ⟨h1, h2, h3, h4, h5, h6, h7⟩
    exact ⟨h1, h2, h3, h4, h5, h6, h7⟩
  · rintro ⟨h1, h2, h3, h4, h5, h6, h7⟩
    exact ⟨h1, h2, h3, h4, h5, h6, h7⟩

theorem arrDataOKXB_iff (a : ArrData) : arrDataOKXB a = true ↔ ArrDataOKX a := by
  simp only [arrDataOKXB, Bool.and_eq_true, decide_eq_true_eq, rtiStsB_iff, nodupKeysStsB_iff,
    not_isEmpty_iff, validNextB_iff, optAllB_iff validTyB_iff]
  constructor
  · rintro ⟨h1, h2, h3, h4, h5, h6, h7, h8, h9⟩
    exact ⟨h1, h2, h3, h4, h5, h6, h7, h8, h9⟩
  · rintro ⟨h1, h2, h3, h4, h5, h6, h7, h8, h9⟩
    exact ⟨h1, h2, h3, h4, h5, h6, h7, h8, h9⟩

theorem arrDataOKWXB_iff (a : ArrData) : arrDataOKWXB a = true ↔ ArrDataOKWX a := by
  simp only [arrDataOKWXB, Bool.and_eq_true, decide_eq_true_eq, rtiStsB_iff, noInlStsB_iff, anyNotFlat_iff,
    validNextB_iff, optAllB_iff validTyB_iff]
  constructor
  · rintro ⟨h1, h2, h3, h4, h5, h6, h7, h8⟩
    exact ⟨h1, h2, h3, h4, h5, h6, h7, h8⟩
  · rintro ⟨h1, h2, h3, h4, h5, h6, h7, h8⟩
    exact ⟨h1, h2, h3, h4, h5, h6, h7, h8⟩

theorem storableGOKB_iff (s : Stor) :
    storableGOKB s = true ↔ ∃ x, s = .some x ∧ x.RT ∧ x.noInl ∧ x.vneed + 1 ≤ maxNestedLevels := by
  cases s with
  | some x =>
    simp only [storableGOKB, Bool.and_eq_true, decide_eq_true_eq, Stor.rtB_iff, Stor.noInlB_iff, Stor.vneedB_eq,
      Stor.some.injEq, exists_eq_left']
  | val _ _ => simp [storableGOKB]
  | ref _ => simp [storableGOKB]
  | arr _ _ _ => simp [storableGOKB]
  | map _ _ _ => simp [storableGOKB]

end Atree.Codec
