import AtreeProofs.Codec.VDepthIneq
import AtreeProofs.Codec.CmpFix
import AtreeProofs.Codec.Hoisted
/-
  `DecodeSlab` on encoded map data / collision-group slabs and array data slabs with inlined children
  in any form, under the EXACT nesting hypothesis `Slab.vdepth ≤ maxNestedLevels`, and the converse:
  one level more and the register does not decode (the validator rejects the elements item).

  The decoders are first reduced, without any nesting hypothesis, to their "content" part
  (`mapDataContent`, `arrDataContentG`) run on the elements item; that part starts with the single
  validation of the item (`prepareNext`), which `ExX` decides exactly.
-/
namespace Atree.Codec
open Atree Atree.Gen DM

/-! ### map data slabs -/

/-- the two head bytes `MapDataSlab.Encode` writes -/
def mapDataHead (s : MapData) : SlabHead :=
  ⟨MapDataSlab_Encode_version * 16 ||| flagIf (decide (s.next ≠ SlabID.undef)) maskHasNextSlabID |||
      flagIf (!(encMEls s.els []).2.isEmpty) maskHasInlinedSlabs,
   (if s.group then maskCollisionGroup else maskMapData) ||| flagIf s.els.hasPtr maskSlabHasPointers |||
      flagIf s.anySize maskSlabAnySize ||| flagIf s.extra.isSome maskSlabRoot⟩

/-- What the encoder and the decoder rely on for a map data slab — `MapDataOKC` without its nesting
    hypothesis. -/
structure MapDataPre (s : MapData) : Prop where
  rt : s.els.RTI
  nodup : s.els.nodupKeys
  entries : (encMEls s.els []).2.length ≤ 256
  next : validNext s.next
  extra : ∀ x, s.extra = some x → validMapExtra x
  size : s.size ≤ maxUint32

/-- `MapDataOKC` with the EXACT nesting hypothesis: the validator depth of the register is within the
    limit of the `DecMode` (the model constant 32 of the default `cbor.DecOptions{}`). -/
structure MapDataOKX (s : MapData) : Prop where
  rt : s.els.RTI
  nodup : s.els.nodupKeys
  nest : (Slab.mdata s).vdepth ≤ maxNestedLevels
  entries : (encMEls s.els []).2.length ≤ 256
  next : validNext s.next
  extra : ∀ x, s.extra = some x → validMapExtra x
  size : s.size ≤ maxUint32

theorem MapDataOKX.pre {s : MapData} (ok : MapDataOKX s) : MapDataPre s :=
  ⟨ok.rt, ok.nodup, ok.entries, ok.next, ok.extra, ok.size⟩

theorem MapDataOKC.pre {s : MapData} (ok : MapDataOKC s) : MapDataPre s :=
  ⟨ok.rt, ok.nodup, ok.entries, ok.next, ok.extra, ok.size⟩

/-- the old hypothesis implies the new one -/
theorem MapDataOKC.toX {s : MapData} (ok : MapDataOKC s) : MapDataOKX s :=
  ⟨ok.rt, ok.nodup,
   (vdepth_mdata_le_iff s (by decide)).2 (Nat.le_trans (MEls.vd_le_vneedI s.els) ok.nest),
   ok.entries, ok.next, ok.extra, ok.size⟩

/-- the content part on the elements item, given that the validator accepts it -/
theorem mapDataContent_encX (id : SlabID) (h : SlabHead) (extra : Option MapExtra) (next : SlabID)
    (els : MEls) (hrt : els.RTI) (hnd : els.nodupKeys) (more : Bytes)
    (hw : wfNext ((encMEls els []).1 ++ more) = some more) (hdn : els.dneed ≤ maxDecodeDepth)
    (h256 : (encMEls els []).2.length ≤ 256)
    (hsz : versionAndFlagSize + els.size + (if h.isRoot then 0 else SlabIDLength) ≤ maxUint32) (n : Nat) :
    mapDataContent id h extra next (encMEls els []).2 ((encMEls els []).1 ++ more) n =
      .ok (.mdata { id := id, next := next, extra := extra, els := normMEls els [], anySize := !h.hasSizeLimit,
                    group := decide (h.mapType = .collisionGroup) }) (n + (normMEls els []).allocsI) := by
  unfold mapDataContent
  rw [decMElsG_new _ _ _ _ _ _ hw]
  have hrem : ((encMEls els []).1 ++ more).length - more.length = (encMEls els []).1.length := by simp
  have hspec := decMElsG_encC els hrt hnd (((encMEls els []).1 ++ more).length + 1) 0 more (encMEls els []).1.length 0
    id.addr [] (encMEls els []).2 n XOKC.nil ⟨[], by simp⟩ h256
    (by simp only [List.length_append]; omega)
    (by omega) (Nat.le_refl _)
  rw [hrem, DM.bind_ok hspec]
  simp only [size_normMEls els [] hnd]
  have h1 : ¬ (versionAndFlagSize + els.size > maxUint32) := by split at hsz <;> omega
  have h2 : ¬ (¬ h.isRoot = true ∧ versionAndFlagSize + els.size + SlabIDLength > maxUint32) := by
    intro hc
    rw [if_neg hc.1] at hsz
    omega
  rw [DM.ite_apply, if_neg h1, DM.ite_apply, if_neg h2]
  rfl

/-- a fresh stream decoder on data whose first item the validator rejects: every `Decode*` fails -/
theorem decodeHeadOf_new_none {major : Nat} {data : Bytes} (hw : wfNext data = none) :
    Dec.decodeHeadOf major (Dec.new data) = none := by
  unfold Dec.decodeHeadOf Dec.prepareNext Dec.new
  simp only [Nat.lt_irrefl, ↓reduceIte, gt_iff_lt, hw]

/-- the content part on data whose first item the validator rejects -/
theorem mapDataContent_rej (id : SlabID) (h : SlabHead) (extra : Option MapExtra) (next : SlabID)
    (xs : List XD) (data : Bytes) (hw : wfNext data = none) (n : Nat) :
    mapDataContent id h extra next xs data n = .error .decoding n := by
  unfold mapDataContent
  have : decMElsG (data.length + 1) 0 (Dec.new data) id.addr xs n = .error .decoding n := by
    unfold decMElsG
    have : (Dec.new data).decodeArrayHead = none := decodeHeadOf_new_none hw
    rw [this]
    rfl
  show DM.bind' _ _ n = _
  unfold DM.bind'
  rw [this]

/-- `newMapDataSlabFromDataV1` on what `MapDataSlab.Encode` writes after the two head bytes: everything
    up to the elements item is consumed; no nesting hypothesis -/
theorem newMapDataSlabFromDataV1_red (id : SlabID) (h : SlabHead) (extra : Option MapExtra) (next : SlabID)
    (els : MEls) (hroot : h.isRoot = extra.isSome) (hinl : h.hasInlinedSlabs = !(encMEls els []).2.isEmpty)
    (hnx : h.hasNextSlabID = decide (next ≠ SlabID.undef))
    (hrt : els.RTI) (h256 : (encMEls els []).2.length ≤ 256) (hnext : validNext next)
    (hextra : ∀ x, extra = some x → validMapExtra x) (more : Bytes) (n : Nat) :
    newMapDataSlabFromDataV1 id h (mapExtraBytes extra ++ (encodeIEDSection (encMEls els []).2 ++
        ((if decide (next ≠ SlabID.undef) = true then encodeSlabID next else []) ++ ((encMEls els []).1 ++ more)))) n =
      mapDataContent id h extra next (encMEls els []).2 ((encMEls els []).1 ++ more)
        (n + iedAllocsC (encMEls els []).2) := by
  have hxok : XOKC (encMEls els []).2 := (encMEls_stateC els [] hrt XOKC.nil).2
  have hied : ∀ (k : Nat), mapDataV1AfterIED id h extra (encMEls els []).2
      ((if decide (next ≠ SlabID.undef) = true then encodeSlabID next else []) ++ ((encMEls els []).1 ++ more)) k =
      mapDataContent id h extra next (encMEls els []).2 ((encMEls els []).1 ++ more) k := by
    intro k
    unfold mapDataV1AfterIED
    rw [hnx]
    by_cases hn : next = SlabID.undef
    · subst hn
      simp only [ne_eq, not_true_eq_false, decide_false, Bool.false_eq_true, ↓reduceIte, List.nil_append]
    · simp only [ne_eq, hn, not_false_eq_true, decide_true, ↓reduceIte]
      have hl : ¬ (encodeSlabID next ++ ((encMEls els []).1 ++ more)).length < SlabIDLength := by
        simp [length_encodeSlabID, SlabIDLength]
      rw [if_neg hl, newSlabIDFromRawBytes_enc_append next hnext.1 hnext.2]
      simp only [DM.pure_bind]
      unfold sliceFrom
      rw [if_pos (by simp [length_encodeSlabID, SlabIDLength])]
      simp only [DM.pure_bind]
      have hdrop : (encodeSlabID next ++ ((encMEls els []).1 ++ more)).drop SlabIDLength = (encMEls els []).1 ++ more :=
        List.drop_left' (by simp [length_encodeSlabID, SlabIDLength])
      rw [hdrop]
  have hafter : mapDataV1AfterExtra id h extra (encodeIEDSection (encMEls els []).2 ++
      ((if decide (next ≠ SlabID.undef) = true then encodeSlabID next else []) ++ ((encMEls els []).1 ++ more))) n =
      mapDataContent id h extra next (encMEls els []).2 ((encMEls els []).1 ++ more)
        (n + iedAllocsC (encMEls els []).2) := by
    unfold mapDataV1AfterExtra
    rw [hinl]
    by_cases hemp : (encMEls els []).2 = []
    · simp only [hemp, List.isEmpty_nil, Bool.not_true, Bool.false_eq_true, ↓reduceIte, encodeIEDSection,
        List.nil_append, iedAllocsC, Nat.add_zero]
      have := hied n
      rw [hemp] at this
      exact this
    · have hne : (encMEls els []).2.isEmpty = false := by
        cases hxs : (encMEls els []).2 with
        | nil => exact absurd hxs hemp
        | cons a b => rfl
      simp only [hne, Bool.not_false, ↓reduceIte, encodeIEDSection, iedAllocsC, Bool.false_eq_true]
      rw [DM.bind_ok (newInlinedExtraDataFromData_encC (encMEls els []).2 hxok hemp h256 _ n)]
      have := hied (n + (findDuplicateTypeInfo (encMEls els []).2).length + (encMEls els []).2.length +
        ((encMEls els []).2.map xdAllocs).sum)
      simp only [Nat.add_assoc] at this ⊢
      exact this
  unfold newMapDataSlabFromDataV1
  cases extra with
  | none =>
    simp only [Option.isSome_none] at hroot
    simp only [hroot, Bool.false_eq_true, ↓reduceIte, mapExtraBytes, List.nil_append]
    exact hafter
  | some x =>
    simp only [Option.isSome_some] at hroot
    simp only [hroot, ↓reduceIte, mapExtraBytes]
    rw [newMapExtraDataFromData_enc x (hextra x rfl)]
    simp only [DM.pure_bind]
    exact hafter

/-- `DecodeSlab` on the encoding of a map data / collision-group slab, followed by ANY `more` bytes, is
    the content part run on the elements item; no nesting hypothesis -/
theorem decodeSlab_encodeMapData_red (s : MapData) (hrt : s.els.RTI) (h256 : (encMEls s.els []).2.length ≤ 256)
    (hnext : validNext s.next) (hextra : ∀ x, s.extra = some x → validMapExtra x) (more : Bytes) (n : Nat) :
    decodeSlab s.id (encodeMapData s ++ more) n
      = mapDataContent s.id (mapDataHead s) s.extra s.next (encMEls s.els []).2 ((encMEls s.els []).1 ++ more)
          (n + iedAllocsC (encMEls s.els []).2) := by
  obtain ⟨id, next, extra, els, anySize, group⟩ := s
  simp only at hrt h256 hnext hextra
  have hf := head_mdata_facts (decide (next ≠ SlabID.undef)) (!(encMEls els []).2.isEmpty) group els.hasPtr anySize
    extra.isSome
  simp only at hf
  obtain ⟨hf1, hf2, hf3, hf4, _, hf6, hf7, hf8⟩ := hf
  unfold encodeMapData
  simp only [List.cons_append, List.nil_append, List.append_assoc]
  rw [decodeSlab_of_flat_unsupported (decodeSlabFlat_map _ _ _ _ n hf1),
    decodeSlabGen_mapData _ _ _ _ hf1 (by rw [hf2]; cases group <;> simp),
    newMapDataSlabFromData_cons2]
  have hty : ¬ ((if group = true then MapType.collisionGroup else MapType.data) ≠ MapType.data ∧
      (if group = true then MapType.collisionGroup else MapType.data) ≠ MapType.collisionGroup) := by
    cases group <;> simp
  rw [hf2, hf3, if_neg hty]
  simp only [show ¬ ((1 : Nat) = 0) by decide, ↓reduceIte]
  have key := newMapDataSlabFromDataV1_red id _ extra next els hf4 hf7 hf8 hrt h256 hnext hextra more n
  refine Eq.trans ?_ key
  rfl

theorem mapDataHead_facts (s : MapData) :
    (mapDataHead s).isRoot = s.extra.isSome ∧ (!(mapDataHead s).hasSizeLimit) = s.anySize ∧
      decide ((mapDataHead s).mapType = .collisionGroup) = s.group := by
  have hf := head_mdata_facts (decide (s.next ≠ SlabID.undef)) (!(encMEls s.els []).2.isEmpty) s.group s.els.hasPtr
    s.anySize s.extra.isSome
  simp only at hf
  obtain ⟨_, hf2, _, hf4, _, hf6, _, _⟩ := hf
  refine ⟨hf4, ?_, ?_⟩
  · show (!(mapDataHead s).hasSizeLimit) = s.anySize
    unfold mapDataHead; rw [hf6]; simp
  · show decide ((mapDataHead s).mapType = .collisionGroup) = s.group
    unfold mapDataHead; rw [hf2]; cases s.group <;> simp

/-- the elements item of a map data slab, exactly -/
theorem exX_mapElements (s : MapData) (hrt : s.els.RTI) (hnd : s.els.nodupKeys) :
    ExX (encMEls s.els []).1 (fun _ => s.els.vd) := exMElsX s.els [] hrt hnd

/-- `DecodeSlab` on the encoding of a map data / collision-group slab with inlined arrays / maps
    (any depth, the compact form included) whose validator depth is within the limit -/
theorem decodeSlab_encodeMapDataX (s : MapData) (ok : MapDataOKX s) (more : Bytes) (n : Nat) :
    decodeSlab s.id (encodeMapData s ++ more) n
      = .ok (.mdata { s with els := normMEls s.els [] })
          (n + iedAllocsC (encMEls s.els []).2 + (normMEls s.els []).allocsI) := by
  have hvd : s.els.vd ≤ maxNestedLevels := (vdepth_mdata_le_iff s (by decide)).1 ok.nest
  have hw := wfNext_of_exX (exX_mapElements s ok.rt ok.nodup) hvd more
  have hdn : s.els.dneed ≤ maxDecodeDepth := by
    have := MEls.dneed_le_vd s.els
    simp only [maxDecodeDepth, maxNestedLevels] at hvd ⊢; omega
  obtain ⟨hroot, hany, hgrp⟩ := mapDataHead_facts s
  rw [decodeSlab_encodeMapData_red s ok.rt ok.entries ok.next ok.extra more n,
    mapDataContent_encX s.id (mapDataHead s) s.extra s.next s.els ok.rt ok.nodup more hw hdn ok.entries
      (by rw [hroot]; have := ok.size; simpa [MapData.size] using this), hany, hgrp]

/-- … and one level above the limit: the register does NOT decode — `prepareNext` fails on the elements
    item, after the extra-data sections have been decoded (hence the allocation count) -/
theorem decodeSlab_encodeMapData_tooDeep (s : MapData) (pre : MapDataPre s)
    (h : maxNestedLevels < (Slab.mdata s).vdepth) (more : Bytes) (n : Nat) :
    decodeSlab s.id (encodeMapData s ++ more) n = .error .decoding (n + iedAllocsC (encMEls s.els []).2) := by
  have hvd : maxNestedLevels < s.els.vd := by
    have := (vdepth_mdata_le_iff s (L := maxNestedLevels) (by decide)).2
    by_cases hc : s.els.vd ≤ maxNestedLevels
    · have := this hc; omega
    · omega
  have hw := wfNext_none_of_exX (exX_mapElements s pre.rt pre.nodup) hvd more
  rw [decodeSlab_encodeMapData_red s pre.rt pre.entries pre.next pre.extra more n,
    mapDataContent_rej _ _ _ _ _ _ hw]

/-! ### array data slabs with inlined children -/

/-- the two head bytes `ArrayDataSlab.Encode` writes -/
def arrDataHead (a : ArrData) : SlabHead :=
  ⟨ArrayDataSlab_Encode_version * 16 ||| flagIf (decide (a.next ≠ SlabID.undef)) maskHasNextSlabID |||
      flagIf (!(encSts a.elems []).2.isEmpty) maskHasInlinedSlabs,
   maskArrayData ||| flagIf (anyPtrSts a.elems) maskSlabHasPointers ||| flagIf a.ty.isSome maskSlabRoot⟩

/-- `ArrDataOKC` without its nesting hypothesis -/
structure ArrDataPre (a : ArrData) : Prop where
  rt : rtiSts a.elems
  nodup : nodupKeysSts a.elems
  count : a.elems.length < 65536
  inlined : (encSts a.elems []).2 ≠ []
  entries : (encSts a.elems []).2.length ≤ 256
  next : validNext a.next
  ty : ∀ t, a.ty = some t → validTy t
  size : a.size ≤ maxUint32

/-- `ArrDataOKC` with the EXACT nesting hypothesis -/
structure ArrDataOKX (a : ArrData) : Prop where
  rt : rtiSts a.elems
  nodup : nodupKeysSts a.elems
  nest : (Slab.adata a).vdepth ≤ maxNestedLevels
  count : a.elems.length < 65536
  inlined : (encSts a.elems []).2 ≠ []
  entries : (encSts a.elems []).2.length ≤ 256
  next : validNext a.next
  ty : ∀ t, a.ty = some t → validTy t
  size : a.size ≤ maxUint32

theorem ArrDataOKX.pre {a : ArrData} (ok : ArrDataOKX a) : ArrDataPre a :=
  ⟨ok.rt, ok.nodup, ok.count, ok.inlined, ok.entries, ok.next, ok.ty, ok.size⟩

theorem ArrDataOKC.pre {a : ArrData} (ok : ArrDataOKC a) : ArrDataPre a :=
  ⟨ok.rt, ok.nodup, ok.count, ok.inlined, ok.entries, ok.next, ok.ty, ok.size⟩

theorem ArrDataOKC.toX {a : ArrData} (ok : ArrDataOKC a) : ArrDataOKX a :=
  ⟨ok.rt, ok.nodup,
   (vdepth_adata_le_iff a (by decide)).2 (by have := vdSts_le_vneedI a.elems; have := ok.nest; omega),
   ok.count, ok.inlined, ok.entries, ok.next, ok.ty, ok.size⟩

/-- the element array of an array data slab, exactly -/
theorem exX_arrElements (elems : List Stor) (hrt : rtiSts elems) (hnd : nodupKeysSts elems)
    (hcount : elems.length < 65536) :
    ExX (arrayHead16 elems.length ++ (encSts elems []).1) (fun _ => vdSts elems + 1) := by
  have := ExX.array16 (l := encStPartsX elems []) (N := vdSts elems)
    (by rw [encStPartsX_length]; exact hcount) (exStPartsX elems [] hrt hnd) (isMax_encStPartsX elems [])
  exact this.cast (by rw [encStPartsX_length, encStPartsX_fst, encStParts_flatten]) (fun _ => rfl)

theorem arrDataContentG_encX (id : SlabID) (isRoot : Bool) (ty : Option TyInfo) (next : SlabID)
    (elems : List Stor) (hrt : rtiSts elems) (hnd : nodupKeysSts elems) (extra : Bytes)
    (hw : wfNext (arrayHead16 elems.length ++ ((encSts elems []).1 ++ extra)) = some extra)
    (hdn : dneedSts elems ≤ maxDecodeDepth) (hcount : elems.length < 65536)
    (h256 : (encSts elems []).2.length ≤ 256)
    (hsz : (if isRoot then arrayRootDataSlabPrefixSize else arrayDataSlabPrefixSize) + sizeSts elems ≤ maxUint32)
    (n : Nat) :
    arrDataContentG id isRoot ty next true (encSts elems []).2
        (arrayHead16 elems.length ++ ((encSts elems []).1 ++ extra)) n =
      if extra ≠ [] then .error .decoding (n + elems.length + allocsISts (normSts elems []))
      else .ok (.adata { id := id, next := next, ty := ty, elems := normSts elems [] })
        (n + elems.length + allocsISts (normSts elems [])) := by
  have hL : (arrayHead16 elems.length ++ ((encSts elems []).1 ++ extra)).length
      = 3 + (encSts elems []).1.length + extra.length := by
    simp only [List.length_append, length_arrayHead16]; omega
  unfold arrDataContentG
  rw [if_neg (by rw [hL]; simp only [arrayDataSlabElementHeadSize]; omega)]
  have hhead : (Dec.new (arrayHead16 elems.length ++ ((encSts elems []).1 ++ extra))).decodeArrayHead
      = some (elems.length, (⟨(encSts elems []).1 ++ extra, (encSts elems []).1.length, 3⟩ : Dec)) := by
    show Dec.decodeHeadOf 4 _ = _
    rw [decodeHeadOf_new hw]
    have hrem : (arrayHead16 elems.length ++ ((encSts elems []).1 ++ extra)).length - extra.length
        = 3 + (encSts elems []).1.length := by
      rw [hL]; omega
    rw [hrem]
    have := decodeArrayHead_head16 hcount ((encSts elems []).1 ++ extra) (3 + (encSts elems []).1.length) 0 (by omega)
    simp only [Nat.zero_add, Nat.add_sub_cancel_left] at this
    exact this
  rw [hhead]
  simp only [DM.liftOpt_some, DM.pure_bind]
  have hc1 : ¬ (elems.length > maxUint32) := by simp only [maxUint32]; omega
  simp only [hc1, ↓reduceIte]
  rw [DM.alloc_bind]
  simp only
  have hspec := decStsG_encC elems hrt hnd ((arrayHead16 elems.length ++ ((encSts elems []).1 ++ extra)).length + 1) 0
    extra (encSts elems []).1.length 3 id.addr [] (encSts elems []).2
    (if isRoot then arrayRootDataSlabPrefixSize else arrayDataSlabPrefixSize) (n + elems.length)
    XOKC.nil ⟨[], by simp⟩ h256 (by rw [hL]; omega)
    (by omega) (Nat.le_refl _) hsz
  rw [DM.bind_ok hspec]
  simp only [Dec.numBytesDecoded, Nat.sub_self]
  by_cases hex : extra = []
  · subst hex
    have hc : ¬ (True ∧ 3 + (encSts elems []).1.length < (arrayHead16 elems.length ++ ((encSts elems []).1 ++ [])).length) := by
      rw [hL]; simp
    simp only [hc, ↓reduceIte, ne_eq, not_true_eq_false]
    rfl
  · have hpos : 0 < extra.length := List.length_pos_iff.2 hex
    have hc : 3 + (encSts elems []).1.length < (arrayHead16 elems.length ++ ((encSts elems []).1 ++ extra)).length := by
      rw [hL]; omega
    simp only [true_and, hc, ↓reduceIte, ne_eq, hex, not_false_eq_true]
    rfl

/-- the content part on data (at least the three bytes of an array head) whose first item the validator
    rejects -/
theorem arrDataContentG_rej (id : SlabID) (isRoot : Bool) (ty : Option TyInfo) (next : SlabID) (checkEOF : Bool)
    (xs : List XD) (data : Bytes) (hlen : arrayDataSlabElementHeadSize ≤ data.length)
    (hw : wfNext data = none) (n : Nat) :
    arrDataContentG id isRoot ty next checkEOF xs data n = .error .decoding n := by
  unfold arrDataContentG
  rw [if_neg (by omega)]
  have : (Dec.new data).decodeArrayHead = none := decodeHeadOf_new_none hw
  rw [this]
  rfl

/-- the part of `newArrayDataSlabFromDataV1` after the root's extra data, reduced to the content part -/
theorem arrDataV1AfterExtraG_red (id : SlabID) (h : SlabHead) (ty : Option TyInfo) (next : SlabID)
    (elems : List Stor) (hroot : h.isRoot = ty.isSome) (hinl : h.hasInlinedSlabs = true)
    (hnx : h.hasNextSlabID = decide (next ≠ SlabID.undef))
    (hxok : XOKC (encSts elems []).2) (hne : (encSts elems []).2 ≠ []) (h256 : (encSts elems []).2.length ≤ 256)
    (hnext : validNext next) (extra : Bytes) (n : Nat) :
    arrDataV1AfterExtraG id h ty
      (encodeIED (encSts elems []).2 ++ ((if decide (next ≠ SlabID.undef) = true then encodeSlabID next else []) ++
        (arrayHead16 elems.length ++ ((encSts elems []).1 ++ extra)))) n =
      arrDataContentG id ty.isSome ty next true (encSts elems []).2
        (arrayHead16 elems.length ++ ((encSts elems []).1 ++ extra)) (n + iedAllocsC (encSts elems []).2) := by
  have hemp : (encSts elems []).2.isEmpty = false := by
    cases hxs : (encSts elems []).2 with
    | nil => exact absurd hxs hne
    | cons a b => rfl
  unfold arrDataV1AfterExtraG
  rw [hinl]
  simp only [↓reduceIte]
  rw [DM.bind_ok (newInlinedExtraDataFromData_encC (encSts elems []).2 hxok hne h256 _ n)]
  simp only [iedAllocsC, hemp, Bool.false_eq_true, ↓reduceIte]
  unfold arrDataV1AfterIEDG
  rw [hnx, hroot]
  by_cases hnxt : next = SlabID.undef
  · have hd : decide (next ≠ SlabID.undef) = false := by simp [hnxt]
    simp only [hd, Bool.false_eq_true, ↓reduceIte, List.nil_append]
    rw [hnxt]
    simp only [Nat.add_assoc]
  · have hd : decide (next ≠ SlabID.undef) = true := by simp [hnxt]
    simp only [hd, ↓reduceIte]
    rw [newSlabIDFromRawBytes_enc_append next hnext.1 hnext.2]
    simp only [DM.pure_bind]
    unfold sliceFrom
    rw [if_pos (by simp [length_encodeSlabID, SlabIDLength])]
    simp only [DM.pure_bind]
    rw [List.drop_left' (by simp [length_encodeSlabID, SlabIDLength])]
    simp only [Nat.add_assoc]

/-- `DecodeSlab` on the encoding of an array data slab that holds inlined children, followed by
    `extra` bytes, is the content part run on the element array; no nesting hypothesis -/
theorem decodeSlab_encodeArrData_red' (a : ArrData) (hxok : XOKC (encSts a.elems []).2) (hinl : (encSts a.elems []).2 ≠ [])
    (h256 : (encSts a.elems []).2.length ≤ 256) (hnext : validNext a.next) (hty : ∀ t, a.ty = some t → validTy t)
    (extra : Bytes) (n : Nat) :
    decodeSlab a.id (encodeArrData a ++ extra) n =
      arrDataContentG a.id a.ty.isSome a.ty a.next true (encSts a.elems []).2
        (arrayHead16 a.elems.length ++ ((encSts a.elems []).1 ++ extra)) (n + iedAllocsC (encSts a.elems []).2) := by
  obtain ⟨id, next, ty, elems⟩ := a
  simp only at hxok hinl h256 hnext hty
  have hne : (encSts elems []).2.isEmpty = false := by
    cases hxs : (encSts elems []).2 with
    | nil => exact absurd hxs hinl
    | cons a b => rfl
  have hf := head_adata_facts (decide (next ≠ SlabID.undef)) true (anyPtrSts elems) ty.isSome
  simp only at hf
  obtain ⟨hf1, hf2, hf3, hf4, _, _, hf7, hf8⟩ := hf
  have hgen := arrDataV1AfterExtraG_red id _ ty next elems hf4 hf7 hf8 hxok hinl h256 hnext extra n
  unfold encodeArrData
  simp only [hne, Bool.not_false, List.cons_append, List.nil_append, List.append_assoc, encodeIEDSection,
    Bool.false_eq_true, ↓reduceIte]
  cases ty with
  | none =>
    have hr4 : _ = false := hf4
    simp only [List.nil_append]
    have hflat := decodeSlabFlat_adata_inlined id _ _
      (encodeIED (encSts elems []).2 ++ ((if decide (next ≠ SlabID.undef) = true then encodeSlabID next else []) ++
        (arrayHead16 elems.length ++ ((encSts elems []).1 ++ extra)))) n hf1 hf2 hf3 hf7
      (by intro hr; rw [hr4] at hr; cases hr)
    rw [decodeSlab_of_flat_unsupported hflat, decodeSlabGen_cons2, hf1]
    simp only [hf2]
    rw [newArrayDataSlabFromDataG_cons2, hf2, hf3]
    simp only [ne_eq, not_true_eq_false, ↓reduceIte, show ¬ ((1 : Nat) = 0) by decide]
    unfold newArrayDataSlabFromDataV1G
    rw [hr4]
    simp only [Bool.false_eq_true, ↓reduceIte]
    exact hgen
  | some t =>
    have hr4 : _ = true := hf4
    have hflat := decodeSlabFlat_adata_inlined id _ _
      (encodeExtraData t ++ (encodeIED (encSts elems []).2 ++
        ((if decide (next ≠ SlabID.undef) = true then encodeSlabID next else []) ++
        (arrayHead16 elems.length ++ ((encSts elems []).1 ++ extra))))) n hf1 hf2 hf3 hf7
      (by intro _; exact ⟨t, _, newArrayExtraDataFromData_enc t (hty t rfl) _⟩)
    rw [decodeSlab_of_flat_unsupported hflat, decodeSlabGen_cons2, hf1]
    simp only [hf2]
    rw [newArrayDataSlabFromDataG_cons2, hf2, hf3]
    simp only [ne_eq, not_true_eq_false, ↓reduceIte, show ¬ ((1 : Nat) = 0) by decide]
    unfold newArrayDataSlabFromDataV1G
    rw [hr4]
    simp only [↓reduceIte]
    rw [newArrayExtraDataFromData_enc t (hty t rfl)]
    simp only [DM.pure_bind]
    exact hgen

theorem decodeSlab_encodeArrData_red (a : ArrData) (hrt : rtiSts a.elems) (hinl : (encSts a.elems []).2 ≠ [])
    (h256 : (encSts a.elems []).2.length ≤ 256) (hnext : validNext a.next) (hty : ∀ t, a.ty = some t → validTy t)
    (extra : Bytes) (n : Nat) :
    decodeSlab a.id (encodeArrData a ++ extra) n =
      arrDataContentG a.id a.ty.isSome a.ty a.next true (encSts a.elems []).2
        (arrayHead16 a.elems.length ++ ((encSts a.elems []).1 ++ extra)) (n + iedAllocsC (encSts a.elems []).2) :=
  decodeSlab_encodeArrData_red' a (encSts_stateC a.elems [] hrt XOKC.nil).2 hinl h256 hnext hty extra n

/-- `DecodeSlab` on the encoding of an array data slab that holds inlined arrays / maps (any depth,
    the compact form included) whose validator depth is within the limit, followed by `extra` bytes -/
theorem decodeSlab_encodeArrDataX (a : ArrData) (ok : ArrDataOKX a) (extra : Bytes) (n : Nat) :
    decodeSlab a.id (encodeArrData a ++ extra) n =
      if extra ≠ [] then
        .error .decoding (n + iedAllocsC (encSts a.elems []).2 + a.elems.length + allocsISts (normSts a.elems []))
      else .ok (.adata { a with elems := normSts a.elems [] })
        (n + iedAllocsC (encSts a.elems []).2 + a.elems.length + allocsISts (normSts a.elems [])) := by
  have hvd : vdSts a.elems + 1 ≤ maxNestedLevels := (vdepth_adata_le_iff a (by decide)).1 ok.nest
  have hw := wfNext_of_exX (exX_arrElements a.elems ok.rt ok.nodup ok.count) hvd extra
  rw [List.append_assoc] at hw
  have hdn : dneedSts a.elems ≤ maxDecodeDepth := by
    have := dneedSts_le_vd a.elems
    simp only [maxDecodeDepth, maxNestedLevels] at hvd ⊢; omega
  rw [decodeSlab_encodeArrData_red a ok.rt ok.inlined ok.entries ok.next ok.ty extra n,
    arrDataContentG_encX a.id a.ty.isSome a.ty a.next a.elems ok.rt ok.nodup extra hw hdn ok.count ok.entries
      (by have := ok.size; simpa [ArrData.size] using this)]

/-- … and one level above the limit the register does NOT decode -/
theorem decodeSlab_encodeArrData_tooDeep (a : ArrData) (pre : ArrDataPre a)
    (h : maxNestedLevels < (Slab.adata a).vdepth) (extra : Bytes) (n : Nat) :
    decodeSlab a.id (encodeArrData a ++ extra) n = .error .decoding (n + iedAllocsC (encSts a.elems []).2) := by
  have hvd : maxNestedLevels < vdSts a.elems + 1 := by
    have := (vdepth_adata_le_iff a (L := maxNestedLevels) (by decide)).2
    by_cases hc : vdSts a.elems + 1 ≤ maxNestedLevels
    · have := this hc; omega
    · omega
  have hw := wfNext_none_of_exX (exX_arrElements a.elems pre.rt pre.nodup pre.count) hvd extra
  rw [List.append_assoc] at hw
  rw [decodeSlab_encodeArrData_red a pre.rt pre.inlined pre.entries pre.next pre.ty extra n,
    arrDataContentG_rej _ _ _ _ _ _ _ (by simp [arrayDataSlabElementHeadSize, length_arrayHead16]) hw]

/-! ### re-encoding -/

theorem encodeMapData_normX (s : MapData) (pre : MapDataPre s) :
    encodeMapData { s with els := normMEls s.els [] } = encodeMapData s := by
  unfold encodeMapData
  simp only [encMEls_norm s.els [] pre.rt pre.nodup XOKC.nil, hasPtr_normMEls s.els [] pre.nodup]

theorem encodeArrData_normX (a : ArrData) (pre : ArrDataPre a) :
    encodeArrData { a with elems := normSts a.elems [] } = encodeArrData a := by
  unfold encodeArrData
  simp only [encSts_norm a.elems [] pre.rt pre.nodup XOKC.nil, anyPtrSts_norm a.elems [] pre.nodup, length_normSts]

/-! ### without the compact form: `noCompact` implies `nodupKeys`, so the older `…OKI` hypotheses are covered too -/

-- (`Stor.nodupKeys_of_noCompact` and its mutual block: AtreeProofs/Codec/Hoisted.lean)

theorem MapDataOKI.toX {s : MapData} (ok : MapDataOKI s) : MapDataOKX s :=
  ⟨ok.rt, MEls.nodupKeys_of_noCompact s.els ok.noCompact,
   (vdepth_mdata_le_iff s (by decide)).2 (Nat.le_trans (MEls.vd_le_vneedI s.els) ok.nest),
   ok.entries, ok.next, ok.extra, ok.size⟩

theorem ArrDataOKI.toX {a : ArrData} (ok : ArrDataOKI a) : ArrDataOKX a :=
  ⟨ok.rt, nodupKeysSts_of_noCompact a.elems ok.noCompact,
   (vdepth_adata_le_iff a (by decide)).2 (by have := vdSts_le_vneedI a.elems; have := ok.nest; omega),
   ok.count, ok.inlined, ok.entries, ok.next, ok.ty, ok.size⟩

end Atree.Codec
