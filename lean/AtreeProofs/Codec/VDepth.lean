import AtreeProofs.Codec.CmpAccept
import AtreeModel.Codec.Limits
/-
  EXACT acceptance by the CBOR validator (`wfRun`): `ExX b need` says that the byte string `b` is one
  well-formed data item and that, started at an item frame `f` (an array position or directly after a
  tag number) whose depth is within the limit,

    * it is ACCEPTED when `frameDepth f + need (frameInTag f) ≤ maxNestedLevels`, and
    * it is REJECTED (`wfRun … = none`) when `frameDepth f + need (frameInTag f) > maxNestedLevels`.

  `need true` is the number of levels needed when the item directly follows a tag number (only then
  does a further tag number cost a level), `need false` when it is an array element or a top-level
  item.  This refines `Acc` (Accept.lean), whose bound `k` is context-free and one-sided.
-/
namespace Atree.Codec
open Atree Atree.Gen

/-- exact acceptance at every item frame -/
structure ExX (b : Bytes) (need : Bool → Nat) : Prop where
  acc : ∀ (f : Frame), ItemFrame f → ∀ (stk : List Frame) (rest : Bytes) (fuel : Nat),
    frameDepth f + need (frameInTag f) ≤ maxNestedLevels → (b ++ rest).length ≤ fuel →
    ∃ fuel', rest.length ≤ fuel' ∧ wfRun fuel (f :: stk) (b ++ rest) = wfRun fuel' (afterItem f stk) rest
  rej : ∀ (f : Frame), ItemFrame f → ∀ (stk : List Frame) (rest : Bytes) (fuel : Nat),
    frameDepth f ≤ maxNestedLevels → maxNestedLevels < frameDepth f + need (frameInTag f) →
    (b ++ rest).length ≤ fuel → wfRun fuel (f :: stk) (b ++ rest) = none

/-- exact acceptance as an element of a definite-length array (or as a top-level item) -/
structure ExF (b : Bytes) (n : Nat) : Prop where
  acc : ∀ (m d : Nat) (stk : List Frame) (rest : Bytes) (fuel : Nat),
    d + n ≤ maxNestedLevels → (b ++ rest).length ≤ fuel →
    ∃ fuel', rest.length ≤ fuel' ∧ wfRun fuel (.items m d :: stk) (b ++ rest) = wfRun fuel' (popItem m d stk) rest
  rej : ∀ (m d : Nat) (stk : List Frame) (rest : Bytes) (fuel : Nat),
    d ≤ maxNestedLevels → maxNestedLevels < d + n →
    (b ++ rest).length ≤ fuel → wfRun fuel (.items m d :: stk) (b ++ rest) = none

theorem ExX.toF {b : Bytes} {need : Bool → Nat} (h : ExX b need) : ExF b (need false) :=
  ⟨fun m d stk rest fuel hd hl => h.acc (.items m d) (.items m d) stk rest fuel hd hl,
   fun m d stk rest fuel hd hlt hl => h.rej (.items m d) (.items m d) stk rest fuel hd hlt hl⟩

theorem ExX.cast {b b' : Bytes} {n n' : Bool → Nat} (h : ExX b n) (hb : b = b') (hn : ∀ t, n t = n' t) :
    ExX b' n' := by
  have : n = n' := funext hn
  subst hb; subst this; exact h

theorem ExF.cast {b b' : Bytes} {n n' : Nat} (h : ExF b n) (hb : b = b') (hn : n = n') : ExF b' n' := by
  subst hb; subst hn; exact h

/-- the one-sided, context-free statement follows -/
theorem ExX.toAcc {b : Bytes} {need : Bool → Nat} (h : ExX b need) {k : Nat} (hk : ∀ t, need t ≤ k) : Acc b k := by
  intro f hf stk rest fuel hd hl
  exact h.acc f hf stk rest fuel (by have := hk (frameInTag f); omega) hl

/-- an item that needs no further level (integers, byte strings) -/
theorem ExX.ofAcc0 {b : Bytes} (h : Acc b 0) : ExX b (fun _ => 0) :=
  ⟨fun f hf stk rest fuel hd hl => h f hf stk rest fuel hd hl,
   fun f _ stk rest fuel hd hlt _ => by simp only [Nat.add_zero] at hlt; omega⟩

/-- a one-byte tag number in front of an item: it costs a level exactly when it follows a tag number -/
theorem ExX.tag8 {b : Bytes} {need : Bool → Nat} (t : Nat) (h : ExX b need) :
    ExX (0xd8 :: t :: b) (fun i => (if i then 1 else 0) + need true) := by
  constructor
  · intro f hf stk rest fuel hd hl
    simp only [List.cons_append, List.length_cons] at hl ⊢
    obtain ⟨f2, rfl⟩ : ∃ f2, fuel = f2 + 1 := ⟨fuel - 1, by omega⟩
    rw [wfRun_item_step hf]
    cases hf with
    | items n d =>
      simp only [frameDepth, frameInTag, Bool.false_eq_true, ↓reduceIte, Nat.zero_add] at hd
      have hstep : wfItemStep d false (popItem n d stk) (0xd8 :: t :: (b ++ rest))
          = some (.tag d :: popItem n d stk, b ++ rest) := wfItemStep_tag8 _ _ _ _
      simp only [frameDepth, frameInTag, afterItem, hstep]
      obtain ⟨f3, hf3, h3⟩ := h.acc (.tag d) (.tag _) (popItem n d stk) rest f2
        (by simp only [frameDepth, frameInTag]; omega) (by omega)
      exact ⟨f3, hf3, by rw [h3]; rfl⟩
    | tag d =>
      simp only [frameDepth, frameInTag, ↓reduceIte] at hd
      have hstep : wfItemStep d true stk (0xd8 :: t :: (b ++ rest))
          = some (.tag (d + 1) :: stk, b ++ rest) := by
        unfold wfItemStep wfHead
        have : ¬ (d + 1 > maxNestedLevels) := by omega
        simp [this]
      simp only [frameDepth, frameInTag, afterItem, hstep]
      obtain ⟨f3, hf3, h3⟩ := h.acc (.tag (d + 1)) (.tag _) stk rest f2
        (by simp only [frameDepth, frameInTag]; omega) (by omega)
      exact ⟨f3, hf3, by rw [h3]; rfl⟩
  · intro f hf stk rest fuel hd hlt hl
    simp only [List.cons_append, List.length_cons] at hl ⊢
    obtain ⟨f2, rfl⟩ : ∃ f2, fuel = f2 + 1 := ⟨fuel - 1, by omega⟩
    rw [wfRun_item_step hf]
    cases hf with
    | items n d =>
      simp only [frameDepth, frameInTag, Bool.false_eq_true, ↓reduceIte, Nat.zero_add] at hd hlt
      have hstep : wfItemStep d false (popItem n d stk) (0xd8 :: t :: (b ++ rest))
          = some (.tag d :: popItem n d stk, b ++ rest) := wfItemStep_tag8 _ _ _ _
      simp only [frameDepth, frameInTag, afterItem, hstep]
      exact h.rej (.tag d) (.tag _) (popItem n d stk) rest f2 (by simp only [frameDepth]; omega)
        (by simp only [frameDepth, frameInTag]; omega) (by omega)
    | tag d =>
      simp only [frameDepth, frameInTag, ↓reduceIte] at hd hlt
      by_cases hdd : d + 1 > maxNestedLevels
      · have hstep : wfItemStep d true stk (0xd8 :: t :: (b ++ rest)) = none := by
          unfold wfItemStep wfHead
          simp [hdd]
        simp only [frameDepth, frameInTag, afterItem, hstep]
      · have hstep : wfItemStep d true stk (0xd8 :: t :: (b ++ rest))
            = some (.tag (d + 1) :: stk, b ++ rest) := by
          unfold wfItemStep wfHead
          simp [hdd]
        simp only [frameDepth, frameInTag, afterItem, hstep]
        exact h.rej (.tag (d + 1)) (.tag _) stk rest f2 (by simp only [frameDepth]; omega)
          (by simp only [frameDepth, frameInTag]; omega) (by omega)

/-! ### sequences of items with their exact needs -/

/-- `N` is the largest need in the list (0 for the empty list) -/
def IsMax (l : List (Bytes × Nat)) (N : Nat) : Prop :=
  (∀ p ∈ l, p.2 ≤ N) ∧ (N = 0 ∨ ∃ p ∈ l, p.2 = N)

theorem IsMax.nil : IsMax [] 0 := ⟨fun p hp => (by cases hp), Or.inl rfl⟩

theorem IsMax.cons {l : List (Bytes × Nat)} {N : Nat} (p : Bytes × Nat) (h : IsMax l N) :
    IsMax (p :: l) (max p.2 N) := by
  refine ⟨?_, ?_⟩
  · intro q hq
    rcases List.mem_cons.1 hq with rfl | hq
    · exact Nat.le_max_left _ _
    · exact Nat.le_trans (h.1 q hq) (Nat.le_max_right _ _)
  · by_cases hp : N ≤ p.2
    · exact Or.inr ⟨p, List.mem_cons_self .., by rw [Nat.max_eq_left hp]⟩
    · have hN : max p.2 N = N := Nat.max_eq_right (by omega)
      rcases h.2 with h0 | ⟨q, hq, hqN⟩
      · omega
      · exact Or.inr ⟨q, List.mem_cons_of_mem _ hq, by rw [hN]; exact hqN⟩

theorem wfRun_exList_acc : ∀ (l : List (Bytes × Nat)), (∀ p ∈ l, ExF p.1 p.2) →
    ∀ (d : Nat) (stk : List Frame) (rest : Bytes) (fuel : Nat), (∀ p ∈ l, d + p.2 ≤ maxNestedLevels) →
    ((l.map Prod.fst).flatten ++ rest).length ≤ fuel →
    ∃ fuel', rest.length ≤ fuel' ∧
      wfRun fuel (pushItems l.length d stk) ((l.map Prod.fst).flatten ++ rest) = wfRun fuel' stk rest := by
  intro l
  induction l with
  | nil => intro _ d stk rest fuel _ hl; exact ⟨fuel, by simpa using hl, rfl⟩
  | cons p ps ih =>
    intro hex d stk rest fuel hd hl
    simp only [List.map_cons, List.flatten_cons, List.append_assoc, List.length_cons, pushItems] at hl ⊢
    obtain ⟨f1, hf1, h1⟩ := (hex p (List.mem_cons_self ..)).acc ps.length d stk
      ((ps.map Prod.fst).flatten ++ rest) fuel (hd p (List.mem_cons_self ..)) hl
    obtain ⟨f2, hf2, h2⟩ := ih (fun x hx => hex x (List.mem_cons_of_mem _ hx)) d stk rest f1
      (fun x hx => hd x (List.mem_cons_of_mem _ hx)) hf1
    refine ⟨f2, hf2, ?_⟩
    rw [h1, popItem_eq_pushItems, h2]

theorem wfRun_exList_rej : ∀ (l : List (Bytes × Nat)), (∀ p ∈ l, ExF p.1 p.2) →
    ∀ (d : Nat) (stk : List Frame) (rest : Bytes) (fuel : Nat), d ≤ maxNestedLevels →
    (∃ p ∈ l, maxNestedLevels < d + p.2) → ((l.map Prod.fst).flatten ++ rest).length ≤ fuel →
    wfRun fuel (pushItems l.length d stk) ((l.map Prod.fst).flatten ++ rest) = none := by
  intro l
  induction l with
  | nil => intro _ d stk rest fuel _ hex; obtain ⟨p, hp, _⟩ := hex; cases hp
  | cons p ps ih =>
    intro hex d stk rest fuel hd hbad hl
    simp only [List.map_cons, List.flatten_cons, List.append_assoc, List.length_cons, pushItems] at hl ⊢
    by_cases hp : maxNestedLevels < d + p.2
    · exact (hex p (List.mem_cons_self ..)).rej ps.length d stk ((ps.map Prod.fst).flatten ++ rest) fuel hd hp hl
    · obtain ⟨f1, hf1, h1⟩ := (hex p (List.mem_cons_self ..)).acc ps.length d stk
        ((ps.map Prod.fst).flatten ++ rest) fuel (by omega) hl
      have hbad' : ∃ q ∈ ps, maxNestedLevels < d + q.2 := by
        obtain ⟨q, hq, hqb⟩ := hbad
        rcases List.mem_cons.1 hq with rfl | hq
        · exact absurd hqb hp
        · exact ⟨q, hq, hqb⟩
      rw [h1, popItem_eq_pushItems]
      exact ih (fun x hx => hex x (List.mem_cons_of_mem _ hx)) d stk rest f1 hd hbad' hf1

/-- a definite-length array whose head is `hb`: one level more than its deepest element -/
theorem ExX.ofArrayHead {hb : Bytes} {h : Head} {l : List (Bytes × Nat)} {N : Nat} (hne : hb ≠ [])
    (hw : ∀ rest, wfHead (hb ++ rest) = some (h, rest)) (ht : h.t = 4) (hai : h.ai ≠ 31)
    (hv : h.val = l.length) (hmax : l.length ≤ maxArrayElements) (hl : ∀ p ∈ l, ExF p.1 p.2) (hN : IsMax l N) :
    ExX (hb ++ (l.map Prod.fst).flatten) (fun _ => N + 1) := by
  have hstep : ∀ (f : Frame) (stk : List Frame) (rest : Bytes), ¬ (frameDepth f + 1 > maxNestedLevels) →
      wfItemStep (frameDepth f) (frameInTag f) (afterItem f stk) (hb ++ ((l.map Prod.fst).flatten ++ rest))
        = some (pushItems l.length (frameDepth f + 1) (afterItem f stk), (l.map Prod.fst).flatten ++ rest) := by
    intro f stk rest h1
    unfold wfItemStep
    rw [hw ((l.map Prod.fst).flatten ++ rest)]
    have h2 : ¬ h.val ≥ 2 ^ 63 := by rw [hv]; unfold maxArrayElements at hmax; omega
    have h3 : ¬ h.val > maxArrayElements := by rw [hv]; omega
    simp only [ht, show ¬ ((4 : Nat) = 2 ∨ (4 : Nat) = 3) by decide, ↓reduceIte, true_or, h1, hai, h2, h3]
    rw [hv]
  constructor
  · intro f hf stk rest fuel hd hlen
    rw [List.append_assoc] at hlen ⊢
    cases hdd : hb ++ ((l.map Prod.fst).flatten ++ rest) with
    | nil => cases hb with
      | nil => exact absurd rfl hne
      | cons x xs => simp at hdd
    | cons x tl =>
      have hlen' : (x :: tl).length ≤ fuel := by rw [← hdd]; exact hlen
      obtain ⟨f1, rfl⟩ : ∃ f1, fuel = f1 + 1 := ⟨fuel - 1, by simp at hlen'; omega⟩
      have hl2 := wfHead_length (hw ((l.map Prod.fst).flatten ++ rest))
      rw [wfRun_item_step hf, ← hdd, hstep f stk rest (by omega)]
      exact wfRun_exList_acc l hl (frameDepth f + 1) (afterItem f stk) rest f1
        (fun p hp => by have := hN.1 p hp; omega)
        (by rw [hdd] at hl2; simp only [List.length_cons, List.length_append] at hlen' hl2 ⊢; omega)
  · intro f hf stk rest fuel hd hlt hlen
    rw [List.append_assoc] at hlen ⊢
    cases hdd : hb ++ ((l.map Prod.fst).flatten ++ rest) with
    | nil => cases hb with
      | nil => exact absurd rfl hne
      | cons x xs => simp at hdd
    | cons x tl =>
      have hlen' : (x :: tl).length ≤ fuel := by rw [← hdd]; exact hlen
      obtain ⟨f1, rfl⟩ : ∃ f1, fuel = f1 + 1 := ⟨fuel - 1, by simp at hlen'; omega⟩
      have hl2 := wfHead_length (hw ((l.map Prod.fst).flatten ++ rest))
      rw [wfRun_item_step hf, ← hdd]
      by_cases h1 : frameDepth f + 1 > maxNestedLevels
      · have : wfItemStep (frameDepth f) (frameInTag f) (afterItem f stk) (hb ++ ((l.map Prod.fst).flatten ++ rest))
            = none := by
          unfold wfItemStep
          rw [hw ((l.map Prod.fst).flatten ++ rest)]
          simp only [ht, show ¬ ((4 : Nat) = 2 ∨ (4 : Nat) = 3) by decide, ↓reduceIte, true_or, h1]
        rw [this]
      · rw [hstep f stk rest h1]
        have hbad : ∃ p ∈ l, maxNestedLevels < frameDepth f + 1 + p.2 := by
          rcases hN.2 with h0 | ⟨p, hp, hpN⟩
          · omega
          · exact ⟨p, hp, by omega⟩
        exact wfRun_exList_rej l hl (frameDepth f + 1) (afterItem f stk) rest f1 (by omega) hbad
          (by rw [hdd] at hl2; simp only [List.length_cons, List.length_append] at hlen' hl2 ⊢; omega)

theorem ExX.array {l : List (Bytes × Nat)} {N : Nat} (hmax : l.length ≤ maxArrayElements)
    (hl : ∀ p ∈ l, ExF p.1 p.2) (hN : IsMax l N) :
    ExX (head 4 l.length ++ (l.map Prod.fst).flatten) (fun _ => N + 1) :=
  ExX.ofArrayHead (by unfold head; repeat' split
                      all_goals simp)
    (fun rest => wfHead_head (by omega) (by unfold maxArrayElements at hmax; omega) rest) rfl (aiOf_ne_31 _) rfl hmax hl hN

theorem ExX.array16 {l : List (Bytes × Nat)} {N : Nat} (hn : l.length < 65536)
    (hl : ∀ p ∈ l, ExF p.1 p.2) (hN : IsMax l N) :
    ExX (arrayHead16 l.length ++ (l.map Prod.fst).flatten) (fun _ => N + 1) :=
  ExX.ofArrayHead (by simp [arrayHead16]) (fun rest => wfHead_arrayHead16 hn rest) rfl (by simp) rfl
    (by unfold maxArrayElements; omega) hl hN

/-- from exact acceptance to the validation of the next top-level item: accepted … -/
theorem wfNext_of_exX {b : Bytes} {need : Bool → Nat} (h : ExX b need) (hk : need false ≤ maxNestedLevels)
    (rest : Bytes) : wfNext (b ++ rest) = some rest := by
  unfold wfNext
  obtain ⟨f', _, h'⟩ := h.acc (.items 0 0) (.items 0 0) [] rest (b ++ rest).length
    (by simpa [frameDepth, frameInTag] using hk) (Nat.le_refl _)
  rw [h']
  simp only [afterItem, popItem]
  exact wfRun_nil _ _

/-- … or rejected, exactly according to `need false` -/
theorem wfNext_none_of_exX {b : Bytes} {need : Bool → Nat} (h : ExX b need) (hk : maxNestedLevels < need false)
    (rest : Bytes) : wfNext (b ++ rest) = none := by
  unfold wfNext
  exact h.rej (.items 0 0) (.items 0 0) [] rest (b ++ rest).length (by simp [frameDepth])
    (by simpa [frameDepth, frameInTag] using hk) (Nat.le_refl _)

theorem wfNext_exX_iff {b : Bytes} {need : Bool → Nat} (h : ExX b need) (rest : Bytes) :
    wfNext (b ++ rest) = some rest ↔ need false ≤ maxNestedLevels := by
  constructor
  · intro hw
    by_cases hk : need false ≤ maxNestedLevels
    · exact hk
    · rw [wfNext_none_of_exX h (by omega) rest] at hw; cases hw
  · intro hk; exact wfNext_of_exX h hk rest

/-! ### fixed shapes -/

/-- a three-element array `[a, b, body]` whose first two elements are leaves -/
theorem exX_triple {a b body : Bytes} {k : Nat} (ha : Acc a 0) (hb : Acc b 0) (hbody : ExF body k) :
    ExX (0x83 :: (a ++ (b ++ body))) (fun _ => k + 1) := by
  have hl : ∀ p ∈ [(a, 0), (b, 0), (body, k)], ExF p.1 p.2 := by
    intro p hp
    simp only [List.mem_cons, List.not_mem_nil, or_false] at hp
    rcases hp with rfl | rfl | rfl
    · exact (ExX.ofAcc0 ha).toF
    · exact (ExX.ofAcc0 hb).toF
    · exact hbody
  have hN : IsMax [(a, 0), (b, 0), (body, k)] k := by
    refine ⟨?_, Or.inr ⟨(body, k), by simp, rfl⟩⟩
    intro p hp
    simp only [List.mem_cons, List.not_mem_nil, or_false] at hp
    rcases hp with rfl | rfl | rfl <;> simp
  have := ExX.array (l := [(a, 0), (b, 0), (body, k)]) (by simp [maxArrayElements]) hl hN
  exact this.cast (by simp [head]) (fun _ => rfl)

/-- the tag content of an inlined slab: `tag, [extra data index, slab index, body]` -/
theorem exX_inlined (tag i idx : Nat) {body : Bytes} {k : Nat} (hb : ExF body k) :
    ExX (inlinedHead tag i ++ encodeIdx idx ++ body) (fun t => (if t then 1 else 0) + (k + 1)) := by
  have h3 := exX_triple (Acc.uint8Fixed (i := i % 256) (Nat.mod_lt _ (by omega))) (acc_encodeIdx idx) hb
  have h4 := ExX.tag8 tag h3
  exact h4.cast (by simp [inlinedHead]) (fun _ => rfl)

/-- a pair `[a, b]` -/
theorem exX_pair {a b : Bytes} {ka kb : Nat} (ha : ExF a ka) (hb : ExF b kb) :
    ExX (0x82 :: (a ++ b)) (fun _ => max ka kb + 1) := by
  have hl : ∀ p ∈ [(a, ka), (b, kb)], ExF p.1 p.2 := by
    intro p hp
    simp only [List.mem_cons, List.not_mem_nil, or_false] at hp
    rcases hp with rfl | rfl
    · exact ha
    · exact hb
  have hN : IsMax [(a, ka), (b, kb)] (max ka kb) := by
    have := (IsMax.nil.cons (b, kb)).cons (a, ka)
    simpa using this
  have := ExX.array (l := [(a, ka), (b, kb)]) (by simp [maxArrayElements]) hl hN
  exact this.cast (by simp [head]) (fun _ => rfl)

end Atree.Codec
