import AtreeProofs.Codec.Budget
/-
  A Hoare logic over the accounting invariant `Pre`: `TrD B T proj m d stk c stk'` says that the
  decoder computation `m`, started with the stream decoder `d` in a state `Pre B d stk · c`,
  either fails with the allocation counter at most `B`, or succeeds with a stream decoder (`proj`
  of its result) in the state `Pre B · stk' · 0`.  The stacks are exact: `stk'` is the validator's
  stack after the items `m` consumes.
-/
namespace Atree.Codec
open DM Atree.Gen

/-- the outcome part: a postcondition on success, the budget on failure -/
def Out {β : Type} (B : Nat) (Q : β → Nat → Prop) : Res β → Prop
  | .ok b n' => Q b n'
  | .error _ n' => n' ≤ B
  | .panic => True

/-- the general triple, with an arbitrary postcondition on success -/
def TrG {β : Type} (B T : Nat) (Q : β → Nat → Prop) (m : DM β) (d : Dec) (stk : List Frame) (c : Nat) : Prop :=
  ∀ n, DecInv T d → Pre B d stk n c → Out B Q (m n)

def TrD {β : Type} (B T : Nat) (proj : β → Dec) (m : DM β) (d : Dec) (stk : List Frame) (c : Nat)
    (stk' : List Frame) : Prop :=
  TrG B T (fun b n' => DecInv T (proj b) ∧ Pre B (proj b) stk' n' 0) m d stk c

/-- `m` neither allocates nor touches a stream decoder that is still in use -/
def NoAlloc {α : Type} (m : DM α) : Prop :=
  ∀ n, match m n with
       | .ok _ n' => n' = n
       | .error _ n' => n' = n
       | .panic => True

namespace NoAlloc
variable {α β : Type}

theorem pure (a : α) : NoAlloc (Pure.pure a : DM α) := fun _ => rfl
theorem fail (e : DErr) : NoAlloc (DM.fail e : DM α) := fun _ => rfl
theorem panic : NoAlloc (DM.panic : DM α) := fun _ => trivial
theorem liftOpt (o : Option α) : NoAlloc (DM.liftOpt o) := by
  cases o with
  | none => exact fail _
  | some a => exact pure a

theorem bind {m : DM α} {f : α → DM β} (hm : NoAlloc m) (hf : ∀ a, NoAlloc (f a)) : NoAlloc (m >>= f) := by
  intro n
  have h1 := hm n
  show match DM.bind' m f n with
       | .ok _ n' => n' = n
       | .error _ n' => n' = n
       | .panic => True
  unfold DM.bind'
  cases hmn : m n with
  | ok a n' =>
    rw [hmn] at h1
    subst h1
    exact hf a n'
  | error e n' => rw [hmn] at h1; exact h1
  | panic => trivial

theorem ite {c : Prop} [Decidable c] {a b : DM α} (ha : NoAlloc a) (hb : NoAlloc b) :
    NoAlloc (if c then a else b) := by
  split
  · exact ha
  · exact hb

theorem sliceTo (data : Bytes) (b : Nat) : NoAlloc (sliceTo data b) := by
  unfold Codec.sliceTo; exact ite (pure _) panic
theorem sliceFrom (data : Bytes) (a : Nat) : NoAlloc (sliceFrom data a) := by
  unfold Codec.sliceFrom; exact ite (pure _) panic
theorem be16 (b : Bytes) : NoAlloc (be16 b) := by
  unfold Codec.be16; exact ite (pure _) panic
theorem be32 (b : Bytes) : NoAlloc (be32 b) := by
  unfold Codec.be32; exact ite (pure _) panic
theorem be64 (b : Bytes) : NoAlloc (be64 b) := by
  unfold Codec.be64; exact ite (pure _) panic

end NoAlloc

namespace TrG
variable {β β1 β2 : Type} {B T : Nat}

theorem fail {Q : β → Nat → Prop} {e : DErr} {d : Dec} {stk : List Frame} {c : Nat} :
    TrG B T Q (DM.fail e : DM β) d stk c := by
  intro n _ h
  exact h.le

theorem weaken {Q : β → Nat → Prop} {m : DM β} {d : Dec} {stk : List Frame} {c c' : Nat}
    (h : TrG B T Q m d stk c) (hc : c ≤ c') : TrG B T Q m d stk c' := by
  intro n hi hp
  exact h n hi (hp.weaken hc)

/-- sequencing after a stream-decoder computation -/
theorem bind {p1 : β1 → Dec} {Q : β2 → Nat → Prop} {m : DM β1} {f : β1 → DM β2} {d : Dec} {stk s1 : List Frame} {c : Nat}
    (hm : TrD B T p1 m d stk c s1) (hf : ∀ b, TrG B T Q (f b) (p1 b) s1 0) :
    TrG B T Q (m >>= f) d stk c := by
  intro n hi hp
  have h1 := hm n hi hp
  show Out B Q (DM.bind' m f n)
  unfold DM.bind'
  cases hmn : m n with
  | ok a n' =>
    rw [hmn] at h1
    exact hf a n' h1.1 h1.2
  | error e n' => rw [hmn] at h1; exact h1
  | panic => trivial

theorem ite {Q : β → Nat → Prop} {c0 : Prop} [Decidable c0] {a b : DM β} {d : Dec} {stk : List Frame} {c : Nat}
    (ha : c0 → TrG B T Q a d stk c) (hb : ¬ c0 → TrG B T Q b d stk c) :
    TrG B T Q (if c0 then a else b) d stk c := by
  split
  · exact ha ‹_›
  · exact hb ‹_›

theorem alloc {Q : β → Nat → Prop} {f : Unit → DM β} {d : Dec} {stk : List Frame} {c k : Nat} (hk : k ≤ c)
    (hf : TrG B T Q (f ()) d stk (c - k)) : TrG B T Q (DM.alloc k >>= f) d stk c := by
  intro n hi hp
  rw [DM.alloc_bind]
  exact hf (n + k) hi (hp.alloc hk)

theorem noalloc {α : Type} {Q : β → Nat → Prop} {m : DM α} {f : α → DM β} {d : Dec} {stk : List Frame} {c : Nat}
    (hm : NoAlloc m) (hf : ∀ a, TrG B T Q (f a) d stk c) : TrG B T Q (m >>= f) d stk c := by
  intro n hi hp
  have h1 := hm n
  show Out B Q (DM.bind' m f n)
  unfold DM.bind'
  cases hmn : m n with
  | ok a n' =>
    rw [hmn] at h1
    subst h1
    exact hf a n' hi hp
  | error e n' => rw [hmn] at h1; subst h1; exact hp.le
  | panic => trivial

/-- a head of major type 0 / 4 / 6 -/
theorem head {Q : β → Nat → Prop} {major : Nat} (hm : major = 0 ∨ major = 4 ∨ major = 6) {f : Nat × Dec → DM β}
    {d : Dec} {stk : List Frame} {c : Nat}
    (hf : ∀ v d', TrG B T Q (f (v, d')) d' (headStk major v stk) (c + (if major = 4 then 2 * v else 0))) :
    TrG B T Q (DM.liftOpt (d.decodeHeadOf major) >>= f) d stk c := by
  intro n hi hp
  cases hop : d.decodeHeadOf major with
  | none => exact hp.le
  | some r =>
    obtain ⟨v, d'⟩ := r
    simp only [DM.liftOpt_some, DM.pure_bind]
    exact hf v d' n (decodeHeadOf_inv hi hop) (hp.decodeHeadOf hm hop).1

theorem uint64 {Q : β → Nat → Prop} {f : Nat × Dec → DM β} {d : Dec} {stk : List Frame} {c : Nat}
    (hf : ∀ v d', TrG B T Q (f (v, d')) d' (next1 stk) c) :
    TrG B T Q (DM.liftOpt d.decodeUint64 >>= f) d stk c := by
  refine head (major := 0) (Or.inl rfl) ?_
  intro v d'
  simpa [headStk] using hf v d'

theorem arrayHead {Q : β → Nat → Prop} {f : Nat × Dec → DM β} {d : Dec} {stk : List Frame} {c : Nat}
    (hf : ∀ v d', TrG B T Q (f (v, d')) d' (pushItems v (topDepth stk + 1) (next1 stk)) (c + 2 * v)) :
    TrG B T Q (DM.liftOpt d.decodeArrayHead >>= f) d stk c := by
  refine head (major := 4) (Or.inr (Or.inl rfl)) ?_
  intro v d'
  simpa [headStk] using hf v d'

theorem tagNumber {Q : β → Nat → Prop} {f : Nat × Dec → DM β} {d : Dec} {stk : List Frame} {c : Nat}
    (hf : ∀ v d', TrG B T Q (f (v, d')) d'
      (.tag (if topInTag stk then topDepth stk + 1 else topDepth stk) :: next1 stk) c) :
    TrG B T Q (DM.liftOpt d.decodeTagNumber >>= f) d stk c := by
  refine head (major := 6) (Or.inr (Or.inr rfl)) ?_
  intro v d'
  simpa [headStk] using hf v d'

theorem bytes {Q : β → Nat → Prop} {f : Bytes × Dec → DM β} {d : Dec} {stk : List Frame} {c : Nat}
    (hf : ∀ bs d', TrG B T Q (f (bs, d')) d' (next1 stk) (c + 2 * bs.length)) :
    TrG B T Q (DM.liftOpt d.decodeBytes >>= f) d stk c := by
  intro n hi hp
  cases hop : d.decodeBytes with
  | none => exact hp.le
  | some r =>
    obtain ⟨bs, d'⟩ := r
    simp only [DM.liftOpt_some, DM.pure_bind]
    exact hf bs d' n (decodeBytes_inv hi hop).1 (hp.decodeBytes hop).1

theorem rawBytes {Q : β → Nat → Prop} {f : Bytes × Dec → DM β} {d : Dec} {stk : List Frame} {c : Nat}
    (hf : ∀ raw d', TrG B T Q (f (raw, d')) d' (next1 stk) c) :
    TrG B T Q (DM.liftOpt d.decodeRawBytes >>= f) d stk c := by
  intro n hi hp
  cases hop : d.decodeRawBytes with
  | none => exact hp.le
  | some r =>
    obtain ⟨raw, d'⟩ := r
    simp only [DM.liftOpt_some, DM.pure_bind]
    exact hf raw d' n (decodeRawBytes_inv hi hop) (hp.decodeRawBytes hop).1

theorem nextType {Q : β → Nat → Prop} {f : CType × Dec → DM β} {d : Dec} {stk : List Frame} {c : Nat}
    (hf : ∀ t d', TrG B T Q (f (t, d')) d' (effStk stk) c) :
    TrG B T Q (DM.liftOpt d.nextType >>= f) d stk c := by
  intro n hi hp
  cases hop : d.nextType with
  | none => exact hp.le
  | some r =>
    obtain ⟨t, d'⟩ := r
    simp only [DM.liftOpt_some, DM.pure_bind]
    exact hf t d' n (nextType_inv hi hop) (hp.nextType hop).1

end TrG

namespace TrD
variable {β β1 β2 : Type} {B T : Nat}

theorem pure {proj : β → Dec} {b : β} {d : Dec} {stk : List Frame} {c : Nat} (hp : proj b = d) :
    TrD B T proj (Pure.pure b : DM β) d stk c stk := by
  intro n hi h
  show DecInv T (proj b) ∧ Pre B (proj b) stk n 0
  rw [hp]
  exact ⟨hi, h.weaken (Nat.zero_le _)⟩

theorem fail {proj : β → Dec} {e : DErr} {d : Dec} {stk stk' : List Frame} {c : Nat} :
    TrD B T proj (DM.fail e : DM β) d stk c stk' := TrG.fail

theorem weaken {proj : β → Dec} {m : DM β} {d : Dec} {stk stk' : List Frame} {c c' : Nat}
    (h : TrD B T proj m d stk c stk') (hc : c ≤ c') : TrD B T proj m d stk c' stk' := TrG.weaken h hc

theorem bind {p1 : β1 → Dec} {p2 : β2 → Dec} {m : DM β1} {f : β1 → DM β2} {d : Dec} {stk s1 s2 : List Frame} {c : Nat}
    (hm : TrD B T p1 m d stk c s1) (hf : ∀ b, TrD B T p2 (f b) (p1 b) s1 0 s2) :
    TrD B T p2 (m >>= f) d stk c s2 := TrG.bind hm hf

theorem ite {proj : β → Dec} {c0 : Prop} [Decidable c0] {a b : DM β} {d : Dec} {stk stk' : List Frame} {c : Nat}
    (ha : c0 → TrD B T proj a d stk c stk') (hb : ¬ c0 → TrD B T proj b d stk c stk') :
    TrD B T proj (if c0 then a else b) d stk c stk' := TrG.ite ha hb

theorem alloc {proj : β → Dec} {f : Unit → DM β} {d : Dec} {stk stk' : List Frame} {c k : Nat} (hk : k ≤ c)
    (hf : TrD B T proj (f ()) d stk (c - k) stk') : TrD B T proj (DM.alloc k >>= f) d stk c stk' :=
  TrG.alloc hk hf

theorem noalloc {α : Type} {proj : β → Dec} {m : DM α} {f : α → DM β} {d : Dec} {stk stk' : List Frame} {c : Nat}
    (hm : NoAlloc m) (hf : ∀ a, TrD B T proj (f a) d stk c stk') : TrD B T proj (m >>= f) d stk c stk' :=
  TrG.noalloc hm hf

theorem head {proj : β → Dec} {major : Nat} (hm : major = 0 ∨ major = 4 ∨ major = 6) {f : Nat × Dec → DM β}
    {d : Dec} {stk stk' : List Frame} {c : Nat}
    (hf : ∀ v d', TrD B T proj (f (v, d')) d' (headStk major v stk) (c + (if major = 4 then 2 * v else 0)) stk') :
    TrD B T proj (DM.liftOpt (d.decodeHeadOf major) >>= f) d stk c stk' := TrG.head hm hf

theorem uint64 {proj : β → Dec} {f : Nat × Dec → DM β} {d : Dec} {stk stk' : List Frame} {c : Nat}
    (hf : ∀ v d', TrD B T proj (f (v, d')) d' (next1 stk) c stk') :
    TrD B T proj (DM.liftOpt d.decodeUint64 >>= f) d stk c stk' := TrG.uint64 hf

theorem arrayHead {proj : β → Dec} {f : Nat × Dec → DM β} {d : Dec} {stk stk' : List Frame} {c : Nat}
    (hf : ∀ v d', TrD B T proj (f (v, d')) d' (pushItems v (topDepth stk + 1) (next1 stk)) (c + 2 * v) stk') :
    TrD B T proj (DM.liftOpt d.decodeArrayHead >>= f) d stk c stk' := TrG.arrayHead hf

theorem tagNumber {proj : β → Dec} {f : Nat × Dec → DM β} {d : Dec} {stk stk' : List Frame} {c : Nat}
    (hf : ∀ v d', TrD B T proj (f (v, d')) d'
      (.tag (if topInTag stk then topDepth stk + 1 else topDepth stk) :: next1 stk) c stk') :
    TrD B T proj (DM.liftOpt d.decodeTagNumber >>= f) d stk c stk' := TrG.tagNumber hf

theorem bytes {proj : β → Dec} {f : Bytes × Dec → DM β} {d : Dec} {stk stk' : List Frame} {c : Nat}
    (hf : ∀ bs d', TrD B T proj (f (bs, d')) d' (next1 stk) (c + 2 * bs.length) stk') :
    TrD B T proj (DM.liftOpt d.decodeBytes >>= f) d stk c stk' := TrG.bytes hf

theorem rawBytes {proj : β → Dec} {f : Bytes × Dec → DM β} {d : Dec} {stk stk' : List Frame} {c : Nat}
    (hf : ∀ raw d', TrD B T proj (f (raw, d')) d' (next1 stk) c stk') :
    TrD B T proj (DM.liftOpt d.decodeRawBytes >>= f) d stk c stk' := TrG.rawBytes hf

theorem nextType {proj : β → Dec} {f : CType × Dec → DM β} {d : Dec} {stk stk' : List Frame} {c : Nat}
    (hf : ∀ t d', TrD B T proj (f (t, d')) d' (effStk stk) c stk') :
    TrD B T proj (DM.liftOpt d.nextType >>= f) d stk c stk' := TrG.nextType hf

end TrD

theorem next1_pushItems_succ (k d : Nat) (s : List Frame) : next1 (pushItems (k + 1) d s) = pushItems k d s := by
  simp only [pushItems, next1, afterItem]
  exact popItem_eq_pushItems k d s

theorem next1_tag (e : Nat) (s : List Frame) : next1 (.tag e :: s) = s := rfl

end Atree.Codec
