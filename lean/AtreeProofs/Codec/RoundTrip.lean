import AtreeProofs.Codec.DecLemmas
/-
  Round trip at slab level: `DecodeSlab` run on the encoder's output (followed by arbitrary extra
  bytes) for data slabs, index slabs and large-value slabs, including the extra-data section and
  the head bytes.
-/
namespace Atree.Codec
open Atree Atree.Gen

/-- a type info the harness can produce: the number fits `uint64` -/
def validTy : TyInfo → Prop
  | .plain n => n < 2 ^ 64
  | .composite n => n < 2 ^ 64

theorem wfItemStep_uint {n : Nat} (hn : n < 2 ^ 64) (rest : Bytes) (d : Nat) (inTag : Bool)
    (stk : List Frame) : wfItemStep d inTag stk (head 0 n ++ rest) = some (stk, rest) := by
  unfold wfItemStep
  rw [wfHead_head (by omega) hn]
  simp

theorem wfRun_items_uint {n : Nat} (hn : n < 2 ^ 64) (rest : Bytes) (k d : Nat) (stk : List Frame)
    (fuel : Nat) :
    wfRun (fuel + 1) (.items k d :: stk) (head 0 n ++ rest) = wfRun fuel (popItem k d stk) rest := by
  cases hd : head 0 n ++ rest with
  | nil => exact absurd hd (head_ne_nil _ _ _)
  | cons b tl =>
    simp only [wfRun]
    rw [← hd, wfItemStep_uint hn]

theorem wfRun_tag_uint {n : Nat} (hn : n < 2 ^ 64) (rest : Bytes) (d : Nat) (stk : List Frame)
    (fuel : Nat) :
    wfRun (fuel + 1) (.tag d :: stk) (head 0 n ++ rest) = wfRun fuel stk rest := by
  cases hd : head 0 n ++ rest with
  | nil => exact absurd hd (head_ne_nil _ _ _)
  | cons b tl =>
    simp only [wfRun]
    rw [← hd, wfItemStep_uint hn]

theorem encodeExtraData_eq (ty : TyInfo) : encodeExtraData ty = 0x81 :: encodeTy ty := by
  simp [encodeExtraData, head, arrayExtraDataLength]

theorem head_tagCompositeTI : head 6 tagCompositeTI = [0xd8, 160] := by decide

theorem length_encodeTy_pos (ty : TyInfo) : 0 < (encodeTy ty).length := by
  cases ty <;> simp only [encodeTy, List.length_append, length_head] <;> unfold headLen <;> repeat' split
  all_goals omega

/-- the extra-data array is one well-formed item, whatever follows it -/
theorem wfNext_extraData (ty : TyInfo) (hv : validTy ty) (rest : Bytes) :
    wfNext (encodeExtraData ty ++ rest) = some rest := by
  rw [encodeExtraData_eq]
  unfold wfNext
  simp only [List.cons_append, List.length_cons, wfRun, popItem]
  have hstep : wfItemStep 0 false [] (0x81 :: (encodeTy ty ++ rest)) = some ([.items 0 1], encodeTy ty ++ rest) := by
    unfold wfItemStep wfHead
    simp [maxNestedLevels, maxArrayElements, pushItems]
  rw [hstep]
  simp only
  have hpos := length_encodeTy_pos ty
  cases ty with
  | plain n =>
    simp only [validTy] at hv
    simp only [encodeTy] at hpos ⊢
    obtain ⟨f, hf⟩ : ∃ f, (head 0 n ++ rest).length = f + 1 := ⟨(head 0 n ++ rest).length - 1, by
      simp only [List.length_append]; omega⟩
    rw [hf, wfRun_items_uint hv]
    simp [popItem, wfRun_nil]
  | composite n =>
    simp only [validTy] at hv
    simp only [encodeTy, head_tagCompositeTI] at hpos ⊢
    simp only [List.cons_append, List.nil_append, List.length_cons]
    rw [wfRun_items_tag8]
    obtain ⟨f, hf⟩ : ∃ f, (head 0 n ++ rest).length = f + 1 := ⟨(head 0 n ++ rest).length - 1, by
      have := head_ne_nil 0 n rest
      have : 0 < (head 0 n ++ rest).length := List.length_pos_iff.2 this
      omega⟩
    rw [hf, wfRun_tag_uint hv]
    simp [popItem, wfRun_nil]

theorem ctypeOf_uint {b : Nat} (h : b / 32 % 8 = 0) : ctypeOf b = .uint := by
  unfold ctypeOf; rw [h]; rfl

theorem length_encodeTy (ty : TyInfo) :
    (encodeTy ty).length = match ty with | .plain n => headLen n | .composite n => 2 + headLen n := by
  cases ty <;> simp [encodeTy, length_head, head_tagCompositeTI] <;> omega

/-- `decodeTypeInfo` inside the validated extra-data array -/
theorem decodeTypeInfo_enc (ty : TyInfo) (hv : validTy ty) (rest : Bytes) (c : Nat) :
    decodeTypeInfo { data := encodeTy ty ++ rest, remaining := (encodeTy ty).length, consumed := c }
      = pure (ty, { data := rest, remaining := 0, consumed := c + (encodeTy ty).length }) := by
  have hpos := length_encodeTy_pos ty
  have hlen := length_encodeTy ty
  unfold decodeTypeInfo
  cases ty with
  | plain n =>
    simp only [validTy] at hv
    simp only [encodeTy] at hpos hlen ⊢
    cases hd : head 0 n ++ rest with
    | nil => exact absurd hd (head_ne_nil _ _ _)
    | cons b tl =>
      have hb := first_byte_type (by omega) hv hd
      rw [nextType_pos (by simp only; omega) rfl]
      simp only [DM.liftOpt_some, DM.pure_bind, ctypeOf_uint hb, reduceCtorEq, ↓reduceIte]
      rw [← hd, decodeUint64_head hv _ _ _ (by omega)]
      simp only [DM.liftOpt_some, DM.pure_bind, hlen, Nat.sub_self]
  | composite n =>
    simp only [validTy] at hv
    simp only [encodeTy, head_tagCompositeTI, List.cons_append, List.nil_append] at hpos hlen ⊢
    rw [nextType_pos (by simp only; omega) rfl]
    simp only [DM.liftOpt_some, DM.pure_bind, ctypeOf_d8, ↓reduceIte]
    rw [decodeTagNumber_tag8 _ _ _ _ (by omega)]
    simp only [DM.liftOpt_some, DM.pure_bind, tagCompositeTI, ne_eq, not_true_eq_false, ↓reduceIte]
    rw [decodeUint64_head hv _ _ _ (by omega)]
    simp only [DM.liftOpt_some, DM.pure_bind]
    congr 3 <;> omega

/-- `newArrayExtraDataFromData` on an encoded extra-data section followed by `rest` -/
theorem newArrayExtraDataFromData_enc (ty : TyInfo) (hv : validTy ty) (rest : Bytes) :
    newArrayExtraDataFromData (encodeExtraData ty ++ rest) = pure (ty, rest) := by
  unfold newArrayExtraDataFromData newArrayExtraData
  have hhead : (Dec.new (encodeExtraData ty ++ rest)).decodeArrayHead
      = some (1, { data := encodeTy ty ++ rest, remaining := (encodeTy ty).length, consumed := 1 }) := by
    unfold Dec.decodeArrayHead Dec.decodeHeadOf Dec.prepareNext Dec.new
    simp only [Nat.lt_irrefl, ↓reduceIte, gt_iff_lt]
    rw [wfNext_extraData ty hv]
    simp only [encodeExtraData_eq, List.cons_append, wfHead]
    have hk : (encodeTy ty).length + rest.length + 1 - rest.length = (encodeTy ty).length + 1 := by
      omega
    have hpos := length_encodeTy_pos ty
    simp [Dec.advance, hk]
  rw [hhead]
  simp only [DM.liftOpt_some, DM.pure_bind, arrayExtraDataLength, ne_eq, not_true_eq_false, ↓reduceIte]
  rw [decodeTypeInfo_enc ty hv]
  simp only [DM.pure_bind, Dec.numBytesDecoded]
  unfold sliceFrom
  have hlen : 1 + (encodeTy ty).length ≤ (encodeExtraData ty ++ rest).length := by
    simp [encodeExtraData_eq]; omega
  rw [if_pos hlen]
  simp only [DM.pure_bind]
  have : (encodeExtraData ty ++ rest).drop (1 + (encodeTy ty).length) = rest := by
    apply List.drop_left'
    simp [encodeExtraData_eq]; omega
  rw [this]

/-! ### head bytes written by the encoders, as read by the decoders -/

theorem head_data_facts (hasNext ptr root : Bool) :
    let h : SlabHead := ⟨ArrayDataSlab_Encode_version * 16 ||| flagIf hasNext maskHasNextSlabID,
                         maskArrayData ||| flagIf ptr maskSlabHasPointers ||| flagIf root maskSlabRoot⟩
    h.slabType = .array ∧ h.arrayType = .data ∧ h.version = 1 ∧ h.isRoot = root ∧ h.hasPointers = ptr ∧
      h.hasSizeLimit = true ∧ h.hasInlinedSlabs = false ∧ h.hasNextSlabID = hasNext := by
  cases hasNext <;> cases ptr <;> cases root <;> decide

theorem head_meta_facts (root : Bool) :
    let h : SlabHead := ⟨ArrayMetaDataSlab_Encode_version * 16, maskArrayMeta ||| flagIf root maskSlabRoot⟩
    h.slabType = .array ∧ h.arrayType = .index ∧ h.version = 1 ∧ h.isRoot = root ∧ h.hasPointers = false ∧
      h.hasSizeLimit = true := by
  cases root <;> decide

theorem head_storable_facts (ptr : Bool) :
    let h : SlabHead := ⟨StorableSlab_Encode_version * 16,
                         maskStorable ||| maskSlabAnySize ||| flagIf ptr maskSlabHasPointers⟩
    h.slabType = .storable ∧ h.isRoot = false ∧ h.hasPointers = ptr ∧ h.hasSizeLimit = false := by
  cases ptr <;> decide

theorem newSlabIDFromRawBytes_enc_append (id : SlabID) (ha : id.addr < 2 ^ 64) (hi : id.idx < 2 ^ 64)
    (more : Bytes) : newSlabIDFromRawBytes (encodeSlabID id ++ more) = pure id := by
  unfold newSlabIDFromRawBytes
  have hlen : ¬ (encodeSlabID id ++ more).length < SlabIDLength := by
    simp [length_encodeSlabID, SlabIDLength]
  rw [if_neg hlen]
  unfold sliceFrom
  rw [if_pos (by simp [length_encodeSlabID, SlabAddressLength]; omega)]
  simp only [DM.pure_bind]
  unfold encodeSlabID
  rw [List.append_assoc, copyN_append_left (length_beBytes _ _), List.drop_left' (length_beBytes _ _),
    copyN_append_left (length_beBytes _ _)]
  rw [beVal_beBytes (by simpa [SlabAddressLength] using ha), beVal_beBytes (by simpa [SlabIndexLength] using hi)]

/-- `s.next` is either undefined or a real slab ID -/
def validNext (id : SlabID) : Prop := id.addr < 2 ^ 64 ∧ id.idx < 2 ^ 64

/-- What the encoder relies on for a standalone data slab (all of it follows from the array
    invariant of C05 and the `uint64`/`uint32` field widths). -/
structure DataOK (ty : TyInfo) (s : DataSlab) : Prop where
  elems : ∀ e ∈ s.elems, validElem e
  count16 : s.elems.length < 65536
  notInlined : s.inlined = false
  count : s.hdr.count = s.elems.length
  size : s.hdr.size = s.prefixSize + sumSizes s.elems
  size32 : s.hdr.size ≤ 4294967295
  next : validNext s.next
  ty : s.root = true → validTy ty

/-! ### reading the two head bytes -/

theorem decodeSlabFlat_cons2 (id : SlabID) (b0 b1 : Nat) (tail : Bytes) :
    decodeSlabFlat id (b0 :: b1 :: tail) =
      match (⟨b0, b1⟩ : SlabHead).slabType with
      | .array =>
        match (⟨b0, b1⟩ : SlabHead).arrayType with
        | .data => newArrayDataSlabFromData id (b0 :: b1 :: tail)
        | .index => newArrayMetaDataSlabFromData id (b0 :: b1 :: tail)
        | _ => DM.fail
      | .map => DM.fail .unsupported
      | .storable => do
        let (e, _) ← decodeElem (Dec.new tail)
        pure (.storable id e)
      | .undefined => DM.fail := by
  unfold decodeSlabFlat
  have h2 : ¬ (b0 :: b1 :: tail).length < versionAndFlagSize := by simp [versionAndFlagSize]
  rw [if_neg h2]
  unfold sliceTo sliceFrom
  rw [if_pos (by simp [versionAndFlagSize]), if_pos (by simp [versionAndFlagSize])]
  simp only [DM.pure_bind, versionAndFlagSize, List.take_succ_cons, List.take_zero, newHeadFromData,
    List.drop_succ_cons, List.drop_zero]
  generalize (SlabHead.mk b0 b1).slabType = st
  generalize (SlabHead.mk b0 b1).arrayType = aty
  cases st <;> cases aty <;> rfl

theorem newArrayDataSlabFromData_cons2 (id : SlabID) (b0 b1 : Nat) (tail : Bytes) :
    newArrayDataSlabFromData id (b0 :: b1 :: tail) =
      if (⟨b0, b1⟩ : SlabHead).arrayType ≠ .data then DM.fail
      else if (⟨b0, b1⟩ : SlabHead).version = 0 then newArrayDataSlabFromDataV0 id ⟨b0, b1⟩ tail
      else if (⟨b0, b1⟩ : SlabHead).version = 1 then newArrayDataSlabFromDataV1 id ⟨b0, b1⟩ tail
      else DM.fail := by
  unfold newArrayDataSlabFromData
  have h2 : ¬ (b0 :: b1 :: tail).length < versionAndFlagSize := by simp [versionAndFlagSize]
  rw [if_neg h2]
  unfold sliceTo sliceFrom
  rw [if_pos (by simp [versionAndFlagSize]), if_pos (by simp [versionAndFlagSize])]
  simp only [DM.pure_bind, versionAndFlagSize, List.take_succ_cons, List.take_zero, newHeadFromData,
    List.drop_succ_cons, List.drop_zero]

theorem newArrayMetaDataSlabFromData_cons2 (id : SlabID) (b0 b1 : Nat) (tail : Bytes) :
    newArrayMetaDataSlabFromData id (b0 :: b1 :: tail) =
      if (⟨b0, b1⟩ : SlabHead).arrayType ≠ .index then DM.fail
      else if (⟨b0, b1⟩ : SlabHead).version = 0 then newArrayMetaDataSlabFromDataV0 id ⟨b0, b1⟩ tail
      else if (⟨b0, b1⟩ : SlabHead).version = 1 then newArrayMetaDataSlabFromDataV1 id ⟨b0, b1⟩ tail
      else DM.fail := by
  unfold newArrayMetaDataSlabFromData
  have h2 : ¬ (b0 :: b1 :: tail).length < versionAndFlagSize := by simp [versionAndFlagSize]
  rw [if_neg h2]
  unfold sliceTo sliceFrom
  rw [if_pos (by simp [versionAndFlagSize]), if_pos (by simp [versionAndFlagSize])]
  simp only [DM.pure_bind, versionAndFlagSize, List.take_succ_cons, List.take_zero, newHeadFromData,
    List.drop_succ_cons, List.drop_zero]

/-- `DecodeSlab` on the encoding of a data slab followed by `extra` bytes -/
theorem decodeSlabFlat_encodeDataSlab (ty : TyInfo) (s : DataSlab) (ok : DataOK ty s) (extra : Bytes) (n : Nat) :
    decodeSlabFlat s.hdr.id (encodeDataSlab ty s ++ extra) n =
      if extra ≠ [] then .error .decoding (n + s.elems.length)
      else .ok (.data (if s.root then some ty else none) s) (n + s.elems.length) := by
  obtain ⟨hdr, next, elems, root, inlined⟩ := s
  obtain ⟨id, size, count⟩ := hdr
  have hv := ok.elems; have hn := ok.count16; have hinl := ok.notInlined
  have hcount := ok.count; have hsize := ok.size; have hs32 := ok.size32
  have hnext := ok.next; have hty := ok.ty
  simp only at hv hn hinl hcount hsize hs32 hnext hty ⊢
  subst hinl; subst hcount
  simp only [DataSlab.prefixSize, Bool.false_eq_true, ↓reduceIte] at hsize
  unfold encodeDataSlab
  simp only
  have hf := head_data_facts (decide (next ≠ SlabID.undef)) (elems.any elemIsRef) root
  simp only at hf
  obtain ⟨hf1, hf2, hf3, hf4, -, -, hf7, hf8⟩ := hf
  generalize hb0 : ArrayDataSlab_Encode_version * 16 ||| flagIf (decide (next ≠ SlabID.undef)) maskHasNextSlabID = b0 at *
  generalize hb1 : maskArrayData ||| flagIf (elems.any elemIsRef) maskSlabHasPointers ||| flagIf root maskSlabRoot = b1 at *
  have hsz32 : (if root = true then arrayRootDataSlabPrefixSize else arrayDataSlabPrefixSize) + sumSizes elems
      ≤ 4294967295 := by
    rw [← hsize]; exact hs32
  -- the common tail after the two head bytes
  have htail : ∀ (tyo : Option TyInfo), tyo.isSome = root →
      dataV1AfterExtra id ⟨b0, b1⟩ tyo
        ((if decide (next ≠ SlabID.undef) = true then encodeSlabID next else []) ++ (encodeElements elems ++ extra)) n =
      if extra ≠ [] then .error .decoding (n + elems.length)
      else .ok (.data tyo { hdr := { id := id, size := size, count := elems.length }, next := next,
                            elems := elems, root := root, inlined := false }) (n + elems.length) := by
    intro tyo htyo
    unfold dataV1AfterExtra
    rw [hf7, hf8, hf4]
    simp only [Bool.false_eq_true, ↓reduceIte]
    by_cases hnx : next = SlabID.undef
    · have hd : decide (next ≠ SlabID.undef) = false := by simp [hnx]
      simp only [hd, Bool.false_eq_true, ↓reduceIte, List.nil_append]
      rw [decodeDataContent_enc _ _ _ _ _ elems hv hn hsz32, ← hsize, htyo, hnx]
      simp
    · have hd : decide (next ≠ SlabID.undef) = true := by simp [hnx]
      simp only [hd, ↓reduceIte]
      rw [newSlabIDFromRawBytes_enc_append next hnext.1 hnext.2]
      simp only [DM.pure_bind]
      unfold sliceFrom
      have h16 : SlabIDLength ≤ (encodeSlabID next ++ (encodeElements elems ++ extra)).length := by
        simp only [List.length_append, length_encodeSlabID, SlabIDLength]; omega
      rw [if_pos h16]
      simp only [DM.pure_bind]
      rw [List.drop_left' (by simp [length_encodeSlabID, SlabIDLength])]
      rw [decodeDataContent_enc _ _ _ _ _ elems hv hn hsz32, ← hsize, htyo]
      simp
  simp only [List.cons_append, List.nil_append]
  rw [decodeSlabFlat_cons2, hf1]
  simp only [hf2]
  rw [newArrayDataSlabFromData_cons2, hf2, hf3]
  simp only [ne_eq, not_true_eq_false, ↓reduceIte, show ¬ ((1 : Nat) = 0) by decide]
  unfold newArrayDataSlabFromDataV1
  rw [hf4]
  cases root with
  | true =>
    simp only [↓reduceIte, List.append_assoc]
    rw [newArrayExtraDataFromData_enc ty (hty rfl)]
    simp only [DM.pure_bind]
    exact htail (some ty) rfl
  | false =>
    simp only [Bool.false_eq_true, ↓reduceIte, List.nil_append, List.append_assoc]
    exact htail none rfl

/-! ### large-value slab -/

theorem wfNext_elem (e : Elem) (hv : validElem e) (extra : Bytes) :
    wfNext (encodeElem e ++ extra) = some extra := by
  unfold wfNext
  obtain ⟨f', _, h⟩ := wfRun_elem e hv extra 0 0 [] _ (Nat.le_refl _)
  rw [h, popItem, wfRun_nil]

theorem decodeElem_of_nextType {d d1 : Dec} {t : CType} (h : d.nextType = some (t, d1))
    (h1 : d1.nextType = some (t, d1)) : decodeElem d = decodeElem d1 := by
  unfold decodeElem
  rw [h, h1]

theorem encodeElem_ne_nil (e : Elem) (hv : validElem e) : encodeElem e ≠ [] := by
  intro h
  have := elem_size_eq_enc_len e hv
  rw [h] at this
  unfold validElem at hv
  cases hp : e.pay with
  | ref id => rw [hp] at hv; simp only at hv; rw [hv.1] at this; simp [slabIDStorableSize, SlabIDLength] at this
  | val p => rw [hp] at hv; simp only at hv; simp at this; omega

/-- decoding an encoded element from a fresh decoder (the large-value slab case) -/
theorem decodeElem_enc_new (e : Elem) (hv : validElem e) (extra : Bytes) :
    decodeElem (Dec.new (encodeElem e ++ extra))
      = pure (e, { data := extra, remaining := 0, consumed := e.size }) := by
  have hsz := elem_size_eq_enc_len e hv
  cases hd : encodeElem e ++ extra with
  | nil =>
    have := encodeElem_ne_nil e hv
    simp at hd; exact absurd hd.1 this
  | cons b tl =>
    have hnt : (Dec.new (encodeElem e ++ extra)).nextType
        = some (ctypeOf b, { data := encodeElem e ++ extra, remaining := e.size, consumed := 0 }) := by
      unfold Dec.nextType Dec.prepareNext Dec.new
      simp only [Nat.lt_irrefl, ↓reduceIte, gt_iff_lt]
      rw [wfNext_elem e hv]
      simp only [List.length_append, Nat.add_sub_cancel, hsz]
      rw [hd]
    have hpos : 0 < e.size := by
      rw [← hsz]; exact List.length_pos_iff.2 (encodeElem_ne_nil e hv)
    have hnt1 : ({ data := encodeElem e ++ extra, remaining := e.size, consumed := 0 } : Dec).nextType
        = some (ctypeOf b, { data := encodeElem e ++ extra, remaining := e.size, consumed := 0 }) :=
      nextType_pos hpos hd
    rw [← hd, decodeElem_of_nextType hnt hnt1, decodeElem_enc e hv extra _ _ (Nat.le_refl _)]
    simp

/-- `DecodeSlab` on the encoding of a large-value slab; trailing bytes are NOT rejected
    (decode.go has no end-of-data check in the `slabStorable` branch). -/
theorem decodeSlabFlat_encodeStorableSlab (id : SlabID) (e : Elem) (hv : validElem e) (extra : Bytes) (n : Nat) :
    decodeSlabFlat id (encodeStorableSlab e ++ extra) n = .ok (.storable id e) n := by
  unfold encodeStorableSlab
  have hf := head_storable_facts (elemIsRef e)
  simp only at hf
  simp only [List.cons_append, List.nil_append]
  rw [decodeSlabFlat_cons2, hf.1]
  simp only
  rw [decodeElem_enc_new e hv extra]
  rfl

/-! ### index (metadata) slab -/

/-- a child header as the encoder can write it -/
def validChildHdr (addr : Nat) (h : Hdr) : Prop :=
  h.id.addr = addr ∧ h.id.idx < 2 ^ 64 ∧ h.count < 2 ^ 32 ∧ h.size < 65536

theorem drop_length_add {α : Type} (pre l : List α) (k : Nat) :
    (pre ++ l).drop (pre.length + k) = l.drop k := by
  rw [List.drop_append]
  simp

theorem metaLoopV1_enc (addr : Nat) : ∀ (hdrs : List Hdr) (pre : Bytes) (total : Nat),
    (∀ h ∈ hdrs, validChildHdr addr h) →
    total + MetaSlab.sumCounts hdrs ≤ 4294967295 →
    metaLoopV1 (pre ++ hdrs.flatMap encodeChildHdr) addr hdrs.length pre.length total
      = pure (hdrs, MetaSlab.prefixSums hdrs total) := by
  intro hdrs
  induction hdrs with
  | nil => intro pre total _ _; simp [metaLoopV1, MetaSlab.prefixSums]
  | cons h hs ih =>
    intro pre total hv hsum
    have hvh := hv h (List.mem_cons_self ..)
    obtain ⟨ha, hi, hc, hsz⟩ := hvh
    have hsc : MetaSlab.sumCounts (h :: hs) = h.count + MetaSlab.sumCounts hs := by
      simp [MetaSlab.sumCounts]
    rw [hsc] at hsum
    simp only [List.flatMap_cons, List.length_cons, metaLoopV1]
    unfold sliceFrom be32 be16
    have hL : (pre ++ (encodeChildHdr h ++ hs.flatMap encodeChildHdr)).length
        = pre.length + 14 + (hs.flatMap encodeChildHdr).length := by
      simp only [List.length_append, length_encodeChildHdr, arraySlabHeaderSize]; omega
    rw [if_pos (by rw [hL]; omega)]
    simp only [DM.pure_bind]
    rw [if_pos (by rw [hL]; simp only [SlabIndexLength]; omega)]
    simp only [DM.pure_bind]
    have hd0 : (pre ++ (encodeChildHdr h ++ hs.flatMap encodeChildHdr)).drop pre.length
        = encodeChildHdr h ++ hs.flatMap encodeChildHdr := by
      have := drop_length_add pre (encodeChildHdr h ++ hs.flatMap encodeChildHdr) 0
      simpa using this
    have hd8 : (pre ++ (encodeChildHdr h ++ hs.flatMap encodeChildHdr)).drop (pre.length + SlabIndexLength)
        = beBytes 4 h.count ++ (beBytes 2 h.size ++ hs.flatMap encodeChildHdr) := by
      rw [drop_length_add]
      unfold encodeChildHdr
      rw [List.append_assoc, List.append_assoc, List.drop_left' (length_beBytes _ _)]
    have hd12 : (pre ++ (encodeChildHdr h ++ hs.flatMap encodeChildHdr)).drop (pre.length + SlabIndexLength + 4)
        = beBytes 2 h.size ++ hs.flatMap encodeChildHdr := by
      rw [Nat.add_assoc, drop_length_add]
      unfold encodeChildHdr
      rw [List.append_assoc, List.append_assoc, ← List.append_assoc (beBytes SlabIndexLength h.id.idx)]
      rw [List.drop_left' (by simp [SlabIndexLength])]
    rw [hd0, hd8]
    rw [if_pos (by simp)]
    simp only [DM.pure_bind]
    rw [if_pos (by rw [hL]; simp only [SlabIndexLength]; omega)]
    simp only [DM.pure_bind]
    rw [hd12]
    rw [if_pos (by simp)]
    simp only [DM.pure_bind]
    rw [take_beBytes_append, take_beBytes_append, beVal_beBytes (by simpa using hc),
      beVal_beBytes (by simpa using hsz)]
    rw [if_neg (by omega)]
    have hidx : beVal (copyN SlabIndexLength (encodeChildHdr h ++ hs.flatMap encodeChildHdr)) = h.id.idx := by
      unfold encodeChildHdr
      rw [List.append_assoc, List.append_assoc, copyN_append_left (length_beBytes _ _),
        beVal_beBytes (by simpa [SlabIndexLength] using hi)]
    rw [hidx]
    have hoff : pre.length + SlabIndexLength + 4 + 2 = (pre ++ encodeChildHdr h).length := by
      simp [length_encodeChildHdr, arraySlabHeaderSize, SlabIndexLength]
    rw [hoff, ← List.append_assoc]
    rw [ih (pre ++ encodeChildHdr h) (total + h.count) (fun x hx => hv x (List.mem_cons_of_mem _ hx)) (by omega)]
    simp only [DM.pure_bind, MetaSlab.prefixSums]
    have : ({ addr := addr, idx := h.id.idx } : SlabID) = h.id := by
      cases hid : h.id with
      | mk a i => rw [hid] at ha; simp at ha; simp [ha]
    rw [this]

/-- What the encoder relies on for an index slab. -/
structure MetaOK (ty : TyInfo) (m : MetaSlab Unit) : Prop where
  addr : m.hdr.id.addr < 2 ^ 64
  hdrs : ∀ h ∈ m.childHdrs, validChildHdr m.hdr.id.addr h
  n16 : m.childHdrs.length < 65536
  sums : m.countSum = MetaSlab.prefixSums m.childHdrs 0
  count : m.hdr.count = m.countSum.getLastD 0
  total32 : MetaSlab.sumCounts m.childHdrs ≤ 4294967295
  size : m.hdr.size = arrayMetaDataSlabPrefixSize + arraySlabHeaderSize * m.childHdrs.length
  noChildren : m.children = []
  ty : m.root = true → validTy ty

/-- `DecodeSlab` on the encoding of an index slab followed by `extra` bytes -/
theorem decodeSlabFlat_encodeMetaSlab (ty : TyInfo) (m : MetaSlab Unit) (ok : MetaOK ty m) (extra : Bytes) (n : Nat) :
    decodeSlabFlat m.hdr.id (encodeMetaSlab ty m ++ extra) n =
      if extra ≠ [] then .error .decoding n
      else .ok (.index (if m.root then some ty else none) m) (n + m.childHdrs.length + m.childHdrs.length) := by
  obtain ⟨hdr, childHdrs, countSum, children, root⟩ := m
  obtain ⟨id, size, count⟩ := hdr
  have haddr := ok.addr; have hv := ok.hdrs; have hn := ok.n16; have hsums := ok.sums
  have hcount := ok.count; have ht32 := ok.total32; have hsize := ok.size
  have hnc := ok.noChildren; have hty := ok.ty
  simp only at haddr hv hn hsums hcount ht32 hsize hnc hty ⊢
  subst hnc
  unfold encodeMetaSlab
  simp only
  have hf := head_meta_facts root
  simp only at hf
  obtain ⟨hf1, hf2, hf3, hf4, -, -⟩ := hf
  generalize hb0 : ArrayMetaDataSlab_Encode_version * 16 = b0 at *
  generalize hb1 : maskArrayMeta ||| flagIf root maskSlabRoot = b1 at *
  have htail : ∀ (tyo : Option TyInfo), tyo.isSome = root →
      metaV1AfterExtra id tyo
        (beBytes SlabAddressLength id.addr ++ beBytes 2 childHdrs.length ++
          childHdrs.flatMap encodeChildHdr ++ extra) n =
      if extra ≠ [] then .error .decoding n
      else .ok (.index tyo { hdr := { id := id, size := size, count := count }, childHdrs := childHdrs,
                             countSum := countSum, children := [], root := root })
             (n + childHdrs.length + childHdrs.length) := by
    intro tyo htyo
    unfold metaV1AfterExtra
    have hL : (beBytes SlabAddressLength id.addr ++ beBytes 2 childHdrs.length ++
          childHdrs.flatMap encodeChildHdr ++ extra).length
        = 10 + 14 * childHdrs.length + extra.length := by
      simp only [List.length_append, length_beBytes, length_flatMap_encodeChildHdr, SlabAddressLength,
        arraySlabHeaderSize]
    rw [if_neg (by rw [hL]; simp only [arrayMetaDataSlabPrefixSize, versionAndFlagSize]; omega)]
    unfold sliceFrom be16
    rw [if_pos (Nat.zero_le _)]
    simp only [DM.pure_bind, List.drop_zero]
    rw [if_pos (by rw [hL]; simp only [SlabAddressLength]; omega)]
    simp only [DM.pure_bind]
    have hd8 : (beBytes SlabAddressLength id.addr ++ beBytes 2 childHdrs.length ++
          childHdrs.flatMap encodeChildHdr ++ extra).drop SlabAddressLength
        = beBytes 2 childHdrs.length ++ (childHdrs.flatMap encodeChildHdr ++ extra) := by
      rw [List.append_assoc, List.append_assoc, List.drop_left' (length_beBytes _ _)]
    rw [hd8, if_pos (by simp)]
    simp only [DM.pure_bind]
    rw [take_beBytes_append, beVal_beBytes (by simpa using hn)]
    rw [if_pos (by rw [hL]; simp only [SlabAddressLength, newArrayMetaDataSlabFromDataV1_arrayHeaderSize]; omega)]
    simp only [DM.pure_bind]
    have hd10 : (beBytes SlabAddressLength id.addr ++ beBytes 2 childHdrs.length ++
          childHdrs.flatMap encodeChildHdr ++ extra).drop
            (SlabAddressLength + newArrayMetaDataSlabFromDataV1_arrayHeaderSize)
        = childHdrs.flatMap encodeChildHdr ++ extra := by
      rw [List.append_assoc (beBytes SlabAddressLength id.addr ++ beBytes 2 childHdrs.length)]
      rw [List.drop_left' (by simp [SlabAddressLength, newArrayMetaDataSlabFromDataV1_arrayHeaderSize])]
    rw [hd10]
    have haddrv : beVal (copyN SlabAddressLength (beBytes SlabAddressLength id.addr ++ beBytes 2 childHdrs.length ++
          childHdrs.flatMap encodeChildHdr ++ extra)) = id.addr := by
      rw [List.append_assoc, List.append_assoc, copyN_append_left (length_beBytes _ _),
        beVal_beBytes (by simpa [SlabAddressLength] using haddr)]
    rw [haddrv]
    by_cases hex : extra = []
    · subst hex
      simp only [List.append_nil, length_flatMap_encodeChildHdr, ne_eq, not_true_eq_false, ↓reduceIte]
      rw [DM.alloc_bind]
      simp only
      rw [DM.alloc_bind]
      simp only
      have hpre : SlabAddressLength + newArrayMetaDataSlabFromDataV1_arrayHeaderSize
          = (beBytes SlabAddressLength id.addr ++ beBytes 2 childHdrs.length).length := by
        simp [SlabAddressLength, newArrayMetaDataSlabFromDataV1_arrayHeaderSize]
      rw [hpre, metaLoopV1_enc id.addr childHdrs _ 0 hv (by omega)]
      simp only [DM.pure_bind, mkMeta]
      rw [← hsums, ← hcount, ← hsize, htyo]
      rfl
    · have hne : (childHdrs.flatMap encodeChildHdr ++ extra).length ≠ arraySlabHeaderSize * childHdrs.length := by
        have : 0 < extra.length := List.length_pos_iff.2 hex
        simp only [List.length_append, length_flatMap_encodeChildHdr]; omega
      rw [if_pos hne, if_pos hex]
      rfl
  simp only [List.cons_append, List.nil_append]
  rw [decodeSlabFlat_cons2, hf1]
  simp only [hf2]
  rw [newArrayMetaDataSlabFromData_cons2, hf2, hf3]
  simp only [ne_eq, not_true_eq_false, ↓reduceIte, show ¬ ((1 : Nat) = 0) by decide]
  unfold newArrayMetaDataSlabFromDataV1
  rw [hf4]
  cases root with
  | true =>
    simp only [↓reduceIte, List.append_assoc]
    rw [newArrayExtraDataFromData_enc ty (hty rfl)]
    simp only [DM.pure_bind]
    have := htail (some ty) rfl
    simp only [List.append_assoc] at this
    exact this
  | false =>
    simp only [Bool.false_eq_true, ↓reduceIte, List.nil_append, List.append_assoc]
    have := htail none rfl
    simp only [List.append_assoc] at this
    exact this

/-! ### from the first part of the decoder to `decodeSlab` -/

theorem decodeSlab_of_flat_ok {id : SlabID} {data : Bytes} {n k : Nat} {s : Slab}
    (h : decodeSlabFlat id data n = .ok s k) : decodeSlab id data n = .ok s k := by
  unfold decodeSlab; rw [h]

theorem decodeSlab_of_flat_err {id : SlabID} {data : Bytes} {n k : Nat}
    (h : decodeSlabFlat id data n = .error .decoding k) : decodeSlab id data n = .error .decoding k := by
  unfold decodeSlab; rw [h]

theorem decodeSlab_of_flat_unsupported {id : SlabID} {data : Bytes} {n k : Nat}
    (h : decodeSlabFlat id data n = .error .unsupported k) : decodeSlab id data n = decodeSlabGen id data n := by
  unfold decodeSlab; rw [h]

theorem decodeSlab_encodeDataSlab (ty : TyInfo) (s : DataSlab) (ok : DataOK ty s) (extra : Bytes) (n : Nat) :
    decodeSlab s.hdr.id (encodeDataSlab ty s ++ extra) n =
      if extra ≠ [] then .error .decoding (n + s.elems.length)
      else .ok (.data (if s.root then some ty else none) s) (n + s.elems.length) := by
  have h := decodeSlabFlat_encodeDataSlab ty s ok extra n
  by_cases hex : extra ≠ []
  · rw [if_pos hex] at h ⊢; exact decodeSlab_of_flat_err h
  · rw [if_neg hex] at h ⊢; exact decodeSlab_of_flat_ok h

theorem decodeSlab_encodeStorableSlab (id : SlabID) (e : Elem) (hv : validElem e) (extra : Bytes) (n : Nat) :
    decodeSlab id (encodeStorableSlab e ++ extra) n = .ok (.storable id e) n :=
  decodeSlab_of_flat_ok (decodeSlabFlat_encodeStorableSlab id e hv extra n)

theorem decodeSlab_encodeMetaSlab (ty : TyInfo) (m : MetaSlab Unit) (ok : MetaOK ty m) (extra : Bytes) (n : Nat) :
    decodeSlab m.hdr.id (encodeMetaSlab ty m ++ extra) n =
      if extra ≠ [] then .error .decoding n
      else .ok (.index (if m.root then some ty else none) m) (n + m.childHdrs.length + m.childHdrs.length) := by
  have h := decodeSlabFlat_encodeMetaSlab ty m ok extra n
  by_cases hex : extra ≠ []
  · rw [if_pos hex] at h ⊢; exact decodeSlab_of_flat_err h
  · rw [if_neg hex] at h ⊢; exact decodeSlab_of_flat_ok h

/-! ### the slab kinds of the first part at once -/

/-- What the encoder relies on, per slab kind of the first part (array data / index slabs and
    large-value slabs whose elements are plain values and slab references); the optional type info
    is present exactly for roots.  The kinds of the second part (`adata`, `mdata`, `mindex`,
    `storableG`) have their own predicates and theorems (`AtreeProofs/Codec/MapRoundTrip.lean` …):
    their length law has further terms (the inlined-extra-data section, the compact-map saving), so
    they are not instances of the statements phrased with `SlabOK`. -/
def SlabOK : Slab → Prop
  | .data ty s => DataOK (ty.getD default) s ∧ ty.isSome = s.root
  | .index ty m => MetaOK (ty.getD default) m ∧ ty.isSome = m.root
  | .storable _ e => validElem e
  | .adata _ => False
  | .mdata _ => False
  | .mindex _ => False
  | .storableG _ _ => False

/-- number of slice elements the decoder allocates for a slab of the first part -/
def Slab.decodeAllocs : Slab → Nat
  | .data _ s => s.elems.length
  | .index _ m => m.childHdrs.length + m.childHdrs.length
  | .storable _ _ => 0
  | _ => 0

/-- `DecodeSlab (EncodeSlab s) = s` for every slab kind of the first part -/
theorem decodeSlab_encodeSlab (s : Slab) (ok : SlabOK s) (n : Nat) :
    decodeSlab s.id (encodeSlab s) n = .ok s (n + s.decodeAllocs) := by
  cases s with
  | data ty d =>
    obtain ⟨hok, hty⟩ := ok
    have := decodeSlab_encodeDataSlab (ty.getD default) d hok [] n
    simp only [List.append_nil, ne_eq, not_true_eq_false, ↓reduceIte] at this
    simp only [Slab.id, encodeSlab, Slab.decodeAllocs]
    rw [this]
    cases ty with
    | none => simp at hty; simp [← hty]
    | some t => simp at hty; simp [← hty]
  | index ty m =>
    obtain ⟨hok, hty⟩ := ok
    have := decodeSlab_encodeMetaSlab (ty.getD default) m hok [] n
    simp only [List.append_nil, ne_eq, not_true_eq_false, ↓reduceIte] at this
    simp only [Slab.id, encodeSlab, Slab.decodeAllocs]
    rw [this]
    cases ty with
    | none => simp at hty; simp [← hty, Nat.add_assoc]
    | some t => simp at hty; simp [← hty, Nat.add_assoc]
  | storable id e =>
    have := decodeSlab_encodeStorableSlab id e ok [] n
    simp only [List.append_nil] at this
    simp only [Slab.id, encodeSlab, Slab.decodeAllocs, Nat.add_zero]
    exact this
  | adata _ => exact ok.elim
  | mdata _ => exact ok.elim
  | mindex _ => exact ok.elim
  | storableG _ _ => exact ok.elim

end Atree.Codec
