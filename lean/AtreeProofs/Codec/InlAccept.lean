import AtreeProofs.Codec.InlState
/-
  The CBOR validator accepts the encodings of storables with inlined arrays and maps (not the compact
  form), of map elements and element lists.
-/
namespace Atree.Codec
open Atree Atree.Gen DM

def encStParts : List Stor → List XD → List Bytes
  | [], _ => []
  | s :: ss, xs => (encSt s xs).1 :: encStParts ss (encSt s xs).2

theorem encStParts_flatten : ∀ (l : List Stor) (xs : List XD), (encStParts l xs).flatten = (encSts l xs).1
  | [], xs => by simp [encStParts, encSts]
  | s :: ss, xs => by simp [encStParts, encSts, encStParts_flatten ss]

theorem encStParts_length : ∀ (l : List Stor) (xs : List XD), (encStParts l xs).length = l.length
  | [], xs => rfl
  | s :: ss, xs => by simp [encStParts, encStParts_length ss]

theorem acc_encodeIdx (idx : Nat) : Acc (encodeIdx idx) 0 := by
  have := Acc.bytes (content := beBytes SlabIndexLength idx) (by simp [length_beBytes, SlabIndexLength])
  simpa [encodeIdx, length_beBytes] using this

theorem acc_level {level : Nat} (hlev : level < 24) : Acc [level % 256] 0 := by
  have := Acc.uint (n := level) (by omega)
  rw [← level_head hlev] at this; exact this

/-- the tag content of an inlined slab: `[extra data index, slab index, body]` -/
theorem acc_inlined (tag i idx : Nat) {body : Bytes} {k : Nat} (hb : Acc body k) :
    Acc (inlinedHead tag i ++ encodeIdx idx ++ body) (k + 2) := by
  have hl : AccList [[0x18, i % 256], encodeIdx idx, body] k := by
    intro b hb'
    simp only [List.mem_cons, List.not_mem_nil, or_false] at hb'
    rcases hb' with rfl | rfl | rfl
    · exact (Acc.uint8Fixed (Nat.mod_lt _ (by omega))).mono (by omega)
    · exact (acc_encodeIdx idx).mono (by omega)
    · exact hb
  have h3 := Acc.array (by simp [maxArrayElements]) hl
  have h4 := Acc.tag8 tag h3
  simpa [inlinedHead, head, flatten_triple] using h4

mutual
theorem accStI : (s : Stor) → (xs : List XD) → s.RTI → s.noCompact → Acc (encSt s xs).1 s.vneedI
  | .val size pay, xs, h, _ => by
    simp only [encSt, Stor.vneedI]; exact acc_encodeElem _ h
  | .ref id, xs, _, _ => by
    simp only [encSt, Stor.vneedI]; exact acc_encodeRef id
  | .some s, xs, h, nc => by
    simp only [encSt, Stor.vneedI, tagHead8, List.cons_append, List.nil_append]
    exact Acc.tag8 _ (accStI s xs h nc)
  | .arr ty idx es, xs, h, nc => by
    have hparts := accStPartsI es (addArrayXD xs ty).2 h.2.2.2.1 nc
    have hinner : Acc (arrayHead16 es.length ++ (encSts es (addArrayXD xs ty).2).1) (vneedISts es + 1) := by
      have := Acc.array16 (l := encStParts es (addArrayXD xs ty).2) (k := vneedISts es)
        (by rw [encStParts_length]; exact h.2.2.1) hparts
      rw [encStParts_length, encStParts_flatten] at this
      exact this
    have := acc_inlined CBORTagInlinedArray (addArrayXD xs ty).1 idx hinner
    simp only [encSt, Stor.vneedI]
    simpa [List.append_assoc] using this
  | .map x idx (.hkey level hkeys elems), xs, h, nc => by
    have hc : compactKeys x elems = none := nc.1
    have hels := accMElsI (.hkey level hkeys elems) (addMapXD xs x).2 h.2.2.1 nc.2
    have := acc_inlined CBORTagInlinedMap (addMapXD xs x).1 idx hels
    simp only [encSt, hc, Stor.vneedI]
    simpa [encMEls, List.append_assoc] using this
  | .map x idx (.single level elems), xs, h, nc => by
    have hels := accMElsI (.single level elems) (addMapXD xs x).2 h.2.2.1 nc
    have := acc_inlined CBORTagInlinedMap (addMapXD xs x).1 idx hels
    simp only [encSt, Stor.vneedI]
    simpa [encMEls, List.append_assoc] using this
theorem accStPartsI : (l : List Stor) → (xs : List XD) → rtiSts l → noCompactSts l →
    AccList (encStParts l xs) (vneedISts l)
  | [], xs, _, _ => by intro b hb; simp [encStParts] at hb
  | s :: ss, xs, h, nc => by
    intro b hb
    simp only [encStParts, List.mem_cons] at hb
    rcases hb with rfl | hb
    · exact (accStI s xs h.1 nc.1).mono (by simp only [vneedISts]; exact Nat.le_max_left _ _)
    · exact (accStPartsI ss _ h.2 nc.2 b hb).mono (by simp only [vneedISts]; exact Nat.le_max_right _ _)
theorem accSElI : (e : SEl) → (xs : List XD) → e.RTI → e.noCompact → Acc (encSEl e xs).1 e.vneedI
  | .mk k v, xs, h, nc => by
    have hk := accStI k xs h.1 nc.1
    have hv := accStI v (encSt k xs).2 h.2.1 nc.2
    simp only [encSEl, SEl.vneedI]
    have hl : AccList [(encSt k xs).1, (encSt v (encSt k xs).2).1] (max k.vneedI v.vneedI) := by
      intro b hb
      simp only [List.mem_cons, List.not_mem_nil, or_false] at hb
      rcases hb with rfl | rfl
      · exact hk.mono (Nat.le_max_left _ _)
      · exact hv.mono (Nat.le_max_right _ _)
    have := Acc.array (by simp [maxArrayElements]) hl
    simpa [head, flatten_pair] using this
theorem accMElI : (e : MEl) → (xs : List XD) → e.RTI → e.noCompact → Acc (encMEl e xs).1 e.vneedI
  | .single e, xs, h, nc => by
    simp only [encMEl, MEl.vneedI]; exact accSElI e xs h nc
  | .inl els, xs, h, nc => by
    simp only [encMEl, MEl.vneedI, tagHead8, List.cons_append, List.nil_append]
    exact Acc.tag8 _ (accMElsI els xs h nc)
  | .ext id, xs, _, _ => by
    simp only [encMEl, MEl.vneedI, tagHead8, List.cons_append, List.nil_append]
    exact Acc.tag8 _ (acc_encodeRef id)
theorem accMElsI : (els : MEls) → (xs : List XD) → els.RTI → els.noCompact → Acc (encMEls els xs).1 els.vneedI
  | .hkey level hkeys es, xs, h, nc => by
    obtain ⟨hlev, hlen, h8192, hhk, hes, _⟩ := h
    have hparts := accMElPartsI es xs hes nc
    have hinner : Acc (arrayHead16 es.length ++ (encMElList es xs).1) (vneedIMElList es + 1) := by
      have := Acc.array16 (l := encMElParts es xs) (k := vneedIMElList es)
        (by rw [encMElParts_length]; omega) hparts
      rw [encMElParts_length, encMElParts_flatten] at this
      exact this
    have hbytes : Acc (bytesHead16 (hkeys.length * 8) ++ encodeHkeys hkeys) 0 := by
      have := Acc.bytes16 (content := encodeHkeys hkeys) (by rw [length_encodeHkeys]; omega)
      rw [length_encodeHkeys, Nat.mul_comm] at this
      exact this
    have hl : AccList [[level % 256], bytesHead16 (hkeys.length * 8) ++ encodeHkeys hkeys,
        arrayHead16 es.length ++ (encMElList es xs).1] (vneedIMElList es + 1) := by
      intro b hb
      simp only [List.mem_cons, List.not_mem_nil, or_false] at hb
      rcases hb with rfl | rfl | rfl
      · exact (acc_level hlev).mono (by omega)
      · exact hbytes.mono (by omega)
      · exact hinner
    have := Acc.array (by simp [maxArrayElements]) hl
    simp only [encMEls, MEls.vneedI]
    simpa [head, flatten_triple] using this
  | .single level es, xs, h, nc => by
    obtain ⟨hlev, _, h64k, hes, _⟩ := h
    have hparts := accSElPartsI es xs hes nc
    have hinner : Acc (arrayHead16 es.length ++ (encSElList es xs).1) (vneedISElList es + 1) := by
      have := Acc.array16 (l := encSElParts es xs) (k := vneedISElList es)
        (by rw [encSElParts_length]; omega) hparts
      rw [encSElParts_length, encSElParts_flatten] at this
      exact this
    have hbytes : Acc [0x40] 0 := by
      have := Acc.bytes (content := []) (by simp)
      simpa [head] using this
    have hl : AccList [[level % 256], [0x40], arrayHead16 es.length ++ (encSElList es xs).1]
        (vneedISElList es + 1) := by
      intro b hb
      simp only [List.mem_cons, List.not_mem_nil, or_false] at hb
      rcases hb with rfl | rfl | rfl
      · exact (acc_level hlev).mono (by omega)
      · exact hbytes.mono (by omega)
      · exact hinner
    have := Acc.array (by simp [maxArrayElements]) hl
    simp only [encMEls, MEls.vneedI]
    simpa [head, flatten_triple] using this
theorem accMElPartsI : (l : List MEl) → (xs : List XD) → rtiMElList l → noCompactMElList l →
    AccList (encMElParts l xs) (vneedIMElList l)
  | [], xs, _, _ => by intro b hb; simp [encMElParts] at hb
  | e :: es, xs, h, nc => by
    intro b hb
    simp only [encMElParts, List.mem_cons] at hb
    rcases hb with rfl | hb
    · exact (accMElI e xs h.1 nc.1).mono (by simp only [vneedIMElList]; exact Nat.le_max_left _ _)
    · exact (accMElPartsI es _ h.2 nc.2 b hb).mono (by simp only [vneedIMElList]; exact Nat.le_max_right _ _)
theorem accSElPartsI : (l : List SEl) → (xs : List XD) → rtiSElList l → noCompactSElList l →
    AccList (encSElParts l xs) (vneedISElList l)
  | [], xs, _, _ => by intro b hb; simp [encSElParts] at hb
  | e :: es, xs, h, nc => by
    intro b hb
    simp only [encSElParts, List.mem_cons] at hb
    rcases hb with rfl | hb
    · exact (accSElI e xs h.1 nc.1).mono (by simp only [vneedISElList]; exact Nat.le_max_left _ _)
    · exact (accSElPartsI es _ h.2 nc.2 b hb).mono (by simp only [vneedISElList]; exact Nat.le_max_right _ _)
end

end Atree.Codec
