import AtreeProofs.Codec.BudgetFns
/-
  The accounting triple for the extra-data decoders and the entry loop of the
  inlined-extra-data section, and the shape of the entries that loop returns (`XDWf`).
-/
namespace Atree.Codec
open DM Atree.Gen

/-! ### a postcondition-only logic -/

def Post {α : Type} (Q : α → Prop) (m : DM α) : Prop :=
  ∀ n, match m n with
       | .ok a _ => Q a
       | _ => True

namespace Post
variable {α β : Type}

theorem pure {Q : α → Prop} {a : α} (h : Q a) : Post Q (Pure.pure a : DM α) := fun _ => h
theorem fail {Q : α → Prop} {e : DErr} : Post Q (DM.fail e : DM α) := fun _ => trivial
theorem triv (m : DM α) : Post (fun _ => True) m := by
  intro n; cases m n <;> trivial

theorem bind {Q1 : α → Prop} {Q2 : β → Prop} {m : DM α} {f : α → DM β}
    (hm : Post Q1 m) (hf : ∀ a, Q1 a → Post Q2 (f a)) : Post Q2 (m >>= f) := by
  intro n
  have h1 := hm n
  show match DM.bind' m f n with
       | .ok a _ => Q2 a
       | _ => True
  unfold DM.bind'
  cases hmn : m n with
  | ok a n' =>
    rw [hmn] at h1
    exact hf a h1 n'
  | error e n' => trivial
  | panic => trivial

theorem ite {Q : α → Prop} {c : Prop} [Decidable c] {a b : DM α} (ha : Post Q a) (hb : Post Q b) :
    Post Q (if c then a else b) := by
  split
  · exact ha
  · exact hb

theorem iteH {Q : α → Prop} {c : Prop} [Decidable c] {a b : DM α} (ha : c → Post Q a) (hb : ¬ c → Post Q b) :
    Post Q (if c then a else b) := by
  split
  · exact ha ‹_›
  · exact hb ‹_›

end Post

section
variable {B T : Nat}

/-! ### type infos by reference, extra data -/

theorem tr_decodeTypeInfoRef (tis : List TyInfo) (d : Dec) (stk : List Frame) (c : Nat) :
    TrD B T (fun r : TyInfo × Dec => r.2) (decodeTypeInfoRef tis d) d stk c (next1 stk) := by
  unfold decodeTypeInfoRef
  apply TrD.ite <;> intro _
  · exact tr_decodeTypeInfo d stk c
  · refine TrD.rawBytes ?_
    intro raw d1
    dsimp only
    refine TrD.noalloc (noAlloc_typeInfoOfRaw tis raw) ?_
    intro t
    exact TrD.pure rfl

theorem tr_newMapExtraData (tis : List TyInfo) (d : Dec) (stk : List Frame) (c : Nat) :
    TrD B T (fun r : MapExtra × Dec => r.2) (newMapExtraData tis d) d stk c (next1 stk) := by
  unfold newMapExtraData
  refine TrD.arrayHead ?_
  intro len d1
  dsimp only
  apply TrD.ite <;> intro hl
  · exact TrD.fail
  · have hl3 : len = 3 := by simp only [mapExtraDataLength] at hl; omega
    subst hl3
    refine TrD.bind (tr_decodeTypeInfoRef tis d1 _ _) ?_
    intro ⟨ty, d2⟩
    dsimp only
    rw [next1_pushItems_succ]
    refine TrD.uint64 ?_
    intro count d3
    dsimp only
    rw [next1_pushItems_succ]
    refine TrD.uint64 ?_
    intro seed d4
    rw [next1_pushItems_succ]
    simp only [pushItems]
    exact TrD.pure rfl

theorem tr_newArrayExtraDataRef (tis : List TyInfo) (d : Dec) (stk : List Frame) (c : Nat) :
    TrD B T (fun r : TyInfo × Dec => r.2) (newArrayExtraDataRef tis d) d stk c (next1 stk) := by
  unfold newArrayExtraDataRef
  refine TrD.arrayHead ?_
  intro len d1
  dsimp only
  apply TrD.ite <;> intro hl
  · exact TrD.fail
  · have hl1 : len = 1 := by simp only [arrayExtraDataLength] at hl; omega
    subst hl1
    have h := tr_decodeTypeInfoRef (B := B) (T := T) tis d1 (pushItems 1 (topDepth stk + 1) (next1 stk)) (c + 2 * 1)
    rw [next1_pushItems_succ] at h
    simp only [pushItems] at h
    exact h

theorem xdwf_nil : XDWf [] := fun _ h => absurd h List.not_mem_nil

theorem tr_decCompactKeys (fuel : Nat) : ∀ (n : Nat) (d : Dec) (dep : Nat) (s : List Frame),
    TrD B T (fun r : List (Nat × Nat) × Dec => r.2) (decCompactKeys fuel n d) d (pushItems n dep s) 0 s
  | 0, d, dep, s => by unfold decCompactKeys; exact TrD.pure rfl
  | n + 1, d, dep, s => by
    unfold decCompactKeys
    have h1 := (trAll B T [] xdwf_nil fuel).1 0 d 0 (pushItems (n + 1) dep s)
    rw [next1_pushItems_succ] at h1
    refine TrD.bind h1 ?_
    intro ⟨k, d1⟩
    dsimp only
    split
    · refine TrD.bind (tr_decCompactKeys fuel n d1 dep s) ?_
      intro ⟨ks, d2⟩
      exact TrD.pure rfl
    · exact TrD.fail

theorem tr_newCompactMapExtraData (fuel : Nat) (tis : List TyInfo) (d : Dec) (stk : List Frame) (c : Nat) :
    TrD B T (fun r : XD × Dec => r.2) (newCompactMapExtraData fuel tis d) d stk c (next1 stk) := by
  unfold newCompactMapExtraData
  refine TrD.arrayHead ?_
  intro len d1
  dsimp only
  apply TrD.ite <;> intro hl
  · exact TrD.fail
  · have hl3 : len = 3 := by simp only [compactMapExtraDataLength] at hl; omega
    subst hl3
    refine TrD.bind (tr_newMapExtraData tis d1 _ _) ?_
    intro ⟨x, d2⟩
    dsimp only
    rw [next1_pushItems_succ]
    refine TrD.bytes ?_
    intro db d3
    dsimp only
    rw [next1_pushItems_succ]
    apply TrD.ite <;> intro _
    · exact TrD.fail
    · apply TrD.ite <;> intro _
      · exact TrD.fail
      · refine TrD.arrayHead ?_
        intro kc d4
        dsimp only
        rw [next1_pushItems_succ]
        simp only [pushItems]
        apply TrD.ite <;> intro hk
        · exact TrD.fail
        · have hdiv : db.length / digestSize ≤ db.length := Nat.div_le_self _ _
          refine TrD.alloc (k := db.length / digestSize) (by omega) ?_
          refine TrD.alloc (k := kc) (by omega) ?_
          refine TrD.weaken (c := 0) ?_ (Nat.zero_le _)
          refine TrD.bind (tr_decCompactKeys fuel kc d4 _ (next1 stk)) ?_
          intro ⟨keys, d5⟩
          exact TrD.pure rfl

theorem tr_decTypeInfos : ∀ (n : Nat) (d : Dec) (dep : Nat) (s : List Frame),
    TrD B T (fun r : List TyInfo × Dec => r.2) (decTypeInfos n d) d (pushItems n dep s) 0 s
  | 0, d, dep, s => by unfold decTypeInfos; exact TrD.pure rfl
  | n + 1, d, dep, s => by
    unfold decTypeInfos
    have h1 := tr_decodeTypeInfo (B := B) (T := T) d (pushItems (n + 1) dep s) 0
    rw [next1_pushItems_succ] at h1
    refine TrD.bind h1 ?_
    intro ⟨t, d1⟩
    dsimp only
    refine TrD.bind (tr_decTypeInfos n d1 dep s) ?_
    intro ⟨ts, d2⟩
    exact TrD.pure rfl

theorem tr_decXD (fuel : Nat) (tis : List TyInfo) (d : Dec) (stk : List Frame) (c : Nat) :
    TrD B T (fun r : XD × Dec => r.2) (decXD fuel tis d) d stk c (next1 stk) := by
  unfold decXD
  refine TrD.tagNumber ?_
  intro tn d1
  dsimp only
  apply TrD.ite <;> intro _
  · have h := tr_newArrayExtraDataRef (B := B) (T := T) tis d1
      (.tag (if topInTag stk then topDepth stk + 1 else topDepth stk) :: next1 stk) c
    rw [next1_tag] at h
    refine TrD.bind h ?_
    intro ⟨ty, d2⟩
    exact TrD.pure rfl
  · apply TrD.ite <;> intro _
    · have h := tr_newMapExtraData (B := B) (T := T) tis d1
        (.tag (if topInTag stk then topDepth stk + 1 else topDepth stk) :: next1 stk) c
      rw [next1_tag] at h
      refine TrD.bind h ?_
      intro ⟨mx, d2⟩
      exact TrD.pure rfl
    · apply TrD.ite <;> intro _
      · have h := tr_newCompactMapExtraData (B := B) (T := T) fuel tis d1
          (.tag (if topInTag stk then topDepth stk + 1 else topDepth stk) :: next1 stk) c
        rw [next1_tag] at h
        exact h
      · exact TrD.fail

theorem tr_decXDs (fuel : Nat) (tis : List TyInfo) : ∀ (n : Nat) (d : Dec) (dep : Nat) (s : List Frame),
    TrD B T (fun r : List XD × Dec => r.2) (decXDs fuel tis n d) d (pushItems n dep s) 0 s
  | 0, d, dep, s => by unfold decXDs; exact TrD.pure rfl
  | n + 1, d, dep, s => by
    unfold decXDs
    have h1 := tr_decXD (B := B) (T := T) fuel tis d (pushItems (n + 1) dep s) 0
    rw [next1_pushItems_succ] at h1
    refine TrD.bind h1 ?_
    intro ⟨x, d1⟩
    dsimp only
    refine TrD.bind (tr_decXDs fuel tis n d1 dep s) ?_
    intro ⟨xs, d2⟩
    exact TrD.pure rfl

end

/-! ### the entries have one digest per key -/

theorem digestsOf_length : ∀ (n : Nat) (b : Bytes), (digestsOf n b).length = n
  | 0, _ => rfl
  | n + 1, b => by simp [digestsOf, digestsOf_length n]

theorem post_decCompactKeys (fuel : Nat) : ∀ (n : Nat) (d : Dec),
    Post (fun r : List (Nat × Nat) × Dec => r.1.length = n) (decCompactKeys fuel n d)
  | 0, d => by unfold decCompactKeys; exact Post.pure rfl
  | n + 1, d => by
    unfold decCompactKeys
    refine Post.bind (Post.triv _) ?_
    intro ⟨k, d1⟩ _
    dsimp only
    split
    · refine Post.bind (post_decCompactKeys fuel n d1) ?_
      intro ⟨ks, d2⟩ hks
      exact Post.pure (by simp only [List.length_cons]; simp only at hks; omega)
    · exact Post.fail

def XDWf1 : XD → Prop
  | .cmap _ hkeys keys => hkeys.length = keys.length
  | _ => True

theorem xdwf_iff (xs : List XD) : XDWf xs ↔ ∀ x ∈ xs, XDWf1 x := by
  unfold XDWf
  constructor
  · intro h x hx; have := h x hx; cases x <;> simpa [XDWf1] using this
  · intro h x hx; have := h x hx; cases x <;> simpa [XDWf1] using this

theorem post_newCompactMapExtraData (fuel : Nat) (tis : List TyInfo) (d : Dec) :
    Post (fun r : XD × Dec => XDWf1 r.1) (newCompactMapExtraData fuel tis d) := by
  unfold newCompactMapExtraData
  refine Post.bind (Post.triv _) ?_
  intro ⟨len, d1⟩ _
  dsimp only
  apply Post.ite Post.fail
  refine Post.bind (Post.triv _) ?_
  intro ⟨x, d2⟩ _
  dsimp only
  refine Post.bind (Post.triv _) ?_
  intro ⟨db, d3⟩ _
  dsimp only
  apply Post.ite Post.fail
  apply Post.ite Post.fail
  refine Post.bind (Post.triv _) ?_
  intro ⟨kc, d4⟩ _
  dsimp only
  apply Post.iteH <;> intro hk
  · exact Post.fail
  · refine Post.bind (Post.triv _) ?_
    intro _ _
    refine Post.bind (Post.triv _) ?_
    intro _ _
    refine Post.bind (post_decCompactKeys fuel kc d4) ?_
    intro ⟨keys, d5⟩ hkeys
    refine Post.pure ?_
    have hk2 : keys.length = kc := hkeys
    simp only [XDWf1, digestsOf_length]
    omega

theorem post_decXD (fuel : Nat) (tis : List TyInfo) (d : Dec) :
    Post (fun r : XD × Dec => XDWf1 r.1) (decXD fuel tis d) := by
  unfold decXD
  refine Post.bind (Post.triv _) ?_
  intro ⟨tn, d1⟩ _
  dsimp only
  apply Post.ite
  · refine Post.bind (Post.triv _) ?_
    intro ⟨ty, d2⟩ _
    exact Post.pure trivial
  · apply Post.ite
    · refine Post.bind (Post.triv _) ?_
      intro ⟨mx, d2⟩ _
      exact Post.pure trivial
    · exact Post.ite (post_newCompactMapExtraData fuel tis d1) Post.fail

theorem post_decXDs (fuel : Nat) (tis : List TyInfo) : ∀ (n : Nat) (d : Dec),
    Post (fun r : List XD × Dec => XDWf r.1) (decXDs fuel tis n d)
  | 0, d => by unfold decXDs; exact Post.pure xdwf_nil
  | n + 1, d => by
    unfold decXDs
    refine Post.bind (post_decXD fuel tis d) ?_
    intro ⟨x, d1⟩ hx
    dsimp only
    refine Post.bind (post_decXDs fuel tis n d1) ?_
    intro ⟨xs, d2⟩ hxs
    refine Post.pure ?_
    rw [xdwf_iff] at hxs ⊢
    intro y hy
    simp only [List.mem_cons] at hy
    rcases hy with rfl | hy
    · exact hx
    · exact hxs y hy

theorem post_newInlinedExtraDataFromData (data : Bytes) :
    Post (fun r : List XD × Bytes => XDWf r.1) (newInlinedExtraDataFromData data) := by
  unfold newInlinedExtraDataFromData
  refine Post.bind (Post.triv _) ?_
  intro ⟨count, d1⟩ _
  dsimp only
  apply Post.ite Post.fail
  refine Post.bind (Post.triv _) ?_
  intro ⟨tic, d2⟩ _
  dsimp only
  apply Post.ite Post.fail
  refine Post.bind (Post.triv _) ?_
  intro _ _
  refine Post.bind (Post.triv _) ?_
  intro ⟨tis, d3⟩ _
  dsimp only
  refine Post.bind (Post.triv _) ?_
  intro ⟨xc, d4⟩ _
  dsimp only
  apply Post.ite Post.fail
  apply Post.ite Post.fail
  refine Post.bind (Post.triv _) ?_
  intro _ _
  refine Post.bind (post_decXDs _ tis xc d4) ?_
  intro ⟨xs, d5⟩ hxs
  dsimp only
  refine Post.bind (Post.triv _) ?_
  intro rest _
  exact Post.pure hxs

end Atree.Codec
