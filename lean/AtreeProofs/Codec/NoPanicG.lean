import AtreeProofs.Codec.NoPanic
/-
  No-panic proofs for the SECOND part of the decoder (`decodeSlabGen`: general storables, map
  slabs, inlined slabs, the inlined-extra-data section), and for `decodeSlab`.

  `NP m P`: `m`, started with any allocation counter, does not panic and returns a value satisfying
  `P` when it succeeds (`Safe` without the allocation budget; the allocation bound of the second
  part is proved separately).
-/
namespace Atree.Codec
open DM Atree.Gen

def NP {α : Type} (m : DM α) (P : α → Prop) : Prop :=
  ∀ n, match m n with
       | .ok a _ => P a
       | .error _ _ => True
       | .panic => False

namespace NP
variable {α β : Type}

theorem pure {a : α} {P : α → Prop} (h : P a) : NP (Pure.pure a : DM α) P := by
  intro n; exact h

theorem fail {e : DErr} {P : α → Prop} : NP (DM.fail e : DM α) P := by
  intro n; exact trivial

theorem alloc (k : Nat) : NP (DM.alloc k) (fun _ => True) := by
  intro n; exact trivial

theorem bind {m : DM α} {f : α → DM β} {P : α → Prop} {Q : β → Prop}
    (hm : NP m P) (hf : ∀ a, P a → NP (f a) Q) : NP (m >>= f) Q := by
  intro n
  have h1 := hm n
  show match DM.bind' m f n with
       | .ok a _ => Q a
       | .error _ _ => True
       | .panic => False
  unfold DM.bind'
  cases hmn : m n with
  | ok a n' => rw [hmn] at h1; exact hf a h1 n'
  | error e n' => trivial
  | panic => rw [hmn] at h1; exact h1

theorem weaken {m : DM α} {P Q : α → Prop} (hm : NP m P) (hpq : ∀ a, P a → Q a) : NP m Q := by
  intro n
  have h := hm n
  cases hmn : m n with
  | ok a n' => rw [hmn] at h; exact hpq a h
  | error e n' => trivial
  | panic => rw [hmn] at h; exact h

theorem ite {c : Prop} [Decidable c] {a b : DM α} {P : α → Prop}
    (ha : c → NP a P) (hb : ¬c → NP b P) : NP (if c then a else b) P := by
  split
  · exact ha ‹_›
  · exact hb ‹_›

theorem liftOpt (o : Option α) : NP (DM.liftOpt o) (fun a => o = some a) := by
  cases o with
  | none => exact fail
  | some a => exact pure rfl

theorem of_safe {m : DM α} {k : Nat} {P : α → Prop} (h : Safe m k P) : NP m P := by
  intro n
  have := h n
  cases hmn : m n with
  | ok a n' => rw [hmn] at this; exact this.2
  | error e n' => trivial
  | panic => rw [hmn] at this; exact this

theorem sliceTo {data : Bytes} {b : Nat} (h : b ≤ data.length) :
    NP (sliceTo data b) (fun r => r = data.take b) := of_safe (Safe.sliceTo h)

theorem sliceFrom {data : Bytes} {a : Nat} (h : a ≤ data.length) :
    NP (sliceFrom data a) (fun r => r = data.drop a) := of_safe (Safe.sliceFrom h)

theorem be16 {b : Bytes} (h : 2 ≤ b.length) : NP (be16 b) (fun _ => True) :=
  weaken (of_safe (Safe.be16 h)) (fun _ _ => trivial)

theorem be32 {b : Bytes} (h : 4 ≤ b.length) : NP (be32 b) (fun _ => True) :=
  weaken (of_safe (Safe.be32 h)) (fun _ _ => trivial)

theorem be64 {b : Bytes} (h : 8 ≤ b.length) : NP (be64 b) (fun _ => True) := by
  unfold Codec.be64; rw [if_pos h]; exact pure trivial

theorem ne_panic {m : DM α} {P : α → Prop} (h : NP m P) (n : Nat) : m n ≠ .panic := by
  intro hp
  have := h n
  rw [hp] at this
  exact this

end NP

/-! ### the CBOR library's raw-bytes call -/

theorem decodeRawBytes_inv {t : Nat} {b : Bytes} {d d' : Dec} (hi : DecInv t d)
    (h : d.decodeRawBytes = some (b, d')) : DecInv t d' := by
  unfold Dec.decodeRawBytes at h
  cases hp : d.prepareNext with
  | none => rw [hp] at h; cases h
  | some d1 =>
    rw [hp] at h
    have hi1 := prepareNext_inv hi hp
    simp only at h
    cases hw : wfNext d1.data with
    | none => rw [hw] at h; cases h
    | some rest =>
      rw [hw] at h
      simp only at h
      cases ha : d1.advance rest with
      | none => rw [ha] at h; cases h
      | some d2 =>
        rw [ha] at h
        cases h
        exact (advance_inv hi1 (Nat.le_of_lt (wfNext_length hw)) ha).1

theorem np_getXD (xs : List XD) (i : Nat) : NP (getXD xs i) (fun _ => True) := by
  unfold getXD
  apply NP.ite <;> intro h
  · exact NP.fail
  · have : i < xs.length := by omega
    rw [List.getElem?_eq_getElem this]
    exact NP.pure trivial

theorem np_decodeIdx {t : Nat} {d : Dec} (hi : DecInv t d) :
    NP (decodeIdx d) (fun r => DecInv t r.2) := by
  unfold decodeIdx
  refine NP.bind (NP.liftOpt _) ?_
  intro ⟨b, d1⟩ h1
  dsimp only
  apply NP.ite <;> intro _
  · exact NP.fail
  · exact NP.pure (decodeBytes_inv hi h1).1

theorem np_decodeSlabIDStorable {t : Nat} {d : Dec} (hi : DecInv t d) :
    NP (decodeSlabIDStorable d) (fun r => DecInv t r.2) := NP.of_safe (safe_decodeSlabIDStorable hi)

/-! ### the mutually recursive element decoders -/

/-- the statement proved for all eleven functions at one fuel value -/
def NPAll (t fuel : Nat) : Prop :=
  (∀ depth d addr xs, DecInv t d → NP (decStG fuel depth d addr xs) (fun r => DecInv t r.2)) ∧
  (∀ n cdepth d addr xs size, DecInv t d → NP (decStsG fuel n cdepth d addr xs size) (fun r => DecInv t r.2.2)) ∧
  (∀ cdepth d addr xs, DecInv t d → NP (decInlArr fuel cdepth d addr xs) (fun r => DecInv t r.2)) ∧
  (∀ cdepth d addr xs, DecInv t d → NP (decInlMap fuel cdepth d addr xs) (fun r => DecInv t r.2)) ∧
  (∀ cdepth d addr xs, DecInv t d → NP (decInlCMap fuel cdepth d addr xs) (fun r => DecInv t r.2)) ∧
  (∀ ks cdepth d addr xs size, DecInv t d → NP (decCVals fuel ks cdepth d addr xs size) (fun r => DecInv t r.2.2)) ∧
  (∀ cdepth d addr xs, DecInv t d → NP (decMElsG fuel cdepth d addr xs) (fun r => DecInv t r.2)) ∧
  (∀ cdepth d addr xs, DecInv t d → NP (decSElG fuel cdepth d addr xs) (fun r => DecInv t r.2)) ∧
  (∀ n cdepth d addr xs size, DecInv t d → NP (decSElsG fuel n cdepth d addr xs size) (fun r => DecInv t r.2.2)) ∧
  (∀ cdepth d addr xs, DecInv t d → NP (decMElG fuel cdepth d addr xs) (fun r => DecInv t r.2)) ∧
  (∀ n cdepth d addr xs size, DecInv t d → NP (decMElListG fuel n cdepth d addr xs size) (fun r => DecInv t r.2.2))


theorem npAll_zero (t : Nat) : NPAll t 0 := by
  refine ⟨?_, ?_, ?_, ?_, ?_, ?_, ?_, ?_, ?_, ?_, ?_⟩
  · intro depth d addr xs _; unfold decStG; exact NP.fail
  · intro n cdepth d addr xs size hi
    cases n with
    | zero => unfold decStsG; exact NP.pure hi
    | succ n => unfold decStsG; exact NP.fail
  · intro cdepth d addr xs _; unfold decInlArr; exact NP.fail
  · intro cdepth d addr xs _; unfold decInlMap; exact NP.fail
  · intro cdepth d addr xs _; unfold decInlCMap; exact NP.fail
  · intro ks cdepth d addr xs size hi
    cases ks with
    | nil => unfold decCVals; exact NP.pure hi
    | cons k ks => unfold decCVals; exact NP.fail
  · intro cdepth d addr xs _; unfold decMElsG; exact NP.fail
  · intro cdepth d addr xs _; unfold decSElG; exact NP.fail
  · intro n cdepth d addr xs size hi
    cases n with
    | zero => unfold decSElsG; exact NP.pure hi
    | succ n => unfold decSElsG; exact NP.fail
  · intro cdepth d addr xs _; unfold decMElG; exact NP.fail
  · intro n cdepth d addr xs size hi
    cases n with
    | zero => unfold decMElListG; exact NP.pure hi
    | succ n => unfold decMElListG; exact NP.fail

theorem npAll_succ (t fuel : Nat) (ih : NPAll t fuel) : NPAll t (fuel + 1) := by
  obtain ⟨ihSt, ihSts, ihArr, ihMap, ihCMap, ihCVals, ihMEls, ihSEl, ihSEls, ihMEl, ihMElList⟩ := ih
  refine ⟨?_, ?_, ?_, ?_, ?_, ?_, ?_, ?_, ?_, ?_, ?_⟩
  · -- decStG
    intro depth d addr xs hi
    unfold decStG
    apply NP.ite <;> intro _
    · exact NP.fail
    · refine NP.bind (NP.liftOpt _) ?_
      intro ⟨ty, d1⟩ h1
      have hi1 := nextType_inv hi h1
      dsimp only
      split
      · refine NP.bind (NP.liftOpt _) ?_
        intro ⟨b, d2⟩ h2
        exact NP.pure (decodeBytes_inv hi1 h2).1
      · refine NP.bind (NP.liftOpt _) ?_
        intro ⟨n, d2⟩ h2
        have hi2 := decodeHeadOf_inv hi1 h2
        dsimp only
        repeat' apply NP.ite <;> intro _
        · exact ihArr _ _ _ _ hi2
        · exact ihMap _ _ _ _ hi2
        · exact ihCMap _ _ _ _ hi2
        · refine NP.bind (np_decodeSlabIDStorable hi2) ?_
          intro ⟨e, d3⟩ h3
          exact NP.pure h3
        · refine NP.bind (NP.liftOpt _) ?_
          intro ⟨b, d3⟩ h3
          exact NP.pure (decodeBytes_inv hi2 h3).1
        · refine NP.bind (ihSt _ _ _ _ hi2) ?_
          intro ⟨s, d3⟩ h3
          exact NP.pure h3
        · exact NP.fail
      · exact NP.fail
  · -- decStsG
    intro n cdepth d addr xs size hi
    cases n with
    | zero => unfold decStsG; exact NP.pure hi
    | succ n =>
      unfold decStsG
      refine NP.bind (ihSt _ _ _ _ hi) ?_
      intro ⟨e, d1⟩ h1
      dsimp only at h1 ⊢
      apply NP.ite <;> intro _
      · exact NP.fail
      · refine NP.bind (ihSts _ _ _ _ _ _ h1) ?_
        intro ⟨es, sz, d2⟩ h2
        exact NP.pure h2
  · -- decInlArr
    intro cdepth d addr xs hi
    unfold decInlArr
    refine NP.bind (NP.liftOpt _) ?_
    intro ⟨c, d1⟩ h1
    have hi1 := decodeHeadOf_inv hi h1
    dsimp only
    apply NP.ite <;> intro _
    · exact NP.fail
    · refine NP.bind (NP.liftOpt _) ?_
      intro ⟨i, d2⟩ h2
      have hi2 := decodeHeadOf_inv hi1 h2
      dsimp only
      refine NP.bind (np_getXD xs i) ?_
      intro x _
      split
      · refine NP.bind (np_decodeIdx hi2) ?_
        intro ⟨idx, d3⟩ hi3
        dsimp only at hi3 ⊢
        refine NP.bind (NP.liftOpt _) ?_
        intro ⟨n, d4⟩ h4
        have hi4 := decodeHeadOf_inv hi3 h4
        dsimp only
        apply NP.ite <;> intro _
        · exact NP.fail
        · refine NP.bind (NP.alloc n) ?_
          intro _ _
          refine NP.bind (ihSts _ _ _ _ _ _ hi4) ?_
          intro ⟨es, sz, d5⟩ h5
          exact NP.pure h5
      · exact NP.fail
  · -- decInlMap
    intro cdepth d addr xs hi
    unfold decInlMap
    refine NP.bind (NP.liftOpt _) ?_
    intro ⟨c, d1⟩ h1
    have hi1 := decodeHeadOf_inv hi h1
    dsimp only
    apply NP.ite <;> intro _
    · exact NP.fail
    · refine NP.bind (NP.liftOpt _) ?_
      intro ⟨i, d2⟩ h2
      have hi2 := decodeHeadOf_inv hi1 h2
      dsimp only
      refine NP.bind (np_getXD xs i) ?_
      intro x _
      split
      · refine NP.bind (np_decodeIdx hi2) ?_
        intro ⟨idx, d3⟩ hi3
        dsimp only at hi3 ⊢
        refine NP.bind (ihMEls _ _ _ _ hi3) ?_
        intro ⟨els, d4⟩ h4
        dsimp only at h4 ⊢
        apply NP.ite <;> intro _
        · exact NP.fail
        · exact NP.pure h4
      · exact NP.fail
  · -- decInlCMap
    intro cdepth d addr xs hi
    unfold decInlCMap
    refine NP.bind (NP.liftOpt _) ?_
    intro ⟨c, d1⟩ h1
    have hi1 := decodeHeadOf_inv hi h1
    dsimp only
    apply NP.ite <;> intro _
    · exact NP.fail
    · refine NP.bind (NP.liftOpt _) ?_
      intro ⟨i, d2⟩ h2
      have hi2 := decodeHeadOf_inv hi1 h2
      dsimp only
      refine NP.bind (np_getXD xs i) ?_
      intro x _
      split
      · refine NP.bind (np_decodeIdx hi2) ?_
        intro ⟨idx, d3⟩ hi3
        dsimp only at hi3 ⊢
        refine NP.bind (NP.liftOpt _) ?_
        intro ⟨n, d4⟩ h4
        have hi4 := decodeHeadOf_inv hi3 h4
        dsimp only
        apply NP.ite <;> intro _
        · exact NP.fail
        · refine NP.bind (NP.alloc _) ?_
          intro _ _
          refine NP.bind (NP.alloc _) ?_
          intro _ _
          refine NP.bind (ihCVals _ _ _ _ _ _ hi4) ?_
          intro ⟨es, sz, d5⟩ h5
          dsimp only at h5 ⊢
          apply NP.ite <;> intro _
          · exact NP.fail
          · exact NP.pure h5
      · exact NP.fail
  · -- decCVals
    intro ks cdepth d addr xs size hi
    cases ks with
    | nil => unfold decCVals; exact NP.pure hi
    | cons k ks =>
      unfold decCVals
      refine NP.bind (ihSt _ _ _ _ hi) ?_
      intro ⟨v, d1⟩ h1
      dsimp only at h1 ⊢
      apply NP.ite <;> intro _
      · exact NP.fail
      · apply NP.ite <;> intro _
        · exact NP.fail
        · refine NP.bind (ihCVals _ _ _ _ _ _ h1) ?_
          intro ⟨es, sz, d2⟩ h2
          exact NP.pure h2
  · -- decMElsG
    intro cdepth d addr xs hi
    unfold decMElsG
    refine NP.bind (NP.liftOpt _) ?_
    intro ⟨c, d1⟩ h1
    have hi1 := decodeHeadOf_inv hi h1
    dsimp only
    apply NP.ite <;> intro _
    · exact NP.fail
    · refine NP.bind (NP.liftOpt _) ?_
      intro ⟨level, d2⟩ h2
      have hi2 := decodeHeadOf_inv hi1 h2
      dsimp only
      refine NP.bind (NP.liftOpt _) ?_
      intro ⟨db, d3⟩ h3
      have hi3 := (decodeBytes_inv hi2 h3).1
      dsimp only
      apply NP.ite <;> intro _
      · exact NP.fail
      · refine NP.bind (NP.alloc _) ?_
        intro _ _
        refine NP.bind (NP.liftOpt _) ?_
        intro ⟨ec, d4⟩ h4
        have hi4 := decodeHeadOf_inv hi3 h4
        dsimp only
        apply NP.ite <;> intro _
        · exact NP.fail
        · apply NP.ite <;> intro _
          · exact NP.fail
          · apply NP.ite <;> intro _
            · refine NP.bind (NP.alloc _) ?_
              intro _ _
              refine NP.bind (ihSEls _ _ _ _ _ _ hi4) ?_
              intro ⟨es, sz, d5⟩ h5
              exact NP.pure h5
            · refine NP.bind (NP.alloc _) ?_
              intro _ _
              refine NP.bind (ihMElList _ _ _ _ _ _ hi4) ?_
              intro ⟨es, sz, d5⟩ h5
              exact NP.pure h5
  · -- decSElG
    intro cdepth d addr xs hi
    unfold decSElG
    refine NP.bind (NP.liftOpt _) ?_
    intro ⟨c, d1⟩ h1
    have hi1 := decodeHeadOf_inv hi h1
    dsimp only
    apply NP.ite <;> intro _
    · exact NP.fail
    · refine NP.bind (ihSt _ _ _ _ hi1) ?_
      intro ⟨k, d2⟩ h2
      dsimp only at h2 ⊢
      refine NP.bind (ihSt _ _ _ _ h2) ?_
      intro ⟨v, d3⟩ h3
      dsimp only at h3 ⊢
      apply NP.ite <;> intro _
      · exact NP.fail
      · exact NP.pure h3
  · -- decSElsG
    intro n cdepth d addr xs size hi
    cases n with
    | zero => unfold decSElsG; exact NP.pure hi
    | succ n =>
      unfold decSElsG
      refine NP.bind (ihSEl _ _ _ _ hi) ?_
      intro ⟨e, d1⟩ h1
      dsimp only at h1 ⊢
      apply NP.ite <;> intro _
      · exact NP.fail
      · refine NP.bind (ihSEls _ _ _ _ _ _ h1) ?_
        intro ⟨es, sz, d2⟩ h2
        exact NP.pure h2
  · -- decMElG
    intro cdepth d addr xs hi
    unfold decMElG
    refine NP.bind (NP.liftOpt _) ?_
    intro ⟨ty, d1⟩ h1
    have hi1 := nextType_inv hi h1
    dsimp only
    split
    · refine NP.bind (ihSEl _ _ _ _ hi1) ?_
      intro ⟨e, d2⟩ h2
      exact NP.pure h2
    · refine NP.bind (NP.liftOpt _) ?_
      intro ⟨n, d2⟩ h2
      have hi2 := decodeHeadOf_inv hi1 h2
      dsimp only
      apply NP.ite <;> intro _
      · refine NP.bind (ihMEls _ _ _ _ hi2) ?_
        intro ⟨els, d3⟩ h3
        exact NP.pure h3
      · apply NP.ite <;> intro _
        · refine NP.bind (ihSt _ _ _ _ hi2) ?_
          intro ⟨s, d3⟩ h3
          dsimp only at h3 ⊢
          split
          · exact NP.pure h3
          · exact NP.fail
        · exact NP.fail
    · exact NP.fail
  · -- decMElListG
    intro n cdepth d addr xs size hi
    cases n with
    | zero => unfold decMElListG; exact NP.pure hi
    | succ n =>
      unfold decMElListG
      refine NP.bind (ihMEl _ _ _ _ hi) ?_
      intro ⟨e, d1⟩ h1
      dsimp only at h1 ⊢
      apply NP.ite <;> intro _
      · exact NP.fail
      · refine NP.bind (ihMElList _ _ _ _ _ _ h1) ?_
        intro ⟨es, sz, d2⟩ h2
        exact NP.pure h2

theorem npAll (t : Nat) : ∀ fuel, NPAll t fuel
  | 0 => npAll_zero t
  | fuel + 1 => npAll_succ t fuel (npAll t fuel)

theorem np_decStG {t : Nat} (fuel depth : Nat) {d : Dec} (addr : Nat) (xs : List XD) (hi : DecInv t d) :
    NP (decStG fuel depth d addr xs) (fun r => DecInv t r.2) := (npAll t fuel).1 _ _ _ _ hi

theorem np_decStsG {t : Nat} (fuel n cdepth : Nat) {d : Dec} (addr : Nat) (xs : List XD) (size : Nat)
    (hi : DecInv t d) : NP (decStsG fuel n cdepth d addr xs size) (fun r => DecInv t r.2.2) :=
  (npAll t fuel).2.1 _ _ _ _ _ _ hi

theorem np_decMElsG {t : Nat} (fuel cdepth : Nat) {d : Dec} (addr : Nat) (xs : List XD) (hi : DecInv t d) :
    NP (decMElsG fuel cdepth d addr xs) (fun r => DecInv t r.2) :=
  (npAll t fuel).2.2.2.2.2.2.1 _ _ _ _ hi

/-! ### extra data, the inlined-extra-data section -/

theorem np_decodeTypeInfo {t : Nat} {d : Dec} (hi : DecInv t d) :
    NP (decodeTypeInfo d) (fun r => DecInv t r.2) := NP.of_safe (safe_decodeTypeInfo hi)

theorem np_typeInfoAsIs (raw : Bytes) : NP (typeInfoAsIs raw) (fun _ => True) := by
  unfold typeInfoAsIs
  refine NP.bind (np_decodeTypeInfo (DecInv.new raw)) ?_
  intro ⟨ty, _⟩ _
  exact NP.pure trivial

theorem np_typeInfoByRef (tis : List TyInfo) (raw : Bytes) (hl : 2 < raw.length) :
    NP (typeInfoByRef tis raw) (fun _ => True) := by
  unfold typeInfoByRef
  refine NP.bind (NP.sliceFrom (by omega)) ?_
  intro r _
  refine NP.bind (NP.liftOpt _) ?_
  intro index _
  apply NP.ite <;> intro hge
  · exact NP.fail
  · have : index < tis.length := by omega
    rw [List.getElem?_eq_getElem this]
    exact NP.pure trivial

theorem np_typeInfoOfRaw (tis : List TyInfo) (raw : Bytes) : NP (typeInfoOfRaw tis raw) (fun _ => True) := by
  unfold typeInfoOfRaw
  apply NP.ite <;> intro hl
  · refine NP.bind (NP.sliceTo (by omega)) ?_
    intro p _
    apply NP.ite <;> intro _
    · exact np_typeInfoByRef tis raw hl
    · exact np_typeInfoAsIs raw
  · exact np_typeInfoAsIs raw

theorem np_decodeTypeInfoRef {t : Nat} (tis : List TyInfo) {d : Dec} (hi : DecInv t d) :
    NP (decodeTypeInfoRef tis d) (fun r => DecInv t r.2) := by
  unfold decodeTypeInfoRef
  apply NP.ite <;> intro _
  · exact np_decodeTypeInfo hi
  · refine NP.bind (NP.liftOpt _) ?_
    intro ⟨raw, d1⟩ h1
    have hi1 := decodeRawBytes_inv hi h1
    dsimp only
    refine NP.bind (np_typeInfoOfRaw tis raw) ?_
    intro ty _
    exact NP.pure hi1

theorem np_newMapExtraData {t : Nat} (tis : List TyInfo) {d : Dec} (hi : DecInv t d) :
    NP (newMapExtraData tis d) (fun r => DecInv t r.2) := by
  unfold newMapExtraData
  refine NP.bind (NP.liftOpt _) ?_
  intro ⟨n, d1⟩ h1
  have hi1 := decodeHeadOf_inv hi h1
  dsimp only
  apply NP.ite <;> intro _
  · exact NP.fail
  · refine NP.bind (np_decodeTypeInfoRef tis hi1) ?_
    intro ⟨ty, d2⟩ hi2
    dsimp only at hi2 ⊢
    refine NP.bind (NP.liftOpt _) ?_
    intro ⟨c, d3⟩ h3
    have hi3 := decodeHeadOf_inv hi2 h3
    dsimp only
    refine NP.bind (NP.liftOpt _) ?_
    intro ⟨sd, d4⟩ h4
    exact NP.pure (decodeHeadOf_inv hi3 h4)

theorem np_newMapExtraDataFromData (data : Bytes) :
    NP (newMapExtraDataFromData data) (fun r => r.2.length ≤ data.length) := by
  unfold newMapExtraDataFromData
  refine NP.bind (np_newMapExtraData [] (DecInv.new data)) ?_
  intro ⟨x, d⟩ hd
  dsimp only at hd ⊢
  refine NP.bind (NP.sliceFrom hd.consumed_le) ?_
  intro rest hr
  refine NP.pure ?_
  subst hr
  simp only [List.length_drop]; omega

theorem np_newArrayExtraDataRef {t : Nat} (tis : List TyInfo) {d : Dec} (hi : DecInv t d) :
    NP (newArrayExtraDataRef tis d) (fun r => DecInv t r.2) := by
  unfold newArrayExtraDataRef
  refine NP.bind (NP.liftOpt _) ?_
  intro ⟨n, d1⟩ h1
  have hi1 := decodeHeadOf_inv hi h1
  dsimp only
  apply NP.ite <;> intro _
  · exact NP.fail
  · exact np_decodeTypeInfoRef tis hi1

theorem np_decCompactKeys {t : Nat} (fuel : Nat) : ∀ (n : Nat) (d : Dec), DecInv t d →
    NP (decCompactKeys fuel n d) (fun r => DecInv t r.2) := by
  intro n
  induction n with
  | zero => intro d hi; unfold decCompactKeys; exact NP.pure hi
  | succ n ih =>
    intro d hi
    unfold decCompactKeys
    refine NP.bind (np_decStG fuel 0 0 [] hi) ?_
    intro ⟨k, d1⟩ h1
    dsimp only at h1 ⊢
    split
    · refine NP.bind (ih _ h1) ?_
      intro ⟨ks, d2⟩ h2
      exact NP.pure h2
    · exact NP.fail

theorem np_newCompactMapExtraData {t : Nat} (fuel : Nat) (tis : List TyInfo) {d : Dec} (hi : DecInv t d) :
    NP (newCompactMapExtraData fuel tis d) (fun r => DecInv t r.2) := by
  unfold newCompactMapExtraData
  refine NP.bind (NP.liftOpt _) ?_
  intro ⟨n, d1⟩ h1
  have hi1 := decodeHeadOf_inv hi h1
  dsimp only
  apply NP.ite <;> intro _
  · exact NP.fail
  · refine NP.bind (np_newMapExtraData tis hi1) ?_
    intro ⟨x, d2⟩ hi2
    dsimp only at hi2 ⊢
    refine NP.bind (NP.liftOpt _) ?_
    intro ⟨db, d3⟩ h3
    have hi3 := (decodeBytes_inv hi2 h3).1
    dsimp only
    apply NP.ite <;> intro _
    · exact NP.fail
    · apply NP.ite <;> intro _
      · exact NP.fail
      · refine NP.bind (NP.liftOpt _) ?_
        intro ⟨kc, d4⟩ h4
        have hi4 := decodeHeadOf_inv hi3 h4
        dsimp only
        apply NP.ite <;> intro _
        · exact NP.fail
        · refine NP.bind (NP.alloc _) ?_
          intro _ _
          refine NP.bind (NP.alloc _) ?_
          intro _ _
          refine NP.bind (np_decCompactKeys fuel _ _ hi4) ?_
          intro ⟨keys, d5⟩ h5
          exact NP.pure h5

theorem np_decTypeInfos {t : Nat} : ∀ (n : Nat) (d : Dec), DecInv t d →
    NP (decTypeInfos n d) (fun r => DecInv t r.2) := by
  intro n
  induction n with
  | zero => intro d hi; unfold decTypeInfos; exact NP.pure hi
  | succ n ih =>
    intro d hi
    unfold decTypeInfos
    refine NP.bind (np_decodeTypeInfo hi) ?_
    intro ⟨ty, d1⟩ h1
    dsimp only at h1 ⊢
    refine NP.bind (ih _ h1) ?_
    intro ⟨ts, d2⟩ h2
    exact NP.pure h2

theorem np_decXD {t : Nat} (fuel : Nat) (tis : List TyInfo) {d : Dec} (hi : DecInv t d) :
    NP (decXD fuel tis d) (fun r => DecInv t r.2) := by
  unfold decXD
  refine NP.bind (NP.liftOpt _) ?_
  intro ⟨tg, d1⟩ h1
  have hi1 := decodeHeadOf_inv hi h1
  dsimp only
  apply NP.ite <;> intro _
  · refine NP.bind (np_newArrayExtraDataRef tis hi1) ?_
    intro ⟨ty, d2⟩ h2
    exact NP.pure h2
  · apply NP.ite <;> intro _
    · refine NP.bind (np_newMapExtraData tis hi1) ?_
      intro ⟨mx, d2⟩ h2
      exact NP.pure h2
    · apply NP.ite <;> intro _
      · exact np_newCompactMapExtraData fuel tis hi1
      · exact NP.fail

theorem np_decXDs {t : Nat} (fuel : Nat) (tis : List TyInfo) : ∀ (n : Nat) (d : Dec), DecInv t d →
    NP (decXDs fuel tis n d) (fun r => DecInv t r.2) := by
  intro n
  induction n with
  | zero => intro d hi; unfold decXDs; exact NP.pure hi
  | succ n ih =>
    intro d hi
    unfold decXDs
    refine NP.bind (np_decXD fuel tis hi) ?_
    intro ⟨x, d2⟩ h2
    dsimp only at h2 ⊢
    refine NP.bind (ih _ h2) ?_
    intro ⟨rest, d3⟩ h3
    exact NP.pure h3

theorem np_newInlinedExtraDataFromData (data : Bytes) :
    NP (newInlinedExtraDataFromData data) (fun r => r.2.length ≤ data.length) := by
  unfold newInlinedExtraDataFromData
  dsimp only
  refine NP.bind (NP.liftOpt _) ?_
  intro ⟨c, d1⟩ h1
  have hi1 : DecInv data.length d1 := decodeHeadOf_inv (DecInv.new data) h1
  dsimp only
  apply NP.ite <;> intro _
  · exact NP.fail
  · refine NP.bind (NP.liftOpt _) ?_
    intro ⟨tc, d2⟩ h2
    have hi2 := decodeHeadOf_inv hi1 h2
    dsimp only
    apply NP.ite <;> intro _
    · exact NP.fail
    · refine NP.bind (NP.alloc _) ?_
      intro _ _
      refine NP.bind (np_decTypeInfos _ _ hi2) ?_
      intro ⟨tis, d3⟩ hi3
      dsimp only at hi3 ⊢
      refine NP.bind (NP.liftOpt _) ?_
      intro ⟨xc, d4⟩ h4
      have hi4 := decodeHeadOf_inv hi3 h4
      dsimp only
      apply NP.ite <;> intro _
      · exact NP.fail
      · apply NP.ite <;> intro _
        · exact NP.fail
        · refine NP.bind (NP.alloc _) ?_
          intro _ _
          refine NP.bind (np_decXDs _ tis _ _ hi4) ?_
          intro ⟨xs, d5⟩ hi5
          dsimp only at hi5 ⊢
          refine NP.bind (NP.sliceFrom hi5.consumed_le) ?_
          intro rest hr
          refine NP.pure ?_
          subst hr
          simp only [List.length_drop]; omega

/-! ### map data slabs -/

theorem np_mapDataContent (id : SlabID) (h : SlabHead) (extra : Option MapExtra) (next : SlabID)
    (xs : List XD) (data : Bytes) : NP (mapDataContent id h extra next xs data) (fun _ => True) := by
  unfold mapDataContent
  refine NP.bind (np_decMElsG _ _ _ _ (DecInv.new data)) ?_
  intro ⟨els, d⟩ _
  dsimp only
  apply NP.ite <;> intro _
  · exact NP.fail
  · apply NP.ite <;> intro _
    · exact NP.fail
    · exact NP.pure trivial

theorem np_nextThen {α : Type} (data : Bytes) (f : SlabID → Bytes → DM α)
    (hf : ∀ next rest, NP (f next rest) (fun _ => True)) (hlen : ¬ data.length < SlabIDLength) :
    NP (do let next ← newSlabIDFromRawBytes data; let rest ← sliceFrom data SlabIDLength; f next rest)
       (fun _ => True) := by
  refine NP.bind (NP.of_safe (safe_newSlabIDFromRawBytes data)) ?_
  intro next _
  refine NP.bind (NP.sliceFrom (Nat.le_of_not_lt hlen)) ?_
  intro rest _
  exact hf next rest

theorem np_newMapDataSlabFromDataV0 (id : SlabID) (h : SlabHead) (data : Bytes) :
    NP (newMapDataSlabFromDataV0 id h data) (fun _ => True) := by
  unfold newMapDataSlabFromDataV0
  apply NP.ite <;> intro _
  · refine NP.bind (np_newMapExtraDataFromData data) ?_
    intro ⟨x, rest⟩ _
    dsimp only
    apply NP.ite <;> intro hlen
    · exact NP.fail
    · refine NP.bind (NP.sliceFrom (Nat.le_of_not_lt hlen)) ?_
      intro rest2 _
      exact np_mapDataContent _ _ _ _ _ _
  · apply NP.ite <;> intro hlen
    · exact NP.fail
    · exact np_nextThen data _ (fun _ _ => np_mapDataContent _ _ _ _ _ _) hlen

theorem np_mapDataV1AfterIED (id : SlabID) (h : SlabHead) (extra : Option MapExtra) (xs : List XD) (data : Bytes) :
    NP (mapDataV1AfterIED id h extra xs data) (fun _ => True) := by
  unfold mapDataV1AfterIED
  apply NP.ite <;> intro _
  · apply NP.ite <;> intro hlen
    · exact NP.fail
    · exact np_nextThen data _ (fun _ _ => np_mapDataContent _ _ _ _ _ _) hlen
  · exact np_mapDataContent _ _ _ _ _ _

theorem np_mapDataV1AfterExtra (id : SlabID) (h : SlabHead) (extra : Option MapExtra) (data : Bytes) :
    NP (mapDataV1AfterExtra id h extra data) (fun _ => True) := by
  unfold mapDataV1AfterExtra
  apply NP.ite <;> intro _
  · refine NP.bind (np_newInlinedExtraDataFromData data) ?_
    intro ⟨xs, rest⟩ _
    exact np_mapDataV1AfterIED _ _ _ _ _
  · exact np_mapDataV1AfterIED _ _ _ _ _

theorem np_newMapDataSlabFromDataV1 (id : SlabID) (h : SlabHead) (data : Bytes) :
    NP (newMapDataSlabFromDataV1 id h data) (fun _ => True) := by
  unfold newMapDataSlabFromDataV1
  apply NP.ite <;> intro _
  · refine NP.bind (np_newMapExtraDataFromData data) ?_
    intro ⟨x, rest⟩ _
    exact np_mapDataV1AfterExtra _ _ _ _
  · exact np_mapDataV1AfterExtra _ _ _ _

theorem np_newMapDataSlabFromData (id : SlabID) (data : Bytes) :
    NP (newMapDataSlabFromData id data) (fun _ => True) := by
  unfold newMapDataSlabFromData
  apply NP.ite <;> intro hlen
  · exact NP.fail
  · refine NP.bind (NP.sliceTo (Nat.le_of_not_lt hlen)) ?_
    intro hb _
    refine NP.bind (NP.of_safe (safe_newHeadFromData hb)) ?_
    intro h _
    apply NP.ite <;> intro _
    · exact NP.fail
    · refine NP.bind (NP.sliceFrom (Nat.le_of_not_lt hlen)) ?_
      intro rest _
      apply NP.ite <;> intro _
      · exact np_newMapDataSlabFromDataV0 _ _ _
      · apply NP.ite <;> intro _
        · exact np_newMapDataSlabFromDataV1 _ _ _
        · exact NP.fail

/-! ### map index slabs -/

theorem np_mapMetaLoopV0 (data : Bytes) : ∀ (n offset : Nat),
    offset + newMapMetaDataSlabFromDataV0_mapSlabHeaderSizeV0 * n ≤ data.length →
    NP (mapMetaLoopV0 data n offset) (fun _ => True) := by
  intro n
  induction n with
  | zero => intro offset _; unfold mapMetaLoopV0; exact NP.pure trivial
  | succ n ih =>
    intro offset hb
    simp only [newMapMetaDataSlabFromDataV0_mapSlabHeaderSizeV0] at hb
    unfold mapMetaLoopV0
    refine NP.bind (NP.sliceFrom (by omega)) ?_
    intro b _
    refine NP.bind (NP.of_safe (safe_newSlabIDFromRawBytes b)) ?_
    intro sid _
    refine NP.bind (NP.sliceFrom (by simp only [SlabIDLength]; omega)) ?_
    intro fb hfb
    refine NP.bind (NP.be64 (by subst hfb; simp only [List.length_drop, SlabIDLength]; omega)) ?_
    intro fk _
    refine NP.bind (NP.sliceFrom (by simp only [SlabIDLength, digestSize]; omega)) ?_
    intro sb hsb
    refine NP.bind (NP.be32 (by subst hsb; simp only [List.length_drop, SlabIDLength, digestSize]; omega)) ?_
    intro size _
    refine NP.bind (ih _ (by simp only [newMapMetaDataSlabFromDataV0_mapSlabHeaderSizeV0]; omega)) ?_
    intro hs _
    exact NP.pure trivial

theorem np_mapMetaLoopV1 (data : Bytes) (addr : Nat) : ∀ (n offset : Nat),
    offset + mapSlabHeaderSize * n ≤ data.length →
    NP (mapMetaLoopV1 data addr n offset) (fun _ => True) := by
  intro n
  induction n with
  | zero => intro offset _; unfold mapMetaLoopV1; exact NP.pure trivial
  | succ n ih =>
    intro offset hb
    simp only [mapSlabHeaderSize] at hb
    unfold mapMetaLoopV1
    refine NP.bind (NP.sliceFrom (by omega)) ?_
    intro ib _
    refine NP.bind (NP.sliceFrom (by simp only [SlabIndexLength]; omega)) ?_
    intro fb hfb
    refine NP.bind (NP.be64 (by subst hfb; simp only [List.length_drop, SlabIndexLength]; omega)) ?_
    intro fk _
    refine NP.bind (NP.sliceFrom (by simp only [SlabIndexLength, digestSize]; omega)) ?_
    intro sb hsb
    refine NP.bind (NP.be16 (by subst hsb; simp only [List.length_drop, SlabIndexLength, digestSize]; omega)) ?_
    intro size _
    refine NP.bind (ih _ (by simp only [mapSlabHeaderSize, SlabIndexLength, digestSize]; omega)) ?_
    intro hs _
    exact NP.pure trivial

theorem np_mapMetaV0AfterExtra (id : SlabID) (extra : Option MapExtra) (data : Bytes) :
    NP (mapMetaV0AfterExtra id extra data) (fun _ => True) := by
  unfold mapMetaV0AfterExtra
  apply NP.ite <;> intro hlen
  · exact NP.fail
  · simp only [newMapMetaDataSlabFromDataV0_mapMetaDataArrayHeadSizeV0] at hlen
    refine NP.bind (NP.be16 (by omega)) ?_
    intro cnt _
    refine NP.bind (NP.sliceFrom (by simp only [newMapMetaDataSlabFromDataV0_mapMetaDataArrayHeadSizeV0]; omega)) ?_
    intro rest hr
    apply NP.ite <;> intro hne
    · exact NP.fail
    · have heq : rest.length = newMapMetaDataSlabFromDataV0_mapSlabHeaderSizeV0 * cnt := by
        simpa using hne
      refine NP.bind (NP.alloc cnt) ?_
      intro _ _
      refine NP.bind (np_mapMetaLoopV0 rest cnt 0 (by omega)) ?_
      intro hs _
      exact NP.pure trivial

theorem np_newMapMetaDataSlabFromDataV0 (id : SlabID) (h : SlabHead) (data : Bytes) :
    NP (newMapMetaDataSlabFromDataV0 id h data) (fun _ => True) := by
  unfold newMapMetaDataSlabFromDataV0
  apply NP.ite <;> intro _
  · refine NP.bind (np_newMapExtraDataFromData data) ?_
    intro ⟨x, rest⟩ _
    dsimp only
    apply NP.ite <;> intro hlen
    · exact NP.fail
    · refine NP.bind (NP.sliceFrom (Nat.le_of_not_lt hlen)) ?_
      intro rest2 _
      exact np_mapMetaV0AfterExtra _ _ _
  · exact np_mapMetaV0AfterExtra _ _ _

theorem np_mapMetaV1AfterExtra (id : SlabID) (extra : Option MapExtra) (data : Bytes) :
    NP (mapMetaV1AfterExtra id extra data) (fun _ => True) := by
  unfold mapMetaV1AfterExtra
  apply NP.ite <;> intro hlen
  · exact NP.fail
  · simp only [mapMetaDataSlabPrefixSize, versionAndFlagSize] at hlen
    refine NP.bind (NP.sliceFrom (Nat.zero_le _)) ?_
    intro ab _
    refine NP.bind (NP.sliceFrom (by simp only [SlabAddressLength]; omega)) ?_
    intro cb hcb
    refine NP.bind (NP.be16 (by subst hcb; simp only [List.length_drop, SlabAddressLength]; omega)) ?_
    intro cnt _
    refine NP.bind (NP.sliceFrom (by
      simp only [SlabAddressLength, newMapMetaDataSlabFromDataV1_arrayHeaderSize]; omega)) ?_
    intro tail ht
    apply NP.ite <;> intro hne
    · exact NP.fail
    · have heq : tail.length = mapSlabHeaderSize * cnt := by simpa using hne
      have htl : tail.length + 10 = data.length := by
        subst ht
        simp only [List.length_drop, SlabAddressLength, newMapMetaDataSlabFromDataV1_arrayHeaderSize]
        omega
      refine NP.bind (NP.alloc cnt) ?_
      intro _ _
      refine NP.bind (np_mapMetaLoopV1 data _ cnt _ (by
        simp only [SlabAddressLength, newMapMetaDataSlabFromDataV1_arrayHeaderSize]; omega)) ?_
      intro hs _
      exact NP.pure trivial

theorem np_newMapMetaDataSlabFromDataV1 (id : SlabID) (h : SlabHead) (data : Bytes) :
    NP (newMapMetaDataSlabFromDataV1 id h data) (fun _ => True) := by
  unfold newMapMetaDataSlabFromDataV1
  apply NP.ite <;> intro _
  · refine NP.bind (np_newMapExtraDataFromData data) ?_
    intro ⟨x, rest⟩ _
    exact np_mapMetaV1AfterExtra _ _ _
  · exact np_mapMetaV1AfterExtra _ _ _

theorem np_newMapMetaDataSlabFromData (id : SlabID) (data : Bytes) :
    NP (newMapMetaDataSlabFromData id data) (fun _ => True) := by
  unfold newMapMetaDataSlabFromData
  apply NP.ite <;> intro hlen
  · exact NP.fail
  · refine NP.bind (NP.sliceTo (Nat.le_of_not_lt hlen)) ?_
    intro hb _
    refine NP.bind (NP.of_safe (safe_newHeadFromData hb)) ?_
    intro h _
    apply NP.ite <;> intro _
    · exact NP.fail
    · refine NP.bind (NP.sliceFrom (Nat.le_of_not_lt hlen)) ?_
      intro rest _
      apply NP.ite <;> intro _
      · exact np_newMapMetaDataSlabFromDataV0 _ _ _
      · apply NP.ite <;> intro _
        · exact np_newMapMetaDataSlabFromDataV1 _ _ _
        · exact NP.fail

/-! ### array data slabs with general elements -/

theorem np_arrDataContentG (id : SlabID) (isRoot : Bool) (ty : Option TyInfo) (next : SlabID)
    (checkEOF : Bool) (xs : List XD) (data : Bytes) :
    NP (arrDataContentG id isRoot ty next checkEOF xs data) (fun _ => True) := by
  unfold arrDataContentG
  apply NP.ite <;> intro _
  · exact NP.fail
  · refine NP.bind (NP.liftOpt _) ?_
    intro ⟨n, d1⟩ h1
    have hi1 : DecInv data.length d1 := decodeHeadOf_inv (DecInv.new data) h1
    dsimp only
    apply NP.ite <;> intro _
    · exact NP.fail
    · refine NP.bind (NP.alloc n) ?_
      intro _ _
      refine NP.bind (np_decStsG _ _ _ _ _ _ hi1) ?_
      intro ⟨es, sz, d2⟩ _
      dsimp only
      apply NP.ite <;> intro _
      · exact NP.fail
      · exact NP.pure trivial

theorem np_newArrayExtraDataFromData (data : Bytes) :
    NP (newArrayExtraDataFromData data) (fun r => r.2.length ≤ data.length) :=
  NP.of_safe (safe_newArrayExtraDataFromData data)

theorem np_newArrayDataSlabFromDataV0G (id : SlabID) (h : SlabHead) (data : Bytes) :
    NP (newArrayDataSlabFromDataV0G id h data) (fun _ => True) := by
  unfold newArrayDataSlabFromDataV0G
  apply NP.ite <;> intro _
  · refine NP.bind (np_newArrayExtraDataFromData data) ?_
    intro ⟨ty, rest⟩ _
    dsimp only
    apply NP.ite <;> intro hlen
    · exact NP.fail
    · refine NP.bind (NP.sliceFrom (Nat.le_of_not_lt hlen)) ?_
      intro rest2 _
      exact np_arrDataContentG _ _ _ _ _ _ _
  · apply NP.ite <;> intro hlen
    · exact NP.fail
    · exact np_nextThen data _ (fun _ _ => np_arrDataContentG _ _ _ _ _ _ _) hlen

theorem np_arrDataV1AfterIEDG (id : SlabID) (h : SlabHead) (ty : Option TyInfo) (xs : List XD) (data : Bytes) :
    NP (arrDataV1AfterIEDG id h ty xs data) (fun _ => True) := by
  unfold arrDataV1AfterIEDG
  apply NP.ite <;> intro _
  · -- `NewSlabIDFromRawBytes` has checked `len(data) >= SlabIDLength` before `data[SlabIDLength:]`
    unfold newSlabIDFromRawBytes
    by_cases hlen : data.length < SlabIDLength
    · rw [if_pos hlen]
      refine NP.bind (P := fun _ => False) NP.fail ?_
      intro _ hf; exact hf.elim
    · rw [if_neg hlen]
      have h8 : SlabAddressLength ≤ data.length := by
        simp only [SlabIDLength, SlabAddressLength] at *; omega
      refine NP.bind (NP.bind (NP.sliceFrom h8) (fun _ _ => NP.pure (P := fun _ => True) trivial)) ?_
      intro next _
      refine NP.bind (NP.sliceFrom (Nat.le_of_not_lt hlen)) ?_
      intro rest2 _
      exact np_arrDataContentG _ _ _ _ _ _ _
  · exact np_arrDataContentG _ _ _ _ _ _ _

theorem np_arrDataV1AfterExtraG (id : SlabID) (h : SlabHead) (ty : Option TyInfo) (data : Bytes) :
    NP (arrDataV1AfterExtraG id h ty data) (fun _ => True) := by
  unfold arrDataV1AfterExtraG
  apply NP.ite <;> intro _
  · refine NP.bind (np_newInlinedExtraDataFromData data) ?_
    intro ⟨xs, rest⟩ _
    exact np_arrDataV1AfterIEDG _ _ _ _ _
  · exact np_arrDataV1AfterIEDG _ _ _ _ _

theorem np_newArrayDataSlabFromDataV1G (id : SlabID) (h : SlabHead) (data : Bytes) :
    NP (newArrayDataSlabFromDataV1G id h data) (fun _ => True) := by
  unfold newArrayDataSlabFromDataV1G
  apply NP.ite <;> intro _
  · refine NP.bind (np_newArrayExtraDataFromData data) ?_
    intro ⟨ty, rest⟩ _
    exact np_arrDataV1AfterExtraG _ _ _ _
  · exact np_arrDataV1AfterExtraG _ _ _ _

theorem np_newArrayDataSlabFromDataG (id : SlabID) (data : Bytes) :
    NP (newArrayDataSlabFromDataG id data) (fun _ => True) := by
  unfold newArrayDataSlabFromDataG
  apply NP.ite <;> intro hlen
  · exact NP.fail
  · refine NP.bind (NP.sliceTo (Nat.le_of_not_lt hlen)) ?_
    intro hb _
    refine NP.bind (NP.of_safe (safe_newHeadFromData hb)) ?_
    intro h _
    apply NP.ite <;> intro _
    · exact NP.fail
    · refine NP.bind (NP.sliceFrom (Nat.le_of_not_lt hlen)) ?_
      intro rest _
      apply NP.ite <;> intro _
      · exact np_newArrayDataSlabFromDataV0G _ _ _
      · apply NP.ite <;> intro _
        · exact np_newArrayDataSlabFromDataV1G _ _ _
        · exact NP.fail

/-! ### `DecodeSlab` -/

theorem np_decodeSlabGen (id : SlabID) (data : Bytes) : NP (decodeSlabGen id data) (fun _ => True) := by
  unfold decodeSlabGen
  apply NP.ite <;> intro hlen
  · exact NP.fail
  · refine NP.bind (NP.sliceTo (Nat.le_of_not_lt hlen)) ?_
    intro hb _
    refine NP.bind (NP.of_safe (safe_newHeadFromData hb)) ?_
    intro h _
    split
    · split
      · exact np_newArrayDataSlabFromDataG id data
      · exact NP.of_safe (safe_newArrayMetaDataSlabFromData id data)
      · exact NP.fail
    · split
      · exact np_newMapDataSlabFromData id data
      · exact np_newMapMetaDataSlabFromData id data
      · exact np_newMapDataSlabFromData id data
      · exact NP.fail
    · refine NP.bind (NP.sliceFrom (Nat.le_of_not_lt hlen)) ?_
      intro rest _
      refine NP.bind (np_decStG _ _ _ _ (DecInv.new rest)) ?_
      intro ⟨s, d⟩ _
      exact NP.pure trivial
    · exact NP.fail

/-- `DecodeSlab` never panics: every slab kind, both parts of the decoder. -/
theorem np_decodeSlab (id : SlabID) (data : Bytes) : NP (decodeSlab id data) (fun _ => True) := by
  intro n
  unfold decodeSlab
  have h1 := safe_decodeSlabFlat id data n
  have h2 := np_decodeSlabGen id data n
  cases hf : decodeSlabFlat id data n with
  | ok s k => trivial
  | error e k =>
    cases e with
    | decoding => trivial
    | unsupported =>
      simp only
      cases hg : decodeSlabGen id data n with
      | ok s k => trivial
      | error e k => trivial
      | panic => rw [hg] at h2; exact h2
  | panic => rw [hf] at h1; exact h1

end Atree.Codec
