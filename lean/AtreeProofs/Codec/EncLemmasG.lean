import AtreeProofs.Codec.EncLemmas
/-
  Lengths of the encodings of the second part of the model: general storables (wrappers, inlined
  arrays and maps, compact maps), map elements, map data / index slabs.

  `(encSt s xs).1.length ≤ s.size`, with equality unless some inlined map is written in the compact
  form (whose keys and digests are hoisted into the shared inlined-extra-data section).
-/
namespace Atree.Codec
open Atree Atree.Gen

/-! ### what the encoders rely on -/

mutual
/-- plain values are values of the harness (`validElem`), `hkeyElements` have one digest per element -/
def Stor.OK : Stor → Prop
  | .val size pay => validElem { size := size, pay := .val pay }
  | .ref _ => True
  | .some s => s.OK
  | .arr _ _ es => okSts es
  | .map _ _ els => els.OK
def okSts : List Stor → Prop
  | [] => True
  | s :: ss => s.OK ∧ okSts ss
def SEl.OK : SEl → Prop
  | .mk k v => k.OK ∧ v.OK
def MEl.OK : MEl → Prop
  | .single e => e.OK
  | .inl els => els.OK
  | .ext _ => True
def MEls.OK : MEls → Prop
  | .hkey _ hkeys es => hkeys.length = es.length ∧ okMElList es
  | .single _ es => okSElList es
def okMElList : List MEl → Prop
  | [] => True
  | e :: es => e.OK ∧ okMElList es
def okSElList : List SEl → Prop
  | [] => True
  | e :: es => e.OK ∧ okSElList es
end

mutual
/-- no inlined map inside is written in the compact form -/
def Stor.noCompact : Stor → Prop
  | .val _ _ => True
  | .ref _ => True
  | .some s => s.noCompact
  | .arr _ _ es => noCompactSts es
  | .map x _ (.hkey _ _ es) => compactKeys x es = none ∧ noCompactMElList es
  | .map _ _ (.single _ es) => noCompactSElList es
def noCompactSts : List Stor → Prop
  | [] => True
  | s :: ss => s.noCompact ∧ noCompactSts ss
def SEl.noCompact : SEl → Prop
  | .mk k v => k.noCompact ∧ v.noCompact
def MEl.noCompact : MEl → Prop
  | .single e => e.noCompact
  | .inl els => els.noCompact
  | .ext _ => True
def MEls.noCompact : MEls → Prop
  | .hkey _ _ es => noCompactMElList es
  | .single _ es => noCompactSElList es
def noCompactMElList : List MEl → Prop
  | [] => True
  | e :: es => e.noCompact ∧ noCompactMElList es
def noCompactSElList : List SEl → Prop
  | [] => True
  | e :: es => e.noCompact ∧ noCompactSElList es
end

/-! ### fixed pieces -/

theorem length_encodeRef (id : SlabID) :
    (encodeElem { size := slabIDStorableSize, pay := .ref id }).length = slabIDStorableSize := by
  simp [encodeElem, tagHead8, length_head, length_encodeSlabID, slabIDStorableSize, SlabIDLength, headLen]

theorem length_inlinedHead (tag i : Nat) : (inlinedHead tag i).length = 5 := rfl

theorem length_encodeIdx (idx : Nat) : (encodeIdx idx).length = 9 := by
  simp [encodeIdx, length_head, length_beBytes, SlabIndexLength, headLen]

theorem length_arrayHead16 (n : Nat) : (arrayHead16 n).length = 3 := by
  simp [arrayHead16, length_beBytes]

theorem length_bytesHead16 (n : Nat) : (bytesHead16 n).length = 3 := by
  simp [bytesHead16, length_beBytes]

theorem length_encodeHkeys (hkeys : List Nat) : (encodeHkeys hkeys).length = 8 * hkeys.length := by
  induction hkeys with
  | nil => rfl
  | cons h t ih =>
    have : encodeHkeys (h :: t) = beBytes digestSize h ++ encodeHkeys t := rfl
    rw [this, List.length_append, ih, length_beBytes]
    simp only [digestSize, List.length_cons]; omega


/-! ### the length law without compact maps: encoded length = computed size -/

mutual
theorem lenSt_eq : (s : Stor) → (xs : List XD) → s.OK → s.noCompact → (encSt s xs).1.length = s.size
  | .val size pay, xs, h, _ => by
    simp only [encSt, Stor.size]
    exact elem_size_eq_enc_len _ h
  | .ref id, xs, _, _ => by
    simp only [encSt, Stor.size]
    exact length_encodeRef id
  | .some s, xs, h, nc => by
    have ih := lenSt_eq s xs h nc
    simp only [encSt, Stor.size, List.length_append, tagHead8, List.length_cons, List.length_nil, ih, someOverhead]
  | .arr ty idx es, xs, h, nc => by
    have ih := lenSts_eq es (addArrayXD xs ty).2 h nc
    simp only [encSt, Stor.size, List.length_append, length_inlinedHead, length_encodeIdx, length_arrayHead16, ih,
      inlinedArrayDataSlabPrefixSize]
  | .map x idx (.hkey level hkeys elems), xs, h, nc => by
    have hc : compactKeys x elems = none := nc.1
    have ih := lenMElList_eq elems (addMapXD xs x).2 h.2 nc.2
    simp only [encSt, hc, Stor.size, MEls.size, List.length_append, length_inlinedHead, length_encodeIdx,
      length_arrayHead16, length_bytesHead16, length_encodeHkeys, List.length_cons, List.length_nil,
      inlinedMapDataSlabPrefixSize, hkeyElementsPrefixSize]
    have := h.1
    omega
  | .map x idx (.single level elems), xs, h, nc => by
    have ih := lenSElList_eq elems (addMapXD xs x).2 h nc
    simp only [encSt, Stor.size, MEls.size, List.length_append, length_inlinedHead, length_encodeIdx,
      length_arrayHead16, List.length_cons, List.length_nil, ih, inlinedMapDataSlabPrefixSize, singleElementsPrefixSize]
    omega
theorem lenSts_eq : (l : List Stor) → (xs : List XD) → okSts l → noCompactSts l →
    (encSts l xs).1.length = sizeSts l
  | [], xs, _, _ => by simp [encSts, sizeSts]
  | s :: ss, xs, h, nc => by
    have ih1 := lenSt_eq s xs h.1 nc.1
    have ih2 := lenSts_eq ss (encSt s xs).2 h.2 nc.2
    simp only [encSts, sizeSts, List.length_append, ih1, ih2]
theorem lenSEl_eq : (e : SEl) → (xs : List XD) → e.OK → e.noCompact → (encSEl e xs).1.length = e.size
  | .mk k v, xs, h, nc => by
    have ih1 := lenSt_eq k xs h.1 nc.1
    have ih2 := lenSt_eq v (encSt k xs).2 h.2 nc.2
    simp only [encSEl, SEl.size, List.length_cons, List.length_append, ih1, ih2, singleElementPrefixSize]
    omega
theorem lenMEl_eq : (e : MEl) → (xs : List XD) → e.OK → e.noCompact → (encMEl e xs).1.length = e.size
  | .single e, xs, h, nc => by
    simp only [encMEl, MEl.size]
    exact lenSEl_eq e xs h nc
  | .inl els, xs, h, nc => by
    have ih := lenMEls_eq els xs h nc
    simp only [encMEl, MEl.size, List.length_append, tagHead8, List.length_cons, List.length_nil, ih,
      inlineCollisionGroupPrefixSize]
  | .ext id, xs, _, _ => by
    simp only [encMEl, MEl.size, List.length_append, tagHead8, List.length_cons, List.length_nil, length_encodeRef,
      externalCollisionGroupPrefixSize]
theorem lenMEls_eq : (els : MEls) → (xs : List XD) → els.OK → els.noCompact → (encMEls els xs).1.length = els.size
  | .hkey level hkeys elems, xs, h, nc => by
    have ih := lenMElList_eq elems xs h.2 nc
    simp only [encMEls, MEls.size, List.length_append, length_arrayHead16, length_bytesHead16, length_encodeHkeys,
      List.length_cons, List.length_nil, hkeyElementsPrefixSize]
    have := h.1
    omega
  | .single level elems, xs, h, nc => by
    have ih := lenSElList_eq elems xs h nc
    simp only [encMEls, MEls.size, List.length_append, length_arrayHead16, List.length_cons, List.length_nil, ih,
      singleElementsPrefixSize]
theorem lenMElList_eq : (l : List MEl) → (xs : List XD) → okMElList l → noCompactMElList l →
    (encMElList l xs).1.length + 8 * l.length = sizeMEl l
  | [], xs, _, _ => by simp [encMElList, sizeMEl]
  | e :: es, xs, h, nc => by
    have ih1 := lenMEl_eq e xs h.1 nc.1
    have ih2 := lenMElList_eq es (encMEl e xs).2 h.2 nc.2
    simp only [encMElList, sizeMEl, List.length_append, List.length_cons, ih1, digestSize]
    omega
theorem lenSElList_eq : (l : List SEl) → (xs : List XD) → okSElList l → noCompactSElList l →
    (encSElList l xs).1.length = sizeSEl l
  | [], xs, _, _ => by simp [encSElList, sizeSEl]
  | e :: es, xs, h, nc => by
    have ih1 := lenSEl_eq e xs h.1 nc.1
    have ih2 := lenSElList_eq es (encSEl e xs).2 h.2 nc.2
    simp only [encSElList, sizeSEl, List.length_append, ih1, ih2]
end


/-! ### standalone slabs -/

/-- length of the root's extra-data section of a map slab -/
def mapExtraLen : Option MapExtra → Nat
  | some x => (encodeMapExtra x).length
  | none => 0

theorem length_encodeMChildHdr (h : MChildHdr) : (encodeMChildHdr h).length = mapSlabHeaderSize := by
  simp [encodeMChildHdr, length_beBytes, SlabIndexLength, digestSize, mapSlabHeaderSize]

theorem length_flatMap_encodeMChildHdr (l : List MChildHdr) :
    (l.flatMap encodeMChildHdr).length = mapSlabHeaderSize * l.length := by
  induction l with
  | nil => rfl
  | cons h t ih =>
    simp only [List.flatMap_cons, List.length_append, length_encodeMChildHdr, ih, List.length_cons]
    simp only [mapSlabHeaderSize]; omega

/-- Map index slab: encoded length = computed size + extra-data section. -/
theorem enc_len_mindex (m : MapMeta) : (encodeMapMeta m).length = m.size + mapExtraLen m.extra := by
  unfold encodeMapMeta MapMeta.size mapExtraLen
  have hl := length_flatMap_encodeMChildHdr m.childHdrs
  cases m.extra <;>
    simp only [List.length_append, List.length_cons, List.length_nil, length_beBytes, hl, SlabAddressLength,
      mapMetaDataSlabPrefixSize] <;> omega

/-- Map data slab (root / non-root / collision group) without compact maps inside: encoded length,
    plus 16 exactly when a non-root slab has no right sibling, equals the computed size plus the
    root's extra-data section plus the shared inlined-extra-data section. -/
theorem enc_len_mdata (s : MapData) (ok : s.els.OK) (nc : s.els.noCompact)
    (hroot : s.extra.isSome = true → s.next = SlabID.undef) :
    (encodeMapData s).length + (if s.extra.isNone ∧ s.next = SlabID.undef then 16 else 0)
      = s.size + mapExtraLen s.extra + (encodeIEDSection (encMEls s.els []).2).length := by
  have hl := lenMEls_eq s.els [] ok nc
  unfold encodeMapData MapData.size mapExtraLen
  simp only [List.length_append, List.length_cons, List.length_nil, hl, versionAndFlagSize, SlabIDLength]
  cases hx : s.extra with
  | none =>
    by_cases hn : s.next = SlabID.undef
    · simp [hn]; omega
    · simp [hn, length_encodeSlabID]; omega
  | some x =>
    have hn := hroot (by rw [hx]; rfl)
    simp [hn]; omega

/-- Array data slab with general elements and without compact maps inside. -/
theorem enc_len_adata (a : ArrData) (ok : okSts a.elems) (nc : noCompactSts a.elems)
    (hroot : a.ty.isSome = true → a.next = SlabID.undef) :
    (encodeArrData a).length + (if a.ty.isNone ∧ a.next = SlabID.undef then 16 else 0)
      = a.size + (match a.ty with | some t => (encodeExtraData t).length | none => 0) +
          (encodeIEDSection (encSts a.elems []).2).length := by
  have hl := lenSts_eq a.elems [] ok nc
  unfold encodeArrData ArrData.size
  simp only [List.length_append, List.length_cons, List.length_nil, hl, length_arrayHead16,
    arrayRootDataSlabPrefixSize, arrayDataSlabPrefixSize]
  cases hx : a.ty with
  | none =>
    by_cases hn : a.next = SlabID.undef
    · simp [hn]; omega
    · simp [hn, length_encodeSlabID]; omega
  | some x =>
    have hn := hroot (by rw [hx]; rfl)
    simp [hn]; omega

/-- Large-value slab with a general storable (no inlined slab inside: the Go encoder refuses those). -/
theorem enc_len_storableG (s : Stor) (ok : s.OK) (nc : s.noCompact) :
    (encodeStorableSlabG s).length = versionAndFlagSize + s.size := by
  unfold encodeStorableSlabG
  simp only [List.length_append, List.length_cons, List.length_nil, lenSt_eq s [] ok nc, versionAndFlagSize]

end Atree.Codec
