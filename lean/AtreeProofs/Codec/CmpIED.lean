import AtreeProofs.Codec.CmpDecode
/-
  The inlined-extra-data section with compact-map entries (tag 249): shared type info (possibly by
  reference), count, seed, the digests as one byte string, the keys as an array.
-/
namespace Atree.Codec
open Atree Atree.Gen DM

theorem XD.validC_ty {x : XD} (h : x.validC) : validTy x.ty := by
  cases x with
  | arr t => exact h
  | map m => exact h.1
  | cmap m a b => exact h.1.1

theorem XD.valid_of_validC_arr {t : TyInfo} (h : (XD.arr t).validC) : (XD.arr t).valid := h
theorem XD.valid_of_validC_map {m : MapExtra} (h : (XD.map m).validC) : (XD.map m).valid := h

theorem head6_249 : head 6 CBORTagInlinedCompactMapExtraData = [0xd8, 249] := by decide

theorem acc_encodeMapExtraWith (dups : List Bytes) (hd : dups.length < 2 ^ 64) (m : MapExtra) (hv : validMapExtra m) :
    Acc (encodeMapExtraWith (encodeTyRef dups) m) 2 := by
  have hl : AccList [encodeTyRef dups m.ty, head 0 m.count, head 0 m.seed] 1 := by
    intro b hb
    simp only [List.mem_cons, List.not_mem_nil, or_false] at hb
    rcases hb with rfl | rfl | rfl
    · exact acc_encodeTyRef dups hd m.ty hv.1
    · exact (Acc.uint hv.2.1).mono (by omega)
    · exact (Acc.uint hv.2.2).mono (by omega)
  have h1 := Acc.array (by simp [maxArrayElements]) hl
  simpa [encodeMapExtraWith, mapExtraDataLength, flatten_triple, List.append_assoc] using h1

theorem acc_encodeXDC (dups : List Bytes) (hd : dups.length < 2 ^ 64) (x : XD) (hv : x.validC) :
    Acc (encodeXD dups x) 4 := by
  cases x with
  | arr ty => exact (acc_encodeXD dups hd (.arr ty) hv).mono (by omega)
  | map m => exact (acc_encodeXD dups hd (.map m) hv).mono (by omega)
  | cmap m hkeys keys =>
    obtain ⟨hm, hlen, h8192, hhk, hkv, _⟩ := hv
    have hA1 := acc_encodeMapExtraWith dups hd m hm
    have hA2 : Acc (head 2 (hkeys.length * digestSize) ++ encodeHkeys hkeys) 0 := by
      have := Acc.bytes (content := encodeHkeys hkeys) (by rw [length_encodeHkeys]; omega)
      rw [length_encodeHkeys] at this
      have he : hkeys.length * digestSize = 8 * hkeys.length := by simp only [digestSize]; omega
      rw [he]; exact this
    have hA3 : Acc (head 4 keys.length ++ keys.flatMap encodeKey) 2 := by
      have := Acc.array (l := keys.map encodeKey) (k := 1) (by simp [maxArrayElements]; omega) (by
        intro b hb
        obtain ⟨k, hk, rfl⟩ := List.mem_map.1 hb
        exact acc_encodeElem _ (hkv k hk))
      simpa [flatMap_eq_flatten_map] using this
    have hl : AccList [encodeMapExtraWith (encodeTyRef dups) m,
        head 2 (hkeys.length * digestSize) ++ encodeHkeys hkeys, head 4 keys.length ++ keys.flatMap encodeKey] 2 := by
      intro b hb
      simp only [List.mem_cons, List.not_mem_nil, or_false] at hb
      rcases hb with rfl | rfl | rfl
      · exact hA1
      · exact hA2.mono (by omega)
      · exact hA3
    have h1 := Acc.array (by simp [maxArrayElements]) hl
    have h2 := Acc.tag8 249 h1
    simpa [encodeXD, head6_249, compactMapExtraDataLength, flatten_triple, List.append_assoc] using h2

/-- `newMapExtraData` with the type-info decoder of the section -/
theorem newMapExtraData_encR (tis : List TyInfo) (htis : ∀ t ∈ tis, validTy t) (hlen : tis.length < 2 ^ 64)
    (m : MapExtra) (hv : validMapExtra m) (rest : Bytes) (R c : Nat)
    (hR : (encodeMapExtraWith (encodeTyRef (tis.map encodeTy)) m).length ≤ R) :
    newMapExtraData tis { data := encodeMapExtraWith (encodeTyRef (tis.map encodeTy)) m ++ rest, remaining := R, consumed := c }
      = pure (m, { data := rest, remaining := R - (encodeMapExtraWith (encodeTyRef (tis.map encodeTy)) m).length, consumed := c + (encodeMapExtraWith (encodeTyRef (tis.map encodeTy)) m).length }) := by
  have h3 : headLen 3 = 1 := rfl
  have hpos := length_encodeTyRef_pos (tis.map encodeTy) m.ty
  have hc1 := headLen_pos m.count
  have hs1 := headLen_pos m.seed
  simp only [encodeMapExtraWith, mapExtraDataLength, List.append_assoc, List.length_append, length_head, h3] at hR ⊢
  unfold newMapExtraData
  rw [decodeArrayHead_head (by omega) _ R c (by rw [h3]; omega)]
  simp only [DM.liftOpt_some, DM.pure_bind, mapExtraDataLength, ne_eq, not_true_eq_false, ↓reduceIte, h3]
  rw [decodeTypeInfoRef_enc tis htis hlen m.ty hv.1 _ (R - 1) (c + 1) (by omega)]
  simp only [DM.pure_bind]
  rw [decodeUint64_head hv.2.1 _ _ _ (by omega)]
  simp only [DM.liftOpt_some, DM.pure_bind]
  rw [decodeUint64_head hv.2.2 _ _ _ (by omega)]
  simp only [DM.liftOpt_some, DM.pure_bind]
  congr 3 <;> omega

theorem length_encodeKey (k : Nat × Nat) (hv : validElem { size := k.1, pay := .val k.2 }) :
    (encodeKey k).length = k.1 := by
  unfold encodeKey; exact elem_size_eq_enc_len _ hv

/-- the key loop of `newCompactMapExtraData` -/
theorem decCompactKeys_enc (f : Nat) : ∀ (keys : List (Nat × Nat)),
    (∀ k ∈ keys, validElem { size := k.1, pay := .val k.2 }) → ∀ (rest : Bytes) (R c : Nat),
    (keys.flatMap encodeKey).length ≤ R →
    decCompactKeys (f + 1) keys.length { data := keys.flatMap encodeKey ++ rest, remaining := R, consumed := c }
      = pure (keys, { data := rest, remaining := R - (keys.flatMap encodeKey).length, consumed := c + (keys.flatMap encodeKey).length })
  | [], _, rest, R, c, _ => by simp [decCompactKeys]
  | k :: ks, hv, rest, R, c, hR => by
    have hk := hv k (List.mem_cons_self ..)
    have hlk := length_encodeKey k hk
    simp only [List.flatMap_cons, List.length_append, List.append_assoc, List.length_cons] at hR ⊢
    unfold decCompactKeys
    have h1 : decStG (f + 1) 0 { data := encodeKey k ++ (ks.flatMap encodeKey ++ rest), remaining := R, consumed := c } 0 []
        = pure (Stor.ofElem { size := k.1, pay := .val k.2 },
            { data := ks.flatMap encodeKey ++ rest, remaining := R - k.1, consumed := c + k.1 }) :=
      decStG_elem { size := k.1, pay := .val k.2 } hk f 0 (ks.flatMap encodeKey ++ rest) R c 0 []
        (by simp [maxDecodeDepth]) (by simp only; omega)
    rw [h1]
    simp only [DM.pure_bind, Stor.ofElem]
    rw [decCompactKeys_enc f ks (fun y hy => hv y (List.mem_cons_of_mem _ hy)) rest _ _ (by omega)]
    simp only [DM.pure_bind, hlk]
    congr 3 <;> omega

/-- slots `decXD` allocates for one entry -/
def xdAllocs : XD → Nat
  | .cmap _ hkeys keys => hkeys.length + keys.length
  | _ => 0

/-- `decXD` on an encoded entry, the compact form included -/
theorem decXD_encC (f : Nat) (tis : List TyInfo) (htis : ∀ t ∈ tis, validTy t) (hlen : tis.length < 2 ^ 64)
    (x : XD) (hv : x.validC) (rest : Bytes) (R c : Nat) (hR : (encodeXD (tis.map encodeTy) x).length ≤ R) (n : Nat) :
    decXD (f + 1) tis { data := encodeXD (tis.map encodeTy) x ++ rest, remaining := R, consumed := c } n
      = .ok (x, { data := rest, remaining := R - (encodeXD (tis.map encodeTy) x).length, consumed := c + (encodeXD (tis.map encodeTy) x).length })
          (n + xdAllocs x) := by
  cases x with
  | arr ty => rw [decXD_enc (f + 1) tis htis hlen (.arr ty) hv rest R c hR]; rfl
  | map m => rw [decXD_enc (f + 1) tis htis hlen (.map m) hv rest R c hR]; rfl
  | cmap m hkeys keys =>
    obtain ⟨hm, hkl, h8192, hhk, hkv, _⟩ := hv
    have h3 : headLen 3 = 1 := rfl
    have hLm : 1 ≤ (encodeMapExtraWith (encodeTyRef (tis.map encodeTy)) m).length := by
      simp only [encodeMapExtraWith, List.length_append, length_head]
      have := headLen_pos mapExtraDataLength; omega
    have hklen : (encodeHkeys hkeys).length = hkeys.length * digestSize := by
      rw [length_encodeHkeys]; simp only [digestSize]; omega
    have hp1 := headLen_pos (hkeys.length * digestSize)
    have hp2 := headLen_pos keys.length
    simp only [encodeXD, head6_249, compactMapExtraDataLength, List.cons_append, List.nil_append, List.append_assoc,
      List.length_cons, List.length_append, length_head, h3] at hR ⊢
    unfold decXD
    rw [decodeTagNumber_tag8 _ _ _ _ (by omega)]
    simp only [DM.liftOpt_some, DM.pure_bind, CBORTagInlinedArrayExtraData, CBORTagInlinedMapExtraData,
      CBORTagInlinedCompactMapExtraData, show ¬ ((249 : Nat) = 247) by decide, show ¬ ((249 : Nat) = 248) by decide,
      ↓reduceIte]
    unfold newCompactMapExtraData
    rw [decodeArrayHead_head (by omega) _ (R - 2) (c + 2) (by rw [h3]; omega)]
    simp only [DM.liftOpt_some, DM.pure_bind, compactMapExtraDataLength, ne_eq, not_true_eq_false, ↓reduceIte, h3]
    rw [newMapExtraData_encR tis htis hlen m hm _ (R - 2 - 1) (c + 2 + 1) (by omega)]
    simp only [DM.pure_bind]
    rw [decodeBytes_head (l := hkeys.length * digestSize) (by simp only [digestSize]; omega) (encodeHkeys hkeys) _ hklen
      _ _ (by omega)]
    simp only [DM.liftOpt_some, DM.pure_bind]
    have hmod : ¬ ((encodeHkeys hkeys).length % digestSize ≠ 0) := by
      rw [hklen]; simp [digestSize]
    have hdiv : (encodeHkeys hkeys).length / digestSize = hkeys.length := by
      rw [hklen]; simp [digestSize]
    have hmax : ¬ (hkeys.length > maxUint32) := by simp only [maxUint32]; omega
    simp only [hmod, ↓reduceIte, hdiv, hmax]
    rw [decodeArrayHead_head (by omega) _ _ _ (by omega)]
    simp only [DM.liftOpt_some, DM.pure_bind]
    have hkc : ¬ (keys.length ≠ hkeys.length) := by omega
    simp only [hkc, ↓reduceIte]
    rw [DM.alloc_bind, DM.alloc_bind]
    simp only
    try simp only [hdiv]
    have hdig : digestsOf hkeys.length (encodeHkeys hkeys) = hkeys := by
      have := digestsOf_encodeHkeys hkeys [] hhk
      simpa using this
    rw [hdig]
    rw [decCompactKeys_enc f keys hkv rest _ _ (by omega)]
    simp only [DM.pure_bind, DM.pure_apply, xdAllocs]
    try simp only [hdiv]
    have e3 : n + hkeys.length + keys.length = n + (hkeys.length + keys.length) := by omega
    rw [e3]
    congr 3 <;> omega

theorem decXDs_encC (f : Nat) (tis : List TyInfo) (htis : ∀ t ∈ tis, validTy t) (hlen : tis.length < 2 ^ 64) :
    ∀ (xs : List XD), (∀ x ∈ xs, x.validC) → ∀ (rest : Bytes) (R c n : Nat),
      (xs.flatMap (encodeXD (tis.map encodeTy))).length ≤ R →
      decXDs (f + 1) tis xs.length { data := xs.flatMap (encodeXD (tis.map encodeTy)) ++ rest, remaining := R, consumed := c } n
        = .ok (xs, { data := rest, remaining := R - (xs.flatMap (encodeXD (tis.map encodeTy))).length, consumed := c + (xs.flatMap (encodeXD (tis.map encodeTy))).length })
            (n + (xs.map xdAllocs).sum) := by
  intro xs
  induction xs with
  | nil => intro _ rest R c n _; simp [decXDs, DM.pure_apply]
  | cons x xs ih =>
    intro hv rest R c n hR
    simp only [List.flatMap_cons, List.length_append, List.append_assoc, List.length_cons] at hR ⊢
    unfold decXDs
    rw [DM.bind_ok (decXD_encC f tis htis hlen x (hv x (List.mem_cons_self ..)) _ R c (by omega) n)]
    simp only
    rw [DM.bind_ok (ih (fun y hy => hv y (List.mem_cons_of_mem _ hy)) rest _ _ _ (by omega))]
    simp only [DM.pure_apply, List.map_cons, List.sum_cons]
    congr 1
    · congr 2 <;> omega
    · omega

/-- `newInlinedExtraDataFromData` on an encoded inlined-extra-data section followed by `rest`: the
    entries come back; the decoder allocates one slot per duplicated type info and one per entry -/
theorem newInlinedExtraDataFromData_encC (xs : List XD) (hx : XOKC xs) (hne : xs ≠ []) (hlen : xs.length ≤ 256)
    (rest : Bytes) (n : Nat) :
    newInlinedExtraDataFromData (encodeIED xs ++ rest) n
      = .ok (xs, rest) (n + (findDuplicateTypeInfo xs).length + xs.length + (xs.map xdAllocs).sum) := by
  have hv : ∀ x ∈ xs, x.validC := hx
  -- the duplicated type infos as type infos
  obtain ⟨tis, htd, htv⟩ := exists_tis (findDuplicateTypeInfo xs) (by
    intro b hb
    have := mem_findDuplicateTypeInfo hb
    obtain ⟨x, hxm, rfl⟩ := List.mem_map.1 this
    exact ⟨x.ty, XD.validC_ty (hv x hxm), rfl⟩)
  have hdl := length_findDuplicateTypeInfo_le xs
  have htl : tis.length = (findDuplicateTypeInfo xs).length := by rw [← htd]; simp
  have htl64 : tis.length < 2 ^ 64 := by omega
  -- the shape of the encoding
  have henc : encodeIED xs = head 4 2 ++ (head 4 tis.length ++ ((tis.map encodeTy).flatten ++
      (head 4 xs.length ++ xs.flatMap (encodeXD (tis.map encodeTy))))) := by
    unfold encodeIED
    simp only [inlinedExtraDataArrayCount, htd, htl, List.append_assoc]
  -- the validator accepts it
  have hacc : Acc (encodeIED xs) 6 := by
    have hA1 : Acc (head 4 (tis.map encodeTy).length ++ (tis.map encodeTy).flatten) 2 := by
      refine Acc.array (by simp [maxArrayElements]; omega) ?_
      intro b hb
      obtain ⟨t, ht, rfl⟩ := List.mem_map.1 hb
      exact acc_encodeTy t (htv t ht)
    have hA2 : Acc (head 4 (xs.map (encodeXD (tis.map encodeTy))).length ++ (xs.map (encodeXD (tis.map encodeTy))).flatten) 5 := by
      refine Acc.array (by simp [maxArrayElements]; omega) ?_
      intro b hb
      obtain ⟨x, hxm, rfl⟩ := List.mem_map.1 hb
      exact acc_encodeXDC _ (by simp; omega) x (hv x hxm)
    have hl : AccList [head 4 (tis.map encodeTy).length ++ (tis.map encodeTy).flatten,
        head 4 (xs.map (encodeXD (tis.map encodeTy))).length ++ (xs.map (encodeXD (tis.map encodeTy))).flatten] 5 := by
      intro b hb
      simp only [List.mem_cons, List.not_mem_nil, or_false] at hb
      rcases hb with rfl | rfl
      · exact hA1.mono (by omega)
      · exact hA2
    have := Acc.array (by simp [maxArrayElements]) hl
    rw [henc]
    simpa [flatten_pair, flatMap_eq_flatten_map, List.append_assoc] using this
  have hw := wfNext_of_acc hacc (by decide) rest
  -- lengths
  have hL : (encodeIED xs).length = 1 + headLen tis.length + ((tis.map encodeTy).flatten).length +
      headLen xs.length + (xs.flatMap (encodeXD (tis.map encodeTy))).length := by
    rw [henc]; simp [length_head, headLen]; omega
  have h2 : headLen 2 = 1 := rfl
  have hp1 := headLen_pos tis.length
  have hp2 := headLen_pos xs.length
  have hcnt1 : tis.length ≤ ((tis.map encodeTy).flatten).length := by
    have := length_le_flatten (tis.map encodeTy) (by
      intro b hb; obtain ⟨t, _, rfl⟩ := List.mem_map.1 hb; exact length_encodeTy_pos t)
    simpa using this
  have hcnt2 := length_le_flatMap_encodeXD (tis.map encodeTy) xs
  have hxpos : 0 < xs.length := List.length_pos_iff.2 hne
  unfold newInlinedExtraDataFromData
  simp only
  -- outer array head on the fresh decoder
  have hhead : (Dec.new (encodeIED xs ++ rest)).decodeArrayHead
      = some (2, (⟨head 4 tis.length ++ ((tis.map encodeTy).flatten ++
          (head 4 xs.length ++ (xs.flatMap (encodeXD (tis.map encodeTy)) ++ rest))),
          (encodeIED xs).length - 1, 1⟩ : Dec)) := by
    show Dec.decodeHeadOf 4 _ = _
    rw [decodeHeadOf_new hw]
    have hrem : (encodeIED xs ++ rest).length - rest.length = (encodeIED xs).length := by simp
    rw [hrem]
    have hdata : encodeIED xs ++ rest = head 4 2 ++ (head 4 tis.length ++ ((tis.map encodeTy).flatten ++
        (head 4 xs.length ++ (xs.flatMap (encodeXD (tis.map encodeTy)) ++ rest)))) := by
      rw [henc]; simp only [List.append_assoc]
    rw [hdata]
    have := decodeArrayHead_head (n := 2) (by omega) (head 4 tis.length ++ ((tis.map encodeTy).flatten ++
        (head 4 xs.length ++ (xs.flatMap (encodeXD (tis.map encodeTy)) ++ rest)))) (encodeIED xs).length 0
      (by rw [h2]; omega)
    simp only [h2, Nat.zero_add] at this
    exact this
  rw [hhead]
  simp only [DM.liftOpt_some, DM.pure_bind, inlinedExtraDataArrayCount, ne_eq, not_true_eq_false, ↓reduceIte]
  rw [decodeArrayHead_head (by omega) _ _ _ (by omega)]
  simp only [DM.liftOpt_some, DM.pure_bind]
  have hc1 : ¬ (tis.length > (encodeIED xs ++ rest).length) := by
    simp only [List.length_append]; omega
  simp only [hc1, ↓reduceIte]
  rw [DM.alloc_bind]
  simp only
  rw [decTypeInfos_enc tis htv _ _ _ (by omega)]
  simp only [DM.pure_bind]
  rw [decodeArrayHead_head (by omega) _ _ _ (by omega)]
  simp only [DM.liftOpt_some, DM.pure_bind]
  have hc2 : ¬ (xs.length = 0) := by omega
  have hc3 : ¬ (xs.length > (encodeIED xs ++ rest).length) := by
    simp only [List.length_append]; omega
  simp only [hc2, hc3, ↓reduceIte]
  rw [DM.alloc_bind]
  simp only
  rw [DM.bind_ok (decXDs_encC _ tis htv htl64 xs hv rest _ _ _ (by omega))]
  simp only [Dec.numBytesDecoded]
  unfold sliceFrom
  have hcons : 1 + headLen tis.length + ((tis.map encodeTy).flatten).length + headLen xs.length +
      (xs.flatMap (encodeXD (tis.map encodeTy))).length = (encodeIED xs).length := by omega
  rw [hcons, if_pos (by simp)]
  simp only [DM.pure_bind, List.drop_left, DM.pure_apply, htl]


end Atree.Codec
