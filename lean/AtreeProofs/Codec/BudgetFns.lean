import AtreeProofs.Codec.BudgetLogic
/-
  The accounting triple for every decoder function of the second part that reads from a stream
  decoder: element decoders (mutually recursive), extra data, the inlined-extra-data section.
-/
namespace Atree.Codec
open DM Atree.Gen

/-! ### computations that do not allocate -/

theorem noAlloc_newHeadFromData (d : Bytes) : NoAlloc (newHeadFromData d) := by
  unfold newHeadFromData
  split
  · exact NoAlloc.pure _
  · exact NoAlloc.fail _

theorem noAlloc_newSlabIDFromRawBytes (b : Bytes) : NoAlloc (newSlabIDFromRawBytes b) := by
  unfold newSlabIDFromRawBytes
  exact NoAlloc.ite (NoAlloc.fail _) (NoAlloc.bind (NoAlloc.sliceFrom _ _) (fun _ => NoAlloc.pure _))

theorem noAlloc_getXD (xs : List XD) (i : Nat) : NoAlloc (getXD xs i) := by
  unfold getXD
  apply NoAlloc.ite (NoAlloc.fail _)
  split
  · exact NoAlloc.pure _
  · exact NoAlloc.panic

theorem noAlloc_decodeTypeInfo (d : Dec) : NoAlloc (decodeTypeInfo d) := by
  unfold decodeTypeInfo
  refine NoAlloc.bind (NoAlloc.liftOpt _) ?_
  intro ⟨t, d1⟩
  dsimp only
  apply NoAlloc.ite
  · refine NoAlloc.bind (NoAlloc.liftOpt _) ?_
    intro ⟨n, d2⟩
    dsimp only
    apply NoAlloc.ite (NoAlloc.fail _)
    refine NoAlloc.bind (NoAlloc.liftOpt _) ?_
    intro ⟨v, d3⟩
    exact NoAlloc.pure _
  · refine NoAlloc.bind (NoAlloc.liftOpt _) ?_
    intro ⟨v, d3⟩
    exact NoAlloc.pure _

theorem noAlloc_typeInfoOfRaw (tis : List TyInfo) (raw : Bytes) : NoAlloc (typeInfoOfRaw tis raw) := by
  have hAsIs : NoAlloc (typeInfoAsIs raw) := by
    unfold typeInfoAsIs
    refine NoAlloc.bind (noAlloc_decodeTypeInfo _) ?_
    intro ⟨t, _⟩
    exact NoAlloc.pure _
  have hRef : NoAlloc (typeInfoByRef tis raw) := by
    unfold typeInfoByRef
    refine NoAlloc.bind (NoAlloc.sliceFrom _ _) ?_
    intro r
    refine NoAlloc.bind (NoAlloc.liftOpt _) ?_
    intro index
    apply NoAlloc.ite (NoAlloc.fail _)
    split
    · exact NoAlloc.pure _
    · exact NoAlloc.panic
  unfold typeInfoOfRaw
  apply NoAlloc.ite
  · refine NoAlloc.bind (NoAlloc.sliceTo _ _) ?_
    intro p
    exact NoAlloc.ite hRef hAsIs
  · exact hAsIs

/-! ### one item: type infos, slab references, slab indexes -/

section
variable {B T : Nat}

theorem tr_decodeTypeInfo (d : Dec) (stk : List Frame) (c : Nat) :
    TrD B T (fun r : TyInfo × Dec => r.2) (decodeTypeInfo d) d stk c (next1 stk) := by
  unfold decodeTypeInfo
  refine TrD.nextType ?_
  intro t d1
  dsimp only
  apply TrD.ite <;> intro _
  · refine TrD.tagNumber ?_
    intro n d2
    dsimp only
    apply TrD.ite <;> intro _
    · exact TrD.fail
    · refine TrD.uint64 ?_
      intro v d3
      rw [next1_tag, next1_effStk]
      exact TrD.pure rfl
  · refine TrD.uint64 ?_
    intro v d3
    rw [next1_effStk]
    exact TrD.pure rfl

theorem tr_decodeSlabIDStorable (d : Dec) (stk : List Frame) (c : Nat) :
    TrD B T (fun r : Elem × Dec => r.2) (decodeSlabIDStorable d) d stk c (next1 stk) := by
  unfold decodeSlabIDStorable
  refine TrD.bytes ?_
  intro b d1
  dsimp only
  refine TrD.noalloc (noAlloc_newSlabIDFromRawBytes b) ?_
  intro id
  exact TrD.pure rfl

theorem tr_decodeIdx (d : Dec) (stk : List Frame) (c : Nat) :
    TrD B T (fun r : Nat × Dec => r.2) (decodeIdx d) d stk c (next1 stk) := by
  unfold decodeIdx
  refine TrD.bytes ?_
  intro b d1
  dsimp only
  apply TrD.ite <;> intro _
  · exact TrD.fail
  · exact TrD.pure rfl

end

/-! ### the mutually recursive element decoders -/

/-- compact-map entries as `newCompactMapExtraData` builds them: one digest per key -/
def XDWf (xs : List XD) : Prop :=
  ∀ x ∈ xs, match x with
    | .cmap _ hkeys keys => hkeys.length = keys.length
    | _ => True

/-- the triples of all eleven functions at one fuel value -/
def TrAll (B T : Nat) (xs : List XD) (fuel : Nat) : Prop :=
  (∀ depth d addr stk, TrD B T (fun r : Stor × Dec => r.2) (decStG fuel depth d addr xs) d stk 0 (next1 stk)) ∧
  (∀ n cdepth d addr size dep s,
    TrD B T (fun r : List Stor × Nat × Dec => r.2.2) (decStsG fuel n cdepth d addr xs size) d (pushItems n dep s) 0 s) ∧
  (∀ cdepth d addr stk, TrD B T (fun r : Stor × Dec => r.2) (decInlArr fuel cdepth d addr xs) d stk 0 (next1 stk)) ∧
  (∀ cdepth d addr stk, TrD B T (fun r : Stor × Dec => r.2) (decInlMap fuel cdepth d addr xs) d stk 0 (next1 stk)) ∧
  (∀ cdepth d addr stk, TrD B T (fun r : Stor × Dec => r.2) (decInlCMap fuel cdepth d addr xs) d stk 0 (next1 stk)) ∧
  (∀ ks cdepth d addr size dep s,
    TrD B T (fun r : List MEl × Nat × Dec => r.2.2) (decCVals fuel ks cdepth d addr xs size) d
      (pushItems ks.length dep s) 0 s) ∧
  (∀ cdepth d addr stk, TrD B T (fun r : MEls × Dec => r.2) (decMElsG fuel cdepth d addr xs) d stk 0 (next1 stk)) ∧
  (∀ cdepth d addr stk, TrD B T (fun r : SEl × Dec => r.2) (decSElG fuel cdepth d addr xs) d stk 0 (next1 stk)) ∧
  (∀ n cdepth d addr size dep s,
    TrD B T (fun r : List SEl × Nat × Dec => r.2.2) (decSElsG fuel n cdepth d addr xs size) d (pushItems n dep s) 0 s) ∧
  (∀ cdepth d addr stk, TrD B T (fun r : MEl × Dec => r.2) (decMElG fuel cdepth d addr xs) d stk 0 (next1 stk)) ∧
  (∀ n cdepth d addr size dep s,
    TrD B T (fun r : List MEl × Nat × Dec => r.2.2) (decMElListG fuel n cdepth d addr xs size) d (pushItems n dep s) 0 s)

theorem trAll_zero (B T : Nat) (xs : List XD) : TrAll B T xs 0 := by
  refine ⟨?_, ?_, ?_, ?_, ?_, ?_, ?_, ?_, ?_, ?_, ?_⟩
  · intro depth d addr stk; unfold decStG; exact TrD.fail
  · intro n cdepth d addr size dep s
    cases n with
    | zero => unfold decStsG; exact TrD.pure rfl
    | succ n => unfold decStsG; exact TrD.fail
  · intro cdepth d addr stk; unfold decInlArr; exact TrD.fail
  · intro cdepth d addr stk; unfold decInlMap; exact TrD.fail
  · intro cdepth d addr stk; unfold decInlCMap; exact TrD.fail
  · intro ks cdepth d addr size dep s
    cases ks with
    | nil => unfold decCVals; exact TrD.pure rfl
    | cons k ks => unfold decCVals; exact TrD.fail
  · intro cdepth d addr stk; unfold decMElsG; exact TrD.fail
  · intro cdepth d addr stk; unfold decSElG; exact TrD.fail
  · intro n cdepth d addr size dep s
    cases n with
    | zero => unfold decSElsG; exact TrD.pure rfl
    | succ n => unfold decSElsG; exact TrD.fail
  · intro cdepth d addr stk; unfold decMElG; exact TrD.fail
  · intro n cdepth d addr size dep s
    cases n with
    | zero => unfold decMElListG; exact TrD.pure rfl
    | succ n => unfold decMElListG; exact TrD.fail

theorem trAll_succ (B T : Nat) (xs : List XD) (hxs : XDWf xs) (fuel : Nat) (ih : TrAll B T xs fuel) :
    TrAll B T xs (fuel + 1) := by
  obtain ⟨ihSt, ihSts, ihArr, ihMap, ihCMap, ihCVals, ihMEls, ihSEl, ihSEls, ihMEl, ihMElList⟩ := ih
  refine ⟨?_, ?_, ?_, ?_, ?_, ?_, ?_, ?_, ?_, ?_, ?_⟩
  · -- decStG
    intro depth d addr stk
    unfold decStG
    apply TrD.ite <;> intro _
    · exact TrD.fail
    · refine TrD.nextType ?_
      intro ty d1
      dsimp only
      split
      · refine TrD.bytes ?_
        intro b d2
        rw [next1_effStk]
        exact TrD.pure rfl
      · refine TrD.tagNumber ?_
        intro n d2
        dsimp only
        rw [next1_effStk]
        repeat' apply TrD.ite <;> intro _
        · have := ihArr (depth + 1) d2 addr (.tag (if topInTag (effStk stk) then topDepth (effStk stk) + 1 else topDepth (effStk stk)) :: next1 stk)
          rw [next1_tag] at this
          exact this
        · have := ihMap (depth + 1) d2 addr (.tag (if topInTag (effStk stk) then topDepth (effStk stk) + 1 else topDepth (effStk stk)) :: next1 stk)
          rw [next1_tag] at this
          exact this
        · have := ihCMap (depth + 1) d2 addr (.tag (if topInTag (effStk stk) then topDepth (effStk stk) + 1 else topDepth (effStk stk)) :: next1 stk)
          rw [next1_tag] at this
          exact this
        · refine TrD.bind (tr_decodeSlabIDStorable d2 _ 0) ?_
          intro ⟨e, d3⟩
          exact TrD.pure rfl
        · refine TrD.bytes ?_
          intro b d3
          exact TrD.pure rfl
        · have := ihSt (depth + 1) d2 addr (.tag (if topInTag (effStk stk) then topDepth (effStk stk) + 1 else topDepth (effStk stk)) :: next1 stk)
          rw [next1_tag] at this
          refine TrD.bind this ?_
          intro ⟨s, d3⟩
          exact TrD.pure rfl
        · exact TrD.fail
      · exact TrD.fail
  · -- decStsG
    intro n cdepth d addr size dep s
    cases n with
    | zero => unfold decStsG; exact TrD.pure rfl
    | succ n =>
      unfold decStsG
      have h1 := ihSt cdepth d addr (pushItems (n + 1) dep s)
      rw [next1_pushItems_succ] at h1
      refine TrD.bind h1 ?_
      intro ⟨e, d1⟩
      dsimp only
      apply TrD.ite <;> intro _
      · exact TrD.fail
      · refine TrD.bind (ihSts n cdepth d1 addr _ dep s) ?_
        intro ⟨es, sz, d2⟩
        exact TrD.pure rfl
  · -- decInlArr
    intro cdepth d addr stk
    unfold decInlArr
    refine TrD.arrayHead ?_
    intro c d1
    dsimp only
    apply TrD.ite <;> intro hc
    · exact TrD.fail
    · have hc3 : c = 3 := by
        simp only [DecodeInlinedArrayStorable_inlinedArrayDataSlabArrayCount] at hc; omega
      subst hc3
      refine TrD.uint64 ?_
      intro i d2
      dsimp only
      rw [next1_pushItems_succ]
      refine TrD.noalloc (noAlloc_getXD xs i) ?_
      intro x
      split
      · refine TrD.bind (tr_decodeIdx d2 _ _) ?_
        intro ⟨idx, d3⟩
        dsimp only
        rw [next1_pushItems_succ]
        refine TrD.arrayHead ?_
        intro n d4
        dsimp only
        rw [next1_pushItems_succ]
        simp only [pushItems]
        apply TrD.ite <;> intro _
        · exact TrD.fail
        · refine TrD.alloc (k := n) (by omega) ?_
          refine TrD.weaken (c := 0) ?_ (Nat.zero_le _)
          refine TrD.bind (ihSts n cdepth d4 addr _ _ (next1 stk)) ?_
          intro ⟨es, sz, d5⟩
          exact TrD.pure rfl
      · exact TrD.fail
  · -- decInlMap
    intro cdepth d addr stk
    unfold decInlMap
    refine TrD.arrayHead ?_
    intro c d1
    dsimp only
    apply TrD.ite <;> intro hc
    · exact TrD.fail
    · have hc3 : c = 3 := by
        simp only [DecodeInlinedMapStorable_inlinedMapDataSlabArrayCount] at hc; omega
      subst hc3
      refine TrD.uint64 ?_
      intro i d2
      dsimp only
      rw [next1_pushItems_succ]
      refine TrD.noalloc (noAlloc_getXD xs i) ?_
      intro x
      split
      · refine TrD.bind (tr_decodeIdx d2 _ _) ?_
        intro ⟨idx, d3⟩
        dsimp only
        rw [next1_pushItems_succ]
        have h1 := ihMEls cdepth d3 addr (pushItems 1 (topDepth stk + 1) (next1 stk))
        rw [next1_pushItems_succ] at h1
        simp only [pushItems] at h1
        refine TrD.bind h1 ?_
        intro ⟨els, d4⟩
        dsimp only
        apply TrD.ite <;> intro _
        · exact TrD.fail
        · exact TrD.pure rfl
      · exact TrD.fail
  · -- decInlCMap
    intro cdepth d addr stk
    unfold decInlCMap
    refine TrD.arrayHead ?_
    intro c d1
    dsimp only
    apply TrD.ite <;> intro hc
    · exact TrD.fail
    · have hc3 : c = 3 := by
        simp only [DecodeInlinedCompactMapStorable_inlinedMapDataSlabArrayCount] at hc; omega
      subst hc3
      refine TrD.uint64 ?_
      intro i d2
      dsimp only
      rw [next1_pushItems_succ]
      intro n0 hi0 hp0
      -- `getXD` neither allocates nor fails with a panic; its result is an entry of `xs`
      unfold getXD
      by_cases hge : i ≥ xs.length
      · simp only [hge, ↓reduceIte]
        exact hp0.le
      · simp only [hge, ↓reduceIte]
        have hlt : i < xs.length := by omega
        rw [List.getElem?_eq_getElem hlt]
        simp only [DM.pure_bind]
        have hmem : xs[i] ∈ xs := List.getElem_mem hlt
        have hwf := hxs _ hmem
        revert hwf
        generalize xs[i] = x
        intro hwf
        cases x with
        | arr t => exact hp0.le
        | map m => exact hp0.le
        | cmap mx hkeys keys =>
          simp only at hwf ⊢
          refine (?_ : TrD B T (fun r : Stor × Dec => r.2) _ d2 _ _ (next1 stk)) n0 hi0 hp0
          refine TrD.bind (tr_decodeIdx d2 _ _) ?_
          intro ⟨idx, d3⟩
          dsimp only
          rw [next1_pushItems_succ]
          refine TrD.arrayHead ?_
          intro n d4
          dsimp only
          rw [next1_pushItems_succ]
          simp only [pushItems]
          apply TrD.ite <;> intro hn
          · exact TrD.fail
          · have hnk : n = keys.length := by omega
            refine TrD.alloc (k := hkeys.length) (by omega) ?_
            refine TrD.alloc (k := n) (by omega) ?_
            refine TrD.weaken (c := 0) ?_ (Nat.zero_le _)
            have h1 := ihCVals keys cdepth d4 addr hkeyElementsPrefixSize (topDepth (pushItems 1 (topDepth stk + 1) (next1 stk)) + 1) (next1 stk)
            rw [← hnk] at h1
            refine TrD.bind h1 ?_
            intro ⟨es, sz, d5⟩
            dsimp only
            apply TrD.ite <;> intro _
            · exact TrD.fail
            · exact TrD.pure rfl
  · -- decCVals
    intro ks cdepth d addr size dep s
    cases ks with
    | nil => unfold decCVals; exact TrD.pure rfl
    | cons k ks =>
      unfold decCVals
      have h1 := ihSt cdepth d addr (pushItems (ks.length + 1) dep s)
      rw [next1_pushItems_succ] at h1
      refine TrD.bind h1 ?_
      intro ⟨v, d1⟩
      dsimp only
      apply TrD.ite <;> intro _
      · exact TrD.fail
      · apply TrD.ite <;> intro _
        · exact TrD.fail
        · refine TrD.bind (ihCVals ks cdepth d1 addr _ dep s) ?_
          intro ⟨es, sz, d2⟩
          exact TrD.pure rfl
  · -- decMElsG
    intro cdepth d addr stk
    unfold decMElsG
    refine TrD.arrayHead ?_
    intro c d1
    dsimp only
    apply TrD.ite <;> intro hc
    · exact TrD.fail
    · have hc3 : c = 3 := by omega
      subst hc3
      refine TrD.uint64 ?_
      intro level d2
      dsimp only
      rw [next1_pushItems_succ]
      refine TrD.bytes ?_
      intro db d3
      dsimp only
      rw [next1_pushItems_succ]
      apply TrD.ite <;> intro _
      · exact TrD.fail
      · refine TrD.alloc (by simp only [digestSize]; omega) ?_
        refine TrD.arrayHead ?_
        intro ec d4
        dsimp only
        rw [next1_pushItems_succ]
        simp only [pushItems]
        apply TrD.ite <;> intro _
        · exact TrD.fail
        · apply TrD.ite <;> intro _
          · exact TrD.fail
          · apply TrD.ite <;> intro _
            · refine TrD.alloc (k := ec) (by omega) ?_
              refine TrD.weaken (c := 0) ?_ (Nat.zero_le _)
              refine TrD.bind (ihSEls ec cdepth d4 addr _ _ (next1 stk)) ?_
              intro ⟨es, sz, d5⟩
              exact TrD.pure rfl
            · refine TrD.alloc (k := ec) (by omega) ?_
              refine TrD.weaken (c := 0) ?_ (Nat.zero_le _)
              refine TrD.bind (ihMElList ec cdepth d4 addr _ _ (next1 stk)) ?_
              intro ⟨es, sz, d5⟩
              exact TrD.pure rfl
  · -- decSElG
    intro cdepth d addr stk
    unfold decSElG
    refine TrD.arrayHead ?_
    intro c d1
    dsimp only
    apply TrD.ite <;> intro hc
    · exact TrD.fail
    · have hc2 : c = 2 := by omega
      subst hc2
      refine TrD.weaken (c := 0) ?_ (Nat.zero_le _)
      have h1 := ihSt cdepth d1 addr (pushItems 2 (topDepth stk + 1) (next1 stk))
      rw [next1_pushItems_succ] at h1
      refine TrD.bind h1 ?_
      intro ⟨k, d2⟩
      dsimp only
      have h2 := ihSt cdepth d2 addr (pushItems 1 (topDepth stk + 1) (next1 stk))
      rw [next1_pushItems_succ] at h2
      simp only [pushItems] at h2
      refine TrD.bind h2 ?_
      intro ⟨v, d3⟩
      dsimp only
      apply TrD.ite <;> intro _
      · exact TrD.fail
      · exact TrD.pure rfl
  · -- decSElsG
    intro n cdepth d addr size dep s
    cases n with
    | zero => unfold decSElsG; exact TrD.pure rfl
    | succ n =>
      unfold decSElsG
      have h1 := ihSEl cdepth d addr (pushItems (n + 1) dep s)
      rw [next1_pushItems_succ] at h1
      refine TrD.bind h1 ?_
      intro ⟨e, d1⟩
      dsimp only
      apply TrD.ite <;> intro _
      · exact TrD.fail
      · refine TrD.bind (ihSEls n cdepth d1 addr _ dep s) ?_
        intro ⟨es, sz, d2⟩
        exact TrD.pure rfl
  · -- decMElG
    intro cdepth d addr stk
    unfold decMElG
    refine TrD.nextType ?_
    intro ty d1
    dsimp only
    split
    · have h1 := ihSEl cdepth d1 addr (effStk stk)
      rw [next1_effStk] at h1
      refine TrD.bind h1 ?_
      intro ⟨e, d2⟩
      exact TrD.pure rfl
    · refine TrD.tagNumber ?_
      intro n d2
      dsimp only
      rw [next1_effStk]
      apply TrD.ite <;> intro _
      · have h1 := ihMEls cdepth d2 addr (.tag (if topInTag (effStk stk) then topDepth (effStk stk) + 1 else topDepth (effStk stk)) :: next1 stk)
        rw [next1_tag] at h1
        refine TrD.bind h1 ?_
        intro ⟨els, d3⟩
        exact TrD.pure rfl
      · apply TrD.ite <;> intro _
        · have h1 := ihSt cdepth d2 addr (.tag (if topInTag (effStk stk) then topDepth (effStk stk) + 1 else topDepth (effStk stk)) :: next1 stk)
          rw [next1_tag] at h1
          refine TrD.bind h1 ?_
          intro ⟨s, d3⟩
          dsimp only
          split
          · exact TrD.pure rfl
          · exact TrD.fail
        · exact TrD.fail
    · exact TrD.fail
  · -- decMElListG
    intro n cdepth d addr size dep s
    cases n with
    | zero => unfold decMElListG; exact TrD.pure rfl
    | succ n =>
      unfold decMElListG
      have h1 := ihMEl cdepth d addr (pushItems (n + 1) dep s)
      rw [next1_pushItems_succ] at h1
      refine TrD.bind h1 ?_
      intro ⟨e, d1⟩
      dsimp only
      apply TrD.ite <;> intro _
      · exact TrD.fail
      · refine TrD.bind (ihMElList n cdepth d1 addr _ dep s) ?_
        intro ⟨es, sz, d2⟩
        exact TrD.pure rfl

theorem trAll (B T : Nat) (xs : List XD) (hxs : XDWf xs) : ∀ fuel, TrAll B T xs fuel
  | 0 => trAll_zero B T xs
  | fuel + 1 => trAll_succ B T xs hxs fuel (trAll B T xs hxs fuel)

end Atree.Codec
