import AtreeProofs.Codec.DecLemmas
/-
  The CBOR validator (`wfRun`) on encoder output, compositionally: `Acc b k` says that the byte
  string `b` is exactly one well-formed data item wherever the validator expects an item (in a
  definite-length array or directly after a tag number), provided `k` further nesting levels are
  available below the limit of 32.
-/
namespace Atree.Codec
open Atree Atree.Gen

/-- frames at which the validator expects one data item -/
inductive ItemFrame : Frame → Prop where
  | items (n d : Nat) : ItemFrame (.items n d)
  | tag (d : Nat) : ItemFrame (.tag d)

def frameDepth : Frame → Nat
  | .items _ d => d
  | .tag d => d
  | .indefArr _ d => d
  | .indefMap _ d => d
  | .indefStr _ d => d

def frameInTag : Frame → Bool
  | .tag _ => true
  | _ => false

/-- the stack once the item the frame stands for has been started -/
def afterItem : Frame → List Frame → List Frame
  | .items n d, stk => popItem n d stk
  | _, stk => stk

theorem wfRun_item_step {f : Frame} (hf : ItemFrame f) (stk : List Frame) (fuel : Nat) (b : Nat) (tl : Bytes) :
    wfRun (fuel + 1) (f :: stk) (b :: tl) =
      match wfItemStep (frameDepth f) (frameInTag f) (afterItem f stk) (b :: tl) with
      | none => none
      | some (stk', rest') => wfRun fuel stk' rest' := by
  cases hf with
  | items n d => rfl
  | tag d => rfl

/-- `b` is one well-formed item needing at most `k` further nesting levels -/
def Acc (b : Bytes) (k : Nat) : Prop :=
  ∀ (f : Frame), ItemFrame f → ∀ (stk : List Frame) (rest : Bytes) (fuel : Nat),
    frameDepth f + k ≤ maxNestedLevels → (b ++ rest).length ≤ fuel →
    ∃ fuel', rest.length ≤ fuel' ∧ wfRun fuel (f :: stk) (b ++ rest) = wfRun fuel' (afterItem f stk) rest

theorem Acc.mono {b : Bytes} {k k' : Nat} (h : Acc b k) (hk : k ≤ k') : Acc b k' := by
  intro f hf stk rest fuel hd hl
  exact h f hf stk rest fuel (by omega) hl

/-- a head of major type 0 (unsigned integer), whatever its width -/
theorem Acc.ofLeafHead {hb : Bytes} {h : Head} (hne : hb ≠ [])
    (hw : ∀ rest, wfHead (hb ++ rest) = some (h, rest)) (ht : h.t = 0) : Acc hb 0 := by
  intro f hf stk rest fuel _ hl
  cases hd : hb ++ rest with
  | nil => cases hb with
    | nil => exact absurd rfl hne
    | cons x xs => simp at hd
  | cons x tl =>
    have hlen : (x :: tl).length ≤ fuel := by rw [← hd]; exact hl
    obtain ⟨f1, rfl⟩ : ∃ f1, fuel = f1 + 1 := ⟨fuel - 1, by simp at hlen; omega⟩
    refine ⟨f1, ?_, ?_⟩
    · have := hw rest
      have hl2 := wfHead_length this
      rw [hd] at hl2; simp only [List.length_cons] at hlen hl2; omega
    · rw [wfRun_item_step hf, ← hd]
      unfold wfItemStep
      rw [hw rest]
      simp [ht]

theorem Acc.uint {n : Nat} (hn : n < 2 ^ 64) : Acc (head 0 n) 0 :=
  Acc.ofLeafHead (by unfold head; repeat' split
                     all_goals simp) (fun rest => wfHead_head (by omega) hn rest) rfl

/-- the fixed-size `uint8` `0x18 i` -/
theorem Acc.uint8Fixed {i : Nat} (hi : i < 256) : Acc [0x18, i] 0 :=
  Acc.ofLeafHead (h := ⟨0, 24, i⟩) (by simp) (fun rest => by simp [wfHead]) rfl

/-- a definite-length byte string whose head is `hb` -/
theorem Acc.ofBytesHead {hb content : Bytes} {h : Head} (hne : hb ≠ [])
    (hw : ∀ rest, wfHead (hb ++ rest) = some (h, rest)) (ht : h.t = 2) (hai : h.ai ≠ 31)
    (hv : h.val = content.length) (hl63 : content.length < 2 ^ 63) : Acc (hb ++ content) 0 := by
  intro f hf stk rest fuel _ hl
  cases hd : hb ++ (content ++ rest) with
  | nil => cases hb with
    | nil => exact absurd rfl hne
    | cons x xs => simp at hd
  | cons x tl =>
    rw [List.append_assoc] at hl ⊢
    have hlen : (x :: tl).length ≤ fuel := by rw [← hd]; exact hl
    obtain ⟨f1, rfl⟩ : ∃ f1, fuel = f1 + 1 := ⟨fuel - 1, by simp at hlen; omega⟩
    have hl2 := wfHead_length (hw (content ++ rest))
    refine ⟨f1, ?_, ?_⟩
    · rw [hd] at hl2; simp only [List.length_cons, List.length_append] at hlen hl2; omega
    · rw [hd, wfRun_item_step hf, ← hd]
      unfold wfItemStep
      rw [hw (content ++ rest)]
      have h1 : ¬ h.val ≥ 2 ^ 63 := by omega
      have h2 : ¬ (content ++ rest).length < h.val := by simp [hv]
      simp only [ht, true_or, ↓reduceIte, hai, h1, h2]
      rw [hv, List.drop_left]

theorem Acc.bytes {content : Bytes} (hl : content.length < 2 ^ 63) : Acc (head 2 content.length ++ content) 0 :=
  Acc.ofBytesHead (by unfold head; repeat' split
                      all_goals simp) (fun rest => wfHead_head (by omega) (by omega) rest) rfl (aiOf_ne_31 _) rfl hl

theorem wfHead_bytesHead16 {n : Nat} (hn : n < 65536) (rest : Bytes) :
    wfHead (bytesHead16 n ++ rest) = some (⟨2, 25, n⟩, rest) := by
  unfold bytesHead16
  simp [wfHead, beVal_beBytes (k := 2) (by omega : n < 256 ^ 2)]

theorem Acc.bytes16 {content : Bytes} (hl : content.length < 65536) : Acc (bytesHead16 content.length ++ content) 0 :=
  Acc.ofBytesHead (by simp [bytesHead16]) (fun rest => wfHead_bytesHead16 hl rest) rfl (by simp) rfl (by omega)

/-- a one-byte tag number in front of an item -/
theorem Acc.tag8 {b : Bytes} {k : Nat} (t : Nat) (h : Acc b k) : Acc (0xd8 :: t :: b) (k + 1) := by
  intro f hf stk rest fuel hd hl
  simp only [List.cons_append, List.length_cons] at hl ⊢
  obtain ⟨f2, rfl⟩ : ∃ f2, fuel = f2 + 1 := ⟨fuel - 1, by omega⟩
  rw [wfRun_item_step hf]
  cases hf with
  | items n d =>
    simp only [frameDepth] at hd
    have hstep : wfItemStep d false (popItem n d stk) (0xd8 :: t :: (b ++ rest))
        = some (.tag d :: popItem n d stk, b ++ rest) := wfItemStep_tag8 _ _ _ _
    simp only [frameDepth, frameInTag, afterItem, hstep]
    obtain ⟨f3, hf3, h3⟩ := h (.tag d) (.tag _) (popItem n d stk) rest f2 (by simp only [frameDepth]; omega) (by omega)
    exact ⟨f3, hf3, by rw [h3]; rfl⟩
  | tag d =>
    simp only [frameDepth] at hd
    have hstep : wfItemStep d true stk (0xd8 :: t :: (b ++ rest))
        = some (.tag (d + 1) :: stk, b ++ rest) := by
      unfold wfItemStep wfHead
      have : ¬ (d + 1 > maxNestedLevels) := by omega
      simp [this]
    simp only [frameDepth, frameInTag, afterItem, hstep]
    obtain ⟨f3, hf3, h3⟩ := h (.tag (d + 1)) (.tag _) stk rest f2 (by simp only [frameDepth]; omega) (by omega)
    exact ⟨f3, hf3, by rw [h3]; rfl⟩

/-- `l` is a sequence of items, each needing at most `k` levels -/
def AccList (l : List Bytes) (k : Nat) : Prop := ∀ b ∈ l, Acc b k

theorem wfRun_accList {k : Nat} : ∀ (l : List Bytes), AccList l k → ∀ (d : Nat) (stk : List Frame) (rest : Bytes)
    (fuel : Nat), d + k ≤ maxNestedLevels → (l.flatten ++ rest).length ≤ fuel →
    ∃ fuel', rest.length ≤ fuel' ∧ wfRun fuel (pushItems l.length d stk) (l.flatten ++ rest) = wfRun fuel' stk rest := by
  intro l
  induction l with
  | nil => intro _ d stk rest fuel _ hl; exact ⟨fuel, by simpa using hl, rfl⟩
  | cons b bs ih =>
    intro hacc d stk rest fuel hd hl
    simp only [List.flatten_cons, List.append_assoc, List.length_cons, pushItems] at hl ⊢
    obtain ⟨f1, hf1, h1⟩ := hacc b (List.mem_cons_self ..) (.items bs.length d) (.items _ _) stk
      (bs.flatten ++ rest) fuel (by simpa [frameDepth] using hd) hl
    obtain ⟨f2, hf2, h2⟩ := ih (fun x hx => hacc x (List.mem_cons_of_mem _ hx)) d stk rest f1 hd hf1
    refine ⟨f2, hf2, ?_⟩
    rw [h1]
    simp only [afterItem]
    rw [popItem_eq_pushItems, h2]

/-- a definite-length array whose head is `hb` and whose elements are `l` -/
theorem Acc.ofArrayHead {hb : Bytes} {h : Head} {l : List Bytes} {k : Nat} (hne : hb ≠ [])
    (hw : ∀ rest, wfHead (hb ++ rest) = some (h, rest)) (ht : h.t = 4) (hai : h.ai ≠ 31)
    (hv : h.val = l.length) (hmax : l.length ≤ maxArrayElements) (hl : AccList l k) :
    Acc (hb ++ l.flatten) (k + 1) := by
  intro f hf stk rest fuel hd hlen
  rw [List.append_assoc] at hlen ⊢
  cases hdd : hb ++ (l.flatten ++ rest) with
  | nil => cases hb with
    | nil => exact absurd rfl hne
    | cons x xs => simp at hdd
  | cons x tl =>
    have hlen' : (x :: tl).length ≤ fuel := by rw [← hdd]; exact hlen
    obtain ⟨f1, rfl⟩ : ∃ f1, fuel = f1 + 1 := ⟨fuel - 1, by simp at hlen'; omega⟩
    have hl2 := wfHead_length (hw (l.flatten ++ rest))
    rw [wfRun_item_step hf, ← hdd]
    unfold wfItemStep
    rw [hw (l.flatten ++ rest)]
    have h1 : ¬ (frameDepth f + 1 > maxNestedLevels) := by omega
    have h2 : ¬ h.val ≥ 2 ^ 63 := by rw [hv]; unfold maxArrayElements at hmax; omega
    have h3 : ¬ h.val > maxArrayElements := by rw [hv]; omega
    simp only [ht, show ¬ ((4 : Nat) = 2 ∨ (4 : Nat) = 3) by decide, ↓reduceIte, true_or, h1, hai, h2, h3]
    rw [hv]
    exact wfRun_accList l hl (frameDepth f + 1) (afterItem f stk) rest f1 (by omega)
      (by rw [hdd] at hl2; simp only [List.length_cons, List.length_append] at hlen' hl2 ⊢; omega)

theorem Acc.array {l : List Bytes} {k : Nat} (hmax : l.length ≤ maxArrayElements) (hl : AccList l k) :
    Acc (head 4 l.length ++ l.flatten) (k + 1) :=
  Acc.ofArrayHead (by unfold head; repeat' split
                      all_goals simp)
    (fun rest => wfHead_head (by omega) (by unfold maxArrayElements at hmax; omega) rest) rfl (aiOf_ne_31 _) rfl hmax hl

theorem Acc.array16 {l : List Bytes} {k : Nat} (hn : l.length < 65536) (hl : AccList l k) :
    Acc (arrayHead16 l.length ++ l.flatten) (k + 1) :=
  Acc.ofArrayHead (by simp [arrayHead16]) (fun rest => wfHead_arrayHead16 hn rest) rfl (by simp) rfl
    (by unfold maxArrayElements; omega) hl

/-- from `Acc` to the validation of the next top-level item -/
theorem wfNext_of_acc {b : Bytes} {k : Nat} (h : Acc b k) (hk : k ≤ maxNestedLevels) (rest : Bytes) :
    wfNext (b ++ rest) = some rest := by
  unfold wfNext
  obtain ⟨f', _, h'⟩ := h (.items 0 0) (.items 0 0) [] rest (b ++ rest).length (by simpa [frameDepth] using hk)
    (Nat.le_refl _)
  rw [h']
  simp only [afterItem, popItem]
  exact wfRun_nil _ _

end Atree.Codec
