import AtreeProofs.Codec.DecOps
import AtreeProofs.Codec.HeadG
/-
  Round trip of the second part of the model WITHOUT inlined slabs: storables that are plain
  values, slab references and (nested) wrappers of these; map elements with inline and external
  collision groups and last-level element lists; map data / collision-group slabs, map index slabs,
  array data slabs and large-value slabs holding wrapped values.
-/
namespace Atree.Codec
open Atree Atree.Gen DM

/-! ### what is covered, and what the round trip needs -/

mutual
/-- no inlined array / map inside -/
def Stor.noInl : Stor → Prop
  | .val _ _ => True
  | .ref _ => True
  | .some s => s.noInl
  | .arr _ _ _ => False
  | .map _ _ _ => False
def SEl.noInl : SEl → Prop
  | .mk k v => k.noInl ∧ v.noInl
def MEl.noInl : MEl → Prop
  | .single e => e.noInl
  | .inl els => els.noInl
  | .ext _ => True
def MEls.noInl : MEls → Prop
  | .hkey _ _ es => noInlMElList es
  | .single _ es => noInlSElList es
def noInlMElList : List MEl → Prop
  | [] => True
  | e :: es => e.noInl ∧ noInlMElList es
def noInlSElList : List SEl → Prop
  | [] => True
  | e :: es => e.noInl ∧ noInlSElList es
end

def noInlSts : List Stor → Prop
  | [] => True
  | s :: ss => s.noInl ∧ noInlSts ss

/-- number of wrappers around the innermost storable -/
def Stor.wraps : Stor → Nat
  | .some s => s.wraps + 1
  | _ => 0

mutual
/-- values the encoder and the decoder agree on: plain values of the harness, slab IDs that fit 16
    bytes, sizes that fit `uint32`, counts that fit the fixed-width heads, digest levels below 24
    (the encoder writes the level as one byte; Go refuses levels above `maxDigestLevel`) -/
def Stor.RT : Stor → Prop
  | .val size pay => validElem { size := size, pay := .val pay }
  | .ref id => id.addr < 2 ^ 64 ∧ id.idx < 2 ^ 64
  | .some s => s.RT
  | .arr _ _ _ => True
  | .map _ _ _ => True
def SEl.RT : SEl → Prop
  | .mk k v => k.RT ∧ v.RT ∧ singleElementPrefixSize + k.size + v.size ≤ maxUint32
def MEl.RT : MEl → Prop
  | .single e => e.RT
  | .inl els => els.RT
  | .ext id => id.addr < 2 ^ 64 ∧ id.idx < 2 ^ 64
def MEls.RT : MEls → Prop
  | .hkey level hkeys es =>
    level < 24 ∧ hkeys.length = es.length ∧ es.length < 8192 ∧ (∀ h ∈ hkeys, h < 2 ^ 64) ∧ rtMElList es ∧
      hkeyElementsPrefixSize + sizeMEl es ≤ maxUint32
  | .single level es =>
    level < 24 ∧ es ≠ [] ∧ es.length < 65536 ∧ rtSElList es ∧ singleElementsPrefixSize + sizeSEl es ≤ maxUint32
def rtMElList : List MEl → Prop
  | [] => True
  | e :: es => e.RT ∧ rtMElList es
def rtSElList : List SEl → Prop
  | [] => True
  | e :: es => e.RT ∧ rtSElList es
end

mutual
/-- nesting levels the CBOR validator needs for the encoding (its limit is 32): nested tag numbers
    (wrappers) and arrays (elements, single elements, collision groups) -/
def Stor.vneed : Stor → Nat
  | .val _ _ => 1
  | .ref _ => 1
  | .some s => s.vneed + 1
  | .arr _ _ _ => 0
  | .map _ _ _ => 0
def SEl.vneed : SEl → Nat
  | .mk k v => max k.vneed v.vneed + 1
def MEl.vneed : MEl → Nat
  | .single e => e.vneed
  | .inl els => els.vneed + 1
  | .ext _ => 2
def MEls.vneed : MEls → Nat
  | .hkey _ _ es => vneedMElList es + 2
  | .single _ es => vneedSElList es + 2
def vneedMElList : List MEl → Nat
  | [] => 0
  | e :: es => max e.vneed (vneedMElList es)
def vneedSElList : List SEl → Nat
  | [] => 0
  | e :: es => max e.vneed (vneedSElList es)
end

def vneedSts : List Stor → Nat
  | [] => 0
  | s :: ss => max s.vneed (vneedSts ss)

theorem Stor.wraps_lt_vneed : (s : Stor) → s.noInl → s.wraps < s.vneed
  | .val _ _, _ => by simp [Stor.wraps, Stor.vneed]
  | .ref _, _ => by simp [Stor.wraps, Stor.vneed]
  | .some s, h => by
    have := Stor.wraps_lt_vneed s h
    simp only [Stor.wraps, Stor.vneed]; omega
  | .arr _ _ _, h => h.elim
  | .map _ _ _, h => h.elim

/-! ### without inlined slabs the encoder's `InlinedExtraData` stays empty -/

mutual
theorem encSt_noInl : (s : Stor) → (xs : List XD) → s.noInl → (encSt s xs).2 = xs
  | .val _ _, xs, _ => by simp only [encSt]
  | .ref _, xs, _ => by simp only [encSt]
  | .some s, xs, h => by simp only [encSt]; exact encSt_noInl s xs h
  | .arr _ _ _, _, h => h.elim
  | .map _ _ _, _, h => h.elim
theorem encSEl_noInl : (e : SEl) → (xs : List XD) → e.noInl → (encSEl e xs).2 = xs
  | .mk k v, xs, h => by
    simp only [encSEl]
    rw [encSt_noInl v _ h.2, encSt_noInl k xs h.1]
theorem encMEl_noInl : (e : MEl) → (xs : List XD) → e.noInl → (encMEl e xs).2 = xs
  | .single e, xs, h => by simp only [encMEl]; exact encSEl_noInl e xs h
  | .inl els, xs, h => by simp only [encMEl]; exact encMEls_noInl els xs h
  | .ext _, xs, _ => by simp only [encMEl]
theorem encMEls_noInl : (els : MEls) → (xs : List XD) → els.noInl → (encMEls els xs).2 = xs
  | .hkey _ _ es, xs, h => by simp only [encMEls]; exact encMElList_noInl es xs h
  | .single _ es, xs, h => by simp only [encMEls]; exact encSElList_noInl es xs h
theorem encMElList_noInl : (l : List MEl) → (xs : List XD) → noInlMElList l → (encMElList l xs).2 = xs
  | [], xs, _ => by simp only [encMElList]
  | e :: es, xs, h => by
    simp only [encMElList]
    rw [encMEl_noInl e xs h.1, encMElList_noInl es xs h.2]
theorem encSElList_noInl : (l : List SEl) → (xs : List XD) → noInlSElList l → (encSElList l xs).2 = xs
  | [], xs, _ => by simp only [encSElList]
  | e :: es, xs, h => by
    simp only [encSElList]
    rw [encSEl_noInl e xs h.1, encSElList_noInl es xs h.2]
end

theorem encSts_noInl : (l : List Stor) → (xs : List XD) → noInlSts l → (encSts l xs).2 = xs
  | [], xs, _ => by simp only [encSts]
  | s :: ss, xs, h => by
    simp only [encSts]
    rw [encSt_noInl s xs h.1, encSts_noInl ss xs h.2]

/-! ### `noInl` implies `noCompact`; `RT` implies `OK` -/

mutual
theorem Stor.noCompact_of_noInl : (s : Stor) → s.noInl → s.noCompact
  | .val _ _, _ => trivial
  | .ref _, _ => trivial
  | .some s, h => Stor.noCompact_of_noInl s h
  | .arr _ _ _, h => h.elim
  | .map _ _ _, h => h.elim
theorem SEl.noCompact_of_noInl : (e : SEl) → e.noInl → e.noCompact
  | .mk k v, h => ⟨Stor.noCompact_of_noInl k h.1, Stor.noCompact_of_noInl v h.2⟩
theorem MEl.noCompact_of_noInl : (e : MEl) → e.noInl → e.noCompact
  | .single e, h => SEl.noCompact_of_noInl e h
  | .inl els, h => MEls.noCompact_of_noInl els h
  | .ext _, _ => trivial
theorem MEls.noCompact_of_noInl : (els : MEls) → els.noInl → els.noCompact
  | .hkey _ _ es, h => noCompactMElList_of_noInl es h
  | .single _ es, h => noCompactSElList_of_noInl es h
theorem noCompactMElList_of_noInl : (l : List MEl) → noInlMElList l → noCompactMElList l
  | [], _ => trivial
  | e :: es, h => ⟨MEl.noCompact_of_noInl e h.1, noCompactMElList_of_noInl es h.2⟩
theorem noCompactSElList_of_noInl : (l : List SEl) → noInlSElList l → noCompactSElList l
  | [], _ => trivial
  | e :: es, h => ⟨SEl.noCompact_of_noInl e h.1, noCompactSElList_of_noInl es h.2⟩
end

mutual
theorem Stor.OK_of_RT : (s : Stor) → s.RT → s.noInl → s.OK
  | .val _ _, h, _ => h
  | .ref _, _, _ => trivial
  | .some s, h, hn => Stor.OK_of_RT s h hn
  | .arr _ _ _, _, hn => hn.elim
  | .map _ _ _, _, hn => hn.elim
theorem SEl.OK_of_RT : (e : SEl) → e.RT → e.noInl → e.OK
  | .mk k v, h, hn => ⟨Stor.OK_of_RT k h.1 hn.1, Stor.OK_of_RT v h.2.1 hn.2⟩
theorem MEl.OK_of_RT : (e : MEl) → e.RT → e.noInl → e.OK
  | .single e, h, hn => SEl.OK_of_RT e h hn
  | .inl els, h, hn => MEls.OK_of_RT els h hn
  | .ext _, _, _ => trivial
theorem MEls.OK_of_RT : (els : MEls) → els.RT → els.noInl → els.OK
  | .hkey _ _ es, h, hn => ⟨h.2.1, okMElList_of_RT es h.2.2.2.2.1 hn⟩
  | .single _ es, h, hn => okSElList_of_RT es h.2.2.2.1 hn
theorem okMElList_of_RT : (l : List MEl) → rtMElList l → noInlMElList l → okMElList l
  | [], _, _ => trivial
  | e :: es, h, hn => ⟨MEl.OK_of_RT e h.1 hn.1, okMElList_of_RT es h.2 hn.2⟩
theorem okSElList_of_RT : (l : List SEl) → rtSElList l → noInlSElList l → okSElList l
  | [], _, _ => trivial
  | e :: es, h, hn => ⟨SEl.OK_of_RT e h.1 hn.1, okSElList_of_RT es h.2 hn.2⟩
end

/-! ### the CBOR validator accepts the encodings -/

theorem acc_encodeElem (e : Elem) (hv : validElem e) : Acc (encodeElem e) 1 := by
  unfold validElem at hv
  unfold encodeElem
  cases hp : e.pay with
  | ref id =>
    simp only [tagHead8, List.cons_append, List.nil_append]
    have : Acc (head 2 SlabIDLength ++ encodeSlabID id) 0 := by
      have h := Acc.bytes (content := encodeSlabID id) (by simp [length_encodeSlabID])
      rw [length_encodeSlabID] at h
      exact h
    exact Acc.tag8 _ this
  | val p =>
    rw [hp] at hv
    simp only
    have hl := tvLen_lt hv.2.2.1
    have hb : Acc (head 2 (tvLen e.size) ++ tvContent (tvLen e.size) p) 0 := by
      have h := Acc.bytes (content := tvContent (tvLen e.size) p) (by rw [length_tvContent]; exact hl)
      rw [length_tvContent] at h
      exact h
    by_cases hg : isGap e.size = true
    · simp only [hg, ↓reduceIte, tagHead8, List.cons_append, List.nil_append]
      exact Acc.tag8 _ hb
    · simp only [hg, Bool.false_eq_true, ↓reduceIte, List.nil_append]
      exact hb.mono (by omega)

theorem acc_encodeRef (id : SlabID) : Acc (encodeElem { size := slabIDStorableSize, pay := .ref id }) 1 := by
  unfold encodeElem
  simp only [tagHead8, List.cons_append, List.nil_append]
  have : Acc (head 2 SlabIDLength ++ encodeSlabID id) 0 := by
    have h := Acc.bytes (content := encodeSlabID id) (by simp [length_encodeSlabID])
    rw [length_encodeSlabID] at h
    exact h
  exact Acc.tag8 _ this

theorem flatten_pair (a b : Bytes) : [a, b].flatten = a ++ b := by simp

theorem flatten_triple (a b c : Bytes) : [a, b, c].flatten = a ++ (b ++ c) := by simp

/-- a list of encoded items with the encoder's state threaded through, as a list of byte strings -/
def encMElParts : List MEl → List XD → List Bytes
  | [], _ => []
  | e :: es, xs => (encMEl e xs).1 :: encMElParts es (encMEl e xs).2

def encSElParts : List SEl → List XD → List Bytes
  | [], _ => []
  | e :: es, xs => (encSEl e xs).1 :: encSElParts es (encSEl e xs).2

theorem encMElParts_flatten : ∀ (l : List MEl) (xs : List XD), (encMElParts l xs).flatten = (encMElList l xs).1
  | [], xs => by simp [encMElParts, encMElList]
  | e :: es, xs => by simp [encMElParts, encMElList, encMElParts_flatten es]

theorem encSElParts_flatten : ∀ (l : List SEl) (xs : List XD), (encSElParts l xs).flatten = (encSElList l xs).1
  | [], xs => by simp [encSElParts, encSElList]
  | e :: es, xs => by simp [encSElParts, encSElList, encSElParts_flatten es]

theorem encMElParts_length : ∀ (l : List MEl) (xs : List XD), (encMElParts l xs).length = l.length
  | [], xs => rfl
  | e :: es, xs => by simp [encMElParts, encMElParts_length es]

theorem encSElParts_length : ∀ (l : List SEl) (xs : List XD), (encSElParts l xs).length = l.length
  | [], xs => rfl
  | e :: es, xs => by simp [encSElParts, encSElParts_length es]

mutual
theorem accSt : (s : Stor) → (xs : List XD) → s.RT → s.noInl → Acc (encSt s xs).1 s.vneed
  | .val size pay, xs, h, _ => by
    simp only [encSt, Stor.vneed]; exact acc_encodeElem _ h
  | .ref id, xs, _, _ => by
    simp only [encSt, Stor.vneed]; exact acc_encodeRef id
  | .some s, xs, h, hn => by
    simp only [encSt, Stor.vneed, tagHead8, List.cons_append, List.nil_append]
    exact Acc.tag8 _ (accSt s xs h hn)
  | .arr _ _ _, _, _, hn => hn.elim
  | .map _ _ _, _, _, hn => hn.elim
theorem accSEl : (e : SEl) → (xs : List XD) → e.RT → e.noInl → Acc (encSEl e xs).1 e.vneed
  | .mk k v, xs, h, hn => by
    have hk := accSt k xs h.1 hn.1
    have hv := accSt v (encSt k xs).2 h.2.1 hn.2
    simp only [encSEl, SEl.vneed]
    have hl : AccList [(encSt k xs).1, (encSt v (encSt k xs).2).1] (max k.vneed v.vneed) := by
      intro b hb
      simp only [List.mem_cons, List.not_mem_nil, or_false] at hb
      rcases hb with rfl | rfl
      · exact hk.mono (Nat.le_max_left _ _)
      · exact hv.mono (Nat.le_max_right _ _)
    have := Acc.array (by simp [maxArrayElements]) hl
    simpa [head, flatten_pair] using this
theorem accMEl : (e : MEl) → (xs : List XD) → e.RT → e.noInl → Acc (encMEl e xs).1 e.vneed
  | .single e, xs, h, hn => by
    simp only [encMEl, MEl.vneed]; exact accSEl e xs h hn
  | .inl els, xs, h, hn => by
    simp only [encMEl, MEl.vneed, tagHead8, List.cons_append, List.nil_append]
    exact Acc.tag8 _ (accMEls els xs h hn)
  | .ext id, xs, _, _ => by
    simp only [encMEl, MEl.vneed, tagHead8, List.cons_append, List.nil_append]
    exact Acc.tag8 _ (acc_encodeRef id)
theorem accMEls : (els : MEls) → (xs : List XD) → els.RT → els.noInl → Acc (encMEls els xs).1 els.vneed
  | .hkey level hkeys es, xs, h, hn => by
    obtain ⟨hlev, hlen, h8192, hhk, hes, _⟩ := h
    have hparts := accMElParts es xs hes hn
    have hinner : Acc (arrayHead16 es.length ++ (encMElList es xs).1) (vneedMElList es + 1) := by
      have := Acc.array16 (l := encMElParts es xs) (k := vneedMElList es)
        (by rw [encMElParts_length]; omega) hparts
      rw [encMElParts_length, encMElParts_flatten] at this
      exact this
    have hbytes : Acc (bytesHead16 (hkeys.length * 8) ++ encodeHkeys hkeys) 0 := by
      have := Acc.bytes16 (content := encodeHkeys hkeys) (by rw [length_encodeHkeys]; omega)
      rw [length_encodeHkeys, Nat.mul_comm] at this
      exact this
    have hlevel : Acc [level % 256] 0 := by
      have := Acc.uint (n := level) (by omega)
      have hh : head 0 level = [level % 256] := by
        unfold head; rw [if_pos hlev]; simp; omega
      rw [hh] at this; exact this
    have hl : AccList [[level % 256], bytesHead16 (hkeys.length * 8) ++ encodeHkeys hkeys,
        arrayHead16 es.length ++ (encMElList es xs).1] (vneedMElList es + 1) := by
      intro b hb
      simp only [List.mem_cons, List.not_mem_nil, or_false] at hb
      rcases hb with rfl | rfl | rfl
      · exact hlevel.mono (by omega)
      · exact hbytes.mono (by omega)
      · exact hinner
    have := Acc.array (by simp [maxArrayElements]) hl
    simp only [encMEls, MEls.vneed]
    simpa [head, flatten_triple] using this
  | .single level es, xs, h, hn => by
    obtain ⟨hlev, _, h64k, hes, _⟩ := h
    have hparts := accSElParts es xs hes hn
    have hinner : Acc (arrayHead16 es.length ++ (encSElList es xs).1) (vneedSElList es + 1) := by
      have := Acc.array16 (l := encSElParts es xs) (k := vneedSElList es)
        (by rw [encSElParts_length]; omega) hparts
      rw [encSElParts_length, encSElParts_flatten] at this
      exact this
    have hbytes : Acc [0x40] 0 := by
      have := Acc.bytes (content := []) (by simp)
      simpa [head] using this
    have hlevel : Acc [level % 256] 0 := by
      have := Acc.uint (n := level) (by omega)
      have hh : head 0 level = [level % 256] := by
        unfold head; rw [if_pos hlev]; simp; omega
      rw [hh] at this; exact this
    have hl : AccList [[level % 256], [0x40], arrayHead16 es.length ++ (encSElList es xs).1]
        (vneedSElList es + 1) := by
      intro b hb
      simp only [List.mem_cons, List.not_mem_nil, or_false] at hb
      rcases hb with rfl | rfl | rfl
      · exact hlevel.mono (by omega)
      · exact hbytes.mono (by omega)
      · exact hinner
    have := Acc.array (by simp [maxArrayElements]) hl
    simp only [encMEls, MEls.vneed]
    simpa [head, flatten_triple] using this
theorem accMElParts : (l : List MEl) → (xs : List XD) → rtMElList l → noInlMElList l →
    AccList (encMElParts l xs) (vneedMElList l)
  | [], xs, _, _ => by intro b hb; simp [encMElParts] at hb
  | e :: es, xs, h, hn => by
    intro b hb
    simp only [encMElParts, List.mem_cons] at hb
    rcases hb with rfl | hb
    · exact (accMEl e xs h.1 hn.1).mono (by simp only [vneedMElList]; exact Nat.le_max_left _ _)
    · exact (accMElParts es _ h.2 hn.2 b hb).mono (by simp only [vneedMElList]; exact Nat.le_max_right _ _)
theorem accSElParts : (l : List SEl) → (xs : List XD) → rtSElList l → noInlSElList l →
    AccList (encSElParts l xs) (vneedSElList l)
  | [], xs, _, _ => by intro b hb; simp [encSElParts] at hb
  | e :: es, xs, h, hn => by
    intro b hb
    simp only [encSElParts, List.mem_cons] at hb
    rcases hb with rfl | hb
    · exact (accSEl e xs h.1 hn.1).mono (by simp only [vneedSElList]; exact Nat.le_max_left _ _)
    · exact (accSElParts es _ h.2 hn.2 b hb).mono (by simp only [vneedSElList]; exact Nat.le_max_right _ _)
end

end Atree.Codec
