import AtreeProofs.Codec.Accept
/-
  More about the validator machine `wfRun`: its steps are local to the top frame, its result is a
  suffix of the input, a run over a stack `pre ++ base` is a run over `pre` followed by a run over
  `base`, runs over stacks of the same shape (depths aside) that both succeed consume the same
  input — and therefore: skipping one validated item with a fresh validation (`DecodeRawBytes`)
  leaves the enclosing validation where it would have been.
-/
namespace Atree.Codec

/-! ### the frames an item head pushes -/

/-- `wfItemStep` without the stack: the frames pushed and the input left -/
def stepNew (depth : Nat) (inTag : Bool) (data : Bytes) : Option (List Frame × Bytes) :=
  wfItemStep depth inTag [] data

theorem pushItems_append (c d : Nat) (stk : List Frame) : pushItems c d stk = pushItems c d [] ++ stk := by
  cases c <;> rfl

theorem popItem_append (n d : Nat) (stk : List Frame) : popItem n d stk = popItem n d [] ++ stk := by
  cases n <;> rfl

theorem wfItemStep_eq (depth : Nat) (inTag : Bool) (stk : List Frame) (data : Bytes) :
    wfItemStep depth inTag stk data = (stepNew depth inTag data).map (fun p => (p.1 ++ stk, p.2)) := by
  unfold stepNew wfItemStep
  cases wfHead data with
  | none => rfl
  | some p =>
    obtain ⟨h, rest⟩ := p
    simp only
    repeat' split
    all_goals first
      | rfl
      | (simp only [Option.map_some, List.nil_append, List.cons_append]; done)
      | (simp only [Option.map_some, List.nil_append, List.cons_append]; rw [pushItems_append _ _ stk])

/-- the effect of one machine step on the top frame: the frames that replace it, the input left -/
def frameStep (f : Frame) (data : Bytes) : Option (List Frame × Bytes) :=
  match data with
  | [] => none
  | b :: rest =>
    match f with
    | .items n depth => (stepNew depth false data).map (fun p => (p.1 ++ popItem n depth [], p.2))
    | .tag depth => stepNew depth true data
    | .indefArr i depth =>
      if b = 255 then some ([], rest)
      else if i + 1 > maxArrayElements then none
      else (stepNew depth false data).map (fun p => (p.1 ++ [.indefArr (i + 1) depth], p.2))
    | .indefMap i depth =>
      if b = 255 then (if i % 2 = 1 then none else some ([], rest))
      else if (i + 1) % 2 = 0 ∧ (i + 1) / 2 > maxMapPairs then none
      else (stepNew depth false data).map (fun p => (p.1 ++ [.indefMap (i + 1) depth], p.2))
    | .indefStr t depth =>
      if b = 255 then some ([], rest)
      else if b / 32 % 8 ≠ t then none
      else if b % 32 = 31 then none
      else (stepNew depth false data).map (fun p => (p.1 ++ [.indefStr t depth], p.2))

theorem wfRun_frameStep (fuel : Nat) (f : Frame) (stk : List Frame) (data : Bytes) :
    wfRun (fuel + 1) (f :: stk) data =
      match frameStep f data with
      | none => none
      | some (top, r) => wfRun fuel (top ++ stk) r := by
  cases data with
  | nil => simp [wfRun, frameStep]
  | cons b rest =>
    cases f with
    | items n depth =>
      simp only [wfRun, frameStep]
      rw [wfItemStep_eq, popItem_append]
      cases stepNew depth false (b :: rest) with
      | none => rfl
      | some p => simp [List.append_assoc]
    | tag depth =>
      simp only [wfRun, frameStep]
      rw [wfItemStep_eq]
      cases stepNew depth true (b :: rest) with
      | none => rfl
      | some p => simp
    | indefArr i depth =>
      simp only [wfRun, frameStep]
      split
      · simp
      · split
        · rfl
        · rw [wfItemStep_eq]
          cases stepNew depth false (b :: rest) with
          | none => rfl
          | some p => simp [List.append_assoc]
    | indefMap i depth =>
      simp only [wfRun, frameStep]
      split
      · split
        · rfl
        · simp
      · split
        · rfl
        · rw [wfItemStep_eq]
          cases stepNew depth false (b :: rest) with
          | none => rfl
          | some p => simp [List.append_assoc]
    | indefStr t depth =>
      simp only [wfRun, frameStep]
      split
      · simp
      · split
        · rfl
        · split
          · rfl
          · rw [wfItemStep_eq]
            cases stepNew depth false (b :: rest) with
            | none => rfl
            | some p => simp [List.append_assoc]

/-! ### a run over `pre ++ base` is a run over `pre`, then one over `base` -/

theorem wfRun_split : ∀ (fuel : Nat) (pre base : List Frame) (data out : Bytes),
    wfRun fuel (pre ++ base) data = some out →
    ∃ mid f1 f2, wfRun f1 pre data = some mid ∧ wfRun f2 base mid = some out := by
  intro fuel
  induction fuel with
  | zero =>
    intro pre base data out h
    cases pre with
    | nil => exact ⟨data, 0, 0, by simp [wfRun], by simpa using h⟩
    | cons f p => simp [wfRun] at h
  | succ fuel ih =>
    intro pre base data out h
    cases pre with
    | nil => exact ⟨data, 0, fuel + 1, by simp [wfRun], by simpa using h⟩
    | cons f p =>
      rw [List.cons_append, wfRun_frameStep] at h
      cases hs : frameStep f data with
      | none => rw [hs] at h; cases h
      | some tr =>
        obtain ⟨top, r⟩ := tr
        rw [hs] at h
        simp only at h
        rw [← List.append_assoc] at h
        obtain ⟨mid, f1, f2, h1, h2⟩ := ih (top ++ p) base r out h
        refine ⟨mid, f1 + 1, f2, ?_, h2⟩
        rw [wfRun_frameStep, hs]
        exact h1

/-! ### stacks of the same shape -/

/-- same kind of frame and same counters; the nesting depths may differ -/
def sameFrame : Frame → Frame → Prop
  | .items n _, .items m _ => n = m
  | .tag _, .tag _ => True
  | .indefArr i _, .indefArr j _ => i = j
  | .indefMap i _, .indefMap j _ => i = j
  | .indefStr t _, .indefStr u _ => t = u
  | _, _ => False

inductive SameShape : List Frame → List Frame → Prop where
  | nil : SameShape [] []
  | cons {f g : Frame} {a b : List Frame} : sameFrame f g → SameShape a b → SameShape (f :: a) (g :: b)

theorem SameShape.append {a b c d : List Frame} (h1 : SameShape a b) (h2 : SameShape c d) :
    SameShape (a ++ c) (b ++ d) := by
  induction h1 with
  | nil => exact h2
  | cons hf _ ih => exact SameShape.cons hf ih

theorem sameShape_pushItems (c d1 d2 : Nat) : SameShape (pushItems c d1 []) (pushItems c d2 []) := by
  cases c with
  | zero => exact SameShape.nil
  | succ n => exact SameShape.cons rfl SameShape.nil

theorem sameShape_popItem (n d1 d2 : Nat) : SameShape (popItem n d1 []) (popItem n d2 []) := by
  cases n with
  | zero => exact SameShape.nil
  | succ n => exact SameShape.cons rfl SameShape.nil

/-- what an item head pushes does not depend on the depth or on following a tag number, as long as the
    step succeeds -/
theorem stepNew_shape {d1 d2 : Nat} {t1 t2 : Bool} {data r1 r2 : Bytes} {n1 n2 : List Frame}
    (h1 : stepNew d1 t1 data = some (n1, r1)) (h2 : stepNew d2 t2 data = some (n2, r2)) :
    r1 = r2 ∧ SameShape n1 n2 := by
  unfold stepNew wfItemStep at h1 h2
  cases hw : wfHead data with
  | none => rw [hw] at h1; cases h1
  | some p =>
    obtain ⟨h, rest⟩ := p
    rw [hw] at h1 h2
    simp only at h1 h2
    by_cases hs : h.t = 2 ∨ h.t = 3
    · simp only [hs, ↓reduceIte] at h1 h2
      by_cases hi : h.ai = 31
      · simp only [hi, ↓reduceIte, Option.some.injEq, Prod.mk.injEq] at h1 h2
        obtain ⟨rfl, rfl⟩ := h1
        obtain ⟨rfl, rfl⟩ := h2
        exact ⟨rfl, SameShape.cons rfl SameShape.nil⟩
      · simp only [hi, ↓reduceIte] at h1 h2
        split at h1
        · cases h1
        · split at h1
          · cases h1
          · rename_i hv hl
            simp only [hv, hl, ↓reduceIte, Option.some.injEq, Prod.mk.injEq] at h1 h2
            obtain ⟨rfl, rfl⟩ := h1
            obtain ⟨rfl, rfl⟩ := h2
            exact ⟨rfl, SameShape.nil⟩
    · simp only [hs, ↓reduceIte] at h1 h2
      by_cases ha : h.t = 4 ∨ h.t = 5
      · simp only [ha, ↓reduceIte] at h1 h2
        split at h1
        · cases h1
        · split at h2
          · cases h2
          · by_cases hi : h.ai = 31
            · simp only [hi, ↓reduceIte, Option.some.injEq, Prod.mk.injEq] at h1 h2
              obtain ⟨rfl, rfl⟩ := h1
              obtain ⟨rfl, rfl⟩ := h2
              refine ⟨rfl, SameShape.cons ?_ SameShape.nil⟩
              by_cases h4 : h.t = 4 <;> simp [h4, sameFrame]
            · simp only [hi, ↓reduceIte] at h1 h2
              by_cases hv : h.val ≥ 2 ^ 63
              · simp only [hv, ↓reduceIte] at h1; cases h1
              · simp only [hv, ↓reduceIte] at h1 h2
                by_cases h4 : h.t = 4
                · simp only [h4, ↓reduceIte] at h1 h2
                  split at h1
                  · cases h1
                  · rename_i hm
                    simp only [hm, ↓reduceIte, Option.some.injEq, Prod.mk.injEq] at h1 h2
                    obtain ⟨rfl, rfl⟩ := h1
                    obtain ⟨rfl, rfl⟩ := h2
                    exact ⟨rfl, sameShape_pushItems _ _ _⟩
                · simp only [h4, ↓reduceIte] at h1 h2
                  split at h1
                  · cases h1
                  · rename_i hm
                    simp only [hm, ↓reduceIte, Option.some.injEq, Prod.mk.injEq] at h1 h2
                    obtain ⟨rfl, rfl⟩ := h1
                    obtain ⟨rfl, rfl⟩ := h2
                    exact ⟨rfl, sameShape_pushItems _ _ _⟩
      · simp only [ha, ↓reduceIte] at h1 h2
        by_cases h6 : h.t = 6
        · simp only [h6, ↓reduceIte] at h1 h2
          have hn1 : ∃ e, n1 = [.tag e] ∧ r1 = rest := by
            cases t1 with
            | true =>
              simp only [↓reduceIte] at h1
              split at h1
              · cases h1
              · simp only [Option.some.injEq, Prod.mk.injEq] at h1; exact ⟨_, h1.1.symm, h1.2.symm⟩
            | false =>
              simp only [Bool.false_eq_true, ↓reduceIte, Option.some.injEq, Prod.mk.injEq] at h1
              exact ⟨_, h1.1.symm, h1.2.symm⟩
          have hn2 : ∃ e, n2 = [.tag e] ∧ r2 = rest := by
            cases t2 with
            | true =>
              simp only [↓reduceIte] at h2
              split at h2
              · cases h2
              · simp only [Option.some.injEq, Prod.mk.injEq] at h2; exact ⟨_, h2.1.symm, h2.2.symm⟩
            | false =>
              simp only [Bool.false_eq_true, ↓reduceIte, Option.some.injEq, Prod.mk.injEq] at h2
              exact ⟨_, h2.1.symm, h2.2.symm⟩
          obtain ⟨e1, rfl, rfl⟩ := hn1
          obtain ⟨e2, rfl, rfl⟩ := hn2
          exact ⟨rfl, SameShape.cons trivial SameShape.nil⟩
        · simp only [h6, ↓reduceIte, Option.some.injEq, Prod.mk.injEq] at h1 h2
          obtain ⟨rfl, rfl⟩ := h1
          obtain ⟨rfl, rfl⟩ := h2
          exact ⟨rfl, SameShape.nil⟩

theorem map_some_eq {α β : Type} {o : Option α} {g : α → β} {b : β} (h : o.map g = some b) :
    ∃ a, o = some a ∧ g a = b := by
  cases o with
  | none => cases h
  | some a => exact ⟨a, rfl, by simpa using h⟩

theorem frameStep_shape {f g : Frame} (hfg : sameFrame f g) {data r1 r2 : Bytes} {t1 t2 : List Frame}
    (h1 : frameStep f data = some (t1, r1)) (h2 : frameStep g data = some (t2, r2)) :
    r1 = r2 ∧ SameShape t1 t2 := by
  cases data with
  | nil => simp [frameStep] at h1
  | cons b rest =>
    cases f with
    | items n d1 =>
      cases g with
      | items m d2 =>
        have hnm : n = m := hfg
        subst hnm
        simp only [frameStep] at h1 h2
        obtain ⟨p1, hp1, he1⟩ := map_some_eq h1
        obtain ⟨p2, hp2, he2⟩ := map_some_eq h2
        obtain ⟨n1, q1⟩ := p1
        obtain ⟨n2, q2⟩ := p2
        obtain ⟨hr, hs⟩ := stepNew_shape hp1 hp2
        simp only [Prod.mk.injEq] at he1 he2
        obtain ⟨rfl, rfl⟩ := he1
        obtain ⟨rfl, rfl⟩ := he2
        exact ⟨hr, hs.append (sameShape_popItem _ _ _)⟩
      | tag _ => exact hfg.elim
      | indefArr _ _ => exact hfg.elim
      | indefMap _ _ => exact hfg.elim
      | indefStr _ _ => exact hfg.elim
    | tag d1 =>
      cases g with
      | tag d2 =>
        simp only [frameStep] at h1 h2
        exact stepNew_shape h1 h2
      | items _ _ => exact hfg.elim
      | indefArr _ _ => exact hfg.elim
      | indefMap _ _ => exact hfg.elim
      | indefStr _ _ => exact hfg.elim
    | indefArr i d1 =>
      cases g with
      | indefArr j d2 =>
        have hij : i = j := hfg
        subst hij
        simp only [frameStep] at h1 h2
        by_cases hb : b = 255
        · simp only [hb, ↓reduceIte, Option.some.injEq, Prod.mk.injEq] at h1 h2
          obtain ⟨rfl, rfl⟩ := h1
          obtain ⟨rfl, rfl⟩ := h2
          exact ⟨rfl, SameShape.nil⟩
        · simp only [hb, ↓reduceIte] at h1 h2
          split at h1
          · cases h1
          · rename_i hm
            simp only [hm, ↓reduceIte] at h2
            obtain ⟨p1, hp1, he1⟩ := map_some_eq h1
            obtain ⟨p2, hp2, he2⟩ := map_some_eq h2
            obtain ⟨n1, q1⟩ := p1
            obtain ⟨n2, q2⟩ := p2
            obtain ⟨hr, hs⟩ := stepNew_shape hp1 hp2
            simp only [Prod.mk.injEq] at he1 he2
            obtain ⟨rfl, rfl⟩ := he1
            obtain ⟨rfl, rfl⟩ := he2
            exact ⟨hr, hs.append (SameShape.cons rfl SameShape.nil)⟩
      | items _ _ => exact hfg.elim
      | tag _ => exact hfg.elim
      | indefMap _ _ => exact hfg.elim
      | indefStr _ _ => exact hfg.elim
    | indefMap i d1 =>
      cases g with
      | indefMap j d2 =>
        have hij : i = j := hfg
        subst hij
        simp only [frameStep] at h1 h2
        by_cases hb : b = 255
        · simp only [hb, ↓reduceIte] at h1 h2
          split at h1
          · cases h1
          · rename_i hm
            simp only [hm, ↓reduceIte, Option.some.injEq, Prod.mk.injEq] at h1 h2
            obtain ⟨rfl, rfl⟩ := h1
            obtain ⟨rfl, rfl⟩ := h2
            exact ⟨rfl, SameShape.nil⟩
        · simp only [hb, ↓reduceIte] at h1 h2
          split at h1
          · cases h1
          · rename_i hm
            simp only [hm, ↓reduceIte] at h2
            obtain ⟨p1, hp1, he1⟩ := map_some_eq h1
            obtain ⟨p2, hp2, he2⟩ := map_some_eq h2
            obtain ⟨n1, q1⟩ := p1
            obtain ⟨n2, q2⟩ := p2
            obtain ⟨hr, hs⟩ := stepNew_shape hp1 hp2
            simp only [Prod.mk.injEq] at he1 he2
            obtain ⟨rfl, rfl⟩ := he1
            obtain ⟨rfl, rfl⟩ := he2
            exact ⟨hr, hs.append (SameShape.cons rfl SameShape.nil)⟩
      | items _ _ => exact hfg.elim
      | tag _ => exact hfg.elim
      | indefArr _ _ => exact hfg.elim
      | indefStr _ _ => exact hfg.elim
    | indefStr t d1 =>
      cases g with
      | indefStr u d2 =>
        have htu : t = u := hfg
        subst htu
        simp only [frameStep] at h1 h2
        by_cases hb : b = 255
        · simp only [hb, ↓reduceIte, Option.some.injEq, Prod.mk.injEq] at h1 h2
          obtain ⟨rfl, rfl⟩ := h1
          obtain ⟨rfl, rfl⟩ := h2
          exact ⟨rfl, SameShape.nil⟩
        · simp only [hb, ↓reduceIte] at h1 h2
          split at h1
          · cases h1
          · rename_i hm
            simp only [hm, ↓reduceIte] at h2
            split at h1
            · cases h1
            · rename_i hm2
              simp only [hm2, ↓reduceIte] at h2
              obtain ⟨p1, hp1, he1⟩ := map_some_eq h1
              obtain ⟨p2, hp2, he2⟩ := map_some_eq h2
              obtain ⟨n1, q1⟩ := p1
              obtain ⟨n2, q2⟩ := p2
              obtain ⟨hr, hs⟩ := stepNew_shape hp1 hp2
              simp only [Prod.mk.injEq] at he1 he2
              obtain ⟨rfl, rfl⟩ := he1
              obtain ⟨rfl, rfl⟩ := he2
              exact ⟨hr, hs.append (SameShape.cons rfl SameShape.nil)⟩
      | items _ _ => exact hfg.elim
      | tag _ => exact hfg.elim
      | indefArr _ _ => exact hfg.elim
      | indefMap _ _ => exact hfg.elim

/-- successful runs over stacks of the same shape end at the same place -/
theorem wfRun_sameShape : ∀ (f1 : Nat) (a b : List Frame) (data m1 m2 : Bytes) (f2 : Nat),
    SameShape a b → wfRun f1 a data = some m1 → wfRun f2 b data = some m2 → m1 = m2 := by
  intro f1
  induction f1 with
  | zero =>
    intro a b data m1 m2 f2 hs h1 h2
    cases hs with
    | nil =>
      have e1 : wfRun 0 [] data = some data := by simp [wfRun]
      have e2 : wfRun f2 [] data = some data := wfRun_nil _ _
      rw [e1] at h1; rw [e2] at h2
      cases h1; cases h2; rfl
    | cons _ _ => simp [wfRun] at h1
  | succ f1 ih =>
    intro a b data m1 m2 f2 hs h1 h2
    cases hs with
    | nil =>
      have e1 : wfRun (f1 + 1) [] data = some data := wfRun_nil _ _
      have e2 : wfRun f2 [] data = some data := wfRun_nil _ _
      rw [e1] at h1; rw [e2] at h2
      cases h1; cases h2; rfl
    | cons hfg hab =>
      rename_i f g a' b'
      cases f2 with
      | zero => simp [wfRun] at h2
      | succ f2 =>
        rw [wfRun_frameStep] at h1 h2
        cases hs1 : frameStep f data with
        | none => rw [hs1] at h1; cases h1
        | some tr1 =>
          cases hs2 : frameStep g data with
          | none => rw [hs2] at h2; cases h2
          | some tr2 =>
            obtain ⟨t1, r1⟩ := tr1
            obtain ⟨t2, r2⟩ := tr2
            rw [hs1] at h1; rw [hs2] at h2
            obtain ⟨hr, hsh⟩ := frameStep_shape hfg hs1 hs2
            subst hr
            exact ih (t1 ++ a') (t2 ++ b') r1 m1 m2 f2 (hsh.append hab) h1 h2

/-! ### skipping one item -/

/-- `DecodeRawBytes` inside a validated item: a fresh validation of the next item ends where the
    enclosing validation finishes that item -/
theorem wfRun_skip_item {f : Frame} (hf : ItemFrame f) {s : List Frame} {data out rest : Bytes} {F : Nat}
    (h : wfRun F (f :: s) data = some out) (hw : wfNext data = some rest) :
    ∃ F', wfRun F' (afterItem f s) rest = some out := by
  cases data with
  | nil => unfold wfNext at hw; simp [wfRun] at hw
  | cons b tl =>
    cases F with
    | zero => simp [wfRun] at h
    | succ F =>
      rw [wfRun_item_step hf, wfItemStep_eq] at h
      cases hs1 : stepNew (frameDepth f) (frameInTag f) (b :: tl) with
      | none => rw [hs1] at h; cases h
      | some p1 =>
        obtain ⟨n1, r1⟩ := p1
        rw [hs1] at h
        simp only [Option.map_some] at h
        obtain ⟨mid, g1, g2, hm1, hm2⟩ := wfRun_split F n1 (afterItem f s) r1 out h
        unfold wfNext at hw
        rw [List.length_cons, wfRun_item_step (.items 0 0), wfItemStep_eq] at hw
        simp only [frameDepth, frameInTag, afterItem, popItem] at hw
        cases hs2 : stepNew 0 false (b :: tl) with
        | none => rw [hs2] at hw; cases hw
        | some p2 =>
          obtain ⟨n2, r2⟩ := p2
          rw [hs2] at hw
          simp only [Option.map_some, List.append_nil] at hw
          obtain ⟨hr, hsh⟩ := stepNew_shape hs1 hs2
          subst hr
          have := wfRun_sameShape _ _ _ _ _ _ _ hsh hm1 hw
          subst this
          exact ⟨g2, hm2⟩

end Atree.Codec
