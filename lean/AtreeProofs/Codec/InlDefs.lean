import AtreeProofs.Codec.RoundTripD
/-
  Round trip WITH inlined slabs (inlined arrays and maps at any depth, not the compact form):
  the predicates and measures the statements are phrased with.
-/
namespace Atree.Codec
open Atree Atree.Gen DM

mutual
/-- values the encoder and the decoder agree on, inlined slabs included: plain values of the harness,
    slab IDs / slab indexes / counts / seeds that fit their fields, valid type infos, sizes that fit
    `uint32`, counts that fit the fixed-width heads, digest levels below 24 -/
def Stor.RTI : Stor → Prop
  | .val size pay => validElem { size := size, pay := .val pay }
  | .ref id => id.addr < 2 ^ 64 ∧ id.idx < 2 ^ 64
  | .some s => s.RTI
  | .arr ty idx es =>
    validTy ty ∧ idx < 2 ^ 64 ∧ es.length < 65536 ∧ rtiSts es ∧ inlinedArrayDataSlabPrefixSize + sizeSts es ≤ maxUint32
  | .map x idx els =>
    validMapExtra x ∧ idx < 2 ^ 64 ∧ els.RTI ∧ inlinedMapDataSlabPrefixSize + els.size ≤ maxUint32
def rtiSts : List Stor → Prop
  | [] => True
  | s :: ss => s.RTI ∧ rtiSts ss
def SEl.RTI : SEl → Prop
  | .mk k v => k.RTI ∧ v.RTI ∧ singleElementPrefixSize + k.size + v.size ≤ maxUint32
def MEl.RTI : MEl → Prop
  | .single e => e.RTI
  | .inl els => els.RTI
  | .ext id => id.addr < 2 ^ 64 ∧ id.idx < 2 ^ 64
def MEls.RTI : MEls → Prop
  | .hkey level hkeys es =>
    level < 24 ∧ hkeys.length = es.length ∧ es.length < 8192 ∧ (∀ h ∈ hkeys, h < 2 ^ 64) ∧ rtiMElList es ∧
      hkeyElementsPrefixSize + sizeMEl es ≤ maxUint32
  | .single level es =>
    level < 24 ∧ es ≠ [] ∧ es.length < 65536 ∧ rtiSElList es ∧ singleElementsPrefixSize + sizeSEl es ≤ maxUint32
def rtiMElList : List MEl → Prop
  | [] => True
  | e :: es => e.RTI ∧ rtiMElList es
def rtiSElList : List SEl → Prop
  | [] => True
  | e :: es => e.RTI ∧ rtiSElList es
end

mutual
/-- nesting levels the CBOR validator needs for the encoding (its limit is 32) -/
def Stor.vneedI : Stor → Nat
  | .val _ _ => 1
  | .ref _ => 1
  | .some s => s.vneedI + 1
  | .arr _ _ es => vneedISts es + 3
  | .map _ _ els => els.vneedI + 2
def vneedISts : List Stor → Nat
  | [] => 0
  | s :: ss => max s.vneedI (vneedISts ss)
def SEl.vneedI : SEl → Nat
  | .mk k v => max k.vneedI v.vneedI + 1
def MEl.vneedI : MEl → Nat
  | .single e => e.vneedI
  | .inl els => els.vneedI + 1
  | .ext _ => 2
def MEls.vneedI : MEls → Nat
  | .hkey _ _ es => vneedIMElList es + 2
  | .single _ es => vneedISElList es + 2
def vneedIMElList : List MEl → Nat
  | [] => 0
  | e :: es => max e.vneedI (vneedIMElList es)
def vneedISElList : List SEl → Nat
  | [] => 0
  | e :: es => max e.vneedI (vneedISElList es)
end

mutual
/-- depth of the harness's `decodeStorable` recursion (its limit is 64): wrappers and inlined slabs -/
def Stor.dneed : Stor → Nat
  | .val _ _ => 0
  | .ref _ => 0
  | .some s => s.dneed + 1
  | .arr _ _ es => dneedSts es + 1
  | .map _ _ els => els.dneed + 1
def dneedSts : List Stor → Nat
  | [] => 0
  | s :: ss => max s.dneed (dneedSts ss)
def SEl.dneed : SEl → Nat
  | .mk k v => max k.dneed v.dneed
def MEl.dneed : MEl → Nat
  | .single e => e.dneed
  | .inl els => els.dneed
  | .ext _ => 0
def MEls.dneed : MEls → Nat
  | .hkey _ _ es => dneedMElList es
  | .single _ es => dneedSElList es
def dneedMElList : List MEl → Nat
  | [] => 0
  | e :: es => max e.dneed (dneedMElList es)
def dneedSElList : List SEl → Nat
  | [] => 0
  | e :: es => max e.dneed (dneedSElList es)
end

mutual
/-- fuel the mutually recursive decoders need -/
def Stor.fuelI : Stor → Nat
  | .val _ _ => 1
  | .ref _ => 1
  | .some s => s.fuelI + 1
  | .arr _ _ es => fuelISts es + 2
  | .map _ _ els => els.fuelI + 2
def fuelISts : List Stor → Nat
  | [] => 0
  | s :: ss => max s.fuelI (fuelISts ss) + 1
def SEl.fuelI : SEl → Nat
  | .mk k v => max k.fuelI v.fuelI + 1
def MEl.fuelI : MEl → Nat
  | .single e => e.fuelI + 1
  | .inl els => els.fuelI + 1
  | .ext _ => 2
def MEls.fuelI : MEls → Nat
  | .hkey _ _ es => fuelIMElList es + 1
  | .single _ es => fuelISElList es + 1
def fuelIMElList : List MEl → Nat
  | [] => 0
  | e :: es => max e.fuelI (fuelIMElList es) + 1
def fuelISElList : List SEl → Nat
  | [] => 0
  | e :: es => max e.fuelI (fuelISElList es) + 1
end

mutual
/-- slice elements the decoders allocate -/
def Stor.allocsI : Stor → Nat
  | .val _ _ => 0
  | .ref _ => 0
  | .some s => s.allocsI
  | .arr _ _ es => es.length + allocsISts es
  | .map _ _ els => els.allocsI
def allocsISts : List Stor → Nat
  | [] => 0
  | s :: ss => s.allocsI + allocsISts ss
def SEl.allocsI : SEl → Nat
  | .mk k v => k.allocsI + v.allocsI
def MEl.allocsI : MEl → Nat
  | .single e => e.allocsI
  | .inl els => els.allocsI
  | .ext _ => 0
def MEls.allocsI : MEls → Nat
  | .hkey _ hkeys es => hkeys.length + es.length + allocsIMElList es
  | .single _ es => 0 + es.length + allocsISElList es
def allocsIMElList : List MEl → Nat
  | [] => 0
  | e :: es => e.allocsI + allocsIMElList es
def allocsISElList : List SEl → Nat
  | [] => 0
  | e :: es => e.allocsI + allocsISElList es
end

/-- the encoder's `InlinedExtraData` holds valid entries, none of them for the compact form -/
def XOK (xs : List XD) : Prop :=
  ∀ x ∈ xs, match x with
    | .arr t => validTy t
    | .map m => validMapExtra m
    | .cmap _ _ _ => False

theorem XOK.nil : XOK [] := by intro x hx; cases hx

theorem XOK.append {a b : List XD} (ha : XOK a) (hb : XOK b) : XOK (a ++ b) := by
  intro x hx
  rcases List.mem_append.1 hx with h | h
  · exact ha x h
  · exact hb x h

theorem XOK.of_append_left {a b : List XD} (h : XOK (a ++ b)) : XOK a :=
  fun x hx => h x (List.mem_append_left _ hx)

theorem XOK.single_arr {t : TyInfo} (h : validTy t) : XOK [.arr t] := by
  intro x hx; simp only [List.mem_cons, List.not_mem_nil, or_false] at hx; subst hx; exact h

theorem XOK.single_map {m : MapExtra} (h : validMapExtra m) : XOK [.map m] := by
  intro x hx; simp only [List.mem_cons, List.not_mem_nil, or_false] at hx; subst hx; exact h

/-! ### type infos are determined by their encoding -/

theorem head0_inj {a b : Nat} (ha : a < 2 ^ 64) (hb : b < 2 ^ 64) (h : head 0 a = head 0 b) : a = b := by
  have h1 := wfHead_head (major := 0) (by omega) ha []
  have h2 := wfHead_head (major := 0) (by omega) hb []
  rw [h] at h1
  rw [h1] at h2
  simp only [Option.some.injEq, Prod.mk.injEq, Head.mk.injEq] at h2
  exact h2.1.2.2

theorem encodeTy_inj {a b : TyInfo} (ha : validTy a) (hb : validTy b) (h : encodeTy a = encodeTy b) : a = b := by
  cases a with
  | plain x =>
    cases b with
    | plain y => simp only [encodeTy] at h; rw [head0_inj ha hb h]
    | composite y =>
      simp only [encodeTy, head_tagCompositeTI] at h
      have h1 := wfHead_head (major := 0) (by omega) ha []
      rw [h] at h1
      simp [wfHead] at h1
  | composite x =>
    cases b with
    | plain y =>
      simp only [encodeTy, head_tagCompositeTI] at h
      have h1 := wfHead_head (major := 0) (by omega) hb []
      rw [← h] at h1
      simp [wfHead] at h1
    | composite y =>
      simp only [encodeTy, head_tagCompositeTI, List.cons_append, List.nil_append, List.cons.injEq, true_and] at h
      rw [head0_inj ha hb h]

end Atree.Codec
