import AtreeProofs.Codec.VDepthEnc
import AtreeProofs.Codec.CmpSlab
/-
  How the exact validator depth `vd` (Limits.lean) relates to the older measures:
  * `vd ≤ vneedI` — the hypothesis `vneedI ≤ 32` of the older theorems implies `vd ≤ 32`;
  * `dneed ≤ vd true ≤ vd false + 1` — the depth of the harness's `decodeStorable` recursion (limit 64)
    is paid for by the validator depth (limit 32), so `vd ≤ 32` is the only nesting hypothesis needed.
-/
namespace Atree.Codec
open Atree Atree.Gen DM

/-! ### `vd ≤ vneedI` -/

mutual
theorem Stor.vd_le_vneedI : (s : Stor) → ∀ t, s.vd t ≤ s.vneedI
  | .val size p, t => by simp only [Stor.vd, Stor.vneedI]; split <;> omega
  | .ref _, t => by simp only [Stor.vd, Stor.vneedI]; split <;> omega
  | .some s, t => by
    have := Stor.vd_le_vneedI s true
    simp only [Stor.vd, Stor.vneedI]; split <;> omega
  | .arr _ _ es, t => by
    have := vdSts_le_vneedI es
    simp only [Stor.vd, Stor.vneedI]; split <;> omega
  | .map x _ (.hkey level hkeys elems), t => by
    have h1 := vdMElList_le_vneedI elems
    have h2 := vdMElVals_le_vneedI elems
    simp only [Stor.vd, Stor.vneedI, MEls.vneedI, MEls.vd]
    split <;> split <;> omega
  | .map x _ (.single level elems), t => by
    have h1 := vdSElList_le_vneedI elems
    simp only [Stor.vd, Stor.vneedI, MEls.vneedI, MEls.vd]
    split <;> omega
theorem vdSts_le_vneedI : (l : List Stor) → vdSts l ≤ vneedISts l
  | [] => Nat.le_refl _
  | s :: ss => by
    have h1 := Stor.vd_le_vneedI s false
    have h2 := vdSts_le_vneedI ss
    simp only [vdSts, vneedISts]; omega
theorem vdMElVals_le_vneedI : (l : List MEl) → vdMElVals l ≤ vneedIMElList l
  | [] => Nat.le_refl _
  | .single (.mk k v) :: es => by
    have h1 := Stor.vd_le_vneedI v false
    have h2 := vdMElVals_le_vneedI es
    simp only [vdMElVals, vneedIMElList, MEl.vneedI, SEl.vneedI]; omega
  | .inl _ :: es => by
    have h2 := vdMElVals_le_vneedI es
    simp only [vdMElVals, vneedIMElList]; omega
  | .ext _ :: es => by
    have h2 := vdMElVals_le_vneedI es
    simp only [vdMElVals, vneedIMElList]; omega
theorem SEl.vd_le_vneedI : (e : SEl) → e.vd ≤ e.vneedI
  | .mk k v => by
    have h1 := Stor.vd_le_vneedI k false
    have h2 := Stor.vd_le_vneedI v false
    simp only [SEl.vd, SEl.vneedI]; omega
theorem MEl.vd_le_vneedI : (e : MEl) → e.vd ≤ e.vneedI
  | .single e => by have := SEl.vd_le_vneedI e; simp only [MEl.vd, MEl.vneedI]; exact this
  | .inl els => by have := MEls.vd_le_vneedI els; simp only [MEl.vd, MEl.vneedI]; omega
  | .ext _ => by simp only [MEl.vd, MEl.vneedI]; omega
theorem MEls.vd_le_vneedI : (els : MEls) → els.vd ≤ els.vneedI
  | .hkey _ _ es => by have := vdMElList_le_vneedI es; simp only [MEls.vd, MEls.vneedI]; omega
  | .single _ es => by have := vdSElList_le_vneedI es; simp only [MEls.vd, MEls.vneedI]; omega
theorem vdMElList_le_vneedI : (l : List MEl) → vdMElList l ≤ vneedIMElList l
  | [] => Nat.le_refl _
  | e :: es => by
    have h1 := MEl.vd_le_vneedI e
    have h2 := vdMElList_le_vneedI es
    simp only [vdMElList, vneedIMElList]; omega
theorem vdSElList_le_vneedI : (l : List SEl) → vdSElList l ≤ vneedISElList l
  | [] => Nat.le_refl _
  | e :: es => by
    have h1 := SEl.vd_le_vneedI e
    have h2 := vdSElList_le_vneedI es
    simp only [vdSElList, vneedISElList]; omega
end

/-! ### `dneed ≤ vd` -/

/-- following a tag number costs at most one level -/
theorem Stor.vd_true_le : (s : Stor) → s.vd true ≤ s.vd false + 1
  | .val _ _ => by simp only [Stor.vd]; split <;> split <;> omega
  | .ref _ => by simp [Stor.vd]
  | .some _ => by simp only [Stor.vd]; simp; omega
  | .arr _ _ _ => by simp only [Stor.vd]; simp; omega
  | .map _ _ (.hkey _ _ _) => by simp only [Stor.vd]; split <;> simp <;> omega
  | .map _ _ (.single _ _) => by simp only [Stor.vd]; simp; omega

mutual
theorem Stor.dneed_le_vd : (s : Stor) → s.dneed ≤ s.vd true
  | .val _ _ => by simp only [Stor.dneed]; omega
  | .ref _ => by simp only [Stor.dneed]; omega
  | .some s => by
    have := Stor.dneed_le_vd s
    simp only [Stor.dneed, Stor.vd, ↓reduceIte]; omega
  | .arr _ _ es => by
    have := dneedSts_le_vd es
    simp only [Stor.dneed, Stor.vd, ↓reduceIte]; omega
  | .map x _ (.hkey level hkeys elems) => by
    cases hc : compactKeys x elems with
    | none =>
      have := dneedMElList_le_vd elems
      simp only [Stor.dneed, MEls.dneed, Stor.vd, hc, MEls.vd, ↓reduceIte]; omega
    | some keys =>
      have := dneedCVals_le_vd elems keys (compactKeys_mapM hc)
      simp only [Stor.dneed, MEls.dneed, Stor.vd, hc, ↓reduceIte]; omega
  | .map x _ (.single level elems) => by
    have := dneedSElList_le_vd elems
    simp only [Stor.dneed, MEls.dneed, Stor.vd, MEls.vd, ↓reduceIte]; omega
theorem dneedSts_le_vd : (l : List Stor) → dneedSts l ≤ vdSts l + 1
  | [] => by simp [dneedSts]
  | s :: ss => by
    have h1 := Stor.dneed_le_vd s
    have h1' := Stor.vd_true_le s
    have h2 := dneedSts_le_vd ss
    simp only [dneedSts, vdSts]; omega
/-- the elements of a compact-eligible map are single elements with plain keys -/
theorem dneedCVals_le_vd : (l : List MEl) → (keys : List (Nat × Nat)) → l.mapM compactKey = some keys →
    dneedMElList l ≤ vdMElVals l + 1
  | [], _, _ => by simp [dneedMElList]
  | .single (.mk (.val s p) v) :: es, keys, h => by
    have hm : ∃ ks, es.mapM compactKey = some ks := by
      rw [List.mapM_cons] at h
      cases hm : es.mapM compactKey with
      | none => simp [compactKey, hm] at h
      | some ks => exact ⟨ks, rfl⟩
    obtain ⟨ks, hks⟩ := hm
    have h1 := Stor.dneed_le_vd v
    have h1' := Stor.vd_true_le v
    have h2 := dneedCVals_le_vd es ks hks
    simp only [dneedMElList, MEl.dneed, SEl.dneed, Stor.dneed, vdMElVals]; omega
  | .single (.mk (.ref _) _) :: es, keys, h => by simp [List.mapM_cons, compactKey] at h
  | .single (.mk (.some _) _) :: es, keys, h => by simp [List.mapM_cons, compactKey] at h
  | .single (.mk (.arr _ _ _) _) :: es, keys, h => by simp [List.mapM_cons, compactKey] at h
  | .single (.mk (.map _ _ _) _) :: es, keys, h => by simp [List.mapM_cons, compactKey] at h
  | .inl _ :: es, keys, h => by simp [List.mapM_cons, compactKey] at h
  | .ext _ :: es, keys, h => by simp [List.mapM_cons, compactKey] at h
theorem SEl.dneed_le_vd : (e : SEl) → e.dneed ≤ e.vd
  | .mk k v => by
    have h1 := Stor.dneed_le_vd k
    have h1' := Stor.vd_true_le k
    have h2 := Stor.dneed_le_vd v
    have h2' := Stor.vd_true_le v
    simp only [SEl.dneed, SEl.vd]; omega
theorem MEl.dneed_le_vd : (e : MEl) → e.dneed ≤ e.vd
  | .single e => by have := SEl.dneed_le_vd e; simp only [MEl.dneed, MEl.vd]; exact this
  | .inl els => by have := MEls.dneed_le_vd els; simp only [MEl.dneed, MEl.vd]; exact this
  | .ext _ => by simp only [MEl.dneed]; omega
theorem MEls.dneed_le_vd : (els : MEls) → els.dneed ≤ els.vd
  | .hkey _ _ es => by have := dneedMElList_le_vd es; simp only [MEls.dneed, MEls.vd]; omega
  | .single _ es => by have := dneedSElList_le_vd es; simp only [MEls.dneed, MEls.vd]; omega
theorem dneedMElList_le_vd : (l : List MEl) → dneedMElList l ≤ vdMElList l
  | [] => Nat.le_refl _
  | e :: es => by
    have h1 := MEl.dneed_le_vd e
    have h2 := dneedMElList_le_vd es
    simp only [dneedMElList, vdMElList]; omega
theorem dneedSElList_le_vd : (l : List SEl) → dneedSElList l ≤ vdSElList l
  | [] => Nat.le_refl _
  | e :: es => by
    have h1 := SEl.dneed_le_vd e
    have h2 := dneedSElList_le_vd es
    simp only [dneedSElList, vdSElList]; omega
end

/-! ### the shared inlined-extra-data section never needs more than 4 levels -/

theorem foldl_max_vd_le : ∀ (xs : List XD) (m : Nat), m ≤ 2 → xs.foldl (fun m x => max m x.vd) m ≤ 2
  | [], m, hm => hm
  | x :: xs, m, hm => by
    simp only [List.foldl_cons]
    apply foldl_max_vd_le xs
    cases x <;> simp only [XD.vd] <;> omega

theorem vdIED_le (xs : List XD) : vdIED xs ≤ 4 := by
  unfold vdIED
  split
  · omega
  · have := foldl_max_vd_le xs 0 (by omega); omega

/-- the depth of a map data slab is that of its elements, as soon as that is 4 or more -/
theorem vdepth_mdata_le_iff (s : MapData) {L : Nat} (hL : 4 ≤ L) :
    (Slab.mdata s).vdepth ≤ L ↔ s.els.vd ≤ L := by
  have h1 := vdIED_le (encMEls s.els []).2
  simp only [Slab.vdepth]
  constructor
  · intro h; omega
  · intro h; split <;> omega

theorem vdepth_adata_le_iff (a : ArrData) {L : Nat} (hL : 4 ≤ L) :
    (Slab.adata a).vdepth ≤ L ↔ vdSts a.elems + 1 ≤ L := by
  have h1 := vdIED_le (encSts a.elems []).2
  simp only [Slab.vdepth]
  constructor
  · intro h; omega
  · intro h; split <;> omega

end Atree.Codec
