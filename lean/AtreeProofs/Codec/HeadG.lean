import AtreeProofs.Codec.RoundTrip
/-
  The two head bytes written by the encoders of the second part (array data slabs with general
  elements, map data / collision-group slabs, map index slabs, large-value slabs with general
  storables), as the decoders and the header queries read them.
-/
namespace Atree.Codec
open DM Atree.Gen

theorem head_adata_facts (hasNext inl ptr root : Bool) :
    let h : SlabHead := ⟨ArrayDataSlab_Encode_version * 16 ||| flagIf hasNext maskHasNextSlabID ||| flagIf inl maskHasInlinedSlabs,
                         maskArrayData ||| flagIf ptr maskSlabHasPointers ||| flagIf root maskSlabRoot⟩
    h.slabType = .array ∧ h.arrayType = .data ∧ h.version = 1 ∧ h.isRoot = root ∧ h.hasPointers = ptr ∧
      h.hasSizeLimit = true ∧ h.hasInlinedSlabs = inl ∧ h.hasNextSlabID = hasNext := by
  cases hasNext <;> cases inl <;> cases ptr <;> cases root <;> decide

theorem head_mdata_facts (hasNext inl group ptr any root : Bool) :
    let h : SlabHead := ⟨MapDataSlab_Encode_version * 16 ||| flagIf hasNext maskHasNextSlabID ||| flagIf inl maskHasInlinedSlabs,
                         (if group then maskCollisionGroup else maskMapData) ||| flagIf ptr maskSlabHasPointers |||
                           flagIf any maskSlabAnySize ||| flagIf root maskSlabRoot⟩
    h.slabType = .map ∧ h.mapType = (if group then .collisionGroup else .data) ∧ h.version = 1 ∧ h.isRoot = root ∧
      h.hasPointers = ptr ∧ h.hasSizeLimit = !any ∧ h.hasInlinedSlabs = inl ∧ h.hasNextSlabID = hasNext := by
  cases hasNext <;> cases inl <;> cases group <;> cases ptr <;> cases any <;> cases root <;> decide

theorem head_mmeta_facts (root : Bool) :
    let h : SlabHead := ⟨MapMetaDataSlab_Encode_version * 16, maskMapMeta ||| flagIf root maskSlabRoot⟩
    h.slabType = .map ∧ h.mapType = .index ∧ h.version = 1 ∧ h.isRoot = root ∧ h.hasPointers = false ∧
      h.hasSizeLimit = true := by
  cases root <;> decide

theorem headOf_cons2' (b0 b1 : Nat) (tail : Bytes) : headOf (b0 :: b1 :: tail) = pure ⟨b0, b1⟩ := by
  unfold headOf
  have h2 : ¬ (b0 :: b1 :: tail).length < versionAndFlagSize := by simp [versionAndFlagSize]
  rw [if_neg h2]
  unfold sliceTo
  rw [if_pos (by simp [versionAndFlagSize])]
  simp only [DM.pure_bind, versionAndFlagSize, List.take_succ_cons, List.take_zero, newHeadFromData]

end Atree.Codec
