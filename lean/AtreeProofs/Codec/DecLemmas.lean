import AtreeProofs.Codec.EncLemmas
import AtreeProofs.Codec.DM
import AtreeProofs.Codec.CborLemmas
/-
  The decoder run on the encoder's output, bottom-up: CBOR heads, the validator on encoded
  elements and element arrays, the stream-decoder operations inside a validated item, elements,
  element lists, and the content part of a data slab (with arbitrary trailing bytes).
-/
namespace Atree.Codec
open Atree Atree.Gen

/-- additional information of the minimal head for argument `n` -/
def aiOf (n : Nat) : Nat :=
  if n < 24 then n else if n < 256 then 24 else if n < 65536 then 25 else if n < 4294967296 then 26 else 27

theorem take_beBytes_append (k n : Nat) (rest : Bytes) : (beBytes k n ++ rest).take k = beBytes k n :=
  List.take_left' (length_beBytes k n)

theorem drop_beBytes_append (k n : Nat) (rest : Bytes) : (beBytes k n ++ rest).drop k = rest :=
  List.drop_left' (length_beBytes k n)

theorem wfHead_head {major n : Nat} (hm : major < 7) (hn : n < 2 ^ 64) (rest : Bytes) :
    wfHead (head major n ++ rest) = some (⟨major, aiOf n, n⟩, rest) := by
  unfold head aiOf
  by_cases h1 : n < 24
  · simp only [h1, ↓reduceIte, List.cons_append, List.nil_append, wfHead]
    have : (major * 32 + n) % 32 = n := by omega
    have : (major * 32 + n) / 32 % 8 = major := by omega
    simp [*]; omega
  · by_cases h2 : n < 256
    · simp only [h1, h2, ↓reduceIte, List.cons_append, List.nil_append, wfHead]
      have : (major * 32 + 24) % 32 = 24 := by omega
      have : (major * 32 + 24) / 32 % 8 = major := by omega
      simp [*]; omega
    · by_cases h3 : n < 65536
      · simp only [h1, h2, h3, ↓reduceIte, List.cons_append, wfHead]
        have : (major * 32 + 25) % 32 = 25 := by omega
        have : (major * 32 + 25) / 32 % 8 = major := by omega
        simp [*, beVal_beBytes (k := 2) (by omega : n < 256 ^ 2)]
      · by_cases h4 : n < 4294967296
        · simp only [h1, h2, h3, h4, ↓reduceIte, List.cons_append, wfHead]
          have : (major * 32 + 26) % 32 = 26 := by omega
          have : (major * 32 + 26) / 32 % 8 = major := by omega
          simp [*, beVal_beBytes (k := 4) (by omega : n < 256 ^ 4)]
        · simp only [h1, h2, h3, h4, ↓reduceIte, List.cons_append, wfHead]
          have : (major * 32 + 27) % 32 = 27 := by omega
          have : (major * 32 + 27) / 32 % 8 = major := by omega
          have h64 : n < 256 ^ 8 := by simpa using hn
          simp [*, beVal_beBytes h64]

theorem aiOf_ne_31 (n : Nat) : aiOf n ≠ 31 := by
  unfold aiOf; repeat' split
  all_goals omega

/-- the fixed-width array head `0x99 hi lo` -/
theorem wfHead_arrayHead16 {n : Nat} (hn : n < 65536) (rest : Bytes) :
    wfHead (arrayHead16 n ++ rest) = some (⟨4, 25, n⟩, rest) := by
  unfold arrayHead16
  simp [wfHead, beVal_beBytes (k := 2) (by omega : n < 256 ^ 2)]

/-- a definite-length byte string is one item for the validator -/
theorem wfItemStep_bytes {l : Nat} (hl : l < 2 ^ 63) (content rest : Bytes) (hc : content.length = l)
    (d : Nat) (inTag : Bool) (stk : List Frame) :
    wfItemStep d inTag stk (head 2 l ++ (content ++ rest)) = some (stk, rest) := by
  unfold wfItemStep
  rw [wfHead_head (by omega) (by omega)]
  simp only [true_or, ↓reduceIte, aiOf_ne_31]
  have h1 : ¬ l ≥ 2 ^ 63 := by omega
  have h2 : ¬ (content ++ rest).length < l := by simp [hc]
  rw [if_neg h1, if_neg h2, ← hc, List.drop_left]

/-- a one-byte tag number `0xd8 n` pushes a tag frame -/
theorem wfItemStep_tag8 (n : Nat) (rest : Bytes) (d : Nat) (stk : List Frame) :
    wfItemStep d false stk (0xd8 :: n :: rest) = some (.tag d :: stk, rest) := by
  unfold wfItemStep wfHead
  simp

theorem tvLen_lt {size : Nat} (h3 : size < 2 ^ 32) : tvLen size < 2 ^ 63 := by
  unfold tvLen bsLen
  repeat' split
  all_goals omega

theorem head_ne_nil (m n : Nat) (rest : Bytes) : head m n ++ rest ≠ [] := by
  unfold head; repeat' split
  all_goals simp

theorem wfRun_items_bytes {l : Nat} (hl : l < 2 ^ 63) (content rest : Bytes) (hc : content.length = l)
    (n d : Nat) (stk : List Frame) (fuel : Nat) :
    wfRun (fuel + 1) (.items n d :: stk) (head 2 l ++ (content ++ rest)) = wfRun fuel (popItem n d stk) rest := by
  cases hd : head 2 l ++ (content ++ rest) with
  | nil => exact absurd hd (head_ne_nil _ _ _)
  | cons b tl =>
    simp only [wfRun]
    rw [← hd, wfItemStep_bytes hl _ _ hc]

theorem wfRun_tag_bytes {l : Nat} (hl : l < 2 ^ 63) (content rest : Bytes) (hc : content.length = l)
    (d : Nat) (stk : List Frame) (fuel : Nat) :
    wfRun (fuel + 1) (.tag d :: stk) (head 2 l ++ (content ++ rest)) = wfRun fuel stk rest := by
  cases hd : head 2 l ++ (content ++ rest) with
  | nil => exact absurd hd (head_ne_nil _ _ _)
  | cons b tl =>
    simp only [wfRun]
    rw [← hd, wfItemStep_bytes hl _ _ hc]

theorem wfRun_items_tag8 (t : Nat) (rest : Bytes) (n d : Nat) (stk : List Frame) (fuel : Nat) :
    wfRun (fuel + 1) (.items n d :: stk) (0xd8 :: t :: rest) = wfRun fuel (.tag d :: popItem n d stk) rest := by
  simp only [wfRun]
  rw [wfItemStep_tag8]

/-- an encoded element is exactly one item for the validator -/
theorem wfRun_elem (e : Elem) (hv : validElem e) (rest : Bytes) (n d : Nat) (stk : List Frame)
    (fuel : Nat) (hf : (encodeElem e ++ rest).length ≤ fuel) :
    ∃ fuel', rest.length ≤ fuel' ∧
      wfRun fuel (.items n d :: stk) (encodeElem e ++ rest) = wfRun fuel' (popItem n d stk) rest := by
  have hsz := elem_size_eq_enc_len e hv
  unfold validElem at hv
  unfold encodeElem at hf hsz ⊢
  cases hp : e.pay with
  | ref id =>
    rw [hp] at hv
    simp only [hp] at hf hsz ⊢
    simp only [tagHead8, List.cons_append, List.nil_append, List.append_assoc] at hf hsz ⊢
    have hs19 : e.size = 19 := by rw [hv.1]; rfl
    simp only [List.length_append, List.length_cons] at hf hsz
    obtain ⟨f2, rfl⟩ : ∃ f2, fuel = f2 + 1 + 1 := ⟨fuel - 2, by omega⟩
    refine ⟨f2, by omega, ?_⟩
    rw [wfRun_items_tag8, wfRun_tag_bytes (by simp [SlabIDLength]) _ _ (by simp [length_encodeSlabID, SlabIDLength])]
  | val p =>
    rw [hp] at hv
    simp only [hp] at hf hsz ⊢
    have hl := tvLen_lt hv.2.2.1
    have h1 := hv.1
    by_cases hg : isGap e.size = true
    · simp only [hg, ↓reduceIte, tagHead8, List.cons_append, List.nil_append, List.append_assoc] at hf hsz ⊢
      have h3 : 3 ≤ e.size := by rcases (isGap_iff _).1 hg with h | h | h <;> omega
      simp only [List.length_append, List.length_cons] at hf hsz
      obtain ⟨f2, rfl⟩ : ∃ f2, fuel = f2 + 1 + 1 := ⟨fuel - 2, by omega⟩
      refine ⟨f2, by omega, ?_⟩
      rw [wfRun_items_tag8, wfRun_tag_bytes hl _ _ (length_tvContent _ _)]
    · simp only [hg, Bool.false_eq_true, ↓reduceIte, List.nil_append, List.append_assoc] at hf hsz ⊢
      simp only [List.length_append] at hf hsz
      obtain ⟨f1, rfl⟩ : ∃ f1, fuel = f1 + 1 := ⟨fuel - 1, by omega⟩
      refine ⟨f1, by omega, ?_⟩
      rw [wfRun_items_bytes hl _ _ (length_tvContent _ _)]

theorem popItem_eq_pushItems (n d : Nat) (stk : List Frame) : popItem n d stk = pushItems n d stk := by
  cases n <;> rfl

theorem wfRun_elems (l : List Elem) (hv : ∀ e ∈ l, validElem e) (rest : Bytes) (d : Nat) (stk : List Frame) :
    ∀ fuel, (l.flatMap encodeElem ++ rest).length ≤ fuel →
      ∃ fuel', rest.length ≤ fuel' ∧
        wfRun fuel (pushItems l.length d stk) (l.flatMap encodeElem ++ rest) = wfRun fuel' stk rest := by
  induction l with
  | nil => intro fuel hf; exact ⟨fuel, by simpa using hf, rfl⟩
  | cons e es ih =>
    intro fuel hf
    simp only [List.flatMap_cons, List.append_assoc, List.length_cons, pushItems] at hf ⊢
    obtain ⟨f1, hf1, h1⟩ := wfRun_elem e (hv e (List.mem_cons_self ..)) (es.flatMap encodeElem ++ rest)
      es.length d stk fuel hf
    obtain ⟨f2, hf2, h2⟩ := ih (fun x hx => hv x (List.mem_cons_of_mem _ hx)) f1 hf1
    exact ⟨f2, hf2, by rw [h1, popItem_eq_pushItems, h2]⟩

theorem wfRun_nil (fuel : Nat) (data : Bytes) : wfRun fuel [] data = some data := by
  cases fuel <;> rfl

/-- the element array of a data slab is one well-formed item, whatever follows it -/
theorem wfNext_elements (l : List Elem) (hv : ∀ e ∈ l, validElem e) (hn : l.length < 65536)
    (rest : Bytes) : wfNext (encodeElements l ++ rest) = some rest := by
  unfold wfNext encodeElements
  have hlen : (arrayHead16 l.length ++ l.flatMap encodeElem ++ rest).length
      = (l.flatMap encodeElem ++ rest).length + 1 + 1 + 1 := by
    simp [arrayHead16]; omega
  rw [hlen]
  cases hd : arrayHead16 l.length ++ l.flatMap encodeElem ++ rest with
  | nil => simp [arrayHead16] at hd
  | cons b tl =>
    simp only [wfRun, popItem]
    rw [← hd, List.append_assoc]
    unfold wfItemStep
    rw [wfHead_arrayHead16 hn]
    have h63 : ¬ l.length ≥ 2 ^ 63 := by omega
    have hmax : ¬ l.length > maxArrayElements := by unfold maxArrayElements; omega
    have hdepth : ¬ (0 + 1 > maxNestedLevels) := by decide
    simp only [show ¬ ((4 : Nat) = 2 ∨ (4 : Nat) = 3) by decide, ↓reduceIte, true_or, hdepth,
      show ¬ ((25 : Nat) = 31) by decide, h63, hmax]
    obtain ⟨f', _, h'⟩ := wfRun_elems l hv rest (0 + 1) [] ((l.flatMap encodeElem ++ rest).length + 1 + 1)
      (by omega)
    rw [h', wfRun_nil]

/-! ### stream decoder operations on encoded data -/

theorem first_byte_type {m n : Nat} (hm : m < 7) (hn : n < 2 ^ 64) {rest : Bytes} {b : Nat} {tl : Bytes}
    (hd : head m n ++ rest = b :: tl) : b / 32 % 8 = m := by
  have h := wfHead_head hm hn rest
  rw [hd] at h
  exact (wfHead_t h).1.symm

theorem prepareNext_pos {d : Dec} (h : 0 < d.remaining) : d.prepareNext = some d := by
  unfold Dec.prepareNext; rw [if_pos h]

theorem nextType_pos {d : Dec} (h : 0 < d.remaining) {b : Nat} {tl : Bytes} (hd : d.data = b :: tl) :
    d.nextType = some (ctypeOf b, d) := by
  unfold Dec.nextType; rw [prepareNext_pos h]; simp only; rw [hd]

/-- `DecodeBytes` inside a validated item, on a minimal-head byte string -/
theorem decodeBytes_head {l : Nat} (hl : l < 2 ^ 64) (content rest : Bytes) (hc : content.length = l)
    (R c : Nat) (hR : headLen l + l ≤ R) :
    ({ data := head 2 l ++ (content ++ rest), remaining := R, consumed := c } : Dec).decodeBytes
      = some (content, { data := rest, remaining := R - (headLen l + l), consumed := c + (headLen l + l) }) := by
  have hpos : 0 < R := by unfold headLen at hR; repeat' split at hR
                          all_goals omega
  unfold Dec.decodeBytes
  rw [prepareNext_pos hpos]
  simp only
  cases hd : head 2 l ++ (content ++ rest) with
  | nil => exact absurd hd (head_ne_nil _ _ _)
  | cons b tl =>
    have hb := first_byte_type (by omega) hl hd
    simp only
    rw [← hd, wfHead_head (by omega) hl]
    have h2 : ¬ (content ++ rest).length < l := by simp [hc]
    simp only [hb, ne_eq, not_true_eq_false, ↓reduceIte, aiOf_ne_31, h2]
    have hdrop : (content ++ rest).drop l = rest := by rw [← hc, List.drop_left]
    have htake : (content ++ rest).take l = content := by rw [← hc, List.take_left]
    rw [hdrop, htake]
    unfold Dec.advance
    have hk : (head 2 l ++ (content ++ rest)).length - rest.length = headLen l + l := by
      simp [length_head, hc]; omega
    simp only [hk]
    rw [if_neg (by omega)]

/-- `DecodeTagNumber` inside a validated item, on a one-byte tag number -/
theorem decodeTagNumber_tag8 (t : Nat) (rest : Bytes) (R c : Nat) (hR : 2 ≤ R) :
    ({ data := 0xd8 :: t :: rest, remaining := R, consumed := c } : Dec).decodeTagNumber
      = some (t, { data := rest, remaining := R - 2, consumed := c + 2 }) := by
  unfold Dec.decodeTagNumber Dec.decodeHeadOf
  rw [prepareNext_pos (by simp only; omega)]
  simp only [wfHead]
  have hk : rest.length + 1 + 1 - rest.length = 2 := by omega
  simp [Dec.advance, hk]
  rw [if_neg (by omega)]

/-- `DecodeUint64` inside a validated item, on a minimal-head unsigned integer -/
theorem decodeUint64_head {n : Nat} (hn : n < 2 ^ 64) (rest : Bytes) (R c : Nat) (hR : headLen n ≤ R) :
    ({ data := head 0 n ++ rest, remaining := R, consumed := c } : Dec).decodeUint64
      = some (n, { data := rest, remaining := R - headLen n, consumed := c + headLen n }) := by
  have hpos : 0 < R := by unfold headLen at hR; repeat' split at hR
                          all_goals omega
  unfold Dec.decodeUint64 Dec.decodeHeadOf
  rw [prepareNext_pos hpos]
  simp only
  cases hd : head 0 n ++ rest with
  | nil => exact absurd hd (head_ne_nil _ _ _)
  | cons b tl =>
    have hb := first_byte_type (by omega) hn hd
    simp only
    rw [← hd, wfHead_head (by omega) hn]
    simp only [hb, ne_eq, not_true_eq_false, ↓reduceIte, aiOf_ne_31]
    unfold Dec.advance
    have hk : (head 0 n ++ rest).length - rest.length = headLen n := by
      simp [length_head]
    simp only [hk]
    rw [if_neg (by omega)]

/-! ### the decoder monad on known outcomes -/

@[simp] theorem DM.pure_bind {α β : Type} (a : α) (f : α → DM β) : (pure a : DM α) >>= f = f a := by
  funext n; rfl

@[simp] theorem DM.liftOpt_some {α : Type} (a : α) : DM.liftOpt (some a) = (pure a : DM α) := rfl

theorem copyN_append_left {k : Nat} {a b : Bytes} (h : a.length = k) : copyN k (a ++ b) = a := by
  unfold copyN
  rw [List.take_left' h]
  have : k - (a ++ b).length = 0 := by simp [h]
  rw [this]; simp

theorem newSlabIDFromRawBytes_enc (id : SlabID) (ha : id.addr < 2 ^ 64) (hi : id.idx < 2 ^ 64) :
    newSlabIDFromRawBytes (encodeSlabID id) = pure id := by
  unfold newSlabIDFromRawBytes
  have hlen : ¬ (encodeSlabID id).length < SlabIDLength := by simp [length_encodeSlabID, SlabIDLength]
  rw [if_neg hlen]
  unfold sliceFrom
  rw [if_pos (by simp [length_encodeSlabID, SlabAddressLength])]
  simp only [DM.pure_bind]
  unfold encodeSlabID
  rw [copyN_append_left (length_beBytes _ _), List.drop_left' (length_beBytes _ _)]
  have : copyN SlabIndexLength (beBytes SlabIndexLength id.idx) = beBytes SlabIndexLength id.idx := by
    have := copyN_append_left (b := []) (length_beBytes SlabIndexLength id.idx)
    simpa using this
  rw [this, beVal_beBytes (by simpa [SlabAddressLength] using ha), beVal_beBytes (by simpa [SlabIndexLength] using hi)]

theorem tvFromBytes_content {l p : Nat} (hl : l < 2 ^ 32) (hp : p < 256 ^ min l 8) (extra : Nat) :
    tvFromBytes (tvContent l p) extra = { size := headLen l + l + extra, pay := .val p } := by
  unfold tvFromBytes
  simp only [length_tvContent]
  have hhd : (if l < 24 then 1 else if l < 256 then 2 else if l < 65536 then 3 else 5) = headLen l := by
    unfold headLen
    repeat' split
    all_goals omega
  rw [hhd]
  congr 2
  unfold tvContent
  by_cases h8 : l ≤ 8
  · have hm : min l 8 = l := Nat.min_eq_left h8
    rw [hm] at hp ⊢
    simp only [Nat.sub_self, List.replicate_zero, List.append_nil]
    rw [List.take_of_length_le (by simp; exact h8), beVal_beBytes hp]
  · have hm : min l 8 = 8 := Nat.min_eq_right (by omega)
    rw [hm] at hp ⊢
    rw [List.take_left' (length_beBytes _ _), beVal_beBytes hp]

theorem ctypeOf_d8 : ctypeOf 0xd8 = .tag := by decide

theorem ctypeOf_bytes {b : Nat} (h : b / 32 % 8 = 2) : ctypeOf b = .bytes := by
  unfold ctypeOf; rw [h]; rfl

/-- decoding an encoded element gives the element back and consumes exactly its size -/
theorem decodeElem_enc (e : Elem) (hv : validElem e) (rest : Bytes) (R c : Nat) (hR : e.size ≤ R) :
    decodeElem { data := encodeElem e ++ rest, remaining := R, consumed := c }
      = pure (e, { data := rest, remaining := R - e.size, consumed := c + e.size }) := by
  have hsz := elem_size_eq_enc_len e hv
  unfold validElem at hv
  unfold encodeElem at hsz ⊢
  obtain ⟨size, pay⟩ := e
  cases pay with
  | ref id =>
    simp only at hv hsz hR ⊢
    have hs19 : size = 19 := by rw [hv.1]; rfl
    subst hs19
    simp only [tagHead8, List.cons_append, List.nil_append, List.append_assoc]
    unfold decodeElem
    rw [nextType_pos (by simp only; omega) rfl]
    simp only [DM.liftOpt_some, DM.pure_bind, ctypeOf_d8]
    rw [decodeTagNumber_tag8 _ _ _ _ (by omega)]
    simp only [DM.liftOpt_some, DM.pure_bind, CBORTagSlabID, CBORTagInlinedArray, CBORTagInlinedMap,
      CBORTagInlinedCompactMap]
    simp only [show ¬ ((255 : Nat) = 250 ∨ (255 : Nat) = 251 ∨ (255 : Nat) = 252) by decide, ↓reduceIte]
    unfold decodeSlabIDStorable
    rw [decodeBytes_head (by simp [SlabIDLength]) _ _ (by simp [length_encodeSlabID, SlabIDLength]) _ _
      (by simp [headLen, SlabIDLength]; omega)]
    simp only [DM.liftOpt_some, DM.pure_bind]
    rw [newSlabIDFromRawBytes_enc id hv.2.1 hv.2.2]
    simp only [DM.pure_bind, headLen, SlabIDLength, slabIDStorableSize]
    congr 3 <;> omega
  | val p =>
    simp only at hv hsz hR ⊢
    have hl32 : tvLen size < 2 ^ 32 := by
      unfold tvLen bsLen; repeat' split
      all_goals omega
    have hts := tv_size hv.1 hv.2.1 hv.2.2.1
    by_cases hg : isGap size = true
    · simp only [hg, ↓reduceIte, tagHead8, List.cons_append, List.nil_append, List.append_assoc] at hsz hts ⊢
      unfold decodeElem
      rw [nextType_pos (by simp only; omega) rfl]
      simp only [DM.liftOpt_some, DM.pure_bind, ctypeOf_d8]
      rw [decodeTagNumber_tag8 _ _ _ _ (by omega)]
      simp only [DM.liftOpt_some, DM.pure_bind, CBORTagSlabID, CBORTagInlinedArray, CBORTagInlinedMap,
        CBORTagInlinedCompactMap, tagGapValue]
      simp only [show ¬ ((161 : Nat) = 250 ∨ (161 : Nat) = 251 ∨ (161 : Nat) = 252) by decide,
        show ¬ ((161 : Nat) = 255) by decide, ↓reduceIte]
      rw [decodeBytes_head (by omega) _ _ (length_tvContent _ _) _ _ (by omega)]
      simp only [DM.liftOpt_some, DM.pure_bind]
      rw [tvFromBytes_content hl32 hv.2.2.2]
      congr 3 <;> omega
    · simp only [hg, Bool.false_eq_true, ↓reduceIte, List.nil_append, List.append_assoc, Nat.zero_add] at hsz hts ⊢
      unfold decodeElem
      cases hd : head 2 (tvLen size) ++ (tvContent (tvLen size) p ++ rest) with
      | nil => exact absurd hd (head_ne_nil _ _ _)
      | cons b tl =>
        have hb := first_byte_type (by omega) (by omega : tvLen size < 2 ^ 64) hd
        rw [nextType_pos (by simp only; omega) rfl]
        simp only [DM.liftOpt_some, DM.pure_bind, ctypeOf_bytes hb]
        rw [← hd, decodeBytes_head (by omega) _ _ (length_tvContent _ _) _ _ (by omega)]
        simp only [DM.liftOpt_some, DM.pure_bind]
        rw [tvFromBytes_content hl32 hv.2.2.2]
        congr 3 <;> omega

theorem decodeElems_enc (l : List Elem) (hv : ∀ e ∈ l, validElem e) (rest : Bytes) :
    ∀ (R c size0 : Nat), sumSizes l ≤ R → size0 + sumSizes l ≤ 4294967295 →
      decodeElems l.length { data := l.flatMap encodeElem ++ rest, remaining := R, consumed := c } size0
        = pure (l, size0 + sumSizes l, { data := rest, remaining := R - sumSizes l, consumed := c + sumSizes l }) := by
  induction l with
  | nil =>
    intro R c size0 _ _
    simp [decodeElems, sumSizes]
  | cons e es ih =>
    intro R c size0 hR hS
    have hve := hv e (List.mem_cons_self ..)
    have hss : sumSizes (e :: es) = e.size + sumSizes es := by simp [sumSizes]
    rw [hss] at hR hS ⊢
    simp only [List.flatMap_cons, List.append_assoc, List.length_cons, decodeElems]
    rw [decodeElem_enc e hve _ _ _ (by omega)]
    simp only [DM.pure_bind]
    rw [if_neg (by omega)]
    rw [ih (fun x hx => hv x (List.mem_cons_of_mem _ hx)) _ _ _ (by omega) (by omega)]
    simp only [DM.pure_bind, Nat.add_assoc, Nat.sub_sub]

/-- `DecodeArrayHead` on a fresh decoder over an element array -/
theorem decodeArrayHead_elements (l : List Elem) (hv : ∀ e ∈ l, validElem e) (hn : l.length < 65536)
    (rest : Bytes) :
    (Dec.new (encodeElements l ++ rest)).decodeArrayHead
      = some (l.length, { data := l.flatMap encodeElem ++ rest, remaining := sumSizes l, consumed := 3 }) := by
  unfold Dec.decodeArrayHead Dec.decodeHeadOf Dec.prepareNext Dec.new
  simp only [Nat.lt_irrefl, ↓reduceIte, gt_iff_lt]
  rw [wfNext_elements l hv hn]
  simp only
  have hlen : (encodeElements l ++ rest).length - rest.length = 3 + sumSizes l := by
    simp [length_encodeElements l hv, arrayDataSlabElementHeadSize]
  rw [hlen]
  unfold encodeElements
  rw [List.append_assoc]
  cases hd : arrayHead16 l.length ++ (l.flatMap encodeElem ++ rest) with
  | nil => simp [arrayHead16] at hd
  | cons b tl =>
    have hb : b = 0x99 := by simp [arrayHead16] at hd; exact hd.1.symm
    simp only
    rw [← hd, wfHead_arrayHead16 hn]
    subst hb
    simp only [show ¬ (0x99 / 32 % 8 ≠ 4) by decide, ↓reduceIte, show ¬ ((25 : Nat) = 31) by decide]
    unfold Dec.advance
    have hk : (arrayHead16 l.length ++ (l.flatMap encodeElem ++ rest)).length
        - (l.flatMap encodeElem ++ rest).length = 3 := by
      simp [arrayHead16]; omega
    simp only [hk]
    rw [if_neg (by omega)]
    simp

theorem DM.alloc_bind {β : Type} (k : Nat) (f : Unit → DM β) :
    (DM.alloc k >>= f) = fun n => f () (n + k) := by
  funext n; rfl

theorem DM.ite_apply {α : Type} {c : Prop} [Decidable c] (a b : DM α) (n : Nat) :
    (if c then a else b) n = if c then a n else b n := by
  split <;> rfl

/-- `decodeDataContent` on an encoded element array followed by `extra` bytes -/
theorem decodeDataContent_enc (id : SlabID) (isRoot : Bool) (ty : Option TyInfo) (next : SlabID)
    (checkEOF : Bool) (l : List Elem) (hv : ∀ e ∈ l, validElem e) (hn : l.length < 65536)
    (hsz : (if isRoot then arrayRootDataSlabPrefixSize else arrayDataSlabPrefixSize) + sumSizes l ≤ 4294967295)
    (extra : Bytes) (n : Nat) :
    decodeDataContent id isRoot ty next checkEOF (encodeElements l ++ extra) n =
      if checkEOF = true ∧ extra ≠ [] then .error .decoding (n + l.length)
      else .ok (.data ty
        { hdr := { id := id, size := (if isRoot then arrayRootDataSlabPrefixSize else arrayDataSlabPrefixSize) + sumSizes l,
                   count := l.length },
          next := next, elems := l, root := ty.isSome, inlined := false }) (n + l.length) := by
  unfold decodeDataContent
  have hlen : ¬ (encodeElements l ++ extra).length < arrayDataSlabElementHeadSize := by
    simp [length_encodeElements l hv]; omega
  rw [if_neg hlen, decodeArrayHead_elements l hv hn]
  simp only [DM.liftOpt_some, DM.pure_bind]
  rw [if_neg (by omega), DM.alloc_bind]
  simp only
  rw [decodeElems_enc l hv extra _ _ _ (Nat.le_refl _) hsz]
  rw [DM.pure_bind]
  dsimp only
  unfold finishData
  have hl : (encodeElements l ++ extra).length = 3 + sumSizes l + extra.length := by
    simp [length_encodeElements l hv, arrayDataSlabElementHeadSize]
  rw [DM.ite_apply]
  refine ite_congr (propext ?_) (fun _ => rfl) (fun _ => rfl)
  simp only [Dec.numBytesDecoded]
  rw [hl]
  constructor
  · rintro ⟨h1, h2⟩
    refine ⟨h1, ?_⟩
    intro he; rw [he] at h2; simp at h2
  · rintro ⟨h1, h2⟩
    have : 0 < extra.length := List.length_pos_iff.2 h2
    exact ⟨h1, by omega⟩

end Atree.Codec
