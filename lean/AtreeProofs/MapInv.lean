import AtreeModel.Map.Ops
/-
  The structural invariant of map slab trees (C05 for maps, C12 group shape) and the dictionary
  the map represents.  DEFINITIONS ONLY — part of the reviewed statement of the property theorems.
  (Strengthening by adding conjuncts is allowed, weakening is not.)
-/
namespace Atree
open Gen

/-- Digests are a function of the key under the caller's equality: `dg (size, pay)` is the digest
    vector of that key, of length `L`.  ANY such function is allowed (any hash distribution). -/
structure DigestFn (L : Nat) where
  dg : Nat × Nat → List Nat
  len : ∀ p, (dg p).length = L

/-- the key carries the digests the digest function assigns to it -/
def KeyOk (T L : Nat) (D : DigestFn L) (k : MKey) : Prop :=
  k.digs = D.dg (k.size, k.pay) ∧ 1 ≤ k.size ∧ k.size ≤ maxInlineMapKey T

/-- a stored key/value pair: value within the inline limit for its key, size bookkeeping exact -/
def SElemOk (T L : Nat) (D : DigestFn L) (x : SElem) : Prop :=
  KeyOk T L D x.key ∧ 1 ≤ x.val.size ∧ x.val.size ≤ maxInlineMapValue T x.key.size ∧
  x.size = singleElementPrefixSize + x.key.size + x.val.size

/-- keys are pairwise different under the comparator -/
def KeysDistinct (l : List (MKey × Elem)) : Prop := l.Pairwise (fun a b => a.1.same b.1 = false)

/-- lookup in the dictionary a list of pairs represents -/
def dictLookup (l : List (MKey × Elem)) (k : MKey) : Option Elem :=
  (l.find? (fun p => p.1.same k)).map (·.2)

/-- Invariant of `elements` with `r` digest levels left, sitting at digest level `level`, all of
    whose keys share the digest prefix `path` (of length `level`). -/
def ElemsInv (T L : Nat) (D : DigestFn L) : (r : Nat) → (level : Nat) → (path : List Nat) → MElems r → Prop
  | 0, level, path, (se : SingleElems) =>
    level = L ∧ se.level = level ∧
    se.size = singleElementsPrefixSize + (se.elems.map (·.size)).sum ∧
    (∀ x ∈ se.elems, SElemOk T L D x ∧ x.key.digs.take level = path) ∧
    KeysDistinct (se.elems.map (fun x => (x.key, x.val)))
  | r + 1, level, path, (he : HkeyElems (MElems r)) =>
    level + r + 1 = L ∧ he.level = level ∧
    he.hkeys.length = he.elems.length ∧
    he.hkeys.Pairwise (· < ·) ∧
    he.size = hkeyElementsPrefixSize + HkeyElems.elemSizes (MElems.ops r) he.elems ∧
    (∀ (i hk : Nat) (el : MElemF (MElems r)), he.hkeys[i]? = some hk → he.elems[i]? = some el →
      match el with
      | .single x => SElemOk T L D x ∧ x.key.digs.take (level + 1) = path ++ [hk]
      | .inl g =>
          ElemsInv T L D r (level + 1) (path ++ [hk]) g ∧ 1 ≤ (MElems.ops r).count g ∧
          (MElems.ops r).soleSingle g = none ∧
          (level = 0 → inlineCollisionGroupPrefixSize + (MElems.ops r).size g ≤ maxInlineMapElem T)
      | .ext id sz s =>
          level = 0 ∧ sz = externalCollisionGroupPrefixSize + slabIDStorableSize ∧ s.hdr.id = id ∧
          s.hdr.size = mapDataSlabPrefixSize + (MElems.ops r).size s.elems ∧
          s.hdr.firstKey = (MElems.ops r).firstKey s.elems ∧
          ElemsInv T L D r (level + 1) (path ++ [hk]) s.elems ∧ 1 ≤ (MElems.ops r).count s.elems ∧
          (MElems.ops r).soleSingle s.elems = none)

/-- Data slab invariant (`top` = root of the map). -/
structure MDataInv (T : Nat) (D : DigestFn (r + 1)) (top : Bool) (s : MDataSlab r) : Prop where
  elems_inv : ElemsInv T (r + 1) D (r + 1) 0 [] s.elems
  size_eq   : s.hdr.size = s.prefixSize + s.elems.size
  first_eq  : s.hdr.firstKey = s.elems.firstKey
  root_eq   : s.root = top
  inl_root  : s.inlined = true → top = true
  le_max    : s.hdr.size ≤ maxThr T
  ge_min    : top = false → minThr T ≤ s.hdr.size
  nonempty  : top = false → s.elems.elems ≠ []
  /-- every first-level element respects the per-element inline limit -/
  elem_le   : ∀ el ∈ s.elems.elems, MElemF.size (MElems.ops r) el ≤ maxInlineMapElem T

/-- smallest and largest first-level digest of a subtree (for the routing invariant) -/
def MTree.digests0 {r : Nat} : (d : Nat) → MTree r d → List Nat
  | 0, (s : MDataSlab r) => s.elems.hkeys
  | d + 1, (m : MMetaSlab (MTree r d)) => m.children.flatMap (MTree.digests0 d)

def MTreeInv (T : Nat) {r : Nat} (D : DigestFn (r + 1)) : (d : Nat) → Bool → MTree r d → Prop
  | 0, top, (s : MDataSlab r) => MDataInv T D top s
  | d + 1, top, (m : MMetaSlab (MTree r d)) =>
    m.root = top ∧
    m.childHdrs = m.children.map (MTree.hdr d) ∧
    m.hdr.size = mapMetaDataSlabPrefixSize + mapSlabHeaderSize * m.children.length ∧
    m.hdr.firstKey = (m.childHdrs.headD default).firstKey ∧
    (∀ c ∈ m.children, MTreeInv T D d false c) ∧
    (∀ c ∈ m.children, (MTree.hdr d c).id.addr = m.hdr.id.addr) ∧
    -- index data agrees with the data it summarises: each child's first key is its smallest
    -- first-level digest, and the first-level digests of the whole subtree are strictly increasing
    (∀ c ∈ m.children, (MTree.hdr d c).firstKey = (MTree.digests0 d c).headD 0) ∧
    (MTree.digests0 (d + 1) m).Pairwise (· < ·) ∧
    m.hdr.size ≤ maxThr T ∧
    (top = false → minThr T ≤ m.hdr.size) ∧
    (top = true → 2 ≤ m.children.length)

/-- leaves in order and the sibling-link chain -/
def MTree.leaves {r : Nat} : (d : Nat) → MTree r d → List (MDataSlab r)
  | 0, (s : MDataSlab r) => [s]
  | d + 1, (m : MMetaSlab (MTree r d)) => m.children.flatMap (MTree.leaves d)

def MLeafChain {r : Nat} : List (MDataSlab r) → Prop
  | [] => True
  | [s] => s.next = SlabID.undef
  | s :: t :: rest => s.next = t.hdr.id ∧ MLeafChain (t :: rest)

/-- The map invariant. -/
structure MapInv (T : Nat) {r : Nat} (D : DigestFn (r + 1)) (m : OMap r) : Prop where
  tree  : MTreeInv T D m.d true m.root
  chain : MLeafChain (MTree.leaves m.d m.root)
  count_eq : m.count = m.toList.length
  distinct : KeysDistinct m.toList
  standalone : m.isInlined = false

end Atree
