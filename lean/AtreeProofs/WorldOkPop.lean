import AtreeProofs.WorldOk
import AtreeProofs.World.Pop
/-
  The global invariant of nested containers ACROSS THE DISPOSAL OF CONTAINERS (bulk pops through a
  handle, `World.forget`): `WorldOk'`.  DEFINITIONS ONLY — part of the reviewed statement of the
  property theorems of `AtreeProofs/Props/C10WPop.lean` (pops, disposal, kept children) and
  `AtreeProofs/Props/C10WPopOps.lean` (every other operation).

  Why `WorldOk` (AtreeProofs/WorldOk.lean) itself cannot survive a pop.  `WorldOk` contains the
  clause `hinfoLive`: "the parent recorded by every closure is a live container".  A closure is
  never erased when its container is handed back to the caller (`Array.Remove`, `Array.Set`,
  `OrderedMap.Set/Remove`: the Go object keeps its `parentUpdater`), so a live, detached container
  `X` may keep a STALE closure that names its former parent `F`; when a bulk pop (or the caller)
  later disposes of `F` — `F` being nested in the popped container — the closure of `X` names a
  container that no longer exists (`C10W.hinfoLive_fails_after_pop`: a run of the model).  This is
  harmless: a notification through such a closure finds no parent and drops the closure
  (`notifyParent`, case `w.cont? hi.parent = none`), and slab IDs are never reused.

  `WorldOk'` is `WorldOk` with EXACTLY ONE clause changed:
      hinfoLive  : the parent recorded by a closure is live
  is replaced by
      hinfoBelow : the parent recorded by a closure has been allocated (its index is ≤ the
                   allocation counter), so no container created later can be mistaken for it.
  Every other clause is kept verbatim.  What is lost: nothing but "closure parents are live"
  (all extraction lemmas of `C10W` — `IdsOk`, `ElemSync`, `MutIdxOk`, `ContOk`, "inline iff fits",
  "an inlined container is referenced exactly once" — hold for `WorldOk'`).  `WorldOk → WorldOk'`,
  and `WorldOk' D w ctr ↔ WorldOk D w.prune ctr ∧ HinfoBelow w ctr` where `w.prune` drops the
  closures whose recorded parent has been disposed of.

  `WorldOkKept D K w ctr` is the state between a bulk pop that KEEPS the popped child containers `K`
  and their disposal by the caller: `WorldOk'` except that an inlined member of `K` is an in-memory
  slab referenced by nobody — exactly the clause "every inlined container is referenced" (`InlRef`)
  is relaxed for the members of `K`.
-/
namespace Atree
open Gen

namespace World

/-- a closure points at a container that has been allocated (it is live, or it has been
    disposed of; no container created later can take its ID) -/
def HinfoBelow (w : World) (ctr : Nat) : Prop :=
  ∀ x hi, AList.find? w.hinfo x = some hi → hi.parent.idx ≤ ctr

/-- The clauses of `WorldOkGen D rank none (fun _ => False)` (that is, of `WorldOk`), with
    `hinfoLive` replaced by `hinfoBelow`, and `InlRef` relaxed for the containers of `K`. -/
structure WorldOkPK (D : SlabID → DigestFn 4) (rank : SlabID → Nat) (K : SlabID → Prop)
    (w : World) (ctr : Nat) : Prop where
  legal   : legalThreshold w.T = true
  ids     : IdsOk w
  addr    : ∀ x c, w.cont? x = some c → x.addr = w.addr
  conts   : ∀ x c, w.cont? x = some c → ContOk w.T (D x) ctr c
  slots   : SlotSync w none (fun _ => False)
  band    : InlBand w
  unique  : UniqueRef w
  inlRef  : InlRef w K
  mutIdx  : MutIdxOkX w (fun _ => False)
  closure : ClosureOk D w
  rank    : CRank rank w
  below   : RefsBelow w ctr
  idxLive : IdxLive w
  hinfoBelow : HinfoBelow w ctr

/-- THE GLOBAL INVARIANT across disposals: `WorldOk` with `hinfoLive` weakened to `hinfoBelow`. -/
def WorldOk' (D : SlabID → DigestFn 4) (w : World) (ctr : Nat) : Prop :=
  ∃ rank, WorldOkPK D rank (fun _ => False) w ctr

/-- the invariant while the caller holds the popped containers `K` (in-memory slabs if inlined) -/
def WorldOkKept (D : SlabID → DigestFn 4) (K : SlabID → Prop) (w : World) (ctr : Nat) : Prop :=
  ∃ rank, WorldOkPK D rank K w ctr

/-- the world without the closures whose recorded parent has been disposed of -/
def prune (w : World) : World :=
  { w with hinfo := w.hinfo.filter (fun e =>
      match AList.find? w.hinfo e.1 with
      | some hi => (w.cont? hi.parent).isSome
      | none => false) }

/-- nobody refers to `x` and `x` is live: a detached root -/
def DetachedRoot (w : World) (x : SlabID) : Prop := (w.cont? x).isSome ∧ ∀ q, ¬ Holds w q x

/-- the popped child containers that the caller keeps -/
def KeptOf (keep : List SlabID) (c : Cont) : SlabID → Prop := fun x => x ∈ keep ∧ Pay.ref x ∈ c.pays

/-- the elements the caller of a bulk pop disposes of: those of `c` that do not refer to a kept
    container (list-level counterpart of `World.disposed`) -/
def disposedOf (keep : List SlabID) (c : Cont) : List Elem := World.disposed keep c.storedElems

/-- the container `c` that was filed under `h` has been emptied in place: same kind, same value ID,
    no element -/
def PoppedAt (w' : World) (h : SlabID) (c : Cont) : Prop :=
  ∃ c', w'.cont? h = some c' ∧ c'.sig = (c.sig.1, []) ∧ c'.storedElems = [] ∧ c'.vid = h

/-- What a bulk pop through the handle `h` did to the table of containers (`keep`: the popped child
    containers the caller keeps; `[]` for the plain pops):
    * every container reachable from a popped element that is disposed of is gone;
    * every other container (not `h`, not below a disposed element) is still there with the same
      signature (kind, keys, payloads) — in particular the kept children and everything below;
    * the kept children are detached roots, and they and everything below them are unchanged (also
      in form);
    * nothing new appears. -/
def PopFrame (w w' : World) (h : SlabID) (c : Cont) (keep : List SlabID) : Prop :=
  (∀ e ∈ disposedOf keep c, ∀ v x, e.pay = .ref v → Reach w v x → w'.cont? x = none) ∧
  (∀ z, z ≠ h → NotBelow w (disposedOf keep c) z → (w'.cont? z).map Cont.sig = (w.cont? z).map Cont.sig) ∧
  (∀ k, KeptOf keep c k → (w.cont? k).isSome →
    DetachedRoot w' k ∧ ∀ z, Reach w k z → w'.cont? z = w.cont? z) ∧
  (∀ z, (w'.cont? z).isSome → (w.cont? z).isSome)

/-- What `World.forget` of the container `k` did: exactly the containers reachable from `k` are
    gone, every other entry of every table is untouched. -/
def ForgetFrame (w w' : World) (k : SlabID) : Prop :=
  (∀ x, Reach w k x → w'.cont? x = none ∧ AList.find? w'.hinfo x = none ∧ AList.find? w'.mutIdx x = none) ∧
  (∀ x, ¬ Reach w k x → w'.cont? x = w.cont? x ∧ AList.find? w'.hinfo x = AList.find? w.hinfo x ∧
    AList.find? w'.mutIdx x = AList.find? w.mutIdx x) ∧
  w'.T = w.T ∧ w'.addr = w.addr

end World
end Atree
