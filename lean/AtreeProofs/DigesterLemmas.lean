import AtreeModel.Digester
/-
  Helper lemmas about the digester model (`AtreeModel/Digester.lean`): what `Digest` / `DigestPrefix`
  return in terms of the observable content of an object (`circleHash64` and the EFFECTIVE BLAKE3
  words), what `Reset` / the pool preserve, and the simulation between a pooled, caching history
  and the pool-free, cache-free one.  Core Lean only.  The property-level statements are in
  `AtreeProofs/Props/Digester.lean`.
-/
namespace Atree.Dig

theorem levels_eq : levels = 4 := rfl

/-- The BLAKE3 words a `Digest(1..3)` call is going to use: the cache if it is filled, the sum of
    the message otherwise. -/
def eff (H : Hashes) (d : BasicDigester) : B4 :=
  if d.blake3Hash = emptyBlake3Hash then blakeWords (H.sum256 d.msg) else d.blake3Hash

/-- What `Digest(l)` returns on `d` for `l < 4`. -/
def val (H : Hashes) (d : BasicDigester) (l : Nat) : UInt64 :=
  if l = 0 then d.circleHash64 else (eff H d).get (l - 1)

theorem digest_lt (H : Hashes) (d : BasicDigester) (l : Nat) (hl : l < 4) :
    d.digest H l = (.ok (val H d l), if l = 0 then d else { d with blake3Hash := eff H d }) := by
  have h4 : ¬ (l ≥ levels) := by simp [levels]; omega
  unfold BasicDigester.digest val
  rw [if_neg h4]
  match l, hl with
  | 0, _ => rfl
  | 1, _ => simp only [eff]; split <;> simp_all
  | 2, _ => simp only [eff]; split <;> simp_all
  | 3, _ => simp only [eff]; split <;> simp_all

theorem digest_ge (H : Hashes) (d : BasicDigester) (l : Nat) (hl : 4 ≤ l) :
    d.digest H l = (.error .hashLevel, d) := by
  unfold BasicDigester.digest
  rw [if_pos (by simp [levels]; omega)]

/-- `d'` shows every holder what `d` shows (and has the same scratch buffer and message). -/
structure Same (H : Hashes) (d d' : BasicDigester) : Prop where
  circle : d'.circleHash64 = d.circleHash64
  msg : d'.msg = d.msg
  scratch : d'.scratch = d.scratch
  eff : eff H d' = eff H d

theorem Same.refl (H : Hashes) (d : BasicDigester) : Same H d d := ⟨rfl, rfl, rfl, rfl⟩

theorem Same.trans {H : Hashes} {a b c : BasicDigester} (h1 : Same H a b) (h2 : Same H b c) : Same H a c :=
  ⟨h2.circle.trans h1.circle, h2.msg.trans h1.msg, h2.scratch.trans h1.scratch, h2.eff.trans h1.eff⟩

theorem Same.val {H : Hashes} {d d' : BasicDigester} (h : Same H d d') (l : Nat) : val H d' l = val H d l := by
  unfold Dig.val; rw [h.circle, h.eff]

theorem eff_fill (H : Hashes) (d : BasicDigester) : eff H { d with blake3Hash := eff H d } = eff H d := by
  unfold eff
  by_cases h : d.blake3Hash = emptyBlake3Hash
  · simp only [h, if_true]
    split <;> simp_all
  · simp [h]

/-- `Digest` never changes what an object shows. -/
theorem digest_same (H : Hashes) (d : BasicDigester) (l : Nat) : Same H d (d.digest H l).2 := by
  by_cases hl : l < 4
  · rw [digest_lt H d l hl]
    by_cases h0 : l = 0
    · simp only [h0, if_true]; exact Same.refl H d
    · simp only [h0, if_false]
      exact ⟨rfl, rfl, rfl, eff_fill H d⟩
  · rw [digest_ge H d l (by omega)]; exact Same.refl H d

theorem digest_fst (H : Hashes) (d : BasicDigester) (l : Nat) :
    (d.digest H l).1 = if l < 4 then .ok (val H d l) else .error .hashLevel := by
  by_cases hl : l < 4
  · rw [digest_lt H d l hl, if_pos hl]
  · rw [digest_ge H d l (by omega), if_neg hl]

theorem prefixLoop_spec (H : Hashes) (n : Nat) : ∀ (d : BasicDigester) (i : Nat) (acc : List UInt64),
    i + n ≤ 4 →
    (d.prefixLoop H i n acc).1 = .ok (acc ++ (List.range' i n).map (val H d)) ∧
    Same H d (d.prefixLoop H i n acc).2 := by
  induction n with
  | zero => intro d i acc _; simp [BasicDigester.prefixLoop, Same.refl]
  | succ n ih =>
    intro d i acc h
    have hi : i < 4 := by omega
    have hs := digest_same H d i
    unfold BasicDigester.prefixLoop
    have hd : d.digest H i = (.ok (val H d i), (d.digest H i).2) := by
      rw [digest_lt H d i hi]
    rw [hd]
    dsimp only
    obtain ⟨r1, r2⟩ := ih (d.digest H i).2 (i + 1) (acc ++ [val H d i]) (by omega)
    refine ⟨?_, hs.trans r2⟩
    have hmap : List.map (val H (d.digest H i).2) (List.range' (i + 1) n) =
        List.map (val H d) (List.range' (i + 1) n) := by
      apply List.map_congr_left
      intro l _
      exact hs.val l
    rw [r1, List.range'_succ, List.map_cons, List.append_assoc, List.singleton_append, hmap]

theorem digestPrefix_le (H : Hashes) (d : BasicDigester) (level : Nat) (h : level ≤ 4) :
    (d.digestPrefix H level).1 = .ok ((List.range level).map (val H d)) ∧
    Same H d (d.digestPrefix H level).2 := by
  unfold BasicDigester.digestPrefix
  rw [if_neg (by simp [levels]; omega)]
  have := prefixLoop_spec H level d 0 [] (by omega)
  rw [List.range_eq_range']
  simpa using this

theorem digestPrefix_gt (H : Hashes) (d : BasicDigester) (level : Nat) (h : 4 < level) :
    d.digestPrefix H level = (.error .hashLevel, d) := by
  unfold BasicDigester.digestPrefix
  rw [if_pos (by simp [levels]; omega)]

theorem digestPrefix_same (H : Hashes) (d : BasicDigester) (level : Nat) :
    Same H d (d.digestPrefix H level).2 := by
  by_cases h : level ≤ 4
  · exact (digestPrefix_le H d level h).2
  · rw [digestPrefix_gt H d level (by omega)]; exact Same.refl H d

/-! ### Representation of a cache-free digester -/

/-- the object `d` shows exactly what the cache-free digester `s` defines -/
structure Rep (H : Hashes) (d : BasicDigester) (s : SpecDigester) : Prop where
  circle : d.circleHash64 = s.c
  eff : eff H d = blakeWords (H.sum256 s.msg)

theorem Rep.val {H : Hashes} {d : BasicDigester} {s : SpecDigester} (h : Rep H d s) (l : Nat) :
    val H d l = s.value H l := by
  unfold Dig.val SpecDigester.value; rw [h.circle, h.eff]

theorem Rep.of_same {H : Hashes} {d d' : BasicDigester} {s : SpecDigester} (h : Rep H d s)
    (hs : Same H d d') : Rep H d' s := ⟨hs.circle.trans h.circle, hs.eff.trans h.eff⟩

theorem Rep.digest {H : Hashes} {d : BasicDigester} {s : SpecDigester} (h : Rep H d s) (l : Nat) :
    (d.digest H l).1 = s.digest H l ∧ Rep H (d.digest H l).2 s := by
  refine ⟨?_, h.of_same (digest_same H d l)⟩
  rw [digest_fst]
  unfold SpecDigester.digest
  by_cases hl : l < 4
  · rw [if_pos hl, if_neg (by simp [levels]; omega), h.val]
  · rw [if_neg hl, if_pos (by simp [levels]; omega)]

theorem Rep.digestPrefix {H : Hashes} {d : BasicDigester} {s : SpecDigester} (h : Rep H d s) (l : Nat) :
    (d.digestPrefix H l).1 = s.digestPrefix H l ∧ Rep H (d.digestPrefix H l).2 s := by
  refine ⟨?_, h.of_same (digestPrefix_same H d l)⟩
  unfold SpecDigester.digestPrefix
  by_cases hl : l ≤ 4
  · rw [(digestPrefix_le H d l hl).1, if_neg (by simp [levels]; omega)]
    congr 1
    apply List.map_congr_left
    intro i _; exact h.val i
  · rw [digestPrefix_gt H d l (by omega), if_pos (by simp [levels]; omega)]

/-! ### Reset and the pool -/

/-- the state `Reset` establishes: every field but the scratch buffer is the zero value -/
structure IsReset (d : BasicDigester) : Prop where
  circle : d.circleHash64 = 0
  blake : d.blake3Hash = emptyBlake3Hash
  msg : d.msg = []

theorem isReset_fresh : IsReset BasicDigester.fresh := ⟨rfl, rfl, rfl⟩

theorem isReset_reset (d : BasicDigester) : IsReset d.reset := ⟨rfl, rfl, rfl⟩

theorem reset_eq (d : BasicDigester) : d.reset = { BasicDigester.fresh with scratch := d.scratch } := rfl

theorem isReset_iff (d : BasicDigester) : IsReset d ↔ d = { BasicDigester.fresh with scratch := d.scratch } := by
  constructor
  · intro h
    cases d with
    | mk c b s m =>
      have h1 := h.circle; have h2 := h.blake; have h3 := h.msg
      simp only at h1 h2 h3
      subst h1 h2 h3
      rfl
  · intro h; rw [h]; exact ⟨rfl, rfl, rfl⟩

/-- every parked object is in reset state -/
def PoolReset (p : Pool) : Prop := ∀ d ∈ p.free, IsReset d

theorem poolReset_empty : PoolReset {} := by intro d hd; simp at hd

theorem poolReset_put {p : Pool} (h : PoolReset p) (x : AnyDigester) : PoolReset (p.put x) := by
  cases x with
  | foreign => exact h
  | basic bd =>
    intro d hd
    simp only [Pool.put, List.mem_cons] at hd
    rcases hd with rfl | hd
    · exact isReset_reset bd
    · exact h d hd

theorem poolReset_drop {p : Pool} (h : PoolReset p) (i : Nat) : PoolReset (p.drop i) := by
  intro d hd
  exact h d (List.mem_of_mem_eraseIdx hd)

theorem poolReset_get {p : Pool} (h : PoolReset p) (choice : Option Nat) :
    IsReset (p.get choice).1 ∧ PoolReset (p.get choice).2 := by
  unfold Pool.get
  cases choice with
  | none => exact ⟨isReset_fresh, h⟩
  | some i =>
    dsimp only
    cases hi : p.free[i]? with
    | none => exact ⟨isReset_fresh, h⟩
    | some d =>
      refine ⟨h d (List.mem_of_getElem? hi), ?_⟩
      intro x hx
      exact h x (List.mem_of_mem_eraseIdx hx)

/-- the pool only ever returns an object it was given (or a new one) -/
theorem get_mem_or_fresh (p : Pool) (choice : Option Nat) :
    (p.get choice).1 ∈ p.free ∨ ((p.get choice).1 = BasicDigester.fresh ∧ (p.get choice).2 = p) := by
  unfold Pool.get
  cases choice with
  | none => exact .inr ⟨rfl, rfl⟩
  | some i =>
    dsimp only
    cases hi : p.free[i]? with
    | none => exact .inr ⟨rfl, rfl⟩
    | some d => exact .inl (List.mem_of_getElem? hi)

/-! ### The builder -/

/-- Contract of a `HashInputProvider`: the message it returns (or its failure) does not depend on
    what the scratch buffer contained when it was called. -/
def ScratchIndep {V : Type} (hip : HIP V) : Prop := ∀ v s1 s2, (hip v s1).1 = (hip v s2).1

theorem build_seed0 {V : Type} (H : Hashes) (hip : HIP V) (k1 : UInt64) (v : V) (p : Pool) (c : Option Nat) :
    (Builder.new.setSeed 0 k1).digest H hip v p c = (.error .seedUninitialized, p) := by
  simp [Builder.digest, Builder.setSeed]

theorem build_ok {V : Type} (H : Hashes) (hip : HIP V) (k0 k1 : UInt64) (hk : k0 ≠ 0) (v : V) (p : Pool)
    (c : Option Nat) (m : Bytes) (hm : (hip v (p.get c).1.scratch).1 = .ok m) :
    (Builder.new.setSeed k0 k1).digest H hip v p c =
      (.ok { (p.get c).1 with scratch := (hip v (p.get c).1.scratch).2, msg := m, circleHash64 := H.circle m k0 },
       (p.get c).2) := by
  unfold Builder.digest Builder.setSeed
  simp only [hk, if_false]
  cases hh : hip v (p.get c).1.scratch with
  | mk r s =>
    rw [hh] at hm
    simp only at hm
    subst hm
    rfl

/-- `build_ok` without the details of the scratch buffer -/
theorem build_ok_ex {V : Type} (H : Hashes) (hip : HIP V) (k0 k1 : UInt64) (hk : k0 ≠ 0) (v : V) (p : Pool)
    (c : Option Nat) (m : Bytes) (hm : (hip v (p.get c).1.scratch).1 = .ok m) :
    ∃ scr, (Builder.new.setSeed k0 k1).digest H hip v p c =
      (.ok ⟨H.circle m k0, (p.get c).1.blake3Hash, scr, m⟩, (p.get c).2) :=
  ⟨_, build_ok H hip k0 k1 hk v p c m hm⟩

theorem build_err {V : Type} (H : Hashes) (hip : HIP V) (k0 k1 : UInt64) (hk : k0 ≠ 0) (v : V) (p : Pool)
    (c : Option Nat) (e : Unit) (hm : (hip v (p.get c).1.scratch).1 = .error e) :
    (Builder.new.setSeed k0 k1).digest H hip v p c =
      (.error .external,
       (p.get c).2.put (.basic { (p.get c).1 with scratch := (hip v (p.get c).1.scratch).2 })) := by
  unfold Builder.digest Builder.setSeed
  simp only [hk, if_false]
  cases hh : hip v (p.get c).1.scratch with
  | mk r s =>
    rw [hh] at hm
    simp only at hm
    subst hm
    rfl

/-- An object built on a reset object represents the cache-free digester of its message. -/
theorem rep_of_build (H : Hashes) (d : BasicDigester) (hd : IsReset d) (s : Bytes) (m : Bytes) (k0 : UInt64) :
    Rep H { d with scratch := s, msg := m, circleHash64 := H.circle m k0 } (specOf H k0 m) := by
  constructor
  · rfl
  · simp [eff, hd.blake, specOf]

/-! ### Histories -/

/-- slot-wise relation between the real world and the cache-free one -/
def SlotRel (H : Hashes) : Option BasicDigester → Option SpecDigester → Prop
  | none, none => True
  | some d, some s => Rep H d s
  | _, _ => False

structure WInv (H : Hashes) (w : DWorld) (sh : List (Option SpecDigester)) : Prop where
  pool : PoolReset w.pool
  len : w.held.length = sh.length
  slots : ∀ i, SlotRel H (getSlot w.held i) ((sh[i]?).join)

theorem winv_init (H : Hashes) : WInv H {} [] :=
  ⟨poolReset_empty, rfl, by intro i; simp [getSlot, SlotRel]⟩

theorem getSlot_append (l : List (Option BasicDigester)) (x : Option BasicDigester) (i : Nat) :
    getSlot (l ++ [x]) i = if i < l.length then getSlot l i else if i = l.length then x else none := by
  unfold getSlot
  by_cases h : i < l.length
  · simp [h, List.getElem?_append_left h]
  · rw [if_neg h, List.getElem?_append_right (by omega)]
    by_cases h2 : i = l.length
    · simp [h2]
    · rw [if_neg h2]
      have : i - l.length ≠ 0 := by omega
      cases hk : i - l.length with
      | zero => exact absurd hk this
      | succ k => simp

theorem specSlot_append (l : List (Option SpecDigester)) (x : Option SpecDigester) (i : Nat) :
    (((l ++ [x])[i]?).join) = if i < l.length then (l[i]?).join else if i = l.length then x else none := by
  by_cases h : i < l.length
  · simp [h, List.getElem?_append_left h]
  · rw [if_neg h, List.getElem?_append_right (by omega)]
    by_cases h2 : i = l.length
    · simp [h2]
    · rw [if_neg h2]
      have : i - l.length ≠ 0 := by omega
      cases hk : i - l.length with
      | zero => exact absurd hk this
      | succ k => simp

theorem getSlot_set (l : List (Option BasicDigester)) (j : Nat) (x : Option BasicDigester) (i : Nat) :
    getSlot (setSlot l j x) i = if i = j ∧ j < l.length then x else getSlot l i := by
  unfold getSlot setSlot
  rw [List.getElem?_set]
  by_cases h : j = i
  · subst h
    by_cases h2 : j < l.length
    · simp [h2]
    · simp [h2]
  · have : ¬ (i = j ∧ j < l.length) := by intro hh; exact h hh.1.symm
    simp [h, this]

theorem specSlot_set (l : List (Option SpecDigester)) (j : Nat) (x : Option SpecDigester) (i : Nat) :
    (((l.set j x)[i]?).join) = if i = j ∧ j < l.length then x else (l[i]?).join := by
  rw [List.getElem?_set]
  by_cases h : j = i
  · subst h
    by_cases h2 : j < l.length
    · simp [h2]
    · simp [h2]
  · have : ¬ (i = j ∧ j < l.length) := by intro hh; exact h hh.1.symm
    simp [h, this]

theorem getSlot_some_lt {l : List (Option BasicDigester)} {i : Nat} {d : BasicDigester}
    (h : getSlot l i = some d) : i < l.length := by
  unfold getSlot at h
  cases hi : l[i]? with
  | none => rw [hi] at h; simp at h
  | some x => exact (List.getElem?_eq_some_iff.mp hi).1

theorem winv_append {H : Hashes} {w : DWorld} {sh : List (Option SpecDigester)} (h : WInv H w sh)
    (p : Pool) (hp : PoolReset p) (x : Option BasicDigester) (y : Option SpecDigester) (hxy : SlotRel H x y) :
    WInv H { pool := p, held := w.held ++ [x] } (sh ++ [y]) := by
  refine ⟨hp, by simp [h.len], ?_⟩
  intro i
  show SlotRel H (getSlot (w.held ++ [x]) i) (((sh ++ [y])[i]?).join)
  rw [getSlot_append, specSlot_append, h.len]
  by_cases h1 : i < sh.length
  · simp only [h1, if_true]; exact h.slots i
  · simp only [h1, if_false]
    by_cases h2 : i = sh.length
    · simp only [h2, if_true]; exact hxy
    · simp only [h2, if_false]; trivial

theorem winv_set {H : Hashes} {w : DWorld} {sh : List (Option SpecDigester)} (h : WInv H w sh)
    (p : Pool) (hp : PoolReset p) (j : Nat) (x : Option BasicDigester) (y : Option SpecDigester)
    (hxy : SlotRel H x y) :
    WInv H { pool := p, held := setSlot w.held j x } (sh.set j y) := by
  refine ⟨hp, by simp [setSlot, h.len], ?_⟩
  intro i
  show SlotRel H (getSlot (setSlot w.held j x) i) (((sh.set j y)[i]?).join)
  rw [getSlot_set, specSlot_set, h.len]
  by_cases h1 : i = j ∧ j < sh.length
  · simp only [h1, and_self, if_true]; exact hxy
  · simp only [h1, if_false]; exact h.slots i

/-- One event: the pooled, caching implementation and the cache-free definition agree on what the
    holder sees, and stay related. -/
theorem step_sim {V : Type} (H : Hashes) (hip : HIP V) (hsi : ScratchIndep hip) (w : DWorld)
    (sh : List (Option SpecDigester)) (h : WInv H w sh) (e : Ev V) :
    (w.step H hip e).1 = (specStep H hip sh e).1 ∧ WInv H (w.step H hip e).2 (specStep H hip sh e).2 := by
  cases e with
  | build k0 k1 v c =>
    obtain ⟨hr, hp'⟩ := poolReset_get h.pool c
    by_cases hk : k0 = 0
    · subst hk
      simp only [DWorld.step, specStep, build_seed0, if_true]
      exact ⟨trivial, winv_append h _ h.pool none none trivial⟩
    · have hindep := hsi v (w.pool.get c).1.scratch BasicDigester.fresh.scratch
      cases hm : (hip v (w.pool.get c).1.scratch).1 with
      | ok m =>
        have hm' : (hip v BasicDigester.fresh.scratch).1 = .ok m := by rw [← hindep, hm]
        simp only [DWorld.step, specStep, build_ok H hip k0 k1 hk v w.pool c m hm, hk, if_false, hm']
        exact ⟨trivial, winv_append h _ hp' _ _ (rep_of_build H _ hr _ m k0)⟩
      | error e =>
        have hm' : (hip v BasicDigester.fresh.scratch).1 = .error e := by rw [← hindep, hm]
        simp only [DWorld.step, specStep, build_err H hip k0 k1 hk v w.pool c e hm, hk, if_false, hm']
        exact ⟨trivial, winv_append h _ (poolReset_put hp' _) none none trivial⟩
  | digest s l =>
    have hs := h.slots s
    simp only [DWorld.step, specStep]
    cases hd : getSlot w.held s with
    | none =>
      rw [hd] at hs
      cases hy : (sh[s]?).join with
      | none => exact ⟨rfl, h⟩
      | some y => rw [hy] at hs; exact absurd hs (by simp [SlotRel])
    | some d =>
      rw [hd] at hs
      cases hy : (sh[s]?).join with
      | none => rw [hy] at hs; exact absurd hs (by simp [SlotRel])
      | some y =>
        rw [hy] at hs
        have hrep : Rep H d y := hs
        obtain ⟨r1, r2⟩ := hrep.digest l
        refine ⟨by simp only [r1], ?_⟩
        have hlt : s < sh.length := by rw [← h.len]; exact getSlot_some_lt hd
        have := winv_set h w.pool h.pool s (some (d.digest H l).2) (some y) r2
        have hself : sh.set s (some y) = sh := by
          apply List.ext_getElem? ; intro i
          rw [List.getElem?_set]
          by_cases hi : s = i
          · subst hi
            simp only [hlt, if_true]
            have : (sh[s]?) = some (sh[s]) := List.getElem?_eq_getElem hlt
            rw [this] at hy ⊢
            simp only [Option.join_some] at hy
            rw [hy]
          · simp [hi]
        rw [hself] at this
        exact this
  | pref s l =>
    have hs := h.slots s
    simp only [DWorld.step, specStep]
    cases hd : getSlot w.held s with
    | none =>
      rw [hd] at hs
      cases hy : (sh[s]?).join with
      | none => exact ⟨rfl, h⟩
      | some y => rw [hy] at hs; exact absurd hs (by simp [SlotRel])
    | some d =>
      rw [hd] at hs
      cases hy : (sh[s]?).join with
      | none => rw [hy] at hs; exact absurd hs (by simp [SlotRel])
      | some y =>
        rw [hy] at hs
        have hrep : Rep H d y := hs
        obtain ⟨r1, r2⟩ := hrep.digestPrefix l
        refine ⟨by simp only [r1], ?_⟩
        have hlt : s < sh.length := by rw [← h.len]; exact getSlot_some_lt hd
        have := winv_set h w.pool h.pool s (some (d.digestPrefix H l).2) (some y) r2
        have hself : sh.set s (some y) = sh := by
          apply List.ext_getElem? ; intro i
          rw [List.getElem?_set]
          by_cases hi : s = i
          · subst hi
            simp only [hlt, if_true]
            have : (sh[s]?) = some (sh[s]) := List.getElem?_eq_getElem hlt
            rw [this] at hy ⊢
            simp only [Option.join_some] at hy
            rw [hy]
          · simp [hi]
        rw [hself] at this
        exact this
  | reset s =>
    have hs := h.slots s
    simp only [DWorld.step, specStep]
    cases hd : getSlot w.held s with
    | none =>
      rw [hd] at hs
      cases hy : (sh[s]?).join with
      | none => exact ⟨rfl, h⟩
      | some y => rw [hy] at hs; exact absurd hs (by simp [SlotRel])
    | some d =>
      rw [hd] at hs
      cases hy : (sh[s]?).join with
      | none => rw [hy] at hs; exact absurd hs (by simp [SlotRel])
      | some y =>
        refine ⟨rfl, winv_set h w.pool h.pool s (some d.reset) (some ⟨0, []⟩) ?_⟩
        show Rep H d.reset ⟨0, []⟩
        exact ⟨rfl, by simp [eff, BasicDigester.reset]⟩
  | put s =>
    have hs := h.slots s
    simp only [DWorld.step, specStep]
    cases hd : getSlot w.held s with
    | none =>
      refine ⟨rfl, ?_⟩
      -- the cache-free side clears a slot that is empty on both sides
      rw [hd] at hs
      have hy : (sh[s]?).join = none := by
        cases hy : (sh[s]?).join with
        | none => rfl
        | some y => rw [hy] at hs; exact absurd hs (by simp [SlotRel])
      have h2 := winv_set h w.pool h.pool s none none trivial
      have hself : setSlot w.held s none = w.held := by
        unfold setSlot
        apply List.ext_getElem? ; intro i
        rw [List.getElem?_set]
        by_cases hi : s = i
        · subst hi
          by_cases hlt : s < w.held.length
          · simp only [hlt, if_true]
            have hx : (w.held[s]?) = some (w.held[s]) := List.getElem?_eq_getElem hlt
            unfold getSlot at hd
            rw [hx] at hd ⊢
            simp only [Option.join_some] at hd
            rw [hd]
          · rw [List.getElem?_eq_none (Nat.le_of_not_lt hlt)]; simp; omega
        · simp [hi]
      rw [hself] at h2
      exact h2
    | some d =>
      exact ⟨rfl, winv_set h _ (poolReset_put h.pool _) s none none trivial⟩
  | drop i =>
    exact ⟨rfl, ⟨poolReset_drop h.pool i, h.len, h.slots⟩⟩

theorem run_sim {V : Type} (H : Hashes) (hip : HIP V) (hsi : ScratchIndep hip) (evs : List (Ev V)) :
    ∀ (w : DWorld) (sh : List (Option SpecDigester)), WInv H w sh →
      (w.run H hip evs).1 = specRun H hip sh evs ∧ PoolReset (w.run H hip evs).2.pool := by
  induction evs with
  | nil => intro w sh h; exact ⟨rfl, h.pool⟩
  | cons e es ih =>
    intro w sh h
    obtain ⟨h1, h2⟩ := step_sim H hip hsi w sh h e
    obtain ⟨i1, i2⟩ := ih _ _ h2
    simp only [DWorld.run, specRun]
    exact ⟨by rw [h1, i1], i2⟩

end Atree.Dig
