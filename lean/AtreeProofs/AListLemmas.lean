import AtreeModel.Basic
/-
  Lemmas about association lists (`AList`), the derived `BEq` on `SlabID`, and `List.eraseDups`.
  Core Lean only.
-/
namespace Atree

/-! ### `SlabID` -/

instance : LawfulBEq SlabID where
  rfl := by
    intro a
    cases a
    show (_ == _ && _ == _) = true
    simp
  eq_of_beq := by
    intro a b h
    cases a; cases b
    have h' : (_ == _ && _ == _) = true := h
    simp at h'
    simp [h'.1, h'.2]

theorem SlabID.isTemp_iff (i : SlabID) : i.isTemp = true ↔ i.addr = 0 := by
  simp [SlabID.isTemp]

theorem SlabID.isTemp_undef : SlabID.undef.isTemp = true := by decide

/-! ### `eraseDups` -/

theorem nodup_eraseDups {α : Type} [BEq α] [LawfulBEq α] (l : List α) : l.eraseDups.Nodup := by
  suffices h : ∀ n (l : List α), l.length ≤ n → l.eraseDups.Nodup from h _ l (Nat.le_refl _)
  intro n
  induction n with
  | zero =>
    intro l hl
    have : l = [] := List.length_eq_zero_iff.mp (Nat.le_zero.mp hl)
    subst this
    simp
  | succ n ih =>
    intro l hl
    cases l with
    | nil => simp
    | cons a as =>
      rw [List.eraseDups_cons, List.nodup_cons]
      refine ⟨?_, ih _ ?_⟩
      · simp [List.mem_eraseDups, List.mem_filter]
      · have := List.length_filter_le (fun b => !b == a) as
        simp at hl
        omega

namespace AList
variable {κ : Type} [DecidableEq κ] {α : Type}

@[simp] theorem find?_nil (k : κ) : find? ([] : AList κ α) k = none := rfl

theorem find?_cons (k' : κ) (v : α) (m : AList κ α) (k : κ) :
    find? ((k', v) :: m) k = if k' = k then some v else find? m k := rfl

theorem find?_erase (m : AList κ α) (k j : κ) :
    find? (erase m k) j = if k = j then none else find? m j := by
  induction m with
  | nil => simp [erase]
  | cons p m ih =>
    obtain ⟨k', v⟩ := p
    unfold erase at ih ⊢
    by_cases h : k' = k
    · subst h
      simp only [List.filter_cons, decide_true, Bool.not_true, Bool.false_eq_true, if_false, ih]
      by_cases hj : k' = j
      · simp [hj]
      · simp [hj, find?_cons]
    · simp only [List.filter_cons, h, decide_false, Bool.not_false, if_true, find?_cons, ih]
      by_cases hj : k = j
      · subst hj; simp [h]
      · simp [hj]

theorem find?_insert (m : AList κ α) (k : κ) (v : α) (j : κ) :
    find? (insert m k v) j = if k = j then some v else find? m j := by
  unfold insert
  rw [find?_cons, find?_erase]
  by_cases h : k = j <;> simp [h]

omit [DecidableEq κ] in
theorem keys_nil : keys ([] : AList κ α) = [] := rfl

omit [DecidableEq κ] in
theorem keys_cons (p : κ × α) (m : AList κ α) : keys (p :: m) = p.1 :: keys m := rfl

theorem mem_keys_erase (m : AList κ α) (k j : κ) :
    j ∈ keys (erase m k) ↔ j ≠ k ∧ j ∈ keys m := by
  simp only [keys, erase, List.mem_map, List.mem_filter]
  constructor
  · rintro ⟨p, ⟨hp, hk⟩, rfl⟩
    exact ⟨by simpa using hk, p, hp, rfl⟩
  · rintro ⟨hne, p, hp, rfl⟩
    exact ⟨p, ⟨hp, by simpa using hne⟩, rfl⟩

theorem nodup_keys_erase (m : AList κ α) (k : κ) (h : (keys m).Nodup) :
    (keys (erase m k)).Nodup := by
  induction m with
  | nil => simp [erase, keys]
  | cons p m ih =>
    rw [keys_cons, List.nodup_cons] at h
    unfold erase at ih ⊢
    by_cases hk : p.1 = k
    · simpa [List.filter_cons, hk] using ih h.2
    · simp only [List.filter_cons, hk, decide_false, Bool.not_false, if_true, keys_cons,
        List.nodup_cons]
      refine ⟨?_, ih h.2⟩
      intro hmem
      exact h.1 ((mem_keys_erase m k p.1).mp hmem).2

theorem mem_keys_insert (m : AList κ α) (k : κ) (v : α) (j : κ) :
    j ∈ keys (insert m k v) ↔ j = k ∨ j ∈ keys m := by
  unfold insert
  rw [keys_cons, List.mem_cons, mem_keys_erase]
  by_cases h : j = k <;> simp [h]

theorem nodup_keys_insert (m : AList κ α) (k : κ) (v : α) (h : (keys m).Nodup) :
    (keys (insert m k v)).Nodup := by
  unfold insert
  rw [keys_cons, List.nodup_cons]
  refine ⟨?_, nodup_keys_erase m k h⟩
  intro hmem
  exact ((mem_keys_erase m k k).mp hmem).1 rfl

theorem find?_eq_none_iff (m : AList κ α) (k : κ) : find? m k = none ↔ k ∉ keys m := by
  induction m with
  | nil => simp [keys]
  | cons p m ih =>
    obtain ⟨k', v⟩ := p
    rw [find?_cons, keys_cons, List.mem_cons]
    by_cases h : k' = k
    · simp [h]
    · have h' : ¬ k = k' := fun e => h e.symm
      simp [h, h', ih]

theorem find?_ne_none_iff (m : AList κ α) (k : κ) : find? m k ≠ none ↔ k ∈ keys m := by
  rw [Ne, find?_eq_none_iff]; exact Decidable.not_not

/-- With unique keys, `find?` returns exactly the entries of the list. -/
theorem mem_iff_find? (m : AList κ α) (h : (keys m).Nodup) (k : κ) (v : α) :
    (k, v) ∈ m ↔ find? m k = some v := by
  induction m with
  | nil => simp
  | cons p m ih =>
    obtain ⟨k', v'⟩ := p
    rw [keys_cons, List.nodup_cons] at h
    rw [find?_cons, List.mem_cons]
    by_cases hk : k' = k
    · subst hk
      simp only [if_true, Option.some.injEq, Prod.mk.injEq, true_and]
      constructor
      · rintro (h1 | h1)
        · exact h1.symm
        · exact absurd (List.mem_map.mpr ⟨(k', v), h1, rfl⟩) h.1
      · intro h1; exact Or.inl h1.symm
    · have : ¬ (k = k' ∧ v = v') := fun e => hk e.1.symm
      simp [hk, this, ih h.2]

theorem contains_eq (m : AList κ α) (k : κ) : contains m k = (find? m k).isSome := rfl

end AList
end Atree
