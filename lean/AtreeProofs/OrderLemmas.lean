import AtreeModel.StorageOps
import AtreeProofs.AListLemmas
/-
  Lemmas about the key orders used by the commit functions: `insertSorted` / `sortIDs`
  (`sortedOwnedDeltaKeys`) and `normOrder` (re-validation of caller supplied orders).
-/
namespace Atree
namespace St

theorem insertSorted_perm (k : SlabID) (l : List SlabID) : (insertSorted k l).Perm (k :: l) := by
  induction l with
  | nil => exact .refl _
  | cons x xs ih =>
    simp only [insertSorted]
    split
    · exact .refl _
    · exact (List.Perm.cons x ih).trans (List.Perm.swap k x xs)

theorem sortIDs_perm (l : List SlabID) : (sortIDs l).Perm l := by
  induction l with
  | nil => exact .refl _
  | cons x xs ih =>
    show (insertSorted x (sortIDs xs)).Perm (x :: xs)
    exact (insertSorted_perm x _).trans (List.Perm.cons x ih)

theorem mem_sortIDs (l : List SlabID) (k : SlabID) : k ∈ sortIDs l ↔ k ∈ l :=
  (sortIDs_perm l).mem_iff

theorem nodup_sortIDs (l : List SlabID) (h : l.Nodup) : (sortIDs l).Nodup :=
  (sortIDs_perm l).nodup_iff.mpr h

theorem mem_normOrder (want given : List SlabID) (k : SlabID) :
    k ∈ normOrder want given ↔ k ∈ want := by
  simp only [normOrder, List.mem_append, List.mem_filter, List.mem_eraseDups,
    List.contains_iff_mem, Bool.not_eq_eq_eq_not, Bool.not_true]
  by_cases h1 : k ∈ want <;> by_cases h2 : k ∈ given <;> simp [h1, h2]

theorem nodup_normOrder (want given : List SlabID) (h : want.Nodup) :
    (normOrder want given).Nodup := by
  simp only [normOrder]
  rw [List.nodup_append]
  refine ⟨nodup_eraseDups _, h.sublist List.filter_sublist, ?_⟩
  intro a ha b hb hab
  subst hab
  simp only [List.mem_eraseDups, List.mem_filter, List.contains_iff_mem] at ha
  simp [List.mem_filter, ha.1, ha.2] at hb

end St
end Atree
