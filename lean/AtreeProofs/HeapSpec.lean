import AtreeModel.Array.Ops
import AtreeModel.Dump
/-
  The heap (set of stand-alone slabs with their content) that an array tree occupies in storage,
  and what it means for an effect log to be COMPLETE with respect to a change of the tree
  (C09 / C03: every slab whose content changed was stored, every slab that left the tree was
  removed, nothing else was touched).  DEFINITIONS ONLY.
-/
namespace Atree
open Gen

/-- content of one stored array slab (children of an index slab are separate slabs) -/
inductive ASlab where
  | data (s : DataSlab)
  | index (hdr : Hdr) (childHdrs : List Hdr) (countSum : List Nat) (root : Bool)

/-- every slab of the tree with its content, keyed by slab ID (pre-order) -/
def ATree.slabs : (d : Nat) → ATree d → List (SlabID × ASlab)
  | 0, (s : DataSlab) => [(s.hdr.id, .data s)]
  | d + 1, (m : MetaSlab (ATree d)) =>
    (m.hdr.id, .index m.hdr m.childHdrs m.countSum m.root) :: m.children.flatMap (ATree.slabs d)

/-- the slab stored under `id`, with the array's type info when it is the root -/
def Arr.slabAt (a : Arr) (id : SlabID) : Option (ASlab × Option Nat) :=
  (AList.find? (ATree.slabs a.d a.root) id).map (fun s => (s, if id = a.rootID then some a.ty else none))

/-- last store/remove of `id` in an effect log: `some true` = stored, `some false` = removed -/
def lastAction (effs : List Eff) (id : SlabID) : Option Bool :=
  effs.foldl (fun acc e =>
    match e with
    | .store i => if i = id then some true else acc
    | .remove i => if i = id then some false else acc
    | .alloc _ _ => acc) none

/-- `E` is a complete account of the change from array `a` to array `a'`; `created` are the
    large-value slabs created meanwhile. -/
structure EffectsComplete (a a' : Arr) (E : List Eff) (created : List SlabID) : Prop where
  /-- a slab of the new tree whose content is new or changed was stored -/
  changed_stored : ∀ id, (a'.slabAt id).isSome → a'.slabAt id ≠ a.slabAt id → lastAction E id = some true
  /-- a slab that left the tree was removed -/
  gone_removed : ∀ id, (a.slabAt id).isSome → (a'.slabAt id).isNone → lastAction E id = some false
  /-- nothing else was stored … -/
  stored_in_tree : ∀ id, lastAction E id = some true → (a'.slabAt id).isSome ∨ id ∈ created
  /-- … and nothing that is still in the tree was removed -/
  removed_not_in_tree : ∀ id, lastAction E id = some false → (a'.slabAt id).isNone

end Atree
