import AtreeProofs.Verify.ArraySpec
import AtreeProofs.ArrayLemmas
/-
  Helper lemmas relating the transcription of `VerifyArray` (`AtreeModel/Verify/Array.lean`) to
  the predicate `ArrVerified` and to the invariant `ArrInv`.  The property-level statements are in
  `AtreeProofs/Props/C05Verify.lean`.
-/
namespace Atree.Verify
open Atree Gen ATree MetaSlab

/-! ### `firstErr` -/

@[simp] theorem firstErr_nil {ε : Type} : firstErr ([] : List (Bool × ε)) = none := rfl

@[simp] theorem firstErr_cons_eq_none {ε : Type} (c : Bool) (e : ε) (rest : List (Bool × ε)) :
    firstErr ((c, e) :: rest) = none ↔ c = false ∧ firstErr rest = none := by
  cases c <;> simp [firstErr]

/-! ### the checks of one slab -/

theorem slabChecks_none (v : AVerifier) (hdr : Hdr) (inl extra : Bool) (uf : Option Nat) (full : Bool)
    (level : Nat) (hp : Option Hdr) (seen : List SlabID) :
    firstErr (slabChecks v hdr inl extra uf full level hp seen) = none ↔
      hdr.id ∉ seen ∧ hdr.id.addr = v.address ∧ (inl = true → v.inStorage hdr.id = false) ∧
      (0 < level → extra = false) ∧ (0 < level → uf = none) ∧ full = false ∧
      (∀ h, hp = some h → h = hdr) := by
  unfold slabChecks
  simp only [firstErr_cons_eq_none, firstErr_nil, and_true]
  constructor
  · rintro ⟨h1, h2, h3, h4, h5, h6, h7⟩
    refine ⟨?_, ?_, ?_, ?_, ?_, h6, ?_⟩
    · intro hm
      have : (seen.any fun x => decide (x = hdr.id)) = true := by
        simp only [List.any_eq_true, decide_eq_true_eq]; exact ⟨_, hm, rfl⟩
      rw [this] at h1; cases h1
    · simp only [decide_eq_false_iff_not, ne_eq, Decidable.not_not] at h2; exact h2.symm
    · intro hi; subst hi; simpa using h3
    · intro hl; simpa [hl] using h4
    · intro hl
      have : uf.isSome = false := by simpa [hl] using h5
      cases uf <;> simp_all
    · intro h hh; subst hh
      simp only [decide_eq_false_iff_not, ne_eq, Decidable.not_not] at h7; exact h7
  · rintro ⟨h1, h2, h3, h4, h5, h6, h7⟩
    refine ⟨?_, ?_, ?_, ?_, ?_, h6, ?_⟩
    · cases hany : (seen.any fun x => decide (x = hdr.id)) with
      | false => rfl
      | true =>
        simp only [List.any_eq_true, decide_eq_true_eq] at hany
        obtain ⟨x, hx, rfl⟩ := hany; exact absurd hx h1
    · simp [h2]
    · cases inl with
      | false => rfl
      | true => simp [h3 rfl]
    · by_cases hl : 0 < level
      · simp [h4 hl]
      · simp [hl]
    · by_cases hl : 0 < level
      · simp [h5 hl]
      · simp [hl]
    · cases hp with
      | none => rfl
      | some h => simp [h7 h rfl]

theorem dataChecks_none (v : AVerifier) (s : DataSlab) (level : Nat) :
    firstErr (dataChecks v s level) = none ↔
      s.hdr.count = s.elems.length ∧
      (s.inlined = true → level = 0 ∧ s.root = true ∧ s.next = SlabID.undef) ∧
      s.hdr.size = dataPrefixAt level s.inlined + sumSizes s.elems ∧
      (∀ e ∈ s.elems, e.size ≤ maxInlineArr v.T) := by
  unfold dataChecks
  simp only [firstErr_cons_eq_none, firstErr_nil, and_true]
  constructor
  · rintro ⟨h1, h2, h3, h4, h5, h6⟩
    refine ⟨?_, ?_, ?_, ?_⟩
    · simp only [decide_eq_false_iff_not, ne_eq, Decidable.not_not] at h1; exact h1.symm
    · intro hi
      rw [hi] at h2 h3 h4
      simp only [Bool.true_and, decide_eq_false_iff_not, Nat.not_lt, Nat.le_zero, ne_eq,
        Decidable.not_not, Bool.not_eq_false'] at h2 h3 h4
      exact ⟨by omega, h3, h4⟩
    · simp only [decide_eq_false_iff_not, ne_eq, Decidable.not_not] at h5; exact h5.symm
    · intro e he
      cases hgt : decide (e.size > maxInlineArr v.T) with
      | false => simpa using hgt
      | true =>
        have : (s.elems.any fun e => decide (e.size > maxInlineArr v.T)) = true :=
          List.any_eq_true.2 ⟨e, he, hgt⟩
        rw [this] at h6; cases h6
  · rintro ⟨h1, h2, h3, h4⟩
    refine ⟨by simp [h1], ?_, ?_, ?_, by simp [h3], ?_⟩
    · cases hi : s.inlined with
      | false => rfl
      | true => have := (h2 hi).1; simp [this]
    · cases hi : s.inlined with
      | false => rfl
      | true => simp [(h2 hi).2.1]
    · cases hi : s.inlined with
      | false => rfl
      | true => simp [(h2 hi).2.2]
    · cases hany : (s.elems.any fun e => decide (e.size > maxInlineArr v.T)) with
      | false => rfl
      | true =>
        obtain ⟨e, he, hgt⟩ := List.any_eq_true.1 hany
        have := h4 e he
        simp only [decide_eq_true_eq] at hgt; omega

/-- the accumulators after a data slab has been accepted -/
def accAfterData (s : DataSlab) (acc : AVAcc) : AVAcc :=
  { acc with
    dataSlabIDs := acc.dataSlabIDs ++ [s.hdr.id],
    nextDataSlabIDs := if s.next ≠ SlabID.undef then acc.nextDataSlabIDs ++ [s.next]
                       else acc.nextDataSlabIDs }

theorem verifyDataSlab_ok (v : AVerifier) (s : DataSlab) (level : Nat) (acc : AVAcc) (r : Nat × AVAcc) :
    verifyDataSlab v s level acc = .ok r ↔
      firstErr (dataChecks v s level) = none ∧ r = (s.hdr.count, accAfterData s acc) := by
  unfold verifyDataSlab
  cases h : firstErr (dataChecks v s level) with
  | some e => simp
  | none => simp [accAfterData, eq_comm]

/-! ### accumulators -/

/-- `ids` are new with respect to the set `seen` and pairwise different -/
def Fresh (seen ids : List SlabID) : Prop := (∀ id ∈ ids, id ∉ seen) ∧ ids.Nodup

theorem fresh_nil (seen : List SlabID) : Fresh seen [] := ⟨by simp, by simp⟩

theorem fresh_append (seen l1 l2 : List SlabID) :
    Fresh seen (l1 ++ l2) ↔ Fresh seen l1 ∧ Fresh (seen ++ l1) l2 := by
  unfold Fresh
  simp only [List.mem_append, List.nodup_append, not_or]
  constructor
  · rintro ⟨h1, h2, h3, h4⟩
    exact ⟨⟨fun id hid => h1 id (Or.inl hid), h2⟩,
      fun id hid => ⟨h1 id (Or.inr hid), fun hm => h4 id hm id hid rfl⟩, h3⟩
  · rintro ⟨⟨h1, h2⟩, h3, h4⟩
    refine ⟨?_, h2, h4, ?_⟩
    · rintro id (hid | hid)
      · exact h1 id hid
      · exact (h3 id hid).1
    · intro a ha b hb hab; subst hab; exact (h3 a hb).2 ha

theorem fresh_cons (seen : List SlabID) (x : SlabID) (l : List SlabID) :
    Fresh seen (x :: l) ↔ x ∉ seen ∧ Fresh (seen ++ [x]) l := by
  have := fresh_append seen [x] l
  simp only [List.singleton_append] at this
  rw [this]
  unfold Fresh
  simp

/-- the accumulators after the whole subtree `t` has been accepted -/
def extend (acc : AVAcc) (d : Nat) (t : ATree d) : AVAcc :=
  ⟨acc.dataSlabIDs ++ leafIds d t, acc.nextDataSlabIDs ++ definedNexts (Arr.leaves d t),
   acc.slabIDs ++ slabIds d t⟩

/-- the accumulators after the subtrees `cs` have been accepted, left to right -/
def extendL (acc : AVAcc) (d : Nat) (cs : List (ATree d)) : AVAcc :=
  ⟨acc.dataSlabIDs ++ cs.flatMap (leafIds d),
   acc.nextDataSlabIDs ++ definedNexts (cs.flatMap (Arr.leaves d)),
   acc.slabIDs ++ cs.flatMap (slabIds d)⟩

theorem definedNexts_append (a b : List DataSlab) :
    definedNexts (a ++ b) = definedNexts a ++ definedNexts b := by
  simp [definedNexts]

theorem extendL_nil (acc : AVAcc) (d : Nat) : extendL acc d [] = acc := by
  cases acc; simp [extendL, definedNexts]

theorem extendL_cons (acc : AVAcc) (d : Nat) (c : ATree d) (cs : List (ATree d)) :
    extendL acc d (c :: cs) = extendL (extend acc d c) d cs := by
  simp [extendL, extend, definedNexts_append, List.append_assoc]

theorem leafIds_zero (s : DataSlab) : leafIds 0 (ofData s) = [s.hdr.id] := rfl
theorem leafIds_succ (d : Nat) (m : MetaSlab (ATree d)) :
    leafIds (d + 1) (ofMeta m) = m.children.flatMap (leafIds d) := by
  simp only [leafIds, leaves_succ, List.map_flatMap]
  rfl

theorem extend_zero (acc : AVAcc) (s : DataSlab) :
    extend acc 0 (ofData s) = accAfterData s { acc with slabIDs := acc.slabIDs ++ [s.hdr.id] } := by
  simp only [extend, leafIds_zero, leaves_zero, slabIds_zero, accAfterData, definedNexts,
    List.map_cons, List.map_nil]
  by_cases h : s.next = SlabID.undef <;> simp [h, List.filter]

theorem extend_succ (acc : AVAcc) (d : Nat) (m : MetaSlab (ATree d)) :
    extend acc (d + 1) (ofMeta m) =
      extendL { acc with slabIDs := acc.slabIDs ++ [m.hdr.id] } d m.children := by
  simp [extend, extendL, leafIds_succ]

/-- everything `verifySlab` requires of the subtree `t` entered with the parent's header copy
    `hp` and the set `seen` of IDs met so far -/
def SlabOk (v : AVerifier) (d level : Nat) (t : ATree d) (hp : Option Hdr) (seen : List SlabID) : Prop :=
  Checked v d level t ∧ (∀ h, hp = some h → h = hdr d t) ∧ Fresh seen (slabIds d t)

/-! ### the traversal -/

theorem verifySlab_zero (v : AVerifier) (s : DataSlab) (level : Nat) (hp : Option Hdr) (acc : AVAcc) :
    verifySlab v 0 (ofData s) level hp acc =
      match firstErr (slabChecks v s.hdr s.inlined s.root (s.isUnderflow v.T) (s.isFull v.T)
              level hp acc.slabIDs) with
      | some e => .error e
      | none => verifyDataSlab v s level { acc with slabIDs := acc.slabIDs ++ [s.hdr.id] } := rfl

theorem verifySlab_succ (v : AVerifier) (d : Nat) (m : MetaSlab (ATree d)) (level : Nat)
    (hp : Option Hdr) (acc : AVAcc) :
    verifySlab v (d + 1) (ofMeta m) level hp acc =
      match firstErr (slabChecks v m.hdr false m.root (m.isUnderflow v.T) (m.isFull v.T)
              level hp acc.slabIDs) with
      | some e => .error e
      | none => verifyMetaDataSlab (verifySlab v d) m level
                  { acc with slabIDs := acc.slabIDs ++ [m.hdr.id] } := rfl

theorem checked_zero (v : AVerifier) (level : Nat) (s : DataSlab) :
    Checked v 0 level (ofData s) ↔
      (s.hdr.id.addr = v.address ∧
      (s.inlined = true → v.inStorage s.hdr.id = false) ∧
      (0 < level → s.root = false ∧ minThr v.T ≤ s.hdr.size) ∧
      s.hdr.size ≤ maxThr v.T ∧
      s.hdr.count = s.elems.length ∧
      (s.inlined = true → level = 0 ∧ s.root = true ∧ s.next = SlabID.undef) ∧
      s.hdr.size = dataPrefixAt level s.inlined + sumSizes s.elems ∧
      (∀ e ∈ s.elems, e.size ≤ maxInlineArr v.T)) := by
  unfold ofData; simp only [Checked]

theorem checked_succ (v : AVerifier) (d level : Nat) (m : MetaSlab (ATree d)) :
    Checked v (d + 1) level (ofMeta m) ↔
      (m.hdr.id.addr = v.address ∧
      (0 < level → m.root = false ∧ minThr v.T ≤ m.hdr.size) ∧
      m.hdr.size ≤ maxThr v.T ∧
      (level = 0 → 2 ≤ m.childHdrs.length) ∧
      m.childHdrs = m.children.map (hdr d) ∧
      m.countSum = prefixSums m.childHdrs 0 ∧
      m.hdr.count = sumCounts m.childHdrs ∧
      m.hdr.size = arrayMetaDataSlabPrefixSize + arraySlabHeaderSize * m.childHdrs.length ∧
      (∀ c ∈ m.children, Checked v d (level + 1) c)) := by
  unfold ofMeta; simp only [Checked]

theorem aligned_succ (d : Nat) (m : MetaSlab (ATree d)) :
    Aligned (d + 1) (ofMeta m) ↔
      (m.children.length = m.childHdrs.length ∧ ∀ c ∈ m.children, Aligned d c) := by
  unfold ofMeta; simp only [Aligned]

theorem isUnderflow_none_iff (T : Nat) (size : Nat) :
    (if minThr T > size then some (minThr T - size) else none) = none ↔ minThr T ≤ size := by
  split <;> simp <;> omega

/-- the loop over the children, given the characterisation of `verifySlab` one level down -/
theorem verifyChildren_ok (v : AVerifier) (d level : Nat)
    (IH : ∀ (c : ATree d) (hp : Option Hdr) (acc : AVAcc) (r : Nat × AVAcc), Aligned d c →
      (verifySlab v d c level hp acc = .ok r ↔
        SlabOk v d level c hp acc.slabIDs ∧ r = ((hdr d c).count, extend acc d c))) :
    ∀ (hs : List Hdr) (cs : List (ATree d)) (sums : List Nat) (k : Nat) (acc : AVAcc) (r : Nat × AVAcc),
      cs.length = hs.length → sums.length = hs.length → (∀ c ∈ cs, Aligned d c) →
      (verifyChildren (fun c h acc => verifySlab v d c level (some h) acc) hs cs sums k acc = .ok r ↔
        hs = cs.map (hdr d) ∧ sums = prefixSums hs k ∧ (∀ c ∈ cs, Checked v d level c) ∧
        Fresh acc.slabIDs (cs.flatMap (slabIds d)) ∧ r = (k + sumCounts hs, extendL acc d cs)) := by
  intro hs
  induction hs with
  | nil =>
    intro cs sums k acc r hcs hsums _
    have hcs' : cs = [] := List.length_eq_zero_iff.1 (by simpa using hcs)
    have hsums' : sums = [] := List.length_eq_zero_iff.1 (by simpa using hsums)
    subst hcs' hsums'
    simp only [verifyChildren, Except.ok.injEq, List.map_nil, prefixSums, List.not_mem_nil,
      false_imp_iff, implies_true, List.flatMap_nil, sumCounts_nil, Nat.add_zero, extendL_nil,
      true_and]
    constructor
    · intro h; exact ⟨fresh_nil _, h.symm⟩
    · intro h; exact h.2.symm
  | cons h hs ih =>
    intro cs sums k acc r hcs hsums hal
    match cs, hcs with
    | c :: cs, hcs =>
    match sums, hsums with
    | s :: ss, hsums =>
    have hcs' : cs.length = hs.length := by simpa using hcs
    have hss' : ss.length = hs.length := by simpa using hsums
    have halc : Aligned d c := hal c (by simp)
    have hal' : ∀ c' ∈ cs, Aligned d c' := fun c' hc' => hal c' (by simp [hc'])
    simp only [verifyChildren]
    cases hres : verifySlab v d c level (some h) acc with
    | error e =>
      simp only [reduceCtorEq, false_iff]
      rintro ⟨hh, _, hck, hfr, _⟩
      simp only [List.map_cons, List.cons.injEq] at hh
      have hfr' := (fresh_append acc.slabIDs (slabIds d c) (cs.flatMap (slabIds d))).1
        (by simpa using hfr)
      have : verifySlab v d c level (some h) acc = .ok ((hdr d c).count, extend acc d c) :=
        (IH c (some h) acc _ halc).2
          ⟨⟨hck c (by simp), fun h' hh' => by cases hh'; exact hh.1, hfr'.1⟩, rfl⟩
      rw [this] at hres; cases hres
    | ok r1 =>
      obtain ⟨⟨hck1, hhp1, hfr1⟩, hr1⟩ := (IH c (some h) acc r1 halc).1 hres
      subst hr1
      have hh1 : h = hdr d c := hhp1 h rfl
      simp only
      by_cases hs1 : s = k + (hdr d c).count
      · rw [if_neg (by simpa using hs1)]
        rw [ih cs ss (k + (hdr d c).count) (extend acc d c) r hcs' hss' hal']
        simp only [List.map_cons, List.cons.injEq, prefixSums_cons, List.mem_cons, forall_eq_or_imp,
          List.flatMap_cons, sumCounts_cons, extendL_cons]
        rw [fresh_append]
        subst hh1 hs1
        simp only [true_and, hck1, hfr1, extend]
        constructor
        · rintro ⟨a1, a2, a3, a4, a5⟩; exact ⟨a1, a2, a3, a4, by rw [a5, Nat.add_assoc]⟩
        · rintro ⟨a1, a2, a3, a4, a5⟩; exact ⟨a1, a2, a3, a4, by rw [a5, Nat.add_assoc]⟩
      · rw [if_pos (by simpa using hs1)]
        simp only [reduceCtorEq, false_iff]
        rintro ⟨hh, hsum, _⟩
        simp only [prefixSums_cons, List.cons.injEq] at hsum
        apply hs1
        rw [hsum.1, hh1]

theorem verifyMetaDataSlab_ok (v : AVerifier) (d level : Nat)
    (IH : ∀ (c : ATree d) (hp : Option Hdr) (acc : AVAcc) (r : Nat × AVAcc), Aligned d c →
      (verifySlab v d c (level + 1) hp acc = .ok r ↔
        SlabOk v d (level + 1) c hp acc.slabIDs ∧ r = ((hdr d c).count, extend acc d c)))
    (m : MetaSlab (ATree d)) (acc : AVAcc) (r : Nat × AVAcc)
    (hlen : m.children.length = m.childHdrs.length) (hal : ∀ c ∈ m.children, Aligned d c) :
    verifyMetaDataSlab (verifySlab v d) m level acc = .ok r ↔
      (level = 0 → 2 ≤ m.childHdrs.length) ∧
      m.childHdrs = m.children.map (hdr d) ∧
      m.countSum = prefixSums m.childHdrs 0 ∧
      m.hdr.count = sumCounts m.childHdrs ∧
      m.hdr.size = arrayMetaDataSlabPrefixSize + arraySlabHeaderSize * m.childHdrs.length ∧
      (∀ c ∈ m.children, Checked v d (level + 1) c) ∧
      Fresh acc.slabIDs (m.children.flatMap (slabIds d)) ∧
      r = (m.hdr.count, extendL acc d m.children) := by
  unfold verifyMetaDataSlab
  by_cases h1 : level = 0 ∧ m.childHdrs.length < 2
  · rw [if_pos h1]
    simp only [reduceCtorEq, false_iff]
    rintro ⟨a1, _⟩
    have := a1 h1.1; omega
  rw [if_neg h1]
  by_cases h2 : m.countSum.length ≠ m.childHdrs.length
  · rw [if_pos h2]
    simp only [reduceCtorEq, false_iff]
    rintro ⟨_, _, a3, _⟩
    apply h2; rw [a3, prefixSums_length]
  rw [if_neg h2]
  have h2' : m.countSum.length = m.childHdrs.length := by simpa using h2
  have L := verifyChildren_ok v d (level + 1) IH m.childHdrs m.children m.countSum 0 acc
  cases hres : verifyChildren (fun c h acc => verifySlab v d c (level + 1) (some h) acc)
      m.childHdrs m.children m.countSum 0 acc with
  | error e =>
    simp only [reduceCtorEq, false_iff]
    rintro ⟨_, a2, a3, _, _, a6, a7, _⟩
    have := (L (0 + sumCounts m.childHdrs, extendL acc d m.children) hlen h2' hal).2
      ⟨a2, a3, a6, a7, rfl⟩
    rw [this] at hres; cases hres
  | ok r1 =>
    obtain ⟨a2, a3, a6, a7, hr1⟩ := (L r1 hlen h2' hal).1 hres
    subst hr1
    simp only [Nat.zero_add]
    by_cases h3 : sumCounts m.childHdrs ≠ m.hdr.count
    · rw [if_pos h3]
      simp only [reduceCtorEq, false_iff]
      rintro ⟨_, _, _, a4, _⟩
      exact h3 a4.symm
    rw [if_neg h3]
    have h3' : m.hdr.count = sumCounts m.childHdrs := by
      have : sumCounts m.childHdrs = m.hdr.count := by simpa using h3
      exact this.symm
    by_cases h4 : m.childHdrs.length * arraySlabHeaderSize + arrayMetaDataSlabPrefixSize ≠ m.hdr.size
    · rw [if_pos h4]
      simp only [reduceCtorEq, false_iff]
      rintro ⟨_, _, _, _, a5, _⟩
      apply h4; rw [a5]; simp only [Nat.mul_comm, Nat.add_comm]
    rw [if_neg h4]
    have h4' : m.hdr.size = arrayMetaDataSlabPrefixSize + arraySlabHeaderSize * m.childHdrs.length := by
      have : m.childHdrs.length * arraySlabHeaderSize + arrayMetaDataSlabPrefixSize = m.hdr.size := by
        simpa using h4
      rw [← this]; simp only [Nat.mul_comm, Nat.add_comm]
    simp only [Except.ok.injEq]
    constructor
    · intro hr
      refine ⟨fun hl => ?_, a2, a3, h3', h4', a6, a7, hr.symm⟩
      have : ¬ m.childHdrs.length < 2 := fun hlt => h1 ⟨hl, hlt⟩
      omega
    · rintro ⟨_, _, _, _, _, _, _, hr⟩; exact hr.symm

/-- `verifySlab` accepts the subtree `t` exactly when `SlabOk` holds, and then returns the header
    count and the extended accumulators. -/
theorem verifySlab_ok (v : AVerifier) : ∀ (d : Nat) (t : ATree d) (level : Nat) (hp : Option Hdr)
    (acc : AVAcc) (r : Nat × AVAcc), Aligned d t →
    (verifySlab v d t level hp acc = .ok r ↔
      SlabOk v d level t hp acc.slabIDs ∧ r = ((hdr d t).count, extend acc d t))
  | 0, t, level, hp, acc, r, _ => by
    refine forall_ofData ?_ t; intro s
    rw [verifySlab_zero]
    unfold SlabOk
    rw [checked_zero, slabIds_zero, fresh_cons, hdr_zero, extend_zero]
    have HS := slabChecks_none v s.hdr s.inlined s.root (s.isUnderflow v.T) (s.isFull v.T) level hp
      acc.slabIDs
    have HD := dataChecks_none v s level
    cases hc : firstErr (slabChecks v s.hdr s.inlined s.root (s.isUnderflow v.T) (s.isFull v.T)
        level hp acc.slabIDs) with
    | some e =>
      simp only [reduceCtorEq, false_iff]
      rintro ⟨⟨⟨b1, b2, b3, b4, b5, b6, b7, b8⟩, hhp, hfr, _⟩, _⟩
      have : firstErr (slabChecks v s.hdr s.inlined s.root (s.isUnderflow v.T) (s.isFull v.T)
          level hp acc.slabIDs) = none := by
        refine HS.2 ⟨hfr, b1, b2, fun hl => (b3 hl).1, fun hl => ?_, ?_, hhp⟩
        · exact (isUnderflow_none_iff v.T s.hdr.size).2 (b3 hl).2
        · simp only [DataSlab.isFull, decide_eq_false_iff_not]; omega
      rw [this] at hc; cases hc
    | none =>
      obtain ⟨c1, c2, c3, c4, c5, c6, c7⟩ := HS.1 hc
      simp only
      rw [verifyDataSlab_ok, HD]
      have c5' : 0 < level → minThr v.T ≤ s.hdr.size := fun hl =>
        (isUnderflow_none_iff v.T s.hdr.size).1 (c5 hl)
      have c6' : s.hdr.size ≤ maxThr v.T := by
        simp only [DataSlab.isFull, decide_eq_false_iff_not] at c6; omega
      constructor
      · rintro ⟨⟨d1, d2, d3, d4⟩, hr⟩
        exact ⟨⟨⟨c2, c3, fun hl => ⟨c4 hl, c5' hl⟩, c6', d1, d2, d3, d4⟩, c7, c1, fresh_nil _⟩, hr⟩
      · rintro ⟨⟨⟨_, _, _, _, d1, d2, d3, d4⟩, _⟩, hr⟩
        exact ⟨⟨d1, d2, d3, d4⟩, hr⟩
  | d + 1, t, level, hp, acc, r, hal => by
    revert hal; refine forall_ofMeta ?_ t; intro m hal
    obtain ⟨hlen, halc⟩ := (aligned_succ d m).1 hal
    rw [verifySlab_succ]
    unfold SlabOk
    rw [checked_succ, slabIds_succ, fresh_cons, hdr_succ, extend_succ]
    have HS := slabChecks_none v m.hdr false m.root (m.isUnderflow v.T) (m.isFull v.T) level hp
      acc.slabIDs
    have IH := fun c hp acc r hc => verifySlab_ok v d c (level + 1) hp acc r hc
    have HM := verifyMetaDataSlab_ok v d level IH m
      { acc with slabIDs := acc.slabIDs ++ [m.hdr.id] } r hlen halc
    cases hc : firstErr (slabChecks v m.hdr false m.root (m.isUnderflow v.T) (m.isFull v.T)
        level hp acc.slabIDs) with
    | some e =>
      simp only [reduceCtorEq, false_iff]
      rintro ⟨⟨⟨b1, b2, b3, b4, b5, b6, b7, b8, b9⟩, hhp, hfr, _⟩, _⟩
      have : firstErr (slabChecks v m.hdr false m.root (m.isUnderflow v.T) (m.isFull v.T)
          level hp acc.slabIDs) = none := by
        refine HS.2 ⟨hfr, b1, by simp, fun hl => (b2 hl).1, fun hl => ?_, ?_, hhp⟩
        · exact (isUnderflow_none_iff v.T m.hdr.size).2 (b2 hl).2
        · simp only [MetaSlab.isFull, decide_eq_false_iff_not]; omega
      rw [this] at hc; cases hc
    | none =>
      obtain ⟨c1, c2, _, c4, c5, c6, c7⟩ := HS.1 hc
      simp only
      rw [HM]
      have c5' : 0 < level → minThr v.T ≤ m.hdr.size := fun hl =>
        (isUnderflow_none_iff v.T m.hdr.size).1 (c5 hl)
      have c6' : m.hdr.size ≤ maxThr v.T := by
        simp only [MetaSlab.isFull, decide_eq_false_iff_not] at c6; omega
      constructor
      · rintro ⟨d1, d2, d3, d4, d5, d6, d7, hr⟩
        exact ⟨⟨⟨c2, fun hl => ⟨c4 hl, c5' hl⟩, c6', d1, d2, d3, d4, d5, d6⟩, c7, c1, d7⟩, hr⟩
      · rintro ⟨⟨⟨_, _, _, d1, d2, d3, d4, d5, d6⟩, _, _, d7⟩, hr⟩
        exact ⟨d1, d2, d3, d4, d5, d6, d7, hr⟩

/-! ### the root -/

theorem rootChecks_none (v : AVerifier) (typeInfo : Option Nat) (a : Arr) :
    firstErr (rootChecks v typeInfo a) = none ↔
      a.addr = v.address ∧ (a.isInlined = false → a.rootID ≠ SlabID.undef) ∧
      isRoot a.d a.root = true ∧ (∀ ty, typeInfo = some ty → a.ty = ty) := by
  unfold rootChecks
  simp only [firstErr_cons_eq_none, firstErr_nil, and_true]
  constructor
  · rintro ⟨h1, h2, h3, h4⟩
    refine ⟨?_, ?_, ?_, ?_⟩
    · simp only [decide_eq_false_iff_not, ne_eq, Decidable.not_not] at h1; exact h1.symm
    · intro hi; rw [hi] at h2; simpa using h2
    · simpa using h3
    · intro ty hty; subst hty
      simp only [decide_eq_false_iff_not, ne_eq, Decidable.not_not] at h4; exact h4
  · rintro ⟨h1, h2, h3, h4⟩
    refine ⟨by simp [h1], ?_, by simp [h3], ?_⟩
    · cases hi : a.isInlined with
      | true => rfl
      | false => simpa using h2 hi
    · cases typeInfo with
      | none => rfl
      | some ty => simp [h4 ty rfl]

/-- For a legal threshold a subtree that passed the local checks has at least one data slab:
    a non-root index slab without children would underflow. -/
theorem leaves_ne_nil_of_checked (v : AVerifier) (hT : legalThreshold v.T = true) :
    ∀ (d level : Nat) (t : ATree d), Checked v d level t → Arr.leaves d t ≠ []
  | 0, level, t, _ => by
    refine forall_ofData ?_ t; intro s; simp
  | d + 1, level, t, h => by
    revert h; refine forall_ofMeta ?_ t; intro m h
    obtain ⟨_, b2, _, b4, b5, _, _, b8, b9⟩ := (checked_succ v d level m).1 h
    have F := thrFacts hT
    have hlen : m.childHdrs.length = m.children.length := by rw [b5]; simp
    have hpos : 1 ≤ m.children.length := by
      rcases Nat.eq_zero_or_pos level with hl | hl
      · have := b4 hl; omega
      · have := (b2 hl).2
        rw [b8, F.mpfx, F.hsz, F.minE] at this
        have := F.lo
        omega
    match hc : m.children with
    | [] => rw [hc] at hpos; simp at hpos
    | c :: cs =>
      have hck : Checked v d (level + 1) c := b9 c (by simp [hc])
      have := leaves_ne_nil_of_checked v hT d (level + 1) c hck
      simp only [leaves_succ, hc, List.flatMap_cons, ne_eq, List.append_eq_nil_iff, not_and]
      intro h1; exact absurd h1 this

theorem chainCheck_ok (ds ns : List SlabID) :
    chainCheck ds ns = .ok () ↔ ds ≠ [] ∧ ds.tail = ns := by
  unfold chainCheck
  cases ds with
  | nil => simp
  | cons x rest =>
    by_cases h : rest = ns
    · simp [h]
    · simp [h]

/-- `verifyArray` returns `ok` exactly on the trees that satisfy `ArrVerified`. -/
theorem verifyArray_ok_iff (v : AVerifier) (hT : legalThreshold v.T = true) (typeInfo : Option Nat)
    (a : Arr) (hal : Aligned a.d a.root) :
    verifyArray v typeInfo a = .ok () ↔ ArrVerified v typeInfo a := by
  unfold verifyArray
  have HR := rootChecks_none v typeInfo a
  cases hc : firstErr (rootChecks v typeInfo a) with
  | some e =>
    simp only [reduceCtorEq, false_iff]
    intro h
    rw [HR.2 ⟨h.addr, h.root_id, h.extra, h.type_ok⟩] at hc; cases hc
  | none =>
    obtain ⟨r1, r2, r3, r4⟩ := HR.1 hc
    simp only
    have HS := verifySlab_ok v a.d a.root 0 none ⟨[], [], []⟩
    cases hres : verifySlab v a.d a.root 0 none ⟨[], [], []⟩ with
    | error e =>
      simp only [reduceCtorEq, false_iff]
      intro h
      have := (HS _ hal).2 ⟨⟨h.tree, by simp, by simpa [Fresh] using h.ids_nodup⟩, rfl⟩
      rw [this] at hres; cases hres
    | ok r =>
      obtain ⟨⟨hck, _, hfr⟩, hr⟩ := (HS r hal).1 hres
      subst hr
      simp only
      rw [if_neg (by simp [Arr.count, Arr.rootHdr]), chainCheck_ok]
      simp only [extend, List.nil_append]
      have hne : leafIds a.d a.root ≠ [] := by
        have := leaves_ne_nil_of_checked v hT a.d 0 a.root hck
        simpa [leafIds] using this
      constructor
      · rintro ⟨_, hch⟩
        exact ⟨r1, r2, r3, r4, hck, hfr.2, hch⟩
      · intro h; exact ⟨hne, h.chain⟩

/-! ### from the invariant to the verifier's predicate and back -/

theorem isRoot_zero (s : DataSlab) : isRoot 0 (ofData s) = s.root := rfl
theorem isRoot_succ (d : Nat) (m : MetaSlab (ATree d)) : isRoot (d + 1) (ofMeta m) = m.root := rfl

theorem isRoot_of_treeInv {T : Nat} : ∀ (d : Nat) (top : Bool) (t : ATree d),
    TreeInv T d top t → isRoot d t = top
  | 0, top, t, h => by
    revert h; refine forall_ofData ?_ t; intro s h
    exact ((treeInv_zero T top s).1 h).root_eq
  | d + 1, top, t, h => by
    revert h; refine forall_ofMeta ?_ t; intro m h
    exact ((treeInv_succ T d top m).1 h).1.root_eq

theorem aligned_of_treeInv {T : Nat} : ∀ (d : Nat) (top : Bool) (t : ATree d),
    TreeInv T d top t → Aligned d t
  | 0, _, _, _ => trivial
  | d + 1, top, t, h => by
    revert h; refine forall_ofMeta ?_ t; intro m h
    have hs := ((treeInv_succ T d top m).1 h).1
    exact (aligned_succ d m).2 ⟨hs.hdrs_length.symm, fun c hc => aligned_of_treeInv d false c (hs.kids_inv c hc)⟩

/-- every state the invariant describes passes the local checks -/
theorem checked_of_treeInv (v : AVerifier) : ∀ (d level : Nat) (top : Bool) (t : ATree d),
    TreeInv v.T d top t → NotInl d t → (top = true ↔ level = 0) → (hdr d t).id.addr = v.address →
    Checked v d level t
  | 0, level, top, t, h, hni, htop, haddr => by
    revert h hni haddr; refine forall_ofData ?_ t; intro s h hni haddr
    have h := (treeInv_zero v.T top s).1 h
    have hni : s.inlined = false := hni
    rw [checked_zero]
    refine ⟨haddr, by simp [hni], ?_, h.le_max, h.count_eq, by simp [hni], ?_, fun e he => (h.elems_ok e he).2⟩
    · intro hl
      have : top = false := by
        cases top with
        | false => rfl
        | true => have := htop.1 rfl; omega
      exact ⟨by rw [h.root_eq, this], h.ge_min this⟩
    · rw [h.size_eq]
      unfold DataSlab.prefixSize dataPrefixAt
      rw [hni, h.root_eq]
      cases top with
      | true => simp [htop.1 rfl]
      | false =>
        have : level ≠ 0 := fun hl => by have := htop.2 hl; cases this
        simp [this]
  | d + 1, level, top, t, h, _, htop, haddr => by
    revert h haddr; refine forall_ofMeta ?_ t; intro m h haddr
    obtain ⟨hs, hmax, hmin, hkids⟩ := (treeInv_succ v.T d top m).1 h
    rw [checked_succ]
    have hlen := hs.hdrs_length
    refine ⟨haddr, ?_, hmax, ?_, hs.hdrs_eq, hs.sums_eq, hs.count_eq, by rw [hs.size_eq, hlen], ?_⟩
    · intro hl
      have : top = false := by
        cases top with
        | false => rfl
        | true => have := htop.1 rfl; omega
      exact ⟨by rw [hs.root_eq, this], hmin this⟩
    · intro hl; rw [hlen]; exact hkids (htop.2 hl)
    · intro c hc
      refine checked_of_treeInv v d (level + 1) false c (hs.kids_inv c hc)
        (hs.kids_inv c hc).notInl_of_false (by simp) ?_
      rw [hs.kids_addr c hc]; exact haddr

theorem leafIds_subset_slabIds : ∀ (d : Nat) (t : ATree d), ∀ id ∈ leafIds d t, id ∈ slabIds d t
  | 0, t => by
    refine forall_ofData ?_ t; intro s id hid
    simpa [leafIds_zero] using hid
  | d + 1, t => by
    refine forall_ofMeta ?_ t; intro m id hid
    rw [leafIds_succ] at hid
    obtain ⟨c, hc, hid⟩ := List.mem_flatMap.1 hid
    rw [slabIds_succ]
    exact List.mem_cons_of_mem _ (List.mem_flatMap.2 ⟨c, hc, leafIds_subset_slabIds d c id hid⟩)

/-- a complete leaf chain over defined IDs passes the verifier's comparison of the link lists -/
theorem chain_of_leafChain : ∀ (l : List DataSlab), LeafChain l → (∀ s ∈ l, s.hdr.id ≠ SlabID.undef) →
    (l.map (·.hdr.id)).tail = definedNexts l
  | [], _, _ => rfl
  | [s], h, _ => by
    have h : s.next = SlabID.undef := h
    simp [definedNexts, h]
  | s :: t :: rest, h, hid => by
    obtain ⟨h1, h2⟩ : s.next = t.hdr.id ∧ LeafChain (t :: rest) := h
    have ih := chain_of_leafChain (t :: rest) h2 (fun x hx => hid x (List.mem_cons_of_mem _ hx))
    have ht : t.hdr.id ≠ SlabID.undef := hid t (by simp)
    simp only [List.map_cons, List.tail_cons] at ih ⊢
    simp only [definedNexts, List.map_cons] at ih ⊢
    rw [List.filter_cons_of_pos (by simp [h1, ht]), ← ih, h1]

theorem checked_addr (v : AVerifier) : ∀ (d level : Nat) (t : ATree d), Checked v d level t →
    ∀ id ∈ slabIds d t, id.addr = v.address
  | 0, level, t, h => by
    revert h; refine forall_ofData ?_ t; intro s h id hid
    simp only [slabIds_zero, List.mem_singleton] at hid
    rw [hid]; exact ((checked_zero v level s).1 h).1
  | d + 1, level, t, h => by
    revert h; refine forall_ofMeta ?_ t; intro m h id hid
    have h := (checked_succ v d level m).1 h
    simp only [slabIds_succ, List.mem_cons, List.mem_flatMap] at hid
    rcases hid with rfl | ⟨c, hc, hid⟩
    · exact h.1
    · exact checked_addr v d (level + 1) c (h.2.2.2.2.2.2.2.2 c hc) id hid

/-- the local checks, plus what they do not cover (element sizes positive, nothing inlined),
    give back the tree invariant -/
theorem treeInv_of_checked (v : AVerifier) : ∀ (d level : Nat) (top : Bool) (t : ATree d),
    Checked v d level t → (top = true ↔ level = 0) → isRoot d t = top → NotInl d t →
    (∀ e ∈ flatten d t, 1 ≤ e.size) → TreeInv v.T d top t
  | 0, level, top, t, h, htop, hroot, hni, hpos => by
    revert h hroot hni hpos; refine forall_ofData ?_ t; intro s h hroot hni hpos
    obtain ⟨_, _, b3, b4, b5, _, b7, b8⟩ := (checked_zero v level s).1 h
    have hni : s.inlined = false := hni
    have hroot : s.root = top := hroot
    rw [treeInv_zero]
    refine ⟨b5, ?_, fun e he => ⟨hpos e he, b8 e he⟩, hroot, by simp [hni], b4, ?_⟩
    · rw [b7]
      unfold DataSlab.prefixSize dataPrefixAt
      rw [hni, hroot]
      cases top with
      | true => simp [htop.1 rfl]
      | false =>
        have : level ≠ 0 := fun hl => by have := htop.2 hl; cases this
        simp [this]
    · intro ht
      have : 0 < level := by
        rcases Nat.eq_zero_or_pos level with hl | hl
        · have := htop.2 hl; rw [ht] at this; cases this
        · exact hl
      exact (b3 this).2
  | d + 1, level, top, t, h, htop, hroot, _, hpos => by
    revert h hroot hpos; refine forall_ofMeta ?_ t; intro m h hroot hpos
    obtain ⟨b1, b2, b3, b4, b5, b6, b7, b8, b9⟩ := (checked_succ v d level m).1 h
    have hroot : m.root = top := hroot
    have hlen : m.childHdrs.length = m.children.length := by rw [b5]; simp
    rw [treeInv_succ]
    refine ⟨⟨hroot, b5, b6, b7, by rw [b8, hlen], ?_, ?_⟩, b3, ?_, ?_⟩
    · intro c hc
      have hck := b9 c hc
      have hcroot : isRoot d c = false := by
        cases d with
        | zero =>
          revert hck; refine forall_ofData ?_ c; intro s hck
          exact (((checked_zero v (level + 1) s).1 hck).2.2.1 (by omega)).1
        | succ d =>
          revert hck; refine forall_ofMeta ?_ c; intro m' hck
          exact (((checked_succ v d (level + 1) m').1 hck).2.1 (by omega)).1
      have hcni : NotInl d c := by
        cases d with
        | zero =>
          revert hck; refine forall_ofData ?_ c; intro s hck
          have h6 := ((checked_zero v (level + 1) s).1 hck).2.2.2.2.2.1
          show s.inlined = false
          cases hi : s.inlined with
          | false => rfl
          | true => have := (h6 hi).1; omega
        | succ d => trivial
      refine treeInv_of_checked v d (level + 1) false c hck (by simp) hcroot hcni ?_
      intro e he
      exact hpos e (by rw [flatten_succ]; exact List.mem_flatMap.2 ⟨c, hc, he⟩)
    · intro c hc
      rw [b1]
      exact checked_addr v d (level + 1) c (b9 c hc) _ (hdr_id_mem_slabIds d c)
    · intro ht
      have : 0 < level := by
        rcases Nat.eq_zero_or_pos level with hl | hl
        · have := htop.2 hl; rw [ht] at this; cases this
        · exact hl
      exact (b2 this).2
    · intro ht; rw [← hlen]; exact b4 (htop.1 ht)

theorem undef_idx : SlabID.undef.idx = 0 := rfl

/-- `ArrInv` implies everything `VerifyArray` checks. -/
theorem arrVerified_of_arrInv {T : Nat} {a : Arr} {ctr : Nat} (h : ArrInv T a ctr) (v : AVerifier)
    (hvT : v.T = T) (hva : v.address = a.addr) (typeInfo : Option Nat)
    (hty : ∀ ty, typeInfo = some ty → a.ty = ty) : ArrVerified v typeInfo a := by
  obtain ⟨d, t, ty0⟩ := a
  subst hvT
  have hni : NotInl d t := h.notInl
  have hidne : ∀ id ∈ slabIds d t, id ≠ SlabID.undef := by
    intro id hid heq
    have := (h.ids.2 id hid).2.1
    rw [heq, undef_idx] at this; omega
  refine ⟨hva.symm, fun _ => hidne _ (hdr_id_mem_slabIds d t), isRoot_of_treeInv d true t h.tree, hty,
    checked_of_treeInv v d 0 true t h.tree hni (by simp) hva.symm, h.ids.1, ?_⟩
  show (leafIds d t).tail = definedNexts (Arr.leaves d t)
  refine chain_of_leafChain (Arr.leaves d t) h.chain ?_
  intro s hs
  exact hidne _ (leafIds_subset_slabIds d t _ (List.mem_map.2 ⟨s, hs, rfl⟩))

/-- What `VerifyArray` checks, together with the five facts it does not check, is `ArrInv`. -/
theorem arrInv_of_arrVerified {v : AVerifier} {typeInfo : Option Nat} {a : Arr} {ctr : Nat}
    (h : ArrVerified v typeInfo a) (hpos : ElemsPos a) (hchain : LeafChain (Arr.leaves a.d a.root))
    (hidx : ∀ id ∈ slabIds a.d a.root, 1 ≤ id.idx ∧ id.idx ≤ ctr) (hst : a.isInlined = false)
    (hcnt : a.count < maxArrayElementCount + 1) : ArrInv v.T a ctr := by
  obtain ⟨d, t, ty0⟩ := a
  have hni : NotInl d t := (isInlined_iff d t ty0).1 hst
  refine ⟨treeInv_of_checked v d 0 true t h.tree (by simp) h.extra hni hpos, hchain, ⟨h.ids_nodup, ?_⟩,
    hst, hcnt⟩
  intro id hid
  refine ⟨?_, hidx id hid⟩
  rw [checked_addr v d 0 t h.tree id hid]
  exact h.addr.symm

/-- whatever the tree: the count `verifySlab` returns is the slab's own header count -/
theorem verifySlab_count (v : AVerifier) : ∀ (d : Nat) (t : ATree d) (level : Nat) (hp : Option Hdr)
    (acc : AVAcc) (r : Nat × AVAcc), verifySlab v d t level hp acc = .ok r → r.1 = (hdr d t).count
  | 0, t, level, hp, acc, r, h => by
    revert h; refine forall_ofData ?_ t; intro s h
    rw [verifySlab_zero] at h
    split at h
    · cases h
    · unfold verifyDataSlab at h
      split at h
      · cases h
      · cases h; rfl
  | d + 1, t, level, hp, acc, r, h => by
    revert h; refine forall_ofMeta ?_ t; intro m h
    rw [verifySlab_succ] at h
    split at h
    · cases h
    · unfold verifyMetaDataSlab at h
      split at h
      · cases h
      · split at h
        · cases h
        · split at h
          · cases h
          · split at h
            · cases h
            · split at h
              · cases h
              · cases h; rfl

theorem firstErr_some_mem {ε : Type} : ∀ (l : List (Bool × ε)) (e : ε), firstErr l = some e →
    ∃ p ∈ l, p.2 = e
  | [], e, h => by cases h
  | (c, e') :: rest, e, h => by
    unfold firstErr at h
    split at h
    · cases h; exact ⟨(c, e'), by simp, rfl⟩
    · obtain ⟨p, hp, hpe⟩ := firstErr_some_mem rest e h
      exact ⟨p, by simp [hp], hpe⟩

/-- the errors of the loop are those of the recursive call, `slabNotFound`, `goPanic` and
    `countSumWrong` -/
theorem verifyChildren_error {α : Type} (P : AVErr → Prop) (f : α → Hdr → AVAcc → AVRes)
    (hf : ∀ c h acc e, f c h acc = .error e → P e) (h1 : P .slabNotFound) (h2 : P .goPanic)
    (h3 : P .countSumWrong) :
    ∀ (hs : List Hdr) (cs : List α) (sums : List Nat) (k : Nat) (acc : AVAcc) (e : AVErr),
      verifyChildren f hs cs sums k acc = .error e → P e
  | [], _, _, _, _, e, h => by simp [verifyChildren] at h
  | _ :: _, [], _, _, _, e, h => by simp only [verifyChildren] at h; cases h; exact h1
  | hd :: hs, c :: cs, sums, k, acc, e, h => by
    simp only [verifyChildren] at h
    split at h
    · rename_i e' he'
      cases h; exact hf _ _ _ _ he'
    · split at h
      · cases h; exact h2
      · split at h
        · cases h; exact h3
        · exact verifyChildren_error P f hf h1 h2 h3 hs cs _ _ _ e h

theorem verifySlab_ne_rootCountWrong (v : AVerifier) : ∀ (d : Nat) (t : ATree d) (level : Nat)
    (hp : Option Hdr) (acc : AVAcc) (e : AVErr), verifySlab v d t level hp acc = .error e →
    e ≠ .rootCountWrong
  | 0, t, level, hp, acc, e, h => by
    revert h; refine forall_ofData ?_ t; intro s h
    rw [verifySlab_zero] at h
    split at h
    · rename_i e' he'
      cases h
      obtain ⟨p, hp', rfl⟩ := firstErr_some_mem _ _ he'
      simp only [slabChecks, List.mem_cons, List.not_mem_nil, or_false] at hp'
      rcases hp' with rfl | rfl | rfl | rfl | rfl | rfl | rfl <;> simp
    · unfold verifyDataSlab at h
      split at h
      · rename_i e' he'
        cases h
        obtain ⟨p, hp', rfl⟩ := firstErr_some_mem _ _ he'
        simp only [dataChecks, List.mem_cons, List.not_mem_nil, or_false] at hp'
        rcases hp' with rfl | rfl | rfl | rfl | rfl | rfl <;> simp
      · cases h
  | d + 1, t, level, hp, acc, e, h => by
    revert h; refine forall_ofMeta ?_ t; intro m h
    rw [verifySlab_succ] at h
    split at h
    · rename_i e' he'
      cases h
      obtain ⟨p, hp', rfl⟩ := firstErr_some_mem _ _ he'
      simp only [slabChecks, List.mem_cons, List.not_mem_nil, or_false] at hp'
      rcases hp' with rfl | rfl | rfl | rfl | rfl | rfl | rfl <;> simp
    · unfold verifyMetaDataSlab at h
      split at h
      · cases h; simp
      · split at h
        · cases h; simp
        · split at h
          · rename_i e' he'
            cases h
            exact verifyChildren_error (· ≠ .rootCountWrong) _
              (fun c hh acc e he => verifySlab_ne_rootCountWrong v d c (level + 1) (some hh) acc e he)
              (by simp) (by simp) (by simp) _ _ _ _ _ _ he'
          · split at h
            · cases h; simp
            · split at h
              · cases h; simp
              · cases h

/-- The check "root slab %d count %d is wrong" of `verifyArray` is DEAD: `computedCount` is the
    root's header count by construction, and `a.Count()` reads the same field. -/
theorem verifyArray_ne_rootCountWrong (v : AVerifier) (typeInfo : Option Nat) (a : Arr) :
    verifyArray v typeInfo a ≠ .error .rootCountWrong := by
  unfold verifyArray
  split
  · rename_i e he
    intro h
    cases h
    obtain ⟨p, hp', hpe⟩ := firstErr_some_mem _ _ he
    simp only [rootChecks, List.mem_cons, List.not_mem_nil, or_false] at hp'
    rcases hp' with rfl | rfl | rfl | rfl <;> simp at hpe
  · split
    · rename_i e he
      intro h; cases h
      exact verifySlab_ne_rootCountWrong v a.d a.root 0 none _ _ he rfl
    · rename_i n acc he
      have := verifySlab_count v a.d a.root 0 none _ _ he
      rw [if_neg (by simpa [Arr.count, Arr.rootHdr] using this)]
      unfold chainCheck
      split
      · intro h; cases h
      · split <;> intro h <;> cases h

/-- under the invariant every element of the array respects `ElemOk` -/
theorem elemOk_of_treeInv {T : Nat} : ∀ (d : Nat) (top : Bool) (t : ATree d), TreeInv T d top t →
    ∀ e ∈ flatten d t, ElemOk T e
  | 0, top, t, h => by
    revert h; refine forall_ofData ?_ t; intro s h e he
    exact ((treeInv_zero T top s).1 h).elems_ok e he
  | d + 1, top, t, h => by
    revert h; refine forall_ofMeta ?_ t; intro m h e he
    rw [flatten_succ] at he
    obtain ⟨c, hc, he⟩ := List.mem_flatMap.1 he
    exact elemOk_of_treeInv d false c (((treeInv_succ T d top m).1 h).1.kids_inv c hc) e he

end Atree.Verify
