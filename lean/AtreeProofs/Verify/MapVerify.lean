import AtreeModel.Verify.Map
import AtreeProofs.Verify.ArrayVerify
import AtreeProofs.MapLemmas
import AtreeProofs.Map.TreeBasics
import AtreeProofs.Map.Example
/-
  Helper lemmas relating the transcription of `VerifyMap` (`AtreeModel/Verify/Map.lean`) to the map
  invariant `MapInv`: every state the invariant describes is accepted.  Property-level statements
  are in `AtreeProofs/Props/C05VerifyMap.lean`.
-/
namespace Atree.Verify
open Atree Gen

/-! ### sortedness checks -/

theorem sliceIsSorted_of_pairwise : ∀ (l : List Nat), l.Pairwise (· < ·) → sliceIsSorted l = true
  | [], _ => rfl
  | [_], _ => rfl
  | a :: b :: rest, h => by
    have hab : a < b := (List.pairwise_cons.1 h).1 b (by simp)
    have ht := sliceIsSorted_of_pairwise (b :: rest) (List.pairwise_cons.1 h).2
    simp only [sliceIsSorted, ht, Bool.and_true, Bool.not_eq_true', decide_eq_false_iff_not]
    omega

theorem hasAdjacentDup_of_pairwise : ∀ (l : List Nat), l.Pairwise (· < ·) → hasAdjacentDup l = false
  | [], _ => rfl
  | [_], _ => rfl
  | a :: b :: rest, h => by
    have hab : a < b := (List.pairwise_cons.1 h).1 b (by simp)
    have ht := hasAdjacentDup_of_pairwise (b :: rest) (List.pairwise_cons.1 h).2
    simp only [hasAdjacentDup, ht, Bool.or_false, decide_eq_false_iff_not]
    omega

/-! ### the element layer -/

section Elements
variable {T L : Nat} {D : DigestFn L} {v : MVerifier}

/-- the verifier is set up for the threshold and the digester of the invariant -/
structure VFor (v : MVerifier) (T L : Nat) (D : DigestFn L) : Prop where
  hT : legalThreshold T = true
  vT : v.T = T
  vL : v.L = L
  vdg : v.dg = D.dg

theorem verifySingleElement_ok (hv : VFor v T L D) (x : SElem) (digests : List Nat) (n : Nat)
    (hx : SElemOk T L D x) (hd : x.key.digs.take n = digests) (hn : n ≤ L) :
    verifySingleElement v x digests = .ok (x.size, L) := by
  obtain ⟨⟨hk1, _, hk3⟩, _, hv3, hsz⟩ := hx
  have hlen : x.key.digs.length = L := by rw [hk1]; exact D.len _
  have hdl : digests.length = n := by rw [← hd, List.length_take, hlen]; omega
  unfold verifySingleElement
  simp only [hv.vT, hv.vdg, hv.vL]
  rw [← hk1]
  have hfe : firstErr
      [(decide (x.key.size > maxInlineMapKey T), MVErr.keyTooLarge),
       (decide (x.val.size > maxInlineMapValue T x.key.size), MVErr.valueTooLarge),
       (decide (singleElementPrefixSize + x.key.size + x.val.size ≠ x.size), MVErr.singleElementSizeWrong),
       (decide (digests.length > x.key.digs.length), MVErr.goPanic),
       (decide (digests ≠ x.key.digs.take digests.length), MVErr.digestWrong)] = none := by
    simp only [firstErr_cons_eq_none, firstErr_nil, and_true, decide_eq_false_iff_not, Nat.not_lt,
      ne_eq, Decidable.not_not]
    refine ⟨hk3, hv3, hsz.symm, by omega, ?_⟩
    rw [hdl, hd]
  rw [hfe, hsz]

theorem verifySingleLoop_ok (hv : VFor v T L D) (level : Nat) (path : List Nat) (hl : level = L) :
    ∀ (elems : List SElem) (acc : Nat),
      (∀ x ∈ elems, SElemOk T L D x ∧ x.key.digs.take level = path) →
      verifySingleLoop v level path elems acc = .ok (acc + (elems.map (·.size)).sum)
  | [], acc, _ => by simp [verifySingleLoop]
  | x :: xs, acc, h => by
    obtain ⟨hx, hp⟩ := h x (by simp)
    have h1 := verifySingleElement_ok hv x path level hx hp (by omega)
    unfold verifySingleLoop
    rw [h1]
    simp only
    have hle : x.size ≤ maxInlineMapElem T := by
      obtain ⟨⟨_, _, hk3⟩, _, hv3, hsz⟩ := hx
      rw [hsz]; exact single_size_le hv.hT hk3 hv3
    rw [if_neg (by rw [hv.vT]; omega), if_neg (by simp [hl])]
    rw [verifySingleLoop_ok hv level path hl xs (acc + x.size) (fun y hy => h y (by simp [hy]))]
    simp only [List.map_cons, List.sum_cons, Nat.add_assoc]

/-- what the digest-table loop needs of one element (`MElemOk` plus the result of the recursive
    call on a group) -/
theorem verifyHkeyLoop_ok (hv : VFor v T L D) {α : Type} (o : ElemsOps α)
    (Inv : Nat → List Nat → α → Prop) (vg : α → Nat → List Nat → EVRes) (level : Nat) (path : List Nat)
    (hlev : level < L)
    (hvg : ∀ g hk, Inv (level + 1) (path ++ [hk]) g →
      vg g (level + 1) (path ++ [hk]) = .ok ((o.toList g).length, o.size g)) :
    ∀ (es : List (MElemF α)) (hks : List Nat) (cnt sz : Nat), hks.length = es.length →
      (∀ (i hk : Nat) (el : MElemF α), hks[i]? = some hk → es[i]? = some el → MElemOk T L D o Inv level path hk el) →
      (level = 0 → ∀ el ∈ es, MElemF.size o el ≤ maxInlineMapElem T) →
      verifyHkeyLoop v vg o.size level path hks es cnt sz =
        .ok (cnt + (es.flatMap (fun el => el.toList o)).length, sz + HkeyElems.elemSizes o es)
  | [], hks, cnt, sz, _, _, _ => by
    cases hks <;> simp [verifyHkeyLoop, HkeyElems.elemSizes]
  | e :: es, [], _, _, hlen, _, _ => by simp at hlen
  | e :: es, hk :: hks, cnt, sz, hlen, hel, hlim => by
    have hlen' : hks.length = es.length := by simpa using hlen
    have hel' : ∀ (i hk' : Nat) (el : MElemF α), hks[i]? = some hk' → es[i]? = some el →
        MElemOk T L D o Inv level path hk' el := fun i hk' el h1 h2 => hel (i + 1) hk' el (by simpa using h1) (by simpa using h2)
    have hlim' : level = 0 → ∀ el ∈ es, MElemF.size o el ≤ maxInlineMapElem T :=
      fun h0 el hm => hlim h0 el (by simp [hm])
    have he : MElemOk T L D o Inv level path hk e := hel 0 hk e (by simp) (by simp)
    have hsz0 : level = 0 → MElemF.size o e ≤ maxInlineMapElem T := fun h0 => hlim h0 e (by simp)
    have IH := fun cnt sz => verifyHkeyLoop_ok hv o Inv vg level path hlev hvg es hks cnt sz hlen' hel' hlim'
    unfold verifyHkeyLoop
    cases e with
    | single x =>
      obtain ⟨hx, hp⟩ := he
      have hsz0' : level = 0 → x.size ≤ maxInlineMapElem T := hsz0
      simp only
      rw [if_neg (by rw [hv.vT]; intro ⟨h0, hgt⟩; have := hsz0' h0; omega)]
      rw [verifySingleElement_ok hv x (path ++ [hk]) (level + 1) hx hp (by omega)]
      simp only
      rw [if_neg (by omega), IH]
      simp only [List.flatMap_cons, MElemF.toList, List.length_append, List.length_cons, List.length_nil,
        HkeyElems.elemSizes, List.map_cons, List.sum_cons, MElemF.size, Except.ok.injEq, Prod.mk.injEq]
      omega
    | inl g =>
      obtain ⟨hg, _, _, _⟩ := he
      have hsz0' : level = 0 → inlineCollisionGroupPrefixSize + o.size g ≤ maxInlineMapElem T := hsz0
      simp only
      rw [if_neg (by rw [hv.vT]; intro ⟨h0, hgt⟩; have := hsz0' h0; omega)]
      rw [hvg g hk hg]
      simp only
      rw [if_neg (by omega), IH]
      simp only [List.flatMap_cons, MElemF.toList, List.length_append,
        HkeyElems.elemSizes, List.map_cons, List.sum_cons, MElemF.size, Except.ok.injEq, Prod.mk.injEq]
      omega
    | ext id esz slab =>
      obtain ⟨_, hesz, _, _, _, hg, _, _⟩ := he
      have hsz0' : level = 0 → esz ≤ maxInlineMapElem T := hsz0
      simp only
      rw [if_neg (by rw [hv.vT]; intro ⟨h0, hgt⟩; have := hsz0' h0; omega)]
      rw [hvg slab.elems hk hg]
      simp only
      rw [if_neg (by rw [hesz, slabIDStorableSize_eq]; simp), IH]
      simp only [List.flatMap_cons, MElemF.toList, List.length_append,
        HkeyElems.elemSizes, List.map_cons, List.sum_cons, MElemF.size, Except.ok.injEq, Prod.mk.injEq]
      omega

/-- a digest table that satisfies `HInv` passes `verifyHkeyElements` -/
theorem verifyHkeyElements_ok (hv : VFor v T L D) {α : Type} (o : ElemsOps α)
    (Inv : Nat → List Nat → α → Prop) (vg : α → Nat → List Nat → EVRes) (rr level : Nat) (path : List Nat)
    (he : HkeyElems α) (h : HInv T L D o Inv rr level path he)
    (hvg : ∀ g hk, Inv (level + 1) (path ++ [hk]) g →
      vg g (level + 1) (path ++ [hk]) = .ok ((o.toList g).length, o.size g))
    (hlim : level = 0 → ∀ el ∈ he.elems, MElemF.size o el ≤ maxInlineMapElem T) :
    verifyHkeyElements v vg o.size he level path =
      .ok ((he.elems.flatMap (fun el => el.toList o)).length, he.size) := by
  obtain ⟨h1, h2, h3, h4, h5, h6⟩ := h
  unfold verifyHkeyElements
  have hfe : firstErr
      [(decide (level ≠ he.level), MVErr.hkeyLevelWrong),
       (decide (he.hkeys.length ≠ he.elems.length), MVErr.hkeysCountWrong),
       (!sliceIsSorted he.hkeys, MVErr.hkeysNotSorted),
       (hasAdjacentDup he.hkeys, MVErr.hkeysNotUnique)] = none := by
    simp only [firstErr_cons_eq_none, firstErr_nil, and_true, decide_eq_false_iff_not, ne_eq,
      Decidable.not_not, Bool.not_eq_false']
    exact ⟨h2.symm, h3, sliceIsSorted_of_pairwise _ h4, hasAdjacentDup_of_pairwise _ h4⟩
  rw [hfe]
  simp only
  rw [verifyHkeyLoop_ok hv o Inv vg level path (by omega) hvg he.elems he.hkeys 0 hkeyElementsPrefixSize h3 h6 hlim]
  simp only [Nat.zero_add]
  rw [if_neg (by rw [h5]; simp)]
  rw [h5]

/-- nested `elements` (inside a collision group) that satisfy the invariant pass `verifyElements` -/
theorem verifyElements_ok (hv : VFor v T L D) : ∀ (r level : Nat) (path : List Nat) (e : MElems r),
    ElemsInv T L D r level path e → 1 ≤ level →
    verifyElements v r e level path = .ok (((MElems.ops r).toList e).length, (MElems.ops r).size e)
  | 0, level, path, e, h, _ => by
    have e' : SingleElems := e
    have h' : ElemsInv T L D 0 level path (e : SingleElems) := h
    simp only [ElemsInv] at h'
    obtain ⟨h1, h2, h3, h4, _⟩ := h'
    show verifySingleElements v e level path = _
    unfold verifySingleElements
    rw [if_neg (by simp [h2]), verifySingleLoop_ok hv level path h1 _ _ h4]
    simp only
    rw [if_neg (by rw [h3]; simp)]
    simp [MElems.ops, SingleElems.ops, h3]
  | r + 1, level, path, e, h, hl => by
    have hh := (elemsInv_succ_iff T L D r level path e).1 h
    show verifyHkeyElements v (verifyElements v r) (MElems.ops r).size e level path = _
    rw [verifyHkeyElements_ok hv (MElems.ops r) (ElemsInv T L D r) (verifyElements v r) r level path e hh
      (fun g hk hg => verifyElements_ok hv r (level + 1) (path ++ [hk]) g hg (by omega))
      (fun h0 => by omega)]
    rfl

end Elements

/-! ### slabs and the tree -/

section Tree
variable {T r : Nat} {D : DigestFn (r + 1)} {v : MVerifier}

/-- IDs of the data slabs, left to right -/
def mleafIds (d : Nat) (t : MTree r d) : List SlabID := (MTree.leaves d t).map (·.hdr.id)

def mdefinedNexts (l : List (MDataSlab r)) : List SlabID :=
  (l.map (·.next)).filter (fun x => decide (x ≠ SlabID.undef))

/-- the accumulators after the subtree `t` has been accepted -/
def mextend (acc : MVAcc) (d : Nat) (t : MTree r d) : MVAcc :=
  ⟨acc.dataSlabIDs ++ mleafIds d t, acc.nextDataSlabIDs ++ mdefinedNexts (MTree.leaves d t),
   acc.firstKeys ++ (MTree.leaves d t).map (·.hdr.firstKey), acc.slabIDs ++ mapTreeIds d t⟩

def mextendL (acc : MVAcc) (d : Nat) (cs : List (MTree r d)) : MVAcc :=
  ⟨acc.dataSlabIDs ++ cs.flatMap (mleafIds d),
   acc.nextDataSlabIDs ++ mdefinedNexts (cs.flatMap (MTree.leaves d)),
   acc.firstKeys ++ (cs.flatMap (MTree.leaves d)).map (·.hdr.firstKey),
   acc.slabIDs ++ cs.flatMap (mapTreeIds d)⟩

theorem mdefinedNexts_append (a b : List (MDataSlab r)) :
    mdefinedNexts (a ++ b) = mdefinedNexts a ++ mdefinedNexts b := by
  simp [mdefinedNexts]

theorem mextendL_nil (acc : MVAcc) (d : Nat) : mextendL acc d ([] : List (MTree r d)) = acc := by
  cases acc; simp [mextendL, mdefinedNexts]

theorem mextendL_cons (acc : MVAcc) (d : Nat) (c : MTree r d) (cs : List (MTree r d)) :
    mextendL acc d (c :: cs) = mextendL (mextend acc d c) d cs := by
  simp [mextendL, mextend, mdefinedNexts_append, List.append_assoc]

theorem mleafIds_succ (d : Nat) (m : MMetaSlab (MTree r d)) :
    mleafIds (d + 1) (m : MTree r (d + 1)) = m.children.flatMap (mleafIds d) := by
  simp only [mleafIds, MTree.leaves_succ, List.map_flatMap]
  rfl

theorem mapTreeIds_succ (d : Nat) (m : MMetaSlab (MTree r d)) :
    mapTreeIds (d + 1) (m : MTree r (d + 1)) = m.hdr.id :: m.children.flatMap (mapTreeIds d) := rfl

theorem mextend_succ (acc : MVAcc) (d : Nat) (m : MMetaSlab (MTree r d)) :
    mextend acc (d + 1) (m : MTree r (d + 1)) =
      mextendL { acc with slabIDs := acc.slabIDs ++ [m.hdr.id] } d m.children := by
  simp [mextend, mextendL, mleafIds_succ, mapTreeIds_succ, MTree.leaves_succ]

/-- the root data slab is not an inlined one -/
def MNotInl : (d : Nat) → MTree r d → Prop
  | 0, (s : MDataSlab r) => s.inlined = false
  | _ + 1, _ => True

theorem mnotInl_of_false : ∀ (d : Nat) (t : MTree r d), MTreeInv T D d false t → MNotInl d t
  | 0, s, h => by
    have hi := (mtreeInv_zero_iff T D false s).mp h
    show (s : MDataSlab r).inlined = false
    cases hx : (s : MDataSlab r).inlined with
    | false => rfl
    | true => have := hi.inl_root hx; cases this
  | _ + 1, _, _ => trivial

theorem heads_pairwise {α : Type} (f : α → List Nat) (l : List α) (hne : ∀ a ∈ l, f a ≠ [])
    (h : (l.flatMap f).Pairwise (· < ·)) : (l.map (fun a => (f a).headD 0)).Pairwise (· < ·) := by
  rw [List.pairwise_flatMap] at h
  rw [List.pairwise_map]
  refine h.2.imp_of_mem ?_
  intro a b ha hb hab
  have h1 : (f a).headD 0 ∈ f a := by
    cases hfa : f a with
    | nil => exact absurd hfa (hne a ha)
    | cons x xs => simp
  have h2 : (f b).headD 0 ∈ f b := by
    cases hfb : f b with
    | nil => exact absurd hfb (hne b hb)
    | cons x xs => simp
  exact hab _ h1 _ h2

/-- a subtree below the root has at least one first-level digest in every data slab -/
theorem leaf_hkeys_ne_nil : ∀ (d : Nat) (t : MTree r d), MTreeInv T D d false t →
    ∀ s ∈ MTree.leaves d t, s.elems.hkeys ≠ []
  | 0, t, h, s, hs => by
    have : s = t := List.mem_singleton.mp hs
    subst this
    have hi := (mtreeInv_zero_iff T D false s).mp h
    have hne := hi.nonempty rfl
    have hlen := hi.loose.hinv.2.2.1
    intro h0
    rw [h0] at hlen
    exact hne (List.length_eq_zero_iff.1 hlen.symm)
  | d + 1, m, h, s, hs => by
    obtain ⟨c, hc, hsc⟩ := List.mem_flatMap.mp hs
    exact leaf_hkeys_ne_nil d c (((mtreeInv_succ_iff T D d false m).mp h).1.2.2.2.2.1 c hc) s hsc

theorem digests0_ne_nil (hT : legalThreshold T = true) (d : Nat) (t : MTree r d)
    (h : MTreeInv T D d false t) : MTree.digests0 d t ≠ [] := by
  rw [digests0_eq_leaves]
  have hl := MTreeInv.leaves_ne_nil hT d t h
  cases hls : MTree.leaves d t with
  | nil => exact absurd hls hl
  | cons s rest =>
    have := leaf_hkeys_ne_nil d t h s (by rw [hls]; simp)
    simp [this]

theorem metaTail_none (a b : Nat) (l : List Nat) (n k : Nat) (h1 : a = b) (h2 : l.Pairwise (· < ·))
    (h3 : n = k) :
    firstErr [(decide (a ≠ b), MVErr.metaFirstKeyWrong), (!sliceIsSorted l, MVErr.childFirstKeysNotSorted),
      (hasAdjacentDup l, MVErr.childFirstKeysNotUnique), (decide (n ≠ k), MVErr.metaHeaderSizeWrong)] = none := by
  simp only [firstErr_cons_eq_none, firstErr_nil, and_true, decide_eq_false_iff_not, ne_eq,
    Decidable.not_not, Bool.not_eq_false']
  exact ⟨h1, sliceIsSorted_of_pairwise _ h2, hasAdjacentDup_of_pairwise _ h2, h3⟩

theorem mslabChecks_none (v : MVerifier) (hdr : MHdr) (inl extra : Bool) (uf : Option Nat) (full : Bool)
    (level : Nat) (hp : Option MHdr) (seen : List SlabID)
    (h1 : hdr.id ∉ seen) (h2 : hdr.id.addr = v.address) (h3 : inl = false)
    (h4 : 0 < level → extra = false) (h5 : 0 < level → uf = none) (h6 : full = false)
    (h7 : ∀ h, hp = some h → h = hdr) :
    firstErr (mslabChecks v hdr inl extra uf full level hp seen) = none := by
  unfold mslabChecks
  simp only [firstErr_cons_eq_none, firstErr_nil, and_true]
  refine ⟨?_, by simp [h2], by simp [h3], ?_, ?_, h6, ?_⟩
  · cases hany : (seen.any fun x => decide (x = hdr.id)) with
    | false => rfl
    | true =>
      simp only [List.any_eq_true, decide_eq_true_eq] at hany
      obtain ⟨x, hx, rfl⟩ := hany; exact absurd hx h1
  · by_cases hl : 0 < level
    · simp [h4 hl]
    · simp [hl]
  · by_cases hl : 0 < level
    · simp [h5 hl]
    · simp [hl]
  · cases hp with
    | none => rfl
    | some h => simp [h7 h rfl]

/-- a data slab satisfying the invariant is accepted -/
theorem verifyMapDataSlab_ok (hv : VFor v T (r + 1) D) (s : MDataSlab r) (top : Bool) (level : Nat)
    (acc : MVAcc) (h : MDataInv T D top s) (htop : top = true ↔ level = 0) (hni : s.inlined = false) :
    verifyMapDataSlab v s level acc =
      .ok (s.pairs.length,
        ⟨acc.dataSlabIDs ++ [s.hdr.id], acc.nextDataSlabIDs ++ mdefinedNexts [s],
         acc.firstKeys ++ [s.hdr.firstKey], acc.slabIDs⟩) := by
  unfold verifyMapDataSlab
  have hE : verifyElements v (r + 1) s.elems 0 [] = .ok (s.pairs.length, s.elems.size) := by
    show verifyHkeyElements v (verifyElements v r) (MElems.ops r).size s.elems 0 [] = _
    rw [verifyHkeyElements_ok hv (MElems.ops r) (ElemsInv T (r + 1) D r) (verifyElements v r) r 0 [] s.elems
      h.loose.hinv
      (fun g hk hg => verifyElements_ok hv r 1 ([] ++ [hk]) g hg (by omega))
      (fun _ => h.elem_le)]
    rfl
  rw [hE]
  simp only
  have hpre : mapDataPrefixAt level s.inlined = s.prefixSize := by
    unfold mapDataPrefixAt MDataSlab.prefixSize
    rw [hni, h.root_eq]
    cases top with
    | true => simp [htop.1 rfl]
    | false =>
      have : level ≠ 0 := fun hl => by have := htop.2 hl; cases this
      simp [this]
  have hfe : firstErr
      [(decide (s.elems.firstKey ≠ s.hdr.firstKey), MVErr.dataFirstKeyWrong),
       (s.inlined && decide (level > 0), MVErr.nonRootInlined),
       (s.inlined && !s.root, MVErr.inlinedNoExtraData),
       (s.inlined && decide (s.next ≠ SlabID.undef), MVErr.inlinedHasNext),
       (decide (mapDataPrefixAt level s.inlined + s.elems.size ≠ s.hdr.size), MVErr.dataHeaderSizeWrong)] = none := by
    simp only [firstErr_cons_eq_none, firstErr_nil, and_true, hni, Bool.false_and, decide_eq_false_iff_not,
      ne_eq, Decidable.not_not, true_and]
    rw [hni] at hpre
    exact ⟨h.first_eq.symm, by rw [hpre, h.size_eq]⟩
  rw [hfe]
  simp only [mdefinedNexts, List.map_cons, List.map_nil]
  by_cases hn : s.next = SlabID.undef <;> simp [hn, List.filter]

/-- hypotheses about the slab IDs of a subtree that `MapInv` does not contain -/
structure IdsFor (v : MVerifier) (seen : List SlabID) {d : Nat} (t : MTree r d) : Prop where
  fresh : Fresh seen (mapTreeIds d t)
  addr : ∀ id ∈ mapTreeIds d t, id.addr = v.address

theorem verifyMapChildren_ok (d level : Nat)
    (IH : ∀ (c : MTree r d) (acc : MVAcc), MTreeInv T D d false c → IdsFor v acc.slabIDs c →
      verifyMapSlab v d c level (some (MTree.hdr d c)) acc = .ok ((MTree.toList d c).length, mextend acc d c)) :
    ∀ (cs : List (MTree r d)) (cnt : Nat) (acc : MVAcc),
      (∀ c ∈ cs, MTreeInv T D d false c) → Fresh acc.slabIDs (cs.flatMap (mapTreeIds d)) →
      (∀ id ∈ cs.flatMap (mapTreeIds d), id.addr = v.address) →
      verifyMapChildren (fun c h acc => verifyMapSlab v d c level (some h) acc) (cs.map (MTree.hdr d)) cs cnt acc =
        .ok (cnt + (cs.flatMap (MTree.toList d)).length, mextendL acc d cs)
  | [], cnt, acc, _, _, _ => by simp [verifyMapChildren, mextendL_nil]
  | c :: cs, cnt, acc, hinv, hfr, haddr => by
    simp only [List.flatMap_cons] at hfr haddr
    obtain ⟨hfr1, hfr2⟩ := (fresh_append _ _ _).1 hfr
    simp only [List.map_cons, verifyMapChildren]
    rw [IH c acc (hinv c (by simp)) ⟨hfr1, fun id hid => haddr id (List.mem_append_left _ hid)⟩]
    simp only
    rw [verifyMapChildren_ok d level IH cs _ (mextend acc d c) (fun x hx => hinv x (by simp [hx]))
      (by simpa [mextend] using hfr2) (fun id hid => haddr id (List.mem_append_right _ hid))]
    simp only [List.flatMap_cons, List.length_append, mextendL_cons, Nat.add_assoc]

/-- **every subtree the invariant describes is accepted by `verifySlab`** -/
theorem verifyMapSlab_ok (hv : VFor v T (r + 1) D) : ∀ (d level : Nat) (top : Bool) (t : MTree r d)
    (hp : Option MHdr) (acc : MVAcc), MTreeInv T D d top t → (top = true ↔ level = 0) → MNotInl d t →
    (∀ h, hp = some h → h = MTree.hdr d t) → IdsFor v acc.slabIDs t →
    verifyMapSlab v d t level hp acc = .ok ((MTree.toList d t).length, mextend acc d t)
  | 0, level, top, s, hp, acc, h, htop, hni, hhp, hids => by
    have hi := (mtreeInv_zero_iff T D top s).mp h
    have hni : (s : MDataSlab r).inlined = false := hni
    have hmem : (s : MDataSlab r).hdr.id ∈ mapTreeIds 0 s :=
      (List.mem_singleton.2 rfl : (s : MDataSlab r).hdr.id ∈ [(s : MDataSlab r).hdr.id])
    have hfr : (s : MDataSlab r).hdr.id ∉ acc.slabIDs := hids.fresh.1 _ hmem
    have hnt : 0 < level → top = false := by
      intro hl
      cases top with
      | false => rfl
      | true => have := htop.1 rfl; omega
    show (match firstErr (mslabChecks v (s : MDataSlab r).hdr (s : MDataSlab r).inlined (s : MDataSlab r).root
            ((s : MDataSlab r).isUnderflow v.T) ((s : MDataSlab r).isFull v.T) level hp acc.slabIDs) with
          | some err => Except.error err
          | none => verifyMapDataSlab v s level { acc with slabIDs := acc.slabIDs ++ [(s : MDataSlab r).hdr.id] }) = _
    rw [mslabChecks_none v _ _ _ _ _ level hp acc.slabIDs hfr (hids.addr _ hmem) hni
      (fun hl => by rw [hi.root_eq, hnt hl])
      (fun hl => by
        rw [hv.vT]
        exact (isUnderflow_none_iff T _).2 (hi.ge_min (hnt hl)))
      (by
        rw [hv.vT]
        show decide ((s : MDataSlab r).hdr.size > maxThr T) = false
        rw [decide_eq_false_iff_not]; exact Nat.not_lt.2 hi.le_max)
      hhp]
    show verifyMapDataSlab v s level { acc with slabIDs := acc.slabIDs ++ [(s : MDataSlab r).hdr.id] } = _
    rw [verifyMapDataSlab_ok hv s top level _ hi htop hni]
    rfl
  | d + 1, level, top, m, hp, acc, h, htop, _, hhp, hids => by
    obtain ⟨hm, hmax, hmin, hkids⟩ := (mtreeInv_succ_iff T D d top m).mp h
    obtain ⟨hroot, hhdrs, hsize, hfirst, hci, _, hfk, hpw⟩ := hm
    have hlen : m.childHdrs.length = m.children.length := by rw [hhdrs]; simp
    have hnt : 0 < level → top = false := by
      intro hl
      cases top with
      | false => rfl
      | true => have := htop.1 rfl; omega
    have hmem : m.hdr.id ∈ mapTreeIds (d + 1) m :=
      (List.mem_cons_self : m.hdr.id ∈ m.hdr.id :: m.children.flatMap (mapTreeIds d))
    have hidm : m.hdr.id ∉ acc.slabIDs := hids.fresh.1 _ hmem
    have hfrk : Fresh (acc.slabIDs ++ [m.hdr.id]) (m.children.flatMap (mapTreeIds d)) :=
      ((fresh_cons _ _ _).1
        (hids.fresh : Fresh acc.slabIDs (m.hdr.id :: m.children.flatMap (mapTreeIds d)))).2
    have hF := map_legal_bounds hv.hT
    -- at least one child
    have hpos : 1 ≤ m.children.length := by
      rcases Nat.eq_zero_or_pos level with hl | hl
      · have := hkids (htop.2 hl); omega
      · have := hmin (hnt hl)
        rw [hsize] at this
        simp only [mapMetaDataSlabPrefixSize, mapSlabHeaderSize, minThr] at this
        omega
    show (match firstErr (mslabChecks v m.hdr false m.root (m.isUnderflow v.T) (m.isFull v.T) level hp acc.slabIDs) with
          | some err => Except.error err
          | none => verifyMapMetaDataSlab (verifyMapSlab v d) m level { acc with slabIDs := acc.slabIDs ++ [m.hdr.id] }) = _
    rw [mslabChecks_none v _ _ _ _ _ level hp acc.slabIDs hidm (hids.addr _ hmem) rfl
      (fun hl => by rw [hroot, hnt hl])
      (fun hl => by
        rw [hv.vT]
        exact (isUnderflow_none_iff T _).2 (hmin (hnt hl)))
      (by
        rw [hv.vT]
        show decide (m.hdr.size > maxThr T) = false
        rw [decide_eq_false_iff_not]; exact Nat.not_lt.2 hmax)
      hhp]
    show verifyMapMetaDataSlab (verifyMapSlab v d) m level { acc with slabIDs := acc.slabIDs ++ [m.hdr.id] } = _
    unfold verifyMapMetaDataSlab
    rw [if_neg (by
      intro ⟨hl, hlt⟩
      have := hkids (htop.2 hl)
      omega)]
    have IH : ∀ (c : MTree r d) (acc : MVAcc), MTreeInv T D d false c → IdsFor v acc.slabIDs c →
        verifyMapSlab v d c (level + 1) (some (MTree.hdr d c)) acc =
          .ok ((MTree.toList d c).length, mextend acc d c) := fun c acc hc hidc =>
      verifyMapSlab_ok hv d (level + 1) false c (some (MTree.hdr d c)) acc hc (by simp)
        (mnotInl_of_false d c hc) (fun h hh => by cases hh; rfl) hidc
    have hloop := verifyMapChildren_ok (v := v) d (level + 1) IH m.children 0
      { acc with slabIDs := acc.slabIDs ++ [m.hdr.id] } hci hfrk
      (fun id hid => hids.addr id (List.mem_cons_of_mem _ hid))
    rw [hhdrs, hloop]
    simp only [Nat.zero_add]
    -- the first child header
    match hc : m.children, hpos with
    | c0 :: crest, _ =>
      have hheads : ((c0 :: crest).map (fun c => (MTree.hdr d c).firstKey)).Pairwise (· < ·) := by
        have hp2 : ((c0 :: crest).map (fun c => (MTree.digests0 d c).headD 0)).Pairwise (· < ·) := by
          rw [← hc]
          exact heads_pairwise (MTree.digests0 d) m.children
            (fun c hcm => digests0_ne_nil hv.hT d c (hci c hcm)) hpw
        have heq : (c0 :: crest).map (fun c => (MTree.hdr d c).firstKey) =
            (c0 :: crest).map (fun c => (MTree.digests0 d c).headD 0) := by
          apply List.map_congr_left
          intro c hcm
          exact hfk c (by rw [hc]; exact hcm)
        rw [heq]; exact hp2
      show (match firstErr
              [(decide ((MTree.hdr d c0).firstKey ≠ m.hdr.firstKey), MVErr.metaFirstKeyWrong),
               (!sliceIsSorted (((c0 :: crest).map (MTree.hdr d)).map (·.firstKey)), MVErr.childFirstKeysNotSorted),
               (hasAdjacentDup (((c0 :: crest).map (MTree.hdr d)).map (·.firstKey)), MVErr.childFirstKeysNotUnique),
               (decide (((c0 :: crest).map (MTree.hdr d)).length * mapSlabHeaderSize + mapMetaDataSlabPrefixSize ≠ m.hdr.size),
                 MVErr.metaHeaderSizeWrong)] with
            | some err => Except.error err
            | none => Except.ok ((List.flatMap (MTree.toList d) (c0 :: crest)).length,
                mextendL { acc with slabIDs := acc.slabIDs ++ [m.hdr.id] } d (c0 :: crest))) = _
      rw [metaTail_none]
      · rw [← hc]
        exact congrArg Except.ok (Prod.ext rfl (mextend_succ acc d m).symm)
      · have e1 : (MTree.hdr (d + 1) m).firstKey = (m.childHdrs.headD default).firstKey := hfirst
        rw [e1, hhdrs, hc]; rfl
      · rw [List.map_map]; exact hheads
      · have e1 : (MTree.hdr (d + 1) m).size =
            mapMetaDataSlabPrefixSize + mapSlabHeaderSize * m.children.length := hsize
        rw [e1, hc]; simp only [List.length_cons, List.length_map, Nat.mul_comm, Nat.add_comm]

/-! ### the root -/

/-- a complete leaf chain over defined IDs passes the comparison of the two ID lists -/
theorem mchain_of_leafChain : ∀ (l : List (MDataSlab r)), MLeafChain l →
    (∀ s ∈ l, s.hdr.id ≠ SlabID.undef) → (l.map (·.hdr.id)).tail = mdefinedNexts l
  | [], _, _ => rfl
  | [s], h, _ => by
    have h : s.next = SlabID.undef := h
    simp [mdefinedNexts, h]
  | s :: t :: rest, h, hid => by
    obtain ⟨h1, h2⟩ : s.next = t.hdr.id ∧ MLeafChain (t :: rest) := h
    have ih := mchain_of_leafChain (t :: rest) h2 (fun x hx => hid x (List.mem_cons_of_mem _ hx))
    have ht : t.hdr.id ≠ SlabID.undef := hid t (by simp)
    simp only [List.map_cons, List.tail_cons] at ih ⊢
    simp only [mdefinedNexts, List.map_cons] at ih ⊢
    rw [List.filter_cons_of_pos (by simp [h1, ht]), ← ih, h1]

theorem mleafIds_subset : ∀ (d : Nat) (t : MTree r d), ∀ id ∈ mleafIds d t, id ∈ mapTreeIds d t
  | 0, s, id, hid => hid
  | d + 1, m, id, hid => by
    have hid : id ∈ (m : MMetaSlab (MTree r d)).children.flatMap (mleafIds d) :=
      (mleafIds_succ d m) ▸ hid
    obtain ⟨c, hc, hid⟩ := List.mem_flatMap.1 hid
    exact List.mem_cons_of_mem _ (List.mem_flatMap.2 ⟨c, hc, mleafIds_subset d c id hid⟩)

theorem mapIsRoot_of_inv : ∀ (d : Nat) (top : Bool) (t : MTree r d), MTreeInv T D d top t →
    mapIsRoot d t = top
  | 0, top, s, h => ((mtreeInv_zero_iff T D top s).mp h).root_eq
  | d + 1, top, m, h => ((mtreeInv_succ_iff T D d top m).mp h).1.1

theorem top_leaves_ne_nil (hT : legalThreshold T = true) : ∀ (d : Nat) (t : MTree r d),
    MTreeInv T D d true t → MTree.leaves d t ≠ []
  | 0, s, _ => by simp [MTree.leaves]
  | d + 1, m, h => by
    obtain ⟨hm, _, _, hk⟩ := (mtreeInv_succ_iff T D d true m).mp h
    have hk := hk rfl
    show m.children.flatMap (MTree.leaves d) ≠ []
    cases hc : m.children with
    | nil => rw [hc] at hk; simp at hk
    | cons c cs =>
      have := MTreeInv.leaves_ne_nil hT d c (hm.2.2.2.2.1 c (by rw [hc]; simp))
      simp [this]

/-- the first keys of the data slabs, left to right, are strictly increasing -/
theorem leaf_firstKeys_pairwise (hT : legalThreshold T = true) : ∀ (d : Nat) (t : MTree r d),
    MTreeInv T D d true t → ((MTree.leaves d t).map (·.hdr.firstKey)).Pairwise (· < ·)
  | 0, s, _ => List.pairwise_singleton _ _
  | d + 1, m, h => by
    have hm := ((mtreeInv_succ_iff T D d true m).mp h).1
    have hsorted := MTreeInv.sorted (d + 1) true m h
    rw [digests0_eq_leaves] at hsorted
    have hne : ∀ s ∈ MTree.leaves (d + 1) m, s.elems.hkeys ≠ [] := by
      intro s hs
      obtain ⟨c, hc, hsc⟩ := List.mem_flatMap.mp hs
      exact leaf_hkeys_ne_nil d c (hm.2.2.2.2.1 c hc) s hsc
    have hh := heads_pairwise (fun s : MDataSlab r => s.elems.hkeys) _ hne hsorted
    have heq : (MTree.leaves (d + 1) m).map (·.hdr.firstKey) =
        (MTree.leaves (d + 1) m).map (fun s => s.elems.hkeys.headD 0) := by
      apply List.map_congr_left
      intro s hs
      obtain ⟨top', hl⟩ := leaf_loose (d + 1) true m h s hs
      exact hl.first_eq
    rw [heq]; exact hh

/-- hypotheses about slab IDs and the seed that `MapInv` does not contain -/
structure MapIdsOk (v : MVerifier) (m : OMap r) : Prop where
  nodup : (mapTreeIds m.d m.root).Nodup
  addr : ∀ id ∈ mapTreeIds m.d m.root, id.addr = v.address
  defined : ∀ id ∈ mapTreeIds m.d m.root, id ≠ SlabID.undef
  seed : m.seed ≠ 0

theorem mapTreeIds_hdr_mem : ∀ (d : Nat) (t : MTree r d), (MTree.hdr d t).id ∈ mapTreeIds d t
  | 0, s => (List.mem_singleton.2 rfl : (s : MDataSlab r).hdr.id ∈ [(s : MDataSlab r).hdr.id])
  | d + 1, m => (List.mem_cons_self : m.hdr.id ∈ m.hdr.id :: m.children.flatMap (mapTreeIds d))

theorem misInlined_iff (m : OMap r) : m.isInlined = false ↔ MNotInl m.d m.root := by
  obtain ⟨d, t, ty, c, sd⟩ := m
  cases d with
  | zero => exact Iff.rfl
  | succ d => exact ⟨fun _ => trivial, fun _ => rfl⟩

/-- **`MapInv` implies acceptance by `VerifyMap`.** -/
theorem verifyMap_ok_of_mapInv (hv : VFor v T (r + 1) D) (m : OMap r) (h : MapInv T D m)
    (hids : MapIdsOk v m) (hva : v.address = m.addr) (typeInfo : Option Nat)
    (hty : ∀ ty, typeInfo = some ty → m.ty = ty) : verifyMap v typeInfo m = .ok () := by
  unfold verifyMap
  have hrid : m.rootID ≠ SlabID.undef := hids.defined _ (mapTreeIds_hdr_mem m.d m.root)
  have hfe : firstErr (mapRootChecks v typeInfo m) = none := by
    unfold mapRootChecks
    simp only [firstErr_cons_eq_none, firstErr_nil, and_true]
    refine ⟨by simp [hva], by simp [hrid], by simp [mapIsRoot_of_inv m.d true m.root h.tree], ?_,
      by simp [hids.seed]⟩
    cases typeInfo with
    | none => rfl
    | some ty => simp [hty ty rfl]
  rw [hfe]
  simp only
  rw [verifyMapSlab_ok hv m.d 0 true m.root none ⟨[], [], [], []⟩ h.tree (by simp)
    ((misInlined_iff m).1 h.standalone) (by simp)
    ⟨⟨by simp, hids.nodup⟩, hids.addr⟩]
  simp only [mextend, List.nil_append]
  rw [if_neg (by
    have := h.count_eq
    simp only [OMap.toList] at this
    omega)]
  have hne : mleafIds m.d m.root ≠ [] := by
    have := top_leaves_ne_nil hv.hT m.d m.root h.tree
    simpa [mleafIds] using this
  have hchain := mchain_of_leafChain (MTree.leaves m.d m.root) h.chain (fun s hs =>
    hids.defined _ (mleafIds_subset m.d m.root _ (List.mem_map.2 ⟨s, hs, rfl⟩)))
  have hfk := leaf_firstKeys_pairwise hv.hT m.d m.root h.tree
  unfold mapTailChecks
  match hl : mleafIds m.d m.root with
  | [] => exact absurd hl hne
  | x :: rest =>
    simp only
    have hrest : rest = mdefinedNexts (MTree.leaves m.d m.root) := by
      have : (mleafIds m.d m.root).tail = mdefinedNexts (MTree.leaves m.d m.root) := hchain
      rw [hl] at this; exact this
    rw [if_pos hrest, sliceIsSorted_of_pairwise _ hfk, hasAdjacentDup_of_pairwise _ hfk]
    rfl

end Tree

end Atree.Verify
