import AtreeModel.Verify.Array
import AtreeProofs.ArrayInv
/-
  What `VerifyArray` establishes, as a predicate on array trees.  DEFINITIONS ONLY — they are part
  of the reviewed statements of `AtreeProofs/Props/C05Verify.lean`.

  `Checked v d level t` is the conjunction of the local checks `verifySlab` makes at every slab of
  `t` (which sits `level` levels below the root); `ArrVerified v typeInfo a` adds the root checks
  and the two global checks (slab IDs unique, `next` links).  `verify_ok_iff` (C05Verify) says that
  `verifyArray` returns `ok` EXACTLY on the trees that satisfy `ArrVerified`.
-/
namespace Atree.Verify
open Atree Gen ATree MetaSlab

/-- Every index slab has exactly one embedded child per child header.  A model tree with MORE
    embedded children than headers does not stand for any state of the Go container (the extra
    children would be slabs in storage nobody refers to — the business of the storage health
    check, not of `VerifyArray`, which never sees them). -/
def Aligned : (d : Nat) → ATree d → Prop
  | 0, _ => True
  | d + 1, (m : MetaSlab (ATree d)) =>
    m.children.length = m.childHdrs.length ∧ ∀ c ∈ m.children, Aligned d c

/-- The local checks of `verifySlab` / `verifyDataSlab` / `verifyMetaDataSlab` at every slab of a
    tree whose root sits at `level`. -/
def Checked (v : AVerifier) : (d : Nat) → (level : Nat) → ATree d → Prop
  | 0, level, (s : DataSlab) =>
    s.hdr.id.addr = v.address ∧
    (s.inlined = true → v.inStorage s.hdr.id = false) ∧
    (0 < level → s.root = false ∧ minThr v.T ≤ s.hdr.size) ∧
    s.hdr.size ≤ maxThr v.T ∧
    s.hdr.count = s.elems.length ∧
    (s.inlined = true → level = 0 ∧ s.root = true ∧ s.next = SlabID.undef) ∧
    s.hdr.size = dataPrefixAt level s.inlined + sumSizes s.elems ∧
    (∀ e ∈ s.elems, e.size ≤ maxInlineArr v.T)
  | d + 1, level, (m : MetaSlab (ATree d)) =>
    m.hdr.id.addr = v.address ∧
    (0 < level → m.root = false ∧ minThr v.T ≤ m.hdr.size) ∧
    m.hdr.size ≤ maxThr v.T ∧
    (level = 0 → 2 ≤ m.childHdrs.length) ∧
    m.childHdrs = m.children.map (hdr d) ∧
    m.countSum = prefixSums m.childHdrs 0 ∧
    m.hdr.count = sumCounts m.childHdrs ∧
    m.hdr.size = arrayMetaDataSlabPrefixSize + arraySlabHeaderSize * m.childHdrs.length ∧
    (∀ c ∈ m.children, Checked v d (level + 1) c)

/-- IDs of the data slabs, left to right (`dataSlabIDs`) -/
def leafIds (d : Nat) (t : ATree d) : List SlabID := (Arr.leaves d t).map (·.hdr.id)

/-- the `next` links the verifier collects (`nextDataSlabIDs`): those that are defined, in leaf
    order; the undefined ones leave no trace -/
def definedNexts (l : List DataSlab) : List SlabID :=
  (l.map (·.next)).filter (fun x => decide (x ≠ SlabID.undef))

/-- What `verifyArray v typeInfo a = ok` means. -/
structure ArrVerified (v : AVerifier) (typeInfo : Option Nat) (a : Arr) : Prop where
  addr : a.addr = v.address
  root_id : a.isInlined = false → a.rootID ≠ SlabID.undef
  extra : isRoot a.d a.root = true
  type_ok : ∀ ty, typeInfo = some ty → a.ty = ty
  tree : Checked v a.d 0 a.root
  ids_nodup : (slabIds a.d a.root).Nodup
  /-- the DEFINED `next` links, in leaf order, are the IDs of the second, third, … leaf -/
  chain : (leafIds a.d a.root).tail = definedNexts (Arr.leaves a.d a.root)

/-- every element occupies at least one byte (the conjunct `1 ≤ e.size` of `ElemOk`) -/
def ElemsPos (a : Arr) : Prop := ∀ e ∈ a.toList, 1 ≤ e.size

end Atree.Verify
