import AtreeProofs.ArrayInv
/-
  References to large-value slabs held by an array (C09 / C01 / C05, audit a1 F2).  DEFINITIONS ONLY;
  they are part of the reviewed statement of the property theorems in `Props/C09Refs.lean`.

  `ArrInv` speaks about the slab IDs of the TREE only.  An element `⟨19, .ref id⟩` (what
  `toStorable` leaves in the slab for a value too large to inline; the value itself lives in a
  `StorableSlab` stored under `id`) is constrained by `ARefsOk`: every such slab is owned by exactly
  one element, is not a slab of the tree, belongs to the array's owner address and was allocated
  (index at most the allocation counter), so that the next allocated ID is fresh against the
  references too.
-/
namespace Atree
open Gen ATree

/-- the slab an element refers to, if it is a reference (`SlabIDStorable`) -/
def Elem.refId? (e : Elem) : Option SlabID :=
  match e.pay with
  | .ref id => some id
  | .val _ => none

/-- IDs of the large-value slabs referenced by a list of elements, in order -/
def refIdsOf (l : List Elem) : List SlabID := l.filterMap Elem.refId?

/-- IDs of the large-value slabs the array's elements refer to, in element order -/
def Arr.refIds (a : Arr) : List SlabID := refIdsOf a.toList

/-- The references of the array are sound relative to the owner's allocation counter. -/
structure ARefsOk (a : Arr) (ctr : Nat) : Prop where
  /-- no large-value slab is owned by two elements -/
  nodup : a.refIds.Nodup
  /-- a large-value slab is not a slab of the tree -/
  not_tree : ∀ id ∈ a.refIds, id ∉ slabIds a.d a.root
  /-- it belongs to the owner address, is defined, and was allocated -/
  alloc : ∀ id ∈ a.refIds, id.addr = a.addr ∧ 1 ≤ id.idx ∧ id.idx ≤ ctr

/-- the array invariant including the references -/
structure ArrInvR (T : Nat) (a : Arr) (ctr : Nat) : Prop where
  inv : ArrInv T a ctr
  refs : ARefsOk a ctr

end Atree
