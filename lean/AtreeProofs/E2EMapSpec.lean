import AtreeModel.StorageOps
import AtreeProofs.StorageLemmas
import AtreeProofs.MapHeapSpec
import AtreeProofs.MapInv
import AtreeProofs.MapLemmas
import AtreeProofs.E2ESpec
/-
  END-TO-END specification (ordered maps): the map model, its effect logs, the storage state
  machine, commit / reopen and lazy slab loading tied together.  Same shape as
  `AtreeProofs/E2ESpec.lean` (arrays).  DEFINITIONS ONLY; theorems in `AtreeProofs/Props/E2EMap.lean`.

  Differences with arrays:
  * three kinds of tree slabs are stored: data slabs, index slabs, and EXTERNAL COLLISION-GROUP
    slabs (separate stored slabs referenced from a first-level element of a data slab);
  * the model embeds the content of an external group in the element that references it; the
    STORED form of a data slab does not: `stripData` replaces the embedded group by a placeholder,
    and the loader (`loadAt`) fetches the group slab through its ID and puts it back;
  * the root slab carries the map's extra data (type info, count, seed).
-/
namespace Atree.E2EM
open Atree Gen

variable {r : Nat}

/-! ### stored slabs -/

/-- What the storage holds under one slab ID of a map's owner: a slab of the map (data slab, index
    slab or external collision-group slab; with the extra data `(type, count, seed)` iff it is the
    root), or a large-value slab. -/
inductive MSSlab (r : Nat) where
  | tree (s : MSlabView r) (x : Option (Nat × Nat × Nat))
  | large (v : Elem)

def emptyElems : (r : Nat) → MElems r
  | 0 => ({ elems := [], size := 0, level := 0 } : SingleElems)
  | r + 1 => ({ hkeys := [], elems := [], size := 0, level := 0 } : HkeyElems (MElems r))

/-- a reference to an external collision group, without the group -/
def stripElem : MElemF (MElems r) → MElemF (MElems r)
  | .ext id sz _ => .ext id sz ⟨⟨id, 0, 0⟩, emptyElems r⟩
  | e => e

/-- the stored form of a data slab: external groups are referenced, not contained -/
def stripData (s : MDataSlab r) : MDataSlab r :=
  { s with elems := { s.elems with elems := s.elems.elems.map stripElem } }

def stripView : MSlabView r → MSlabView r
  | .data s => .data (stripData s)
  | v => v

/-- the slab that must be visible under `id` when the map is `m` and the live large-value slabs
    are `extra` -/
def mstored (m : OMap r) (extra : SlabID → Option Elem) (id : SlabID) : Option (MSSlab r) :=
  match m.slabAt id with
  | some p => some (.tree (stripView p.1) p.2)
  | none => (extra id).map .large

/-! ### effect logs against the storage state machine (as for arrays) -/

def effOp (content : SlabID → Option (MSSlab r)) : Eff → List (Op (MSSlab r))
  | .alloc addr _ => [.genID addr]
  | .store id =>
    match content id with
    | some v => [.store id v]
    | none => []
  | .remove id => [.remove id]

def effOpsI (EC : List (Eff × (SlabID → Option (MSSlab r)))) : List (Op (MSSlab r)) :=
  EC.flatMap (fun p => effOp p.2 p.1)

def effOps (content : SlabID → Option (MSSlab r)) (E : List Eff) : List (Op (MSSlab r)) :=
  E.flatMap (effOp content)

variable {β : Type}

def applyEffsI (c : Codec (MSSlab r) β) (s : St (MSSlab r) β)
    (EC : List (Eff × (SlabID → Option (MSSlab r)))) : St (MSSlab r) β :=
  St.run c s (effOpsI EC)

def applyEffs (c : Codec (MSSlab r) β) (s : St (MSSlab r) β) (content : SlabID → Option (MSSlab r))
    (E : List Eff) : St (MSSlab r) β :=
  St.run c s (effOps content E)

def writeStep (id : SlabID) (acc : Option (Option (MSSlab r)))
    (p : Eff × (SlabID → Option (MSSlab r))) : Option (Option (MSSlab r)) :=
  match p.1 with
  | .store i =>
    if i = id then
      match p.2 id with
      | some v => some (some v)
      | none => acc
    else acc
  | .remove i => if i = id then some none else acc
  | .alloc _ _ => acc

def lastWrite (EC : List (Eff × (SlabID → Option (MSSlab r)))) (id : SlabID) :
    Option (Option (MSSlab r)) :=
  EC.foldl (writeStep id) none

/-! ### representation -/

/-- The storage `s` represents the map `m`: restricted to the owner's address, the view is exactly
    the (stored forms of the) slabs of the map plus the live large-value slabs `extra`. -/
structure MRep (c : Codec (MSSlab r) β) (s : St (MSSlab r) β) (m : OMap r)
    (extra : SlabID → Option Elem) (ctr : Nat) : Prop where
  view : ∀ id, id.addr = m.addr → s.view c id = mstored m extra id
  extra_fresh : ∀ id, (extra id).isSome → (m.slabAt id).isNone ∧ id.idx ≤ ctr

/-- the live large-value slabs after an operation, from the log alone -/
def extraStep (m' : OMap r) (E : List Eff) (created : List (SlabID × Elem))
    (extra : SlabID → Option Elem) (id : SlabID) : Option Elem :=
  if (m'.slabAt id).isSome then none
  else
    match lastAction E id with
    | some true => AList.find? created id
    | some false => none
    | none => extra id

/-- every slab of the map (external collision groups included) is owned by the map's address -/
def MAddrOk (m : OMap r) : Prop := ∀ id ∈ AList.keys (MTree.slabs m.d m.root), id.addr = m.addr

/-! ### loading a map from its slabs -/

/-- put the external group back into the element that references it -/
def loadElem (look : SlabID → Option (MSSlab r)) : MElemF (MElems r) → Option (MElemF (MElems r))
  | .ext id sz _ =>
    match look id with
    | some (.tree (.group g) _) => some (.ext id sz g)
    | _ => none
  | e => some e

def loadAt (look : SlabID → Option (MSSlab r)) : (d : Nat) → SlabID → Option (MTree r d)
  | 0, id =>
    match look id with
    | some (.tree (.data s) _) =>
      match E2E.optAll (loadElem look) s.elems.elems with
      | some es => some ({ s with elems := { s.elems with elems := es } } : MDataSlab r)
      | none => none
    | _ => none
  | d + 1, id =>
    match look id with
    | some (.tree (.index hdr chs root) _) =>
      match E2E.optAll (fun (h : MHdr) => loadAt look d h.id) chs with
      | some kids =>
        some ({ hdr := hdr, childHdrs := chs, children := kids, root := root } : MMetaSlab (MTree r d))
      | none => none
    | _ => none

def findDepth (look : SlabID → Option (MSSlab r)) : Nat → SlabID → Option Nat
  | 0, _ => none
  | fuel + 1, id =>
    match look id with
    | some (.tree (.data _) _) => some 0
    | some (.tree (.index _ chs _) _) =>
      match chs with
      | [] => none
      | h :: _ => (findDepth look fuel h.id).map (· + 1)
    | _ => none

/-- `NewMapWithRootID(storage, rootID, digesterBuilder)` followed by loading every slab -/
def loadMap (look : SlabID → Option (MSSlab r)) (rootID : SlabID) (fuel : Nat) : Option (OMap r) :=
  match findDepth look fuel rootID, look rootID with
  | some d, some (.tree _ (some (ty, cnt, seed))) =>
    (loadAt look d rootID).map (fun t => (⟨d, t, ty, cnt, seed⟩ : OMap r))
  | _, _ => none

/-! ### the same through a state-threading fetch -/

section Stateful
variable {S : Type}

abbrev MFetch (r : Nat) (S : Type) := S → SlabID → Except StErr (Option (MSSlab r) × S)

def loadElemSt (fetch : MFetch r S) (s : S) :
    MElemF (MElems r) → Except StErr (Option (MElemF (MElems r)) × S)
  | .ext id sz _ =>
    match fetch s id with
    | .error e => .error e
    | .ok (some (.tree (.group g) _), s') => .ok (some (.ext id sz g), s')
    | .ok (_, s') => .ok (none, s')
  | e => .ok (some e, s)

def loadAtSt (fetch : MFetch r S) : (d : Nat) → S → SlabID → Except StErr (Option (MTree r d) × S)
  | 0, s, id =>
    match fetch s id with
    | .error e => .error e
    | .ok (some (.tree (.data sl) _), s') =>
      match E2E.optAllSt (loadElemSt fetch) s' sl.elems.elems with
      | .error e => .error e
      | .ok (some es, s'') => .ok (some ({ sl with elems := { sl.elems with elems := es } } : MDataSlab r), s'')
      | .ok (none, s'') => .ok (none, s'')
    | .ok (_, s') => .ok (none, s')
  | d + 1, s, id =>
    match fetch s id with
    | .error e => .error e
    | .ok (some (.tree (.index hdr chs root) _), s') =>
      match E2E.optAllSt (fun s (h : MHdr) => loadAtSt fetch d s h.id) s' chs with
      | .error e => .error e
      | .ok (some kids, s'') =>
        .ok (some ({ hdr := hdr, childHdrs := chs, children := kids, root := root } :
          MMetaSlab (MTree r d)), s'')
      | .ok (none, s'') => .ok (none, s'')
    | .ok (_, s') => .ok (none, s')

def findDepthSt (fetch : MFetch r S) : Nat → S → SlabID → Except StErr (Option Nat × S)
  | 0, s, _ => .ok (none, s)
  | fuel + 1, s, id =>
    match fetch s id with
    | .error e => .error e
    | .ok (some (.tree (.data _) _), s') => .ok (some 0, s')
    | .ok (some (.tree (.index _ chs _) _), s') =>
      match chs with
      | [] => .ok (none, s')
      | h :: _ =>
        match findDepthSt fetch fuel s' h.id with
        | .error e => .error e
        | .ok (res, s'') => .ok (res.map (· + 1), s'')
    | .ok (_, s') => .ok (none, s')

def loadMapSt (fetch : MFetch r S) (s : S) (rootID : SlabID) (fuel : Nat) :
    Except StErr (Option (OMap r) × S) :=
  match findDepthSt fetch fuel s rootID with
  | .error e => .error e
  | .ok (none, s1) => .ok (none, s1)
  | .ok (some d, s1) =>
    match fetch s1 rootID with
    | .error e => .error e
    | .ok (some (.tree _ (some (ty, cnt, seed))), s2) =>
      match loadAtSt fetch d s2 rootID with
      | .error e => .error e
      | .ok (res, s3) => .ok (res.map (fun t => (⟨d, t, ty, cnt, seed⟩ : OMap r)), s3)
    | .ok (_, s2) => .ok (none, s2)

end Stateful

/-- a transparent fetch (see `E2E.FetchOk`) -/
def MFetchOk (c : Codec (MSSlab r) β) (fetch : MFetch r (St (MSSlab r) β)) : Prop :=
  ∀ s id, Inv c s → ∃ s', fetch s id = .ok (s.view c id, s') ∧ Inv c s' ∧ s'.view c = s.view c ∧
    s'.deltas = s.deltas ∧ s'.base = s.base

def readOnlyOp : Op (MSSlab r) → Bool
  | .retrieve _ | .retrieveIfLoaded _ | .retrieveIgnoringDeltas _ _ | .dropCache | .preload _ => true
  | _ => false

def fetchWith (c : Codec (MSSlab r) β) (sched : St (MSSlab r) β → SlabID → List (Op (MSSlab r))) :
    MFetch r (St (MSSlab r) β) :=
  fun s id => (St.run c s ((sched s id).filter readOnlyOp)).retrieve c id

/-! ### histories of map operations -/

inductive MOp where
  | set (k : MKey) (v : Elem)
  | remove (k : MKey)
  | popIterate
  | setType (ty : Nat)

/-- keys carry the digests of the digest function and respect the key size limit; values are plain
    values of at least one byte (any size) -/
def MOp.Ok (T : Nat) (D : DigestFn (r + 1)) : MOp → Prop
  | .set k v => KeyOk T (r + 1) D k ∧ ValueOkM v
  | .remove k => KeyOk T (r + 1) D k
  | _ => True

/-- One request on the map model; a rejected request (key not found, collision limit) changes
    nothing. -/
def stepM (cfg : MCfg) (st : OMap r × Ctx) : MOp → OMap r × Ctx
  | .set k v =>
    match st.1.set cfg k v st.2 with
    | .ok (_, res) => res
    | .error _ => st
  | .remove k =>
    match st.1.remove cfg k st.2 with
    | .ok (_, _, res) => res
    | .error _ => st
  | .popIterate => (st.1.popIterate st.2).2
  | .setType ty => st.1.setType ty st.2

def runM (cfg : MCfg) (st : OMap r × Ctx) (ops : List MOp) : OMap r × Ctx := ops.foldl (stepM cfg) st

def contentOf (st : OMap r × Ctx) : SlabID → Option (MSSlab r) :=
  mstored st.1 (AList.find? st.2.created)

/-- One request on the map model AND its storage calls on the storage state machine. -/
def stepS (c : Codec (MSSlab r) β) (cfg : MCfg) (x : (OMap r × Ctx) × St (MSSlab r) β) (op : MOp) :
    (OMap r × Ctx) × St (MSSlab r) β :=
  let st' := stepM cfg x.1 op
  (st', applyEffs c x.2 (contentOf st') (E2E.newEffs x.1.2 st'.2))

def runS (c : Codec (MSSlab r) β) (cfg : MCfg) (x : (OMap r × Ctx) × St (MSSlab r) β)
    (ops : List MOp) : (OMap r × Ctx) × St (MSSlab r) β := ops.foldl (stepS c cfg) x

/-- `NewMap(storage, addr, digesterBuilder, ty)` on an empty storage -/
def newS (c : Codec (MSSlab r) β) (addr ty : Nat) (seedOf : SlabID → Nat) :
    (OMap r × Ctx) × St (MSSlab r) β :=
  let st := OMap.new (r := r) addr ty seedOf ⟨0, [], []⟩
  (st, applyEffs c (St.init : St (MSSlab r) β) (contentOf st) st.2.eff)

end Atree.E2EM
