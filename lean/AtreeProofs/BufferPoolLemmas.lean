import AtreeModel.BufferPool
/-
  Lemmas about the buffer pools (`AtreeModel/BufferPool.lean`): the pool invariant "every parked
  buffer is empty" and the simulation of pooled histories by pool-free ones.
-/
namespace Atree.Buf

/-- every parked buffer is empty -/
def PoolEmpty (p : Pool) : Prop := ∀ b ∈ p.free, b.data = []

theorem poolEmpty_empty : PoolEmpty {} := by intro b hb; simp at hb

theorem poolEmpty_put {p : Pool} (h : PoolEmpty p) (b : Buffer) : PoolEmpty (p.put b) := by
  intro x hx
  simp only [Pool.put, List.mem_cons] at hx
  rcases hx with rfl | hx
  · rfl
  · exact h x hx

theorem poolEmpty_drop {p : Pool} (h : PoolEmpty p) (i : Nat) : PoolEmpty (p.drop i) := by
  intro x hx
  exact h x (List.mem_of_mem_eraseIdx hx)

theorem poolEmpty_get (G : Growth) {p : Pool} (h : PoolEmpty p) (choice : Option Nat) (n : Nat) :
    (p.get G choice n).1.data = [] ∧ PoolEmpty (p.get G choice n).2 := by
  unfold Pool.get
  cases choice with
  | none => exact ⟨rfl, h⟩
  | some i =>
    dsimp only
    cases hi : p.free[i]? with
    | none => exact ⟨rfl, h⟩
    | some b =>
      refine ⟨h b (List.mem_of_getElem? hi), ?_⟩
      intro x hx
      exact h x (List.mem_of_mem_eraseIdx hx)

/-- the contents after a sequence of writes -/
theorem foldl_write_data (G : Growth) (ws : List Bytes) (b : Buffer) :
    (ws.foldl (Buffer.write G) b).data = b.data ++ ws.flatten := by
  induction ws generalizing b with
  | nil => simp
  | cons w ws ih => simp [ih, Buffer.write]

/-- what the pool-free world holds: the contents of the held buffers -/
def contents (held : List (Option Buffer)) : List (Option Bytes) := held.map (·.map (·.data))

theorem getSlot_contents (held : List (Option Buffer)) (i : Nat) :
    getSlot (contents held) i = (getSlot held i).map (·.data) := by
  unfold getSlot contents
  rw [List.getElem?_map]
  cases held[i]? with
  | none => rfl
  | some x => cases x <;> rfl

theorem contents_set (held : List (Option Buffer)) (i : Nat) (x : Option Buffer) :
    contents (held.set i x) = (contents held).set i (x.map (·.data)) := by
  unfold contents
  rw [List.map_set]

theorem contents_append (held : List (Option Buffer)) (x : Option Buffer) :
    contents (held ++ [x]) = contents held ++ [x.map (·.data)] := by
  unfold contents
  simp

/-- One step: same observation, the pool-free world stays the contents of the held buffers, the
    pool invariant is kept. -/
theorem step_sim (G : Growth) (w : World) (hp : PoolEmpty w.pool) (e : Ev) :
    (w.step G e).1 = (specStep (contents w.held) e).1 ∧
    contents (w.step G e).2.held = (specStep (contents w.held) e).2 ∧
    PoolEmpty (w.step G e).2.pool := by
  cases e with
  | get choice n =>
    obtain ⟨hd, hp'⟩ := poolEmpty_get G hp choice n
    simp only [World.step, World.stepWith, specStep]
    refine ⟨trivial, ?_, hp'⟩
    rw [contents_append]
    simp [hd]
  | write s p =>
    simp only [World.step, World.stepWith, specStep, getSlot_contents]
    cases getSlot w.held s with
    | none => exact ⟨rfl, rfl, hp⟩
    | some b =>
      refine ⟨rfl, ?_, hp⟩
      simp [contents_set, Buffer.write]
  | read s =>
    simp only [World.step, World.stepWith, specStep, getSlot_contents]
    cases getSlot w.held s with
    | none => exact ⟨rfl, rfl, hp⟩
    | some b => exact ⟨rfl, rfl, hp⟩
  | put s =>
    simp only [World.step, World.stepWith, specStep, getSlot_contents]
    cases getSlot w.held s with
    | none => exact ⟨rfl, rfl, hp⟩
    | some b =>
      refine ⟨rfl, ?_, poolEmpty_put hp b⟩
      simp [contents_set]
  | drop i =>
    exact ⟨rfl, rfl, poolEmpty_drop hp i⟩

theorem run_sim (G : Growth) (evs : List Ev) :
    ∀ (w : World), PoolEmpty w.pool →
      (w.run G evs).1 = specRun (contents w.held) evs ∧ PoolEmpty (w.run G evs).2.pool := by
  induction evs with
  | nil => intro w hp; exact ⟨rfl, hp⟩
  | cons e es ih =>
    intro w hp
    obtain ⟨h1, h2, h3⟩ := step_sim G w hp e
    obtain ⟨i1, i2⟩ := ih (w.step G e).2 h3
    have hrun : w.run G (e :: es) =
        ((w.step G e).1 :: ((w.step G e).2.run G es).1, ((w.step G e).2.run G es).2) := rfl
    have hspec : specRun (contents w.held) (e :: es) =
        (specStep (contents w.held) e).1 :: specRun (specStep (contents w.held) e).2 es := rfl
    rw [hrun, hspec]
    refine ⟨?_, i2⟩
    simp only
    rw [h1, i1, h2]

end Atree.Buf
