import AtreeProofs.E2EMap.Load
import AtreeProofs.E2E.History
import AtreeProofs.Props.C09Map
import AtreeProofs.Props.C02
/-
  (MAPS) Histories of map operations run against the storage state machine: the invariant `MGood`
  (map invariant, distinct slab IDs, counter above the IDs, everything owned by the map's address,
  storage invariant, representation) is kept by every request.
-/
namespace Atree.E2EM
open Atree Gen MTree
open Atree.E2E (newEffs newEffs_of_log newEffs_self mem_of_find?_some find?_isSome_of_mem_keys
  ne_undef_of_addr)

variable {β : Type} {r : Nat}

theorem applyEffs_nil (c : Codec (MSSlab r) β) (s : St (MSSlab r) β)
    (content : SlabID → Option (MSSlab r)) : applyEffs c s content [] = s := rfl

/-- the invariant of a run -/
structure MGood (c : Codec (MSSlab r) β) (T : Nat) (D : DigestFn (r + 1)) (cfg : MCfg)
    (x : (OMap r × Ctx) × St (MSSlab r) β) : Prop where
  inv : MapInv T D x.1.1
  ids : MIdsOk x.1.1
  ctx : CtxOk x.1.1 x.1.2
  cfg : CfgOk cfg T x.1.1
  aok : MAddrOk x.1.1
  addr : x.1.1.addr ≠ 0
  st : Inv c x.2
  cre : ∀ p ∈ x.1.2.created, p.1.idx ≤ x.1.2.ctr
  rep : ∃ extra, MRep c x.2 x.1.1 extra x.1.2.ctr

theorem mEffectsComplete_mono {m m' : OMap r} {E : List Eff} {cr cr0 : List SlabID}
    (h : MEffectsComplete m m' E cr) : MEffectsComplete m m' E (cr0 ++ cr) :=
  ⟨h.changed_stored, h.gone_removed, fun j hj => (h.stored_in_tree j hj).imp (fun h => h)
    (fun h => List.mem_append.2 (Or.inr h)), h.removed_not_in_tree⟩

/-- ONE STEP, generic. -/
theorem mgood_step (c : Codec (MSSlab r) β) (hc : RoundTrip c) (T : Nat) (D : DigestFn (r + 1))
    (cfg : MCfg) (m : OMap r) (ctx : Ctx) (s : St (MSSlab r) β) (m' : OMap r) (ctx' : Ctx)
    (E : List Eff) (C : List (SlabID × Elem))
    (hg : MGood c T D cfg ((m, ctx), s))
    (hlog : Log ctx ctx' E C)
    (heff : MEffectsComplete m m' E (C.map (·.1)))
    (hfresh : ∀ p ∈ C, p.1.idx ≤ ctx'.ctr)
    (hinv' : MapInv T D m') (hids' : MIdsOk m') (hctx' : CtxOk m' ctx') (haok' : MAddrOk m')
    (hrid : m'.rootID = m.rootID) :
    MGood c T D cfg ((m', ctx'), applyEffs c s (contentOf (m', ctx')) (newEffs ctx ctx')) := by
  have haddr : m'.addr = m.addr := by unfold OMap.addr; rw [hrid]
  have hcre : ctx'.created = ctx.created ++ C := hlog.created
  obtain ⟨extra, hrep⟩ := hg.rep
  have hle : ∀ p ∈ ctx.created ++ C, p.1.idx ≤ ctx'.ctr := by
    intro p hp
    rcases List.mem_append.1 hp with h | h
    · exact Nat.le_trans (hg.cre p h) hlog.ctr_le
    · exact hfresh p h
  have hrep' := rep_step_gen c s m m' extra ctx.ctr ctx'.ctr E (ctx.created ++ C) hrep
    (by rw [List.map_append]; exact mEffectsComplete_mono heff) haddr hg.addr hlog.ctr_le hle
  refine ⟨hinv', hids', hctx', ⟨hg.cfg.1, hg.cfg.2.1, by rw [hg.cfg.2.2, haddr]⟩, haok',
    by show m'.addr ≠ 0; rw [haddr]; exact hg.addr, ?_, by rw [hcre]; exact hle, ?_⟩
  · exact applyEffs_inv c hc s _ _ hg.st
  · refine ⟨extraStep m' E (ctx.created ++ C) extra, ?_⟩
    show MRep c (applyEffs c s (mstored m' (AList.find? ctx'.created)) (newEffs ctx ctx')) m' _ ctx'.ctr
    rw [newEffs_of_log hlog, hcre]
    exact hrep'

theorem mgood_unchanged (c : Codec (MSSlab r) β) (T : Nat) (D : DigestFn (r + 1)) (cfg : MCfg)
    (x : (OMap r × Ctx) × St (MSSlab r) β) (hg : MGood c T D cfg x) :
    MGood c T D cfg (x.1, applyEffs c x.2 (contentOf x.1) (newEffs x.1.2 x.1.2)) := by
  rw [newEffs_self, applyEffs_nil]
  exact hg

/-- new slabs are owned by the map's address -/
theorem maddrOk_of_acct {m m' : OMap r} {c c' : Nat} {E : List Eff} {cr : List SlabID}
    (h : MAcct m.addr c c' (MTree.slabs m.d m.root) (MTree.slabs m'.d m'.root) E cr)
    (haok : MAddrOk m) (hrid : m'.rootID = m.rootID) : MAddrOk m' := by
  intro id hid
  have haddr : m'.addr = m.addr := by unfold OMap.addr; rw [hrid]
  rw [haddr]
  rcases h.keys_new id hid with h1 | h1
  · exact haok id h1
  · exact h1.1

/-- `Set` -/
theorem mgood_set (c : Codec (MSSlab r) β) (hc : RoundTrip c) (T : Nat) (hT : legalThreshold T = true)
    (D : DigestFn (r + 1)) (cfg : MCfg) (x : (OMap r × Ctx) × St (MSSlab r) β)
    (hg : MGood c T D cfg x) (k : MKey) (hk : KeyOk T (r + 1) D k) (v : Elem) (hv : ValueOkM v) :
    MGood c T D cfg (stepS c cfg x (.set k v)) ∧
    (stepS c cfg x (.set k v)).1.1.rootID = x.1.1.rootID := by
  obtain ⟨⟨m, ctx⟩, s⟩ := x
  simp only [stepS, stepM]
  cases hr : m.set cfg k v ctx with
  | error e => exact ⟨mgood_unchanged c T D cfg ((m, ctx), s) hg, rfl⟩
  | ok res =>
    obtain ⟨old, m', ctx'⟩ := res
    simp only
    rcases C02.set_refines T hT D cfg m hg.cfg hg.inv k hk v hv ctx hg.ctx with
      ⟨old2, m2, c2, heq, _, _, _, hinv', hctx', hrid, _, _⟩ | ⟨herr, _⟩
    · rw [hr] at heq
      simp only [Except.ok.injEq, Prod.mk.injEq] at heq
      obtain ⟨_, rfl, rfl⟩ := heq
      obtain ⟨E, C, hlog, hacct, hroot, _⟩ := omap_set_acct hT hg.cfg hg.inv hk hv ctx hg.ctx hg.ids hr
      have heff := mEffectsComplete_of_acct hacct hg.ids hrid hroot
      refine ⟨mgood_step c hc T D cfg m ctx s m' ctx' E C hg hlog.toLog heff ?_ hinv' (hacct.nodup hg.ids)
        hctx' (maddrOk_of_acct hacct hg.aok hrid) hrid, hrid⟩
      intro p hp
      exact (hacct.fresh p.1 (List.mem_map_of_mem hp)).2.2
    · rw [hr] at herr; cases herr

/-- `Remove` -/
theorem mgood_remove (c : Codec (MSSlab r) β) (hc : RoundTrip c) (T : Nat) (hT : legalThreshold T = true)
    (D : DigestFn (r + 1)) (cfg : MCfg) (x : (OMap r × Ctx) × St (MSSlab r) β)
    (hg : MGood c T D cfg x) (k : MKey) (hk : KeyOk T (r + 1) D k) :
    MGood c T D cfg (stepS c cfg x (.remove k)) ∧
    (stepS c cfg x (.remove k)).1.1.rootID = x.1.1.rootID := by
  obtain ⟨⟨m, ctx⟩, s⟩ := x
  simp only [stepS, stepM]
  cases hr : m.remove cfg k ctx with
  | error e => exact ⟨mgood_unchanged c T D cfg ((m, ctx), s) hg, rfl⟩
  | ok res =>
    obtain ⟨k0, v0, m', ctx'⟩ := res
    simp only
    have hs := OMap.remove_spec hT hg.cfg hg.inv hk ctx hg.ctx
    by_cases hex : ∃ w, (k, w) ∈ m.toList
    · obtain ⟨w, hw⟩ := hex
      obtain ⟨m2, c2, heq, hp⟩ := hs.2 w hw
      rw [hr] at heq
      simp only [Except.ok.injEq, Prod.mk.injEq] at heq
      obtain ⟨_, _, rfl, rfl⟩ := heq
      obtain ⟨E, C, hlog, hacct, hroot, hrid⟩ := omap_remove_acct hT hg.cfg hg.inv hk ctx hg.ctx hg.ids hr
      have heff := mEffectsComplete_of_acct hacct hg.ids hrid hroot
      refine ⟨mgood_step c hc T D cfg m ctx s m' ctx' E C hg hlog.toLog heff ?_ hp.inv (hacct.nodup hg.ids)
        hp.ctx (maddrOk_of_acct hacct hg.aok hrid) hrid, hrid⟩
      intro p hp'
      exact (hacct.fresh p.1 (List.mem_map_of_mem hp')).2.2
    · have hne : ∀ p ∈ m.toList, p.1 ≠ k := by
        intro p hp hpk; exact hex ⟨p.2, by rw [← hpk]; exact hp⟩
      rw [hs.1 hne] at hr; cases hr

/-! ### `PopIterate` changes neither the counter nor the created slabs -/

def PopKeep {α : Type} (o : ElemsOps α) : Prop :=
  ∀ e c, (o.popIter e c).2.ctr = c.ctr ∧ (o.popIter e c).2.created = c.created

theorem elem_popKeep {α : Type} {o : ElemsOps α} (ho : PopKeep o) (el : MElemF α) (c : Ctx) :
    (el.popIter o c).2.ctr = c.ctr ∧ (el.popIter o c).2.created = c.created := by
  cases el with
  | single x => exact ⟨rfl, rfl⟩
  | inl g => exact ho g c
  | ext id sz s =>
    obtain ⟨h1, h2⟩ := ho s.elems c
    exact ⟨by simpa [MElemF.popIter, Ctx.emit] using h1, by simpa [MElemF.popIter, Ctx.emit] using h2⟩

theorem hkey_popKeep_fold {α : Type} {o : ElemsOps α} (ho : PopKeep o) :
    ∀ (l : List (MElemF α)) (acc : List (MKey × Elem) × Ctx),
    (l.foldl (fun (acc : List (MKey × Elem) × Ctx) el =>
        let (l, c) := el.popIter o acc.2
        (acc.1 ++ l, c)) acc).2.ctr = acc.2.ctr ∧
    (l.foldl (fun (acc : List (MKey × Elem) × Ctx) el =>
        let (l, c) := el.popIter o acc.2
        (acc.1 ++ l, c)) acc).2.created = acc.2.created
  | [], _ => ⟨rfl, rfl⟩
  | el :: l, acc => by
    obtain ⟨h1, h2⟩ := elem_popKeep ho el acc.2
    obtain ⟨h3, h4⟩ := hkey_popKeep_fold ho l (acc.1 ++ (el.popIter o acc.2).1, (el.popIter o acc.2).2)
    rw [List.foldl_cons]
    simp only at h3 h4 ⊢
    exact ⟨h3.trans h1, h4.trans h2⟩

theorem hkey_popKeep {α : Type} {o : ElemsOps α} (ho : PopKeep o) : PopKeep (HkeyElems.ops o) := by
  intro e c
  exact hkey_popKeep_fold ho e.elems.reverse ([], c)

theorem melems_popKeep : ∀ r, PopKeep (MElems.ops r)
  | 0 => fun _ _ => ⟨rfl, rfl⟩
  | r + 1 => hkey_popKeep (melems_popKeep r)

theorem mtree_popKeep : ∀ (d : Nat) (t : MTree r d) (c : Ctx),
    (MTree.popIterate d t c).2.2.ctr = c.ctr ∧ (MTree.popIterate d t c).2.2.created = c.created
  | 0, (s : MDataSlab r), c => hkey_popKeep_fold (melems_popKeep r) s.elems.elems.reverse ([], c)
  | d + 1, (m : MMetaSlab (MTree r d)), c => by
    have key : ∀ (l : List (MTree r d)) (acc : List (MKey × Elem) × Ctx),
        (l.foldl (fun (acc : List (MKey × Elem) × Ctx) child =>
          let (es, _, c) := MTree.popIterate d child acc.2
          (acc.1 ++ es, c.emit (.remove (MTree.hdr d child).id))) acc).2.ctr = acc.2.ctr ∧
        (l.foldl (fun (acc : List (MKey × Elem) × Ctx) child =>
          let (es, _, c) := MTree.popIterate d child acc.2
          (acc.1 ++ es, c.emit (.remove (MTree.hdr d child).id))) acc).2.created = acc.2.created := by
      intro l
      induction l with
      | nil => intro acc; exact ⟨rfl, rfl⟩
      | cons t l ih =>
        intro acc
        obtain ⟨h1, h2⟩ := mtree_popKeep d t acc.2
        obtain ⟨h3, h4⟩ := ih (acc.1 ++ (MTree.popIterate d t acc.2).1,
          (MTree.popIterate d t acc.2).2.2.emit (.remove (MTree.hdr d t).id))
        rw [List.foldl_cons]
        simp only at h3 h4 ⊢
        exact ⟨h3.trans (by simpa [Ctx.emit] using h1), h4.trans (by simpa [Ctx.emit] using h2)⟩
    simp only [MTree.popIterate]
    exact key m.children.reverse ([], c)

theorem omap_popKeep (m : OMap r) (c : Ctx) :
    (m.popIterate c).2.2.ctr = c.ctr ∧ (m.popIterate c).2.2.created = c.created := by
  obtain ⟨h1, h2⟩ := mtree_popKeep m.d m.root c
  simp only [OMap.popIterate]
  split
  · exact ⟨h1, h2⟩
  · exact ⟨by simpa [Ctx.emit] using h1, by simpa [Ctx.emit] using h2⟩

/-- `PopIterate` -/
theorem mgood_pop (c : Codec (MSSlab r) β) (hc : RoundTrip c) (T : Nat) (hT : legalThreshold T = true)
    (D : DigestFn (r + 1)) (cfg : MCfg) (x : (OMap r × Ctx) × St (MSSlab r) β)
    (hg : MGood c T D cfg x) :
    MGood c T D cfg (stepS c cfg x .popIterate) ∧
    (stepS c cfg x .popIterate).1.1.rootID = x.1.1.rootID := by
  obtain ⟨⟨m, ctx⟩, s⟩ := x
  simp only [stepS, stepM]
  obtain ⟨_, _, _, hinv', hrid⟩ := C02.pop_refines T hT D m hg.inv ctx hg.ctx
  obtain ⟨heff, hkeys, _⟩ := C09Map.pop_releases_all T hT D m hg.inv ctx hg.ctx
  obtain ⟨hctr, hcre⟩ := omap_popKeep m ctx
  obtain ⟨E0, heffs, hE1, _⟩ := omap_pop_log m ctx hg.inv.standalone
  generalize hres : m.popIterate ctx = res at *
  obtain ⟨l, m', ctx'⟩ := res
  simp only at *
  have hkeys' : AList.keys (MTree.slabs m'.d m'.root) = [m.rootID] := hkeys
  have hlog : Log ctx ctx' (E0 ++ [.store m.rootID]) [] := by
    refine ⟨by rw [heffs, List.append_assoc], by simp [hcre], by omega, ?_⟩
    intro addr id hm
    rcases List.mem_append.1 hm with h | h
    · obtain ⟨j, hj⟩ := hE1 _ h; cases hj
    · simp at h
  have hnE : C09Map.newEffects ctx ctx' = E0 ++ [.store m.rootID] := by
    unfold C09Map.newEffects; rw [heffs, List.append_assoc]; exact List.drop_left
  rw [hnE] at heff
  have hroot_old : m.rootID ∈ AList.keys (MTree.slabs m.d m.root) := hdr_id_mem_keys m.d m.root
  refine ⟨mgood_step c hc T D cfg m ctx s m' ctx' _ [] hg hlog heff (by simp) hinv' ?_ ?_ ?_ hrid, hrid⟩
  · show (AList.keys (MTree.slabs m'.d m'.root)).Nodup
    rw [hkeys']; simp
  · intro id hid ha
    have hid' : id ∈ AList.keys (MTree.slabs m'.d m'.root) := by rw [keys_mslabs]; exact hid
    rw [hkeys', List.mem_singleton] at hid'
    rw [hctr, hid']
    refine hg.ctx m.rootID ?_ rfl
    have := hroot_old
    rw [keys_mslabs] at this
    exact this
  · intro id hid
    rw [hkeys', List.mem_singleton] at hid
    rw [hid]
    show m.rootID.addr = m'.rootID.addr
    rw [hrid]

/-- `SetType` -/
theorem mgood_setType (c : Codec (MSSlab r) β) (hc : RoundTrip c) (T : Nat)
    (D : DigestFn (r + 1)) (cfg : MCfg) (x : (OMap r × Ctx) × St (MSSlab r) β)
    (hg : MGood c T D cfg x) (ty : Nat) :
    MGood c T D cfg (stepS c cfg x (.setType ty)) ∧
    (stepS c cfg x (.setType ty)).1.1.rootID = x.1.1.rootID := by
  obtain ⟨⟨m, ctx⟩, s⟩ := x
  simp only [stepS, stepM]
  have hst := hg.inv.standalone
  have hres : m.setType ty ctx = ({ m with ty := ty }, ctx.emit (.store m.rootID)) := by
    unfold OMap.setType; rw [hst]; rfl
  rw [hres]
  have hslabs : ∀ id, id ≠ m.rootID → ({ m with ty := ty } : OMap r).slabAt id = m.slabAt id := by
    intro id hne
    have hne' : ¬ id = ({ m with ty := ty } : OMap r).rootID := hne
    simp only [OMap.slabAt, hne, hne', if_false]
  have hsome : ∀ id, (({ m with ty := ty } : OMap r).slabAt id).isSome = (m.slabAt id).isSome := by
    intro id; simp [OMap.slabAt]
  have hla : ∀ id, lastAction [Eff.store m.rootID] id = if m.rootID = id then some true else none := by
    intro id
    have := lastAction_concat_store [] m.rootID id
    simpa using this
  have hrootin : (m.slabAt m.rootID).isSome := by
    rw [mslabAt_isSome]; exact hdr_id_mem_keys m.d m.root
  have heff : MEffectsComplete m { m with ty := ty } [.store m.rootID]
      (([] : List (SlabID × Elem)).map (·.1)) := by
    refine ⟨?_, ?_, ?_, ?_⟩
    · intro id _ hne
      rw [hla]
      by_cases h : m.rootID = id
      · simp [h]
      · exact absurd (hslabs id (fun e => h e.symm)) hne
    · intro id h1 h2
      have h3 := hsome id
      rw [h1] at h3
      cases hs : ({ m with ty := ty } : OMap r).slabAt id <;> simp_all
    · intro id h
      rw [hla] at h
      split at h
      · rename_i he; subst he
        left
        rw [hsome]; exact hrootin
      · cases h
    · intro id h
      rw [hla] at h
      split at h <;> cases h
  have hinv' : MapInv T D { m with ty := ty } :=
    ⟨hg.inv.tree, hg.inv.chain, hg.inv.count_eq, hg.inv.distinct, by
      have := hg.inv.standalone
      obtain ⟨d, root, ty0, cnt, seed⟩ := m
      cases d <;> exact this⟩
  exact ⟨mgood_step c hc T D cfg m ctx s { m with ty := ty } (ctx.emit (.store m.rootID)) _ [] hg
    (Log.store ctx m.rootID) heff (by simp) hinv' hg.ids hg.ctx hg.aok rfl, rfl⟩

/-- EVERY REQUEST keeps the invariant. -/
theorem mgood_stepS (c : Codec (MSSlab r) β) (hc : RoundTrip c) (T : Nat) (hT : legalThreshold T = true)
    (D : DigestFn (r + 1)) (cfg : MCfg) (x : (OMap r × Ctx) × St (MSSlab r) β)
    (hg : MGood c T D cfg x) (op : MOp) (hop : op.Ok T D) :
    MGood c T D cfg (stepS c cfg x op) ∧ (stepS c cfg x op).1.1.rootID = x.1.1.rootID := by
  cases op with
  | set k v => exact mgood_set c hc T hT D cfg x hg k hop.1 v hop.2
  | remove k => exact mgood_remove c hc T hT D cfg x hg k hop
  | popIterate => exact mgood_pop c hc T hT D cfg x hg
  | setType ty => exact mgood_setType c hc T D cfg x hg ty

theorem mgood_runS (c : Codec (MSSlab r) β) (hc : RoundTrip c) (T : Nat) (hT : legalThreshold T = true)
    (D : DigestFn (r + 1)) (cfg : MCfg) :
    ∀ (ops : List MOp) (x : (OMap r × Ctx) × St (MSSlab r) β), MGood c T D cfg x →
      (∀ op ∈ ops, op.Ok T D) →
      MGood c T D cfg (runS c cfg x ops) ∧ (runS c cfg x ops).1.1.rootID = x.1.1.rootID
  | [], x, hg, _ => ⟨hg, rfl⟩
  | op :: ops, x, hg, hok => by
    obtain ⟨h1, h2⟩ := mgood_stepS c hc T hT D cfg x hg op (hok op (by simp))
    obtain ⟨g1, g2⟩ := mgood_runS c hc T hT D cfg ops (stepS c cfg x op) h1
      (fun o ho => hok o (by simp [ho]))
    exact ⟨g1, g2.trans h2⟩

theorem runS_fst (c : Codec (MSSlab r) β) (cfg : MCfg) :
    ∀ (ops : List MOp) (x : (OMap r × Ctx) × St (MSSlab r) β), (runS c cfg x ops).1 = runM cfg x.1 ops
  | [], _ => rfl
  | op :: ops, x => by
    show (runS c cfg (stepS c cfg x op) ops).1 = runM cfg (stepM cfg x.1 op) ops
    rw [runS_fst c cfg ops]
    rfl

/-! ### `NewMap` -/

theorem mgood_new (c : Codec (MSSlab r) β) (hc : RoundTrip c) (T : Nat) (hT : legalThreshold T = true)
    (D : DigestFn (r + 1)) (cfg : MCfg) (hcT : cfg.T = T) (hcL : cfg.L = r + 1) (haddr : cfg.addr ≠ 0)
    (ty : Nat) (seedOf : SlabID → Nat) :
    MGood c T D cfg (newS c cfg.addr ty seedOf) ∧ (newS c cfg.addr ty seedOf).1.1.rootID = ⟨cfg.addr, 1⟩ := by
  have hG := MapExample.Good.new (r := r) (T := T) (D := D) (cfg := cfg) hT hcT hcL ty seedOf ⟨0, [], []⟩
  have hslabs : MTree.slabs (OMap.new (r := r) cfg.addr ty seedOf ⟨0, [], []⟩).1.d
      (OMap.new (r := r) cfg.addr ty seedOf ⟨0, [], []⟩).1.root
      = [(⟨cfg.addr, 1⟩, .data (emptyRoot r ⟨cfg.addr, 1⟩))] := rfl
  refine ⟨⟨hG.inv, C09Map.new_idsOk cfg.addr ty seedOf _, hG.ctx, hG.cfgok, ?_, haddr, ?_, ?_, ?_⟩, rfl⟩
  · intro id hid
    have hid' : id ∈ AList.keys (MTree.slabs (OMap.new (r := r) cfg.addr ty seedOf ⟨0, [], []⟩).1.d
      (OMap.new (r := r) cfg.addr ty seedOf ⟨0, [], []⟩).1.root) := hid
    rw [hslabs] at hid'
    simp only [AList.keys, List.map_cons, List.map_nil, List.mem_singleton] at hid'
    rw [hid']; rfl
  · exact applyEffs_inv c hc _ _ _ (inv_init c)
  · intro p hp
    exact absurd hp (by simp [newS, OMap.new, Ctx.alloc, Ctx.emit])
  · refine ⟨fun _ => none, ?_, fun id h => by cases h⟩
    intro id hid
    have hid' : id.addr = cfg.addr := hid
    have hu := ne_undef_of_addr hid' haddr
    show (applyEffs c St.init (contentOf (OMap.new (r := r) cfg.addr ty seedOf ⟨0, [], []⟩))
        [Eff.alloc cfg.addr ⟨cfg.addr, 1⟩, Eff.store ⟨cfg.addr, 1⟩]).view c id
      = mstored (OMap.new (r := r) cfg.addr ty seedOf ⟨0, [], []⟩).1 (fun _ => none) id
    have hcontent : ∀ j, contentOf (OMap.new (r := r) cfg.addr ty seedOf ⟨0, [], []⟩) j
        = mstored (OMap.new (r := r) cfg.addr ty seedOf ⟨0, [], []⟩).1 (fun _ => none) j := by
      intro j
      show mstored _ (AList.find? []) j = _
      rfl
    by_cases hroot : (⟨cfg.addr, 1⟩ : SlabID) = id
    · subst hroot
      have hcs : (contentOf (OMap.new (r := r) cfg.addr ty seedOf ⟨0, [], []⟩) ⟨cfg.addr, 1⟩).isSome := by
        simp [contentOf, mstored, OMap.slabAt, hslabs, AList.find?]
      rw [view_applyEffs c St.init _ _ _ hu (fun _ => hcs), E2E.lastAction_new, if_pos rfl, hcontent]
    · rw [view_applyEffs c St.init _ _ id hu (by rw [E2E.lastAction_new, if_neg hroot]; intro h; cases h),
        E2E.lastAction_new, if_neg hroot]
      simp [St.view, St.init, St.fresh, mstored, OMap.slabAt, hslabs, AList.find?, hroot]

end Atree.E2EM
