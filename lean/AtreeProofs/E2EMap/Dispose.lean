import AtreeProofs.E2EMapDisposeSpec
import AtreeProofs.E2EMap.HistoryFull
import AtreeProofs.Map.Refs
import AtreeProofs.Props.C09MapRefs
/-
  (MAPS) Histories with DISPOSAL run against the storage state machine: the invariant `MGoodD`
  (`E2EMapDisposeSpec.lean`; in particular the exact-heap statement `rep.view`) is kept by every
  request followed by the disposal of what it handed back.
-/
namespace Atree.E2EMD
open Atree Gen MTree St
open Atree.E2E (newEffs newEffs_of_log newEffs_self mem_of_find?_some find?_isSome_of_mem_keys
  ne_undef_of_addr find?_append)
open Atree.E2EM (MSSlab MRep MGood mstored contentOf applyEffs stepS stepM MOp extraStep MAddrOk)

variable {β : Type} {r : Nat}

/-! ### the disposal calls on the storage -/

theorem disposeOps_eq (content : SlabID → Option (MSSlab r)) (ids : List SlabID) :
    E2EM.effOps content (ids.map Eff.remove) = disposeOps ids := by
  induction ids with
  | nil => rfl
  | cons i ids ih =>
    have : E2EM.effOps content ((i :: ids).map Eff.remove)
        = E2EM.effOp content (.remove i) ++ E2EM.effOps content (ids.map Eff.remove) := by
      simp [E2EM.effOps]
    rw [this, ih]
    rfl

theorem lastAction_removes (ids : List SlabID) (id : SlabID) :
    lastAction (ids.map Eff.remove) id = if id ∈ ids then some false else none := by
  have h := lastAction_only_removes (ids.map Eff.remove)
    (by intro e he; obtain ⟨j, _, rfl⟩ := List.mem_map.1 he; exact ⟨j, rfl⟩) id
  by_cases hin : id ∈ ids
  · rw [if_pos hin]
    exact h.1.2 (List.mem_map.2 ⟨id, hin, rfl⟩)
  · rw [if_neg hin]
    cases hl : lastAction (ids.map Eff.remove) id with
    | none => rfl
    | some b =>
      cases b with
      | true => exact absurd hl h.2
      | false =>
        obtain ⟨j, hj, he⟩ := List.mem_map.1 (h.1.1 hl)
        simp only [Eff.remove.injEq] at he
        exact absurd (he ▸ hj) hin

/-- the view after `storage.Remove(id)` for every `id ∈ ids` -/
theorem view_dispose (c : Codec (MSSlab r) β) (s : St (MSSlab r) β) (ids : List SlabID) (id : SlabID)
    (hid : id ≠ SlabID.undef) :
    (St.run c s (disposeOps ids)).view c id = if id ∈ ids then none else s.view c id := by
  rw [← disposeOps_eq (fun _ => none) ids]
  show (applyEffs c s (fun _ => none) (ids.map Eff.remove)).view c id = _
  rw [E2EM.view_applyEffs c s _ _ id hid (by rw [lastAction_removes]; split <;> (intro h; cases h)),
    lastAction_removes]
  by_cases hin : id ∈ ids
  · simp only [hin, if_true]
  · simp only [hin, if_false]

/-! ### the live large-value slabs after the storage calls of a request -/

/-- `extraStep` applied to the live slabs of the old map: the old references and the created
    slabs are live, nothing else -/
theorem extraStep_live (m m' : OMap r) (E : List Eff) (old C : List (SlabID × Elem)) (ctr : Nat)
    (R : List SlabID)
    (hR : ∀ id ∈ R, (m.slabAt id).isNone ∧ id.idx ≤ ctr ∧ (AList.find? old id).isSome ∧ (m'.slabAt id).isNone)
    (hfoot : ∀ id, lastAction E id ≠ none → (m.slabAt id).isSome ∨ ctr < id.idx)
    (hstored : ∀ id, lastAction E id = some true → (m'.slabAt id).isSome ∨ id ∈ C.map (·.1))
    (hC : ∀ id ∈ C.map (·.1), lastAction E id = some true ∧ (m'.slabAt id).isNone) (id : SlabID) :
    extraStep m' E (old ++ C) (fun j => if j ∈ R then AList.find? old j else none) id
      = if id ∈ R ∨ id ∈ C.map (·.1) then AList.find? (old ++ C) id else none := by
  unfold extraStep
  by_cases hRin : id ∈ R
  · obtain ⟨h1, h2, h3, h4⟩ := hR id hRin
    have hs' : (m'.slabAt id).isSome = false := by cases hs : m'.slabAt id <;> simp_all
    have hla : lastAction E id = none := by
      apply Classical.byContradiction
      intro hne
      rcases hfoot id hne with h | h
      · cases hs : m.slabAt id <;> simp_all
      · omega
    rw [find?_append]
    cases hf : AList.find? old id with
    | none => rw [hf] at h3; cases h3
    | some w => simp [hs', hla, hRin, hf]
  · by_cases hCin : id ∈ C.map (·.1)
    · obtain ⟨h1, h2⟩ := hC id hCin
      have hs' : (m'.slabAt id).isSome = false := by cases hs : m'.slabAt id <;> simp_all
      have hyes : id ∈ R ∨ id ∈ C.map (·.1) := Or.inr hCin
      simp only [hs', h1, Bool.false_eq_true, if_false]
      rw [if_pos hyes]
    · have hno : ¬ (id ∈ R ∨ id ∈ C.map (·.1)) := fun h => h.elim hRin hCin
      rw [if_neg hno]
      split
      · rfl
      · split
        · rename_i hl
          rcases hstored id hl with h | h
          · simp_all
          · exact absurd h hCin
        · rfl
        · simp only [hRin, if_false]

/-! ### one step, generic -/

theorem MGoodD.toMGood {c : Codec (MSSlab r) β} {T : Nat} {D : DigestFn (r + 1)} {cfg : MCfg}
    {x : (OMap r × Ctx) × St (MSSlab r) β} (h : MGoodD c T D cfg x) : MGood c T D cfg x :=
  ⟨h.inv, h.ids, h.ctx, h.cfg, h.aok, h.addr, h.st, h.cre, ⟨_, h.rep⟩⟩

/-- ONE STEP, generic: the storage calls `E` of a request (complete account of the change of the
    tree, created slabs `C` stored and outside the new tree), then the disposal of `H`, where the
    references of the new map together with `H` are the old references together with `C`. -/
theorem mgoodD_step (c : Codec (MSSlab r) β) (hc : RoundTrip c) (T : Nat) (D : DigestFn (r + 1))
    (cfg : MCfg) (m : OMap r) (ctx : Ctx) (s : St (MSSlab r) β) (m' : OMap r) (ctx' : Ctx)
    (E : List Eff) (C : List (SlabID × Elem)) (H : List SlabID)
    (hg : MGoodD c T D cfg ((m, ctx), s))
    (hlog : Log ctx ctx' E C)
    (heff : MEffectsComplete m m' E (C.map (·.1)))
    (hfoot : ∀ id, lastAction E id ≠ none → (m.slabAt id).isSome ∨ ctx.ctr < id.idx)
    (hcr : CreatedOk m.addr ctx.ctr ctx'.ctr E (C.map (·.1)) (AList.keys (MTree.slabs m'.d m'.root)))
    (hg' : MGood c T D cfg ((m', ctx'), applyEffs c s (contentOf (m', ctx')) (newEffs ctx ctx')))
    (hrefs' : MRefsOk m' ctx'.ctr)
    (hold : ∀ id ∈ m.refIds, id ∉ AList.keys (MTree.slabs m'.d m'.root))
    (hU : ∀ id, (id ∈ m'.refIds ∨ id ∈ H) ↔ (id ∈ m.refIds ∨ id ∈ C.map (·.1)))
    (hH : ∀ id ∈ H, id ∉ m'.refIds)
    (hrid : m'.rootID = m.rootID) :
    MGoodD c T D cfg ((m', ctx'),
      St.run c (applyEffs c s (contentOf (m', ctx')) (newEffs ctx ctx')) (disposeOps H)) := by
  have haddr : m'.addr = m.addr := by unfold OMap.addr; rw [hrid]
  have hcre : ctx'.created = ctx.created ++ C := hlog.created
  have heff' : MEffectsComplete m m' E ((ctx.created ++ C).map (·.1)) := by
    rw [List.map_append]; exact E2EM.mEffectsComplete_mono heff
  have hle' : ∀ p ∈ ctx.created ++ C, p.1.idx ≤ ctx'.ctr := by
    intro p hp; rw [← hcre] at hp; exact hg'.cre p hp
  have hrep1 := E2EM.rep_step_gen c s m m' (live (m, ctx)) ctx.ctr ctx'.ctr E (ctx.created ++ C) hg.rep
    heff' haddr hg.addr hlog.ctr_le hle'
  have hex := extraStep_live m m' E ctx.created C ctx.ctr m.refIds
    (by
      intro id hid
      obtain ⟨h1, _, _, h4⟩ := hg.refs.2 id hid
      exact ⟨(mslabAt_isNone m id).2 h1, h4, hg.nodang id hid, (mslabAt_isNone m' id).2 (hold id hid)⟩)
    hfoot heff.stored_in_tree
    (by
      intro id hid
      obtain ⟨h1, h2, _⟩ := hcr id hid
      exact ⟨h1, (mslabAt_isNone m' id).2 h2⟩)
  have hnodang' : ∀ id ∈ m'.refIds, (AList.find? ctx'.created id).isSome := by
    intro id hid
    rw [hcre]
    rcases (hU id).1 (Or.inl hid) with h | h
    · have := hg.nodang id h
      rw [find?_append]
      cases hf : AList.find? ctx.created id with
      | none => rw [hf] at this; cases this
      | some w => rfl
    · exact find?_isSome_of_mem_keys (by rw [List.map_append]; exact List.mem_append.2 (Or.inr h))
  refine ⟨hg'.inv, hg'.ids, hg'.ctx, hg'.cfg, hg'.aok, hg'.addr, inv_run c hc _ _ hg'.st, hg'.cre, hrefs',
    hnodang', ?_, ?_⟩
  · -- the exact heap
    intro id hid
    have hid0 : id.addr = m.addr := hid.trans haddr
    have hu := ne_undef_of_addr hid0 hg.addr
    rw [view_dispose c _ H id hu]
    have hv1 : (applyEffs c s (contentOf (m', ctx')) (newEffs ctx ctx')).view c id
        = mstored m' (extraStep m' E (ctx.created ++ C) (live (m, ctx))) id := by
      have := hrep1.view id hid
      simp only [contentOf, newEffs_of_log hlog, hcre]
      exact this
    by_cases hHin : id ∈ H
    · rw [if_pos hHin]
      have hnr := hH id hHin
      have hnt : id ∉ AList.keys (MTree.slabs m'.d m'.root) := by
        rcases (hU id).1 (Or.inr hHin) with h | h
        · exact hold id h
        · exact (hcr id h).2.1
      have hs : m'.slabAt id = none := by
        have := (mslabAt_isNone m' id).2 hnt
        cases hs : m'.slabAt id <;> simp_all
      rw [E2EM.mstored_of_none hs]
      simp [live, hnr]
    · rw [if_neg hHin, hv1]
      cases hs : m'.slabAt id with
      | some p => rw [E2EM.mstored_of_some hs, E2EM.mstored_of_some hs]
      | none =>
        rw [E2EM.mstored_of_none hs, E2EM.mstored_of_none hs]
        congr 1
        have hx := hex id
        show extraStep m' E (ctx.created ++ C)
            (fun j => if j ∈ m.refIds then AList.find? ctx.created j else none) id
          = if id ∈ m'.refIds then AList.find? ctx'.created id else none
        rw [hx, hcre]
        have hiff : id ∈ m'.refIds ↔ (id ∈ m.refIds ∨ id ∈ C.map (·.1)) := by
          constructor
          · intro h; exact (hU id).1 (Or.inl h)
          · intro h
            rcases (hU id).2 h with h1 | h1
            · exact h1
            · exact absurd h1 hHin
        by_cases hin : id ∈ m'.refIds
        · rw [if_pos hin, if_pos (hiff.1 hin)]
        · rw [if_neg hin, if_neg (fun h => hin (hiff.2 h))]
  · intro id hsome
    simp only [live] at hsome
    split at hsome
    · rename_i hin
      obtain ⟨h1, _, _, h4⟩ := hrefs'.2 id hin
      exact ⟨(mslabAt_isNone m' id).2 h1, h4⟩
    · cases hsome

/-- a request that changes nothing and hands back nothing -/
theorem mgoodD_unchanged (c : Codec (MSSlab r) β) (T : Nat) (D : DigestFn (r + 1)) (cfg : MCfg)
    (x : (OMap r × Ctx) × St (MSSlab r) β) (hg : MGoodD c T D cfg x) :
    MGoodD c T D cfg (x.1, St.run c (applyEffs c x.2 (contentOf x.1) (newEffs x.1.2 x.1.2)) (disposeOps [])) := by
  rw [newEffs_self, E2EM.applyEffs_nil]
  exact hg

theorem refsOfVals_map_snd (l : List (MKey × Elem)) : refsOfVals (l.map (·.2)) = OMap.refsOf l := by
  simp only [refsOfVals, OMap.refsOf, List.filterMap_map]
  congr 1

theorem mem_refsOfVals_singleton {e : Elem} {id : SlabID} : id ∈ refsOfVals [e] ↔ e.pay = .ref id := by
  simp only [refsOfVals, List.filterMap_cons, List.filterMap_nil]
  cases hp : e.pay with
  | ref y =>
    simp only [List.mem_singleton, Pay.ref.injEq]
    exact ⟨fun h => h.symm, fun h => h.symm⟩
  | val n => simp

/-! ### the requests -/

/-- `Set`, then disposal of an overwritten reference -/
theorem mgoodD_set (c : Codec (MSSlab r) β) (hc : RoundTrip c) (T : Nat) (hT : legalThreshold T = true)
    (D : DigestFn (r + 1)) (cfg : MCfg) (x : (OMap r × Ctx) × St (MSSlab r) β)
    (hg : MGoodD c T D cfg x) (k : MKey) (hk : KeyOk T (r + 1) D k) (v : Elem) (hv : ValueOkM v) :
    MGoodD c T D cfg (stepD c cfg x (.set k v)) := by
  have hgS := E2EM.mgood_set c hc T hT D cfg x hg.toMGood k hk v hv
  obtain ⟨⟨m, ctx⟩, s⟩ := x
  simp only [stepD, handedBack]
  simp only [stepS, stepM] at hgS ⊢
  cases hr : m.set cfg k v ctx with
  | error e =>
    simp only
    exact mgoodD_unchanged c T D cfg ((m, ctx), s) hg
  | ok res =>
    obtain ⟨old, m', ctx'⟩ := res
    rw [hr] at hgS
    simp only at hgS ⊢
    obtain ⟨E, C, hlog, hacct, hroot, hrid⟩ := omap_set_acct hT hg.cfg hg.inv hk hv ctx hg.ctx hg.ids hr
    obtain ⟨E', C', hlog', hcr, _, hC⟩ := E2EM.omap_set_created hT hg.cfg hg.inv hk hv ctx hg.ctx hg.ids hr
    obtain ⟨rfl, rfl⟩ := hlog.toLog.unique hlog'.toLog
    have heff := mEffectsComplete_of_acct hacct hg.ids hrid hroot
    obtain ⟨hfoot, _⟩ := E2EM.mfoot_of_acct hacct
    obtain ⟨g1, _, g3, g4, g5, g6, _⟩ := omap_set_refs hT hg.cfg hg.inv hk hv ctx hg.ctx hg.ids hg.refs hr
    have hold : ∀ id ∈ m.refIds, id ∉ AList.keys (MTree.slabs m'.d m'.root) := by
      intro id hid
      obtain ⟨h1, _, _, h4⟩ := hg.refs.2 id hid
      exact ref_not_in_new_tree hacct h1 h4
    -- the created slabs are the reference created for `v`, if any
    have hCiff : ∀ id, id ∈ C.map (·.1) ↔ (storedValue cfg k v ctx).pay = .ref id := by
      intro id
      rcases storedValue_cases cfg k v ctx hv with ⟨h1, h2⟩ | ⟨h1, _, h3⟩
      · rw [h2] at hC
        have : C = [] := List.append_cancel_left (by rw [List.append_nil]; exact hC)
        subst this
        obtain ⟨_, n, hn⟩ := hv
        rw [h1, hn]
        simp
      · rw [h3] at hC
        have : C = [((⟨cfg.addr, ctx.ctr + 1⟩ : SlabID), v)] := List.append_cancel_left hC
        subst this
        rw [h1]
        simp only [List.map_cons, List.map_nil, List.mem_singleton, Pay.ref.injEq]
        exact ⟨fun h => h.symm, fun h => h.symm⟩
    -- what is handed back
    have key : ∀ H : List SlabID, (∀ id, id ∈ H ↔ ∃ v0, old = some v0 ∧ v0.pay = .ref id) →
        MGoodD c T D cfg ((m', ctx'),
          St.run c (applyEffs c s (contentOf (m', ctx')) (newEffs ctx ctx')) (disposeOps H)) := by
      intro H hHiff
      refine mgoodD_step c hc T D cfg m ctx s m' ctx' E C H hg hlog.toLog heff hfoot hcr hgS.1 g1 hold ?_ ?_ hrid
      · intro id
        rw [hHiff, hCiff]
        constructor
        · rintro (h | ⟨v0, h1, h2⟩)
          · exact g3 id h
          · exact Or.inl (g4 v0 id h1 h2).1
        · rintro (h | h)
          · rcases g6 id h with h1 | h1
            · exact Or.inl h1
            · exact Or.inr h1
          · exact Or.inl (g5 id h).2.1
      · intro id hid
        obtain ⟨v0, h1, h2⟩ := (hHiff id).1 hid
        exact (g4 v0 id h1 h2).2.1
    cases old with
    | none =>
      refine key _ ?_
      intro id
      show id ∈ refsOfVals [] ↔ _
      simp [refsOfVals]
    | some o =>
      refine key _ ?_
      intro id
      show id ∈ refsOfVals [o] ↔ _
      rw [mem_refsOfVals_singleton]
      simp only [Option.some.injEq]
      exact ⟨fun h => ⟨o, rfl, h⟩, fun ⟨v0, h1, h2⟩ => h1 ▸ h2⟩

/-- `Remove`, then disposal of a removed reference -/
theorem mgoodD_remove (c : Codec (MSSlab r) β) (hc : RoundTrip c) (T : Nat) (hT : legalThreshold T = true)
    (D : DigestFn (r + 1)) (cfg : MCfg) (x : (OMap r × Ctx) × St (MSSlab r) β)
    (hg : MGoodD c T D cfg x) (k : MKey) (hk : KeyOk T (r + 1) D k) :
    MGoodD c T D cfg (stepD c cfg x (.remove k)) := by
  have hgS := E2EM.mgood_remove c hc T hT D cfg x hg.toMGood k hk
  obtain ⟨⟨m, ctx⟩, s⟩ := x
  simp only [stepD, handedBack]
  simp only [stepS, stepM] at hgS ⊢
  cases hr : m.remove cfg k ctx with
  | error e =>
    simp only
    exact mgoodD_unchanged c T D cfg ((m, ctx), s) hg
  | ok res =>
    obtain ⟨k0, v0, m', ctx'⟩ := res
    rw [hr] at hgS
    simp only at hgS ⊢
    obtain ⟨E, C, hlog, hacct, hroot, hrid⟩ := omap_remove_acct hT hg.cfg hg.inv hk ctx hg.ctx hg.ids hr
    obtain ⟨E', hlog', _⟩ := E2EM.omap_remove_created hT hg.cfg hg.inv hk ctx hg.ctx hg.ids hr
    obtain ⟨rfl, rfl⟩ := hlog.toLog.unique hlog'.toLog
    have heff := mEffectsComplete_of_acct hacct hg.ids hrid hroot
    obtain ⟨hfoot, _⟩ := E2EM.mfoot_of_acct hacct
    obtain ⟨g1, _, _, g2, g3, g4⟩ := omap_remove_refs hT hg.cfg hg.inv hk ctx hg.ctx hg.ids hg.refs hr
    have hold : ∀ id ∈ m.refIds, id ∉ AList.keys (MTree.slabs m'.d m'.root) := by
      intro id hid
      obtain ⟨h1, _, _, h4⟩ := hg.refs.2 id hid
      exact ref_not_in_new_tree hacct h1 h4
    refine mgoodD_step c hc T D cfg m ctx s m' ctx' E [] _ hg hlog.toLog heff hfoot
      (CreatedOk.nil _ _ _ _ _) hgS.1 g1 hold ?_ ?_ hrid
    · intro id
      rw [mem_refsOfVals_singleton]
      simp only [List.map_nil, List.not_mem_nil, or_false]
      constructor
      · rintro (h | h)
        · exact g2 id h
        · exact (g3 id h).1
      · intro h; exact g4 id h
    · intro id hid
      exact (g3 id (mem_refsOfVals_singleton.1 hid)).2.1

/-- `PopIterate`, then disposal of every reference -/
theorem mgoodD_pop (c : Codec (MSSlab r) β) (hc : RoundTrip c) (T : Nat) (hT : legalThreshold T = true)
    (D : DigestFn (r + 1)) (cfg : MCfg) (x : (OMap r × Ctx) × St (MSSlab r) β)
    (hg : MGoodD c T D cfg x) :
    MGoodD c T D cfg (stepD c cfg x .popIterate) := by
  have hgS := E2EM.mgood_pop c hc T hT D cfg x hg.toMGood
  obtain ⟨⟨m, ctx⟩, s⟩ := x
  simp only [stepD, handedBack]
  simp only [stepS, stepM] at hgS ⊢
  obtain ⟨hnil, hrefs', _, _, hl1, hl2, _, _, _⟩ := C09Map.refs_popIterate T hT D m hg.inv ctx hg.ctx hg.refs
  obtain ⟨heff, hkeys, _⟩ := C09Map.pop_releases_all T hT D m hg.inv ctx hg.ctx
  obtain ⟨hctr, hcre⟩ := E2EM.omap_popKeep m ctx
  obtain ⟨E0, heffs, hE1⟩ := E2EM.omap_pop_foot m ctx hg.inv
  rw [refsOfVals_map_snd]
  generalize hres : m.popIterate ctx = res at *
  obtain ⟨l, m', ctx'⟩ := res
  simp only at *
  have hkeys' : AList.keys (MTree.slabs m'.d m'.root) = [m.rootID] := hkeys
  have hrem : ∀ e ∈ E0, ∃ i, e = Eff.remove i := fun e he => by
    obtain ⟨j, rfl, _⟩ := hE1 e he; exact ⟨j, rfl⟩
  have hlog : Log ctx ctx' (E0 ++ [.store m.rootID]) [] := by
    refine ⟨by rw [heffs, List.append_assoc], by simp [hcre], by omega, ?_⟩
    intro addr id hm
    rcases List.mem_append.1 hm with h | h
    · obtain ⟨j, hj⟩ := hrem _ h; cases hj
    · simp at h
  have hnE : C09Map.newEffects ctx ctx' = E0 ++ [.store m.rootID] := by
    unfold C09Map.newEffects; rw [heffs, List.append_assoc]; exact List.drop_left
  rw [hnE] at heff
  have hroot_old : m.rootID ∈ AList.keys (MTree.slabs m.d m.root) := hdr_id_mem_keys m.d m.root
  have hfoot : ∀ id, lastAction (E0 ++ [.store m.rootID]) id ≠ none →
      (m.slabAt id).isSome ∨ ctx.ctr < id.idx := by
    intro id hne
    left
    rw [mslabAt_isSome]
    rw [lastAction_concat_store] at hne
    split at hne
    · rename_i he; subst he; exact hroot_old
    · have h5 := lastAction_only_removes E0 hrem id
      cases hl : lastAction E0 id with
      | none => exact absurd hl hne
      | some b =>
        cases b with
        | true => exact absurd hl h5.2
        | false =>
          obtain ⟨j, hje, hj⟩ := hE1 _ (h5.1.1 hl)
          cases hje
          rw [mslabs_eq, keys_cons']
          exact List.mem_cons_of_mem _ hj
  have hrid : m'.rootID = m.rootID := hgS.2
  have hold : ∀ id ∈ m.refIds, id ∉ AList.keys (MTree.slabs m'.d m'.root) := by
    intro id hid
    rw [hkeys', List.mem_singleton]
    intro he
    exact (hg.refs.2 id hid).1 (he ▸ hroot_old)
  refine mgoodD_step c hc T D cfg m ctx s m' ctx' _ [] _ hg hlog heff hfoot
    (CreatedOk.nil _ _ _ _ _) hgS.1 hrefs' hold ?_ ?_ hrid
  · intro id
    rw [hnil, hl2]
    simp
  · intro id _
    rw [hnil]
    simp

/-- `SetType` hands back nothing -/
theorem mgoodD_setType (c : Codec (MSSlab r) β) (hc : RoundTrip c) (T : Nat)
    (D : DigestFn (r + 1)) (cfg : MCfg) (x : (OMap r × Ctx) × St (MSSlab r) β)
    (hg : MGoodD c T D cfg x) (ty : Nat) :
    MGoodD c T D cfg (stepD c cfg x (.setType ty)) := by
  have hgS := E2EM.mgood_setType c hc T D cfg x hg.toMGood ty
  obtain ⟨⟨m, ctx⟩, s⟩ := x
  simp only [stepD, handedBack]
  simp only [stepS, stepM] at hgS ⊢
  have hst := hg.inv.standalone
  have hres : m.setType ty ctx = ({ m with ty := ty }, ctx.emit (.store m.rootID)) := by
    unfold OMap.setType; rw [hst]; rfl
  rw [hres] at hgS ⊢
  have hslabs : ∀ id, id ≠ m.rootID → ({ m with ty := ty } : OMap r).slabAt id = m.slabAt id := by
    intro id hne
    have hne' : ¬ id = ({ m with ty := ty } : OMap r).rootID := hne
    simp only [OMap.slabAt, hne, hne', if_false]
  have hsome : ∀ id, (({ m with ty := ty } : OMap r).slabAt id).isSome = (m.slabAt id).isSome := by
    intro id; simp [OMap.slabAt]
  have hla : ∀ id, lastAction [Eff.store m.rootID] id = if m.rootID = id then some true else none := by
    intro id
    have := lastAction_concat_store [] m.rootID id
    simpa using this
  have hrootin : (m.slabAt m.rootID).isSome := by
    rw [mslabAt_isSome]; exact hdr_id_mem_keys m.d m.root
  have heff : MEffectsComplete m { m with ty := ty } [.store m.rootID]
      (([] : List (SlabID × Elem)).map (·.1)) := by
    refine ⟨?_, ?_, ?_, ?_⟩
    · intro id _ hne
      rw [hla]
      by_cases h : m.rootID = id
      · simp [h]
      · exact absurd (hslabs id (fun e => h e.symm)) hne
    · intro id h1 h2
      have h3 := hsome id
      rw [h1] at h3
      cases hs : ({ m with ty := ty } : OMap r).slabAt id <;> simp_all
    · intro id h
      rw [hla] at h
      split at h
      · rename_i he; subst he
        left
        rw [hsome]; exact hrootin
      · cases h
    · intro id h
      rw [hla] at h
      split at h <;> cases h
  have hfoot : ∀ id, lastAction [Eff.store m.rootID] id ≠ none →
      (m.slabAt id).isSome ∨ ctx.ctr < id.idx := by
    intro id hne
    rw [hla] at hne
    split at hne
    · rename_i he; subst he
      exact Or.inl hrootin
    · exact absurd rfl hne
  refine mgoodD_step c hc T D cfg m ctx s { m with ty := ty } (ctx.emit (.store m.rootID)) _ [] []
    hg (Log.store ctx m.rootID) heff hfoot (CreatedOk.nil _ _ _ _ _) hgS.1 hg.refs ?_ ?_ ?_ rfl
  · intro id hid; exact (hg.refs.2 id hid).1
  · intro id
    show (id ∈ m.refIds ∨ id ∈ []) ↔ _
    simp
  · intro id hid; cases hid

/-- EVERY REQUEST followed by the disposal of what it handed back keeps the invariant. -/
theorem mgoodD_stepD (c : Codec (MSSlab r) β) (hc : RoundTrip c) (T : Nat) (hT : legalThreshold T = true)
    (D : DigestFn (r + 1)) (cfg : MCfg) (x : (OMap r × Ctx) × St (MSSlab r) β)
    (hg : MGoodD c T D cfg x) (op : MOp) (hop : op.Ok T D) :
    MGoodD c T D cfg (stepD c cfg x op) ∧ (stepD c cfg x op).1 = stepM cfg x.1 op := by
  refine ⟨?_, rfl⟩
  cases op with
  | set k v => exact mgoodD_set c hc T hT D cfg x hg k hop.1 v hop.2
  | remove k => exact mgoodD_remove c hc T hT D cfg x hg k hop
  | popIterate => exact mgoodD_pop c hc T hT D cfg x hg
  | setType ty => exact mgoodD_setType c hc T D cfg x hg ty

theorem runD_fst (c : Codec (MSSlab r) β) (cfg : MCfg) :
    ∀ (ops : List MOp) (x : (OMap r × Ctx) × St (MSSlab r) β), (runD c cfg x ops).1 = E2EM.runM cfg x.1 ops
  | [], _ => rfl
  | op :: ops, x => by
    show (runD c cfg (stepD c cfg x op) ops).1 = E2EM.runM cfg (stepM cfg x.1 op) ops
    rw [runD_fst c cfg ops]
    rfl

theorem mgoodD_runD (c : Codec (MSSlab r) β) (hc : RoundTrip c) (T : Nat) (hT : legalThreshold T = true)
    (D : DigestFn (r + 1)) (cfg : MCfg) :
    ∀ (ops : List MOp) (x : (OMap r × Ctx) × St (MSSlab r) β), MGoodD c T D cfg x →
      (∀ op ∈ ops, op.Ok T D) → MGoodD c T D cfg (runD c cfg x ops)
  | [], _, hg, _ => hg
  | op :: ops, x, hg, hok =>
    mgoodD_runD c hc T hT D cfg ops (stepD c cfg x op)
      (mgoodD_stepD c hc T hT D cfg x hg op (hok op (by simp))).1 (fun o ho => hok o (by simp [ho]))

/-! ### `NewMap` -/

theorem mgoodD_new (c : Codec (MSSlab r) β) (hc : RoundTrip c) (T : Nat) (hT : legalThreshold T = true)
    (D : DigestFn (r + 1)) (cfg : MCfg) (hcT : cfg.T = T) (hcL : cfg.L = r + 1) (haddr : cfg.addr ≠ 0)
    (ty : Nat) (seedOf : SlabID → Nat) :
    MGoodD c T D cfg (E2EM.newS c cfg.addr ty seedOf) := by
  obtain ⟨g, _, _, _, _⟩ := E2EM.mgoodF_new c hc T hT D cfg hcT hcL haddr ty seedOf
  have hcre : (E2EM.newS c cfg.addr ty seedOf).1.2.created = [] := rfl
  have hrefs : (E2EM.newS c cfg.addr ty seedOf).1.1.refIds = [] := rfl
  have hlive : live (E2EM.newS c cfg.addr ty seedOf).1 = AList.find? (E2EM.newS c cfg.addr ty seedOf).1.2.created := by
    funext id
    simp [live, hrefs, hcre]
  refine ⟨g.inv, g.ids, g.ctx, g.cfg, g.aok, g.addr, g.st, g.created_le, ?_, ?_, ?_⟩
  · exact (C09Map.refs_new cfg.addr ty seedOf ⟨0, [], []⟩).2
  · intro id hid; rw [hrefs] at hid; cases hid
  · rw [hlive]; exact g.rep

end Atree.E2EMD
