import AtreeProofs.E2EMap.History
import AtreeProofs.E2EMap.Created
/-
  (MAPS) Histories of map operations run against the storage state machine, FULL invariant
  (`MGoodF`): as `MGood` (`E2EMap/History.lean`), and
  * the live large-value slabs are exactly the slabs created so far (`extra = find? ctx.created`),
  * the storage's allocation counter agrees with the model's (`MAllocSync`),
  * no value of the map is a dangling reference (`MRefsOk`),
  * every pending store is owned by the map's address (`pend`),
  and the dictionary of resolved values follows the dictionary semantics of the requests
  (`DictStep`, from C02 `set_refines` / `remove_refines` / `pop_refines`).
-/
namespace Atree.E2EM
open Atree Gen MTree St
open Atree.E2E (newEffs newEffs_of_log newEffs_self mem_of_find?_some find?_isSome_of_mem_keys
  ne_undef_of_addr allocCount allocCount_eq resolve find?_append)

variable {β : Type} {r : Nat}

/-! ### pending entries after a log (as for arrays) -/

theorem find?_deltas_undefI (c : Codec (MSSlab r) β) :
    ∀ (EC : List (Eff × (SlabID → Option (MSSlab r)))) (s : St (MSSlab r) β),
    AList.find? (applyEffsI c s EC).deltas SlabID.undef = AList.find? s.deltas SlabID.undef
  | [], _ => rfl
  | p :: EC, s => by
    unfold applyEffsI
    rw [effOpsI_cons, run_append]
    have ih := find?_deltas_undefI c EC (St.run c s (effOp p.2 p.1))
    unfold applyEffsI at ih
    rw [ih]
    obtain ⟨e, cf⟩ := p
    cases e with
    | alloc a g =>
      by_cases ha : a = 0 <;> simp [effOp, St.run, St.step, St.generateSlabID, ha]
    | store i =>
      simp only [effOp]
      cases hcf : cf i with
      | none => simp [St.run]
      | some v =>
        by_cases hu : i = SlabID.undef
        · simp [St.run, St.step, St.store, hu]
        · simp [St.run, St.step, St.store, hu, AList.find?_insert]
    | remove i =>
      simp only [effOp]
      by_cases hu : i = SlabID.undef
      · simp [St.run, St.step, St.remove, hu]
      · simp [St.run, St.step, St.remove, hu, AList.find?_insert]

/-- the pending entry of `id` after a log run with the final content -/
theorem find?_deltas_applyEffs (c : Codec (MSSlab r) β) (s : St (MSSlab r) β)
    (content : SlabID → Option (MSSlab r)) (E : List Eff) (id : SlabID) (hid : id ≠ SlabID.undef)
    (hwf : lastAction E id = some true → (content id).isSome) :
    AList.find? (applyEffs c s content E).deltas id =
      (match lastAction E id with
       | some true => some (content id)
       | some false => some none
       | none => AList.find? s.deltas id) := by
  rw [applyEffs_eq_applyEffsI, find?_deltas_applyEffsI c s _ id hid, lastWrite_final content E id hwf]
  cases lastAction E id with
  | none => rfl
  | some b => cases b <;> rfl

theorem find?_deltas_applyEffs_undef (c : Codec (MSSlab r) β) (s : St (MSSlab r) β)
    (content : SlabID → Option (MSSlab r)) (E : List Eff) :
    AList.find? (applyEffs c s content E).deltas SlabID.undef = AList.find? s.deltas SlabID.undef := by
  rw [applyEffs_eq_applyEffsI]; exact find?_deltas_undefI c _ s

/-! ### the live large-value slabs are the created ones -/

/-- `extraStep` from the lookup in the created list, for a log with a footprint whose created
    slabs `C` are fresh, stored, and outside the new tree. -/
theorem extraStep_created (a a' : OMap r) (E : List Eff) (old C : List (SlabID × Elem)) (ctr : Nat)
    (hold : ∀ id, (AList.find? old id).isSome → (a.slabAt id).isNone ∧ id.idx ≤ ctr)
    (hfoot : ∀ id, lastAction E id ≠ none → (a.slabAt id).isSome ∨ ctr < id.idx)
    (hstored : ∀ id, lastAction E id = some true → (a'.slabAt id).isSome ∨ id ∈ C.map (·.1))
    (hkeep : ∀ id, (a.slabAt id).isNone → ctr < id.idx ∨ (a'.slabAt id).isNone)
    (hC : ∀ id ∈ C.map (·.1), ctr < id.idx ∧ lastAction E id = some true ∧ (a'.slabAt id).isNone) :
    extraStep a' E (old ++ C) (AList.find? old) = AList.find? (old ++ C) := by
  funext id
  rw [find?_append]
  unfold extraStep
  cases hfo : AList.find? old id with
  | some v =>
    obtain ⟨h1, h2⟩ := hold id (by rw [hfo]; rfl)
    have hla : lastAction E id = none := by
      apply Classical.byContradiction
      intro hne
      rcases hfoot id hne with h | h
      · cases hs : a.slabAt id <;> simp_all
      · omega
    have hs' : (a'.slabAt id).isSome = false := by
      rcases hkeep id h1 with h | h
      · omega
      · cases hs : a'.slabAt id <;> simp_all
    simp [hs', hla]
  | none =>
    simp only [Option.none_or]
    by_cases hin : id ∈ C.map (·.1)
    · obtain ⟨_, h2, h3⟩ := hC id hin
      have hs' : (a'.slabAt id).isSome = false := by cases hs : a'.slabAt id <;> simp_all
      simp [hs', h2, find?_append, hfo]
    · have hfc : AList.find? C id = none := (AList.find?_eq_none_iff C id).2 hin
      rw [hfc]
      split
      · rfl
      · split
        · rename_i hl
          rcases hstored id hl with h | h
          · simp_all
          · exact absurd h hin
        · rfl
        · exact hfo.symm ▸ rfl

/-! ### the invariant of a run -/

/-- no value of the map is a dangling reference to a large-value slab -/
def MRefsOk (st : OMap r × Ctx) : Prop :=
  ∀ p ∈ st.1.toList, ∀ y, p.2.pay = .ref y → (AList.find? st.2.created y).isSome

/-- the storage's allocation counter for the owner agrees with the map model's -/
def MAllocSync (s : St (MSSlab r) β) (addr ctr : Nat) : Prop :=
  (AList.find? s.alloc addr).getD 0 = ctr

structure MGoodF (c : Codec (MSSlab r) β) (T : Nat) (D : DigestFn (r + 1)) (cfg : MCfg)
    (x : (OMap r × Ctx) × St (MSSlab r) β) : Prop where
  inv : MapInv T D x.1.1
  ids : MIdsOk x.1.1
  ctx : CtxOk x.1.1 x.1.2
  cfg : CfgOk cfg T x.1.1
  aok : MAddrOk x.1.1
  addr : x.1.1.addr ≠ 0
  st : Inv c x.2
  rep : MRep c x.2 x.1.1 (AList.find? x.1.2.created) x.1.2.ctr
  sync : MAllocSync x.2 x.1.1.addr x.1.2.ctr
  caddr : ∀ p ∈ x.1.2.created, p.1.addr = x.1.1.addr
  refs : MRefsOk x.1
  /-- every pending store is owned by the map's address -/
  pend : ∀ id v, AList.find? x.2.deltas id = some (some v) → id.addr = x.1.1.addr

theorem MGoodF.created_le {c : Codec (MSSlab r) β} {T : Nat} {D : DigestFn (r + 1)} {cfg : MCfg}
    {x : (OMap r × Ctx) × St (MSSlab r) β} (h : MGoodF c T D cfg x) :
    ∀ p ∈ x.1.2.created, p.1.idx ≤ x.1.2.ctr := by
  intro p hp
  exact (h.rep.extra_fresh p.1 (find?_isSome_of_mem_keys (List.mem_map_of_mem hp))).2

/-- the full invariant implies the partial one -/
theorem MGoodF.toMGood {c : Codec (MSSlab r) β} {T : Nat} {D : DigestFn (r + 1)} {cfg : MCfg}
    {x : (OMap r × Ctx) × St (MSSlab r) β} (h : MGoodF c T D cfg x) : MGood c T D cfg x :=
  ⟨h.inv, h.ids, h.ctx, h.cfg, h.aok, h.addr, h.st, h.created_le, ⟨_, h.rep⟩⟩

/-- ONE STEP, generic. -/
theorem mgoodF_step (c : Codec (MSSlab r) β) (hc : RoundTrip c) (T : Nat) (D : DigestFn (r + 1))
    (cfg : MCfg) (m : OMap r) (ctx : Ctx) (s : St (MSSlab r) β) (m' : OMap r) (ctx' : Ctx)
    (E : List Eff) (C : List (SlabID × Elem))
    (hg : MGoodF c T D cfg ((m, ctx), s))
    (hlog : Log ctx ctx' E C)
    (heff : MEffectsComplete m m' E (C.map (·.1)))
    (hfoot : ∀ id, lastAction E id ≠ none → (m.slabAt id).isSome ∨ ctx.ctr < id.idx)
    (hnew : ∀ id, (m'.slabAt id).isSome → (m.slabAt id).isSome ∨ ctx.ctr < id.idx)
    (hcr : CreatedOk m.addr ctx.ctr ctx'.ctr E (C.map (·.1)) (AList.keys (MTree.slabs m'.d m'.root)))
    (hal : AllocCnt m.addr ctx ctx' E)
    (hinv' : MapInv T D m') (hids' : MIdsOk m') (hctx' : CtxOk m' ctx') (haok' : MAddrOk m')
    (hrid : m'.rootID = m.rootID) (hrefs : MRefsOk (m', ctx')) :
    MGoodF c T D cfg ((m', ctx'), applyEffs c s (contentOf (m', ctx')) (newEffs ctx ctx')) := by
  have haddr : m'.addr = m.addr := by unfold OMap.addr; rw [hrid]
  have hcre : ctx'.created = ctx.created ++ C := hlog.created
  have heff' : MEffectsComplete m m' E ((ctx.created ++ C).map (·.1)) := by
    rw [List.map_append]; exact mEffectsComplete_mono heff
  have hrep := rep_step_gen c s m m' (AList.find? ctx.created) ctx.ctr ctx'.ctr E
    (ctx.created ++ C) hg.rep heff' haddr hg.addr
    hlog.ctr_le (by
      intro p hp
      rcases List.mem_append.1 hp with h | h
      · exact Nat.le_trans (hg.created_le p h) hlog.ctr_le
      · exact (hcr p.1 (List.mem_map_of_mem h)).2.2.2.1)
  have hex : extraStep m' E (ctx.created ++ C) (AList.find? ctx.created)
      = AList.find? (ctx.created ++ C) := by
    refine extraStep_created m m' E ctx.created C ctx.ctr hg.rep.extra_fresh hfoot
      heff.stored_in_tree ?_ ?_
    · intro id hn
      by_cases h : (m'.slabAt id).isSome
      · rcases hnew id h with h1 | h1
        · cases hs : m.slabAt id <;> simp_all
        · exact Or.inl h1
      · right; cases hs : m'.slabAt id <;> simp_all
    · intro id hid
      obtain ⟨h1, h2, h3, _, _⟩ := hcr id hid
      exact ⟨h3, h1, (mslabAt_isNone m' id).2 h2⟩
  rw [hex] at hrep
  have hcaddr : ∀ p ∈ ctx'.created, p.1.addr = m.addr := by
    intro p hp
    rw [hcre] at hp
    rcases List.mem_append.1 hp with h | h
    · exact hg.caddr p h
    · exact (hcr p.1 (List.mem_map_of_mem h)).2.2.2.2
  refine ⟨hinv', hids', hctx', ⟨hg.cfg.1, hg.cfg.2.1, by rw [hg.cfg.2.2, haddr]⟩, haok',
    by show m'.addr ≠ 0; rw [haddr]; exact hg.addr, ?_, ?_, ?_, ?_, hrefs, ?_⟩
  · exact applyEffs_inv c hc s _ _ hg.st
  · show MRep c (applyEffs c s (mstored m' (AList.find? ctx'.created)) (newEffs ctx ctx')) m'
      (AList.find? ctx'.created) ctx'.ctr
    rw [newEffs_of_log hlog, hcre]
    exact hrep
  · show MAllocSync _ m'.addr ctx'.ctr
    unfold MAllocSync
    rw [haddr, applyEffs_alloc c s _ _ m.addr hg.addr, newEffs_of_log hlog, allocCount_eq, hal]
    have := hg.sync
    unfold MAllocSync at this
    show _ + _ = _
    rw [this]
  · intro p hp
    show p.1.addr = m'.addr
    rw [haddr]
    exact hcaddr p hp
  · intro id v hv
    show id.addr = m'.addr
    rw [haddr]
    have hv' : AList.find? (applyEffs c s (mstored m' (AList.find? (ctx.created ++ C))) E).deltas id
        = some (some v) := by
      have := hv
      simp only [contentOf, newEffs_of_log hlog, hcre] at this
      exact this
    by_cases hu : id = SlabID.undef
    · subst hu
      rw [find?_deltas_applyEffs_undef] at hv'
      exact hg.pend _ v hv'
    · rw [find?_deltas_applyEffs c s _ E id hu (content_wf heff' id)] at hv'
      cases hl : lastAction E id with
      | none => rw [hl] at hv'; exact hg.pend id v hv'
      | some b =>
        rw [hl] at hv'
        cases b with
        | false => cases hv'
        | true =>
          rcases heff'.stored_in_tree id hl with h | h
          · rw [mslabAt_isSome] at h
            rw [haok' id h, haddr]
          · simp only [List.mem_map] at h
            obtain ⟨p, hp, rfl⟩ := h
            exact hcaddr p (by rw [hcre]; exact hp)

theorem mgoodF_unchanged (c : Codec (MSSlab r) β) (T : Nat) (D : DigestFn (r + 1)) (cfg : MCfg)
    (x : (OMap r × Ctx) × St (MSSlab r) β) (hg : MGoodF c T D cfg x) :
    MGoodF c T D cfg (x.1, applyEffs c x.2 (contentOf x.1) (newEffs x.1.2 x.1.2)) := by
  rw [newEffs_self, applyEffs_nil]
  exact hg

/-- footprint and new keys from an account -/
theorem mfoot_of_acct {m m' : OMap r} {a cn cn' : Nat} {E : List Eff} {cr : List SlabID}
    (h : MAcct a cn cn' (MTree.slabs m.d m.root) (MTree.slabs m'.d m'.root) E cr) :
    (∀ id, lastAction E id ≠ none → (m.slabAt id).isSome ∨ cn < id.idx) ∧
    (∀ id, (m'.slabAt id).isSome → (m.slabAt id).isSome ∨ cn < id.idx) := by
  constructor
  · intro id hne
    rcases h.foot id hne with h1 | h1
    · left; rw [mslabAt_isSome]; exact h1
    · exact Or.inr h1.2.1
  · intro id hs
    rw [mslabAt_isSome] at hs
    rcases h.keys_new id hs with h1 | h1
    · left; rw [mslabAt_isSome]; exact h1
    · exact Or.inr h1.2.1

/-! ### `PopIterate` only removes slabs of the map -/

/-- below the first level (no external groups) `popIter` leaves the context alone -/
def PopNone {α : Type} (o : ElemsOps α) (P : α → Prop) : Prop := ∀ e c, P e → (o.popIter e c).2 = c

theorem elem_popNone {α : Type} {o : ElemsOps α} {P : α → Prop} (ho : PopNone o P) (el : MElemF α)
    (c : Ctx) (h : ElP P el) : (el.popIter o c).2 = c := by
  cases el with
  | single x => rfl
  | inl g => exact ho g c h
  | ext id sz s => exact absurd h (by simp [ElP])

theorem hkey_popNone_fold {α : Type} {o : ElemsOps α} {P : α → Prop} (ho : PopNone o P) :
    ∀ (l : List (MElemF α)) (acc : List (MKey × Elem) × Ctx), (∀ el ∈ l, ElP P el) →
    (l.foldl (fun (acc : List (MKey × Elem) × Ctx) el =>
        let (l, c) := el.popIter o acc.2
        (acc.1 ++ l, c)) acc).2 = acc.2
  | [], _, _ => rfl
  | el :: l, acc, h => by
    rw [List.foldl_cons]
    rw [hkey_popNone_fold ho l _ (fun e he => h e (List.mem_cons_of_mem _ he))]
    exact elem_popNone ho el acc.2 (h el List.mem_cons_self)

theorem hkey_popNone {α : Type} {o : ElemsOps α} {P : α → Prop} (ho : PopNone o P) :
    PopNone (HkeyElems.ops o) (HP P) := by
  intro e c h
  exact hkey_popNone_fold ho e.elems.reverse ([], c) (fun el hel => h el (List.mem_reverse.1 hel))

theorem melems_popNone : ∀ r, PopNone (MElems.ops r) (NoExt r)
  | 0 => fun _ _ _ => rfl
  | r + 1 => hkey_popNone (melems_popNone r)

/-- first level: only the external groups of the elements are removed -/
theorem first_pop_foot {α : Type} {o : ElemsOps α} {P : α → Prop} (ho : PopNone o P) :
    ∀ (l : List (MElemF α)) (acc : List (MKey × Elem) × Ctx), (∀ el ∈ l, FirstOk P el) →
    ∃ E, (l.foldl (fun (acc : List (MKey × Elem) × Ctx) el =>
        let (l, c) := el.popIter o acc.2
        (acc.1 ++ l, c)) acc).2.eff = acc.2.eff ++ E ∧
      ∀ x ∈ E, ∃ i, x = Eff.remove i ∧ i ∈ AList.keys (grp l)
  | [], acc, _ => ⟨[], by simp, by simp⟩
  | el :: l, acc, h => by
    obtain ⟨E2, h2, h3⟩ := first_pop_foot ho l (acc.1 ++ (el.popIter o acc.2).1, (el.popIter o acc.2).2)
      (fun e he => h e (List.mem_cons_of_mem _ he))
    have hel := h el List.mem_cons_self
    rw [List.foldl_cons]
    simp only at h2 ⊢
    cases el with
    | single x =>
      refine ⟨E2, by rw [h2]; rfl, ?_⟩
      intro x hx
      obtain ⟨i, hi, hm⟩ := h3 x hx
      exact ⟨i, hi, by rw [grp_cons_single]; exact hm⟩
    | inl g =>
      refine ⟨E2, by rw [h2]; show (o.popIter g acc.2).2.eff ++ E2 = _; rw [ho g acc.2 hel], ?_⟩
      intro x hx
      obtain ⟨i, hi, hm⟩ := h3 x hx
      exact ⟨i, hi, by rw [grp_cons_inl]; exact hm⟩
    | ext id sz s =>
      refine ⟨[.remove id] ++ E2, ?_, ?_⟩
      · rw [h2]
        show ((o.popIter s.elems acc.2).2.emit (.remove id)).eff ++ E2 = _
        rw [ho s.elems acc.2 hel.2]
        simp [Ctx.emit]
      · intro x hx
        rw [grp_cons_ext, keys_cons']
        rcases List.mem_append.1 hx with h1 | h1
        · simp only [List.mem_singleton] at h1
          exact ⟨id, h1, List.mem_cons_self⟩
        · obtain ⟨i, hi, hm⟩ := h3 x h1
          exact ⟨i, hi, List.mem_cons_of_mem _ hm⟩

theorem mdata_pop_foot (s : MDataSlab r) (c : Ctx) (hF : ∀ el ∈ s.elems.elems, FirstOk (NoExt r) el) :
    ∃ E, (MDataSlab.popIterate s c).2.2.eff = c.eff ++ E ∧
      ∀ x ∈ E, ∃ i, x = Eff.remove i ∧ i ∈ AList.keys (msub 0 s) := by
  obtain ⟨E, h1, h2⟩ := first_pop_foot (melems_popNone r) s.elems.elems.reverse ([], c)
    (fun el hel => hF el (List.mem_reverse.1 hel))
  refine ⟨E, h1, ?_⟩
  intro x hx
  obtain ⟨i, hi, hm⟩ := h2 x hx
  refine ⟨i, hi, ?_⟩
  rw [msub_zero, groupSlabs_eq, keys_map_view]
  exact (keys_grp_reverse _ i).1 hm

theorem mtree_pop_foot {T : Nat} {D : DigestFn (r + 1)} : ∀ (d : Nat) (top : Bool) (t : MTree r d) (c : Ctx),
    MTreeInv T D d top t →
    ∃ E, (MTree.popIterate d t c).2.2.eff = c.eff ++ E ∧
      ∀ x ∈ E, ∃ i, x = Eff.remove i ∧ i ∈ AList.keys (msub d t)
  | 0, top, (s : MDataSlab r), c, hinv =>
    mdata_pop_foot s c (firstOk_of_inv ((mtreeInv_zero_iff T D top s).mp hinv).elems_inv)
  | d + 1, top, (m : MMetaSlab (MTree r d)), c, hinv => by
    have hm := ((mtreeInv_succ_iff T D d top m).mp hinv).1
    have key : ∀ (l : List (MTree r d)), (∀ t ∈ l, MTreeInv T D d false t) →
        ∀ (acc : List (MKey × Elem) × Ctx),
        ∃ E, (l.foldl (fun (acc : List (MKey × Elem) × Ctx) child =>
            let (es, _, c) := MTree.popIterate d child acc.2
            (acc.1 ++ es, c.emit (.remove (MTree.hdr d child).id))) acc).2.eff = acc.2.eff ++ E ∧
          ∀ x ∈ E, ∃ i, x = Eff.remove i ∧ i ∈ AList.keys (l.flatMap (MTree.slabs d)) := by
      intro l
      induction l with
      | nil => intro _ acc; exact ⟨[], by simp, by simp⟩
      | cons t l ihl =>
        intro hl acc
        obtain ⟨E1, h1, h2⟩ := mtree_pop_foot d false t acc.2 (hl t List.mem_cons_self)
        obtain ⟨E2, h4, h5⟩ := ihl (fun t' ht' => hl t' (List.mem_cons_of_mem _ ht'))
          (acc.1 ++ (MTree.popIterate d t acc.2).1,
            (MTree.popIterate d t acc.2).2.2.emit (.remove (MTree.hdr d t).id))
        refine ⟨E1 ++ [.remove (MTree.hdr d t).id] ++ E2, ?_, ?_⟩
        · rw [List.foldl_cons]
          simp only at h4 ⊢
          rw [h4]
          simp only [Ctx.emit, h1, List.append_assoc]
        · intro x hx
          rw [List.flatMap_cons, keys_append, mslabs_eq, keys_cons']
          rcases List.mem_append.1 hx with h | h
          · rcases List.mem_append.1 h with h | h
            · obtain ⟨i, hi, hm⟩ := h2 x h
              exact ⟨i, hi, List.mem_append.2 (Or.inl (List.mem_cons_of_mem _ hm))⟩
            · simp only [List.mem_singleton] at h
              exact ⟨_, h, List.mem_append.2 (Or.inl List.mem_cons_self)⟩
          · obtain ⟨i, hi, hm⟩ := h5 x h
            exact ⟨i, hi, List.mem_append.2 (Or.inr hm)⟩
    obtain ⟨E, h1, h2⟩ := key m.children.reverse
      (fun t ht => hm.2.2.2.2.1 t (List.mem_reverse.1 ht)) ([], c)
    refine ⟨E, ?_, ?_⟩
    · simp only [MTree.popIterate]
      exact h1
    · intro x hx
      obtain ⟨i, hi, hmem⟩ := h2 x hx
      refine ⟨i, hi, ?_⟩
      rw [msub_succ]
      exact (keys_flatMap_reverse _ i).1 hmem

/-- `PopIterate` removes slabs of the map only, then stores the root -/
theorem omap_pop_foot {T : Nat} {D : DigestFn (r + 1)} (m : OMap r) (c : Ctx) (hinv : MapInv T D m) :
    ∃ E, (m.popIterate c).2.2.eff = c.eff ++ E ++ [.store m.rootID] ∧
      ∀ x ∈ E, ∃ i, x = Eff.remove i ∧ i ∈ AList.keys (msub m.d m.root) := by
  obtain ⟨E, h1, h2⟩ := mtree_pop_foot m.d true m.root c hinv.tree
  refine ⟨E, ?_, h2⟩
  simp only [OMap.popIterate, hinv.standalone, Bool.false_eq_true, if_false, Ctx.emit, h1]

/-! ### the dictionary of resolved values -/

/-- the value bound to `k`: the stored value, a reference resolved through the large-value slabs
    created so far -/
def lookupR (st : OMap r × Ctx) (k : MKey) : Option Elem :=
  (dictLookup st.1.toList k).map (resolve st.2.created)

/-- dictionary semantics of one request that is carried out -/
def specStepM (f : MKey → Option Elem) (op : MOp) (k' : MKey) : Option Elem :=
  match op with
  | .set k v => if k'.same k then some v else f k'
  | .remove k => if k'.same k then none else f k'
  | .popIterate => none
  | .setType _ => f k'

/-- One request against the dictionary `f`: it is carried out (a `Remove` of an absent key changes
    nothing), or it is a `Set` of a NEW key that is refused (collision limit, C12) and nothing
    changes.  Lookups are compared on the keys the map accepts (`KeyOk`). -/
def DictStep (T : Nat) (D : DigestFn (r + 1)) (f f' : MKey → Option Elem) (op : MOp) : Prop :=
  (∀ k', KeyOk T (r + 1) D k' → f' k' = specStepM f op k') ∨
  ((∃ k v, op = .set k v ∧ f k = none) ∧ ∀ k', f' k' = f k')

theorem keyOk_same_eq {T L : Nat} {D : DigestFn L} {a b : MKey} (ha : KeyOk T L D a) (hb : KeyOk T L D b)
    (h : a.same b = true) : a = b := by
  simp only [MKey.same, Bool.and_eq_true, beq_iff_eq] at h
  obtain ⟨sa, pa, da⟩ := a
  obtain ⟨sb, pb, db⟩ := b
  simp only at h
  obtain ⟨rfl, rfl⟩ := h
  have := ha.1.trans hb.1.symm
  simp only at this
  subst this
  rfl

/-- the storable of a value resolves to the value, and is a live reference -/
theorem resolve_tsv (cfg : MCfg) (k : MKey) (v : Elem) (ctx : Ctx) (hv : ValueOkM v)
    (hle : ∀ p ∈ ctx.created, p.1.idx ≤ ctx.ctr) :
    resolve (tsv cfg k v ctx).2.created (tsv cfg k v ctx).1 = v ∧
    ∀ y, (tsv cfg k v ctx).1.pay = .ref y → (AList.find? (tsv cfg k v ctx).2.created y).isSome := by
  obtain ⟨_, n, hn⟩ := hv
  unfold tsv toStorableLim
  rw [hn]
  simp only
  split
  · have hfresh : AList.find? ctx.created ⟨cfg.addr, ctx.ctr + 1⟩ = none := by
      rw [AList.find?_eq_none_iff]
      intro hin
      simp only [AList.keys, List.mem_map] at hin
      obtain ⟨p, hp, hpe⟩ := hin
      have := hle p hp
      rw [hpe] at this
      simp only at this
      omega
    simp [resolve, Ctx.alloc, find?_append, hfresh, AList.find?_cons]
  · simp [resolve, hn]

theorem refs_append {created C : List (SlabID × Elem)} {e : Elem}
    (h : ∀ y, e.pay = .ref y → (AList.find? created y).isSome) :
    ∀ y, e.pay = .ref y → (AList.find? (created ++ C) y).isSome := by
  intro y hy
  rw [find?_append]
  have := h y hy
  cases hf : AList.find? created y with
  | none => rw [hf] at this; cases this
  | some w => rfl

/-! ### one request -/

/-- `Set` -/
theorem mgoodF_set (c : Codec (MSSlab r) β) (hc : RoundTrip c) (T : Nat) (hT : legalThreshold T = true)
    (D : DigestFn (r + 1)) (cfg : MCfg) (x : (OMap r × Ctx) × St (MSSlab r) β)
    (hg : MGoodF c T D cfg x) (k : MKey) (hk : KeyOk T (r + 1) D k) (v : Elem) (hv : ValueOkM v) :
    MGoodF c T D cfg (stepS c cfg x (.set k v)) ∧
    DictStep T D (lookupR x.1) (lookupR (stepS c cfg x (.set k v)).1) (.set k v) ∧
    (stepS c cfg x (.set k v)).1.1.rootID = x.1.1.rootID ∧
    (stepS c cfg x (.set k v)).1.1.ty = x.1.1.ty ∧ (stepS c cfg x (.set k v)).1.1.seed = x.1.1.seed := by
  obtain ⟨⟨m, ctx⟩, s⟩ := x
  simp only [stepS, stepM]
  have href := C02.set_refines T hT D cfg m hg.cfg hg.inv k hk v hv ctx hg.ctx
  cases hr : m.set cfg k v ctx with
  | error e =>
    refine ⟨mgoodF_unchanged c T D cfg ((m, ctx), s) hg, Or.inr ⟨⟨k, v, rfl, ?_⟩, fun _ => rfl⟩, rfl, rfl, rfl⟩
    rcases href with ⟨_, _, _, heq, _⟩ | ⟨_, hnone⟩
    · rw [hr] at heq; cases heq
    · simp [lookupR, hnone]
  | ok res =>
    obtain ⟨old, m', ctx'⟩ := res
    simp only
    rcases href with ⟨old2, m2, c2, heq, _, hdict, _, hinv', hctx', hrid, hty, hseed⟩ | ⟨herr, _⟩
    · rw [hr] at heq
      simp only [Except.ok.injEq, Prod.mk.injEq] at heq
      obtain ⟨_, rfl, rfl⟩ := heq
      obtain ⟨E, C, hlog, hacct, hroot, _⟩ := omap_set_acct hT hg.cfg hg.inv hk hv ctx hg.ctx hg.ids hr
      obtain ⟨E', C', hlog', hcr, hal, hC⟩ := omap_set_created hT hg.cfg hg.inv hk hv ctx hg.ctx hg.ids hr
      obtain ⟨rfl, rfl⟩ := hlog.toLog.unique hlog'.toLog
      have heff := mEffectsComplete_of_acct hacct hg.ids hrid hroot
      obtain ⟨hfoot, hnew⟩ := mfoot_of_acct hacct
      have hcre : ctx'.created = (tsv cfg k v ctx).2.created := by rw [hlog.created]; exact hC
      obtain ⟨hres, hsf⟩ := resolve_tsv cfg k v ctx hv hg.created_le
      have hold_of : ∀ k', KeyOk T (r + 1) D k' → k'.same k = false → ∀ e,
          dictLookup m'.toList k' = some e → (k', e) ∈ m.toList := by
        intro k' hk' hs e he
        rw [hdict k' hk', hs] at he
        exact mem_of_dictLookup_some hg.inv.allKeyOk hk' he
      have hrefs : MRefsOk (m', ctx') := by
        intro p hp y hy
        simp only at hp hy ⊢
        have hk' := hinv'.allKeyOk p hp
        have hl := dictLookup_some_of_mem hinv'.distinct (show (p.1, p.2) ∈ m'.toList from hp)
        rw [hcre]
        cases hs : p.1.same k with
        | true =>
          rw [hdict p.1 hk', hs] at hl
          simp only [if_true, Option.some.injEq] at hl
          rw [← hl] at hy
          exact hsf y hy
        | false =>
          have := hold_of p.1 hk' hs p.2 hl
          rw [← hC]
          exact refs_append (hg.refs _ this) y hy
      refine ⟨mgoodF_step c hc T D cfg m ctx s m' ctx' E C hg hlog.toLog heff hfoot hnew hcr hal hinv'
        (hacct.nodup hg.ids) hctx' (maddrOk_of_acct hacct hg.aok hrid) hrid hrefs, Or.inl ?_, hrid, hty, hseed⟩
      intro k' hk'
      simp only [lookupR, specStepM]
      rw [hdict k' hk', hcre]
      cases hs : k'.same k with
      | true =>
        simp only [if_true, Option.map_some]
        show some (resolve (tsv cfg k v ctx).2.created (tsv cfg k v ctx).1) = some v
        rw [hres]
      | false =>
        simp only [Bool.false_eq_true, if_false]
        cases hd : dictLookup m.toList k' with
        | none => rfl
        | some e =>
          simp only [Option.map_some]
          have hm := mem_of_dictLookup_some hg.inv.allKeyOk hk' hd
          rw [← hC, E2E.resolve_append (hg.refs _ hm)]
    · rw [hr] at herr; cases herr

/-- `Remove` -/
theorem mgoodF_remove (c : Codec (MSSlab r) β) (hc : RoundTrip c) (T : Nat) (hT : legalThreshold T = true)
    (D : DigestFn (r + 1)) (cfg : MCfg) (x : (OMap r × Ctx) × St (MSSlab r) β)
    (hg : MGoodF c T D cfg x) (k : MKey) (hk : KeyOk T (r + 1) D k) :
    MGoodF c T D cfg (stepS c cfg x (.remove k)) ∧
    DictStep T D (lookupR x.1) (lookupR (stepS c cfg x (.remove k)).1) (.remove k) ∧
    (stepS c cfg x (.remove k)).1.1.rootID = x.1.1.rootID ∧
    (stepS c cfg x (.remove k)).1.1.ty = x.1.1.ty ∧ (stepS c cfg x (.remove k)).1.1.seed = x.1.1.seed := by
  obtain ⟨⟨m, ctx⟩, s⟩ := x
  simp only [stepS, stepM]
  have href := C02.remove_refines T hT D cfg m hg.cfg hg.inv k hk ctx hg.ctx
  cases hd : dictLookup m.toList k with
  | none =>
    rw [hd] at href
    simp only at href
    rw [href]
    refine ⟨mgoodF_unchanged c T D cfg ((m, ctx), s) hg, Or.inl ?_, rfl, rfl, rfl⟩
    intro k' hk'
    simp only [specStepM]
    cases hs : k'.same k with
    | true =>
      have := keyOk_same_eq hk' hk hs
      subst this
      simp [lookupR, hd]
    | false => rfl
  | some w =>
    rw [hd] at href
    simp only at href
    obtain ⟨k0, m', ctx', hr, _, hdict, _, hinv', hctx', hrid, hty, hseed⟩ := href
    rw [hr]
    simp only
    obtain ⟨E, C, hlog, hacct, hroot, _⟩ := omap_remove_acct hT hg.cfg hg.inv hk ctx hg.ctx hg.ids hr
    obtain ⟨E', hlog', hal⟩ := omap_remove_created hT hg.cfg hg.inv hk ctx hg.ctx hg.ids hr
    obtain ⟨rfl, rfl⟩ := hlog.toLog.unique hlog'.toLog
    have heff := mEffectsComplete_of_acct hacct hg.ids hrid hroot
    obtain ⟨hfoot, hnew⟩ := mfoot_of_acct hacct
    have hcre : ctx'.created = ctx.created := by rw [hlog.created]; simp
    have hrefs : MRefsOk (m', ctx') := by
      intro p hp y hy
      simp only at hp hy ⊢
      have hk' := hinv'.allKeyOk p hp
      have hl := dictLookup_some_of_mem hinv'.distinct (show (p.1, p.2) ∈ m'.toList from hp)
      rw [hdict p.1 hk'] at hl
      rw [hcre]
      cases hs : p.1.same k with
      | true => rw [hs] at hl; simp at hl
      | false =>
        rw [hs] at hl
        simp only [Bool.false_eq_true, if_false] at hl
        exact hg.refs _ (mem_of_dictLookup_some hg.inv.allKeyOk hk' hl) y hy
    refine ⟨mgoodF_step c hc T D cfg m ctx s m' ctx' E [] hg hlog.toLog heff hfoot hnew
      (CreatedOk.nil _ _ _ _ _) hal hinv' (hacct.nodup hg.ids) hctx' (maddrOk_of_acct hacct hg.aok hrid) hrid
      hrefs, Or.inl ?_, hrid, hty, hseed⟩
    intro k' hk'
    simp only [lookupR, specStepM]
    rw [hdict k' hk', hcre]
    cases hs : k'.same k <;> simp

/-- `PopIterate` -/
theorem mgoodF_pop (c : Codec (MSSlab r) β) (hc : RoundTrip c) (T : Nat) (hT : legalThreshold T = true)
    (D : DigestFn (r + 1)) (cfg : MCfg) (x : (OMap r × Ctx) × St (MSSlab r) β)
    (hg : MGoodF c T D cfg x) :
    MGoodF c T D cfg (stepS c cfg x .popIterate) ∧
    DictStep T D (lookupR x.1) (lookupR (stepS c cfg x .popIterate).1) .popIterate ∧
    (stepS c cfg x .popIterate).1.1.rootID = x.1.1.rootID ∧
    (stepS c cfg x .popIterate).1.1.ty = x.1.1.ty ∧ (stepS c cfg x .popIterate).1.1.seed = x.1.1.seed := by
  obtain ⟨⟨m, ctx⟩, s⟩ := x
  simp only [stepS, stepM]
  obtain ⟨_, hlist, _, hinv', hrid⟩ := C02.pop_refines T hT D m hg.inv ctx hg.ctx
  obtain ⟨heff, hkeys, _⟩ := C09Map.pop_releases_all T hT D m hg.inv ctx hg.ctx
  obtain ⟨hctr, hcre⟩ := omap_popKeep m ctx
  obtain ⟨E0, heffs, hE1⟩ := omap_pop_foot m ctx hg.inv
  have hty : (m.popIterate ctx).2.1.ty = m.ty := rfl
  have hseed : (m.popIterate ctx).2.1.seed = m.seed := rfl
  generalize hres : m.popIterate ctx = res at *
  obtain ⟨l, m', ctx'⟩ := res
  simp only at *
  have hkeys' : AList.keys (MTree.slabs m'.d m'.root) = [m.rootID] := hkeys
  have hrem : ∀ e ∈ E0, ∃ i, e = Eff.remove i := fun e he => by
    obtain ⟨j, rfl, _⟩ := hE1 e he; exact ⟨j, rfl⟩
  have hlog : Log ctx ctx' (E0 ++ [.store m.rootID]) [] := by
    refine ⟨by rw [heffs, List.append_assoc], by simp [hcre], by omega, ?_⟩
    intro addr id hm
    rcases List.mem_append.1 hm with h | h
    · obtain ⟨j, hj⟩ := hrem _ h; cases hj
    · simp at h
  have hnE : C09Map.newEffects ctx ctx' = E0 ++ [.store m.rootID] := by
    unfold C09Map.newEffects; rw [heffs, List.append_assoc]; exact List.drop_left
  rw [hnE] at heff
  have hroot_old : m.rootID ∈ AList.keys (MTree.slabs m.d m.root) := hdr_id_mem_keys m.d m.root
  have hfoot : ∀ id, lastAction (E0 ++ [.store m.rootID]) id ≠ none →
      (m.slabAt id).isSome ∨ ctx.ctr < id.idx := by
    intro id hne
    left
    rw [mslabAt_isSome]
    rw [lastAction_concat_store] at hne
    split at hne
    · rename_i he; subst he; exact hroot_old
    · have h5 := lastAction_only_removes E0 hrem id
      cases hl : lastAction E0 id with
      | none => exact absurd hl hne
      | some b =>
        cases b with
        | true => exact absurd hl h5.2
        | false =>
          obtain ⟨j, hje, hj⟩ := hE1 _ (h5.1.1 hl)
          cases hje
          rw [mslabs_eq, keys_cons']
          exact List.mem_cons_of_mem _ hj
  have hnew : ∀ id, (m'.slabAt id).isSome → (m.slabAt id).isSome ∨ ctx.ctr < id.idx := by
    intro id hs
    left
    rw [mslabAt_isSome, hkeys', List.mem_singleton] at hs
    rw [mslabAt_isSome, hs]
    exact hroot_old
  have hal : AllocCnt m.addr ctx ctx' (E0 ++ [.store m.rootID]) := by
    unfold AllocCnt
    rw [hctr]
    have : nAllocAt m.addr (E0 ++ [.store m.rootID]) = 0 := by
      unfold nAllocAt
      rw [List.length_eq_zero_iff, List.filter_eq_nil_iff]
      intro e he
      rcases List.mem_append.1 he with h | h
      · obtain ⟨j, rfl⟩ := hrem _ h; simp [isAllocAt]
      · simp at h; subst h; simp [isAllocAt]
    omega
  have hrefs : MRefsOk (m', ctx') := by
    intro p hp
    simp only at hp
    rw [hlist] at hp; cases hp
  refine ⟨mgoodF_step c hc T D cfg m ctx s m' ctx' _ [] hg hlog heff hfoot hnew (CreatedOk.nil _ _ _ _ _)
    hal hinv' ?_ ?_ ?_ hrid hrefs, Or.inl ?_, hrid, hty, hseed⟩
  · show (AList.keys (MTree.slabs m'.d m'.root)).Nodup
    rw [hkeys']; simp
  · intro id hid ha
    have hid' : id ∈ AList.keys (MTree.slabs m'.d m'.root) := by rw [keys_mslabs]; exact hid
    rw [hkeys', List.mem_singleton] at hid'
    rw [hctr, hid']
    refine hg.ctx m.rootID ?_ rfl
    have := hroot_old
    rw [keys_mslabs] at this
    exact this
  · intro id hid
    rw [hkeys', List.mem_singleton] at hid
    rw [hid]
    show m.rootID.addr = m'.rootID.addr
    rw [hrid]
  · intro k' _
    simp only [lookupR, specStepM, hlist]
    rfl

/-- `SetType` -/
theorem mgoodF_setType (c : Codec (MSSlab r) β) (hc : RoundTrip c) (T : Nat)
    (D : DigestFn (r + 1)) (cfg : MCfg) (x : (OMap r × Ctx) × St (MSSlab r) β)
    (hg : MGoodF c T D cfg x) (ty : Nat) :
    MGoodF c T D cfg (stepS c cfg x (.setType ty)) ∧
    DictStep T D (lookupR x.1) (lookupR (stepS c cfg x (.setType ty)).1) (.setType ty) ∧
    (stepS c cfg x (.setType ty)).1.1.rootID = x.1.1.rootID ∧
    (stepS c cfg x (.setType ty)).1.1.ty = ty ∧ (stepS c cfg x (.setType ty)).1.1.seed = x.1.1.seed := by
  obtain ⟨⟨m, ctx⟩, s⟩ := x
  simp only [stepS, stepM]
  have hst := hg.inv.standalone
  have hres : m.setType ty ctx = ({ m with ty := ty }, ctx.emit (.store m.rootID)) := by
    unfold OMap.setType; rw [hst]; rfl
  rw [hres]
  have hslabs : ∀ id, id ≠ m.rootID → ({ m with ty := ty } : OMap r).slabAt id = m.slabAt id := by
    intro id hne
    have hne' : ¬ id = ({ m with ty := ty } : OMap r).rootID := hne
    simp only [OMap.slabAt, hne, hne', if_false]
  have hsome : ∀ id, (({ m with ty := ty } : OMap r).slabAt id).isSome = (m.slabAt id).isSome := by
    intro id; simp [OMap.slabAt]
  have hla : ∀ id, lastAction [Eff.store m.rootID] id = if m.rootID = id then some true else none := by
    intro id
    have := lastAction_concat_store [] m.rootID id
    simpa using this
  have hrootin : (m.slabAt m.rootID).isSome := by
    rw [mslabAt_isSome]; exact hdr_id_mem_keys m.d m.root
  have heff : MEffectsComplete m { m with ty := ty } [.store m.rootID]
      (([] : List (SlabID × Elem)).map (·.1)) := by
    refine ⟨?_, ?_, ?_, ?_⟩
    · intro id _ hne
      rw [hla]
      by_cases h : m.rootID = id
      · simp [h]
      · exact absurd (hslabs id (fun e => h e.symm)) hne
    · intro id h1 h2
      have h3 := hsome id
      rw [h1] at h3
      cases hs : ({ m with ty := ty } : OMap r).slabAt id <;> simp_all
    · intro id h
      rw [hla] at h
      split at h
      · rename_i he; subst he
        left
        rw [hsome]; exact hrootin
      · cases h
    · intro id h
      rw [hla] at h
      split at h <;> cases h
  have hfoot : ∀ id, lastAction [Eff.store m.rootID] id ≠ none →
      (m.slabAt id).isSome ∨ ctx.ctr < id.idx := by
    intro id hne
    rw [hla] at hne
    split at hne
    · rename_i he; subst he
      exact Or.inl hrootin
    · exact absurd rfl hne
  have hinv' : MapInv T D { m with ty := ty } :=
    ⟨hg.inv.tree, hg.inv.chain, hg.inv.count_eq, hg.inv.distinct, by
      have := hg.inv.standalone
      obtain ⟨d, root, ty0, cnt, seed⟩ := m
      cases d <;> exact this⟩
  refine ⟨mgoodF_step c hc T D cfg m ctx s { m with ty := ty } (ctx.emit (.store m.rootID)) _ [] hg
    (Log.store ctx m.rootID) heff hfoot (fun id h => Or.inl (by rw [← hsome]; exact h))
    (CreatedOk.nil _ _ _ _ _) (AllocCnt.store _ _ _) hinv' hg.ids hg.ctx hg.aok rfl ?_,
    Or.inl (fun _ _ => rfl), rfl, rfl, rfl⟩
  intro p hp y hy
  exact hg.refs p hp y hy

/-- the type info after a history -/
def specTyM (ty : Nat) : List MOp → Nat
  | [] => ty
  | .setType t :: ops => specTyM t ops
  | _ :: ops => specTyM ty ops

/-- EVERY REQUEST keeps the full invariant and follows the dictionary semantics. -/
theorem mgoodF_stepS (c : Codec (MSSlab r) β) (hc : RoundTrip c) (T : Nat) (hT : legalThreshold T = true)
    (D : DigestFn (r + 1)) (cfg : MCfg) (x : (OMap r × Ctx) × St (MSSlab r) β)
    (hg : MGoodF c T D cfg x) (op : MOp) (hop : op.Ok T D) :
    MGoodF c T D cfg (stepS c cfg x op) ∧
    DictStep T D (lookupR x.1) (lookupR (stepS c cfg x op).1) op ∧
    (stepS c cfg x op).1.1.rootID = x.1.1.rootID ∧
    (stepS c cfg x op).1.1.ty = specTyM x.1.1.ty [op] ∧ (stepS c cfg x op).1.1.seed = x.1.1.seed := by
  cases op with
  | set k v => exact mgoodF_set c hc T hT D cfg x hg k hop.1 v hop.2
  | remove k => exact mgoodF_remove c hc T hT D cfg x hg k hop
  | popIterate => exact mgoodF_pop c hc T hT D cfg x hg
  | setType ty => exact mgoodF_setType c hc T D cfg x hg ty

/-- a history against a dictionary: a chain of `DictStep`s -/
inductive DictRun (T : Nat) (D : DigestFn (r + 1)) : (MKey → Option Elem) → List MOp → (MKey → Option Elem) → Prop
  | nil (f : MKey → Option Elem) : DictRun T D f [] f
  | cons {f f1 f2 : MKey → Option Elem} {op : MOp} {ops : List MOp} :
      DictStep T D f f1 op → DictRun T D f1 ops f2 → DictRun T D f (op :: ops) f2

theorem specTyM_cons (ty : Nat) (op : MOp) (ops : List MOp) :
    specTyM ty (op :: ops) = specTyM (specTyM ty [op]) ops := by
  cases op <;> rfl

theorem mgoodF_runS (c : Codec (MSSlab r) β) (hc : RoundTrip c) (T : Nat) (hT : legalThreshold T = true)
    (D : DigestFn (r + 1)) (cfg : MCfg) :
    ∀ (ops : List MOp) (x : (OMap r × Ctx) × St (MSSlab r) β), MGoodF c T D cfg x →
      (∀ op ∈ ops, op.Ok T D) →
      MGoodF c T D cfg (runS c cfg x ops) ∧
      DictRun T D (lookupR x.1) ops (lookupR (runS c cfg x ops).1) ∧
      (runS c cfg x ops).1.1.rootID = x.1.1.rootID ∧
      (runS c cfg x ops).1.1.ty = specTyM x.1.1.ty ops ∧ (runS c cfg x ops).1.1.seed = x.1.1.seed
  | [], x, hg, _ => ⟨hg, DictRun.nil _, rfl, rfl, rfl⟩
  | op :: ops, x, hg, hok => by
    obtain ⟨h1, h2, h3, h4, h5⟩ := mgoodF_stepS c hc T hT D cfg x hg op (hok op (by simp))
    obtain ⟨g1, g2, g3, g4, g5⟩ := mgoodF_runS c hc T hT D cfg ops (stepS c cfg x op) h1
      (fun o ho => hok o (by simp [ho]))
    exact ⟨g1, DictRun.cons h2 g2, g3.trans h3, by rw [specTyM_cons, ← h4]; exact g4, g5.trans h5⟩

/-! ### `NewMap` -/

theorem mgoodF_new (c : Codec (MSSlab r) β) (hc : RoundTrip c) (T : Nat) (hT : legalThreshold T = true)
    (D : DigestFn (r + 1)) (cfg : MCfg) (hcT : cfg.T = T) (hcL : cfg.L = r + 1) (haddr : cfg.addr ≠ 0)
    (ty : Nat) (seedOf : SlabID → Nat) :
    MGoodF c T D cfg (newS c cfg.addr ty seedOf) ∧ (newS c cfg.addr ty seedOf).1.1.rootID = ⟨cfg.addr, 1⟩ ∧
    (newS c cfg.addr ty seedOf).1.1.ty = ty ∧ (newS c cfg.addr ty seedOf).1.1.seed = seedOf ⟨cfg.addr, 1⟩ ∧
    (∀ k, lookupR (newS c cfg.addr ty seedOf).1 k = none) := by
  obtain ⟨g, hrid⟩ := mgood_new c hc T hT D cfg hcT hcL haddr ty seedOf
  have hcre : (newS c cfg.addr ty seedOf).1.2.created = [] := rfl
  have hslabs : MTree.slabs (OMap.new (r := r) cfg.addr ty seedOf ⟨0, [], []⟩).1.d
      (OMap.new (r := r) cfg.addr ty seedOf ⟨0, [], []⟩).1.root
      = [(⟨cfg.addr, 1⟩, .data (emptyRoot r ⟨cfg.addr, 1⟩))] := rfl
  have hS : (newS c cfg.addr ty seedOf).2 = applyEffs c St.init (contentOf (OMap.new (r := r) cfg.addr ty seedOf ⟨0, [], []⟩))
      [Eff.alloc cfg.addr ⟨cfg.addr, 1⟩, Eff.store ⟨cfg.addr, 1⟩] := rfl
  have hcs : (contentOf (OMap.new (r := r) cfg.addr ty seedOf ⟨0, [], []⟩) ⟨cfg.addr, 1⟩).isSome := by
    simp [contentOf, mstored, OMap.slabAt, hslabs, AList.find?]
  refine ⟨⟨g.inv, g.ids, g.ctx, g.cfg, g.aok, g.addr, g.st, ?_, ?_, ?_, ?_, ?_⟩, hrid, rfl, rfl, fun _ => rfl⟩
  · refine ⟨?_, fun id h => by rw [hcre] at h; cases h⟩
    intro id hid
    have hid' : id.addr = cfg.addr := hid
    have hu := ne_undef_of_addr hid' haddr
    rw [hS]
    show _ = mstored (OMap.new (r := r) cfg.addr ty seedOf ⟨0, [], []⟩).1 (AList.find? []) id
    by_cases hroot : (⟨cfg.addr, 1⟩ : SlabID) = id
    · subst hroot
      rw [view_applyEffs c St.init _ _ _ hu (fun _ => hcs), E2E.lastAction_new, if_pos rfl]
      rfl
    · rw [view_applyEffs c St.init _ _ id hu (by rw [E2E.lastAction_new, if_neg hroot]; intro h; cases h),
        E2E.lastAction_new, if_neg hroot]
      simp [St.view, St.init, St.fresh, mstored, OMap.slabAt, hslabs, AList.find?, hroot]
  · show MAllocSync (newS c cfg.addr ty seedOf).2 cfg.addr 1
    unfold MAllocSync
    rw [hS, applyEffs_alloc c St.init _ _ cfg.addr haddr]
    simp [St.init, St.fresh, allocCount]
  · intro p hp; rw [hcre] at hp; cases hp
  · intro p hp; exact absurd hp (by simp [newS, OMap.new, OMap.toList, MTree.toList, HkeyElems.toList])
  · intro id v hv
    show id.addr = cfg.addr
    rw [hS] at hv
    by_cases hu : id = SlabID.undef
    · subst hu
      rw [find?_deltas_applyEffs_undef] at hv
      simp [St.init, St.fresh] at hv
    · by_cases hroot : (⟨cfg.addr, 1⟩ : SlabID) = id
      · rw [← hroot]
      · rw [find?_deltas_applyEffs c St.init _ _ id hu
          (by rw [E2E.lastAction_new, if_neg hroot]; intro h; cases h), E2E.lastAction_new, if_neg hroot] at hv
        simp [St.init, St.fresh] at hv

end Atree.E2EM
