import AtreeProofs.E2EMap.Bytes
import AtreeProofs.E2EMap.HistoryFull
/-
  (MAPS) Every slab that the representation of a map satisfying `MapInv` puts into the storage meets
  the encoder's preconditions (`OkM`) and is filed under its own ID (`mstored_ok`), given encodable
  keys / values and the field-width bounds `MEncOk`.
-/
namespace Atree.E2EM
open Atree Atree.Codec Gen

variable {r : Nat} {T L : Nat} {D : DigestFn L}

/-! ### small facts -/

theorem emptyElems_isEmpty : ∀ r, IsEmptyElems r (emptyElems r)
  | 0 => ⟨rfl, rfl, rfl⟩
  | _ + 1 => ⟨rfl, rfl, rfl, rfl⟩

theorem le_sum_of_mem' : ∀ {l : List Nat} {a : Nat}, a ∈ l → a ≤ l.sum
  | b :: l, a, h => by
    rw [List.sum_cons]
    rcases List.mem_cons.1 h with rfl | h
    · omega
    · have := le_sum_of_mem' h; omega

theorem length_mul_le_sum {n : Nat} : ∀ {l : List Nat}, (∀ a ∈ l, n ≤ a) → n * l.length ≤ l.sum
  | [], _ => by simp
  | a :: l, h => by
    rw [List.sum_cons, List.length_cons, Nat.mul_succ]
    have h1 := h a (by simp)
    have h2 := length_mul_le_sum (n := n) (l := l) (fun b hb => h b (by simp [hb]))
    omega

theorem elemSizes_ge {α : Type} (o : ElemsOps α) (l : List (MElemF α)) :
    digestSize * l.length ≤ HkeyElems.elemSizes o l := by
  unfold HkeyElems.elemSizes
  have := length_mul_le_sum (n := digestSize) (l := l.map (fun e => e.size o + digestSize)) (by
    intro a ha
    obtain ⟨e, _, rfl⟩ := List.mem_map.1 ha
    omega)
  simpa using this

theorem elem_size_le {α : Type} (o : ElemsOps α) (l : List (MElemF α)) (el : MElemF α) (h : el ∈ l) :
    el.size o + digestSize ≤ HkeyElems.elemSizes o l := by
  unfold HkeyElems.elemSizes
  exact le_sum_of_mem' (List.mem_map.2 ⟨el, h, rfl⟩)

theorem selemEnc_of_ok {x : SElem} (h : SElemOk T L D x) (hkv : KVOk (x.key, x.val)) (hsz : x.size ≤ maxUint32) :
    SElemEnc D x :=
  ⟨h.1.1, hkv.1, hkv.2, h.2.2.2, hsz⟩

theorem selem_size_ge {x : SElem} (h : SElemOk T L D x) : 3 ≤ x.size := by
  have h1 := h.1.2.1
  have h2 := h.2.1
  rw [h.2.2.2]
  simp only [singleElementPrefixSize]
  omega

theorem mem_of_take_eq {l path : List Nat} {n hk : Nat} (h : l.take n = path ++ [hk]) : hk ∈ l :=
  List.mem_of_mem_take (by rw [h]; simp)

theorem take_of_take_succ {l path : List Nat} {n hk : Nat} (h : l.take (n + 1) = path ++ [hk])
    (hp : path.length = n) : l.take n = path := by
  have : (l.take (n + 1)).take n = l.take n := by rw [List.take_take]; simp
  rw [← this, h, List.take_append_of_le_length (by omega), ← hp, List.take_length]

/-! ### every digest in a digest table is a digest of some key below it -/

/-- a non-empty `elements` holds a key with the digest prefix `path` -/
theorem elems_has_key : ∀ (r ℓ : Nat) (path : List Nat) (e : MElems r), ElemsInv T L D r ℓ path e →
    path.length = ℓ → 1 ≤ (MElems.ops r).count e →
    ∃ k : MKey, k.digs = D.dg (k.size, k.pay) ∧ k.digs.take ℓ = path
  | 0, ℓ, path, (se : SingleElems), h, _, hc => by
    obtain ⟨_, _, _, h4, _⟩ := h
    have hc' : 1 ≤ se.elems.length := hc
    cases hl : se.elems with
    | nil => rw [hl] at hc'; simp at hc'
    | cons x rest =>
      obtain ⟨h5, h6⟩ := h4 x (by rw [hl]; simp)
      exact ⟨x.key, h5.1.1, h6⟩
  | r + 1, ℓ, path, (he : HkeyElems (MElems r)), h, hp, hc => by
    obtain ⟨_, _, h3, _, _, h6⟩ := h
    have hc' : 1 ≤ he.elems.length := hc
    have hk0 : 0 < he.hkeys.length := by omega
    have he0 : 0 < he.elems.length := by omega
    have := h6 0 he.hkeys[0] he.elems[0] (List.getElem?_eq_getElem hk0) (List.getElem?_eq_getElem he0)
    have hp' : (path ++ [he.hkeys[0]]).length = ℓ + 1 := by simp [hp]
    generalize he.elems[0] = el at this
    cases el with
    | single x =>
      exact ⟨x.key, this.1.1.1, take_of_take_succ this.2 hp⟩
    | inl g =>
      obtain ⟨k, hk1, hk2⟩ := elems_has_key r (ℓ + 1) _ g this.1 hp' this.2.1
      exact ⟨k, hk1, take_of_take_succ hk2 hp⟩
    | ext id sz s =>
      obtain ⟨k, hk1, hk2⟩ := elems_has_key r (ℓ + 1) _ s.elems this.2.2.2.2.2.1 hp' this.2.2.2.2.2.2.1
      exact ⟨k, hk1, take_of_take_succ hk2 hp⟩

/-- the digests of a digest table are digests of keys, hence below 2⁶⁴ -/
theorem hkeys_lt (hD : ∀ p, ∀ h ∈ D.dg p, h < 2 ^ 64) (r ℓ : Nat) (path : List Nat) (he : HkeyElems (MElems r))
    (h : ElemsInv T L D (r + 1) ℓ path he) (hp : path.length = ℓ) : ∀ hk ∈ he.hkeys, hk < 2 ^ 64 := by
  obtain ⟨_, _, h3, _, _, h6⟩ := h
  intro hk hm
  obtain ⟨i, hi, rfl⟩ := List.mem_iff_getElem.1 hm
  have hi' : i < he.elems.length := by omega
  have := h6 i he.hkeys[i] he.elems[i] (List.getElem?_eq_getElem hi) (List.getElem?_eq_getElem hi')
  have hp' : (path ++ [he.hkeys[i]]).length = ℓ + 1 := by simp [hp]
  have key : ∃ k : MKey, k.digs = D.dg (k.size, k.pay) ∧ k.digs.take (ℓ + 1) = path ++ [he.hkeys[i]] := by
    generalize he.elems[i] = el at this
    cases el with
    | single x => exact ⟨x.key, this.1.1.1, this.2⟩
    | inl g => exact elems_has_key r (ℓ + 1) _ g this.1 hp' this.2.1
    | ext id sz s => exact elems_has_key r (ℓ + 1) _ s.elems this.2.2.2.2.2.1 hp' this.2.2.2.2.2.2.1
  obtain ⟨k, hk1, hk2⟩ := key
  have := mem_of_take_eq hk2
  rw [hk1] at this
  exact hD _ _ this

/-! ### small `elements` respect the field widths -/

theorem fit_of_size : ∀ (r ℓ : Nat) (path : List Nat) (e : MElems r), ElemsInv T L D r ℓ path e →
    (MElems.ops r).size e < 65536 → Fit r e
  | 0, ℓ, path, (se : SingleElems), h, hs => by
    obtain ⟨_, _, h3, h4, _⟩ := h
    have hs' : se.size < 65536 := hs
    have := length_mul_le_sum (n := 3) (l := se.elems.map (·.size)) (by
      intro a ha
      obtain ⟨x, hx, rfl⟩ := List.mem_map.1 ha
      exact selem_size_ge (h4 x hx).1)
    rw [List.length_map] at this
    refine ⟨by omega, ?_⟩
    simp only [maxUint32]
    omega
  | r + 1, ℓ, path, (he : HkeyElems (MElems r)), h, hs => by
    obtain ⟨_, _, h3, _, h5, h6⟩ := h
    have hs' : he.size < 65536 := hs
    have hge := elemSizes_ge (MElems.ops r) he.elems
    simp only [digestSize] at hge
    refine ⟨by omega, by simp only [maxUint32]; omega, ?_⟩
    intro el hel
    cases el with
    | single x => trivial
    | ext id sz s => trivial
    | inl g =>
      obtain ⟨i, hi, hget⟩ := List.mem_iff_getElem.1 hel
      have hi' : i < he.hkeys.length := by omega
      have := h6 i he.hkeys[i] (.inl g) (List.getElem?_eq_getElem hi') (by rw [List.getElem?_eq_getElem hi, hget])
      have hle := elem_size_le (MElems.ops r) he.elems (.inl g) hel
      simp only [MElemF.size] at hle
      exact fit_of_size r (ℓ + 1) _ g this.1 (by omega)

/-! ### collision groups below the first level -/

theorem ops_count_zero (se : SingleElems) : (MElems.ops 0).count se = se.elems.length := rfl
theorem ops_count_succ (he : HkeyElems (MElems r)) : (MElems.ops (r + 1)).count he = he.elems.length := rfl
theorem ops_toList_zero (se : SingleElems) : (MElems.ops 0).toList se = se.elems.map (fun x => (x.key, x.val)) := rfl
theorem ops_toList_succ (he : HkeyElems (MElems r)) :
    (MElems.ops (r + 1)).toList he = he.elems.flatMap (fun el => el.toList (MElems.ops r)) := rfl

/-- `elements` below the first level (no external group there) meet the encoder's preconditions -/
theorem elemsEnc_of_inv (hL : L ≤ 9) (hD : ∀ p, ∀ h ∈ D.dg p, h < 2 ^ 64) :
    ∀ (r ℓ : Nat) (path : List Nat) (e : MElems r), ElemsInv T L D r ℓ path e → 1 ≤ ℓ → path.length = ℓ →
    1 ≤ (MElems.ops r).count e → Fit r e → (∀ p ∈ (MElems.ops r).toList e, KVOk p) → ElemsEnc D r e
  | 0, ℓ, path, (se : SingleElems), h, _, _, hc, hfit, hkv => by
    obtain ⟨h1, h2, h3, h4, _⟩ := h
    obtain ⟨f1, f2⟩ := hfit
    have hc' : 1 ≤ se.elems.length := hc
    refine ⟨by omega, ?_, f1, ?_, h3, f2⟩
    · intro hnil; rw [hnil] at hc'; simp at hc'
    · intro x hx
      refine selemEnc_of_ok (h4 x hx).1 (hkv (x.key, x.val) ?_) ?_
      · rw [ops_toList_zero]; exact List.mem_map.2 ⟨x, hx, rfl⟩
      · have := le_sum_of_mem' (List.mem_map.2 ⟨x, hx, rfl⟩ : x.size ∈ se.elems.map (·.size))
        omega
  | r + 1, ℓ, path, (he : HkeyElems (MElems r)), h, hℓ, hp, hc, hfit, hkv => by
    have hlt := hkeys_lt hD r ℓ path he h hp
    obtain ⟨h1, h2, h3, _, h5, h6⟩ := h
    obtain ⟨f1, f2, f3⟩ := hfit
    refine ⟨by omega, h3, f1, hlt, ?_, h5, f2⟩
    intro el hel
    obtain ⟨i, hi, hget⟩ := List.mem_iff_getElem.1 hel
    have hi' : i < he.hkeys.length := by omega
    have := h6 i he.hkeys[i] el (List.getElem?_eq_getElem hi') (by rw [List.getElem?_eq_getElem hi, hget])
    have hle := elem_size_le (MElems.ops r) he.elems el hel
    have hsub : ∀ p ∈ el.toList (MElems.ops r), KVOk p := by
      intro p hp'
      apply hkv
      rw [ops_toList_succ]
      exact List.mem_flatMap.2 ⟨el, hel, hp'⟩
    cases el with
    | single x =>
      refine selemEnc_of_ok this.1 (hsub (x.key, x.val) (by simp [MElemF.toList])) ?_
      simp only [MElemF.size] at hle
      omega
    | inl g =>
      exact elemsEnc_of_inv hL hD r (ℓ + 1) _ g this.1 (by omega) (by simp [hp]) this.2.1 (f3 _ hel) hsub
    | ext id sz s => exact absurd this.1 (by omega)

/-! ### the first level of a data slab, in stored form -/

theorem stripElem_size {α : Type} (o : ElemsOps α) (f : MElemF α → MElemF α)
    (hf : ∀ el, (f el).size o = el.size o) (l : List (MElemF α)) :
    HkeyElems.elemSizes o (l.map f) = HkeyElems.elemSizes o l := by
  unfold HkeyElems.elemSizes
  rw [List.map_map]
  congr 1
  apply List.map_congr_left
  intro el _
  simp only [Function.comp, hf]

theorem stripElem_size_eq (el : MElemF (MElems r)) :
    (stripElem el).size (MElems.ops r) = el.size (MElems.ops r) := by
  cases el <;> rfl

theorem thr_le (hT : legalThreshold T = true) : maxThr T ≤ 49152 := by
  have F := thrFacts hT
  rw [F.maxE]; have := F.hi; omega

/-- the elements of a data slab, external groups stripped to references, meet the encoder's
    preconditions -/
theorem data_elemsEnc {D : DigestFn (r + 1)} (hr : r ≤ 8) (hD : ∀ p, ∀ h ∈ D.dg p, h < 2 ^ 64)
    (s : MDataSlab r) (h : ElemsInv T (r + 1) D (r + 1) 0 [] s.elems) (hsz : s.elems.size ≤ 49152)
    (hkv : ∀ p ∈ HkeyElems.toList (MElems.ops r) s.elems, KVOk p)
    (hids : ∀ id ∈ AList.keys s.groupSlabs, id.addr < 2 ^ 64 ∧ id.idx < 2 ^ 64) :
    ElemsEnc D (r + 1) (stripData s).elems := by
  have hlt := hkeys_lt hD r 0 [] s.elems h rfl
  obtain ⟨h1, h2, h3, _, h5, h6⟩ := h
  have hge := elemSizes_ge (MElems.ops r) s.elems.elems
  simp only [digestSize] at hge
  simp only [hkeyElementsPrefixSize] at h5
  have hE : HkeyElems.elemSizes (MElems.ops r) (s.elems.elems.map stripElem)
      = HkeyElems.elemSizes (MElems.ops r) s.elems.elems :=
    stripElem_size (MElems.ops r) stripElem stripElem_size_eq _
  refine ⟨?_, ?_, ?_, hlt, ?_, ?_, ?_⟩
  · show s.elems.level < 24
    omega
  · show s.elems.hkeys.length = (s.elems.elems.map stripElem).length
    rw [List.length_map]; exact h3
  · show (s.elems.elems.map stripElem).length < 8192
    rw [List.length_map]; omega
  · intro el' hel'
    have hel'' : el' ∈ s.elems.elems.map stripElem := hel'
    obtain ⟨el, hel, rfl⟩ := List.mem_map.1 hel''
    obtain ⟨i, hi, hget⟩ := List.mem_iff_getElem.1 hel
    have hi' : i < s.elems.hkeys.length := by omega
    have := h6 i s.elems.hkeys[i] el (List.getElem?_eq_getElem hi') (by rw [List.getElem?_eq_getElem hi, hget])
    have hle := elem_size_le (MElems.ops r) s.elems.elems el hel
    have hsub : ∀ p ∈ el.toList (MElems.ops r), KVOk p := by
      intro p hp'
      apply hkv
      exact List.mem_flatMap.2 ⟨el, hel, hp'⟩
    cases el with
    | single x =>
      refine selemEnc_of_ok this.1 (hsub (x.key, x.val) (by simp [MElemF.toList])) ?_
      simp only [MElemF.size] at hle
      simp only [maxUint32]
      omega
    | inl g =>
      simp only [MElemF.size, inlineCollisionGroupPrefixSize] at hle
      exact elemsEnc_of_inv (by omega) hD r 1 _ g this.1 (Nat.le_refl 1) (by simp) this.2.1
        (fit_of_size r 1 _ g this.1 (by omega)) hsub
    | ext id sz gs =>
      refine ⟨this.2.1, ?_, ?_, rfl, emptyElems_isEmpty r⟩
      · refine (hids id ?_).1
        rw [keys_groupSlabs]
        exact List.mem_filterMap.2 ⟨_, hel, rfl⟩
      · refine (hids id ?_).2
        rw [keys_groupSlabs]
        exact List.mem_filterMap.2 ⟨_, hel, rfl⟩
  · show s.elems.size = hkeyElementsPrefixSize + HkeyElems.elemSizes (MElems.ops r) (s.elems.elems.map stripElem)
    rw [hE]; simp only [hkeyElementsPrefixSize]; exact h5
  · show s.elems.size ≤ maxUint32
    simp only [maxUint32]; omega

/-! ### the slabs of a subtree -/

theorem ownIdM_ment : ∀ (d : Nat) (t : MTree r d) (x : Option (Nat × Nat × Nat)),
    ownIdM (.tree (stripView (ment d t)) x : MSSlab r) = (MTree.hdr d t).id
  | 0, _, _ => rfl
  | _ + 1, _, _ => rfl

theorem hdr_size_le {D : DigestFn (r + 1)} : ∀ (d : Nat) (top : Bool) (t : MTree r d), MTreeInv T D d top t →
    (MTree.hdr d t).size ≤ maxThr T
  | 0, top, (s : MDataSlab r), h => ((mtreeInv_zero_iff T D top s).mp h).le_max
  | d + 1, top, (m : MMetaSlab (MTree r d)), h => ((mtreeInv_succ_iff T D d top m).mp h).2.1

theorem headD_lt {l : List Nat} (h : ∀ a ∈ l, a < 2 ^ 64) : l.headD 0 < 2 ^ 64 := by
  cases l with
  | nil => simp
  | cons a l => exact h a (by simp)

theorem mleaves_zero (s : MDataSlab r) : MTree.leaves 0 s = [s] := rfl
theorem mleaves_succ {d : Nat} (m : MMetaSlab (MTree r d)) :
    MTree.leaves (d + 1) m = m.children.flatMap (MTree.leaves d) := rfl
theorem mtoList_zero (s : MDataSlab r) : MTree.toList 0 s = HkeyElems.toList (MElems.ops r) s.elems := rfl
theorem mtoList_succ {d : Nat} (m : MMetaSlab (MTree r d)) :
    MTree.toList (d + 1) m = m.children.flatMap (MTree.toList d) := rfl
theorem mdigests0_zero (s : MDataSlab r) : MTree.digests0 0 s = s.elems.hkeys := rfl
theorem mdigests0_succ {d : Nat} (m : MMetaSlab (MTree r d)) :
    MTree.digests0 (d + 1) m = m.children.flatMap (MTree.digests0 d) := rfl

/-- a data slab and its external collision groups -/
theorem mdata_ok {D : DigestFn (r + 1)} (hT : legalThreshold T = true) (hr : r ≤ 8)
    (hD : ∀ p, ∀ h ∈ D.dg p, h < 2 ^ 64) (top : Bool) (s : MDataSlab r) (x : Option (Nat × Nat × Nat))
    (hinv : MDataInv T D top s) (hinl : s.inlined = false) (hx : x.isSome = top) (hxo : XOk x)
    (hkv : ∀ p ∈ MTree.toList 0 s, KVOk p)
    (hids : ∀ id ∈ AList.keys (MTree.slabs 0 s), id.addr < 2 ^ 64 ∧ id.idx < 2 ^ 64)
    (hnx : validNext s.next) (hfit : ∀ p ∈ MTree.slabs 0 s, FitView p.2) :
    OkM D (.tree (.data (stripData s)) x) ∧
    (∀ p ∈ s.groupSlabs, OkM D (.tree (stripView p.2) none) ∧ ownIdM (.tree (stripView p.2) none : MSSlab r) = p.1) ∧
    (∀ h ∈ s.elems.hkeys, h < 2 ^ 64) := by
  have hmx := thr_le hT
  have hsz : s.elems.size ≤ 49152 := by
    have := hinv.le_max
    rw [hinv.size_eq] at this
    omega
  have hgids : ∀ id ∈ AList.keys s.groupSlabs, id.addr < 2 ^ 64 ∧ id.idx < 2 ^ 64 := by
    intro id hid
    apply hids
    rw [mslabs_zero, keys_cons']
    exact List.mem_cons_of_mem _ hid
  have hE := data_elemsEnc hr hD s hinv.elems_inv hsz hkv hgids
  refine ⟨?_, ?_, hkeys_lt hD r 0 [] s.elems hinv.elems_inv rfl⟩
  · refine ⟨hr, hE, hinv.size_eq, hinv.first_eq, ?_, hinl, hnx, hxo, ?_⟩
    · show s.root = x.isSome
      rw [hinv.root_eq, hx]
    · show s.hdr.size ≤ maxUint32
      have := hinv.le_max
      simp only [maxUint32]; omega
  · intro p hp
    unfold MDataSlab.groupSlabs at hp
    obtain ⟨el, hel, hpe⟩ := List.mem_filterMap.1 hp
    cases el with
    | single x => cases hpe
    | inl g => cases hpe
    | ext id sz gs =>
      simp only [Option.some.injEq] at hpe
      subst hpe
      obtain ⟨_, _, h3, _, _, h6⟩ := hinv.elems_inv
      obtain ⟨i, hi, hget⟩ := List.mem_iff_getElem.1 hel
      have hi' : i < s.elems.hkeys.length := by omega
      have := h6 i s.elems.hkeys[i] _ (List.getElem?_eq_getElem hi') (by rw [List.getElem?_eq_getElem hi, hget])
      obtain ⟨_, _, e3, e4, e5, e6, e7, _⟩ := this
      have hf : FitView (.group gs : MSlabView r) := hfit (id, .group gs) (by
        rw [mslabs_zero]
        exact List.mem_cons_of_mem _ hp)
      have hsub : ∀ q ∈ (MElems.ops r).toList gs.elems, KVOk q := by
        intro q hq
        apply hkv
        rw [mtoList_zero]
        exact List.mem_flatMap.2 ⟨_, hel, hq⟩
      refine ⟨⟨hr, rfl, ?_, e4, e5, hf.2⟩, e3⟩
      exact elemsEnc_of_inv (by omega) hD r 1 _ gs.elems e6 (Nat.le_refl 1) (by simp) e7 hf.1 hsub

/-- Every slab of a subtree satisfying the invariant meets the encoder's preconditions and carries
    its own ID. -/
theorem mtree_ok {D : DigestFn (r + 1)} (hT : legalThreshold T = true) (hr : r ≤ 8)
    (hD : ∀ p, ∀ h ∈ D.dg p, h < 2 ^ 64) :
    ∀ (d : Nat) (top : Bool) (t : MTree r d) (x : Option (Nat × Nat × Nat)),
      MTreeInv T D d top t → treeInl d t = false → x.isSome = top → XOk x →
      (∀ p ∈ MTree.toList d t, KVOk p) →
      (∀ id ∈ AList.keys (MTree.slabs d t), id.addr < 2 ^ 64 ∧ id.idx < 2 ^ 64) →
      (∀ s ∈ MTree.leaves d t, validNext s.next) →
      (∀ p ∈ MTree.slabs d t, FitView p.2) →
      OkM D (.tree (stripView (ment d t)) x) ∧
      (∀ p ∈ msub d t, OkM D (.tree (stripView p.2) none) ∧
        ownIdM (.tree (stripView p.2) none : MSSlab r) = p.1) ∧
      (∀ h ∈ MTree.digests0 d t, h < 2 ^ 64)
  | 0, top, (s : MDataSlab r), x, hinv, hinl, hx, hxo, hkv, hids, hnx, hfit =>
    mdata_ok hT hr hD top s x ((mtreeInv_zero_iff T D top s).mp hinv) hinl hx hxo hkv hids
      (hnx s (by rw [mleaves_zero]; simp)) hfit
  | d + 1, top, (m : MMetaSlab (MTree r d)), x, hinv, _, hx, hxo, hkv, hids, hnx, hfit => by
    obtain ⟨hm, hmax, _, _⟩ := (mtreeInv_succ_iff T D d top m).mp hinv
    obtain ⟨m1, m2, m3, m4, m5, m6, m7, _⟩ := hm
    have hmx := thr_le hT
    have hidm := hids m.hdr.id (by rw [mslabs_succ, keys_cons']; exact List.mem_cons_self)
    have hsubkeys : ∀ c ∈ m.children, ∀ id ∈ AList.keys (MTree.slabs d c),
        id ∈ AList.keys (MTree.slabs (d + 1) m) := by
      intro c hc id hid
      rw [mslabs_succ, keys_cons']
      apply List.mem_cons_of_mem
      obtain ⟨v, hv⟩ := (mem_keys_iff _ id).1 hid
      exact mem_keys_of_mem (List.mem_flatMap.2 ⟨c, hc, hv⟩)
    have ih : ∀ c ∈ m.children,
        OkM D (.tree (stripView (ment d c)) none) ∧
        (∀ p ∈ msub d c, OkM D (.tree (stripView p.2) none) ∧
          ownIdM (.tree (stripView p.2) none : MSSlab r) = p.1) ∧
        (∀ h ∈ MTree.digests0 d c, h < 2 ^ 64) := by
      intro c hc
      exact mtree_ok hT hr hD d false c none (m5 c hc) (treeInl_of_nontop d c (m5 c hc)) rfl trivial
        (fun p hp => hkv p (by rw [mtoList_succ]; exact List.mem_flatMap.2 ⟨c, hc, hp⟩))
        (fun id hid => hids id (hsubkeys c hc id hid))
        (fun s hs => hnx s (by rw [mleaves_succ]; exact List.mem_flatMap.2 ⟨c, hc, hs⟩))
        (fun p hp => hfit p (by
          rw [mslabs_succ]
          exact List.mem_cons_of_mem _ (List.mem_flatMap.2 ⟨c, hc, hp⟩)))
    refine ⟨?_, ?_, ?_⟩
    · show OkM D (.tree (.index m.hdr m.childHdrs m.root) x)
      refine ⟨hidm.1, ?_, ?_, hxo, ?_, m4, by rw [m1, hx]⟩
      · intro ch hch
        rw [m2] at hch
        obtain ⟨c, hc, rfl⟩ := List.mem_map.1 hch
        have hcid := hids _ (hsubkeys c hc _ (hdr_id_mem_keys d c))
        refine ⟨m6 c hc, hcid.2, ?_, ?_⟩
        · rw [m7 c hc]
          exact headD_lt (ih c hc).2.2
        · have := hdr_size_le d false c (m5 c hc)
          omega
      · have hlen : m.childHdrs.length = m.children.length := by rw [m2, List.length_map]
        rw [hlen]
        simp only [mapMetaDataSlabPrefixSize, mapSlabHeaderSize] at m3
        omega
      · have hlen : m.childHdrs.length = m.children.length := by rw [m2, List.length_map]
        rw [hlen]; exact m3
    · intro p hp
      rw [msub_succ] at hp
      obtain ⟨c, hc, hpc⟩ := List.mem_flatMap.1 hp
      rw [mslabs_eq] at hpc
      rcases List.mem_cons.1 hpc with rfl | hsub
      · exact ⟨(ih c hc).1, ownIdM_ment d c none⟩
      · exact (ih c hc).2.1 p hsub
    · intro h hh
      rw [mdigests0_succ] at hh
      obtain ⟨c, hc, hhc⟩ := List.mem_flatMap.1 hh
      exact (ih c hc).2.2 h hhc

/-! ### sibling links -/

theorem mleaf_id_mem : ∀ (d : Nat) (t : MTree r d) (s : MDataSlab r), s ∈ MTree.leaves d t →
    s.hdr.id ∈ AList.keys (MTree.slabs d t)
  | 0, (t : MDataSlab r), s, h => by
    rw [mleaves_zero, List.mem_singleton] at h
    subst h
    rw [mslabs_zero, keys_cons']
    exact List.mem_cons_self
  | d + 1, (m : MMetaSlab (MTree r d)), s, h => by
    rw [mleaves_succ] at h
    obtain ⟨c, hc, hs⟩ := List.mem_flatMap.1 h
    have := mleaf_id_mem d c s hs
    rw [mslabs_succ, keys_cons']
    apply List.mem_cons_of_mem
    obtain ⟨v, hv⟩ := (mem_keys_iff _ _).1 this
    exact mem_keys_of_mem (List.mem_flatMap.2 ⟨c, hc, hv⟩)

theorem mchain_nexts (l : List (MDataSlab r)) (hch : MLeafChain l) (hid : ∀ s ∈ l, validNext s.hdr.id) :
    ∀ s ∈ l, validNext s.next := by
  induction l with
  | nil => intro s hs; cases hs
  | cons a l ih =>
    cases l with
    | nil =>
      intro s hs
      simp only [List.mem_singleton] at hs
      subst hs
      have : s.next = SlabID.undef := hch
      rw [this]; exact E2E.validNext_undef
    | cons b rest =>
      obtain ⟨h1, h2⟩ : a.next = b.hdr.id ∧ MLeafChain (b :: rest) := hch
      intro s hs
      rcases List.mem_cons.1 hs with rfl | hs
      · rw [h1]; exact hid b (by simp)
      · exact ih h2 (fun x hx => hid x (List.mem_cons_of_mem _ hx)) s hs

/-! ### the stored slabs of a map -/

/-- STORED SLABS ARE ENCODABLE (maps).  Every slab the representation of a map puts into the storage
    meets the encoder's preconditions and is filed under its own ID (a large-value slab has none). -/
theorem mstored_ok {D : DigestFn (r + 1)} (hT : legalThreshold T = true) (m : OMap r)
    (extra : SlabID → Option Elem) (ctr : Nat) (hinv : MapInv T D m) (hids : MIdsOk m) (haok : MAddrOk m)
    (hle : ∀ id ∈ AList.keys (MTree.slabs m.d m.root), id.idx ≤ ctr)
    (henc : MEncOk D m extra ctr) (id : SlabID) (v : MSSlab r) (hv : mstored m extra id = some v) :
    OkM D v ∧ (ownIdM v = id ∨ ∃ e, v = .large e) := by
  cases hs : m.slabAt id with
  | none =>
    rw [mstored_of_none hs] at hv
    cases he : extra id with
    | none => rw [he] at hv; cases hv
    | some e =>
      rw [he] at hv
      simp only [Option.map_some, Option.some.injEq] at hv
      subst hv
      exact ⟨henc.extra id e he, Or.inr ⟨e, rfl⟩⟩
  | some p =>
    rw [mstored_of_some hs] at hv
    simp only [Option.some.injEq] at hv
    subst hv
    unfold OMap.slabAt at hs
    cases hf : AList.find? (MTree.slabs m.d m.root) id with
    | none => rw [hf] at hs; cases hs
    | some sl =>
      rw [hf] at hs
      simp only [Option.map_some, Option.some.injEq] at hs
      subst hs
      have hmem := mem_of_find?_gen hf
      have hidb : ∀ j ∈ AList.keys (MTree.slabs m.d m.root), j.addr < 2 ^ 64 ∧ j.idx < 2 ^ 64 := by
        intro j hj
        have h1 := haok j hj
        have h2 := hle j hj
        have h3 := henc.ctr
        exact ⟨by rw [h1]; exact henc.addr, by omega⟩
      have hnx : ∀ s ∈ MTree.leaves m.d m.root, validNext s.next := by
        apply mchain_nexts _ hinv.chain
        intro s hs'
        exact hidb _ (mleaf_id_mem m.d m.root s hs')
      have hinl : treeInl m.d m.root = false := by
        have := hinv.standalone
        obtain ⟨d, root, ty, cnt, seed⟩ := m
        rw [← isInlined_eq d root ty cnt seed]; exact this
      obtain ⟨g1, g2, _⟩ := mtree_ok hT henc.levels henc.digests m.d true m.root (some (m.ty, m.count, m.seed))
        hinv.tree hinl rfl ⟨henc.ty, henc.count, henc.seed⟩ henc.entries hidb hnx henc.groups
      rw [mslabs_eq] at hmem
      rcases List.mem_cons.1 hmem with heq | hsub
      · simp only [Prod.mk.injEq] at heq
        obtain ⟨rfl, rfl⟩ := heq
        have hroot : (MTree.hdr m.d m.root).id = m.rootID := rfl
        simp only [hroot, if_true]
        exact ⟨g1, Or.inl (ownIdM_ment m.d m.root _)⟩
      · have hne : ¬ id = m.rootID := by
          intro he
          have hnd : (AList.keys (MTree.slabs m.d m.root)).Nodup := hids
          rw [mslabs_eq, keys_cons'] at hnd
          have : id ∈ AList.keys (msub m.d m.root) := mem_keys_of_mem hsub
          rw [he] at this
          exact (List.nodup_cons.1 hnd).1 this
        simp only [hne, if_false]
        obtain ⟨h1, h2⟩ := g2 (id, sl) hsub
        exact ⟨h1, Or.inl h2⟩

/-! ### small external groups respect the field widths -/

/-- the slab of an external collision group is smaller than 64 KiB -/
def SmallView : MSlabView r → Prop
  | .group g => g.hdr.size < 65536
  | _ => True

instance (v : MSlabView r) : Decidable (SmallView v) := by
  cases v <;> (dsimp only [SmallView]; infer_instance)

theorem fitView_of_small {D : DigestFn (r + 1)} : ∀ (d : Nat) (top : Bool) (t : MTree r d), MTreeInv T D d top t →
    ∀ p ∈ MTree.slabs d t, SmallView p.2 → FitView p.2
  | 0, top, (s : MDataSlab r), hinv, p, hp, hsm => by
    have hd := (mtreeInv_zero_iff T D top s).mp hinv
    rw [mslabs_zero] at hp
    rcases List.mem_cons.1 hp with rfl | hp
    · trivial
    · unfold MDataSlab.groupSlabs at hp
      obtain ⟨el, hel, hpe⟩ := List.mem_filterMap.1 hp
      cases el with
      | single x => cases hpe
      | inl g => cases hpe
      | ext id sz gs =>
        simp only [Option.some.injEq] at hpe
        subst hpe
        obtain ⟨_, _, h3, _, _, h6⟩ := hd.elems_inv
        obtain ⟨i, hi, hget⟩ := List.mem_iff_getElem.1 hel
        have hi' : i < s.elems.hkeys.length := by omega
        have := h6 i s.elems.hkeys[i] _ (List.getElem?_eq_getElem hi') (by rw [List.getElem?_eq_getElem hi, hget])
        obtain ⟨_, _, _, e4, _, e6, _, _⟩ := this
        have hsm' : gs.hdr.size < 65536 := hsm
        refine ⟨fit_of_size r 1 _ gs.elems e6 ?_, by simp only [maxUint32]; omega⟩
        simp only [mapDataSlabPrefixSize] at e4
        omega
  | d + 1, top, (m : MMetaSlab (MTree r d)), hinv, p, hp, hsm => by
    obtain ⟨hm, _, _, _⟩ := (mtreeInv_succ_iff T D d top m).mp hinv
    rw [mslabs_succ] at hp
    rcases List.mem_cons.1 hp with rfl | hp
    · trivial
    · obtain ⟨c, hc, hpc⟩ := List.mem_flatMap.1 hp
      exact fitView_of_small d false c (hm.2.2.2.2.1 c hc) p hpc hsm

/-- a map whose external collision groups are smaller than 64 KiB respects the field widths -/
theorem groupsFit_of_small {D : DigestFn (r + 1)} (m : OMap r) (hinv : MapInv T D m)
    (h : ∀ p ∈ MTree.slabs m.d m.root, SmallView p.2) : GroupsFit m :=
  fun p hp => fitView_of_small m.d true m.root hinv.tree p hp (h p hp)

end Atree.E2EM
