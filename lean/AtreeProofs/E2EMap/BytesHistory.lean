import AtreeProofs.E2EMap.BytesStored
/-
  (MAPS) Histories whose keys and values the harness can encode: the stored keys and values stay
  encodable (`MEncSt`), hence every slab pending in the storage meets the encoder's preconditions
  (`noEncodeFailure_of_goodF`).
-/
namespace Atree.E2EM
open Atree Atree.Codec Gen MTree
open Atree.E2E (ElemEnc mem_of_find?_some)

variable {β : Type} {r : Nat}

/-- the stored keys, the stored values, the large values and the type info can be encoded -/
structure MEncSt (st : OMap r × Ctx) : Prop where
  entries : ∀ p ∈ st.1.toList, validElem ⟨p.1.size, .val p.1.pay⟩ ∧ ElemEnc p.2
  created : ∀ p ∈ st.2.created, validElem p.2
  ty : st.1.ty < 2 ^ 64

theorem elemEnc_of_validM {e : Elem} (h : validElem e) (hv : ∃ n, e.pay = .val n) : ElemEnc e := by
  obtain ⟨n, hn⟩ := hv
  unfold ElemEnc; rw [hn]; exact h

/-- the storable of an encodable value is encodable, and what is created is the value -/
theorem tsv_enc (cfg : MCfg) (k : MKey) (v : Elem) (ctx : Ctx) (hv : ValueOkM v) (hval : validElem v) :
    ElemEnc (tsv cfg k v ctx).1 ∧
    ∀ p ∈ (tsv cfg k v ctx).2.created, p ∈ ctx.created ∨ p.2 = v := by
  obtain ⟨_, n, hn⟩ := hv
  unfold tsv toStorableLim
  rw [hn]
  simp only
  split
  · refine ⟨by simp [ElemEnc], ?_⟩
    intro p hp
    simp only [Ctx.alloc, List.mem_append, List.mem_singleton] at hp
    rcases hp with h | h
    · exact Or.inl h
    · right; rw [h]
  · refine ⟨elemEnc_of_validM hval ⟨n, hn⟩, fun p hp => Or.inl hp⟩

theorem mencSt_step (c : Codec (MSSlab r) β) (T : Nat) (hT : legalThreshold T = true) (D : DigestFn (r + 1))
    (cfg : MCfg) (x : (OMap r × Ctx) × St (MSSlab r) β) (hg : MGoodF c T D cfg x) (he : MEncSt x.1)
    (op : MOp) (hop : op.Ok T D) (henc : op.Enc) : MEncSt (stepM cfg x.1 op) := by
  obtain ⟨⟨m, ctx⟩, s⟩ := x
  cases op with
  | set k v =>
    simp only [stepM]
    cases hr : m.set cfg k v ctx with
    | error e => exact he
    | ok res =>
      obtain ⟨old, m', ctx'⟩ := res
      simp only
      rcases C02.set_refines T hT D cfg m hg.cfg hg.inv k hop.1 v hop.2 ctx hg.ctx with
        ⟨old2, m2, c2, heq, _, hdict, _, hinv', _, _, hty, _⟩ | ⟨herr, _⟩
      · rw [hr] at heq
        simp only [Except.ok.injEq, Prod.mk.injEq] at heq
        obtain ⟨_, rfl, rfl⟩ := heq
        obtain ⟨E, C, hlog, _, _, hC⟩ := omap_set_created hT hg.cfg hg.inv hop.1 hop.2 ctx hg.ctx hg.ids hr
        obtain ⟨h1, h2⟩ := tsv_enc cfg k v ctx hop.2 henc.2
        refine ⟨?_, ?_, by rw [hty]; exact he.ty⟩
        · intro p hp
          simp only at hp
          have hk' := hinv'.allKeyOk p hp
          have hl := dictLookup_some_of_mem hinv'.distinct (show (p.1, p.2) ∈ m'.toList from hp)
          rw [hdict p.1 hk'] at hl
          cases hs : p.1.same k with
          | true =>
            rw [hs] at hl
            simp only [if_true, Option.some.injEq] at hl
            have := keyOk_same_eq hk' hop.1 hs
            rw [this, ← hl]
            exact ⟨henc.1, h1⟩
          | false =>
            rw [hs] at hl
            simp only [Bool.false_eq_true, if_false] at hl
            exact he.entries _ (mem_of_dictLookup_some hg.inv.allKeyOk hk' hl)
        · intro p hp
          simp only at hp
          rw [hlog.created, hC] at hp
          rcases h2 p hp with h | h
          · exact he.created p h
          · rw [h]; exact henc.2
      · rw [hr] at herr; cases herr
  | remove k =>
    simp only [stepM]
    cases hr : m.remove cfg k ctx with
    | error e => exact he
    | ok res =>
      obtain ⟨k0, v0, m', ctx'⟩ := res
      simp only
      have href := C02.remove_refines T hT D cfg m hg.cfg hg.inv k hop ctx hg.ctx
      cases hd : dictLookup m.toList k with
      | none => rw [hd] at href; simp only at href; rw [hr] at href; cases href
      | some w =>
        rw [hd] at href
        simp only at href
        obtain ⟨k1, m2, c2, heq, _, hdict, _, hinv', _, _, hty, _⟩ := href
        rw [hr] at heq
        simp only [Except.ok.injEq, Prod.mk.injEq] at heq
        obtain ⟨_, _, rfl, rfl⟩ := heq
        obtain ⟨E, hlog, _⟩ := omap_remove_created hT hg.cfg hg.inv hop ctx hg.ctx hg.ids hr
        refine ⟨?_, ?_, by rw [hty]; exact he.ty⟩
        · intro p hp
          simp only at hp
          have hk' := hinv'.allKeyOk p hp
          have hl := dictLookup_some_of_mem hinv'.distinct (show (p.1, p.2) ∈ m'.toList from hp)
          rw [hdict p.1 hk'] at hl
          cases hs : p.1.same k with
          | true => rw [hs] at hl; simp at hl
          | false =>
            rw [hs] at hl
            simp only [Bool.false_eq_true, if_false] at hl
            exact he.entries _ (mem_of_dictLookup_some hg.inv.allKeyOk hk' hl)
        · intro p hp
          simp only at hp
          rw [hlog.created] at hp
          simp only [List.append_nil] at hp
          exact he.created p hp
  | popIterate =>
    simp only [stepM]
    obtain ⟨_, hlist, _, _, _⟩ := C02.pop_refines T hT D m hg.inv ctx hg.ctx
    obtain ⟨_, hcre⟩ := omap_popKeep m ctx
    refine ⟨?_, ?_, he.ty⟩
    · intro p hp; rw [hlist] at hp; cases hp
    · intro p hp; rw [hcre] at hp; exact he.created p hp
  | setType ty =>
    simp only [stepM]
    refine ⟨he.entries, ?_, henc⟩
    intro p hp
    have : (m.setType ty ctx).2.created = ctx.created := by
      unfold OMap.setType; simp only; split <;> rfl
    rw [this] at hp
    exact he.created p hp

theorem stepS_fst (c : Codec (MSSlab r) β) (cfg : MCfg) (x : (OMap r × Ctx) × St (MSSlab r) β) (op : MOp) :
    (stepS c cfg x op).1 = stepM cfg x.1 op := rfl

theorem mencSt_runS (c : Codec (MSSlab r) β) (hc : RoundTrip c) (T : Nat) (hT : legalThreshold T = true)
    (D : DigestFn (r + 1)) (cfg : MCfg) :
    ∀ (ops : List MOp) (x : (OMap r × Ctx) × St (MSSlab r) β), MGoodF c T D cfg x → MEncSt x.1 →
      (∀ op ∈ ops, op.Ok T D) → (∀ op ∈ ops, op.Enc) → MEncSt (runS c cfg x ops).1
  | [], _, _, he, _, _ => he
  | op :: ops, x, hg, he, hok, henc => by
    have h1 := mencSt_step c T hT D cfg x hg he op (hok op (by simp)) (henc op (by simp))
    have g1 := (mgoodF_stepS c hc T hT D cfg x hg op (hok op (by simp))).1
    exact mencSt_runS c hc T hT D cfg ops (stepS c cfg x op) g1 (by rw [stepS_fst]; exact h1)
      (fun o ho => hok o (by simp [ho])) (fun o ho => henc o (by simp [ho]))

theorem mencSt_new (c : Codec (MSSlab r) β) (addr ty : Nat) (seedOf : SlabID → Nat) (hty : ty < 2 ^ 64) :
    MEncSt (newS c addr ty seedOf).1 := by
  refine ⟨?_, ?_, hty⟩
  · intro p hp; exact absurd hp (by simp [newS, OMap.new, OMap.toList, MTree.toList, HkeyElems.toList])
  · intro p hp; exact absurd hp (by simp [newS, OMap.new, Ctx.alloc, Ctx.emit])

/-- the field-width bounds on the final state that the history invariants do not give -/
structure MWidths (D : DigestFn (r + 1)) (st : OMap r × Ctx) : Prop where
  levels : r ≤ 8
  digests : ∀ p, ∀ h ∈ D.dg p, h < 2 ^ 64
  addr : st.1.addr < 2 ^ 64
  ctr : st.2.ctr < 2 ^ 64
  count : st.1.count < 2 ^ 64
  seed : st.1.seed < 2 ^ 64
  groups : GroupsFit st.1

/-- from the history invariants to the encoder's preconditions on the final state -/
theorem mencOk_of_goodF (c : Codec (MSSlab r) β) (T : Nat) (D : DigestFn (r + 1)) (cfg : MCfg)
    (x : (OMap r × Ctx) × St (MSSlab r) β) (hg : MGoodF c T D cfg x) (he : MEncSt x.1) (hw : MWidths D x.1) :
    MEncOk D x.1.1 (AList.find? x.1.2.created) x.1.2.ctr := by
  refine ⟨hw.levels, hw.digests, ?_, ?_, hw.addr, hw.ctr, he.ty, hw.count, hw.seed, hw.groups⟩
  · intro p hmem
    obtain ⟨h0, h1⟩ := he.entries p hmem
    refine ⟨h0, ?_⟩
    unfold ElemEnc at h1
    unfold validElem
    cases hp : p.2.pay with
    | val n => rw [hp] at h1; unfold validElem at h1; rw [hp] at h1; exact h1
    | ref y =>
      rw [hp] at h1
      simp only at h1 ⊢
      have := hg.refs p hmem y hp
      cases hf : AList.find? x.1.2.created y with
      | none => rw [hf] at this; cases this
      | some w =>
        have hm := mem_of_find?_some hf
        have h2 := hg.caddr _ hm
        have h3 := hg.created_le _ hm
        have h4 := hw.ctr
        simp only at h2 h3
        exact ⟨h1, by rw [h2]; exact hw.addr, by omega⟩
  · intro id v hv
    exact he.created _ (mem_of_find?_some hv)

theorem keys_le_of_goodF (c : Codec (MSSlab r) β) (T : Nat) (D : DigestFn (r + 1)) (cfg : MCfg)
    (x : (OMap r × Ctx) × St (MSSlab r) β) (hg : MGoodF c T D cfg x) :
    ∀ id ∈ AList.keys (MTree.slabs x.1.1.d x.1.1.root), id.idx ≤ x.1.2.ctr := by
  intro id hid
  have ha := hg.aok id hid
  rw [keys_mslabs] at hid
  exact hg.ctx id hid ha

/-- NO ENCODING FAILURE: every slab pending in a storage that represents the map can be encoded. -/
theorem noEncodeFailure_of_goodF (T : Nat) (hT : legalThreshold T = true) (D : DigestFn (r + 1)) (cfg : MCfg)
    (x : (OMap r × Ctx) × St (MSSlab r) (SlabID × Bytes)) (hg : MGoodF (keyedCodecM D) T D cfg x)
    (he : MEncSt x.1) (hw : MWidths D x.1) :
    NoEncodeFailure (keyedCodecM D) x.2 := by
  intro id v hv
  have ha := hg.pend id v hv
  have hview : x.2.view (keyedCodecM D) id = some v := view_of_deltas (keyedCodecM D) x.2 id (some v) hv
  rw [hg.rep.view id ha] at hview
  have := mstored_ok hT x.1.1 _ _ hg.inv hg.ids hg.aok (keys_le_of_goodF _ T D cfg x hg)
    (mencOk_of_goodF _ T D cfg x hg he hw) id v hview
  exact keyedCodecM_enc_isSome D v this.1

end Atree.E2EM
