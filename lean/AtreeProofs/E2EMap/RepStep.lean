import AtreeProofs.E2EMap.Writes
import AtreeProofs.E2E.RepStep
/-
  (MAPS) One operation of the map model whose effect log is a complete account of the change of the
  tree (`MEffectsComplete`, C09) keeps the representation relation `Rep`.
-/
namespace Atree.E2EM
open Atree St
open Atree.E2E (mem_of_find?_some find?_isSome_of_mem_keys ne_undef_of_addr)

variable {β : Type} {r : Nat}

theorem mstored_of_some {a : OMap r} {extra : SlabID → Option Elem} {id : SlabID} {p : MSlabView r × Option (Nat × Nat × Nat)}
    (h : a.slabAt id = some p) : mstored a extra id = some (.tree (stripView p.1) p.2) := by
  simp [mstored, h]

theorem mstored_of_none {a : OMap r} {extra : SlabID → Option Elem} {id : SlabID}
    (h : a.slabAt id = none) : mstored a extra id = (extra id).map .large := by
  simp [mstored, h]

/-- the final content is defined for every slab whose last event is a store -/
theorem content_wf {a a' : OMap r} {E : List Eff} {created : List (SlabID × Elem)}
    (heff : MEffectsComplete a a' E (created.map (·.1))) (id : SlabID)
    (h : lastAction E id = some true) : (mstored a' (AList.find? created) id).isSome := by
  rcases heff.stored_in_tree id h with h1 | h1
  · cases hs : a'.slabAt id with
    | none => rw [hs] at h1; cases h1
    | some p => rw [mstored_of_some hs]; rfl
  · cases hs : a'.slabAt id with
    | none =>
      rw [mstored_of_none hs]
      have := find?_isSome_of_mem_keys h1
      cases hf : AList.find? created id with
      | none => rw [hf] at this; cases this
      | some v => rfl
    | some p => rw [mstored_of_some hs]; rfl

/-- REP STEP.  If the storage represents `a`, and the log `E` is a complete account of the change
    from `a` to `a'` (with `created` the large-value slabs created meanwhile), then running `E`
    against the storage yields a storage that represents `a'`; the live large-value slabs are
    given by `extraStep`. -/
theorem rep_step_gen (c : Codec (MSSlab r) β) (s : St (MSSlab r) β) (a a' : OMap r)
    (extra : SlabID → Option Elem) (ctr ctr' : Nat) (E : List Eff) (created : List (SlabID × Elem))
    (hrep : MRep c s a extra ctr) (heff : MEffectsComplete a a' E (created.map (·.1)))
    (haddr : a'.addr = a.addr) (hne : a.addr ≠ 0) (hle : ctr ≤ ctr')
    (hcr : ∀ p ∈ created, p.1.idx ≤ ctr') :
    MRep c (applyEffs c s (mstored a' (AList.find? created)) E) a' (extraStep a' E created extra) ctr' := by
  refine ⟨?_, ?_⟩
  · intro id hid
    have hid0 : id.addr = a.addr := hid.trans haddr
    have hu := ne_undef_of_addr hid0 hne
    rw [view_applyEffs c s _ E id hu (content_wf heff id)]
    cases hl : lastAction E id with
    | none =>
      simp only
      rw [hrep.view id hid0]
      cases hs' : a'.slabAt id with
      | some p =>
        have heq : a'.slabAt id = a.slabAt id := by
          apply Classical.byContradiction
          intro hne'
          have := heff.changed_stored id (by rw [hs']; rfl) hne'
          rw [hl] at this; cases this
        rw [mstored_of_some hs', mstored_of_some (heq ▸ hs')]
      | none =>
        have hs : a.slabAt id = none := by
          cases hs : a.slabAt id with
          | none => rfl
          | some p =>
            have := heff.gone_removed id (by rw [hs]; rfl) (by rw [hs']; rfl)
            rw [hl] at this; cases this
        rw [mstored_of_none hs', mstored_of_none hs]
        simp [extraStep, hs', hl]
    | some b =>
      cases b with
      | true =>
        simp only
        cases hs' : a'.slabAt id with
        | some p => rw [mstored_of_some hs', mstored_of_some hs']
        | none =>
          rw [mstored_of_none hs', mstored_of_none hs']
          simp [extraStep, hs', hl]
      | false =>
        simp only
        have hs' : a'.slabAt id = none := by
          have := heff.removed_not_in_tree id hl
          cases hs : a'.slabAt id with
          | none => rfl
          | some p => rw [hs] at this; cases this
        rw [mstored_of_none hs']
        simp [extraStep, hs', hl]
  · intro id hsome
    unfold extraStep at hsome
    split at hsome
    · cases hsome
    · rename_i hns
      refine ⟨by cases hs : a'.slabAt id <;> simp_all, ?_⟩
      split at hsome
      · cases hf : AList.find? created id with
        | none => rw [hf] at hsome; cases hsome
        | some v => exact hcr _ (mem_of_find?_some hf)
      · cases hsome
      · exact Nat.le_trans (hrep.extra_fresh id hsome).2 hle

end Atree.E2EM
