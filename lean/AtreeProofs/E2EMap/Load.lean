import AtreeProofs.E2EMap.RepStep
import AtreeProofs.E2E.Load
import AtreeProofs.Map.TreeInv2
import AtreeProofs.Map.EffectsTop
/-
  (MAPS) Loading a map from its slabs: the tree – external collision groups included – is
  determined by its stored slabs (`loadMap_of_agree`), and loading through a transparent
  state-threading fetch (`Retrieve`) is loading from the view (`loadMapSt_spec`).
-/
namespace Atree.E2EM
open Atree Gen MTree
open Atree.E2E (optAll optAll_map)

variable {r : Nat}

/-! ### what loading needs of a tree -/

/-- child headers are the headers of the children, index slabs have children -/
def LoadOk : (d : Nat) → MTree r d → Prop
  | 0, _ => True
  | d + 1, (m : MMetaSlab (MTree r d)) =>
    m.childHdrs = m.children.map (MTree.hdr d) ∧ m.children ≠ [] ∧ ∀ c ∈ m.children, LoadOk d c

theorem loadOk_of_treeInv {T : Nat} {D : DigestFn (r + 1)} (hT : legalThreshold T = true) :
    ∀ (d : Nat) (top : Bool) (t : MTree r d), MTreeInv T D d top t → LoadOk d t
  | 0, _, _, _ => trivial
  | d + 1, top, (m : MMetaSlab (MTree r d)), h => by
    obtain ⟨hl, _, h1, h2⟩ := (mtreeInv_succ_iff T D d top m).1 h
    refine ⟨hl.2.1, ?_, fun c hc => loadOk_of_treeInv hT d false c (hl.2.2.2.2.1 c hc)⟩
    intro hnil
    cases top with
    | true => have := h2 rfl; rw [hnil] at this; simp at this
    | false =>
      have := ((mtreeInv_false_iff_succ hT m).1 h).1.2
      rw [hnil] at this; simp at this

/-! ### data slabs: the external groups come back -/

theorem loadElem_strip (look : SlabID → Option (MSSlab r)) (el : MElemF (MElems r))
    (h : ∀ id sz g, el = .ext id sz g → ∃ x, look id = some (.tree (.group g) x)) :
    loadElem look (stripElem el) = some el := by
  cases el with
  | single x => rfl
  | inl g => rfl
  | ext id sz g =>
    obtain ⟨x, hx⟩ := h id sz g rfl
    simp [stripElem, loadElem, hx]

theorem mem_groupSlabs {s : MDataSlab r} {id : SlabID} {sz : Nat} {g : GroupSlab (MElems r)}
    (h : MElemF.ext id sz g ∈ s.elems.elems) : (id, MSlabView.group g) ∈ s.groupSlabs := by
  unfold MDataSlab.groupSlabs
  rw [List.mem_filterMap]
  exact ⟨_, h, rfl⟩

theorem strip_unstrip (s : MDataSlab r) :
    ({ stripData s with elems := { (stripData s).elems with elems := s.elems.elems } } : MDataSlab r) = s := by
  obtain ⟨hdr, next, ⟨hk, el, sz, lv⟩, root, inl⟩ := s
  rfl

/-- The subtree is rebuilt from any lookup that returns the stored forms of its slabs. -/
theorem loadAt_tree (look : SlabID → Option (MSSlab r)) :
    ∀ (d : Nat) (t : MTree r d), LoadOk d t →
      (∀ p ∈ MTree.slabs d t, ∃ x, look p.1 = some (.tree (stripView p.2) x)) →
      loadAt look d (MTree.hdr d t).id = some t
  | 0, (s : MDataSlab r), _, h => by
    obtain ⟨x, hl⟩ := h (s.hdr.id, .data s) (by simp [MTree.slabs])
    simp only [stripView] at hl
    have hkids : optAll (loadElem look) (stripData s).elems.elems = some s.elems.elems := by
      show optAll (loadElem look) (s.elems.elems.map stripElem) = _
      apply optAll_map (loadElem look) stripElem
      intro el hel
      apply loadElem_strip
      intro id sz g he
      subst he
      obtain ⟨y, hy⟩ := h (id, .group g) (by
        simp only [MTree.slabs, List.mem_cons]
        exact Or.inr (mem_groupSlabs hel))
      exact ⟨y, hy⟩
    show loadAt look 0 s.hdr.id = some s
    simp only [loadAt, hl, hkids]
    exact congrArg some (strip_unstrip s)
  | d + 1, (m : MMetaSlab (MTree r d)), hok, h => by
    obtain ⟨h1, _, h3⟩ := hok
    obtain ⟨x, hl⟩ := h (m.hdr.id, .index m.hdr m.childHdrs m.root) (by simp [MTree.slabs])
    simp only [stripView] at hl
    have hkids : optAll (fun (hh : MHdr) => loadAt look d hh.id) m.childHdrs = some m.children := by
      rw [h1]
      apply optAll_map (fun (hh : MHdr) => loadAt look d hh.id) (MTree.hdr d)
      intro ch hch
      apply loadAt_tree look d ch (h3 ch hch)
      intro p hp
      apply h p
      simp only [MTree.slabs, List.mem_cons, List.mem_flatMap]
      exact Or.inr ⟨ch, hch, hp⟩
    show loadAt look (d + 1) m.hdr.id = some m
    simp only [loadAt, hl, hkids]
    rfl

theorem findDepth_tree (look : SlabID → Option (MSSlab r)) :
    ∀ (d : Nat) (t : MTree r d) (fuel : Nat), d < fuel → LoadOk d t →
      (∀ p ∈ MTree.slabs d t, ∃ x, look p.1 = some (.tree (stripView p.2) x)) →
      findDepth look fuel (MTree.hdr d t).id = some d
  | 0, (s : MDataSlab r), fuel, hf, _, h => by
    obtain ⟨x, hl⟩ := h (s.hdr.id, .data s) (by simp [MTree.slabs])
    simp only [stripView] at hl
    obtain ⟨f, rfl⟩ : ∃ f, fuel = f + 1 := ⟨fuel - 1, by omega⟩
    show findDepth look (f + 1) s.hdr.id = some 0
    simp only [findDepth, hl]
  | d + 1, (m : MMetaSlab (MTree r d)), fuel, hf, hok, h => by
    obtain ⟨h1, h2, h3⟩ := hok
    obtain ⟨x, hl⟩ := h (m.hdr.id, .index m.hdr m.childHdrs m.root) (by simp [MTree.slabs])
    simp only [stripView] at hl
    obtain ⟨f, rfl⟩ : ∃ f, fuel = f + 1 := ⟨fuel - 1, by omega⟩
    match hch : m.children with
    | [] => exact absurd hch h2
    | ch :: rest =>
      have hmem : ch ∈ m.children := by rw [hch]; simp
      have ih := findDepth_tree look d ch f (by omega) (h3 ch hmem) (by
        intro p hp
        apply h p
        simp only [MTree.slabs, List.mem_cons, List.mem_flatMap]
        exact Or.inr ⟨ch, hmem, hp⟩)
      show findDepth look (f + 1) m.hdr.id = some (d + 1)
      simp only [findDepth, hl, h1, hch, List.map_cons, ih, Option.map_some]

/-! ### the whole map -/

theorem mslabAt_of_mem {m : OMap r} (hnd : MIdsOk m) {p : SlabID × MSlabView r}
    (hp : p ∈ MTree.slabs m.d m.root) :
    m.slabAt p.1 = some (p.2, if p.1 = m.rootID then some (m.ty, m.count, m.seed) else none) := by
  have := (AList.mem_iff_find? (MTree.slabs m.d m.root) hnd p.1 p.2).1 hp
  simp [OMap.slabAt, this]

/-- LOAD: any lookup that agrees with the representation of `m` on the owner's identifiers yields
    `m` itself – same depth, same slabs, same external collision groups, same entries, same type
    info, count and seed. -/
theorem loadMap_of_agree {T : Nat} {D : DigestFn (r + 1)} (hT : legalThreshold T = true) (m : OMap r)
    (hinv : MapInv T D m) (hids : MIdsOk m) (haddr : MAddrOk m) (extra : SlabID → Option Elem)
    (look : SlabID → Option (MSSlab r))
    (hag : ∀ id, id.addr = m.addr → look id = mstored m extra id) (fuel : Nat) (hf : m.d < fuel) :
    loadMap look m.rootID fuel = some m := by
  have hok := loadOk_of_treeInv hT m.d true m.root hinv.tree
  have hlook : ∀ p ∈ MTree.slabs m.d m.root, ∃ x, look p.1 = some (.tree (stripView p.2) x) := by
    intro p hp
    rw [hag p.1 (haddr p.1 (mem_keys_of_mem hp)), mstored_of_some (mslabAt_of_mem hids hp)]
    exact ⟨_, rfl⟩
  have hroot : ∃ v, look m.rootID = some (.tree v (some (m.ty, m.count, m.seed))) := by
    have hp : (m.rootID, ment m.d m.root) ∈ MTree.slabs m.d m.root := by
      rw [mslabs_eq]; exact List.mem_cons_self
    rw [hag m.rootID rfl, mstored_of_some (mslabAt_of_mem hids hp)]
    refine ⟨stripView (ment m.d m.root), ?_⟩
    simp
  obtain ⟨v, hroot⟩ := hroot
  unfold loadMap
  have h1 : findDepth look fuel m.rootID = some m.d := findDepth_tree look m.d m.root fuel hf hok hlook
  have h2 : loadAt look m.d m.rootID = some m.root := loadAt_tree look m.d m.root hok hlook
  rw [h1, hroot]
  simp only [h2, Option.map_some]

/-! ### loading through a fetch -/

variable {β : Type}

/-- `s'` is `s` after transparent reads -/
structure Keep (c : Codec (MSSlab r) β) (s s' : St (MSSlab r) β) : Prop where
  inv : Inv c s'
  view : s'.view c = s.view c
  deltas : s'.deltas = s.deltas
  base : s'.base = s.base

theorem Keep.refl {c : Codec (MSSlab r) β} {s : St (MSSlab r) β} (h : Inv c s) : Keep c s s := ⟨h, rfl, rfl, rfl⟩

theorem Keep.trans {c : Codec (MSSlab r) β} {s s' s'' : St (MSSlab r) β} (h1 : Keep c s s') (h2 : Keep c s' s'') :
    Keep c s s'' :=
  ⟨h2.inv, h2.view.trans h1.view, h2.deltas.trans h1.deltas, h2.base.trans h1.base⟩

theorem MFetchOk.get {c : Codec (MSSlab r) β} {fetch : MFetch r (St (MSSlab r) β)} (hf : MFetchOk c fetch)
    (s : St (MSSlab r) β) (id : SlabID) (hI : Inv c s) :
    ∃ s', fetch s id = .ok (s.view c id, s') ∧ Keep c s s' := by
  obtain ⟨s', h1, h2, h3, h4, h5⟩ := hf s id hI
  exact ⟨s', h1, h2, h3, h4, h5⟩

theorem optAllSt_spec {α γ : Type} (c : Codec (MSSlab r) β) (V : SlabID → Option (MSSlab r))
    (f : St (MSSlab r) β → α → Except StErr (Option γ × St (MSSlab r) β)) (g : α → Option γ)
    (hf : ∀ s x, Inv c s → s.view c = V → ∃ s', f s x = .ok (g x, s') ∧ Keep c s s') :
    ∀ (l : List α) (s : St (MSSlab r) β), Inv c s → s.view c = V →
      ∃ s', E2E.optAllSt f s l = .ok (E2E.optAll g l, s') ∧ Keep c s s'
  | [], s, hI, _ => ⟨s, rfl, Keep.refl hI⟩
  | x :: xs, s, hI, hV => by
    obtain ⟨s1, h1, k1⟩ := hf s x hI hV
    obtain ⟨s2, h2, k2⟩ := optAllSt_spec c V f g hf xs s1 k1.inv (k1.view.trans hV)
    simp only [E2E.optAllSt, h1, E2E.optAll]
    cases hg : g x with
    | none => exact ⟨s1, rfl, k1⟩
    | some y =>
      simp only [h2]
      cases hr : E2E.optAll g xs with
      | none => exact ⟨s2, rfl, k1.trans k2⟩
      | some ys => exact ⟨s2, rfl, k1.trans k2⟩

theorem loadElemSt_spec (c : Codec (MSSlab r) β) (fetch : MFetch r (St (MSSlab r) β))
    (hf : MFetchOk c fetch) (V : SlabID → Option (MSSlab r)) (s : St (MSSlab r) β)
    (el : MElemF (MElems r)) (hI : Inv c s) (hV : s.view c = V) :
    ∃ s', loadElemSt fetch s el = .ok (loadElem V el, s') ∧ Keep c s s' := by
  cases el with
  | single x => exact ⟨s, rfl, Keep.refl hI⟩
  | inl g => exact ⟨s, rfl, Keep.refl hI⟩
  | ext id sz g0 =>
    obtain ⟨s1, h1, k1⟩ := hf.get s id hI
    rw [hV] at h1
    simp only [loadElemSt, h1, loadElem]
    cases hv : V id with
    | none => exact ⟨s1, rfl, k1⟩
    | some sl =>
      cases sl with
      | large v => exact ⟨s1, rfl, k1⟩
      | tree t ty =>
        cases t with
        | data ds => exact ⟨s1, rfl, k1⟩
        | index h chs rt => exact ⟨s1, rfl, k1⟩
        | group g => exact ⟨s1, rfl, k1⟩

/-- loading a subtree through a transparent fetch is loading it from the view -/
theorem loadAtSt_spec (c : Codec (MSSlab r) β) (fetch : MFetch r (St (MSSlab r) β)) (hf : MFetchOk c fetch)
    (V : SlabID → Option (MSSlab r)) :
    ∀ (d : Nat) (s : St (MSSlab r) β) (id : SlabID), Inv c s → s.view c = V →
      ∃ s', loadAtSt fetch d s id = .ok (loadAt V d id, s') ∧ Keep c s s'
  | 0, s, id, hI, hV => by
    obtain ⟨s1, h1, k1⟩ := hf.get s id hI
    rw [hV] at h1
    simp only [loadAtSt, h1, loadAt]
    cases hv : V id with
    | none => exact ⟨s1, rfl, k1⟩
    | some sl =>
      cases sl with
      | large v => exact ⟨s1, rfl, k1⟩
      | tree t ty =>
        cases t with
        | data ds =>
          obtain ⟨s2, h2, k2⟩ := optAllSt_spec c V (loadElemSt fetch) (loadElem V)
            (fun s x hI' hV' => loadElemSt_spec c fetch hf V s x hI' hV') ds.elems.elems s1 k1.inv
            (k1.view.trans hV)
          simp only [h2]
          cases hk : E2E.optAll (loadElem V) ds.elems.elems with
          | none => exact ⟨s2, rfl, k1.trans k2⟩
          | some es => exact ⟨s2, rfl, k1.trans k2⟩
        | index h chs rt => exact ⟨s1, rfl, k1⟩
        | group g => exact ⟨s1, rfl, k1⟩
  | d + 1, s, id, hI, hV => by
    obtain ⟨s1, h1, k1⟩ := hf.get s id hI
    rw [hV] at h1
    simp only [loadAtSt, h1, loadAt]
    cases hv : V id with
    | none => exact ⟨s1, rfl, k1⟩
    | some sl =>
      cases sl with
      | large v => exact ⟨s1, rfl, k1⟩
      | tree t ty =>
        cases t with
        | data ds => exact ⟨s1, rfl, k1⟩
        | index h chs rt =>
          obtain ⟨s2, h2, k2⟩ := optAllSt_spec c V
            (fun s (hh : MHdr) => loadAtSt fetch d s hh.id) (fun (hh : MHdr) => loadAt V d hh.id)
            (fun s x hI' hV' => loadAtSt_spec c fetch hf V d s x.id hI' hV') chs s1 k1.inv
            (k1.view.trans hV)
          simp only [h2]
          cases hk : E2E.optAll (fun (hh : MHdr) => loadAt V d hh.id) chs with
          | none => exact ⟨s2, rfl, k1.trans k2⟩
          | some kids => exact ⟨s2, rfl, k1.trans k2⟩
        | group g => exact ⟨s1, rfl, k1⟩

theorem findDepthSt_spec (c : Codec (MSSlab r) β) (fetch : MFetch r (St (MSSlab r) β)) (hf : MFetchOk c fetch)
    (V : SlabID → Option (MSSlab r)) :
    ∀ (fuel : Nat) (s : St (MSSlab r) β) (id : SlabID), Inv c s → s.view c = V →
      ∃ s', findDepthSt fetch fuel s id = .ok (findDepth V fuel id, s') ∧ Keep c s s'
  | 0, s, id, hI, _ => ⟨s, rfl, Keep.refl hI⟩
  | fuel + 1, s, id, hI, hV => by
    obtain ⟨s1, h1, k1⟩ := hf.get s id hI
    rw [hV] at h1
    simp only [findDepthSt, h1, findDepth]
    cases hv : V id with
    | none => exact ⟨s1, rfl, k1⟩
    | some sl =>
      cases sl with
      | large v => exact ⟨s1, rfl, k1⟩
      | tree t ty =>
        cases t with
        | data ds => exact ⟨s1, rfl, k1⟩
        | index h chs rt =>
          cases chs with
          | nil => exact ⟨s1, rfl, k1⟩
          | cons hh rest =>
            obtain ⟨s2, h2, k2⟩ := findDepthSt_spec c fetch hf V fuel s1 hh.id k1.inv (k1.view.trans hV)
            simp only [h2]
            exact ⟨s2, rfl, k1.trans k2⟩
        | group g => exact ⟨s1, rfl, k1⟩

/-- LOAD THROUGH THE STORAGE: with a transparent fetch, `loadMapSt` returns what `loadMap` returns
    on the view, and the storage afterwards has the same view, write set and ledger. -/
theorem loadMapSt_spec (c : Codec (MSSlab r) β) (fetch : MFetch r (St (MSSlab r) β)) (hf : MFetchOk c fetch)
    (s : St (MSSlab r) β) (hI : Inv c s) (rootID : SlabID) (fuel : Nat) :
    ∃ s', loadMapSt fetch s rootID fuel = .ok (loadMap (s.view c) rootID fuel, s') ∧ Keep c s s' := by
  obtain ⟨s1, h1, k1⟩ := findDepthSt_spec c fetch hf (s.view c) fuel s rootID hI rfl
  unfold loadMapSt loadMap
  rw [h1]
  cases hd : findDepth (s.view c) fuel rootID with
  | none => exact ⟨s1, rfl, k1⟩
  | some d =>
    obtain ⟨s2, h2, k2⟩ := hf.get s1 rootID k1.inv
    rw [k1.view] at h2
    simp only [h2]
    cases hv : s.view c rootID with
    | none => exact ⟨s2, rfl, k1.trans k2⟩
    | some sl =>
      cases sl with
      | large v => exact ⟨s2, rfl, k1.trans k2⟩
      | tree t ty =>
        cases ty with
        | none => exact ⟨s2, rfl, k1.trans k2⟩
        | some ty =>
          obtain ⟨ty, cnt, seed⟩ := ty
          obtain ⟨s3, h3, k3⟩ := loadAtSt_spec c fetch hf (s.view c) d s2 rootID k2.inv
            (k2.view.trans k1.view)
          simp only [h3]
          exact ⟨s3, rfl, (k1.trans k2).trans k3⟩

/-! ### transparent fetches -/

theorem retrieve_fetchOk (c : Codec (MSSlab r) β) : MFetchOk c (fun s id => s.retrieve c id) := by
  intro s id hI
  exact retrieve_spec c s hI id

/-- a read-only operation keeps view, write set, ledger and invariant -/
theorem readOnly_keep (c : Codec (MSSlab r) β) (s : St (MSSlab r) β) (hI : Inv c s) (op : Op (MSSlab r))
    (hro : readOnlyOp op = true) : Keep c s (St.step c s op).1 := by
  cases op with
  | retrieve id =>
    obtain ⟨s', h1, h2, h3, h4, h5⟩ := retrieve_spec c s hI id
    simp only [St.step, h1]
    exact ⟨h2, h3, h4, h5⟩
  | retrieveIfLoaded id => exact Keep.refl hI
  | retrieveIgnoringDeltas id ch =>
    obtain ⟨s', h1, h2, h3, h4, h5⟩ := retrieveIgnoringDeltas_spec c s hI id ch
    simp only [St.step, h1]
    exact ⟨h2, h3, h4, h5⟩
  | dropCache =>
    exact ⟨inv_dropCache c s hI, funext (fun id => view_dropCache c s hI id), rfl, rfl⟩
  | preload ids =>
    rw [step_preload_fst]
    obtain ⟨h1, h2, h3, h4⟩ := batchPreload_spec c s hI ids
    exact ⟨h1, h2, h3, h4⟩
  | store _ _ => cases hro
  | remove _ => cases hro
  | commit _ _ _ _ => cases hro
  | dropDeltas => cases hro
  | recreate => cases hro
  | genID _ => cases hro

theorem readOnly_run_keep (c : Codec (MSSlab r) β) :
    ∀ (ops : List (Op (MSSlab r))) (s : St (MSSlab r) β), Inv c s → (∀ op ∈ ops, readOnlyOp op = true) →
      Keep c s (St.run c s ops)
  | [], s, hI, _ => Keep.refl hI
  | op :: ops, s, hI, h => by
    have k1 := readOnly_keep c s hI op (h op (by simp))
    have k2 := readOnly_run_keep c ops (St.step c s op).1 k1.inv (fun o ho => h o (by simp [ho]))
    exact k1.trans k2

/-- `Retrieve` preceded by any read-only operations (cache drops, preloads, other reads …) chosen
    by an arbitrary schedule is a transparent fetch (C08 at container level). -/
theorem fetchWith_fetchOk (c : Codec (MSSlab r) β) (sched : St (MSSlab r) β → SlabID → List (Op (MSSlab r))) :
    MFetchOk c (fetchWith c sched) := by
  intro s id hI
  have k1 := readOnly_run_keep c ((sched s id).filter readOnlyOp) s hI
    (fun op hop => (List.mem_filter.1 hop).2)
  obtain ⟨s', h1, h2, h3, h4, h5⟩ := retrieve_spec c _ k1.inv id
  refine ⟨s', ?_, h2, h3.trans k1.view, h4.trans k1.deltas, h5.trans k1.base⟩
  unfold fetchWith
  rw [h1, k1.view]

end Atree.E2EM
