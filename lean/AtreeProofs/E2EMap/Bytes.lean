import AtreeProofs.E2EMapBytesSpec
import AtreeProofs.E2EMap.Load
import AtreeProofs.E2E.Bytes
import AtreeProofs.Props.C07
/-
  (MAPS) The byte codec round-trips on the stored slabs of maps: the decoder's output, rebuilt with
  the digest function, is the stored slab (`ofSlabM_toSlabM`); the encoder's preconditions on the
  model side imply those of the codec model (`mapDataOK_of_enc`, …); hence `decM_encM` and the
  abstract law for the keyed codec.
-/
namespace Atree.E2EM
open Atree Atree.Codec Gen
open Atree.E2E (optAll optAll_map tyNum)

variable {r : Nat} {L : Nat} {D : DigestFn L}

/-! ### back and forth -/

theorem stor_ofElem_size (e : Elem) (h : validElem e) : (Stor.ofElem e).size = e.size := by
  unfold Stor.ofElem
  cases hp : e.pay with
  | val p => rfl
  | ref id =>
    unfold validElem at h
    rw [hp] at h
    simp only [Stor.size]
    exact h.1.symm

theorem elemOfStor_ofElem (e : Elem) (h : validElem e) : elemOfStor (Stor.ofElem e) = some e := by
  obtain ⟨sz, pay⟩ := e
  unfold Stor.ofElem
  cases pay with
  | val p => rfl
  | ref id =>
    unfold validElem at h
    simp only at h
    simp only [elemOfStor, h.1]

theorem toSEl_size (x : SElem) (h : SElemEnc D x) : (toSEl x).size = x.size := by
  simp only [toSEl, SEl.size, keyStor, Stor.size, stor_ofElem_size x.val h.2.2.1, h.2.2.2.1]

theorem ofSEl_toSEl (x : SElem) (h : SElemEnc D x) : ofSEl D (toSEl x) = some x := by
  obtain ⟨⟨ks, kp, kd⟩, v, sz⟩ := x
  obtain ⟨h1, _, h3, h4, _⟩ := h
  simp only at h1 h3 h4
  simp only [toSEl, keyStor, ofSEl, elemOfStor_ofElem v h3, Option.map_some, ← h1, ← h4]

theorem isEmptyElems_eq : ∀ (r : Nat) (e : MElems r), IsEmptyElems r e → e = emptyElems r
  | 0, (se : SingleElems), h => by
    obtain ⟨elems, size, level⟩ := se
    obtain ⟨h1, h2, h3⟩ := h
    simp only at h1 h2 h3
    subst h2 h3
    have : elems = [] := List.eq_nil_of_length_eq_zero h1
    subst this
    rfl
  | r + 1, (he : HkeyElems (MElems r)), h => by
    obtain ⟨hkeys, elems, size, level⟩ := he
    obtain ⟨h0, h1, h2, h3⟩ := h
    simp only at h0 h1 h2 h3
    subst h0 h2 h3
    have : elems = [] := List.eq_nil_of_length_eq_zero h1
    subst this
    rfl

theorem ofMElWith_toMElWith {α : Type} (f : α → MEls) (g : MEls → Option α) (empty : α) (P E : α → Prop)
    (hP : ∀ a, P a → g (f a) = some a) (hE : ∀ a, E a → a = empty) (el : MElemF α)
    (h : ElemEncF D P E el) : ofMElWith D g empty (toMElWith f el) = some el := by
  cases el with
  | single x => simp only [toMElWith, ofMElWith, ofSEl_toSEl x h, Option.map_some]
  | inl a => simp only [toMElWith, ofMElWith, hP a h, Option.map_some]
  | ext id sz s =>
    obtain ⟨h1, _, _, h4, h5⟩ := h
    obtain ⟨hdr, elems⟩ := s
    simp only at h4 h5
    rw [hE elems h5, h4, h1]
    rfl

theorem ofMEls_toMEls : ∀ (r : Nat) (e : MElems r), ElemsEnc D r e → ofMEls D r (toMEls r e) = some e
  | 0, (se : SingleElems), h => by
    obtain ⟨_, _, _, h4, h5, _⟩ := h
    obtain ⟨elems, size, level⟩ := se
    simp only at h4 h5
    subst h5
    simp only [toMEls, ofMEls, optAll_map (ofSEl D) toSEl elems (fun x hx => ofSEl_toSEl x (h4 x hx))]
    rfl
  | r + 1, (he : HkeyElems (MElems r)), h => by
    obtain ⟨_, _, _, _, h5, h6, _⟩ := h
    obtain ⟨hkeys, elems, size, level⟩ := he
    simp only at h5 h6
    have := optAll_map (ofMElWith D (ofMEls D r) (emptyElems r)) (toMElWith (toMEls r)) elems
      (fun el hel => ofMElWith_toMElWith (toMEls r) (ofMEls D r) (emptyElems r) (ElemsEnc D r) (IsEmptyElems r)
        (fun a ha => ofMEls_toMEls r a ha) (isEmptyElems_eq r) el (h5 el hel))
    subst h6
    simp only [toMEls, ofMEls, this]
    rfl

theorem xback_mextra (x : Option (Nat × Nat × Nat)) : xback (mextra x) = x := by
  cases x with
  | none => rfl
  | some p => rfl

theorem mextra_isSome (x : Option (Nat × Nat × Nat)) : (mextra x).isSome = x.isSome := by
  cases x <;> rfl

theorem map_ofMChildHdr (chs : List MHdr) : (chs.map toMChildHdr).map ofMChildHdr = chs := by
  rw [List.map_map]
  have : ofMChildHdr ∘ toMChildHdr = id := by funext h; rfl
  rw [this, List.map_id]

/-- the decoder's output, rebuilt with `D`, is the stored slab -/
theorem ofSlabM_toSlabM (D : DigestFn (r + 1)) (id : SlabID) (v : MSSlab r) (ok : OkM D v) :
    ofSlabM D (toSlabM id v) = some v := by
  cases v with
  | large e => rfl
  | tree t x =>
    cases t with
    | data s =>
      obtain ⟨_, h2, h3, h4, h5, h6, _, _, _⟩ := ok
      obtain ⟨hdr, next, elems, root, inlined⟩ := s
      obtain ⟨hid, hsz, hfk⟩ := hdr
      simp only [MDataSlab.prefixSize] at h3 h4 h5 h6
      subst h6 h5
      simp only [toSlabM, ofSlabM, Bool.false_eq_true, if_false, ofMEls_toMEls (r + 1) elems h2,
        xback_mextra, mextra_isSome]
      rw [h3, h4]
      cases x <;> rfl
    | index h chs root =>
      obtain ⟨_, _, _, _, h5, h6, h7⟩ := ok
      obtain ⟨hid, hsz, hfk⟩ := h
      simp only at h5 h6 h7
      subst h7
      simp only [toSlabM, ofSlabM, map_ofMChildHdr, xback_mextra, mextra_isSome, List.length_map, ← h5, ← h6]
    | group g =>
      obtain ⟨_, hx, h3, h4, h5, _⟩ := ok
      obtain ⟨hdr, elems⟩ := g
      obtain ⟨hid, hsz, hfk⟩ := hdr
      simp only at h3 h4 h5
      simp only [toSlabM, ofSlabM, if_true, ofMEls_toMEls r elems h3, Option.map_some, xback_mextra, ← h4, ← h5]

/-! ### the encoder's preconditions of the codec model -/

theorem rtSElList_of : ∀ {l : List SEl}, (∀ e ∈ l, e.RT) → rtSElList l
  | [], _ => by simp only [rtSElList]
  | e :: l, h => by
    simp only [rtSElList]
    exact ⟨h e (by simp), rtSElList_of (fun x hx => h x (by simp [hx]))⟩

theorem rtMElList_of : ∀ {l : List MEl}, (∀ e ∈ l, e.RT) → rtMElList l
  | [], _ => by simp only [rtMElList]
  | e :: l, h => by
    simp only [rtMElList]
    exact ⟨h e (by simp), rtMElList_of (fun x hx => h x (by simp [hx]))⟩

theorem noInlSElList_of : ∀ {l : List SEl}, (∀ e ∈ l, e.noInl) → noInlSElList l
  | [], _ => by simp only [noInlSElList]
  | e :: l, h => by
    simp only [noInlSElList]
    exact ⟨h e (by simp), noInlSElList_of (fun x hx => h x (by simp [hx]))⟩

theorem noInlMElList_of : ∀ {l : List MEl}, (∀ e ∈ l, e.noInl) → noInlMElList l
  | [], _ => by simp only [noInlMElList]
  | e :: l, h => by
    simp only [noInlMElList]
    exact ⟨h e (by simp), noInlMElList_of (fun x hx => h x (by simp [hx]))⟩

theorem vneedSElList_le {n : Nat} : ∀ {l : List SEl}, (∀ e ∈ l, e.vneed ≤ n) → vneedSElList l ≤ n
  | [], _ => by simp only [vneedSElList]; omega
  | e :: l, h => by
    simp only [vneedSElList]
    have h1 := h e (by simp)
    have h2 := vneedSElList_le (n := n) (l := l) (fun x hx => h x (by simp [hx]))
    omega

theorem vneedMElList_le {n : Nat} : ∀ {l : List MEl}, (∀ e ∈ l, e.vneed ≤ n) → vneedMElList l ≤ n
  | [], _ => by simp only [vneedMElList]; omega
  | e :: l, h => by
    simp only [vneedMElList]
    have h1 := h e (by simp)
    have h2 := vneedMElList_le (n := n) (l := l) (fun x hx => h x (by simp [hx]))
    omega

theorem sizeSEl_map : ∀ (l : List SElem), (∀ x ∈ l, SElemEnc D x) →
    sizeSEl (l.map toSEl) = (l.map (·.size)).sum
  | [], _ => by simp [sizeSEl]
  | x :: l, h => by
    simp only [List.map_cons, sizeSEl, List.sum_cons]
    rw [toSEl_size x (h x (by simp)), sizeSEl_map l (fun y hy => h y (by simp [hy]))]

theorem sizeMEl_map {α : Type} (o : ElemsOps α) (f : α → MEls) : ∀ (l : List (MElemF α)),
    (∀ el ∈ l, (toMElWith f el).size = el.size o) →
    sizeMEl (l.map (toMElWith f)) = HkeyElems.elemSizes o l
  | [], _ => by simp [sizeMEl, HkeyElems.elemSizes]
  | el :: l, h => by
    have ih := sizeMEl_map o f l (fun y hy => h y (by simp [hy]))
    simp only [HkeyElems.elemSizes] at ih ⊢
    simp only [List.map_cons, sizeMEl, List.sum_cons]
    rw [h el (by simp), ih]
    omega

theorem stor_ofElem_RT (e : Elem) (h : validElem e) : (Stor.ofElem e).RT := by
  obtain ⟨sz, pay⟩ := e
  unfold Stor.ofElem
  cases pay with
  | val p => exact h
  | ref id =>
    unfold validElem at h
    simp only at h
    exact ⟨h.2.1, h.2.2⟩

theorem stor_ofElem_noInl (e : Elem) : (Stor.ofElem e).noInl := by
  unfold Stor.ofElem
  cases e.pay <;> simp [Stor.noInl]

theorem stor_ofElem_vneed (e : Elem) : (Stor.ofElem e).vneed = 1 := by
  unfold Stor.ofElem
  cases e.pay <;> simp [Stor.vneed]

theorem toSEl_facts (x : SElem) (h : SElemEnc D x) :
    (toSEl x).RT ∧ (toSEl x).noInl ∧ (toSEl x).vneed = 2 := by
  have hsz := toSEl_size x h
  obtain ⟨_, h2, h3, h4, h5⟩ := h
  refine ⟨?_, ?_, ?_⟩
  · simp only [toSEl, SEl.RT, keyStor]
    refine ⟨h2, stor_ofElem_RT _ h3, ?_⟩
    simp only [toSEl, SEl.size, keyStor] at hsz
    omega
  · simp only [toSEl, SEl.noInl, keyStor, Stor.noInl, true_and]
    exact stor_ofElem_noInl _
  · simp only [toSEl, SEl.vneed, keyStor, Stor.vneed, stor_ofElem_vneed]
    rfl

theorem ops_size_zero (se : SingleElems) : (MElems.ops 0).size se = se.size := rfl
theorem ops_size_succ (he : HkeyElems (MElems r)) : (MElems.ops (r + 1)).size he = he.size := rfl

/-- the model-side preconditions give those of the codec model, and the sizes agree -/
theorem toMEls_facts : ∀ (r : Nat) (e : MElems r), ElemsEnc D r e →
    (toMEls r e).RT ∧ (toMEls r e).noInl ∧ (toMEls r e).vneed ≤ 4 + 3 * r ∧
    (toMEls r e).size = (MElems.ops r).size e
  | 0, (se : SingleElems), h => by
    obtain ⟨h1, h2, h3, h4, h5, h6⟩ := h
    have hsz : (toMEls 0 se).size = se.size := by
      simp only [toMEls, MEls.size]
      rw [sizeSEl_map se.elems h4, h5]
    refine ⟨?_, ?_, ?_, hsz⟩
    · simp only [toMEls, MEls.size] at hsz
      simp only [toMEls, MEls.RT, List.length_map]
      refine ⟨h1, ?_, h3, rtSElList_of ?_, by omega⟩
      · intro hnil
        exact h2 (List.map_eq_nil_iff.1 hnil)
      · intro e he
        obtain ⟨x, hx, rfl⟩ := List.mem_map.1 he
        exact (toSEl_facts x (h4 x hx)).1
    · simp only [toMEls, MEls.noInl]
      apply noInlSElList_of
      intro e he
      obtain ⟨x, hx, rfl⟩ := List.mem_map.1 he
      exact (toSEl_facts x (h4 x hx)).2.1
    · simp only [toMEls, MEls.vneed]
      have : vneedSElList (se.elems.map toSEl) ≤ 2 := by
        apply vneedSElList_le
        intro e he
        obtain ⟨x, hx, rfl⟩ := List.mem_map.1 he
        rw [(toSEl_facts x (h4 x hx)).2.2]
        exact Nat.le_refl 2
      omega
  | r + 1, (he : HkeyElems (MElems r)), h => by
    obtain ⟨h1, h2, h3, h4, h5, h6, h7⟩ := h
    have hel : ∀ el ∈ he.elems, (toMElWith (toMEls r) el).RT ∧ (toMElWith (toMEls r) el).noInl ∧
        (toMElWith (toMEls r) el).vneed ≤ 5 + 3 * r ∧
        (toMElWith (toMEls r) el).size = el.size (MElems.ops r) := by
      intro el hmem
      have hE := h5 el hmem
      cases el with
      | single x =>
        obtain ⟨g1, g2, g3⟩ := toSEl_facts x hE
        refine ⟨g1, g2, ?_, toSEl_size x hE⟩
        show (toSEl x).vneed ≤ _
        rw [g3]; omega
      | inl g =>
        obtain ⟨g1, g2, g3, g4⟩ := toMEls_facts r g hE
        refine ⟨g1, g2, ?_, ?_⟩
        · show (toMEls r g).vneed + 1 ≤ _
          omega
        · show inlineCollisionGroupPrefixSize + (toMEls r g).size = _
          rw [g4]; rfl
      | ext id sz s =>
        obtain ⟨e1, e2, e3, _, _⟩ := hE
        refine ⟨⟨e2, e3⟩, trivial, ?_, ?_⟩
        · show 2 ≤ _
          omega
        · show externalCollisionGroupPrefixSize + slabIDStorableSize = sz
          exact e1.symm
    have hsz : (toMEls (r + 1) he).size = he.size := by
      simp only [toMEls, MEls.size]
      rw [sizeMEl_map (MElems.ops r) (toMEls r) he.elems (fun el hm => (hel el hm).2.2.2), h6]
    refine ⟨?_, ?_, ?_, hsz⟩
    · simp only [toMEls, MEls.size] at hsz
      simp only [toMEls, MEls.RT, List.length_map]
      refine ⟨h1, h2, h3, h4, rtMElList_of ?_, by omega⟩
      intro e he'
      obtain ⟨el, hm, rfl⟩ := List.mem_map.1 he'
      exact (hel el hm).1
    · simp only [toMEls, MEls.noInl]
      apply noInlMElList_of
      intro e he'
      obtain ⟨el, hm, rfl⟩ := List.mem_map.1 he'
      exact (hel el hm).2.1
    · simp only [toMEls, MEls.vneed]
      have : vneedMElList (he.elems.map (toMElWith (toMEls r))) ≤ 5 + 3 * r := by
        apply vneedMElList_le
        intro e he'
        obtain ⟨el, hm, rfl⟩ := List.mem_map.1 he'
        exact (hel el hm).2.2.1
      omega

theorem validMapExtra_mextra (x : Option (Nat × Nat × Nat)) (h : XOk x) :
    ∀ y, mextra x = some y → validMapExtra y := by
  intro y hy
  cases x with
  | none => cases hy
  | some p =>
    simp only [mextra, Option.map_some, Option.some.injEq] at hy
    subst hy
    exact h

/-- a stored data slab meets `Codec.MapDataOK` -/
theorem mapDataOK_data (D : DigestFn (r + 1)) (s : MDataSlab r) (x : Option (Nat × Nat × Nat))
    (ok : OkM D (.tree (.data s) x)) :
    MapDataOK { id := s.hdr.id, next := s.next, extra := mextra x, els := toMEls (r + 1) s.elems,
                anySize := false, group := false } := by
  obtain ⟨hr, h2, h3, _, h5, h6, h7, h8, h9⟩ := ok
  obtain ⟨g1, g2, g3, g4⟩ := toMEls_facts (r + 1) s.elems h2
  refine ⟨g1, g2, ?_, h7, validMapExtra_mextra x h8, ?_⟩
  · show (toMEls (r + 1) s.elems).vneed ≤ maxNestedLevels
    simp only [maxNestedLevels]
    omega
  · show versionAndFlagSize + (toMEls (r + 1) s.elems).size + (if (mextra x).isSome then 0 else SlabIDLength) ≤ maxUint32
    rw [g4, ops_size_succ, mextra_isSome]
    simp only [MDataSlab.prefixSize, h6, h5, Bool.false_eq_true, if_false] at h3
    cases hx : x.isSome <;>
      simp only [hx, Bool.false_eq_true, if_false, if_true, versionAndFlagSize, SlabIDLength,
        mapRootDataSlabPrefixSize, mapDataSlabPrefixSize] at h3 ⊢ <;> omega

/-- the slab of an external collision group meets `Codec.MapDataOK` -/
theorem mapDataOK_group (D : DigestFn (r + 1)) (g : GroupSlab (MElems r)) (x : Option (Nat × Nat × Nat))
    (ok : OkM D (.tree (.group g) x)) :
    MapDataOK { id := g.hdr.id, next := SlabID.undef, extra := mextra x, els := toMEls r g.elems,
                anySize := true, group := true } := by
  obtain ⟨hr, hx, h3, h4, _, h6⟩ := ok
  obtain ⟨g1, g2, g3, g4⟩ := toMEls_facts r g.elems h3
  have hxn : x = none := by cases x <;> simp_all
  subst hxn
  refine ⟨g1, g2, ?_, E2E.validNext_undef, (fun y hy => by cases hy), ?_⟩
  · show (toMEls r g.elems).vneed ≤ maxNestedLevels
    simp only [maxNestedLevels]
    omega
  · show versionAndFlagSize + (toMEls r g.elems).size + (if (mextra none).isSome then 0 else SlabIDLength) ≤ maxUint32
    rw [g4]
    simp only [mextra, Option.map_none, Option.isSome_none, Bool.false_eq_true, if_false, versionAndFlagSize,
      SlabIDLength, mapDataSlabPrefixSize] at h4 ⊢
    omega

/-- a stored index slab meets `Codec.MapMetaOK` -/
theorem mapMetaOK_index (D : DigestFn (r + 1)) (h : MHdr) (chs : List MHdr) (root : Bool)
    (x : Option (Nat × Nat × Nat)) (ok : OkM D (.tree (.index h chs root) x : MSSlab r)) :
    MapMetaOK { id := h.id, extra := mextra x, childHdrs := chs.map toMChildHdr } := by
  obtain ⟨h1, h2, h3, h4, _, _, _⟩ := ok
  refine ⟨h1, ?_, by simpa using h3, validMapExtra_mextra x h4⟩
  intro c hc
  obtain ⟨c0, hc0, rfl⟩ := List.mem_map.1 hc
  exact h2 c0 hc0

/-! ### round trip -/

theorem toSlabM_id (id : SlabID) (v : MSSlab r) (h : ownIdM v = id ∨ ∃ e, v = .large e) :
    (toSlabM id v).id = id := by
  cases v with
  | tree t x =>
    rcases h with h | ⟨e, he⟩
    · cases t <;> exact h
    · cases he
  | large e => rfl

/-- ROUND TRIP AT THE OWN KEY: `DecodeSlab(id, EncodeSlab(slab))`, rebuilt with `D`, is the slab, for
    every stored slab of a map that meets the encoder's preconditions, `id` being the slab's ID (any
    `id` for a large-value slab, whose header holds no ID). -/
theorem decM_encM (D : DigestFn (r + 1)) (v : MSSlab r) (ok : OkM D v) (id : SlabID)
    (hid : ownIdM v = id ∨ ∃ e, v = .large e) : decM D id (encM v) = some v := by
  cases v with
  | large e =>
    unfold decM
    show (match decodeSlab id (encodeStorableSlab e) 0 with | .ok sl _ => ofSlabM D sl | _ => none) = _
    rw [C07.decode_encode_storable id e ok 0]
    rfl
  | tree t x =>
    have hown : ownIdM (.tree t x) = id := by
      rcases hid with h | ⟨e, he⟩
      · exact h
      · cases he
    cases t with
    | data s =>
      have hok := mapDataOK_data D s x ok
      have := C07.decode_encode_mdata _ hok 0
      simp only at this
      have hown' : s.hdr.id = id := hown
      rw [hown'] at this
      unfold decM encM
      simp only [toSlabM, encodeSlab]
      rw [hown', this]
      have := ofSlabM_toSlabM D id (.tree (.data s) x) ok
      simp only [toSlabM, hown'] at this
      exact this
    | index h chs root =>
      have hok := mapMetaOK_index D h chs root x ok
      have := C07.decode_encode_mindex _ hok 0
      simp only at this
      have hown' : h.id = id := hown
      rw [hown'] at this
      unfold decM encM
      simp only [toSlabM, encodeSlab]
      rw [hown', this]
      have := ofSlabM_toSlabM D id (.tree (.index h chs root) x) ok
      simp only [toSlabM, hown'] at this
      exact this
    | group g =>
      have hok := mapDataOK_group D g x ok
      have := C07.decode_encode_mdata _ hok 0
      simp only at this
      have hown' : g.hdr.id = id := hown
      rw [hown'] at this
      unfold decM encM
      simp only [toSlabM, encodeSlab]
      rw [hown', this]
      have := ofSlabM_toSlabM D id (.tree (.group g) x) ok
      simp only [toSlabM, hown'] at this
      exact this

/-- THE KEYED BYTE CODEC FOR MAPS SATISFIES THE ABSTRACT ROUND-TRIP LAW. -/
theorem keyedCodecM_roundTrip (D : DigestFn (r + 1)) : RoundTrip (keyedCodecM D) := by
  intro id v b h
  simp only [keyedCodecM] at h ⊢
  split at h
  · rename_i ok
    cases h
    exact decM_encM D v ok (ownIdM v) (Or.inl rfl)
  · cases h

theorem keyedCodecM_enc_isSome (D : DigestFn (r + 1)) (v : MSSlab r) (ok : OkM D v) :
    ((keyedCodecM D).enc v).isSome := by
  simp [keyedCodecM, ok]

/-- under its own key, the keyed codec is `DecodeSlab(key, bytes)` -/
theorem keyedCodecM_dec_own (D : DigestFn (r + 1)) (id : SlabID) (b : Bytes) :
    (keyedCodecM D).dec id (id, b) = decM D id b := rfl

end Atree.E2EM
