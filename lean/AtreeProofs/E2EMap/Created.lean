import AtreeProofs.Map.EffectsLog
import AtreeProofs.E2E.Created
/-
  (MAPS) Large-value slabs created by a map operation, and the allocation counter.

  Two invariant-free facts about `OMap.set` / `OMap.remove`, proved by walking the operations:
  * PRE-STORABLE (`omap_set_pre`): `Set(k, v)` run from the context `c` is the same computation as
    `Set(k, v')` run from `c₁`, where `(v', c₁) = Value.Storable(v)` at `c` (the first storage
    calls of a `Set` are those of `Value.Storable`; everything else only sees the storable);
  * PLAIN TAIL (`omap_set_plain`, `omap_remove_plain`): from `c₁` on (for `Remove`: from `c` on)
    no large-value slab is created, the counter advances by the number of allocation events, and
    every allocation event carries the address of the ID it hands out.
  With the accounts of C09Map (`mset_acct`, `rootfix_acct`) applied to the second run this gives
  the array-style facts (`omap_set_created`, `omap_remove_created`): a created large-value slab is
  stored, untouched afterwards, fresh, owned by the map's address, not a slab of the new tree;
  the counter advances by exactly the number of allocations for the map's address.
-/
namespace Atree.E2EM
open Atree Gen

/-! ### plain steps -/

def isAlloc : Eff → Bool
  | .alloc _ _ => true
  | _ => false

/-- number of `GenerateSlabID` events (any address) -/
def nAlloc (E : List Eff) : Nat := (E.filter isAlloc).length

theorem nAlloc_append (E1 E2 : List Eff) : nAlloc (E1 ++ E2) = nAlloc E1 + nAlloc E2 := by
  simp [nAlloc, List.filter_append]

/-- from `c` to `c'`: no large-value slab created, the log extended, the counter advanced by the
    number of allocation events, each of which is for the address of the ID it hands out -/
structure Plain (c c' : Ctx) : Prop where
  created : c'.created = c.created
  log : ∃ E, c'.eff = c.eff ++ E ∧ c'.ctr = c.ctr + nAlloc E ∧ ∀ ad id, Eff.alloc ad id ∈ E → id.addr = ad

namespace Plain

theorem refl (c : Ctx) : Plain c c := ⟨rfl, [], by simp, by simp [nAlloc], by simp⟩

theorem of_eq {c c' : Ctx} (h : c' = c) : Plain c c' := h ▸ refl c

theorem trans {c c1 c2 : Ctx} (h1 : Plain c c1) (h2 : Plain c1 c2) : Plain c c2 := by
  obtain ⟨E1, e1, n1, a1⟩ := h1.log
  obtain ⟨E2, e2, n2, a2⟩ := h2.log
  refine ⟨h2.created.trans h1.created, E1 ++ E2, by rw [e2, e1, List.append_assoc],
    by rw [nAlloc_append]; omega, ?_⟩
  intro ad id hm
  rcases List.mem_append.1 hm with h | h
  · exact a1 ad id h
  · exact a2 ad id h

theorem store (c : Ctx) (i : SlabID) : Plain c (c.emit (.store i)) :=
  ⟨rfl, [.store i], rfl, by simp [nAlloc, isAlloc, Ctx.emit], by simp⟩

theorem remove (c : Ctx) (i : SlabID) : Plain c (c.emit (.remove i)) :=
  ⟨rfl, [.remove i], rfl, by simp [nAlloc, isAlloc, Ctx.emit], by simp⟩

theorem alloc (c : Ctx) (a : Nat) : Plain c (c.alloc a).2 := by
  refine ⟨rfl, [.alloc a ⟨a, c.ctr + 1⟩], rfl, rfl, ?_⟩
  intro ad id h
  simp only [List.mem_singleton, Eff.alloc.injEq] at h
  obtain ⟨rfl, rfl⟩ := h
  rfl

theorem store3 (c : Ctx) (i1 i2 i3 : SlabID) :
    Plain c (((c.emit (.store i1)).emit (.store i2)).emit (.store i3)) :=
  ((store c i1).trans (store _ i2)).trans (store _ i3)

end Plain

/-! ### `Value.Storable` next to the key `k` -/

/-- `Value.Storable(storage, address, maxInlineMapValueSize(key size))` -/
def tsv (cfg : MCfg) (k : MKey) (v : Elem) (c : Ctx) : Elem × Ctx :=
  toStorableLim (maxInlineMapValue cfg.T k.size) cfg.addr v c

theorem toStorableLim_idem (lim a : Nat) (v : Elem) (c : Ctx) :
    toStorableLim lim a (toStorableLim lim a v c).1 (toStorableLim lim a v c).2 = toStorableLim lim a v c := by
  cases hp : v.pay with
  | ref y => simp [toStorableLim, hp]
  | val n =>
    by_cases hs : v.size > lim
    · simp [toStorableLim, hp, hs]
    · simp [toStorableLim, hp, hs]

theorem tsv_idem (cfg : MCfg) (k : MKey) (v : Elem) (c : Ctx) :
    tsv cfg k (tsv cfg k v c).1 (tsv cfg k v c).2 = tsv cfg k v c := toStorableLim_idem _ _ _ _

theorem same_size {a b : MKey} (h : a.same b = true) : a.size = b.size := by
  simp only [MKey.same, Bool.and_eq_true, beq_iff_eq] at h
  exact h.1

theorem findIdx_same {l : List SElem} {k : MKey} {i : Nat} {x : SElem}
    (h : l.findIdx? (fun x => x.key.same k) = some i) (hx : l[i]? = some x) : x.key.size = k.size := by
  rw [List.findIdx?_eq_some_iff_getElem] at h
  obtain ⟨hi, hp, _⟩ := h
  rw [List.getElem?_eq_getElem hi] at hx
  cases hx
  exact same_size hp

/-! ### the elements layer -/

/-- `set` is pre-storable and plain after `Value.Storable`; `remove` is plain -/
structure OpsPS (cfg : MCfg) {α : Type} (o : ElemsOps α) : Prop where
  pre : ∀ g ℓ k v c, o.set cfg g ℓ k v c = o.set cfg g ℓ k (tsv cfg k v c).1 (tsv cfg k v c).2
  plainS : ∀ {g ℓ k v c ks old g' c'}, o.set cfg g ℓ k v c = .ok (ks, old, g', c') → Plain (tsv cfg k v c).2 c'
  plainR : ∀ {g ℓ k c rk rv g' c'}, o.remove cfg g ℓ k c = .ok (rk, rv, g', c') → Plain c c'

theorem newSingleElement_pre (cfg : MCfg) (k : MKey) (v : Elem) (c : Ctx) :
    newSingleElement cfg.T cfg.addr k (tsv cfg k v c).1 (tsv cfg k v c).2 = newSingleElement cfg.T cfg.addr k v c := by
  have := toStorableLim_idem (maxInlineMapValue cfg.T k.size) cfg.addr v c
  simp only [newSingleElement, tsv, this]

theorem newSingleElement_ctx (cfg : MCfg) (k : MKey) (v : Elem) (c : Ctx) :
    (newSingleElement cfg.T cfg.addr k v c).2 = (tsv cfg k v c).2 := rfl

theorem SingleElems.set_pre (cfg : MCfg) (e : SingleElems) (ℓ : Nat) (k : MKey) (v : Elem) (c : Ctx) :
    SingleElems.set cfg e ℓ k v c = SingleElems.set cfg e ℓ k (tsv cfg k v c).1 (tsv cfg k v c).2 := by
  by_cases hl : ℓ ≠ cfg.L
  · simp only [SingleElems.set, if_pos hl]
  · cases hf : e.elems.findIdx? (fun x => x.key.same k) with
    | none => simp only [SingleElems.set, if_neg hl, hf, newSingleElement_pre]
    | some i =>
      cases hx : e.elems[i]? with
      | none => simp only [SingleElems.set, if_neg hl, hf, hx]
      | some x =>
        have hsz := findIdx_same hf hx
        have := toStorableLim_idem (maxInlineMapValue cfg.T k.size) cfg.addr v c
        simp only [SingleElems.set, if_neg hl, hf, hx, hsz, tsv, this]

theorem SingleElems.set_plain {cfg : MCfg} {e : SingleElems} {ℓ : Nat} {k : MKey} {v : Elem} {c : Ctx}
    {ks : MKey} {old : Option Elem} {e' : SingleElems} {c' : Ctx}
    (h : SingleElems.set cfg e ℓ k v c = .ok (ks, old, e', c')) : Plain (tsv cfg k v c).2 c' := by
  by_cases hl : ℓ ≠ cfg.L
  · simp [SingleElems.set, if_pos hl] at h
  · cases hf : e.elems.findIdx? (fun x => x.key.same k) with
    | none =>
      simp only [SingleElems.set, if_neg hl, hf, Except.ok.injEq, Prod.mk.injEq] at h
      obtain ⟨_, _, _, rfl⟩ := h
      exact Plain.refl _
    | some i =>
      cases hx : e.elems[i]? with
      | none => simp [SingleElems.set, if_neg hl, hf, hx] at h
      | some x =>
        have hsz := findIdx_same hf hx
        simp only [SingleElems.set, if_neg hl, hf, hx, Except.ok.injEq, Prod.mk.injEq] at h
        obtain ⟨_, _, _, rfl⟩ := h
        rw [hsz]
        exact Plain.refl _

theorem SingleElems.remove_plain {cfg : MCfg} {e : SingleElems} {ℓ : Nat} {k : MKey} {c : Ctx}
    {rk : MKey} {rv : Elem} {e' : SingleElems} {c' : Ctx}
    (h : SingleElems.remove cfg e ℓ k c = .ok (rk, rv, e', c')) : Plain c c' := by
  unfold SingleElems.remove at h
  split at h
  · cases h
  · split at h
    · split at h
      · cases h
      · simp only [Except.ok.injEq, Prod.mk.injEq] at h
        exact Plain.of_eq h.2.2.2.symm
    · cases h

theorem SingleElems.opsPS (cfg : MCfg) : OpsPS cfg SingleElems.ops :=
  ⟨fun e ℓ k v c => SingleElems.set_pre cfg e ℓ k v c, fun h => SingleElems.set_plain h,
    fun h => SingleElems.remove_plain h⟩

section elems
variable {α : Type} {o : ElemsOps α} {cfg : MCfg}

theorem inlSet_pre (ho : OpsPS cfg o) (g : α) (ℓ : Nat) (k : MKey) (v : Elem) (c : Ctx) :
    MElemF.inlSet o cfg g ℓ k v c = MElemF.inlSet o cfg g ℓ k (tsv cfg k v c).1 (tsv cfg k v c).2 := by
  unfold MElemF.inlSet
  rw [ho.pre g (ℓ + 1) k v c]

theorem inlSet_plain (ho : OpsPS cfg o) {g : α} {ℓ : Nat} {k : MKey} {v : Elem} {c : Ctx} {el' : MElemF α}
    {ks : MKey} {old : Option Elem} {c' : Ctx}
    (h : MElemF.inlSet o cfg g ℓ k v c = .ok (el', ks, old, c')) : Plain (tsv cfg k v c).2 c' := by
  obtain ⟨g', c1, hset, hcase⟩ := inlSet_inv h
  have l1 := ho.plainS hset
  rcases hcase with ⟨_, rfl⟩ | ⟨_, sz, slab, _, rfl⟩
  · exact l1
  · exact l1.trans ((Plain.alloc _ _).trans (Plain.store _ _))

theorem elemSet_pre (ho : OpsPS cfg o) (el : MElemF α) (ℓ : Nat) (k : MKey) (v : Elem) (c : Ctx) :
    el.set o cfg ℓ k v c = el.set o cfg ℓ k (tsv cfg k v c).1 (tsv cfg k v c).2 := by
  cases el with
  | single x =>
    by_cases hs : x.key.same k = true
    · have hsz := same_size hs
      have := toStorableLim_idem (maxInlineMapValue cfg.T k.size) cfg.addr v c
      simp only [MElemF.set, hs, if_true, hsz, tsv, this]
    · simp only [MElemF.set, hs]
      cases o.newWith cfg (ℓ + 1) x with
      | error e => rfl
      | ok g => exact inlSet_pre ho g ℓ k v c
  | inl g => exact inlSet_pre ho g ℓ k v c
  | ext id sz s =>
    simp only [MElemF.set]
    rw [ho.pre s.elems (ℓ + 1) k v c]

theorem elemSet_plain (ho : OpsPS cfg o) {el : MElemF α} {ℓ : Nat} {k : MKey} {v : Elem} {c : Ctx}
    {el' : MElemF α} {ks : MKey} {old : Option Elem} {c' : Ctx}
    (h : el.set o cfg ℓ k v c = .ok (el', ks, old, c')) : Plain (tsv cfg k v c).2 c' := by
  cases el with
  | single x =>
    by_cases hs : x.key.same k = true
    · have hsz := same_size hs
      simp only [MElemF.set, hs, if_true, Except.ok.injEq, Prod.mk.injEq] at h
      obtain ⟨_, _, _, rfl⟩ := h
      rw [hsz]
      exact Plain.refl _
    · simp only [MElemF.set, hs] at h
      obtain ⟨g, _, h⟩ := mbind_eq_ok h
      exact inlSet_plain ho h
  | inl g => exact inlSet_plain ho h
  | ext id sz s =>
    rcases elem_set_inv h with ⟨x, _, hx, _⟩ | ⟨g, hg, _⟩ | ⟨id', sz', s', elems', c1, hel, hset, _, rfl⟩
    · cases hx
    · rcases hg with ⟨x, hx, _⟩ | hx <;> cases hx
    · cases hel
      exact (ho.plainS hset).trans (Plain.store _ _)

theorem elemRemove_plain (ho : OpsPS cfg o) {el : MElemF α} {ℓ : Nat} {k : MKey} {c : Ctx} {rk : MKey}
    {rv : Elem} {el' : Option (MElemF α)} {c' : Ctx}
    (h : el.remove o cfg ℓ k c = .ok (rk, rv, el', c')) : Plain c c' := by
  rcases elem_remove_inv h with ⟨x, _, _, rfl⟩ | ⟨g, g', c1, _, hrem, rfl, _⟩ | ⟨id, sz, s, elems', c1, _, hrem, hcase⟩
  · exact Plain.refl _
  · exact ho.plainR hrem
  · rcases hcase with ⟨_, rfl⟩ | ⟨_, rfl⟩
    · exact (ho.plainR hrem).trans ((Plain.store _ _).trans (Plain.remove _ _))
    · exact (ho.plainR hrem).trans (Plain.store _ _)

theorem insertNew_pre (cfg : MCfg) (e : HkeyElems α) (idx hk : Nat) (k : MKey) (v : Elem) (c : Ctx) :
    HkeyElems.insertNew cfg e idx hk k v c
      = HkeyElems.insertNew cfg e idx hk k (tsv cfg k v c).1 (tsv cfg k v c).2 := by
  simp only [HkeyElems.insertNew, newSingleElement_pre]

theorem hkeySet_pre (ho : OpsPS cfg o) (e : HkeyElems α) (ℓ : Nat) (k : MKey) (v : Elem) (c : Ctx) :
    HkeyElems.set o cfg e ℓ k v c = HkeyElems.set o cfg e ℓ k (tsv cfg k v c).1 (tsv cfg k v c).2 := by
  have hins : ∀ idx hk, HkeyElems.insertNew cfg e idx hk k v c
      = HkeyElems.insertNew cfg e idx hk k (tsv cfg k v c).1 (tsv cfg k v c).2 :=
    fun idx hk => insertNew_pre cfg e idx hk k v c
  have hel : ∀ el : MElemF α, MElemF.set o cfg el ℓ k v c
      = MElemF.set o cfg el ℓ k (tsv cfg k v c).1 (tsv cfg k v c).2 :=
    fun el => elemSet_pre ho el ℓ k v c
  unfold HkeyElems.set
  simp only [hins, hel]

theorem hkeySet_plain (ho : OpsPS cfg o) {e : HkeyElems α} {ℓ : Nat} {k : MKey} {v : Elem} {c : Ctx}
    {res : MKey × Option Elem × HkeyElems α × Ctx}
    (h : HkeyElems.set o cfg e ℓ k v c = .ok res) : Plain (tsv cfg k v c).2 res.2.2.2 := by
  rcases hkey_set_inv h with ⟨idx, hk, hres⟩ | ⟨i, el, el', ks, old, c', hel, hs, _, hc⟩
  · rw [hres]; exact Plain.refl _
  · rw [hc]; exact elemSet_plain ho hs

theorem hkeyRemove_plain (ho : OpsPS cfg o) {e : HkeyElems α} {ℓ : Nat} {k : MKey} {c : Ctx}
    {res : MKey × Elem × HkeyElems α × Ctx}
    (h : HkeyElems.remove o cfg e ℓ k c = .ok res) : Plain c res.2.2.2 := by
  obtain ⟨i, el, el', c', _, hr, _, hc⟩ := hkey_remove_inv h
  rw [hc]; exact elemRemove_plain ho hr

theorem HkeyElems.opsPS (ho : OpsPS cfg o) : OpsPS cfg (HkeyElems.ops o) :=
  ⟨fun e ℓ k v c => hkeySet_pre ho e ℓ k v c,
   fun {_ _ _ _ _ ks old g' c'} h => hkeySet_plain ho (res := (ks, old, g', c')) h,
   fun {_ _ _ _ rk rv g' c'} h => hkeyRemove_plain ho (res := (rk, rv, g', c')) h⟩

end elems

theorem MElems.opsPS (cfg : MCfg) : ∀ r, OpsPS cfg (MElems.ops r)
  | 0 => SingleElems.opsPS cfg
  | r + 1 => HkeyElems.opsPS (MElems.opsPS cfg r)

/-! ### the tree layer -/

section tree
variable {r : Nat}

theorem mdata_set_pre (cfg : MCfg) (s : MDataSlab r) (k : MKey) (v : Elem) (c : Ctx) :
    s.set cfg k v c = s.set cfg k (tsv cfg k v c).1 (tsv cfg k v c).2 := by
  unfold MDataSlab.set
  rw [hkeySet_pre (o := MDataSlab.eops r) (MElems.opsPS cfg r) s.elems 0 k v c]

theorem storeIfNotInlined_plain (s : MDataSlab r) (c : Ctx) : Plain c (s.storeIfNotInlined c) := by
  unfold MDataSlab.storeIfNotInlined
  split
  · exact Plain.refl c
  · exact Plain.store _ _

theorem mdata_set_plain {cfg : MCfg} {s s' : MDataSlab r} {k ks : MKey} {v : Elem} {old : Option Elem}
    {c c' : Ctx} (h : s.set cfg k v c = .ok (ks, old, s', c')) : Plain (tsv cfg k v c).2 c' := by
  unfold MDataSlab.set at h
  obtain ⟨⟨ks', old', elems, c1⟩, hset, h⟩ := mbind_eq_ok h
  simp only [pure, Except.pure, Except.ok.injEq, Prod.mk.injEq] at h
  obtain ⟨_, _, _, rfl⟩ := h
  exact (hkeySet_plain (MElems.opsPS cfg r) hset).trans (storeIfNotInlined_plain _ _)

theorem mdata_remove_plain {cfg : MCfg} {s s' : MDataSlab r} {k rk : MKey} {rv : Elem}
    {c c' : Ctx} (h : s.remove cfg k c = .ok (rk, rv, s', c')) : Plain c c' := by
  unfold MDataSlab.remove at h
  obtain ⟨⟨rk', rv', elems, c1⟩, hrem, h⟩ := mbind_eq_ok h
  simp only [pure, Except.pure, Except.ok.injEq, Prod.mk.injEq] at h
  obtain ⟨_, _, _, rfl⟩ := h
  exact (hkeyRemove_plain (MElems.opsPS cfg r) hrem).trans (storeIfNotInlined_plain _ _)

variable {d : Nat}

theorem msplit_plain {t l rr : MTree r d} {c c' : Ctx} (h : MTree.split d t c = .ok (l, rr, c')) : Plain c c' := by
  obtain ⟨_, _, _, rfl⟩ := msplit_struct d t c l rr c' h
  exact Plain.alloc _ _

theorem afterChild_plain {T : Nat} {m m' : MMetaSlab (MTree r d)} {child : MTree r d} {k : Nat} {c c' : Ctx}
    (h : m.afterChild T child k c = .ok (m', c')) : Plain c c' := by
  rcases afterChild_inv h with h1 | ⟨u, h2⟩ | ⟨_, rfl⟩
  · unfold MMetaSlab.splitChildSlab at h1
    obtain ⟨⟨l, rr, c1⟩, hs, h1⟩ := mbind_eq_ok h1
    simp only [pure, Except.pure, Except.ok.injEq, Prod.mk.injEq] at h1
    obtain ⟨_, rfl⟩ := h1
    exact (msplit_plain hs).trans (Plain.store3 _ _ _ _)
  · obtain ⟨l, rr, li, _, hcase⟩ := mmor_cases _ child k u c m' c' h2
    rcases hcase with ⟨flag, hreb⟩ | hmer
    · obtain ⟨l', r', _, _, _, rfl⟩ := mrebal_inv hreb
      exact Plain.store3 _ _ _ _
    · have : c' = ((m.withChild child k).mergeChildren l rr li (li + 1) c).2 := by rw [← hmer]
      rw [this, mmerge_ctx]
      exact ((Plain.store _ _).trans (Plain.store _ _)).trans (Plain.remove _ _)
  · exact Plain.store _ _

theorem mtree_set_pre (cfg : MCfg) (k : MKey) (v : Elem) (c : Ctx) : ∀ (d : Nat) (t : MTree r d),
    MTree.set cfg d t k v c = MTree.set cfg d t k (tsv cfg k v c).1 (tsv cfg k v c).2
  | 0, s => mdata_set_pre cfg s k v c
  | d + 1, m => by
    have ih := mtree_set_pre cfg k v c d
    simp only [MTree.set]
    split
    · rfl
    · rename_i child _
      rw [ih child]

theorem mtree_set_plain {cfg : MCfg} : ∀ (d : Nat) {t t' : MTree r d} {k ks : MKey} {v : Elem} {old : Option Elem}
    {c c' : Ctx}, MTree.set cfg d t k v c = .ok (ks, old, t', c') → Plain (tsv cfg k v c).2 c'
  | 0, _, _, _, _, _, _, _, _, h => mdata_set_plain h
  | d + 1, t, _, _, _, _, _, _, _, h => by
    obtain ⟨i, child, child', c1, _, hs, ha⟩ := mset_succ_inv t h
    exact (mtree_set_plain d hs).trans (afterChild_plain ha)

theorem mtree_remove_plain {cfg : MCfg} : ∀ (d : Nat) {t t' : MTree r d} {k rk : MKey} {rv : Elem}
    {c c' : Ctx}, MTree.remove cfg d t k c = .ok (rk, rv, t', c') → Plain c c'
  | 0, _, _, _, _, _, _, _, h => mdata_remove_plain h
  | d + 1, t, _, _, _, _, _, _, h => by
    obtain ⟨i, child, child', c1, _, hs, ha⟩ := mremove_succ_inv t h
    exact (mtree_remove_plain d hs).trans (afterChild_plain ha)

end tree

/-! ### `OMap.set`, `OMap.remove` -/

section omap
variable {r : Nat}

theorem promote_plain (m : OMap r) (c : Ctx) : Plain c (m.promoteIfSingleChild c).2 := by
  obtain ⟨d, root, ty, cnt, seed⟩ := m
  cases d with
  | zero => exact Plain.refl c
  | succ d =>
    unfold OMap.promoteIfSingleChild
    simp only
    split
    · exact (Plain.store _ _).trans (Plain.remove _ _)
    · exact Plain.refl c

theorem splitRootIfFull_plain {T : Nat} {m m' : OMap r} {c c' : Ctx}
    (h : m.splitRootIfFull T c = .ok (m', c')) : Plain c c' := by
  unfold OMap.splitRootIfFull at h
  split at h
  · obtain ⟨d, root, ty, cnt, seed⟩ := m
    obtain ⟨l, rr, c2, hsp, _, rfl⟩ := splitRoot_inv d root ty cnt seed c h
    exact (Plain.alloc c _).trans ((msplit_plain hsp).trans (Plain.store3 _ _ _ _))
  · cases h; exact Plain.refl c

/-- PRE-STORABLE: `Set(k, v)` from `c` is `Set(k, v')` from `c₁` with `(v', c₁) = Value.Storable(v)` -/
theorem omap_set_pre (cfg : MCfg) (m : OMap r) (k : MKey) (v : Elem) (c : Ctx) :
    m.set cfg k v c = m.set cfg k (tsv cfg k v c).1 (tsv cfg k v c).2 := by
  unfold OMap.set
  rw [mtree_set_pre cfg k v c m.d m.root]

/-- PLAIN TAIL of `Set` -/
theorem omap_set_plain {cfg : MCfg} {m m' : OMap r} {k : MKey} {v : Elem} {old : Option Elem} {c c' : Ctx}
    (h : m.set cfg k v c = .ok (old, m', c')) : Plain (tsv cfg k v c).2 c' := by
  unfold OMap.set at h
  obtain ⟨⟨ks, old1, root', c1⟩, hs, h⟩ := mbind_eq_ok h
  have l1 := mtree_set_plain m.d hs
  simp only at h
  obtain ⟨⟨m3, c3⟩, h3, h⟩ := mbind_eq_ok h
  simp only [pure, Except.pure, Except.ok.injEq, Prod.mk.injEq] at h
  obtain ⟨_, _, rfl⟩ := h
  exact l1.trans ((promote_plain _ _).trans (splitRootIfFull_plain h3))

/-- `Remove` is plain -/
theorem omap_remove_plain {cfg : MCfg} {m m' : OMap r} {k k0 : MKey} {v0 : Elem} {c c' : Ctx}
    (h : m.remove cfg k c = .ok (k0, v0, m', c')) : Plain c c' := by
  unfold OMap.remove at h
  obtain ⟨⟨rk, rv, root', c1⟩, hs, h⟩ := mbind_eq_ok h
  have l1 := mtree_remove_plain m.d hs
  simp only at h
  obtain ⟨⟨m3, c3⟩, h3, h⟩ := mbind_eq_ok h
  simp only [pure, Except.pure, Except.ok.injEq, Prod.mk.injEq] at h
  obtain ⟨_, _, _, rfl⟩ := h
  exact l1.trans ((promote_plain _ _).trans (splitRootIfFull_plain h3))

end omap

/-! ### from plain tails to allocation counts -/

theorem nAllocAt_eq_nAlloc {a : Nat} : ∀ {E : List Eff}, (∀ ad id, Eff.alloc ad id ∈ E → ad = a) →
    nAllocAt a E = nAlloc E
  | [], _ => rfl
  | e :: E, h => by
    have ih := nAllocAt_eq_nAlloc (a := a) (E := E) (fun ad id hm => h ad id (List.mem_cons_of_mem _ hm))
    unfold nAllocAt nAlloc at ih ⊢
    cases e with
    | alloc ad id =>
      have := h ad id List.mem_cons_self
      subst this
      simp only [List.filter_cons, isAllocAt, isAlloc, beq_self_eq_true, if_true, List.length_cons, ih]
    | store i => simpa [List.filter_cons, isAllocAt, isAlloc] using ih
    | remove i => simpa [List.filter_cons, isAllocAt, isAlloc] using ih

/-- a plain stretch with an owner-address log: nothing created, allocations counted -/
theorem plain_allocCnt {a : Nat} {c c' : Ctx} {E : List Eff} {C : List (SlabID × Elem)}
    (hpl : Plain c c') (hlog : MLog a c c' E C) : AllocCnt a c c' E ∧ C = [] := by
  obtain ⟨E0, e0, n0, a0⟩ := hpl.log
  have hE : E = E0 := List.append_cancel_left (hlog.eff.symm.trans e0)
  subst hE
  refine ⟨?_, ?_⟩
  · unfold AllocCnt
    rw [nAllocAt_eq_nAlloc (a := a) (fun ad id hm => (a0 ad id hm).symm.trans (hlog.addr ad id hm))]
    exact n0
  · have := hlog.created
    rw [hpl.created] at this
    exact List.append_cancel_left (by rw [List.append_nil]; exact this.symm)

/-- what `Value.Storable` does, with the created slab stored -/
theorem valStep_created {a : Nat} {c c1 : Ctx} (h : ValStep a c c1) :
    ∃ Ev Cv, MLog a c c1 Ev Cv ∧ AllocCnt a c c1 Ev ∧
      ∀ x ∈ Cv.map (·.1), lastAction Ev x = some true ∧ x = ⟨a, c.ctr + 1⟩ ∧ c1.ctr = c.ctr + 1 := by
  rcases h with rfl | ⟨v, rfl⟩
  · exact ⟨[], [], MLog.refl a _, AllocCnt.refl a _, by simp⟩
  · refine ⟨[.alloc a ⟨a, c.ctr + 1⟩, .store ⟨a, c.ctr + 1⟩], [(⟨a, c.ctr + 1⟩, v)],
      ⟨⟨rfl, rfl, by simp, ?_⟩, ?_⟩, by simp [AllocCnt, nAllocAt, isAllocAt], ?_⟩
    · intro ad id hm
      simp only [List.mem_cons, Eff.alloc.injEq, reduceCtorEq, List.not_mem_nil, or_false] at hm
      obtain ⟨_, rfl⟩ := hm
      simp
    · intro ad id hm
      simp only [List.mem_cons, Eff.alloc.injEq, reduceCtorEq, List.not_mem_nil, or_false] at hm
      obtain ⟨_, rfl⟩ := hm
      rfl
    · intro x hx
      simp only [List.map_cons, List.map_nil, List.mem_singleton] at hx
      subst hx
      refine ⟨?_, rfl, rfl⟩
      simp only [lastAction, List.foldl_cons, List.foldl_nil, if_true]

/-- `Value.Storable` first, then a plain stretch with a complete account: the created slab is
    stored, untouched by the rest, and not a slab afterwards -/
theorem created_then_acct {β : Type} {a : Nat} {c c1 c' : Ctx} {Ev E' : List Eff} {Cv : List (SlabID × Elem)}
    {S S' : List (SlabID × β)}
    (hlogv : MLog a c c1 Ev Cv) (halv : AllocCnt a c c1 Ev)
    (hcv : ∀ x ∈ Cv.map (·.1), lastAction Ev x = some true ∧ x = ⟨a, c.ctr + 1⟩ ∧ c1.ctr = c.ctr + 1)
    (hlog' : MLog a c1 c' E' []) (hacct' : MAcct a c1.ctr c'.ctr S S' E' []) (hal' : AllocCnt a c1 c' E')
    (hold : ∀ id ∈ AList.keys S, Old a c.ctr id) :
    MLog a c c' (Ev ++ E') Cv ∧ CreatedOk a c.ctr c'.ctr (Ev ++ E') (Cv.map (·.1)) (AList.keys S') ∧
      AllocCnt a c c' (Ev ++ E') := by
  refine ⟨by simpa using hlogv.trans hlog', ?_, halv.trans hal'⟩
  intro x hx
  obtain ⟨h1, h2, h3⟩ := hcv x hx
  have hnS : x ∉ AList.keys S := by
    intro hin
    have := hold x hin (by rw [h2])
    rw [h2] at this
    simp only at this
    omega
  have hnF : ¬ Fresh a c1.ctr c'.ctr x := by
    intro hf
    have := hf.2.1
    rw [h2, h3] at this
    simp only at this
    omega
  have hla : lastAction E' x = none := by
    apply Classical.byContradiction
    intro hne
    rcases hacct'.foot x hne with h | h
    · exact hnS h
    · exact hnF h
  refine ⟨by rw [lastAction_append_none hla]; exact h1, ?_, by rw [h2]; simp, ?_, by rw [h2]⟩
  · intro hin
    rcases hacct'.keys_new x hin with h | h
    · exact hnS h
    · exact hnF h
  · have := hacct'.le
    rw [h2]
    simp only
    omega

/-! ### the map operations -/

section ops
variable {r : Nat} {T : Nat} {D : DigestFn (r + 1)}

/-- `Set`: complete account (C09Map) AND the created large-value slab is stored, not touched
    afterwards, fresh, owned by the map's address, not a slab of the new tree; the counter advanced
    by the number of allocations for the map's address; what was created is what `Value.Storable`
    creates -/
theorem omap_set_created (hT : legalThreshold T = true) {cfg : MCfg} {m : OMap r} (hcfg : CfgOk cfg T m)
    (h : MapInv T D m) {k : MKey} (hk : KeyOk T (r + 1) D k) {v : Elem} (hv : ValueOkM v) (c : Ctx)
    (hc : CtxOk m c) (hids : MIdsOk m) {old : Option Elem} {m' : OMap r} {c' : Ctx}
    (hr : m.set cfg k v c = .ok (old, m', c')) :
    ∃ E C, MLog m.addr c c' E C ∧
      CreatedOk m.addr c.ctr c'.ctr E (C.map (·.1)) (AList.keys (MTree.slabs m'.d m'.root)) ∧
      AllocCnt m.addr c c' E ∧ c.created ++ C = (tsv cfg k v c).2.created := by
  have hc' : CfgFor cfg T (r + 1) := ⟨hcfg.1, hcfg.2.1⟩
  have hold := old_of_ctxOk hc
  have haddr : cfg.addr = m.addr := hcfg.2.2
  rw [← haddr] at hold ⊢
  have hpl := omap_set_plain hr
  have hvs : ValStep cfg.addr c (tsv cfg k v c).2 := toStorableLim_valStep _ _ _ _
  obtain ⟨Ev, Cv, hlogv, halv, hcv⟩ := valStep_created hvs
  have hold1 : ∀ id ∈ AList.keys (MTree.slabs m.d m.root), Old cfg.addr (tsv cfg k v c).2.ctr id :=
    fun id hid => (hold id hid).mono hlogv.ctr_le
  obtain ⟨d, root, ty, cnt, seed⟩ := m
  obtain ⟨h1, h2⟩ := MTree.set_spec hT hc' hk hv d true root c h.tree
  by_cases hl : TLimited cfg d root k
  · have := h1 hl
    simp [OMap.set, this, bind, Except.bind] at hr
  · obtain ⟨old', root', c1, heq, hp⟩ := h2 hl
    have hinl : treeInl d root = false := by
      rw [← isInlined_eq d root ty cnt seed]; exact h.standalone
    have hra : (MTree.hdr d root).id.addr = cfg.addr := haddr.symm
    have heq2 := heq
    rw [mtree_set_pre cfg k v c d root] at heq2
    obtain ⟨hid, E1, C1, hlog1, hacct1, hla1⟩ := mset_acct d root root' true c1 h.tree hinl hra hids hold1 heq2
    simp only [OMap.set, heq, bind, Except.bind, pure, Except.pure] at hr
    split at hr
    · cases hr
    · rename_i p hfix
      obtain ⟨m3, c3⟩ := p
      simp only [Except.ok.injEq, Prod.mk.injEq] at hr
      obtain ⟨_, rfl, rfl⟩ := hr
      obtain ⟨E2, hlog2, hacct2, hla2, hid2⟩ := rootfix_acct (T := T) (D := D) cfg.T d root' ty _ seed c1 m3 c3 hp.sinv
        (by rw [hid]; exact hra) (hacct1.nodup hids) (hacct1.old hold1) hfix
      have hlog' : MLog cfg.addr (tsv cfg k v c).2 c3 (E1 ++ E2) (C1 ++ []) := hlog1.trans hlog2
      have hacct' : MAcct cfg.addr (tsv cfg k v c).2.ctr c3.ctr (MTree.slabs d root) (MTree.slabs m3.d m3.root)
          (E1 ++ E2) (C1.map (·.1) ++ []) := hacct1.trans hacct2 hold1
      obtain ⟨hal', hC1⟩ := plain_allocCnt hpl hlog'
      rw [List.append_nil] at hC1
      subst hC1
      obtain ⟨g1, g2, g3⟩ := created_then_acct hlogv halv hcv hlog' (by simpa using hacct') hal' hold
      exact ⟨_, _, g1, g2, g3, hlogv.created.symm⟩

/-- `Remove`: nothing is created; the counter advanced by the number of allocations -/
theorem omap_remove_created (hT : legalThreshold T = true) {cfg : MCfg} {m : OMap r} (hcfg : CfgOk cfg T m)
    (h : MapInv T D m) {k : MKey} (hk : KeyOk T (r + 1) D k) (c : Ctx)
    (hc : CtxOk m c) (hids : MIdsOk m) {k0 : MKey} {v0 : Elem} {m' : OMap r} {c' : Ctx}
    (hr : m.remove cfg k c = .ok (k0, v0, m', c')) :
    ∃ E, MLog m.addr c c' E [] ∧ AllocCnt m.addr c c' E := by
  obtain ⟨E, C, hlog, _, _, _⟩ := omap_remove_acct hT hcfg h hk c hc hids hr
  obtain ⟨hal, rfl⟩ := plain_allocCnt (omap_remove_plain hr) hlog
  exact ⟨E, hlog, hal⟩

end ops

end Atree.E2EM
