import AtreeModel.Commit
import AtreeProofs.StorageLemmas
import AtreeProofs.CommitLemmas
import AtreeProofs.StorageExample
/-
  A second concrete storage state for the `NonVacuity` sections of C04 / C16 / C08: four owned
  pending identifiers (three stores, one deletion of a committed register) and one pending
  temporary slab, so that a 3-worker encoder pool has something to interleave.
  The state is *reachable*, hence satisfies the invariant by `inv_run`.
-/
namespace Atree.Example
open Atree St

def poolOps : List (Op Nat) :=
  [.store ⟨1, 2⟩ 3, .commit .det [] [] [], .store ⟨2, 1⟩ 4, .store ⟨1, 5⟩ 2, .remove ⟨1, 2⟩,
   .store ⟨1, 1⟩ 5, .store ⟨0, 1⟩ 8]

def poolSt : St Nat Nat := St.run natCodec St.init poolOps

theorem poolInv : Inv natCodec poolSt := inv_run natCodec roundTrip poolOps _ (inv_init natCodec)

example : poolSt.deltas = [(⟨0, 1⟩, some 8), (⟨1, 1⟩, some 5), (⟨1, 2⟩, none), (⟨1, 5⟩, some 2), (⟨2, 1⟩, some 4)] := by
  decide
example : poolSt.base = [(⟨1, 2⟩, 3)] := by decide
example : sortedOwnedDeltaKeys poolSt = [⟨1, 1⟩, ⟨1, 2⟩, ⟨1, 5⟩, ⟨2, 1⟩] := by decide

/-- An interleaved schedule for 3 workers and the 4 jobs `1.1, 1.2, 1.5, 2.1`: workers 0, 1, 2 take
    `1.1, 1.2, 1.5`; worker 2 delivers, takes `2.1`; worker 0 delivers; worker 2 delivers; worker 1
    delivers.  Arrival order: `1.5, 1.1, 2.1, 1.2`. -/
def poolSched : List Nat := [0, 1, 2, 2, 2, 0, 2, 1]

/-- A readable image of a base-storage call (`BaseCall` has no decidable equality). -/
def callRepr : BaseCall Nat → SlabID × Option Nat
  | .store id b => (id, some b)
  | .remove id => (id, none)

end Atree.Example
