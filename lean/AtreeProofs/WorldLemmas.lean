import AtreeProofs.WorldInv
/- Helper lemmas for the World model (C10, C11). -/
namespace Atree
end Atree
