import AtreeProofs.WorldInv
import AtreeProofs.World.Basic
import AtreeProofs.World.Dom
import AtreeProofs.World.Ops
import AtreeProofs.World.Frame
import AtreeProofs.World.RootStable
import AtreeProofs.World.MutIdx
import AtreeProofs.World.Eval
import AtreeProofs.World.Scenario
/-
  Helper lemmas for the World model (C10, C11), split over AtreeProofs/World/*.lean:
  * Basic      — table accessors, `Cont.inline/uninline`, `childStorable`, `uninlineIfNeeded`,
                 `Cont.SameData`, permuted association lists, `Arr.set_get_single`
  * Dom        — `DomRel`: the mutual block keeps the known containers and (given root-ID
                 stability of array / map `set`) every value ID
  * Ops        — the same for the public operations
  * Frame      — frame of a notification when the parent pointers are acyclic (`RankOk`)
  * MutIdx     — `MutIdxOk` through the mutual block and `arrInsert` (payloads of every array are
                 unchanged by a notification), given list-level facts about the array operations
  * RootStable — array / map operations keep the root slab ID, for every tree (no invariant)
  * Eval       — kernel-evaluable copies of the mutual block and of the public operations, proved
                 equal to the model (used for `decide` on concrete worlds)
  * Scenario   — the concrete run used by the non-vacuity sections
-/
