import AtreeProofs.HealthSpec
/- Helper lemmas for the health-check model (C20). -/
namespace Atree
end Atree
