import AtreeProofs.HealthSpec
import AtreeProofs.Health.Scan
import AtreeProofs.Health.Climb
import AtreeProofs.Health.Check
import AtreeProofs.Health.ChildRefs
import AtreeProofs.Health.Corrupt
import AtreeProofs.Health.Order
/-
  Helper lemmas for the health-check model (C20).  The development lives in `AtreeProofs/Health/`:
  * `Scan`      – `edges`/`targets`, exact behaviour of `scanRefs`, `scan`, `allResolve`;
  * `Climb`     – parent chains (`Chain`), exact behaviour of `climb`, `climbAll`;
  * `Check`     – `Reach` lemmas, `check_ok_iff`, `check_sound`, `check_complete`;
  * `ChildRefs` – the breadth-first `childRefs` query on every heap (levels, paths, divergence);
  * `Corrupt`   – erased / added slabs;
  * `Order`     – the outcome of `check` does not depend on the order of the heap;
  * `Forest`, `Iter`, `ArrayHeap`, `ArrayHistory`, `MapHeap`, `MapHistory`, `Storage`, `StorageMap` –
    establishing `Healthy`, the slab iterator, storages produced by histories (used by
    `Props/C20Storage.lean`).
-/
