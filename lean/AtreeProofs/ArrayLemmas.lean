import AtreeProofs.ArrayInv
/- Helper lemmas for the array model (arithmetic layer, slab layer, tree layer). -/
namespace Atree
end Atree
