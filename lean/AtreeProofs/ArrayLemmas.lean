import AtreeProofs.ArrayInv
import AtreeProofs.Array.Arith
import AtreeProofs.Array.ListLemmas
import AtreeProofs.Array.SlabLemmas
import AtreeProofs.Array.TreeDefs
import AtreeProofs.Array.MetaLemmas
import AtreeProofs.Array.Group
import AtreeProofs.Array.Uniform
import AtreeProofs.Array.Restructure
import AtreeProofs.Array.MergeRebal
import AtreeProofs.Array.Route
import AtreeProofs.Array.TreeOps
import AtreeProofs.Array.Top
import AtreeProofs.Array.Iter
import AtreeProofs.Array.Example
/- Helper lemmas for the array model (arithmetic layer, slab layer, tree layer): see
   `AtreeProofs/Array/*.lean`. -/
