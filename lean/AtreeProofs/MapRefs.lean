import AtreeModel.Map.Ops
import AtreeProofs.MapHeapSpec
import AtreeProofs.AListLemmas
/-
  References from a map to LARGE-VALUE slabs (C09 / C02 / C05, maps).  DEFINITIONS ONLY - part of
  the reviewed statement of the property theorems in `Props/C09MapRefs.lean` and
  `Props/E2EMapDispose.lean`.  (Array analogue: `ArrayRefs.lean`, `ARefsOk`.)

  A value above `maxInlineMapValue T k.size` is not stored in the data slab: `toStorableLim`
  (`Value.Storable`) allocates a slab of its own for it and the pair holds the 19-byte reference
  `⟨slabIDStorableSize, .ref id⟩`.  `MapInv`, `MIdsOk`, `CtxOk` and `MAddrOk` speak about the slabs
  of the TREE (data slabs, index slabs, external collision groups) only; `MRefsOk` is the missing
  invariant about the ids of these references.

  KEYS: a key of the model is `MKey` = `(size, pay : Nat, digests)`: it is a plain value, it cannot
  be a reference (`KeyOk` bounds its size by `maxInlineMapKey T`, the harness only uses such keys),
  so only the VALUES of the pairs contribute reference ids.
-/
namespace Atree
open Gen

/-- the large-value slab a stored pair refers to (through its VALUE), if any -/
def OMap.refOf (p : MKey × Elem) : Option SlabID :=
  match p.2.pay with
  | .ref id => some id
  | .val _ => none

/-- the ids of the `.ref` values of a pair list, in order -/
def OMap.refsOf (l : List (MKey × Elem)) : List SlabID := l.filterMap OMap.refOf

/-- the ids of the `.ref` VALUES of the map, in iteration order -/
def OMap.refIds {r : Nat} (m : OMap r) : List SlabID := OMap.refsOf m.toList

/-- The references of the map to large-value slabs are well formed w.r.t. the allocation counter
    `ctr`: no two pairs refer to the same slab; a referenced slab is not a slab of the tree (data
    slab, index slab, external collision group); it is owned by the map's address; its index was
    handed out by the allocator (`1 ≤ idx ≤ ctr`, so the NEXT allocated id `ctr + 1` is fresh
    against the references too). -/
def MRefsOk {r : Nat} (m : OMap r) (ctr : Nat) : Prop :=
  m.refIds.Nodup ∧
  ∀ id ∈ m.refIds, id ∉ AList.keys (MTree.slabs m.d m.root) ∧ id.addr = m.addr ∧ 1 ≤ id.idx ∧ id.idx ≤ ctr

instance {r : Nat} (m : OMap r) (ctr : Nat) : Decidable (MRefsOk m ctr) := by
  unfold MRefsOk; infer_instance

end Atree
