import AtreeProofs.WorldCodec.Env
import AtreeProofs.Props.C07World
/-
  The side conditions are DECIDABLE: `LeafOk` (a finite table of containers) and the per-slab side
  conditions over the whole heap.
-/
namespace Atree.WC
open Atree Atree.Codec Gen World

/-- `P` of the live container filed under `x`, if any -/
def onCont (w : World) (P : SlabID → Cont → Prop) (x : SlabID) : Prop :=
  match w.cont? x with
  | some c => P x c
  | none => True

instance (w : World) (P : SlabID → Cont → Prop) [∀ x c, Decidable (P x c)] (x : SlabID) :
    Decidable (onCont w P x) := by
  unfold onCont
  cases w.cont? x <;> infer_instance

theorem forall_cont_iff (w : World) (P : SlabID → Cont → Prop) :
    (∀ x c, w.cont? x = some c → P x c) ↔ (∀ p ∈ w.conts, onCont w P p.1) := by
  constructor
  · intro h p _
    unfold onCont
    cases hc : w.cont? p.1 with
    | none => trivial
    | some c => exact h p.1 c hc
  · intro h x c hx
    have := h (x, c) (E2E.mem_of_find?_some hx)
    unfold onCont at this
    simp only [hx] at this
    exact this

instance (w : World) (P : SlabID → Cont → Prop) [∀ x c, Decidable (P x c)] :
    Decidable (∀ x c, w.cont? x = some c → P x c) :=
  decidable_of_iff _ (forall_cont_iff w P).symm

instance (w : World) (ctr : Nat) : Decidable (LeafOk w ctr) :=
  decidable_of_iff (w.addr < 2 ^ 64 ∧ ctr < 2 ^ 64 ∧
      (∀ x c, w.cont? x = some c → ∀ e ∈ c.storedElems, LeafValid w e) ∧
      (∀ x c, w.cont? x = some c → KeysValid c) ∧
      (∀ x c, w.cont? x = some c → ContWidths c) ∧
      (∀ x c, w.cont? x = some c → ContKB c))
    ⟨fun ⟨a, b, c, d, e, f⟩ => ⟨a, b, c, d, e, f⟩, fun h => ⟨h.addr, h.ctr, h.elems, h.keys, h.width, h.digs⟩⟩

/-- the side conditions of every stored slab, as a bounded (decidable) statement over the heap -/
def SideAll (w : World) : Prop := ∀ p ∈ w.heapOf, Side (p.2.toCodec w.stor) ∧ p.2.GroupFit

instance (w : World) : Decidable (SideAll w) := by unfold SideAll; infer_instance

theorem SideAll.at {w : World} (h : SideAll w) (id : SlabID) : C07W.SideAt w id := by
  intro ws hws
  exact h (id, ws) (E2E.mem_of_find?_some hws)

end Atree.WC
