import AtreeProofs.WorldCodec.ArrSlab
import AtreeProofs.WorldCodec.MapSlab
import AtreeProofs.WorldCodec.Env
/-
  EVERY HEAP SLAB OF A WORLD that satisfies the global invariant meets its goal (`SlabGoal`): the
  assembly of `arr_tree_goal` (ArrSlab.lean), `map_slabs_goal` / `mapInl_goal` (MapSlab.lean) and
  `env_of_worldOk` (Env.lean).
-/
namespace Atree.WC
open Atree Atree.Codec Gen World

theorem world_slab_goal {D : SlabID → DigestFn 4} {w : World} {ctr : Nat}
    (H0 : CInv D w ctr) (Hh : HeapOk w ctr) (L : LeafOk w ctr)
    (hD : ∀ x p, ∀ h ∈ (D x).dg p, h < 2 ^ 64) :
    ∀ id ws, w.slabAt id = some ws → SlabGoal w id ws := by
  intro id ws hs
  have E := env_of_worldOk H0 Hh L hD
  have hT := H0.legal
  have hmem : (id, ws) ∈ w.heapOf := E2E.mem_of_find?_some hs
  obtain ⟨x, c, hx, hp⟩ := (mem_heapOf_iff w id ws).1 hmem
  have hg := good_of_stored H0 L hx
  have hlive := E.live x c hx
  have hvid : c.vid = x := H0.ids x c hx
  have hidlt : ∀ id' ∈ c.treeIds, id'.addr < 2 ^ 64 ∧ id'.idx < 2 ^ 64 := by
    intro id' hid'
    have h1 := Hh.addr x c id' hx hid'
    have h2 := Hh.below x c id' hx hid'
    have := L.addr; have := L.ctr
    exact ⟨by rw [h1]; exact L.addr, by omega⟩
  cases c with
  | arr a =>
    have hok : ArrOk w.T a ctr := H0.conts x _ hx
    cases hi : a.isInlined with
    | true =>
      have := (slabs_arrInl (hok.2 hi)).1
      rw [this] at hp
      cases hp
    | false =>
      have hinv := hok.1 hi
      rw [Cont.slabs_of_standalone (c := .arr a) hi] at hp
      have haddr : a.addr < 2 ^ 64 := by
        have : a.rootID = x := hvid
        show a.rootID.addr < 2 ^ 64
        rw [this]; exact hlive.1
      exact arr_tree_goal E hT a ctr hinv haddr L.ctr (L.width x _ hx) hg (id, ws) hp
  | map m =>
    have hok : MapOk w.T (D x) m ctr := H0.conts x _ hx
    have hnd := Hh.nodup x _ hx
    have hval : ∀ v ∈ m.toList.map (·.2), Good w v := hg
    have hkey : ∀ kv ∈ m.toList, validElem ⟨kv.1.size, .val kv.1.pay⟩ := L.keys x _ hx
    obtain ⟨hw1, hw2, hw3⟩ : m.ty < 2 ^ 64 ∧ m.count < 2 ^ 64 ∧ m.seed < 2 ^ 64 := L.width x _ hx
    cases hi : m.isInlined with
    | true => exact mapInl_goal E (hD x) m ctr (hok.2 hi) hnd hval hkey (id, ws) hp
    | false =>
      exact map_slabs_goal E hT (hD x) m (hok.1 hi).1 hnd hidlt hw1 hw2 hw3 hval hkey (id, ws) hp

/-- … from the global invariant, with the 64-bit condition on the digests of the STORED keys only
    (`LeafOk.digs`): the invariant is carried over to the truncated digest functions -/
theorem world_slab_goal' {D : SlabID → DigestFn 4} {w : World} {ctr : Nat}
    (H : WorldOk' D w ctr) (Hh : HeapOk w ctr) (L : LeafOk w ctr) :
    ∀ id ws, w.slabAt id = some ws → SlabGoal w id ws :=
  world_slab_goal ((CInv.of_worldOk H).trunc L.digs) Hh L (fun x => truncD_lt (D x))

theorem env_of_worldOk' {D : SlabID → DigestFn 4} {w : World} {ctr : Nat}
    (H : WorldOk' D w ctr) (Hh : HeapOk w ctr) (L : LeafOk w ctr) : Env w :=
  env_of_worldOk ((CInv.of_worldOk H).trunc L.digs) Hh L (fun x => truncD_lt (D x))

end Atree.WC
