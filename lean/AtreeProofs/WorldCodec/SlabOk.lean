import AtreeProofs.Codec.InlSlab
import AtreeProofs.Codec.RoundTripW
import AtreeProofs.Codec.RoundTripM
import AtreeProofs.Codec.RoundTrip
import AtreeProofs.Codec.EncLemmasG
/-
  ONE PREDICATE FOR EVERY SLAB KIND the translation `World.toCodec` produces, and what it implies:
  round trip (C07) and the length law (C06).

  `OKAll sl` is, per kind, the predicate the existing codec theorems take: `SlabOK` (flat array data
  slabs, array index slabs, large-value slabs of plain values), `ArrDataOKI` / `ArrDataOKW` (array
  data slabs with inlined children / with wrapped references only), `MapDataOKI` (map data slabs
  and external collision-group slabs, inlined children allowed), `MapMetaOK` (map index slabs).
  Type infos of the World model are plain, so no inlined map is ever written in the compact form:
  the round trip is exact (no `normSt`) and the length law is an equality.
-/
namespace Atree.WC
open Atree Atree.Codec Gen

/-- the predicate of the codec theorems, per slab kind -/
def OKAll : Slab → Prop
  | .data ty s => SlabOK (.data ty s)
  | .index ty m => SlabOK (.index ty m)
  | .storable id e => SlabOK (.storable id e)
  | .adata a => ArrDataOKI a ∨ ArrDataOKW a
  | .mdata m => MapDataOKI m
  | .mindex m => MapMetaOK m
  | .storableG _ _ => False

/-- a root slab has no right sibling (true in every tree) -/
def RootNoNext : Slab → Prop
  | .data _ d => d.root = true → d.next = SlabID.undef
  | .adata a => a.ty.isSome = true → a.next = SlabID.undef
  | .mdata m => m.extra.isSome = true → m.next = SlabID.undef
  | _ => True

/-- the 16 bytes of an undefined sibling link that a non-root data slab does not write -/
def omittedNext : Slab → Nat
  | .data _ d => if d.root = false ∧ d.next = SlabID.undef then 16 else 0
  | .adata a => if a.ty.isNone ∧ a.next = SlabID.undef then 16 else 0
  | .mdata m => if m.extra.isNone ∧ m.next = SlabID.undef then 16 else 0
  | _ => 0

/-- THE REAL ASSUMPTIONS about one translated slab (decidable, audit a4-A1 / a4-A2): the CBOR nesting
    of the register stays within the validator's limit (`maxNestedLevels` = 32, the default of
    `cbor.DecOptions`), and the shared inlined-extra-data section has at most 256 entries (the index
    is one byte; Go's encoder refuses more) -/
def Side : Slab → Prop
  | .adata a => vneedISts a.elems + 1 ≤ maxNestedLevels ∧ (encSts a.elems []).2.length ≤ 256
  | .mdata m => m.els.vneedI ≤ maxNestedLevels ∧ (encMEls m.els []).2.length ≤ 256
  | _ => True

instance (sl : Slab) : Decidable (Side sl) := by
  cases sl <;> (simp only [Side]; infer_instance)

/-- C07 for every slab kind of a world: `DecodeSlab (EncodeSlab sl) = sl`, exactly -/
theorem decode_encode_all (sl : Slab) (ok : OKAll sl) (n : Nat) :
    ∃ k, decodeSlab sl.id (encodeSlab sl) n = .ok sl k := by
  cases sl with
  | data ty s => exact ⟨_, decodeSlab_encodeSlab (.data ty s) ok n⟩
  | index ty m => exact ⟨_, decodeSlab_encodeSlab (.index ty m) ok n⟩
  | storable id e => exact ⟨_, decodeSlab_encodeSlab (.storable id e) ok n⟩
  | adata a =>
    rcases ok with ok | ok
    · have := decodeSlab_encodeArrDataI a ok [] n
      simp only [List.append_nil, ne_eq, not_true_eq_false, if_false] at this
      exact ⟨_, this⟩
    · have := decodeSlab_encodeArrDataW a ok [] n
      simp only [List.append_nil, ne_eq, not_true_eq_false, if_false] at this
      exact ⟨_, this⟩
  | mdata m =>
    have := decodeSlab_encodeMapDataI m ok [] n
    simp only [List.append_nil] at this
    exact ⟨_, this⟩
  | mindex m =>
    have := decodeSlab_encodeMapMeta m ok [] n
    simp only [List.append_nil, ne_eq, not_true_eq_false, if_false] at this
    exact ⟨_, this⟩
  | storableG id s => exact ok.elim

/-- C06 for every slab kind of a world: written bytes (+ the omitted sibling link) = reported size +
    extra-data sections, as an EQUALITY -/
theorem enc_len_all (sl : Slab) (ok : OKAll sl) (hroot : RootNoNext sl) :
    (encodeSlab sl).length + omittedNext sl = sl.byteSize + sl.extraDataLen := by
  cases sl with
  | data ty d =>
    obtain ⟨hok, _⟩ := ok
    simp only [encodeSlab, Slab.byteSize, Slab.extraDataLen, omittedNext]
    exact Codec.enc_len_data _ d hok.size hok.notInlined hroot hok.elems
  | index ty m =>
    obtain ⟨hok, _⟩ := ok
    simp only [encodeSlab, Slab.byteSize, Slab.extraDataLen, omittedNext, Nat.add_zero]
    exact Codec.enc_len_meta _ m hok.size
  | storable id e =>
    simp only [encodeSlab, Slab.byteSize, Slab.extraDataLen, omittedNext, Nat.add_zero]
    exact Codec.enc_len_storable e ok
  | adata a =>
    have hrt : rtiSts a.elems ∧ noCompactSts a.elems := by
      rcases ok with ok | ok
      · exact ⟨ok.rt, ok.noCompact⟩
      · exact ⟨ok.rt, noCompactSts_of_noInl _ ok.noInl⟩
    have := Codec.enc_len_adata a (okSts_of_RTI _ hrt.1) hrt.2 hroot
    simp only [encodeSlab, Slab.byteSize, Slab.extraDataLen, omittedNext]
    cases hx : a.ty <;> simp only [hx] at this ⊢ <;> omega
  | mdata m =>
    have := Codec.enc_len_mdata m (MEls.OK_of_RTI _ ok.rt) ok.noCompact hroot
    simp only [encodeSlab, Slab.byteSize, Slab.extraDataLen, omittedNext]
    simp only [mapExtraLen] at this
    cases hx : m.extra <;> simp only [hx] at this ⊢ <;> omega
  | mindex m =>
    have := Codec.enc_len_mindex m
    simp only [encodeSlab, Slab.byteSize, Slab.extraDataLen, omittedNext, Nat.add_zero]
    simp only [mapExtraLen] at this
    cases hx : m.extra <;> simp only [hx] at this ⊢ <;> omega
  | storableG id s => exact ok.elim

/-! ### the has-inlined-slabs condition of `ArrDataOKI` -/

theorem addArrayXD_ne_nil (xs : List XD) (ty : TyInfo) : (addArrayXD xs ty).2 ≠ [] := by
  unfold addArrayXD
  cases hf : findIdxFrom (fun x => match x with | .arr t => encodeTy t == encodeTy ty | _ => false) xs 0 with
  | none => simp
  | some i =>
    obtain ⟨_, y, hy, _⟩ := findIdxFrom_some _ xs 0 i hf
    intro h
    simp only at h
    rw [h] at hy
    simp at hy

theorem ne_nil_of_prefix {xs ys : List XD} (h : ∃ t, ys = xs ++ t) (hne : xs ≠ []) : ys ≠ [] := by
  obtain ⟨t, rfl⟩ := h
  intro h
  exact hne (List.append_eq_nil_iff.1 h).1

theorem encSt_inl_ne_nil : (s : Stor) → (xs : List XD) → s.RTI → s.noCompact → XOK xs → ¬ s.noInl →
    (encSt s xs).2 ≠ []
  | .val _ _, _, _, _, _, hn => absurd trivial hn
  | .ref _, _, _, _, _, hn => absurd trivial hn
  | .some s, xs, h, nc, hx, hn => by
    simp only [encSt]
    exact encSt_inl_ne_nil s xs h nc hx hn
  | .arr ty idx es, xs, h, nc, hx, _ => by
    obtain ⟨ha, hxa, _⟩ := addArrayXD_spec xs ty hx h.1
    simp only [encSt]
    exact ne_nil_of_prefix (encSts_state es _ h.2.2.2.1 nc hxa).1 (addArrayXD_ne_nil xs ty)
  | .map x idx (.hkey level hkeys elems), xs, h, nc, hx, _ => by
    obtain ⟨ha, hxa, _⟩ := addMapXD_spec xs x hx h.1
    have hc : compactKeys x elems = none := nc.1
    simp only [encSt, hc]
    exact ne_nil_of_prefix (encMElList_state elems _ h.2.2.1.2.2.2.2.1 nc.2 hxa).1 (by simp [addMapXD])
  | .map x idx (.single level elems), xs, h, nc, hx, _ => by
    obtain ⟨ha, hxa, _⟩ := addMapXD_spec xs x hx h.1
    simp only [encSt]
    exact ne_nil_of_prefix (encSElList_state elems _ h.2.2.1.2.2.2.1 nc hxa).1 (by simp [addMapXD])

theorem encSts_inl_ne_nil : (l : List Stor) → (xs : List XD) → rtiSts l → noCompactSts l → XOK xs →
    ¬ noInlSts l → (encSts l xs).2 ≠ []
  | [], _, _, _, _, hn => absurd trivial hn
  | s :: ss, xs, h, nc, hx, hn => by
    have h1 := encSt_state s xs h.1 nc.1 hx
    simp only [encSts]
    by_cases hs : s.noInl
    · have hss : ¬ noInlSts ss := fun h' => hn ⟨hs, h'⟩
      exact encSts_inl_ne_nil ss _ h.2 nc.2 h1.2 hss
    · exact ne_nil_of_prefix (encSts_state ss _ h.2 nc.2 h1.2).1 (encSt_inl_ne_nil s xs h.1 nc.1 hx hs)

end Atree.WC
