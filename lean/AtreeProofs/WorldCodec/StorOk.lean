import AtreeModel.Codec.World
import AtreeProofs.Codec.InlDefs
import AtreeProofs.Codec.EncLemmasG
import AtreeProofs.MapInv
import AtreeProofs.WorldInv
import AtreeProofs.Props.C10Persist
/-
  THE STORABLE OF ONE STORED ELEMENT (`World.storOf`) MEETS THE CODEC PREDICATES.

  `Env D w`: what the induction needs to know about the world (all of it follows from the global
  invariant `WorldOk'` and the decidable side conditions `LeafOk`, see `AtreeProofs/WorldCodec/Env.lean`):
  every INLINED container is one well-formed root slab whose size field is the sum of its parts,
  whose elements are in sync with the containers they refer to (`Synced`: this is `SlotSync`) and
  whose leaves (plain values, references to large-value slabs) are values of the harness.

  `storOf_ok`: for a synced, leaf-valid element `e` and fuel ≥ `e.size`:
      (storOf fuel w e).size = e.size            -- the computed size of the embedded form IS the size the parent accounts for
      (storOf fuel w e).RTI                      -- the predicate of the inlined round trip (C07)
      (storOf fuel w e).noCompact                -- type infos of the World model are plain: never the compact form
  by induction on the fuel: an inlined child is strictly smaller than the element that embeds it.
-/
namespace Atree.WC
open Atree Atree.Codec Gen World

/-! ### wrappers -/

theorem size_wrapN (n : Nat) (s : Stor) : (wrapN n s).size = 2 * n + s.size := by
  induction n with
  | zero => simp [wrapN]
  | succ n ih => simp only [wrapN, Stor.size, someOverhead, ih]; omega

theorem rti_wrapN (n : Nat) (s : Stor) (h : s.RTI) : (wrapN n s).RTI := by
  induction n with
  | zero => exact h
  | succ n ih => simp only [wrapN, Stor.RTI]; exact ih

theorem noCompact_wrapN (n : Nat) (s : Stor) (h : s.noCompact) : (wrapN n s).noCompact := by
  induction n with
  | zero => exact h
  | succ n ih => simp only [wrapN, Stor.noCompact]; exact ih

theorem vneedI_wrapN (n : Nat) (s : Stor) : (wrapN n s).vneedI = s.vneedI + n := by
  induction n with
  | zero => rfl
  | succ n ih => simp only [wrapN, Stor.vneedI, ih]; omega

/-! ### lists -/

theorem sizeSts_map (re : Elem → Stor) : ∀ (l : List Elem), (∀ e ∈ l, (re e).size = e.size) →
    sizeSts (l.map re) = sumSizes l
  | [], _ => rfl
  | e :: l, h => by
    have h1 := h e (List.mem_cons_self ..)
    have h2 := sizeSts_map re l (fun x hx => h x (List.mem_cons_of_mem _ hx))
    simp only [List.map_cons, sizeSts, h1, h2, sumSizes, List.sum_cons]

theorem rtiSts_map (re : Elem → Stor) : ∀ (l : List Elem), (∀ e ∈ l, (re e).RTI) → rtiSts (l.map re)
  | [], _ => trivial
  | e :: l, h => ⟨h e (List.mem_cons_self ..), rtiSts_map re l (fun x hx => h x (List.mem_cons_of_mem _ hx))⟩

theorem noCompactSts_map (re : Elem → Stor) : ∀ (l : List Elem), (∀ e ∈ l, (re e).noCompact) →
    noCompactSts (l.map re)
  | [], _ => trivial
  | e :: l, h =>
    ⟨h e (List.mem_cons_self ..), noCompactSts_map re l (fun x hx => h x (List.mem_cons_of_mem _ hx))⟩

theorem size_le_sumSizes {l : List Elem} {e : Elem} (h : e ∈ l) : e.size ≤ sumSizes l := by
  induction l with
  | nil => cases h
  | cons a l ih =>
    simp only [sumSizes, List.map_cons, List.sum_cons] at ih ⊢
    rcases List.mem_cons.1 h with rfl | h
    · omega
    · have := ih h; omega

theorem length_le_sumSizes {l : List Elem} (h : ∀ e ∈ l, 1 ≤ e.size) : l.length ≤ sumSizes l := by
  induction l with
  | nil => simp [sumSizes]
  | cons a l ih =>
    have h1 := h a (List.mem_cons_self ..)
    have h2 := ih (fun x hx => h x (List.mem_cons_of_mem _ hx))
    simp only [sumSizes, List.map_cons, List.sum_cons, List.length_cons] at *
    omega

/-! ### what the induction needs of the world -/

/-- the element is in sync with the world: at least one byte, and if it refers to a live container
    its size is that of the container's current form behind some wrappers (`ElemSync` / `SlotSync`) -/
def Synced (w : World) (e : Elem) : Prop :=
  1 ≤ e.size ∧ ∀ x c, e.pay = .ref x → w.cont? x = some c → ∃ wrap, e.size = slotSize c wrap

/-- a stored element that is not a reference to a live container is a value of the harness
    (`hx.ValidTV`) resp. a proper reference to a large-value slab (`validElem`) -/
def LeafValid (w : World) (e : Elem) : Prop :=
  (∀ x, e.pay = .ref x → w.cont? x = none) → validElem e

instance (w : World) (e : Elem) : Decidable (LeafValid w e) := by
  unfold LeafValid
  cases h : e.pay with
  | val p => exact decidable_of_iff (validElem e) ⟨fun hv _ => hv, fun hv => hv (fun x hx => by cases hx)⟩
  | ref x =>
    exact decidable_of_iff (w.cont? x = none → validElem e)
      ⟨fun hv hx => hv (hx x rfl), fun hv hx => hv (fun y hy => by cases hy; exact hx)⟩

/-- what is known about an element of interest -/
def Good (w : World) (e : Elem) : Prop := Synced w e ∧ LeafValid w e

/-- the single root slab of an INLINED ARRAY, as the induction needs it -/
structure InlArr (w : World) (a : Arr) : Prop where
  shape : ∃ (s : DataSlab) (ty : Nat), a = ⟨0, s, ty⟩ ∧
    s.hdr.size = inlinedArrayDataSlabPrefixSize + sumSizes s.elems ∧
    (∀ e ∈ s.elems, Good w e) ∧ s.hdr.id.idx < 2 ^ 64 ∧ ty < 2 ^ 64 ∧ s.hdr.size ≤ 65535

/-- what is known about a renderer `re` on the values `V` -/
def ReGood (re : Elem → Stor) (V : Elem → Prop) : Prop :=
  ∀ v, V v → (re v).size = v.size ∧ (re v).RTI ∧ (re v).noCompact

/-- the single root slab of an INLINED MAP.  `mels`: the codec form of its elements meets the
    predicates for every renderer that is good on its values (this is `WC.melsOf_top`,
    `AtreeProofs/WorldCodec/MElsOf.lean`, instantiated in `Env.lean`; kept abstract here so that
    this file does not depend on the map development). -/
structure InlMap (w : World) (m : OMap 3) : Prop where
  shape : ∃ (s : MDataSlab 3) (ty cnt seed : Nat), m = ⟨0, s, ty, cnt, seed⟩ ∧
    s.hdr.size = inlinedMapDataSlabPrefixSize + s.elems.size ∧
    (∀ v ∈ C10Persist.localVals 4 s.elems, Good w v ∧ v.size ≤ s.elems.size) ∧
    s.hdr.id.idx < 2 ^ 64 ∧ ty < 2 ^ 64 ∧ cnt < 2 ^ 64 ∧ seed < 2 ^ 64 ∧ s.hdr.size ≤ 65535 ∧
    (∀ (re : Elem → Stor) (V : Elem → Prop), (∀ v ∈ C10Persist.localVals 4 s.elems, V v) → ReGood re V →
      (melsOf re 4 s.elems).size = s.elems.size ∧ (melsOf re 4 s.elems).RTI ∧ (melsOf re 4 s.elems).noCompact)

/-- WHAT THE INDUCTION NEEDS OF THE WORLD -/
structure Env (w : World) : Prop where
  live   : ∀ x c, w.cont? x = some c → x.addr < 2 ^ 64 ∧ x.idx < 2 ^ 64
  arrInl : ∀ x a, w.cont? x = some (.arr a) → a.isInlined = true → InlArr w a
  mapInl : ∀ x m, w.cont? x = some (.map m) → m.isInlined = true → InlMap w m

/-! ### the induction -/

theorem wrap_of_slot {n k wrap : Nat} (h : n = k + 2 * wrap) : (n - k) / 2 = wrap := by
  subst h; omega

theorem noCompact_map_plain (ty cnt seed idx : Nat) (els : MEls) (h : els.noCompact) :
    (Stor.map { ty := .plain ty, count := cnt, seed := seed } idx els).noCompact := by
  cases els with
  | hkey level hkeys es =>
    simp only [Stor.noCompact]
    exact ⟨by simp [compactKeys, TyInfo.isComposite], h⟩
  | single level es => exact h

/-- THE STORABLE OF A STORED ELEMENT MEETS THE CODEC PREDICATES, and its computed size is the size
    the parent accounts for. -/
theorem storOf_ok {w : World} (E : Env w) : ∀ (fuel : Nat) (e : Elem), Good w e → e.size ≤ fuel →
    (storOf fuel w e).size = e.size ∧ (storOf fuel w e).RTI ∧ (storOf fuel w e).noCompact := by
  intro fuel
  induction fuel with
  | zero =>
    intro e hg hf
    have := hg.1.1
    omega
  | succ fuel ih =>
    intro e hg hf
    obtain ⟨⟨h1, hsync⟩, hleaf⟩ := hg
    obtain ⟨sz, pay⟩ := e
    cases pay with
    | val p =>
      have hv : validElem ⟨sz, .val p⟩ := hleaf (fun x hx => by cases hx)
      refine ⟨by simp [storOf, Stor.size], ?_, ?_⟩
      · simpa [storOf, Stor.RTI] using hv
      · simp [storOf, Stor.noCompact]
    | ref x =>
      cases hc : w.cont? x with
      | none =>
        have hv : validElem ⟨sz, .ref x⟩ := hleaf (fun y hy => by cases hy; exact hc)
        simp only [validElem] at hv
        refine ⟨by simp [storOf, hc, Stor.size, hv.1], ?_, ?_⟩
        · simp only [storOf, hc, Stor.RTI]; exact hv.2
        · simp [storOf, hc, Stor.noCompact]
      | some c =>
        obtain ⟨wrap, hw⟩ := hsync x c rfl hc
        have hlive := E.live x c hc
        cases hi : c.isInlined with
        | false =>
          simp only [slotSize, hi, Bool.false_eq_true, if_false] at hw
          have hw' : sz = slabIDStorableSize + 2 * wrap := hw
          have hk : (sz - slabIDStorableSize) / 2 = wrap := wrap_of_slot hw'
          simp only [storOf, hc, hi, Bool.false_eq_true, if_false, hk]
          refine ⟨?_, rti_wrapN _ _ hlive, noCompact_wrapN _ _ trivial⟩
          rw [size_wrapN]
          simp only [Stor.size]
          omega
        | true =>
          simp only [slotSize, hi, if_true] at hw
          have hw' : sz = c.rootSize + 2 * wrap := hw
          have hk : (sz - c.rootSize) / 2 = wrap := wrap_of_slot hw'
          simp only [storOf, hc, hi, if_true, hk]
          suffices hin : (contStor (storOf fuel w) c).size = c.rootSize ∧ (contStor (storOf fuel w) c).RTI ∧
              (contStor (storOf fuel w) c).noCompact by
            refine ⟨?_, rti_wrapN _ _ hin.2.1, noCompact_wrapN _ _ hin.2.2⟩
            rw [size_wrapN, hin.1]; omega
          have hf' : c.rootSize ≤ fuel + 1 := by simp only at hf; omega
          cases c with
          | arr a =>
            obtain ⟨s, ty, rfl, hsz, hel, hidx, hty, h16⟩ := (E.arrInl x a hc hi).shape
            have hrs : (Cont.arr ⟨0, s, ty⟩).rootSize = s.hdr.size := rfl
            rw [hrs] at hf' ⊢
            have hfe : ∀ e ∈ s.elems, e.size ≤ fuel := by
              intro e he
              have := size_le_sumSizes he
              simp only [inlinedArrayDataSlabPrefixSize] at hsz
              omega
            have hih : ∀ e ∈ s.elems, (storOf fuel w e).size = e.size ∧ (storOf fuel w e).RTI ∧
                (storOf fuel w e).noCompact := fun e he => ih e (hel e he) (hfe e he)
            have hsize : sizeSts (s.elems.map (storOf fuel w)) = sumSizes s.elems :=
              sizeSts_map _ _ (fun e he => (hih e he).1)
            have hlen : s.elems.length ≤ sumSizes s.elems := length_le_sumSizes (fun e he => (hel e he).1.1)
            refine ⟨?_, ?_, ?_⟩
            · simp only [contStor, Stor.size, hsize, hsz]
            · simp only [contStor, Stor.RTI, List.length_map, hsize]
              refine ⟨hty, hidx, ?_, rtiSts_map _ _ (fun e he => (hih e he).2.1), ?_⟩
              · simp only [inlinedArrayDataSlabPrefixSize] at hsz; omega
              · simp only [maxUint32]; omega
            · simp only [contStor, Stor.noCompact]
              exact noCompactSts_map _ _ (fun e he => (hih e he).2.2)
          | map m =>
            obtain ⟨s, ty, cnt, seed, rfl, hsz, hvals, hidx, hty, hcnt, hseed, h16, hmels⟩ := (E.mapInl x m hc hi).shape
            have hrs : (Cont.map ⟨0, s, ty, cnt, seed⟩).rootSize = s.hdr.size := rfl
            rw [hrs] at hf' ⊢
            obtain ⟨m1, m2, m3⟩ := hmels (storOf fuel w) (fun v => Good w v ∧ v.size ≤ fuel)
              (fun v hv => ⟨(hvals v hv).1, by
                have := (hvals v hv).2
                simp only [inlinedMapDataSlabPrefixSize] at hsz
                omega⟩)
              (fun v hv => ih v hv.1 hv.2)
            refine ⟨?_, ?_, ?_⟩
            · simp only [contStor, Stor.size, m1, hsz]
            · simp only [contStor, Stor.RTI, m1]
              refine ⟨⟨hty, hcnt, hseed⟩, hidx, m2, ?_⟩
              simp only [maxUint32]; omega
            · simp only [contStor]
              exact noCompact_map_plain _ _ _ _ _ m3

/-- the four shapes of the storable of a synced element -/
theorem stor_cases {w : World} (e : Elem) (hs : Synced w e) :
    (∃ p, e.pay = .val p ∧ w.stor e = .val e.size p) ∨
    (∃ x, e.pay = .ref x ∧ w.cont? x = none ∧ w.stor e = .ref x) ∨
    (∃ x c wrap, e.pay = .ref x ∧ w.cont? x = some c ∧ c.isInlined = false ∧
      e.size = slabIDStorableSize + 2 * wrap ∧ w.stor e = wrapN wrap (.ref x)) ∨
    (∃ x c wrap, e.pay = .ref x ∧ w.cont? x = some c ∧ c.isInlined = true ∧
      e.size = c.rootSize + 2 * wrap ∧ w.stor e = wrapN wrap (contStor (storOf (e.size - 1) w) c)) := by
  obtain ⟨h1, hsync⟩ := hs
  obtain ⟨sz, pay⟩ := e
  cases pay with
  | val p => exact Or.inl ⟨p, rfl, by simp [stor, storOf]⟩
  | ref x =>
    cases hc : w.cont? x with
    | none => exact Or.inr (Or.inl ⟨x, rfl, hc, by simp [stor, storOf, hc]⟩)
    | some c =>
      obtain ⟨wrap, hw⟩ := hsync x c rfl hc
      cases hi : c.isInlined with
      | false =>
        simp only [slotSize, hi, Bool.false_eq_true, if_false] at hw
        have hw' : sz = slabIDStorableSize + 2 * wrap := hw
        have hk : (sz - slabIDStorableSize) / 2 = wrap := wrap_of_slot hw'
        exact Or.inr (Or.inr (Or.inl ⟨x, c, wrap, rfl, hc, hi, hw',
          by simp only [stor, storOf, hc, hi, Bool.false_eq_true, if_false, hk]⟩))
      | true =>
        simp only [slotSize, hi, if_true] at hw
        have hw' : sz = c.rootSize + 2 * wrap := hw
        have hk : (sz - c.rootSize) / 2 = wrap := wrap_of_slot hw'
        refine Or.inr (Or.inr (Or.inr ⟨x, c, wrap, rfl, hc, hi, hw', ?_⟩))
        simp only at h1
        obtain ⟨n, rfl⟩ : ∃ n, sz = n + 1 := ⟨sz - 1, by omega⟩
        simp only [stor, storOf, hc, hi, if_true, hk, Nat.add_sub_cancel]

/-- the same with the element's own size as fuel (`World.stor`) -/
theorem stor_ok {w : World} (E : Env w) (e : Elem) (hg : Good w e) :
    (w.stor e).size = e.size ∧ (w.stor e).RTI ∧ (w.stor e).noCompact :=
  storOf_ok E e.size e hg (Nat.le_refl _)

end Atree.WC
