import AtreeProofs.WorldCodec.StorOk
import AtreeProofs.WorldCodec.SlabOk
import AtreeProofs.WorldCodec.Link
import AtreeProofs.E2EMapBytesSpec
/-
  What is proved of ONE heap slab of a world (`World.slabAt id = some ws`), and the side conditions.
  DEFINITIONS ONLY - part of the statement of `AtreeProofs/Props/C07World.lean`.
-/
namespace Atree
open Gen Codec

/-- the size the model keeps in the header of the slab: what `Slab.ByteSize()` reports (the nested
    stream compares it with the implementation's on every dumped slab) -/
def WSlab.size : WSlab → Nat
  | .arr (.data s) _ => s.hdr.size
  | .arr (.index h _ _ _) _ => h.size
  | .map (.data s) _ => s.hdr.size
  | .map (.index h _ _) _ => h.size
  | .map (.group g) _ => g.hdr.size

/-- A REAL ASSUMPTION (audit a4-B7, decidable): an EXTERNAL collision-group slab (flag `anySize`: no
    size band applies to it) respects the field widths of the encoding (`E2EM.Fit`): fewer than 8192
    digests per digest table (their byte string has a 16-bit length), fewer than 65536 entries per
    last-level list, sizes within `uint32`; the library does not check this.  A group slab smaller
    than 64 KiB always does (`E2EM.fit_of_size`).  Every other slab is
    within the size band of C05, where these bounds are DERIVED. -/
def WSlab.GroupFit : WSlab → Prop
  | .map (.group g) _ => E2EM.Fit 3 g.elems ∧ g.hdr.size ≤ maxUint32
  | _ => True

instance (ws : WSlab) : Decidable ws.GroupFit := by
  cases ws with
  | arr s ty => exact isTrue trivial
  | map s x =>
    cases s with
    | data s => exact isTrue trivial
    | index h chs root => exact isTrue trivial
    | group g => simp only [WSlab.GroupFit]; infer_instance

namespace WC

/-- THE GOAL FOR ONE HEAP SLAB `ws` stored under `id`: under the side conditions of that slab
    (`Side`: CBOR nesting ≤ 32 and ≤ 256 shared extra-data entries; `GroupFit`), its translation meets
    the predicates of the codec theorems, a root has no sibling, the codec's `byteSize` is the size
    the model reports, and the translated slab carries the ID it is stored under. -/
def SlabGoal (w : World) (id : SlabID) (ws : WSlab) : Prop :=
  Side (ws.toCodec w.stor) → ws.GroupFit →
    OKAll (ws.toCodec w.stor) ∧ RootNoNext (ws.toCodec w.stor) ∧
      (ws.toCodec w.stor).byteSize = ws.size ∧ (ws.toCodec w.stor).id = id

end WC
end Atree
