import AtreeModel.Codec.World
import AtreeProofs.Props.C10Persist
/-
  THE DEEP ACCOUNT in terms of the translation `World.stor` (DEFINITIONS ONLY).

  `World.slabAt id` is the SHALLOW content of a stored slab: an element that refers to a child
  container is `{size, ref vid}` whether the child is inlined or not.  The bytes of the register are
  determined by the shallow slab together with the storables `World.stor e` of its local elements
  (`C10Persist.slabElems`), which embed the inlined children recursively.  `DeepStoredC` is what the
  shallow accounts of C09W do not say: a slab that stays in the heap with the same shallow content,
  but one of whose embedded children changed, was stored.
-/
namespace Atree.WC
open Atree Gen

/-- the local elements of slab `s` have the same storables in both worlds -/
def DeepSame (w w' : World) (s : WSlab) : Prop := ∀ e ∈ C10Persist.slabElems s, w'.stor e = w.stor e

/-- a slab that is in the heap of `w` and of `w'` with the same shallow content, but whose deep
    content (the storable of one of its local elements) differs, was stored by the log `E` -/
def DeepStoredC (w w' : World) (E : List Eff) : Prop :=
  ∀ id s, w'.slabAt id = some s → w.slabAt id = some s → ¬ DeepSame w w' s → lastAction E id = some true

end Atree.WC
