import AtreeProofs.WorldCodec.Link
import AtreeProofs.WorldCodec.Env
/-
  A stored slab carries the ID it is stored under — for every heap slab of a world that satisfies
  the invariant, WITHOUT any side condition (the registers written by a commit are filed under the
  ID their bytes were encoded for).
-/
namespace Atree.WC
open Atree Atree.Codec Gen World

/-- the ID in the slab's own header -/
def _root_.Atree.WSlab.ownId : WSlab → SlabID
  | .arr (.data s) _ => s.hdr.id
  | .arr (.index h _ _ _) _ => h.id
  | .map (.data s) _ => s.hdr.id
  | .map (.index h _ _) _ => h.id
  | .map (.group g) _ => g.hdr.id

theorem toCodec_id (re : Elem → Stor) (ws : WSlab) : (ws.toCodec re).id = ws.ownId := by
  cases ws with
  | arr s ty =>
    cases s with
    | data s =>
      simp only [WSlab.toCodec, dataSlabOf, WSlab.ownId]
      split <;> rfl
    | index h chs cs root => rfl
  | map s x =>
    cases s with
    | data s => rfl
    | index h chs root => rfl
    | group g => rfl

def aOwn : ASlab → SlabID
  | .data s => s.hdr.id
  | .index h _ _ _ => h.id

theorem atree_slabs_own : ∀ (d : Nat) (t : ATree d), ∀ p ∈ ATree.slabs d t, aOwn p.2 = p.1
  | 0, (s : DataSlab), p, hp => by
    simp only [ATree.slabs, List.mem_singleton] at hp
    subst hp; rfl
  | d + 1, (m : MetaSlab (ATree d)), p, hp => by
    simp only [ATree.slabs, List.mem_cons, List.mem_flatMap] at hp
    rcases hp with rfl | ⟨c, _, hc⟩
    · rfl
    · exact atree_slabs_own d c p hc

def mOwn {r : Nat} : MSlabView r → SlabID
  | .data s => s.hdr.id
  | .index h _ _ => h.id
  | .group g => g.hdr.id

/-- the group slabs of a data slab whose elements satisfy the invariant carry the IDs they are referred to by -/
theorem groupSlabs_own {T L r : Nat} {D : DigestFn L} {s : MDataSlab r} {path : List Nat}
    (h : ElemsInv T L D (r + 1) 0 path s.elems) : ∀ p ∈ s.groupSlabs, mOwn p.2 = p.1 := by
  intro p hp
  simp only [MDataSlab.groupSlabs, List.mem_filterMap] at hp
  obtain ⟨el, hel, hq⟩ := hp
  cases el with
  | single x => cases hq
  | inl g => cases hq
  | ext id sz g =>
    simp only [Option.some.injEq] at hq
    subst hq
    simp only [ElemsInv] at h
    obtain ⟨_, _, h3, _, _, h6⟩ := h
    obtain ⟨i, hi, hget⟩ := List.mem_iff_getElem.1 hel
    have hi' : i < s.elems.hkeys.length := by omega
    have := h6 i s.elems.hkeys[i] (.ext id sz g) (List.getElem?_eq_getElem hi') (by rw [List.getElem?_eq_getElem hi, hget])
    exact this.2.2.1

theorem mtree_slabs_own {T r : Nat} {D : DigestFn (r + 1)} : ∀ (d : Nat) (top : Bool) (t : MTree r d),
    MTreeInv T D d top t → ∀ p ∈ MTree.slabs d t, mOwn p.2 = p.1
  | 0, top, (s : MDataSlab r), h, p, hp => by
    simp only [MTreeInv] at h
    simp only [MTree.slabs, List.mem_cons] at hp
    rcases hp with rfl | hp
    · rfl
    · exact groupSlabs_own h.elems_inv p hp
  | d + 1, top, (m : MMetaSlab (MTree r d)), h, p, hp => by
    simp only [MTreeInv] at h
    simp only [MTree.slabs, List.mem_cons, List.mem_flatMap] at hp
    rcases hp with rfl | ⟨c, hc, hpc⟩
    · rfl
    · exact mtree_slabs_own d false c (h.2.2.2.2.1 c hc) p hpc

/-- EVERY HEAP SLAB CARRIES THE ID IT IS STORED UNDER -/
theorem slabAt_ownId {D : SlabID → DigestFn 4} {w : World} {ctr : Nat} (H : WorldOk' D w ctr)
    {id : SlabID} {ws : WSlab} (hs : w.slabAt id = some ws) : ws.ownId = id := by
  obtain ⟨rank, H0⟩ := H
  have hmem : (id, ws) ∈ w.heapOf := E2E.mem_of_find?_some hs
  obtain ⟨x, c, hx, hp⟩ := (mem_heapOf_iff w id ws).1 hmem
  have hp' := Cont.mem_slabs_treeSlabs c (id, ws) hp
  cases c with
  | arr a =>
    simp only [Cont.treeSlabs, List.mem_map] at hp'
    obtain ⟨q, hq, heq⟩ := hp'
    have := atree_slabs_own a.d a.root q hq
    cases heq
    cases hq2 : q.2 <;> simp only [hq2, aOwn] at this <;> simpa [WSlab.ownId, hq2] using this
  | map m =>
    have hok : MapOk w.T (D x) m ctr := H0.conts x _ hx
    simp only [Cont.treeSlabs, List.mem_map] at hp'
    obtain ⟨q, hq, heq⟩ := hp'
    have hown : mOwn q.2 = q.1 := by
      cases hi : m.isInlined with
      | false => exact mtree_slabs_own m.d true m.root (hok.1 hi).1.tree q hq
      | true =>
        obtain ⟨s, ty, cnt, seed, rfl, _, _, _, hinv, _⟩ := hok.2 hi
        have hq' : q ∈ MTree.slabs 0 s := hq
        simp only [MTree.slabs, List.mem_cons] at hq'
        rcases hq' with rfl | hq'
        · rfl
        · exact groupSlabs_own hinv q hq'
    cases heq
    cases hq2 : q.2 <;> simp only [hq2, mOwn] at hown <;> simpa [WSlab.ownId, hq2] using hown

/-- … hence so does its translation -/
theorem toCodec_own {D : SlabID → DigestFn 4} {w : World} {ctr : Nat} (H : WorldOk' D w ctr)
    {id : SlabID} {sl : Slab} (hs : w.toCodec id = some sl) : sl.id = id := by
  rw [toCodec_eq] at hs
  cases h : w.slabAt id with
  | none => rw [h] at hs; cases hs
  | some ws =>
    rw [h] at hs
    simp only [Option.map_some, Option.some.injEq] at hs
    subst hs
    rw [toCodec_id, slabAt_ownId H h]

end Atree.WC
