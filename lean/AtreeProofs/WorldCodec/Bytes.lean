import AtreeProofs.WorldCodec.Deep
import AtreeProofs.WorldCodec.SlabOk
import AtreeProofs.Props.C09WHist
import AtreeProofs.Props.C10Persist
/-
  The World model run against the storage state machine WITH THE BYTE CODEC: definitions and the
  generic part of the composition (`AtreeProofs/Props/C03WorldBytes.lean` holds the property theorems).

  * `worldCodec`: the storage's codec on codec-level slabs — `EncodeSlab` of a slab that meets the
    encoder's preconditions (`OKAll`; an encoding error otherwise), filed under the slab's own ID;
    reading a register is `DecodeSlab(key, bytes)`.
  * `Req`: one request of a history (the constructors of `C09W.Hist` other than `new`).
  * `HistB`: a history of requests run against the storage (every storage call of every request is
    applied to the state machine, every stored slab has the content `World.toCodec` of the world
    after the request), with commits — failing or not — anywhere.
-/
namespace Atree.WC
open Atree Atree.Codec Gen World St C10Persist
open Atree.C09 (newEffects newCreated)

/-! ### the byte codec on the codec-level slabs of a world -/

/-- `EncodeSlab` / `DecodeSlab` on the slabs `World.toCodec` produces -/
noncomputable def worldCodec : Atree.Codec Slab (SlabID × Bytes) :=
  { enc := fun sl => by classical exact if OKAll sl then some (sl.id, encodeSlab sl) else none,
    dec := fun _ p =>
      match decodeSlab p.1 p.2 0 with
      | .ok sl _ => some sl
      | _ => none,
    size := fun sl => sl.byteSize }

theorem worldCodec_enc_of_ok (sl : Slab) (ok : OKAll sl) : worldCodec.enc sl = some (sl.id, encodeSlab sl) := by
  classical
  simp only [worldCodec, if_pos ok]

/-- the byte codec satisfies the abstract round-trip law of the storage theorems -/
theorem worldCodec_roundTrip : RoundTrip worldCodec := by
  classical
  intro id v b h
  simp only [worldCodec] at h ⊢
  split at h
  · rename_i ok
    cases h
    obtain ⟨k, hk⟩ := decode_encode_all v ok 0
    simp only [hk]
  · cases h

/-! ### requests -/

/-- ONE REQUEST of a history: the constructors of `C09W.Hist` other than `new`, with their hypotheses
    (current handle, valid value / key) -/
inductive Req (D : SlabID → DigestFn 4) : World → Ctx → World → Ctx → Prop
  | newArr {w cx} (ty : Nat) : Req D w cx (w.newArr ty cx).2.1 (w.newArr ty cx).2.2
  | newMap {w cx} (ty seed : Nat) : Req D w cx (w.newMap ty seed cx).2.1 (w.newMap ty seed cx).2.2
  | arrInsert {w cx p i v w' cx'} : HandleOk w p → WValOk w p (maxInlineArr w.T) v →
      w.arrInsert p i v cx = .ok (w', cx') → Req D w cx w' cx'
  | arrSet {w cx p i v old w' cx'} : HandleOk w p → WValOk w p (maxInlineArr w.T) v →
      w.arrSet p i v cx = .ok (old, w', cx') → Req D w cx w' cx'
  | arrRemove {w cx p i old w' cx'} : HandleOk w p →
      w.arrRemove p i cx = .ok (old, w', cx') → Req D w cx w' cx'
  | mapSet {w cx p k v old w' cx'} : HandleOk w p → KeyOk w.T 4 (D p) k →
      WValOk w p (maxInlineMapValue w.T k.size) v → w.mapSet p k v cx = .ok (old, w', cx') → Req D w cx w' cx'
  | mapRemove {w cx p k rk rv w' cx'} : HandleOk w p → KeyOk w.T 4 (D p) k →
      w.mapRemove p k cx = .ok (rk, rv, w', cx') → Req D w cx w' cx'
  | setType {w cx p ty w' cx'} : HandleOk w p → w.setType p ty cx = .ok (w', cx') → Req D w cx w' cx'
  | arrGet {w cx p i el w'} : HandleOk w p → w.arrGet p i = .ok (el, w') → Req D w cx w' cx
  | mapGet {w cx p k el w'} : HandleOk w p → KeyOk w.T 4 (D p) k → w.mapGet p k = .ok (el, w') → Req D w cx w' cx
  | reopen {w cx} : Req D w cx w.reopen cx

theorem Req.hist {D : SlabID → DigestFn 4} {w w' : World} {cx cx' : Ctx} (h : C09W.Hist D w cx)
    (r : Req D w cx w' cx') : C09W.Hist D w' cx' := by
  cases r with
  | newArr ty => exact .newArr ty h
  | newMap ty seed => exact .newMap ty seed h
  | arrInsert hh hv hr => exact .arrInsert h hh hv hr
  | arrSet hh hv hr => exact .arrSet h hh hv hr
  | arrRemove hh hr => exact .arrRemove h hh hr
  | mapSet hh hk hv hr => exact .mapSet h hh hk hv hr
  | mapRemove hh hk hr => exact .mapRemove h hh hk hr
  | setType hh hr => exact .setType h hh hr
  | arrGet hh hr => exact .arrGet h hh hr
  | mapGet hh hk hr => exact .mapGet h hh hk hr
  | reopen => exact .reopen h

/-! ### reads leave the table of containers alone -/

theorem conts_setCallbackArr (w : World) (p : SlabID) (i : Nat) (v : WVal) : (w.setCallbackArr p i v).conts = w.conts := by
  cases v <;> rfl

theorem conts_setCallbackMap (w : World) (p : SlabID) (k : MKey) (v : WVal) : (w.setCallbackMap p k v).conts = w.conts := by
  cases v <;> rfl

theorem arrGet_conts {w w' : World} {p : SlabID} {i : Nat} {el : Elem} (h : w.arrGet p i = .ok (el, w')) :
    w'.conts = w.conts := by
  unfold World.arrGet at h
  split at h
  · split at h
    · cases h
    · split at h
      · split at h
        · cases h; rfl
        · cases h; exact conts_setCallbackArr _ _ _ _
      · cases h; rfl
  · cases h

theorem mapGet_conts {w w' : World} {p : SlabID} {k : MKey} {el : Elem} (h : w.mapGet p k = .ok (el, w')) :
    w'.conts = w.conts := by
  unfold World.mapGet at h
  split at h
  · split at h
    · cases h
    · split at h
      · split at h
        · cases h; rfl
        · cases h; exact conts_setCallbackMap _ _ _ _
      · cases h; rfl
  · cases h

theorem slabAt_of_conts {w w' : World} (h : w'.conts = w.conts) (id : SlabID) : w'.slabAt id = w.slabAt id := by
  simp only [World.slabAt, World.heapOf, World.cont?, h]

theorem storOf_of_conts {w w' : World} (h : w'.conts = w.conts) : ∀ (fuel : Nat) (e : Elem),
    storOf fuel w' e = storOf fuel w e := by
  intro fuel
  induction fuel with
  | zero => intro e; simp only [storOf, World.cont?, h]
  | succ n ih =>
    intro e
    have : storOf n w' = storOf n w := funext ih
    simp only [storOf, World.cont?, h, this]

theorem toCodec_of_conts {w w' : World} (h : w'.conts = w.conts) : w'.toCodec = w.toCodec := by
  funext id
  have hs : w'.stor = w.stor := by
    funext e
    exact storOf_of_conts h e.size e
  simp only [World.toCodec, World.codecHeap, World.cont?, h, hs]

theorem newEffects_self (cx : Ctx) : newEffects cx cx = [] := by simp [newEffects]
theorem newCreated_self (cx : Ctx) : newCreated cx cx = [] := by simp [newCreated]

/-- nothing happened to the table of containers: the empty log is a complete shallow account -/
theorem shallow_of_same {w w' : World} (h : ∀ id, w'.slabAt id = w.slabAt id) : WEffectsComplete w w' [] [] := by
  refine ⟨?_, ?_, ?_, ?_⟩
  · intro id _ h2; exact absurd (h id) h2
  · intro id h1 h2; rw [h id] at h2; cases hs : w.slabAt id <;> simp [hs] at h1 h2
  · intro id hl; cases hl
  · intro id hl; cases hl

/-- THE SHALLOW ACCOUNT OF EVERY REQUEST (the `*_effects_complete` theorems of C09W) -/
theorem Req.shallow {D : SlabID → DigestFn 4} {w w' : World} {cx cx' : Ctx} (h : C09W.Hist D w cx)
    (r : Req D w cx w' cx') : WEffectsComplete w w' (newEffects cx cx') (newCreated cx cx') := by
  obtain ⟨H, Hh, _⟩ := C09W.world_heap_exact D w cx h
  cases r with
  | newArr ty => exact (C09W.newArr_effects_complete D w ty cx H Hh).2.1
  | newMap ty seed => exact (C09W.newMap_effects_complete D w ty seed cx H Hh).2.1
  | arrInsert hh hv hr => exact (C09W.arrInsert_effects_complete D w _ _ _ cx w' cx' H Hh hv hr).2.1
  | arrSet hh hv hr => exact (C09W.arrSet_effects_complete D w _ _ _ cx _ w' cx' H Hh hv hr).2.1
  | arrRemove hh hr => exact (C09W.arrRemove_effects_complete D w _ _ cx _ w' cx' H Hh hr).2.1
  | mapSet hh hk hv hr => exact (C09W.mapSet_effects_complete D w _ _ _ cx _ w' cx' H Hh hk hv hr).2.1
  | mapRemove hh hk hr => exact (C09W.mapRemove_effects_complete D w _ _ cx _ _ w' cx' H Hh hk hr).2.1
  | setType hh hr => exact (C09W.setType_effects_complete D w _ _ cx w' cx' H Hh hr).2.1
  | arrGet hh hr =>
    rw [newEffects_self, newCreated_self]
    exact shallow_of_same (slabAt_of_conts (arrGet_conts hr))
  | mapGet hh hk hr =>
    rw [newEffects_self, newCreated_self]
    exact shallow_of_same (slabAt_of_conts (mapGet_conts hr))
  | reopen =>
    rw [newEffects_self, newCreated_self]
    exact shallow_of_same (slabAt_of_conts rfl)

end Atree.WC
