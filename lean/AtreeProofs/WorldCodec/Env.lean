import AtreeProofs.WorldCodec.StorOk
import AtreeProofs.WorldCodec.MElsOf
import AtreeProofs.WorldOkPop
import AtreeProofs.World.HeapStorable
import AtreeProofs.World.HeapCont
import AtreeProofs.WorldCodec.Trunc
/-
  THE ENVIRONMENT OF THE STORABLE INDUCTION (`WC.Env`, StorOk.lean) FOLLOWS FROM THE GLOBAL INVARIANT
  `WorldOk'` (+ the ownership invariant `HeapOk`, which holds along every history) and the decidable
  side conditions `LeafOk` — the REAL ASSUMPTIONS about values and field widths:

  * every stored element that is not a reference to a live container is a value of the harness
    (`hx.ValidTV`: size ≥ 1, not 65540, below 2³², payload within the content bytes) resp. a proper
    19-byte reference; every map key is a value of the harness;
  * owner address, allocation counter, type infos, counts and seeds fit 64 bits;
  * the digests of the STORED keys are 64-bit (`LeafOk.digs`; the invariants are then carried over to
    the truncated digest functions `truncD`, whose digests are 64-bit for every key: `CInv.trunc`).
-/
namespace Atree.WC
open Atree Atree.Codec Gen World

/-- type info / count / seed of a container fit their fields -/
def ContWidths : Cont → Prop
  | .arr a => a.ty < 2 ^ 64
  | .map m => m.ty < 2 ^ 64 ∧ m.count < 2 ^ 64 ∧ m.seed < 2 ^ 64

instance (c : Cont) : Decidable (ContWidths c) := by
  cases c <;> (simp only [ContWidths]; infer_instance)

/-- the keys of a map are values of the harness -/
def KeysValid : Cont → Prop
  | .arr _ => True
  | .map m => ∀ kv ∈ m.toList, validElem ⟨kv.1.size, .val kv.1.pay⟩

instance (c : Cont) : Decidable (KeysValid c) := by
  cases c <;> (simp only [KeysValid]; infer_instance)

/-- THE SIDE CONDITIONS ON VALUES AND FIELD WIDTHS (decidable: `World.conts` is a finite table) -/
structure LeafOk (w : World) (ctr : Nat) : Prop where
  addr  : w.addr < 2 ^ 64
  ctr   : ctr < 2 ^ 64
  elems : ∀ x c, w.cont? x = some c → ∀ e ∈ c.storedElems, LeafValid w e
  keys  : ∀ x c, w.cont? x = some c → KeysValid c
  width : ∀ x c, w.cont? x = some c → ContWidths c
  digs  : ∀ x c, w.cont? x = some c → ContKB c

/-- the clauses of the global invariant `WorldOk'` the translation needs (the only one that mentions
    the digest functions is `conts`) -/
structure CInv (D : SlabID → DigestFn 4) (w : World) (ctr : Nat) : Prop where
  legal : legalThreshold w.T = true
  ids   : World.IdsOk w
  conts : ∀ x c, w.cont? x = some c → ContOk w.T (D x) ctr c
  slots : SlotSync w none (fun _ => False)
  band  : InlBand w

theorem CInv.of_worldOk {D : SlabID → DigestFn 4} {w : World} {ctr : Nat} (H : WorldOk' D w ctr) : CInv D w ctr := by
  obtain ⟨rank, H⟩ := H
  exact ⟨H.legal, H.ids, H.conts, H.slots, H.band⟩

/-- the invariant for the truncated digest functions -/
theorem CInv.trunc {D : SlabID → DigestFn 4} {w : World} {ctr : Nat} (H : CInv D w ctr)
    (hb : ∀ x c, w.cont? x = some c → ContKB c) : CInv (fun x => truncD (D x)) w ctr :=
  ⟨H.legal, H.ids, fun x c hx => contOk_trunc (H.conts x c hx) (hb x c hx), H.slots, H.band⟩

/-! ### local values / keys are values / keys of the dictionary (structural) -/

theorem localVals_sub_toList : ∀ (r : Nat) (e : MElems r), ∀ v ∈ C10Persist.localVals r e,
    v ∈ ((MElems.ops r).toList e).map (·.2)
  | 0, (se : SingleElems), v, hv => by
    have hv' : v ∈ se.elems.map (·.val) := hv
    obtain ⟨x, hx, rfl⟩ := List.mem_map.1 hv'
    exact List.mem_map.2 ⟨(x.key, x.val), List.mem_map.2 ⟨x, hx, rfl⟩, rfl⟩
  | r + 1, (he : HkeyElems (MElems r)), v, hv => by
    have hv' : v ∈ he.elems.flatMap (fun el => match el with
        | .single x => [x.val] | .inl g => C10Persist.localVals r g | .ext _ _ _ => []) := hv
    obtain ⟨el, hel, hvel⟩ := List.mem_flatMap.1 hv'
    show v ∈ (he.elems.flatMap (fun el => el.toList (MElems.ops r))).map (·.2)
    rw [List.map_flatMap]
    refine List.mem_flatMap.2 ⟨el, hel, ?_⟩
    cases el with
    | single x =>
      simp only [List.mem_singleton] at hvel
      subst hvel
      simp [MElemF.toList]
    | inl g => exact localVals_sub_toList r g v hvel
    | ext id sz s => cases hvel

theorem localKeys_sub_toList : ∀ (r : Nat) (e : MElems r), ∀ k ∈ localKeys r e,
    k ∈ ((MElems.ops r).toList e).map (·.1)
  | 0, (se : SingleElems), k, hk => by
    have hk' : k ∈ se.elems.map (·.key) := hk
    obtain ⟨x, hx, rfl⟩ := List.mem_map.1 hk'
    exact List.mem_map.2 ⟨(x.key, x.val), List.mem_map.2 ⟨x, hx, rfl⟩, rfl⟩
  | r + 1, (he : HkeyElems (MElems r)), k, hk => by
    have hk' : k ∈ he.elems.flatMap (fun el => match el with
        | .single x => [x.key] | .inl g => localKeys r g | .ext _ _ _ => []) := hk
    obtain ⟨el, hel, hkel⟩ := List.mem_flatMap.1 hk'
    show k ∈ (he.elems.flatMap (fun el => el.toList (MElems.ops r))).map (·.1)
    rw [List.map_flatMap]
    refine List.mem_flatMap.2 ⟨el, hel, ?_⟩
    cases el with
    | single x =>
      simp only [List.mem_singleton] at hkel
      subst hkel
      simp [MElemF.toList]
    | inl g => exact localKeys_sub_toList r g k hkel
    | ext id sz s => cases hkel

/-! ### every stored element of a live container is good -/

theorem mem_slots_of_stored {T : Nat} (c : Cont) (e : Elem) (h : e ∈ c.storedElems) :
    ∃ le ∈ c.slots T, le.2 = e := by
  cases c with
  | arr a =>
    exact ⟨(maxInlineArr T, e), List.mem_map.2 ⟨e, h, rfl⟩, rfl⟩
  | map m =>
    simp only [Cont.storedElems, List.mem_map] at h
    obtain ⟨p, hp, rfl⟩ := h
    exact ⟨(maxInlineMapValue T p.1.size, p.2), List.mem_map.2 ⟨p, hp, rfl⟩, rfl⟩

/-- EVERY STORED ELEMENT OF A LIVE CONTAINER IS GOOD: in sync with the container it refers to
    (`SlotSync`), and a valid leaf otherwise (`LeafOk`) -/
theorem good_of_stored {D : SlabID → DigestFn 4} {w : World} {ctr : Nat}
    (H : CInv D w ctr) (L : LeafOk w ctr) {x : SlabID} {c : Cont}
    (hx : w.cont? x = some c) : ∀ e ∈ c.storedElems, Good w e := by
  intro e he
  have hleaf := L.elems x c hx e he
  obtain ⟨le, hle, rfl⟩ := mem_slots_of_stored (T := w.T) c e he
  have hsync : ∀ y cy, le.2.pay = .ref y → w.cont? y = some cy → ∃ wrap, le.2.size = slotSize cy wrap := by
    intro y cy hp hy
    obtain ⟨wrap, _, h2, _, _⟩ := H.slots x c hx le hle y cy hp hy
    exact ⟨wrap, (h2 (by simp)).1⟩
  refine ⟨⟨?_, hsync⟩, hleaf⟩
  cases hp : le.2.pay with
  | val p =>
    have hv := hleaf (fun y hy => by rw [hp] at hy; cases hy)
    simp only [validElem, hp] at hv
    exact hv.1
  | ref y =>
    cases hy : w.cont? y with
    | none =>
      have hv := hleaf (fun z hz => by rw [hp] at hz; cases hz; exact hy)
      simp only [validElem, hp] at hv
      rw [hv.1]; simp only [slabIDStorableSize]; omega
    | some cy =>
      obtain ⟨wrap, hw⟩ := hsync y cy hp hy
      rw [hw]
      simp only [slotSize]
      split
      · rename_i hi
        have := Cont.rootSize_pos_of_inl (H.conts y cy hy) hi
        omega
      · simp only [slabIDStorableSize]; omega

/-! ### the environment -/

theorem inl_rootSize_le {D : SlabID → DigestFn 4} {w : World} {ctr : Nat}
    (H : CInv D w ctr) {x : SlabID} {c : Cont} (hx : w.cont? x = some c)
    (hi : c.isInlined = true) : c.rootSize ≤ 32768 := by
  have h1 := H.band x c hx hi
  have h2 := H.legal
  unfold legalThreshold at h2
  simp only [Bool.and_eq_true, maxSlabSize] at h2
  have := of_decide_eq_true h2.2
  omega

/-- THE ENVIRONMENT FOLLOWS FROM THE GLOBAL INVARIANT and the side conditions -/
theorem env_of_worldOk {D : SlabID → DigestFn 4} {w : World} {ctr : Nat}
    (H : CInv D w ctr) (Hh : HeapOk w ctr) (L : LeafOk w ctr)
    (hD : ∀ x p, ∀ h ∈ (D x).dg p, h < 2 ^ 64) : Env w := by
  have hidlt : ∀ x c id, w.cont? x = some c → id ∈ c.treeIds → id.addr < 2 ^ 64 ∧ id.idx < 2 ^ 64 := by
    intro x c id hx hid
    have h1 := Hh.addr x c id hx hid
    have h2 := Hh.below x c id hx hid
    have := L.addr; have := L.ctr
    exact ⟨by rw [h1]; exact L.addr, by omega⟩
  have hlive : ∀ x c, w.cont? x = some c → x.addr < 2 ^ 64 ∧ x.idx < 2 ^ 64 := by
    intro x c hx
    have := hidlt x c c.vid hx (Cont.vid_mem_treeIds c)
    rwa [H.ids x c hx] at this
  refine ⟨hlive, ?_, ?_⟩
  · intro x a hx hi
    obtain ⟨s, ty, rfl, _, _, _, _, hsz, _, _, _, _⟩ := ((H.conts x _ hx : ArrOk w.T a ctr)).2 hi
    have hg := good_of_stored H L hx
    have hl := hlive x _ hx
    have hid : s.hdr.id = x := H.ids x _ hx
    have hw : ty < 2 ^ 64 := L.width x _ hx
    have hb := inl_rootSize_le H hx hi
    refine ⟨s, ty, rfl, hsz, hg, by rw [hid]; exact hl.2, hw, ?_⟩
    have : (Cont.arr ⟨0, s, ty⟩).rootSize = s.hdr.size := rfl
    omega
  · intro x m hx hi
    obtain ⟨s, ty, cnt, seed, rfl, _, _, _, hinv, hsz, _, _, _⟩ := ((H.conts x _ hx : MapOk w.T (D x) m ctr)).2 hi
    have hg := good_of_stored H L hx
    have hl := hlive x _ hx
    have hid : s.hdr.id = x := H.ids x _ hx
    obtain ⟨hw1, hw2, hw3⟩ : ty < 2 ^ 64 ∧ cnt < 2 ^ 64 ∧ seed < 2 ^ 64 := L.width x _ hx
    have hb := inl_rootSize_le H hx hi
    have hrs : (Cont.map ⟨0, s, ty, cnt, seed⟩).rootSize = s.hdr.size := rfl
    have hkeys : ∀ kv ∈ (⟨0, s, ty, cnt, seed⟩ : OMap 3).toList, validElem ⟨kv.1.size, .val kv.1.pay⟩ := L.keys x _ hx
    have htl : (⟨0, s, ty, cnt, seed⟩ : OMap 3).toList = (MElems.ops 4).toList s.elems := rfl
    have hvals : ∀ v ∈ C10Persist.localVals 4 s.elems, Good w v := by
      intro v hv
      apply hg
      have := localVals_sub_toList 4 s.elems v hv
      simpa [Cont.storedElems, htl] using this
    refine ⟨s, ty, cnt, seed, rfl, hsz, ?_, by rw [hid]; exact hl.2, hw1, hw2, hw3, by omega, ?_⟩
    · intro v hv
      exact ⟨hvals v hv, localVals_le_size 4 0 [] s.elems hinv v hv⟩
    · intro re V hV hre
      have hsz49 : s.elems.size ≤ 49152 := by
        simp only [inlinedMapDataSlabPrefixSize] at hsz; omega
      refine melsOf_top (r := 3) (by omega) (hD x) ⟨fun v hv => (hre v hv).1, fun v hv => (hre v hv).2.1,
        fun v hv => (hre v hv).2.2⟩ s.elems hinv hsz49 hV ?_ ?_
      · intro k hk
        have := localKeys_sub_toList 4 s.elems k hk
        obtain ⟨kv, hkv, rfl⟩ := List.mem_map.1 this
        exact hkeys kv (by rw [htl]; exact hkv)
      · intro id sz g hmem
        apply hidlt x _ id hx
        rw [Cont.treeIds_map]
        show id ∈ AList.keys (MTree.slabs 0 s)
        simp only [MTree.slabs, AList.keys, List.map_cons, List.mem_cons, List.mem_map]
        refine Or.inr ⟨(id, .group g), ?_, rfl⟩
        simp only [MDataSlab.groupSlabs, List.mem_filterMap]
        exact ⟨.ext id sz g, hmem, rfl⟩

end Atree.WC
