import AtreeProofs.MapInv
import AtreeProofs.WorldOk
import AtreeProofs.World.MapRefW
import AtreeProofs.E2EMap.BytesStored
/-
  The invariants of maps depend on the digest function `D` only through "every stored key carries
  the digests `D` assigns to it".  If the digests of the STORED keys are 64-bit numbers (a decidable
  property of the world), the invariants also hold for the truncated digest function
  `truncD D p = (D p) mod 2⁶⁴` — whose digests are 64-bit for EVERY key.  This turns the global
  hypothesis "digests are 64-bit" of the codec lemmas into a side condition on the world.
-/
namespace Atree.WC
open Atree Gen

/-- the digest function with every digest reduced mod 2⁶⁴ (`Digest` is a `uint64`) -/
def truncD {L : Nat} (D : DigestFn L) : DigestFn L :=
  ⟨fun p => (D.dg p).map (· % 2 ^ 64), fun p => by rw [List.length_map]; exact D.len p⟩

theorem truncD_lt {L : Nat} (D : DigestFn L) : ∀ p, ∀ h ∈ (truncD D).dg p, h < 2 ^ 64 := by
  intro p h hh
  simp only [truncD, List.mem_map] at hh
  obtain ⟨d, _, rfl⟩ := hh
  exact Nat.mod_lt _ (by decide)

theorem map_mod_id : ∀ (l : List Nat), (∀ d ∈ l, d < 2 ^ 64) → l.map (· % 2 ^ 64) = l
  | [], _ => rfl
  | a :: l, h => by
    rw [List.map_cons, Nat.mod_eq_of_lt (h a (List.mem_cons_self ..)),
      map_mod_id l (fun d hd => h d (List.mem_cons_of_mem _ hd))]

/-- the digests of the keys of a list of pairs are 64-bit -/
def KB (l : List (MKey × Elem)) : Prop := ∀ kv ∈ l, ∀ d ∈ kv.1.digs, d < 2 ^ 64

instance (l : List (MKey × Elem)) : Decidable (KB l) := by unfold KB; infer_instance

variable {T L : Nat} {D : DigestFn L}

theorem keyOk_trunc {k : MKey} (h : KeyOk T L D k) (hb : ∀ d ∈ k.digs, d < 2 ^ 64) : KeyOk T L (truncD D) k := by
  obtain ⟨h1, h2, h3⟩ := h
  refine ⟨?_, h2, h3⟩
  show k.digs = (D.dg (k.size, k.pay)).map (· % 2 ^ 64)
  rw [← h1, map_mod_id _ hb]

theorem selemOk_trunc {x : SElem} (h : SElemOk T L D x) (hb : ∀ d ∈ x.key.digs, d < 2 ^ 64) :
    SElemOk T L (truncD D) x :=
  ⟨keyOk_trunc h.1 hb, h.2⟩

theorem elemsInv_trunc : ∀ (r ℓ : Nat) (path : List Nat) (e : MElems r), ElemsInv T L D r ℓ path e →
    KB ((MElems.ops r).toList e) → ElemsInv T L (truncD D) r ℓ path e
  | 0, ℓ, path, (se : SingleElems), h, hb => by
    simp only [ElemsInv] at h ⊢
    obtain ⟨h1, h2, h3, h4, h5⟩ := h
    refine ⟨h1, h2, h3, ?_, h5⟩
    intro x hx
    refine ⟨selemOk_trunc (h4 x hx).1 ?_, (h4 x hx).2⟩
    exact hb (x.key, x.val) (List.mem_map.2 ⟨x, hx, rfl⟩)
  | r + 1, ℓ, path, (he : HkeyElems (MElems r)), h, hb => by
    simp only [ElemsInv] at h ⊢
    obtain ⟨h1, h2, h3, h4, h5, h6⟩ := h
    refine ⟨h1, h2, h3, h4, h5, ?_⟩
    intro i hk el hi hel
    have hmem : el ∈ he.elems := List.mem_of_getElem? hel
    have hsub : KB (el.toList (MElems.ops r)) := by
      intro kv hkv
      exact hb kv (List.mem_flatMap.2 ⟨el, hmem, hkv⟩)
    have := h6 i hk el hi hel
    cases el with
    | single x =>
      exact ⟨selemOk_trunc this.1 (hsub (x.key, x.val) (by simp [MElemF.toList])), this.2⟩
    | inl g =>
      exact ⟨elemsInv_trunc r (ℓ + 1) _ g this.1 hsub, this.2⟩
    | ext id sz s =>
      obtain ⟨a1, a2, a3, a4, a5, a6, a7⟩ := this
      exact ⟨a1, a2, a3, a4, a5, elemsInv_trunc r (ℓ + 1) _ s.elems a6 hsub, a7⟩

variable {r : Nat} {D : DigestFn (r + 1)}

theorem mdataInv_trunc {top : Bool} {s : MDataSlab r} (h : MDataInv T D top s)
    (hb : KB (HkeyElems.toList (MElems.ops r) s.elems)) : MDataInv T (truncD D) top s :=
  ⟨elemsInv_trunc (r + 1) 0 [] s.elems h.elems_inv hb, h.size_eq, h.first_eq, h.root_eq, h.inl_root, h.le_max,
    h.ge_min, h.nonempty, h.elem_le⟩

theorem mtreeInv_trunc : ∀ (d : Nat) (top : Bool) (t : MTree r d), MTreeInv T D d top t →
    KB (MTree.toList d t) → MTreeInv T (truncD D) d top t
  | 0, top, (s : MDataSlab r), h, hb => by
    simp only [MTreeInv] at h ⊢
    exact mdataInv_trunc h hb
  | d + 1, top, (m : MMetaSlab (MTree r d)), h, hb => by
    simp only [MTreeInv] at h ⊢
    obtain ⟨h1, h2, h3, h4, h5, h6, h7, h8, h9, h10, h11⟩ := h
    refine ⟨h1, h2, h3, h4, ?_, h6, h7, h8, h9, h10, h11⟩
    intro c hc
    exact mtreeInv_trunc d false c (h5 c hc) (fun kv hkv => hb kv (List.mem_flatMap.2 ⟨c, hc, hkv⟩))

theorem mapInv_trunc {m : OMap r} (h : MapInv T D m) (hb : KB m.toList) : MapInv T (truncD D) m :=
  ⟨mtreeInv_trunc m.d true m.root h.tree hb, h.chain, h.count_eq, h.distinct, h.standalone⟩

theorem mapInvInl_trunc {m : OMap r} {ctr : Nat} (h : MapInvInl T D m ctr) (hb : KB m.toList) :
    MapInvInl T (truncD D) m ctr := by
  obtain ⟨s, ty, cnt, seed, rfl, h1, h2, h3, h4, h5, h6, h7, h8⟩ := h
  exact ⟨s, ty, cnt, seed, rfl, h1, h2, h3, elemsInv_trunc (r + 1) 0 [] s.elems h4 hb, h5, h6, h7, h8⟩

/-- the keys of the maps among the containers carry 64-bit digests -/
def ContKB : Cont → Prop
  | .arr _ => True
  | .map m => KB m.toList

instance (c : Cont) : Decidable (ContKB c) := by
  cases c <;> (simp only [ContKB]; infer_instance)

theorem contOk_trunc {D : DigestFn 4} {ctr : Nat} {c : Cont} (h : ContOk T D ctr c) (hb : ContKB c) :
    ContOk T (truncD D) ctr c := by
  cases c with
  | arr a => exact h
  | map m =>
    have hm : MapOk T D m ctr := h
    exact (⟨fun hi => ⟨mapInv_trunc (hm.1 hi).1 hb, (hm.1 hi).2⟩, fun hi => mapInvInl_trunc (hm.2 hi) hb⟩ :
      MapOk T (truncD D) m ctr)

end Atree.WC
