import AtreeModel.Codec.World
import AtreeProofs.E2EMap.BytesStored
import AtreeProofs.Codec.InlDefs
import AtreeProofs.Codec.EncLemmasG
import AtreeProofs.Codec.RoundTripG
import AtreeProofs.Props.C10Persist
import AtreeProofs.Iter.MapExample
/-
  `Codec.melsOf` MEETS THE CODEC PREDICATES.

  `Codec.melsOf re r e` (AtreeModel/Codec/World.lean) renders the map elements `e : MElems r` of the
  model as the codec's `MEls`, the VALUES being rendered by an arbitrary `re : Elem → Stor` (for the
  World of nested containers `re` embeds inlined children).  The special case `re = Stor.ofElem` is
  `E2EM.toMEls` (`melsOf_ofElem`), for which `AtreeProofs/E2EMap/BytesStored.lean` shows that the
  tree invariant `ElemsInv` gives the encoder's preconditions.  Here the same is done for ANY
  renderer that is known (`ReOK`) to keep the size of, and to produce round-trippable storables
  without compact maps for, the values stored locally in the `elements`:

  * `melsOf_inner` — `elements` below the first level (inline collision groups, the elements of an
    external collision-group slab: no external group inside);
  * `melsOf_top`   — the first level of a map data slab / of an inlined map root (external groups
    appear as references `.ext id`);
  each giving: computed size = size field, `MEls.RTI`, `MEls.noCompact`.

  Companions: `localVals_lt_size` / `localVals_le_size`, `melsOf_ofElem`, `melsOf_noInl`,
  `melsOf_vneedI_le`.
-/
namespace Atree.WC
open Atree Atree.Codec Gen
open Atree.E2EM (Fit FitEl fit_of_size hkeys_lt selem_size_ge elemSizes_ge elem_size_le le_sum_of_mem')
open Atree.C10Persist (localVals)

/-! ### definitions -/

/-- the keys stored locally in `elements` (single elements and inline groups; not inside external
    groups) - analogue of `C10Persist.localVals` -/
def localKeys : (r : Nat) → MElems r → List MKey
  | 0, (e : SingleElems) => e.elems.map (·.key)
  | r + 1, (he : HkeyElems (MElems r)) =>
    he.elems.flatMap (fun el =>
      match el with
      | .single x => [x.key]
      | .inl g => localKeys r g
      | .ext _ _ _ => [])

/-- what is known about the renderer on the values `V` -/
structure ReOK (re : Elem → Stor) (V : Elem → Prop) : Prop where
  size : ∀ v, V v → (re v).size = v.size
  rti  : ∀ v, V v → (re v).RTI
  nc   : ∀ v, V v → (re v).noCompact

/-! ### membership in `localVals` / `localKeys` -/

theorem localVals_zero (se : SingleElems) : localVals 0 se = se.elems.map (·.val) := rfl
theorem localKeys_zero (se : SingleElems) : localKeys 0 se = se.elems.map (·.key) := rfl

theorem mem_localVals_single {r : Nat} {he : HkeyElems (MElems r)} {x : SElem}
    (h : MElemF.single x ∈ he.elems) : x.val ∈ localVals (r + 1) he :=
  List.mem_flatMap.2 ⟨_, h, by simp⟩

theorem mem_localVals_inl {r : Nat} {he : HkeyElems (MElems r)} {g : MElems r} {v : Elem}
    (h : MElemF.inl g ∈ he.elems) (hv : v ∈ localVals r g) : v ∈ localVals (r + 1) he :=
  List.mem_flatMap.2 ⟨_, h, hv⟩

theorem mem_localKeys_single {r : Nat} {he : HkeyElems (MElems r)} {x : SElem}
    (h : MElemF.single x ∈ he.elems) : x.key ∈ localKeys (r + 1) he :=
  List.mem_flatMap.2 ⟨_, h, by simp⟩

theorem mem_localKeys_inl {r : Nat} {he : HkeyElems (MElems r)} {g : MElems r} {k : MKey}
    (h : MElemF.inl g ∈ he.elems) (hk : k ∈ localKeys r g) : k ∈ localKeys (r + 1) he :=
  List.mem_flatMap.2 ⟨_, h, hk⟩

/-- a value stored locally in a first-level element is stored locally in the `elements` -/
theorem mem_localVals_succ {r : Nat} {he : HkeyElems (MElems r)} {v : Elem} (h : v ∈ localVals (r + 1) he) :
    (∃ x, MElemF.single x ∈ he.elems ∧ v = x.val) ∨ (∃ g, MElemF.inl g ∈ he.elems ∧ v ∈ localVals r g) := by
  obtain ⟨el, hel, hv⟩ := List.mem_flatMap.1 h
  cases el with
  | single x => exact Or.inl ⟨x, hel, by simpa using hv⟩
  | inl g => exact Or.inr ⟨g, hel, hv⟩
  | ext id sz s => cases hv

/-! ### lists of rendered elements -/

theorem rtiSElList_of : ∀ {l : List SEl}, (∀ e ∈ l, e.RTI) → rtiSElList l
  | [], _ => by simp only [rtiSElList]
  | e :: l, h => by
    simp only [rtiSElList]
    exact ⟨h e (by simp), rtiSElList_of (fun x hx => h x (by simp [hx]))⟩

theorem rtiMElList_of : ∀ {l : List MEl}, (∀ e ∈ l, e.RTI) → rtiMElList l
  | [], _ => by simp only [rtiMElList]
  | e :: l, h => by
    simp only [rtiMElList]
    exact ⟨h e (by simp), rtiMElList_of (fun x hx => h x (by simp [hx]))⟩

theorem noCompactSElList_of : ∀ {l : List SEl}, (∀ e ∈ l, e.noCompact) → noCompactSElList l
  | [], _ => by simp only [noCompactSElList]
  | e :: l, h => by
    simp only [noCompactSElList]
    exact ⟨h e (by simp), noCompactSElList_of (fun x hx => h x (by simp [hx]))⟩

theorem noCompactMElList_of : ∀ {l : List MEl}, (∀ e ∈ l, e.noCompact) → noCompactMElList l
  | [], _ => by simp only [noCompactMElList]
  | e :: l, h => by
    simp only [noCompactMElList]
    exact ⟨h e (by simp), noCompactMElList_of (fun x hx => h x (by simp [hx]))⟩

theorem vneedISElList_le {n : Nat} : ∀ {l : List SEl}, (∀ e ∈ l, e.vneedI ≤ n) → vneedISElList l ≤ n
  | [], _ => by simp only [vneedISElList]; omega
  | e :: l, h => by
    simp only [vneedISElList]
    have h1 := h e (by simp)
    have h2 := vneedISElList_le (n := n) (l := l) (fun x hx => h x (by simp [hx]))
    omega

theorem vneedIMElList_le {n : Nat} : ∀ {l : List MEl}, (∀ e ∈ l, e.vneedI ≤ n) → vneedIMElList l ≤ n
  | [], _ => by simp only [vneedIMElList]; omega
  | e :: l, h => by
    simp only [vneedIMElList]
    have h1 := h e (by simp)
    have h2 := vneedIMElList_le (n := n) (l := l) (fun x hx => h x (by simp [hx]))
    omega

theorem sizeSEl_map_of (f : SElem → SEl) : ∀ (l : List SElem), (∀ x ∈ l, (f x).size = x.size) →
    sizeSEl (l.map f) = (l.map (·.size)).sum
  | [], _ => by simp [sizeSEl]
  | x :: l, h => by
    simp only [List.map_cons, sizeSEl, List.sum_cons]
    rw [h x (by simp), sizeSEl_map_of f l (fun y hy => h y (by simp [hy]))]

theorem sizeMEl_map_of {α : Type} (o : ElemsOps α) (f : MElemF α → MEl) : ∀ (l : List (MElemF α)),
    (∀ el ∈ l, (f el).size = el.size o) → sizeMEl (l.map f) = HkeyElems.elemSizes o l
  | [], _ => by simp [sizeMEl, HkeyElems.elemSizes]
  | el :: l, h => by
    have ih := sizeMEl_map_of o f l (fun y hy => h y (by simp [hy]))
    simp only [HkeyElems.elemSizes] at ih ⊢
    simp only [List.map_cons, sizeMEl, List.sum_cons]
    rw [h el (by simp), ih]
    omega

/-! ### one single element -/

/-- a single element whose key is a value of the harness and whose value the renderer handles -/
theorem selOf_facts {T L : Nat} {D : DigestFn L} {re : Elem → Stor} {V : Elem → Prop} (hre : ReOK re V)
    {x : SElem} (hx : SElemOk T L D x) (hv : V x.val) (hk : validElem ⟨x.key.size, .val x.key.pay⟩)
    (hsz : x.size ≤ maxUint32) :
    (selOf re x).size = x.size ∧ (selOf re x).RTI ∧ (selOf re x).noCompact := by
  have hs : (selOf re x).size = x.size := by
    simp only [selOf, SEl.size, keyStor, Stor.size, hre.size x.val hv, hx.2.2.2]
  refine ⟨hs, ?_, ?_⟩
  · simp only [selOf, SEl.size, keyStor, Stor.size] at hs
    simp only [selOf, SEl.RTI, keyStor, Stor.size]
    exact ⟨hk, hre.rti x.val hv, by omega⟩
  · simp only [selOf, SEl.noCompact, keyStor, Stor.noCompact, true_and]
    exact hre.nc x.val hv

/-! ### one level of `hkeyElements`, given the facts about its elements -/

theorem hkey_facts {α : Type} (o : ElemsOps α) (f : MElemF α → MEl) (level : Nat) (hkeys : List Nat)
    (elems : List (MElemF α)) (size : Nat)
    (hlev : level < 24) (hlen : hkeys.length = elems.length) (hcnt : elems.length < 8192)
    (hlt : ∀ h ∈ hkeys, h < 2 ^ 64) (hsz : size = hkeyElementsPrefixSize + HkeyElems.elemSizes o elems)
    (hmax : size ≤ maxUint32)
    (hel : ∀ el ∈ elems, (f el).size = el.size o ∧ (f el).RTI ∧ (f el).noCompact) :
    (MEls.hkey level hkeys (elems.map f)).size = size ∧ (MEls.hkey level hkeys (elems.map f)).RTI ∧
    (MEls.hkey level hkeys (elems.map f)).noCompact := by
  have hs : (MEls.hkey level hkeys (elems.map f)).size = size := by
    simp only [MEls.size]
    rw [sizeMEl_map_of o f elems (fun el hm => (hel el hm).1), hsz]
  refine ⟨hs, ?_, ?_⟩
  · simp only [MEls.size] at hs
    simp only [MEls.RTI, List.length_map]
    refine ⟨hlev, hlen, hcnt, hlt, rtiMElList_of ?_, by omega⟩
    intro e he
    obtain ⟨el, hm, rfl⟩ := List.mem_map.1 he
    exact (hel el hm).2.1
  · simp only [MEls.noCompact]
    apply noCompactMElList_of
    intro e he
    obtain ⟨el, hm, rfl⟩ := List.mem_map.1 he
    exact (hel el hm).2.2

theorem melsOf_zero (re : Elem → Stor) (se : SingleElems) :
    melsOf re 0 se = .single se.level (se.elems.map (selOf re)) := rfl

theorem melsOf_succ (re : Elem → Stor) {r : Nat} (he : HkeyElems (MElems r)) :
    melsOf re (r + 1) he = .hkey he.level he.hkeys (he.elems.map (melOf re (melsOf re r))) := rfl

/-- an element of the list sits at an index, under a digest -/
theorem idx_of_mem {α : Type} {hkeys : List Nat} {elems : List (MElemF α)} (hlen : hkeys.length = elems.length)
    {el : MElemF α} (hel : el ∈ elems) : ∃ (i : Nat) (hk : Nat), hkeys[i]? = some hk ∧ elems[i]? = some el := by
  obtain ⟨i, hi, hget⟩ := List.mem_iff_getElem.1 hel
  have hi' : i < hkeys.length := by omega
  exact ⟨i, hkeys[i], List.getElem?_eq_getElem hi', by rw [List.getElem?_eq_getElem hi, hget]⟩

/-! ### INNER levels -/

/-- INNER levels (level ≥ 1: no external group below the first level): the rendered `elements` have
    the size the model keeps, are round-trippable (`MEls.RTI`) and contain no compact map. -/
theorem melsOf_inner {T L : Nat} {D : DigestFn L} (hL : L ≤ 9) (hD : ∀ p, ∀ h ∈ D.dg p, h < 2 ^ 64)
    {re : Elem → Stor} {V : Elem → Prop} (hre : ReOK re V) :
    ∀ (r ℓ : Nat) (path : List Nat) (e : MElems r), ElemsInv T L D r ℓ path e → 1 ≤ ℓ → path.length = ℓ →
      1 ≤ (MElems.ops r).count e → E2EM.Fit r e →
      (∀ v ∈ C10Persist.localVals r e, V v) →
      (∀ k ∈ localKeys r e, validElem ⟨k.size, .val k.pay⟩) →
      (Codec.melsOf re r e).size = (MElems.ops r).size e ∧ (Codec.melsOf re r e).RTI ∧ (Codec.melsOf re r e).noCompact
  | 0, ℓ, path, (se : SingleElems), h, _, _, hc, hfit, hv, hk => by
    obtain ⟨h1, h2, h3, h4, _⟩ := h
    obtain ⟨f1, f2⟩ := hfit
    have hc' : 1 ≤ se.elems.length := hc
    have hel : ∀ x ∈ se.elems, (selOf re x).size = x.size ∧ (selOf re x).RTI ∧ (selOf re x).noCompact := by
      intro x hx
      refine selOf_facts hre (h4 x hx).1 (hv _ ?_) (hk _ ?_) ?_
      · rw [localVals_zero]; exact List.mem_map.2 ⟨x, hx, rfl⟩
      · rw [localKeys_zero]; exact List.mem_map.2 ⟨x, hx, rfl⟩
      · have := le_sum_of_mem' (List.mem_map.2 ⟨x, hx, rfl⟩ : x.size ∈ se.elems.map (·.size))
        omega
    have hs : (melsOf re 0 se).size = se.size := by
      rw [melsOf_zero]
      simp only [MEls.size]
      rw [sizeSEl_map_of (selOf re) se.elems (fun x hx => (hel x hx).1), h3]
    refine ⟨hs, ?_, ?_⟩
    · rw [melsOf_zero] at hs ⊢
      simp only [MEls.size] at hs
      simp only [MEls.RTI, List.length_map]
      refine ⟨by omega, ?_, f1, rtiSElList_of ?_, by omega⟩
      · intro hnil
        rw [List.map_eq_nil_iff.1 hnil] at hc'
        simp at hc'
      · intro e he
        obtain ⟨x, hx, rfl⟩ := List.mem_map.1 he
        exact (hel x hx).2.1
    · rw [melsOf_zero]
      simp only [MEls.noCompact]
      apply noCompactSElList_of
      intro e he
      obtain ⟨x, hx, rfl⟩ := List.mem_map.1 he
      exact (hel x hx).2.2
  | r + 1, ℓ, path, (he : HkeyElems (MElems r)), h, hℓ, hp, hc, hfit, hv, hk => by
    have hlt := hkeys_lt hD r ℓ path he h hp
    obtain ⟨h1, h2, h3, _, h5, h6⟩ := h
    obtain ⟨f1, f2, f3⟩ := hfit
    rw [melsOf_succ]
    refine hkey_facts (MElems.ops r) (melOf re (melsOf re r)) he.level he.hkeys he.elems he.size
      (by omega) h3 f1 hlt h5 f2 ?_
    intro el hel
    obtain ⟨i, hkd, e1, e2⟩ := idx_of_mem h3 hel
    have := h6 i hkd el e1 e2
    have hle := elem_size_le (MElems.ops r) he.elems el hel
    cases el with
    | single x =>
      simp only [MElemF.size] at hle
      exact selOf_facts hre this.1 (hv _ (mem_localVals_single hel)) (hk _ (mem_localKeys_single hel)) (by omega)
    | inl g =>
      obtain ⟨g1, g2, g3⟩ := melsOf_inner hL hD hre r (ℓ + 1) _ g this.1 (by omega) (by simp [hp]) this.2.1
        (f3 _ hel) (fun v hv' => hv v (mem_localVals_inl hel hv')) (fun k hk' => hk k (mem_localKeys_inl hel hk'))
      refine ⟨?_, g2, g3⟩
      show inlineCollisionGroupPrefixSize + (melsOf re r g).size = _
      rw [g1]; rfl
    | ext id sz s => exact absurd this.1 (by omega)

/-! ### FIRST level -/

/-- FIRST level of a map data slab / of an inlined map root (level 0; external groups appear as
    references `.ext id`). -/
theorem melsOf_top {T : Nat} {r : Nat} {D : DigestFn (r + 1)} (hr : r ≤ 8) (hD : ∀ p, ∀ h ∈ D.dg p, h < 2 ^ 64)
    {re : Elem → Stor} {V : Elem → Prop} (hre : ReOK re V)
    (he : HkeyElems (MElems r)) (h : ElemsInv T (r + 1) D (r + 1) 0 [] he) (hsz : he.size ≤ 49152)
    (hv : ∀ v ∈ C10Persist.localVals (r + 1) he, V v)
    (hk : ∀ k ∈ localKeys (r + 1) he, validElem ⟨k.size, .val k.pay⟩)
    (hids : ∀ id sz g, MElemF.ext id sz g ∈ he.elems → id.addr < 2 ^ 64 ∧ id.idx < 2 ^ 64) :
    (Codec.melsOf re (r + 1) he).size = he.size ∧ (Codec.melsOf re (r + 1) he).RTI ∧ (Codec.melsOf re (r + 1) he).noCompact := by
  have hlt := hkeys_lt hD r 0 [] he h rfl
  obtain ⟨h1, h2, h3, _, h5, h6⟩ := h
  have hge := elemSizes_ge (MElems.ops r) he.elems
  simp only [digestSize] at hge
  have h5' := h5
  simp only [hkeyElementsPrefixSize] at h5'
  rw [melsOf_succ]
  refine hkey_facts (MElems.ops r) (melOf re (melsOf re r)) he.level he.hkeys he.elems he.size
    (by omega) h3 (by omega) hlt h5 (by simp only [maxUint32]; omega) ?_
  intro el hel
  obtain ⟨i, hkd, e1, e2⟩ := idx_of_mem h3 hel
  have := h6 i hkd el e1 e2
  have hle := elem_size_le (MElems.ops r) he.elems el hel
  cases el with
  | single x =>
    simp only [MElemF.size] at hle
    exact selOf_facts hre this.1 (hv _ (mem_localVals_single hel)) (hk _ (mem_localKeys_single hel))
      (by simp only [maxUint32]; omega)
  | inl g =>
    simp only [MElemF.size, inlineCollisionGroupPrefixSize] at hle
    obtain ⟨g1, g2, g3⟩ := melsOf_inner (T := T) (by omega) hD hre r 1 _ g this.1 (Nat.le_refl 1) (by simp) this.2.1
      (fit_of_size r 1 _ g this.1 (by omega))
      (fun v hv' => hv v (mem_localVals_inl hel hv')) (fun k hk' => hk k (mem_localKeys_inl hel hk'))
    refine ⟨?_, g2, g3⟩
    show inlineCollisionGroupPrefixSize + (melsOf re r g).size = _
    rw [g1]; rfl
  | ext id sz s =>
    refine ⟨?_, hids id sz s hel, trivial⟩
    show externalCollisionGroupPrefixSize + slabIDStorableSize = sz
    exact this.2.1.symm

/-- THE SLAB OF AN EXTERNAL COLLISION GROUP: `melsOf_inner` at level 1 (`Fit` from the slab size when
    the group slab is smaller than 64 KiB). -/
theorem melsOf_group {T : Nat} {r : Nat} {D : DigestFn (r + 1)} (hr : r ≤ 8) (hD : ∀ p, ∀ h ∈ D.dg p, h < 2 ^ 64)
    {re : Elem → Stor} {V : Elem → Prop} (hre : ReOK re V)
    (hk0 : Nat) (e : MElems r) (h : ElemsInv T (r + 1) D r 1 [hk0] e) (hc : 1 ≤ (MElems.ops r).count e)
    (hsz : (MElems.ops r).size e < 65536)
    (hv : ∀ v ∈ C10Persist.localVals r e, V v)
    (hk : ∀ k ∈ localKeys r e, validElem ⟨k.size, .val k.pay⟩) :
    (Codec.melsOf re r e).size = (MElems.ops r).size e ∧ (Codec.melsOf re r e).RTI ∧ (Codec.melsOf re r e).noCompact :=
  melsOf_inner (by omega) hD hre r 1 [hk0] e h (Nat.le_refl 1) rfl hc (fit_of_size r 1 _ e h hsz) hv hk

/-! ### companions -/

/-- a value stored locally is smaller than the `elements` that hold it -/
theorem localVals_lt_size {T L : Nat} {D : DigestFn L} :
    ∀ (r ℓ : Nat) (path : List Nat) (e : MElems r), ElemsInv T L D r ℓ path e →
      ∀ v ∈ C10Persist.localVals r e, v.size < (MElems.ops r).size e
  | 0, ℓ, path, (se : SingleElems), h, v, hv => by
    obtain ⟨_, _, h3, h4, _⟩ := h
    rw [localVals_zero] at hv
    obtain ⟨x, hx, rfl⟩ := List.mem_map.1 hv
    have := le_sum_of_mem' (List.mem_map.2 ⟨x, hx, rfl⟩ : x.size ∈ se.elems.map (·.size))
    have h5 := (h4 x hx).1.2.2.2
    show x.val.size < se.size
    simp only [singleElementPrefixSize, singleElementsPrefixSize] at h5 h3
    omega
  | r + 1, ℓ, path, (he : HkeyElems (MElems r)), h, v, hv => by
    obtain ⟨_, _, h3, _, h5, h6⟩ := h
    show v.size < he.size
    rcases mem_localVals_succ hv with ⟨x, hel, rfl⟩ | ⟨g, hel, hvg⟩
    · obtain ⟨i, hkd, e1, e2⟩ := idx_of_mem h3 hel
      have := h6 i hkd _ e1 e2
      have hle := elem_size_le (MElems.ops r) he.elems _ hel
      have h7 := this.1.2.2.2
      simp only [MElemF.size, digestSize] at hle
      simp only [singleElementPrefixSize] at h7
      omega
    · obtain ⟨i, hkd, e1, e2⟩ := idx_of_mem h3 hel
      have := h6 i hkd _ e1 e2
      have hle := elem_size_le (MElems.ops r) he.elems _ hel
      have ih := localVals_lt_size r (ℓ + 1) _ g this.1 v hvg
      simp only [MElemF.size] at hle
      omega

theorem localVals_le_size {T L : Nat} {D : DigestFn L} (r ℓ : Nat) (path : List Nat) (e : MElems r)
    (h : ElemsInv T L D r ℓ path e) : ∀ v ∈ C10Persist.localVals r e, v.size ≤ (MElems.ops r).size e :=
  fun v hv => Nat.le_of_lt (localVals_lt_size r ℓ path e h v hv)

theorem selOf_ofElem : selOf Stor.ofElem = E2EM.toSEl := rfl

theorem melOf_ofElem {α : Type} (f : α → MEls) : melOf Stor.ofElem f = E2EM.toMElWith f := by
  funext el
  cases el <;> rfl

/-- the translation extends the flat one -/
theorem melsOf_ofElem : ∀ (r : Nat) (e : MElems r), Codec.melsOf Stor.ofElem r e = E2EM.toMEls r e
  | 0, (_ : SingleElems) => rfl
  | r + 1, (he : HkeyElems (MElems r)) => by
    have : melsOf Stor.ofElem r = E2EM.toMEls r := funext (melsOf_ofElem r)
    rw [melsOf_succ, this, melOf_ofElem]
    rfl

/-- no inlined slab in the rendered `elements` when none in the rendered values -/
theorem melsOf_noInl {re : Elem → Stor} : ∀ (r : Nat) (e : MElems r),
    (∀ v ∈ C10Persist.localVals r e, (re v).noInl) → (Codec.melsOf re r e).noInl
  | 0, (se : SingleElems), hv => by
    rw [melsOf_zero]
    simp only [MEls.noInl]
    apply E2EM.noInlSElList_of
    intro e he
    obtain ⟨x, hx, rfl⟩ := List.mem_map.1 he
    simp only [selOf, SEl.noInl, keyStor, Stor.noInl, true_and]
    exact hv _ (by rw [localVals_zero]; exact List.mem_map.2 ⟨x, hx, rfl⟩)
  | r + 1, (he : HkeyElems (MElems r)), hv => by
    rw [melsOf_succ]
    simp only [MEls.noInl]
    apply E2EM.noInlMElList_of
    intro e hm
    obtain ⟨el, hel, rfl⟩ := List.mem_map.1 hm
    cases el with
    | single x =>
      simp only [melOf, MEl.noInl, selOf, SEl.noInl, keyStor, Stor.noInl, true_and]
      exact hv _ (mem_localVals_single hel)
    | inl g =>
      simp only [melOf, MEl.noInl]
      exact melsOf_noInl r g (fun v hv' => hv v (mem_localVals_inl hel hv'))
    | ext id sz s => simp only [melOf, MEl.noInl]

/-- nesting the CBOR validator needs: three levels per level of `elements` (array of `elements`,
    array of the element list, tag of the inline group) on top of the deepest rendered value -/
theorem melsOf_vneedI_le {re : Elem → Stor} {n : Nat} : ∀ (r : Nat) (e : MElems r),
    (∀ v ∈ C10Persist.localVals r e, (re v).vneedI ≤ n) → (Codec.melsOf re r e).vneedI ≤ max n 1 + 3 * r + 3
  | 0, (se : SingleElems), hv => by
    rw [melsOf_zero]
    simp only [MEls.vneedI]
    have : vneedISElList (se.elems.map (selOf re)) ≤ max n 1 + 1 := by
      apply vneedISElList_le
      intro e he
      obtain ⟨x, hx, rfl⟩ := List.mem_map.1 he
      have := hv _ (by rw [localVals_zero]; exact List.mem_map.2 ⟨x, hx, rfl⟩)
      simp only [selOf, SEl.vneedI, keyStor, Stor.vneedI]
      omega
    omega
  | r + 1, (he : HkeyElems (MElems r)), hv => by
    rw [melsOf_succ]
    simp only [MEls.vneedI]
    have : vneedIMElList (he.elems.map (melOf re (melsOf re r))) ≤ max n 1 + 3 * r + 4 := by
      apply vneedIMElList_le
      intro e hm
      obtain ⟨el, hel, rfl⟩ := List.mem_map.1 hm
      cases el with
      | single x =>
        have := hv _ (mem_localVals_single hel)
        simp only [melOf, MEl.vneedI, selOf, SEl.vneedI, keyStor, Stor.vneedI]
        omega
      | inl g =>
        have := melsOf_vneedI_le (n := n) r g (fun v hv' => hv v (mem_localVals_inl hel hv'))
        simp only [melOf, MEl.vneedI]
        omega
      | ext id sz s =>
        simp only [melOf, MEl.vneedI]
        omega
    omega

/-- the bound in the additive form -/
theorem melsOf_vneedI_le' {re : Elem → Stor} {n : Nat} (r : Nat) (e : MElems r)
    (h : ∀ v ∈ C10Persist.localVals r e, (re v).vneedI ≤ n) : (Codec.melsOf re r e).vneedI ≤ n + 3 * r + 4 := by
  have := melsOf_vneedI_le r e h
  omega

/-! ### non-vacuity -/

/-- the flat renderer meets `ReOK` on the values the harness can encode -/
theorem reOK_ofElem : ReOK Stor.ofElem validElem := by
  refine ⟨E2EM.stor_ofElem_size, ?_, ?_⟩
  · intro v h
    obtain ⟨sz, pay⟩ := v
    unfold Stor.ofElem
    cases pay with
    | val p => exact h
    | ref id =>
      unfold validElem at h
      simp only at h
      exact ⟨h.2.1, h.2.2⟩
  · intro v _
    unfold Stor.ofElem
    cases v.pay <;> simp [Stor.noCompact]

namespace Example
open Atree.IterExample (T0 k v)

abbrev grp := IterExample.grp
abbrev rootElems := IterExample.rootElems

/-- the digest function of `IterExample` (the decimal digits of the payload), the first digest cut
    to 64 bits so that EVERY digest is below 2⁶⁴ -/
def D64 : DigestFn 2 := ⟨fun p => [p.2 / 10 % 2 ^ 64, p.2 % 10], fun _ => rfl⟩

theorem D64_lt : ∀ p, ∀ h ∈ D64.dg p, h < 2 ^ 64 := by
  intro p h hh
  have : h = p.2 / 10 % 2 ^ 64 ∨ h = p.2 % 10 := by simpa [D64] using hh
  rcases this with rfl | rfl
  · exact Nat.mod_lt _ (by decide)
  · have := Nat.mod_lt p.2 (show 0 < 10 by decide)
    omega

theorem selem_ok (n w : Nat) (hn : n < 100) : SElemOk T0 2 D64 ⟨k n, v w, 20⟩ := by
  refine ⟨⟨?_, ?_, ?_⟩, ?_, ?_, ?_⟩
  · show [n / 10, n % 10] = [n / 10 % 2 ^ 64, n % 10]
    rw [Nat.mod_eq_of_lt (a := n / 10) (b := 2 ^ 64) (Nat.lt_of_lt_of_le (show n / 10 < 100 by omega) (by decide))]
  · show 1 ≤ 9; decide
  · show 9 ≤ maxInlineMapKey 256; decide
  · show 1 ≤ 10; decide
  · show 10 ≤ maxInlineMapValue 256 9; decide
  · show 20 = singleElementPrefixSize + 9 + 10; decide

theorem grp_inv : ElemsInv T0 2 D64 1 1 [1] grp := by
  rw [elemsInv_succ_iff]
  refine ⟨rfl, rfl, rfl, by decide, by decide, ?_⟩
  intro i hk el hi hel
  match i with
  | 0 =>
    simp only [grp, IterExample.grp, List.getElem?_cons_zero, Option.some.injEq] at hi hel
    subst hi; subst hel
    exact ⟨selem_ok 11 1 (by decide), rfl⟩
  | 1 =>
    simp only [grp, IterExample.grp, List.getElem?_cons_succ, List.getElem?_cons_zero, Option.some.injEq] at hi hel
    subst hi; subst hel
    exact ⟨selem_ok 12 3 (by decide), rfl⟩
  | n + 2 => simp [grp, IterExample.grp] at hi

theorem root_elems_inv : ElemsInv T0 2 D64 2 0 [] rootElems := by
  rw [elemsInv_succ_iff]
  refine ⟨rfl, rfl, rfl, by decide, by decide, ?_⟩
  intro i hk el hi hel
  match i with
  | 0 =>
    simp only [rootElems, IterExample.rootElems, List.getElem?_cons_zero, Option.some.injEq] at hi hel
    subst hi; subst hel
    exact ⟨grp_inv, by decide, rfl, fun _ => by decide⟩
  | 1 =>
    simp only [rootElems, IterExample.rootElems, List.getElem?_cons_succ, List.getElem?_cons_zero, Option.some.injEq] at hi hel
    subst hi; subst hel
    exact ⟨selem_ok 25 2 (by decide), rfl⟩
  | n + 2 => simp [rootElems, IterExample.rootElems] at hi

/-- NON-VACUITY of `melsOf_top` (and, through the inline collision group, of `melsOf_inner`): the
    first level of the root slab of `IterExample.map3` (T = 256, two digest levels, one inline
    collision group of two keys and one single element) meets every hypothesis with the flat
    renderer and 64-bit digests. -/
theorem top_example :
    (Codec.melsOf Stor.ofElem 2 rootElems).size = 110 ∧ (Codec.melsOf Stor.ofElem 2 rootElems).RTI ∧
    (Codec.melsOf Stor.ofElem 2 rootElems).noCompact :=
  melsOf_top (T := T0) (r := 1) (D := D64) (by decide) D64_lt reOK_ofElem rootElems root_elems_inv (by decide)
    (by decide) (by decide) (by intro id sz g hm; simp [rootElems, IterExample.rootElems] at hm)

/-- the same first level with the collision group moved to an EXTERNAL group slab (ID `(1, 7)`) -/
def rootElemsX : HkeyElems (MElems 1) :=
  { hkeys := [1, 2],
    elems := [.ext ⟨1, 7⟩ (externalCollisionGroupPrefixSize + slabIDStorableSize)
                ⟨⟨⟨1, 7⟩, mapDataSlabPrefixSize + 64, 1⟩, IterExample.grp⟩, .single IterExample.x25],
    size := hkeyElementsPrefixSize +
      ((externalCollisionGroupPrefixSize + slabIDStorableSize + digestSize) + (20 + digestSize)),
    level := 0 }

theorem rootX_inv : ElemsInv T0 2 D64 2 0 [] rootElemsX := by
  rw [elemsInv_succ_iff]
  refine ⟨rfl, rfl, rfl, by decide, by decide, ?_⟩
  intro i hk el hi hel
  match i with
  | 0 =>
    simp only [rootElemsX, List.getElem?_cons_zero, Option.some.injEq] at hi hel
    subst hi; subst hel
    exact ⟨rfl, rfl, rfl, rfl, rfl, grp_inv, by decide, rfl⟩
  | 1 =>
    simp only [rootElemsX, List.getElem?_cons_succ, List.getElem?_cons_zero, Option.some.injEq] at hi hel
    subst hi; subst hel
    exact ⟨selem_ok 25 2 (by decide), rfl⟩
  | n + 2 => simp [rootElemsX] at hi

/-- NON-VACUITY of `melsOf_top` with an external collision group, and of `melsOf_group` on the
    elements of its slab -/
theorem topX_example :
    ((Codec.melsOf Stor.ofElem 2 rootElemsX).size = rootElemsX.size ∧ (Codec.melsOf Stor.ofElem 2 rootElemsX).RTI ∧
      (Codec.melsOf Stor.ofElem 2 rootElemsX).noCompact) ∧
    ((Codec.melsOf Stor.ofElem 1 grp).size = 64 ∧ (Codec.melsOf Stor.ofElem 1 grp).RTI ∧
      (Codec.melsOf Stor.ofElem 1 grp).noCompact) :=
  ⟨melsOf_top (T := T0) (r := 1) (D := D64) (by decide) D64_lt reOK_ofElem rootElemsX rootX_inv (by decide)
    (by decide) (by decide) (by
      intro id sz g hm
      simp only [rootElemsX, List.mem_cons, MElemF.ext.injEq, List.not_mem_nil, or_false, reduceCtorEq] at hm
      obtain ⟨rfl, _, _⟩ := hm
      decide),
   melsOf_group (T := T0) (r := 1) (D := D64) (by decide) D64_lt reOK_ofElem 1 grp grp_inv (by decide) (by decide)
    (by decide) (by decide)⟩

end Example

end Atree.WC
