import AtreeProofs.WorldCodec.MapSlab
import AtreeProofs.Map.Example
/-
  NON-VACUITY of `AtreeProofs/WorldCodec/MapSlab.lean`: a concrete world (T = 256, four digest
  levels) with a STANDALONE MAP `Mid` of three keys — two of them collide at the first digest level
  and live in an EXTERNAL collision-group slab `Gid`; the value of the third is an ARRAY `Aid`
  INLINED in the map's root slab behind one wrapper — meets every hypothesis of `map_tree_goal`
  (and so of `mdataOf_ok`, `groupOf_ok`); the side conditions `Side` / `GroupFit` of its two slabs
  hold, so both translated slabs meet `OKAll`.
-/
namespace Atree.WC.MapExample
open Atree Atree.Codec Gen World

def T0 : Nat := 256

/-- digests: the decimal digits of the payload (first digest cut to 64 bits) -/
def D4 : DigestFn 4 := ⟨fun p => [p.2 / 10 % 2 ^ 64, p.2 % 10, p.2 % 10, p.2 % 10], fun _ => rfl⟩

theorem D4_lt : ∀ p, ∀ h ∈ D4.dg p, h < 2 ^ 64 := by
  intro p h hh
  have : h = p.2 / 10 % 2 ^ 64 ∨ h = p.2 % 10 := by
    simp only [D4, List.mem_cons, List.not_mem_nil, or_false] at hh
    rcases hh with h | h | h | h <;> simp [h]
  rcases this with rfl | rfl
  · exact Nat.mod_lt _ (by decide)
  · have := Nat.mod_lt p.2 (show 0 < 10 by decide)
    omega

def k (n : Nat) : MKey := ⟨9, n, D4.dg (9, n)⟩
def pv (n : Nat) : Elem := ⟨10, .val n⟩

def Mid : SlabID := ⟨1, 1⟩
def Gid : SlabID := ⟨1, 2⟩
def Aid : SlabID := ⟨1, 3⟩

/-- the inlined array: one plain value -/
def arrSlab : DataSlab :=
  { hdr := ⟨Aid, inlinedArrayDataSlabPrefixSize + 10, 1⟩, next := SlabID.undef, elems := [pv 4], root := true,
    inlined := true }
def inlArr : Arr := ⟨0, arrSlab, 7⟩

/-- the element of the map that refers to it: the embedded root slab behind one wrapper -/
def cv : Elem := ⟨inlinedArrayDataSlabPrefixSize + 10 + 2, .ref Aid⟩

def x11 : SElem := ⟨k 11, pv 1, 20⟩
def x12 : SElem := ⟨k 12, pv 3, 20⟩
def x25 : SElem := ⟨k 25, cv, 39⟩

def grpE : HkeyElems (MElems 2) := { hkeys := [1, 2], elems := [.single x11, .single x12], size := 64, level := 1 }
def gslab : GroupSlab (MElems 3) := ⟨⟨Gid, mapDataSlabPrefixSize + 64, 1⟩, grpE⟩

def rootE : HkeyElems (MElems 3) :=
  { hkeys := [1, 2],
    elems := [.ext Gid (externalCollisionGroupPrefixSize + slabIDStorableSize) gslab, .single x25],
    size := hkeyElementsPrefixSize +
      ((externalCollisionGroupPrefixSize + slabIDStorableSize + digestSize) + (39 + digestSize)),
    level := 0 }

def rootSlab : MDataSlab 3 :=
  { hdr := ⟨Mid, mapRootDataSlabPrefixSize + rootE.size, 1⟩, next := SlabID.undef, elems := rootE, root := true,
    inlined := false }

def m0 : OMap 3 := ⟨0, rootSlab, 5, 3, 0⟩

/-- an INLINED map (`Nid`) whose two keys live in an external collision-group slab (`Hid`) -/
def Nid : SlabID := ⟨1, 4⟩
def Hid : SlabID := ⟨1, 5⟩
def hslab : GroupSlab (MElems 3) := ⟨⟨Hid, mapDataSlabPrefixSize + 64, 1⟩, grpE⟩
def inlE : HkeyElems (MElems 3) :=
  { hkeys := [1], elems := [.ext Hid (externalCollisionGroupPrefixSize + slabIDStorableSize) hslab],
    size := hkeyElementsPrefixSize + (externalCollisionGroupPrefixSize + slabIDStorableSize + digestSize),
    level := 0 }
def inlSlab : MDataSlab 3 :=
  { hdr := ⟨Nid, inlinedMapDataSlabPrefixSize + inlE.size, 1⟩, next := SlabID.undef, elems := inlE, root := true,
    inlined := true }
def m1 : OMap 3 := ⟨0, inlSlab, 6, 2, 0⟩

def w0 : World := { T := T0, addr := 1, conts := [(Mid, .map m0), (Aid, .arr inlArr), (Nid, .map m1)] }

/-! ### the map invariant -/

theorem selem_ok (n : Nat) (v : Elem) (sz : Nat) (hv1 : 1 ≤ v.size) (hv2 : v.size ≤ maxInlineMapValue 256 9)
    (hsz : sz = singleElementPrefixSize + 9 + v.size) : SElemOk T0 4 D4 ⟨k n, v, sz⟩ :=
  ⟨⟨rfl, (by decide : 1 ≤ 9), (by decide : 9 ≤ maxInlineMapKey 256)⟩, hv1, hv2, hsz⟩

theorem grp_inv : ElemsInv T0 4 D4 3 1 [1] grpE := by
  rw [elemsInv_succ_iff]
  refine ⟨rfl, rfl, rfl, by decide, by decide, ?_⟩
  intro i hk el hi hel
  match i with
  | 0 =>
    simp only [grpE, List.getElem?_cons_zero, Option.some.injEq] at hi hel
    subst hi; subst hel
    exact ⟨selem_ok 11 (pv 1) 20 (by decide) (by decide) (by decide), by decide⟩
  | 1 =>
    simp only [grpE, List.getElem?_cons_succ, List.getElem?_cons_zero, Option.some.injEq] at hi hel
    subst hi; subst hel
    exact ⟨selem_ok 12 (pv 3) 20 (by decide) (by decide) (by decide), by decide⟩
  | n + 2 => simp [grpE] at hi

theorem root_inv : ElemsInv T0 4 D4 4 0 [] rootE := by
  rw [elemsInv_succ_iff]
  refine ⟨rfl, rfl, rfl, by decide, by decide, ?_⟩
  intro i hk el hi hel
  match i with
  | 0 =>
    simp only [rootE, List.getElem?_cons_zero, Option.some.injEq] at hi hel
    subst hi; subst hel
    exact ⟨rfl, rfl, rfl, by decide, by decide, grp_inv, by decide, by decide⟩
  | 1 =>
    simp only [rootE, List.getElem?_cons_succ, List.getElem?_cons_zero, Option.some.injEq] at hi hel
    subst hi; subst hel
    exact ⟨selem_ok 25 cv 39 (by decide) (by decide) (by decide), by decide⟩
  | n + 2 => simp [rootE] at hi

theorem inl_inv : ElemsInv T0 4 D4 4 0 [] inlE := by
  rw [elemsInv_succ_iff]
  refine ⟨rfl, rfl, rfl, by decide, by decide, ?_⟩
  intro i hk el hi hel
  match i with
  | 0 =>
    simp only [inlE, List.getElem?_cons_zero, Option.some.injEq] at hi hel
    subst hi; subst hel
    exact ⟨rfl, rfl, rfl, by decide, by decide, grp_inv, by decide, by decide⟩
  | n + 1 => simp [inlE] at hi

theorem data_inv : MDataInv T0 D4 true rootSlab where
  elems_inv := root_inv
  size_eq := by decide
  first_eq := by decide
  root_eq := rfl
  inl_root := fun _ => rfl
  le_max := by decide
  ge_min := fun h => by cases h
  nonempty := fun h => by cases h
  elem_le := by decide

theorem map_inv : MapInv w0.T D4 m0 where
  tree := (mtreeInv_zero_iff T0 D4 true rootSlab).mpr data_inv
  chain := rfl
  count_eq := by decide
  distinct := by
    unfold KeysDistinct
    rw [show m0.toList = [(k 11, pv 1), (k 12, pv 3), (k 25, cv)] from rfl]
    decide
  standalone := rfl

/-! ### the world -/

theorem cont_cases {x : SlabID} {c : Cont} (h : w0.cont? x = some c) :
    (x = Mid ∧ c = .map m0) ∨ (x = Aid ∧ c = .arr inlArr) ∨ (x = Nid ∧ c = .map m1) := by
  simp only [World.cont?, w0, AList.find?] at h
  split at h
  · rename_i hx
    exact Or.inl ⟨hx.symm, by cases h; rfl⟩
  · split at h
    · rename_i hx
      exact Or.inr (Or.inl ⟨hx.symm, by cases h; rfl⟩)
    · split at h
      · rename_i hx
        exact Or.inr (Or.inr ⟨hx.symm, by cases h; rfl⟩)
      · cases h

theorem good_plain (n : Nat) (hn : n < 256) : Good w0 (pv n) := by
  refine ⟨⟨(by decide : 1 ≤ 10), fun x c h => by cases h⟩, fun _ => ?_⟩
  simp only [validElem, pv]
  exact ⟨by decide, by decide, by decide, Nat.lt_of_lt_of_le hn (by decide)⟩

theorem good_cv : Good w0 cv := by
  refine ⟨⟨by decide, ?_⟩, ?_⟩
  · intro x c hx hc
    rcases cont_cases hc with ⟨rfl, _⟩ | ⟨_, rfl⟩ | ⟨rfl, _⟩
    · cases hx
    · exact ⟨1, rfl⟩
    · cases hx
  · intro h
    have : w0.cont? Aid = none := h Aid rfl
    exact absurd this (by decide)

theorem env : Env w0 where
  live := by
    intro x c h
    rcases cont_cases h with ⟨rfl, _⟩ | ⟨rfl, _⟩ | ⟨rfl, _⟩ <;> exact ⟨by decide, by decide⟩
  arrInl := by
    intro x a h _
    rcases cont_cases h with ⟨_, hc⟩ | ⟨_, hc⟩ | ⟨_, hc⟩
    · cases hc
    · cases hc
      refine ⟨arrSlab, 7, rfl, rfl, ?_, by decide, by decide, by decide⟩
      intro e he
      have : e = pv 4 := by simpa [arrSlab] using he
      subst this
      exact good_plain 4 (by decide)
    · cases hc
  mapInl := by
    intro x m h hi
    rcases cont_cases h with ⟨_, hc⟩ | ⟨_, hc⟩ | ⟨_, hc⟩
    · cases hc; cases hi
    · cases hc
    · cases hc
      refine ⟨inlSlab, 6, 2, 0, rfl, rfl, ?_, by decide, by decide, by decide, by decide, by decide, ?_⟩
      · intro v hv
        simp [inlSlab, inlE, C10Persist.localVals] at hv
      · intro re V hV hre
        exact melsOf_top (T := T0) (r := 3) (D := D4) (by decide) D4_lt
          ⟨fun v hv => (hre v hv).1, fun v hv => (hre v hv).2.1, fun v hv => (hre v hv).2.2⟩ inlE inl_inv
          (by decide) hV (by decide) (by
            intro id sz g hm
            simp only [inlE, List.mem_cons, MElemF.ext.injEq, List.not_mem_nil, or_false] at hm
            obtain ⟨rfl, _, _⟩ := hm
            decide)

theorem toList_eq : m0.toList = [(k 11, pv 1), (k 12, pv 3), (k 25, cv)] := by rfl

/-- NON-VACUITY of `map_tree_goal`: every hypothesis holds of the map `m0` of the world `w0` -/
theorem tree_goal : ∀ p ∈ (Cont.map m0).treeSlabs, SlabGoal w0 p.1 p.2 := by
  refine map_tree_goal env (by decide) D4_lt m0 map_inv (by decide) (by decide) (by decide) (by decide) (by decide)
    ?_ ?_
  · intro v hv
    rw [toList_eq] at hv
    simp only [List.map_cons, List.map_nil, List.mem_cons, List.not_mem_nil, or_false] at hv
    rcases hv with rfl | rfl | rfl
    · exact good_plain 1 (by decide)
    · exact good_plain 3 (by decide)
    · exact good_cv
  · intro kv hkv
    rw [toList_eq] at hkv
    simp only [List.mem_cons, List.not_mem_nil, or_false] at hkv
    rcases hkv with rfl | rfl | rfl <;> decide

theorem treeSlabs_eq : (Cont.map m0).treeSlabs =
    [(Mid, WSlab.map (.data rootSlab) (some (5, 3, 0))), (Gid, WSlab.map (.group gslab) none)] := by rfl

/-- the decidable side conditions of both slabs hold -/
theorem side_root : Side (WSlab.toCodec w0.stor (WSlab.map (.data rootSlab) (some (5, 3, 0)))) := by decide
theorem side_grp : Side (WSlab.toCodec w0.stor (WSlab.map (.group gslab) none)) := by decide
theorem fit_grp : (WSlab.map (.group gslab) none).GroupFit := by decide

/-- the value of key 25 really is rendered as an inlined array behind one wrapper -/
theorem stor_cv : w0.stor cv = .some (.arr (.plain 7) 3 [.val 10 4]) := by rfl

/-- so both translated slabs meet the predicates of the codec theorems, with the sizes of the model -/
theorem both_ok :
    (OKAll (WSlab.toCodec w0.stor (WSlab.map (.data rootSlab) (some (5, 3, 0)))) ∧
      (WSlab.toCodec w0.stor (WSlab.map (.data rootSlab) (some (5, 3, 0)))).byteSize = 86) ∧
    (OKAll (WSlab.toCodec w0.stor (WSlab.map (.group gslab) none)) ∧
      (WSlab.toCodec w0.stor (WSlab.map (.group gslab) none)).byteSize = 82) := by
  have h1 := tree_goal (Mid, _) (by rw [treeSlabs_eq]; exact List.mem_cons_self) side_root trivial
  have h2 := tree_goal (Gid, _) (by rw [treeSlabs_eq]; exact List.mem_cons_of_mem _ List.mem_cons_self) side_grp fit_grp
  exact ⟨⟨h1.1, h1.2.2.1.trans (by decide)⟩, ⟨h2.1, h2.2.2.1.trans (by decide)⟩⟩

/-! ### the inlined map -/

theorem mapInl_inv : MapInvInl w0.T D4 m1 5 :=
  ⟨inlSlab, 6, 2, 0, rfl, rfl, rfl, rfl, inl_inv, rfl, by decide, by decide, by decide⟩

/-- NON-VACUITY of `mapInl_goal`: the inlined map `m1` of `w0` owns one slab (the external
    collision group `Hid`), which meets the goal -/
theorem inl_goal : ∀ p ∈ (Cont.map m1).slabs, SlabGoal w0 p.1 p.2 := by
  refine mapInl_goal env D4_lt m1 5 mapInl_inv (by decide) ?_ ?_
  · intro v hv
    rw [show m1.toList = [(k 11, pv 1), (k 12, pv 3)] from rfl] at hv
    simp only [List.map_cons, List.map_nil, List.mem_cons, List.not_mem_nil, or_false] at hv
    rcases hv with rfl | rfl
    · exact good_plain 1 (by decide)
    · exact good_plain 3 (by decide)
  · intro kv hkv
    rw [show m1.toList = [(k 11, pv 1), (k 12, pv 3)] from rfl] at hkv
    simp only [List.mem_cons, List.not_mem_nil, or_false] at hkv
    rcases hkv with rfl | rfl <;> decide

theorem inl_slabs_eq : (Cont.map m1).slabs = [(Hid, WSlab.map (.group hslab) none)] := by rfl

theorem inl_ok : OKAll (WSlab.toCodec w0.stor (WSlab.map (.group hslab) none)) :=
  (inl_goal (Hid, _) (by rw [inl_slabs_eq]; exact List.mem_cons_self) (by decide) (by decide)).1

end Atree.WC.MapExample

/-! ### an index slab: the root of the multi-slab example map of C02 / C05 (`AtreeProofs/Map/Example.lean`,
    two digest levels, obtained by running the model) -/
namespace Atree.WC.IndexExample
open Atree Atree.Codec Gen Atree.MapExample

def root1 : MMetaSlab (MTree 1 0) :=
  match run.1 with
  | ⟨1, r, _, _, _⟩ => r
  | _ => ⟨default, [], [], false⟩

theorem run_eq : run.1 = ⟨1, root1, run.1.ty, run.1.count, run.1.seed⟩ := by rfl

theorem root1_inv : MTreeInv 256 D2 1 true root1 := by
  have h := run_good.inv.tree
  rw [run_eq] at h
  exact h

theorem D2_lt : ∀ p, ∀ h ∈ D2.dg p, h < 2 ^ 64 := by
  intro p h hh
  have : h = p.2 / 100 % 10 ∨ h = p.2 / 10 % 10 := by simpa [D2] using hh
  rcases this with rfl | rfl
  · have := Nat.mod_lt (p.2 / 100) (show 0 < 10 by decide); omega
  · have := Nat.mod_lt (p.2 / 10) (show 0 < 10 by decide); omega

/-- NON-VACUITY of `mindex_ok`: the root index slab of the example map, with the map's extra data -/
theorem index_ok :
    MapMetaOK { id := root1.hdr.id, extra := some ⟨.plain 0, 18, 1⟩, childHdrs := root1.childHdrs.map mchildHdrOf } ∧
      (MapMeta.mk root1.hdr.id (some ⟨.plain 0, 18, 1⟩) (root1.childHdrs.map mchildHdrOf)).size = root1.hdr.size :=
  mindex_ok legal256 D2_lt 0 true root1 root1_inv (by decide) (by decide) _ (by
    intro y hy
    cases hy
    exact ⟨by decide, by decide, by decide⟩)

theorem index_children : root1.children.length = 2 := by decide

end Atree.WC.IndexExample
