import AtreeProofs.WorldCodec.StorOk
import AtreeProofs.WorldCodec.SlabOk
import AtreeProofs.WorldCodec.Link
import AtreeProofs.WorldCodec.Goal
import AtreeProofs.WorldCodec.MElsOf
import AtreeProofs.WorldCodec.ArrSlab
import AtreeProofs.World.HeapCont
/-
  EVERY SLAB OF A MAP OF A WORLD, translated by `WSlab.toCodec`, meets the codec predicates
  (`OKAll`): map data slabs whose values are plain values, references, wrapped references and
  INLINED CHILDREN at any depth (`mdataOf`), external collision-group slabs (`groupOf`) and index
  slabs (`.mindex`).  The analogue, for maps, of `AtreeProofs/WorldCodec/ArrSlab.lean`; the flat
  special case is `AtreeProofs/E2EMap/BytesStored.lean` (`mdata_ok`, `mtree_ok`, `mstored_ok`).

  * `mdataOf_ok`    — one data slab of the tree of a standalone map;
  * `groupOf_ok`    — one external collision-group slab;
  * `mindex_ok`     — one index slab (`MapMetaOK`);
  * `map_tree_goal` — every slab of the tree of a standalone map meets `SlabGoal` (`map_slabs_goal`:
                      the same over `Cont.slabs`);
  * `mapInl_goal`   — every slab an INLINED map owns (its external collision-group slabs) meets `SlabGoal`.

  "Local values / keys of a slab are values / keys of `toList`" is PROVED here (`local_sub_toList`,
  for data slabs and group slabs), so `map_tree_goal` / `mapInl_goal` take goodness of the values and
  validity of the keys of `m.toList`, not per-slab hypotheses.  The ID hypotheses are phrased over
  `Cont.treeIds` (pairwise different; 64-bit address and index) — what `World.HeapOk` gives (`nodup`,
  `addr`, `below`) with a 64-bit world address and allocation counter.  `Nodup` is needed to know
  that only the root slab carries the extra data (`Cont.treeSlabs` attaches it by comparing IDs).
  Non-vacuity: `AtreeProofs/WorldCodec/MapSlabExample.lean`.
-/
namespace Atree.WC
open Atree Atree.Codec Gen World
open Atree.C10Persist (localVals)

/-! ### the renderer of the world -/

/-- `World.stor` keeps the size of, and renders as round-trippable storables without compact maps,
    the good elements of the world -/
theorem reOK_stor {w : World} (E : Env w) : ReOK w.stor (Good w) :=
  ⟨fun v hv => (stor_ok E v hv).1, fun v hv => (stor_ok E v hv).2.1, fun v hv => (stor_ok E v hv).2.2⟩

/-! ### 1. one data slab -/

/-- A DATA SLAB of the tree of a standalone map of the world: its translation meets the codec
    predicates, reports the size the model keeps in the header, and carries its own ID. -/
theorem mdataOf_ok {w : World} (E : Env w) (hT : legalThreshold w.T = true) {D : DigestFn 4}
    (hD : ∀ p, ∀ h ∈ D.dg p, h < 2 ^ 64)
    (s : MDataSlab 3) (top : Bool) (hd : MDataInv w.T D top s) (hni : s.inlined = false)
    (hv : ∀ v ∈ C10Persist.localVals 4 s.elems, Good w v)
    (hk : ∀ k ∈ localKeys 4 s.elems, validElem ⟨k.size, .val k.pay⟩)
    (hids : ∀ id sz g, MElemF.ext id sz g ∈ s.elems.elems → id.addr < 2 ^ 64 ∧ id.idx < 2 ^ 64)
    (hnext : validNext s.next) (hrn : top = true → s.next = SlabID.undef)
    (x : Option MapExtra) (hx : x.isSome = top) (hxv : ∀ y, x = some y → validMapExtra y)
    (hside : Side (mdataOf w.stor x s)) :
    OKAll (mdataOf w.stor x s) ∧ RootNoNext (mdataOf w.stor x s) ∧
      (mdataOf w.stor x s).byteSize = s.hdr.size ∧ (mdataOf w.stor x s).id = s.hdr.id := by
  have hmx := thr_le' hT
  have hle := hd.le_max
  have hse := hd.size_eq
  have hps : s.prefixSize = if top then mapRootDataSlabPrefixSize else mapDataSlabPrefixSize := by
    simp only [MDataSlab.prefixSize, hni, hd.root_eq, Bool.false_eq_true, if_false]
  have hsz : s.elems.size ≤ 49152 := by omega
  obtain ⟨m1, m2, m3⟩ := melsOf_top (T := w.T) (r := 3) (D := D) (by decide) hD (reOK_stor E) s.elems
    hd.elems_inv hsz hv hk hids
  have hsize : (MapData.mk s.hdr.id s.next x (melsOf w.stor 4 s.elems) false false).size = s.hdr.size := by
    simp only [MapData.size, m1, hse, hps, hx]
    cases top <;> simp [versionAndFlagSize, mapRootDataSlabPrefixSize, mapDataSlabPrefixSize, SlabIDLength] <;> omega
  unfold mdataOf at hside ⊢
  refine ⟨⟨m2, m3, hside.1, hside.2, hnext, hxv, ?_⟩, ?_, hsize, rfl⟩
  · rw [hsize]; simp only [maxUint32]; omega
  · intro hr
    exact hrn (by rw [← hx]; exact hr)

/-! ### 2. one external collision-group slab -/

/-- AN EXTERNAL COLLISION-GROUP SLAB (of a standalone or of an inlined map): from the clauses
    `ElemsInv` gives for the element `.ext id sz g` that refers to it (`hinv`, `hc`, `hsize`), the
    field-width assumption `WSlab.GroupFit` (`hfit`), good local values and valid local keys. -/
theorem groupOf_ok {w : World} (E : Env w) {T : Nat} {D : DigestFn 4} (hD : ∀ p, ∀ h ∈ D.dg p, h < 2 ^ 64)
    (g : GroupSlab (MElems 3)) (hk0 : Nat)
    (hinv : ElemsInv T 4 D 3 1 [hk0] g.elems) (hc : 1 ≤ (MElems.ops 3).count g.elems)
    (hsize : g.hdr.size = mapDataSlabPrefixSize + (MElems.ops 3).size g.elems)
    (hfit : E2EM.Fit 3 g.elems ∧ g.hdr.size ≤ maxUint32)
    (hv : ∀ v ∈ C10Persist.localVals 3 g.elems, Good w v)
    (hk : ∀ k ∈ localKeys 3 g.elems, validElem ⟨k.size, .val k.pay⟩)
    (hside : Side (groupOf w.stor none g)) :
    OKAll (groupOf w.stor none g) ∧ RootNoNext (groupOf w.stor none g) ∧
      (groupOf w.stor none g).byteSize = g.hdr.size ∧ (groupOf w.stor none g).id = g.hdr.id := by
  obtain ⟨m1, m2, m3⟩ := melsOf_inner (T := T) (L := 4) (D := D) (by decide) hD (reOK_stor E) 3 1 [hk0] g.elems
    hinv (Nat.le_refl 1) rfl hc hfit.1 hv hk
  have hsz : (MapData.mk g.hdr.id SlabID.undef none (melsOf w.stor 3 g.elems) true true).size = g.hdr.size := by
    simp only [MapData.size, m1, hsize, versionAndFlagSize, mapDataSlabPrefixSize, SlabIDLength]
    simp
    omega
  unfold groupOf at hside ⊢
  refine ⟨⟨m2, m3, hside.1, hside.2, E2E.validNext_undef, ?_, ?_⟩, ?_, hsz, rfl⟩
  · intro y hy; cases hy
  · rw [hsz]; exact hfit.2
  · intro hr; cases hr

/-! ### 3. one index slab -/

/-- the first-level digests of a subtree are digests of keys, hence below 2⁶⁴ -/
theorem digests0_lt {r T : Nat} {D : DigestFn (r + 1)} (hD : ∀ p, ∀ h ∈ D.dg p, h < 2 ^ 64) :
    ∀ (d : Nat) (top : Bool) (t : MTree r d), MTreeInv T D d top t → ∀ h ∈ MTree.digests0 d t, h < 2 ^ 64
  | 0, top, (s : MDataSlab r), hinv, h, hh => by
    rw [E2EM.mdigests0_zero] at hh
    exact E2EM.hkeys_lt hD r 0 [] s.elems ((mtreeInv_zero_iff T D top s).mp hinv).elems_inv rfl h hh
  | d + 1, top, (m : MMetaSlab (MTree r d)), hinv, h, hh => by
    obtain ⟨hm, _⟩ := (mtreeInv_succ_iff T D d top m).mp hinv
    rw [E2EM.mdigests0_succ] at hh
    obtain ⟨c, hc, hhc⟩ := List.mem_flatMap.1 hh
    exact digests0_lt hD d false c (hm.2.2.2.2.1 c hc) h hhc

/-- AN INDEX SLAB of the tree of a standalone map: from `MTreeInv` and the 64-bit widths of the
    slab's address and of the children's slab indices, `MapMetaOK`; the codec's size is the size in
    the header. -/
theorem mindex_ok {r T : Nat} {D : DigestFn (r + 1)} (hT : legalThreshold T = true)
    (hD : ∀ p, ∀ h ∈ D.dg p, h < 2 ^ 64) (d : Nat) (top : Bool) (m : MMetaSlab (MTree r d))
    (hinv : MTreeInv T D (d + 1) top m) (haddr : m.hdr.id.addr < 2 ^ 64)
    (hcids : ∀ c ∈ m.children, (MTree.hdr d c).id.idx < 2 ^ 64)
    (x : Option MapExtra) (hxv : ∀ y, x = some y → validMapExtra y) :
    MapMetaOK { id := m.hdr.id, extra := x, childHdrs := m.childHdrs.map mchildHdrOf } ∧
      (MapMeta.mk m.hdr.id x (m.childHdrs.map mchildHdrOf)).size = m.hdr.size := by
  obtain ⟨hm, hmax, _, _⟩ := (mtreeInv_succ_iff T D d top m).mp hinv
  obtain ⟨_, m2, m3, _, m5, m6, m7, _⟩ := hm
  have hmx := thr_le' hT
  have hlen : (m.childHdrs.map mchildHdrOf).length = m.children.length := by
    rw [List.length_map, m2, List.length_map]
  refine ⟨⟨haddr, ?_, ?_, hxv⟩, ?_⟩
  · intro ch hch
    simp only at hch ⊢
    obtain ⟨h0, hh0, rfl⟩ := List.mem_map.1 hch
    rw [m2] at hh0
    obtain ⟨c, hc, rfl⟩ := List.mem_map.1 hh0
    refine ⟨m6 c hc, hcids c hc, ?_, ?_⟩
    · show (MTree.hdr d c).firstKey < 2 ^ 64
      rw [m7 c hc]
      exact E2EM.headD_lt (digests0_lt hD d false c (m5 c hc))
    · show (MTree.hdr d c).size < 65536
      have := E2EM.hdr_size_le d false c (m5 c hc)
      omega
  · show (m.childHdrs.map mchildHdrOf).length < 65536
    rw [hlen]
    simp only [mapMetaDataSlabPrefixSize, mapSlabHeaderSize] at m3
    omega
  · simp only [MapMeta.size]
    rw [hlen, m3]

/-! ### 4. the tree -/

/-- what is assumed of a stored key / value pair: the value is a good element of the world, the key
    a value of the harness -/
def KVGood (w : World) (p : MKey × Elem) : Prop := Good w p.2 ∧ validElem ⟨p.1.size, .val p.1.pay⟩

/-- the values / keys stored locally in `elements` are values / keys of its pair list -/
theorem local_sub_toList : ∀ (r : Nat) (e : MElems r),
    (∀ v ∈ C10Persist.localVals r e, ∃ p ∈ (MElems.ops r).toList e, p.2 = v) ∧
    (∀ k ∈ localKeys r e, ∃ p ∈ (MElems.ops r).toList e, p.1 = k)
  | 0, (se : SingleElems) => by
    constructor
    · intro v hv
      rw [localVals_zero] at hv
      obtain ⟨x, hx, rfl⟩ := List.mem_map.1 hv
      exact ⟨(x.key, x.val), by rw [E2EM.ops_toList_zero]; exact List.mem_map.2 ⟨x, hx, rfl⟩, rfl⟩
    · intro k hk
      rw [localKeys_zero] at hk
      obtain ⟨x, hx, rfl⟩ := List.mem_map.1 hk
      exact ⟨(x.key, x.val), by rw [E2EM.ops_toList_zero]; exact List.mem_map.2 ⟨x, hx, rfl⟩, rfl⟩
  | r + 1, (he : HkeyElems (MElems r)) => by
    constructor
    · intro v hv
      obtain ⟨el, hel, hv'⟩ := List.mem_flatMap.1 hv
      cases el with
      | single x =>
        have : v = x.val := by simpa using hv'
        subst this
        exact ⟨(x.key, x.val), by
          rw [E2EM.ops_toList_succ]; exact List.mem_flatMap.2 ⟨_, hel, by simp [MElemF.toList]⟩, rfl⟩
      | inl g =>
        obtain ⟨p, hp, rfl⟩ := (local_sub_toList r g).1 v hv'
        exact ⟨p, by rw [E2EM.ops_toList_succ]; exact List.mem_flatMap.2 ⟨_, hel, hp⟩, rfl⟩
      | ext id sz s => cases hv'
    · intro k hk
      obtain ⟨el, hel, hk'⟩ := List.mem_flatMap.1 hk
      cases el with
      | single x =>
        have : k = x.key := by simpa using hk'
        subst this
        exact ⟨(x.key, x.val), by
          rw [E2EM.ops_toList_succ]; exact List.mem_flatMap.2 ⟨_, hel, by simp [MElemF.toList]⟩, rfl⟩
      | inl g =>
        obtain ⟨p, hp, rfl⟩ := (local_sub_toList r g).2 k hk'
        exact ⟨p, by rw [E2EM.ops_toList_succ]; exact List.mem_flatMap.2 ⟨_, hel, hp⟩, rfl⟩
      | ext id sz s => cases hk'

theorem localVals_good {w : World} {r : Nat} {e : MElems r} (h : ∀ p ∈ (MElems.ops r).toList e, KVGood w p) :
    ∀ v ∈ C10Persist.localVals r e, Good w v := by
  intro v hv
  obtain ⟨p, hp, rfl⟩ := (local_sub_toList r e).1 v hv
  exact (h p hp).1

theorem localKeys_valid {w : World} {r : Nat} {e : MElems r} (h : ∀ p ∈ (MElems.ops r).toList e, KVGood w p) :
    ∀ k ∈ localKeys r e, validElem ⟨k.size, .val k.pay⟩ := by
  intro k hk
  obtain ⟨p, hp, rfl⟩ := (local_sub_toList r e).2 k hk
  exact (h p hp).2

/-- the extra data of the World model (type, count, seed), 64 bits each -/
theorem validMapExtra_mxOf (x : Option (Nat × Nat × Nat)) (hxo : E2EM.XOk x) : ∀ y, mxOf x = some y → validMapExtra y := by
  intro y hy
  cases x with
  | none => cases hy
  | some p =>
    simp only [mxOf, Option.map_some, Option.some.injEq] at hy
    subst hy
    exact hxo

theorem mxOf_isSome (x : Option (Nat × Nat × Nat)) : (mxOf x).isSome = x.isSome := by
  cases x <;> rfl

/-- THE EXTERNAL COLLISION-GROUP SLABS referenced from the first level of a data slab (standalone or
    the root of an inlined map) meet the goal. -/
theorem groups_goal {w : World} (E : Env w) {T : Nat} {D : DigestFn 4} (hD : ∀ p, ∀ h ∈ D.dg p, h < 2 ^ 64)
    (s : MDataSlab 3) (hinv : ElemsInv T 4 D 4 0 [] s.elems)
    (hkv : ∀ p ∈ HkeyElems.toList (MElems.ops 3) s.elems, KVGood w p) :
    ∀ p ∈ s.groupSlabs, SlabGoal w p.1 (WSlab.map p.2 none) := by
  intro p hp
  unfold MDataSlab.groupSlabs at hp
  obtain ⟨el, hel, hpe⟩ := List.mem_filterMap.1 hp
  cases el with
  | single x => cases hpe
  | inl g => cases hpe
  | ext id sz gs =>
    simp only [Option.some.injEq] at hpe
    subst hpe
    obtain ⟨_, _, h3, _, _, h6⟩ := hinv
    obtain ⟨i, hkd, e1, e2⟩ := idx_of_mem h3 hel
    obtain ⟨_, _, e3, e4, _, e6, e7, _⟩ := h6 i hkd _ e1 e2
    have hsub : ∀ q ∈ (MElems.ops 3).toList gs.elems, KVGood w q := by
      intro q hq
      apply hkv
      exact List.mem_flatMap.2 ⟨_, hel, hq⟩
    intro hside hfit
    have := groupOf_ok E hD gs hkd e6 e7 e4 hfit (localVals_good hsub) (localKeys_valid hsub) hside
    exact ⟨this.1, this.2.1, this.2.2.1, this.2.2.2.trans e3⟩

/-- A DATA SLAB of the tree with its extra data (present for the root) meets the goal. -/
theorem data_goal {w : World} (E : Env w) (hT : legalThreshold w.T = true) {D : DigestFn 4}
    (hD : ∀ p, ∀ h ∈ D.dg p, h < 2 ^ 64) (s : MDataSlab 3) (top : Bool) (hd : MDataInv w.T D top s)
    (hni : s.inlined = false) (hkv : ∀ p ∈ MTree.toList 0 s, KVGood w p)
    (hids : ∀ id ∈ AList.keys (MTree.slabs 0 s), id.addr < 2 ^ 64 ∧ id.idx < 2 ^ 64)
    (hnext : validNext s.next) (hrn : top = true → s.next = SlabID.undef)
    (x : Option (Nat × Nat × Nat)) (hx : x.isSome = top) (hxo : E2EM.XOk x) :
    SlabGoal w s.hdr.id (WSlab.map (.data s) x) := by
  intro hside _
  have hkv' : ∀ p ∈ (MElems.ops 4).toList s.elems, KVGood w p := hkv
  refine mdataOf_ok E hT hD s top hd hni (localVals_good hkv') (localKeys_valid hkv') ?_ hnext hrn (mxOf x)
    (by rw [mxOf_isSome, hx]) (validMapExtra_mxOf x hxo) hside
  intro id sz g hel
  apply hids
  rw [mslabs_zero, keys_cons']
  apply List.mem_cons_of_mem
  rw [keys_groupSlabs]
  exact List.mem_filterMap.2 ⟨_, hel, rfl⟩

/-- AN INDEX SLAB of the tree with its extra data (present for the root) meets the goal. -/
theorem index_goal {w : World} (hT : legalThreshold w.T = true) {D : DigestFn 4}
    (hD : ∀ p, ∀ h ∈ D.dg p, h < 2 ^ 64) (d : Nat) (top : Bool) (m : MMetaSlab (MTree 3 d))
    (hinv : MTreeInv w.T D (d + 1) top m)
    (hids : ∀ id ∈ AList.keys (MTree.slabs (d + 1) m), id.addr < 2 ^ 64 ∧ id.idx < 2 ^ 64)
    (x : Option (Nat × Nat × Nat)) (hxo : E2EM.XOk x) :
    SlabGoal w m.hdr.id (WSlab.map (.index m.hdr m.childHdrs m.root) x) := by
  intro _ _
  have hroot := hids m.hdr.id (by rw [mslabs_succ, keys_cons']; exact List.mem_cons_self)
  obtain ⟨h1, h2⟩ := mindex_ok hT hD d top m hinv hroot.1 (fun c hc => (hids _ (by
      rw [mslabs_succ, keys_cons']
      apply List.mem_cons_of_mem
      obtain ⟨v, hv⟩ := (mem_keys_iff _ _).1 (hdr_id_mem_keys d c)
      exact mem_keys_of_mem (List.mem_flatMap.2 ⟨c, hc, hv⟩))).2) (mxOf x) (validMapExtra_mxOf x hxo)
  exact ⟨h1, trivial, h2, rfl⟩

/-- EVERY SLAB OF A NON-ROOT SUBTREE meets the goal (no extra data anywhere). -/
theorem subtree_goal {w : World} (E : Env w) (hT : legalThreshold w.T = true) {D : DigestFn 4}
    (hD : ∀ p, ∀ h ∈ D.dg p, h < 2 ^ 64) :
    ∀ (d : Nat) (t : MTree 3 d), MTreeInv w.T D d false t →
      (∀ p ∈ MTree.toList d t, KVGood w p) →
      (∀ id ∈ AList.keys (MTree.slabs d t), id.addr < 2 ^ 64 ∧ id.idx < 2 ^ 64) →
      (∀ s ∈ MTree.leaves d t, validNext s.next) →
      ∀ p ∈ MTree.slabs d t, SlabGoal w p.1 (WSlab.map p.2 none)
  | 0, (s : MDataSlab 3), hinv, hkv, hids, hnx, p, hp => by
    have hd := (mtreeInv_zero_iff w.T D false s).mp hinv
    rw [mslabs_zero] at hp
    rcases List.mem_cons.1 hp with rfl | hp
    · exact data_goal E hT hD s false hd (treeInl_of_nontop 0 s hinv) hkv hids
        (hnx s (by rw [E2EM.mleaves_zero]; simp)) (fun h => by cases h) none rfl trivial
    · exact groups_goal E hD s hd.elems_inv hkv p hp
  | d + 1, (m : MMetaSlab (MTree 3 d)), hinv, hkv, hids, hnx, p, hp => by
    obtain ⟨hm, _⟩ := (mtreeInv_succ_iff w.T D d false m).mp hinv
    rw [mslabs_succ] at hp
    rcases List.mem_cons.1 hp with rfl | hp
    · exact index_goal hT hD d false m hinv hids none trivial
    · obtain ⟨c, hc, hpc⟩ := List.mem_flatMap.1 hp
      refine subtree_goal E hT hD d c (hm.2.2.2.2.1 c hc)
        (fun q hq => hkv q (by rw [E2EM.mtoList_succ]; exact List.mem_flatMap.2 ⟨c, hc, hq⟩))
        (fun id hid => hids id ?_)
        (fun s hs => hnx s (by rw [E2EM.mleaves_succ]; exact List.mem_flatMap.2 ⟨c, hc, hs⟩)) p hpc
      rw [mslabs_succ, keys_cons']
      apply List.mem_cons_of_mem
      obtain ⟨v, hv⟩ := (mem_keys_iff _ id).1 hid
      exact mem_keys_of_mem (List.mem_flatMap.2 ⟨c, hc, hv⟩)

/-- THE TREE OF A STANDALONE MAP: every slab of `(Cont.map m).treeSlabs` meets the goal.
    Hypotheses: the map invariant; the slab IDs of the tree are pairwise different (`HeapOk.nodup`)
    and 64 bits wide (`HeapOk.addr` / `HeapOk.below` with a 64-bit address and counter); 64-bit
    type info, count, seed, digests; good values and valid keys. -/
theorem map_tree_goal {w : World} (E : Env w) (hT : legalThreshold w.T = true) {D : DigestFn 4}
    (hD : ∀ p, ∀ h ∈ D.dg p, h < 2 ^ 64) (m : OMap 3) (hinv : MapInv w.T D m)
    (hnd : (Cont.map m).treeIds.Nodup)
    (hids : ∀ id ∈ (Cont.map m).treeIds, id.addr < 2 ^ 64 ∧ id.idx < 2 ^ 64)
    (hty : m.ty < 2 ^ 64) (hcnt : m.count < 2 ^ 64) (hseed : m.seed < 2 ^ 64)
    (hval : ∀ v ∈ m.toList.map (·.2), Good w v)
    (hkey : ∀ kv ∈ m.toList, validElem ⟨kv.1.size, .val kv.1.pay⟩) :
    ∀ p ∈ (Cont.map m).treeSlabs, SlabGoal w p.1 p.2 := by
  have hkv : ∀ p ∈ MTree.toList m.d m.root, KVGood w p :=
    fun p hp => ⟨hval p.2 (List.mem_map.2 ⟨p, hp, rfl⟩), hkey p hp⟩
  rw [Cont.treeIds_map] at hnd hids
  have hnx : ∀ s ∈ MTree.leaves m.d m.root, validNext s.next := by
    apply E2EM.mchain_nexts _ hinv.chain
    intro s hs
    exact hids _ (E2EM.mleaf_id_mem m.d m.root s hs)
  have hinl : treeInl m.d m.root = false := by
    have := hinv.standalone
    obtain ⟨d, root, ty, cnt, seed⟩ := m
    rw [← isInlined_eq d root ty cnt seed]; exact this
  have htree := hinv.tree
  have hchain := hinv.chain
  have hxo : E2EM.XOk (some (m.ty, m.count, m.seed)) := ⟨hty, hcnt, hseed⟩
  intro p hp
  simp only [Cont.treeSlabs] at hp
  obtain ⟨q, hq, rfl⟩ := List.mem_map.1 hp
  simp only
  have hrid : m.rootID = (MTree.hdr m.d m.root).id := rfl
  rw [mslabs_eq] at hq hnd
  rw [keys_cons'] at hnd
  have hnotin := (List.nodup_cons.1 hnd).1
  rcases List.mem_cons.1 hq with rfl | hsub
  · -- the root slab
    rw [if_pos hrid.symm]
    simp only
    obtain ⟨d, root, ty, cnt, seed⟩ := m
    cases d with
    | zero =>
      have key : ∀ s : MDataSlab 3, MTreeInv w.T D 0 true s → treeInl 0 s = false →
          MLeafChain (MTree.leaves 0 s) → (∀ p ∈ MTree.toList 0 s, KVGood w p) →
          (∀ id ∈ AList.keys (MTree.slabs 0 s), id.addr < 2 ^ 64 ∧ id.idx < 2 ^ 64) →
          (∀ l ∈ MTree.leaves 0 s, validNext l.next) →
          SlabGoal w (MTree.hdr 0 s).id (WSlab.map (ment 0 s) (some (ty, cnt, seed))) := by
        intro s h1 h2 h3 h4 h5 h6
        exact data_goal E hT hD s true ((mtreeInv_zero_iff w.T D true s).mp h1) h2 h4 h5
          (h6 s (by rw [E2EM.mleaves_zero]; simp)) (fun _ => h3) _ rfl hxo
      exact key root htree hinl hchain hkv hids hnx
    | succ d =>
      have key : ∀ mm : MMetaSlab (MTree 3 d), MTreeInv w.T D (d + 1) true mm →
          (∀ id ∈ AList.keys (MTree.slabs (d + 1) mm), id.addr < 2 ^ 64 ∧ id.idx < 2 ^ 64) →
          SlabGoal w (MTree.hdr (d + 1) mm).id (WSlab.map (ment (d + 1) mm) (some (ty, cnt, seed))) := by
        intro mm h1 h5
        exact index_goal hT hD d true mm h1 h5 _ hxo
      exact key root htree hids
  · -- below the root slab: no extra data
    have hne : ¬ q.1 = m.rootID := by
      intro he
      rw [hrid] at he
      have hmem := mem_keys_of_mem hsub
      rw [he] at hmem
      exact hnotin hmem
    rw [if_neg hne]
    obtain ⟨d, root, ty, cnt, seed⟩ := m
    cases d with
    | zero =>
      have key : ∀ s : MDataSlab 3, MTreeInv w.T D 0 true s → (∀ p ∈ MTree.toList 0 s, KVGood w p) →
          q ∈ msub 0 s → SlabGoal w q.1 (WSlab.map q.2 none) := by
        intro s h1 h4 h7
        exact groups_goal E hD s ((mtreeInv_zero_iff w.T D true s).mp h1).elems_inv h4 q h7
      exact key root htree hkv hsub
    | succ d =>
      have key : ∀ mm : MMetaSlab (MTree 3 d), MTreeInv w.T D (d + 1) true mm →
          (∀ p ∈ MTree.toList (d + 1) mm, KVGood w p) →
          (∀ id ∈ AList.keys (MTree.slabs (d + 1) mm), id.addr < 2 ^ 64 ∧ id.idx < 2 ^ 64) →
          (∀ l ∈ MTree.leaves (d + 1) mm, validNext l.next) →
          q ∈ msub (d + 1) mm → SlabGoal w q.1 (WSlab.map q.2 none) := by
        intro mm h1 h4 h5 h6 h7
        obtain ⟨hm, _⟩ := (mtreeInv_succ_iff w.T D d true mm).mp h1
        rw [msub_succ] at h7
        obtain ⟨c, hc, hqc⟩ := List.mem_flatMap.1 h7
        refine subtree_goal E hT hD d c (hm.2.2.2.2.1 c hc)
          (fun x hx => h4 x (by rw [E2EM.mtoList_succ]; exact List.mem_flatMap.2 ⟨c, hc, hx⟩))
          (fun id hid => h5 id ?_)
          (fun l hl => h6 l (by rw [E2EM.mleaves_succ]; exact List.mem_flatMap.2 ⟨c, hc, hl⟩)) q hqc
        rw [mslabs_succ, keys_cons']
        apply List.mem_cons_of_mem
        obtain ⟨v, hv⟩ := (mem_keys_iff _ id).1 hid
        exact mem_keys_of_mem (List.mem_flatMap.2 ⟨c, hc, hv⟩)
      exact key root htree hkv hids hnx hsub

/-- the same for the slabs the standalone map owns in storage (`Cont.slabs` = its whole tree) -/
theorem map_slabs_goal {w : World} (E : Env w) (hT : legalThreshold w.T = true) {D : DigestFn 4}
    (hD : ∀ p, ∀ h ∈ D.dg p, h < 2 ^ 64) (m : OMap 3) (hinv : MapInv w.T D m)
    (hnd : (Cont.map m).treeIds.Nodup)
    (hids : ∀ id ∈ (Cont.map m).treeIds, id.addr < 2 ^ 64 ∧ id.idx < 2 ^ 64)
    (hty : m.ty < 2 ^ 64) (hcnt : m.count < 2 ^ 64) (hseed : m.seed < 2 ^ 64)
    (hval : ∀ v ∈ m.toList.map (·.2), Good w v)
    (hkey : ∀ kv ∈ m.toList, validElem ⟨kv.1.size, .val kv.1.pay⟩) :
    ∀ p ∈ (Cont.map m).slabs, SlabGoal w p.1 p.2 := by
  have hst : (Cont.map m).isInlined = false := hinv.standalone
  rw [Cont.slabs_of_standalone hst]
  exact map_tree_goal E hT hD m hinv hnd hids hty hcnt hseed hval hkey

/-- THE SLABS AN INLINED MAP OWNS (its external collision-group slabs; the root slab is embedded in
    the slab of the parent) meet the goal. -/
theorem mapInl_goal {w : World} (E : Env w) {D : DigestFn 4} (hD : ∀ p, ∀ h ∈ D.dg p, h < 2 ^ 64)
    (m : OMap 3) (ctr : Nat) (hinv : MapInvInl w.T D m ctr)
    (hnd : (Cont.map m).treeIds.Nodup)
    (hval : ∀ v ∈ m.toList.map (·.2), Good w v)
    (hkey : ∀ kv ∈ m.toList, validElem ⟨kv.1.size, .val kv.1.pay⟩) :
    ∀ p ∈ (Cont.map m).slabs, SlabGoal w p.1 p.2 := by
  obtain ⟨s, ty, cnt, seed, rfl, _, hi, _, hel, _⟩ := hinv
  have hkv : ∀ p ∈ HkeyElems.toList (MElems.ops 3) s.elems, KVGood w p :=
    fun p hp => ⟨hval p.2 (List.mem_map.2 ⟨p, hp, rfl⟩), hkey p hp⟩
  rw [Cont.treeIds_map] at hnd
  have hnd' : (AList.keys (MTree.slabs 0 s)).Nodup := hnd
  rw [mslabs_zero, keys_cons'] at hnd'
  have hnotin := (List.nodup_cons.1 hnd').1
  have hinl : (Cont.map ⟨0, s, ty, cnt, seed⟩).isInlined = true := hi
  intro p hp
  rw [Cont.slabs_of_inlined hinl] at hp
  have hts : (Cont.map ⟨0, s, ty, cnt, seed⟩).treeSlabs.tail = s.groupSlabs.map (fun p =>
      (p.1, WSlab.map p.2 (if p.1 = s.hdr.id then some (ty, cnt, seed) else none))) := by
    simp only [Cont.treeSlabs]
    rw [show MTree.slabs 0 s = (s.hdr.id, MSlabView.data s) :: s.groupSlabs from rfl]
    rfl
  rw [hts] at hp
  obtain ⟨q, hq, rfl⟩ := List.mem_map.1 hp
  have hne : ¬ q.1 = s.hdr.id := by
    intro he
    have hmem := mem_keys_of_mem hq
    rw [he] at hmem
    exact hnotin hmem
  simp only [if_neg hne]
  exact groups_goal E hD s hel hkv q hq

end Atree.WC
