import AtreeProofs.WorldCodec.StorOk
import AtreeProofs.WorldCodec.SlabOk
import AtreeProofs.WorldCodec.Link
import AtreeProofs.WorldCodec.Goal
import AtreeProofs.WorldCodec.MElsOf
import AtreeProofs.WorldCodec.ArrSlab
import AtreeProofs.World.HeapCont
/-
  EVERY SLAB OF A MAP OF A WORLD, translated by `WSlab.toCodec`, meets the codec predicates
  (`OKAll`): map data slabs whose values are plain values, references, wrapped references and
  INLINED CHILDREN at any depth (`mdataOf`), external collision-group slabs (`groupOf`) and index
  slabs (`.mindex`).  The analogue, for maps, of `AtreeProofs/WorldCodec/ArrSlab.lean`; the flat
  special case is `AtreeProofs/E2EMap/BytesStored.lean` (`mdata_ok`, `mtree_ok`, `mstored_ok`).

  * `mdataOf_ok`    — one data slab of the tree of a standalone map;
  * `groupOf_ok`    — one external collision-group slab;
  * `mindex_ok`     — one index slab (`MapMetaOK`);
  * `map_tree_goal` — every slab of the tree of a standalone map meets `SlabGoal`;
  * `mapInl_goal`   — every slab an INLINED map owns (its external collision-group slabs) meets `SlabGoal`.
-/
namespace Atree.WC
open Atree Atree.Codec Gen World
open Atree.C10Persist (localVals)

/-! ### the renderer of the world -/

/-- `World.stor` keeps the size of, and renders as round-trippable storables without compact maps,
    the good elements of the world -/
theorem reOK_stor {w : World} (E : Env w) : ReOK w.stor (Good w) :=
  ⟨fun v hv => (stor_ok E v hv).1, fun v hv => (stor_ok E v hv).2.1, fun v hv => (stor_ok E v hv).2.2⟩

/-! ### 1. one data slab -/

/-- A DATA SLAB of the tree of a standalone map of the world: its translation meets the codec
    predicates, reports the size the model keeps in the header, and carries its own ID. -/
theorem mdataOf_ok {w : World} (E : Env w) (hT : legalThreshold w.T = true) {D : DigestFn 4}
    (hD : ∀ p, ∀ h ∈ D.dg p, h < 2 ^ 64)
    (s : MDataSlab 3) (top : Bool) (hd : MDataInv w.T D top s) (hni : s.inlined = false)
    (hv : ∀ v ∈ C10Persist.localVals 4 s.elems, Good w v)
    (hk : ∀ k ∈ localKeys 4 s.elems, validElem ⟨k.size, .val k.pay⟩)
    (hids : ∀ id sz g, MElemF.ext id sz g ∈ s.elems.elems → id.addr < 2 ^ 64 ∧ id.idx < 2 ^ 64)
    (hnext : validNext s.next) (hrn : top = true → s.next = SlabID.undef)
    (x : Option MapExtra) (hx : x.isSome = top) (hxv : ∀ y, x = some y → validMapExtra y)
    (hside : Side (mdataOf w.stor x s)) :
    OKAll (mdataOf w.stor x s) ∧ RootNoNext (mdataOf w.stor x s) ∧
      (mdataOf w.stor x s).byteSize = s.hdr.size ∧ (mdataOf w.stor x s).id = s.hdr.id := by
  have hmx := thr_le' hT
  have hle := hd.le_max
  have hse := hd.size_eq
  have hps : s.prefixSize = if top then mapRootDataSlabPrefixSize else mapDataSlabPrefixSize := by
    simp only [MDataSlab.prefixSize, hni, hd.root_eq, Bool.false_eq_true, if_false]
  have hsz : s.elems.size ≤ 49152 := by omega
  obtain ⟨m1, m2, m3⟩ := melsOf_top (T := w.T) (r := 3) (D := D) (by decide) hD (reOK_stor E) s.elems
    hd.elems_inv hsz hv hk hids
  have hsize : (MapData.mk s.hdr.id s.next x (melsOf w.stor 4 s.elems) false false).size = s.hdr.size := by
    simp only [MapData.size, m1, hse, hps, hx]
    cases top <;> simp [versionAndFlagSize, mapRootDataSlabPrefixSize, mapDataSlabPrefixSize, SlabIDLength] <;> omega
  unfold mdataOf at hside ⊢
  refine ⟨⟨m2, m3, hside.1, hside.2, hnext, hxv, ?_⟩, ?_, hsize, rfl⟩
  · rw [hsize]; simp only [maxUint32]; omega
  · intro hr
    exact hrn (by rw [← hx]; exact hr)

/-! ### 2. one external collision-group slab -/

/-- AN EXTERNAL COLLISION-GROUP SLAB (of a standalone or of an inlined map): from the clauses
    `ElemsInv` gives for the element `.ext id sz g` that refers to it (`hinv`, `hc`, `hsize`), the
    field-width assumption `WSlab.GroupFit` (`hfit`), good local values and valid local keys. -/
theorem groupOf_ok {w : World} (E : Env w) {T : Nat} {D : DigestFn 4} (hD : ∀ p, ∀ h ∈ D.dg p, h < 2 ^ 64)
    (g : GroupSlab (MElems 3)) (hk0 : Nat)
    (hinv : ElemsInv T 4 D 3 1 [hk0] g.elems) (hc : 1 ≤ (MElems.ops 3).count g.elems)
    (hsize : g.hdr.size = mapDataSlabPrefixSize + (MElems.ops 3).size g.elems)
    (hfit : (MElems.ops 3).size g.elems < 65536)
    (hv : ∀ v ∈ C10Persist.localVals 3 g.elems, Good w v)
    (hk : ∀ k ∈ localKeys 3 g.elems, validElem ⟨k.size, .val k.pay⟩)
    (hside : Side (groupOf w.stor none g)) :
    OKAll (groupOf w.stor none g) ∧ RootNoNext (groupOf w.stor none g) ∧
      (groupOf w.stor none g).byteSize = g.hdr.size ∧ (groupOf w.stor none g).id = g.hdr.id := by
  obtain ⟨m1, m2, m3⟩ := melsOf_group (T := T) (r := 3) (D := D) (by decide) hD (reOK_stor E) hk0 g.elems
    hinv hc hfit hv hk
  have hsz : (MapData.mk g.hdr.id SlabID.undef none (melsOf w.stor 3 g.elems) true true).size = g.hdr.size := by
    simp only [MapData.size, m1, hsize, versionAndFlagSize, mapDataSlabPrefixSize, SlabIDLength]
    simp
    omega
  unfold groupOf at hside ⊢
  refine ⟨⟨m2, m3, hside.1, hside.2, E2E.validNext_undef, ?_, ?_⟩, ?_, hsz, rfl⟩
  · intro y hy; cases hy
  · rw [hsz, hsize]; simp only [maxUint32, mapDataSlabPrefixSize]; omega
  · intro hr; cases hr

end Atree.WC
