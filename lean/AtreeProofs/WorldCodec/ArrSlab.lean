import AtreeProofs.WorldCodec.StorOk
import AtreeProofs.WorldCodec.SlabOk
import AtreeProofs.WorldCodec.Link
import AtreeProofs.WorldCodec.Goal
import AtreeProofs.E2E.Bytes
import AtreeProofs.Props.C06
/-
  EVERY SLAB OF A STANDALONE ARRAY OF A WORLD, translated by `WSlab.toCodec`, meets the codec
  predicates (`OKAll`): data slabs whose elements are plain values, references, wrapped references
  and INLINED CHILDREN at any depth (`dataSlabOf`: kinds `data` / `adata`), and index slabs.
-/
namespace Atree.WC
open Atree Atree.Codec Gen World ATree

/-! ### `mapM` over `Option` -/

theorem mapM_some_all {α β : Type} (f : α → Option β) : ∀ (l : List α) (r : List β), l.mapM f = some r →
    ∀ x ∈ l, (f x).isSome
  | [], _, _, x, hx => by cases hx
  | a :: l, r, h, x, hx => by
    rw [List.mapM_cons] at h
    cases ha : f a with
    | none => rw [ha] at h; cases h
    | some b =>
      rw [ha] at h
      cases hl : l.mapM f with
      | none => rw [hl] at h; cases h
      | some bs =>
        rcases List.mem_cons.1 hx with rfl | hx
        · rw [ha]; rfl
        · exact mapM_some_all f l bs hl x hx

theorem mapM_none_ex {α β : Type} (f : α → Option β) : ∀ (l : List α), l.mapM f = none → ∃ x ∈ l, f x = none
  | [], h => by simp at h
  | a :: l, h => by
    rw [List.mapM_cons] at h
    cases ha : f a with
    | none => exact ⟨a, List.mem_cons_self .., ha⟩
    | some b =>
      rw [ha] at h
      cases hl : l.mapM f with
      | none =>
        obtain ⟨x, hx, hf⟩ := mapM_none_ex f l hl
        exact ⟨x, List.mem_cons_of_mem _ hx, hf⟩
      | some bs => rw [hl] at h; cases h

theorem toElem?_none_iff (s : Stor) : s.toElem? = none ↔ s.isFlat = false := by
  cases s <;> simp [Stor.toElem?, Stor.isFlat]

theorem wrapN_flat {k : Nat} {s : Stor} (h : (wrapN k s).isFlat = true) : k = 0 := by
  cases k with
  | zero => rfl
  | succ k => simp [wrapN, Stor.isFlat] at h

/-- a flat storable comes from a valid flat element -/
theorem flat_valid {w : World} (E : Env w) (e : Elem) (hg : Good w e) (hf : (w.stor e).isFlat = true) :
    validElem e := by
  obtain ⟨hs, hl⟩ := hg
  rcases stor_cases e hs with ⟨p, hp, _⟩ | ⟨x, hx, hc, _⟩ | ⟨x, c, wrap, hx, hc, hi, hsz, heq⟩ | ⟨x, c, wrap, hx, hc, hi, hsz, heq⟩
  · exact hl (fun x hx => by rw [hp] at hx; cases hx)
  · exact hl (fun y hy => by rw [hx] at hy; cases hy; exact hc)
  · rw [heq] at hf
    have := wrapN_flat hf
    subst this
    obtain ⟨sz, pay⟩ := e
    simp only at hx hsz
    subst hx
    simp only [validElem]
    exact ⟨by omega, E.live x c hc⟩
  · rw [heq] at hf
    have := wrapN_flat hf
    subst this
    cases c with
    | arr a =>
      obtain ⟨s, ty, rfl, _⟩ := (E.arrInl x a hc hi).shape
      simp [wrapN, contStor, Stor.isFlat] at hf
    | map m =>
      obtain ⟨s, ty, cnt, seed, rfl, _⟩ := (E.mapInl x m hc hi).shape
      simp [wrapN, contStor, Stor.isFlat] at hf

/-! ### one data slab -/

theorem thr_le' {T : Nat} (hT : legalThreshold T = true) : maxThr T ≤ 49152 := by
  have F := thrFacts hT
  rw [F.maxE]; have := F.hi; omega

/-- A DATA SLAB of a standalone array of the world: its translation meets the codec predicates,
    reports the size the model keeps in the header, and carries its own ID. -/
theorem dataSlabOf_ok {w : World} (E : Env w) (hT : legalThreshold w.T = true) (s : DataSlab) (top : Bool)
    (hd : DataInv w.T top s) (hni : s.inlined = false) (hg : ∀ e ∈ s.elems, Good w e)
    (hnext : validNext s.next) (hrn : top = true → s.next = SlabID.undef)
    (ty : Option TyInfo) (hty : ty.isSome = top) (htyv : ∀ t, ty = some t → validTy t)
    (hside : Side (dataSlabOf w.stor ty s)) :
    OKAll (dataSlabOf w.stor ty s) ∧ RootNoNext (dataSlabOf w.stor ty s) ∧
      (dataSlabOf w.stor ty s).byteSize = s.hdr.size ∧ (dataSlabOf w.stor ty s).id = s.hdr.id := by
  obtain ⟨h16a, h16b⟩ := C06.no_uint16_truncation w.T hT top s hd
  have hmx := thr_le' hT
  have hle := hd.le_max
  unfold dataSlabOf at hside ⊢
  cases hm : (s.elems.map w.stor).mapM Stor.toElem? with
  | some flat =>
    simp only [hm]
    refine ⟨⟨⟨?_, h16b, hni, hd.count_eq, hd.size_eq, by omega, hnext, ?_⟩, ?_⟩, ?_, rfl, rfl⟩
    · intro e he
      have := mapM_some_all _ _ _ hm (w.stor e) (List.mem_map.2 ⟨e, he, rfl⟩)
      apply flat_valid E e (hg e he)
      cases hst : w.stor e <;> simp [hst, Stor.toElem?, Stor.isFlat] at this ⊢
    · intro hr
      cases ty with
      | none => rw [hd.root_eq] at hr; rw [← hty] at hr; cases hr
      | some t => exact htyv t rfl
    · rw [hd.root_eq, ← hty]
    · intro hr
      exact hrn (by rw [← hd.root_eq]; exact hr)
  | none =>
    simp only [hm] at hside ⊢
    have hok : ∀ e ∈ s.elems, (w.stor e).size = e.size ∧ (w.stor e).RTI ∧ (w.stor e).noCompact :=
      fun e he => stor_ok E e (hg e he)
    have hrt : rtiSts (s.elems.map w.stor) := rtiSts_map _ _ (fun e he => (hok e he).2.1)
    have hnc : noCompactSts (s.elems.map w.stor) := noCompactSts_map _ _ (fun e he => (hok e he).2.2)
    have hsz : sizeSts (s.elems.map w.stor) = sumSizes s.elems := sizeSts_map _ _ (fun e he => (hok e he).1)
    have hsize : (ArrData.mk s.hdr.id s.next ty (s.elems.map w.stor)).size = s.hdr.size := by
      simp only [ArrData.size, hsz, hd.size_eq, DataSlab.prefixSize, hni, hd.root_eq, ← hty]
      cases ty <;> simp
    have hcount : (s.elems.map w.stor).length < 65536 := by rw [List.length_map]; exact h16b
    refine ⟨?_, ?_, hsize, rfl⟩
    · by_cases hn : noInlSts (s.elems.map w.stor)
      · refine Or.inr ⟨hrt, hn, ?_, hside.1, hcount, hnext, htyv, by rw [hsize]; simp only [maxUint32]; omega⟩
        obtain ⟨x, hx, hf⟩ := mapM_none_ex _ _ hm
        exact ⟨x, hx, (toElem?_none_iff x).1 hf⟩
      · exact Or.inl ⟨hrt, hnc, hside.1, hcount, encSts_inl_ne_nil _ [] hrt hnc XOK.nil hn, hside.2, hnext, htyv,
          by rw [hsize]; simp only [maxUint32]; omega⟩
    · intro hr
      simp only at hr
      exact hrn (by rw [← hty]; exact hr)

/-! ### the tree -/

theorem tyOf_eq (ty : Option Nat) : tyOf ty = E2E.tyInfo ty := rfl

/-- EVERY SLAB OF A SUBTREE of a standalone array of the world meets its goal (the induction of
    `E2E.tree_ok`, with general elements). -/
theorem atree_goal {w : World} (E : Env w) (hT : legalThreshold w.T = true) (addr ctr : Nat) (haddr : addr < 2 ^ 64)
    (hctr : ctr < 2 ^ 64) :
    ∀ (d : Nat) (top : Bool) (t : ATree d) (ty : Option Nat),
      TreeInv w.T d top t → NotInl d t → ty.isSome = top → (∀ n, ty = some n → n < 2 ^ 64) →
      (∀ e ∈ flatten d t, Good w e) → IdsOk addr ctr (slabIds d t) →
      (hdr d t).count < 2 ^ 32 → (∀ s ∈ Arr.leaves d t, validNext s.next) →
      (∀ s : DataSlab, top = true → Arr.leaves d t = [s] → s.next = SlabID.undef) →
      SlabGoal w (hdr d t).id (.arr (ent d t) ty) ∧ ∀ p ∈ sub d t, SlabGoal w p.1 (.arr p.2 none)
  | 0, top, t, ty, hinv, hni, hty, htyb, hel, hids, hcnt, hnx, hrn => by
    revert hinv hni hel hids hcnt hnx hrn; refine forall_ofData ?_ t; intro s hinv hni hel hids hcnt hnx hrn
    have hd : DataInv w.T top s := (treeInv_zero w.T top s).1 hinv
    refine ⟨?_, by intro p hp; cases hp⟩
    intro hside _
    exact dataSlabOf_ok E hT s top hd hni (fun e he => hel e (by simpa using he)) (hnx s (by simp))
      (fun ht => hrn s ht rfl) (tyOf ty) (by rw [← hty]; cases ty <;> rfl)
      (fun t' ht' => by
        cases ty with
        | none => cases ht'
        | some n => simp only [tyOf, Option.map_some, Option.some.injEq] at ht'; subst ht'; exact htyb n rfl)
      hside
  | d + 1, top, t, ty, hinv, _, hty, htyb, hel, hids, hcnt, hnx, _ => by
    revert hinv hel hids hcnt hnx; refine forall_ofMeta ?_ t; intro m hinv hel hids hcnt hnx
    obtain ⟨hs, hmax, _, _⟩ := (treeInv_succ w.T d top m).1 hinv
    have F := thrFacts hT
    have hlen : m.childHdrs.length = m.children.length := hs.hdrs_length
    have hksz := hs.kids_of_size
    have hmx : maxThr w.T ≤ 49152 := thr_le' hT
    have hidm := hids.2 m.hdr.id (by simp)
    constructor
    · intro _ _
      refine ⟨?_, trivial, rfl, rfl⟩
      show SlabOK (.index (tyOf ty) ⟨m.hdr, m.childHdrs, m.countSum, [], m.root⟩)
      refine ⟨⟨by rw [hidm.1]; exact haddr, ?_, (by show m.childHdrs.length < 65536; omega),
        hs.sums_eq, ?_, ?_, ?_, rfl, ?_⟩, ?_⟩
      · intro h hh
        rw [hs.hdrs_eq, List.mem_map] at hh
        obtain ⟨c, hc, rfl⟩ := hh
        have hidc := hids.2 (hdr d c).id (by
          simp only [slabIds_succ, List.mem_cons, List.mem_flatMap]
          exact Or.inr ⟨c, hc, hdr_id_mem_slabIds d c⟩)
        refine ⟨hs.kids_addr c hc, by omega, ?_, ?_⟩
        · have := E2E.count_le_sumCounts m.children c hc
          have h2 : m.hdr.count = MetaSlab.sumCounts (m.children.map (hdr d)) := by
            rw [hs.count_eq, hs.hdrs_eq]
          simp only [hdr_succ] at hcnt
          omega
        · have := TreeInv.le_max (hs.kids_inv c hc); omega
      · show m.hdr.count = m.countSum.getLastD 0
        rw [hs.sums_eq, MetaSlab.prefixSums_getLastD, hs.count_eq]; simp
      · show MetaSlab.sumCounts m.childHdrs ≤ 4294967295
        have : m.hdr.count = MetaSlab.sumCounts m.childHdrs := hs.count_eq
        simp only [hdr_succ] at hcnt
        omega
      · show m.hdr.size = arrayMetaDataSlabPrefixSize + arraySlabHeaderSize * m.childHdrs.length
        rw [hlen]; exact hs.size_eq
      · intro hr
        cases ty with
        | none => rw [hs.root_eq] at hr; rw [← hty] at hr; cases hr
        | some n => exact htyb n rfl
      · show (tyOf ty).isSome = m.root
        rw [hs.root_eq, ← hty]; cases ty <;> rfl
    · intro p hp
      simp only [sub_succ, List.mem_flatMap] at hp
      obtain ⟨c, hc, hpc⟩ := hp
      have hcnt' : (hdr d c).count < 2 ^ 32 := by
        have := E2E.count_le_sumCounts m.children c hc
        have h2 : m.hdr.count = MetaSlab.sumCounts (m.children.map (hdr d)) := by
          rw [hs.count_eq, hs.hdrs_eq]
        simp only [hdr_succ] at hcnt
        omega
      have hidsc : IdsOk addr ctr (slabIds d c) := by
        refine ⟨?_, fun id hid => hids.2 id (by
          simp only [slabIds_succ, List.mem_cons, List.mem_flatMap]
          exact Or.inr ⟨c, hc, hid⟩)⟩
        have hnd := hids.1
        rw [slabIds_succ] at hnd
        have hnd2 := (List.nodup_cons.1 hnd).2
        obtain ⟨A, B, hAB⟩ := List.append_of_mem hc
        rw [hAB, List.flatMap_append, List.flatMap_cons] at hnd2
        exact (List.nodup_append.1 (List.nodup_append.1 hnd2).2.1).1
      obtain ⟨g1, g2⟩ := atree_goal E hT addr ctr haddr hctr d false c none (hs.kids_inv c hc)
        (TreeInv.notInl_of_false (hs.kids_inv c hc)) rfl (fun n h => by cases h)
        (fun e he => hel e (by
          simp only [flatten_succ, List.mem_flatMap]; exact ⟨c, hc, he⟩))
        hidsc hcnt'
        (fun s hs' => hnx s (by simp only [leaves_succ, List.mem_flatMap]; exact ⟨c, hc, hs'⟩))
        (fun s h => by cases h)
      rw [slabs_eq] at hpc
      rcases List.mem_cons.1 hpc with rfl | h
      · exact g1
      · exact g2 p h

/-- EVERY SLAB OF A STANDALONE ARRAY of the world meets its goal. -/
theorem arr_tree_goal {w : World} (E : Env w) (hT : legalThreshold w.T = true) (a : Arr) (ctr : Nat)
    (hinv : ArrInv w.T a ctr) (haddr : a.addr < 2 ^ 64) (hctr : ctr < 2 ^ 64) (hty : a.ty < 2 ^ 64)
    (hg : ∀ e ∈ a.toList, Good w e) :
    ∀ p ∈ (Cont.arr a).treeSlabs, SlabGoal w p.1 p.2 := by
  obtain ⟨d, t, ty⟩ := a
  have hnx : ∀ s ∈ Arr.leaves d t, validNext s.next := by
    apply E2E.chain_nexts _ hinv.chain
    intro s hs'
    have := hinv.ids.2 s.hdr.id (E2E.leaf_id_mem d t s hs')
    have h1 : s.hdr.id.addr < 2 ^ 64 := by rw [this.1]; exact haddr
    exact ⟨h1, by omega⟩
  have hcnt : (hdr d t).count < 2 ^ 32 := by
    have := hinv.count_lt
    simp only [Arr.count, Arr.rootHdr, maxArrayElementCount] at this
    omega
  have hrn : ∀ s : DataSlab, true = true → Arr.leaves d t = [s] → s.next = SlabID.undef := by
    intro s _ hl
    have := hinv.chain
    simp only at this
    rw [hl] at this
    exact this
  obtain ⟨g1, g2⟩ := atree_goal E hT _ ctr haddr hctr d true t (some ty) hinv.tree hinv.notInl rfl
    (fun n h => by cases h; exact hty) hg hinv.ids hcnt hnx hrn
  intro p hp
  simp only [Cont.treeSlabs, List.mem_map] at hp
  obtain ⟨q, hq, rfl⟩ := hp
  rw [slabs_eq] at hq
  rcases List.mem_cons.1 hq with rfl | hq
  · simpa [Arr.rootID, Arr.rootHdr] using g1
  · have hne : q.1 ≠ (hdr d t).id := by
      have hnd := hinv.ids.1
      rw [slabIds_eq] at hnd
      have hnot := (List.nodup_cons.1 hnd).1
      intro heq
      apply hnot
      rw [← heq]
      have : q.1 ∈ AList.keys (sub d t) := mem_keys_of_mem hq
      rwa [keys_sub] at this
    simpa [Arr.rootID, Arr.rootHdr, hne] using g2 q hq

end Atree.WC
