import AtreeProofs.WorldCodec.StorOk
import AtreeProofs.WorldCodec.SlabOk
import AtreeProofs.WorldCodec.Link
import AtreeProofs.E2E.Bytes
import AtreeProofs.Props.C06
/-
  EVERY SLAB OF A STANDALONE ARRAY OF A WORLD, translated by `WSlab.toCodec`, meets the codec
  predicates (`OKAll`): data slabs whose elements are plain values, references, wrapped references
  and INLINED CHILDREN at any depth (`dataSlabOf`: kinds `data` / `adata`), and index slabs.
-/
namespace Atree.WC
open Atree Atree.Codec Gen World ATree

/-! ### `mapM` over `Option` -/

theorem mapM_some_all {α β : Type} (f : α → Option β) : ∀ (l : List α) (r : List β), l.mapM f = some r →
    ∀ x ∈ l, (f x).isSome
  | [], _, _, x, hx => by cases hx
  | a :: l, r, h, x, hx => by
    rw [List.mapM_cons] at h
    cases ha : f a with
    | none => rw [ha] at h; cases h
    | some b =>
      rw [ha] at h
      cases hl : l.mapM f with
      | none => rw [hl] at h; cases h
      | some bs =>
        rcases List.mem_cons.1 hx with rfl | hx
        · rw [ha]; rfl
        · exact mapM_some_all f l bs hl x hx

theorem mapM_none_ex {α β : Type} (f : α → Option β) : ∀ (l : List α), l.mapM f = none → ∃ x ∈ l, f x = none
  | [], h => by simp at h
  | a :: l, h => by
    rw [List.mapM_cons] at h
    cases ha : f a with
    | none => exact ⟨a, List.mem_cons_self .., ha⟩
    | some b =>
      rw [ha] at h
      cases hl : l.mapM f with
      | none =>
        obtain ⟨x, hx, hf⟩ := mapM_none_ex f l hl
        exact ⟨x, List.mem_cons_of_mem _ hx, hf⟩
      | some bs => rw [hl] at h; cases h

theorem toElem?_none_iff (s : Stor) : s.toElem? = none ↔ s.isFlat = false := by
  cases s <;> simp [Stor.toElem?, Stor.isFlat]

theorem wrapN_flat {k : Nat} {s : Stor} (h : (wrapN k s).isFlat = true) : k = 0 := by
  cases k with
  | zero => rfl
  | succ k => simp [wrapN, Stor.isFlat] at h

/-- a flat storable comes from a valid flat element -/
theorem flat_valid {w : World} (E : Env w) (e : Elem) (hg : Good w e) (hf : (w.stor e).isFlat = true) :
    validElem e := by
  obtain ⟨hs, hl⟩ := hg
  rcases stor_cases e hs with ⟨p, hp, _⟩ | ⟨x, hx, hc, _⟩ | ⟨x, c, wrap, hx, hc, hi, hsz, heq⟩ | ⟨x, c, wrap, hx, hc, hi, hsz, heq⟩
  · exact hl (fun x hx => by rw [hp] at hx; cases hx)
  · exact hl (fun y hy => by rw [hx] at hy; cases hy; exact hc)
  · rw [heq] at hf
    have := wrapN_flat hf
    subst this
    obtain ⟨sz, pay⟩ := e
    simp only at hx hsz
    subst hx
    simp only [validElem]
    exact ⟨by omega, E.live x c hc⟩
  · rw [heq] at hf
    have := wrapN_flat hf
    subst this
    cases c with
    | arr a =>
      obtain ⟨s, ty, rfl, _⟩ := (E.arrInl x a hc hi).shape
      simp [wrapN, contStor, Stor.isFlat] at hf
    | map m =>
      obtain ⟨s, ty, cnt, seed, rfl, _⟩ := (E.mapInl x m hc hi).shape
      simp [wrapN, contStor, Stor.isFlat] at hf

/-! ### one data slab -/

theorem thr_le' {T : Nat} (hT : legalThreshold T = true) : maxThr T ≤ 49152 := by
  have F := thrFacts hT
  rw [F.maxE]; have := F.hi; omega

/-- A DATA SLAB of a standalone array of the world: its translation meets the codec predicates,
    reports the size the model keeps in the header, and carries its own ID. -/
theorem dataSlabOf_ok {w : World} (E : Env w) (hT : legalThreshold w.T = true) (s : DataSlab) (top : Bool)
    (hd : DataInv w.T top s) (hni : s.inlined = false) (hg : ∀ e ∈ s.elems, Good w e)
    (hnext : validNext s.next) (hrn : top = true → s.next = SlabID.undef)
    (ty : Option TyInfo) (hty : ty.isSome = top) (htyv : ∀ t, ty = some t → validTy t)
    (hside : Side (dataSlabOf w.stor ty s)) :
    OKAll (dataSlabOf w.stor ty s) ∧ RootNoNext (dataSlabOf w.stor ty s) ∧
      (dataSlabOf w.stor ty s).byteSize = s.hdr.size ∧ (dataSlabOf w.stor ty s).id = s.hdr.id := by
  obtain ⟨h16a, h16b⟩ := C06.no_uint16_truncation w.T hT top s hd
  have hmx := thr_le' hT
  have hle := hd.le_max
  unfold dataSlabOf at hside ⊢
  cases hm : (s.elems.map w.stor).mapM Stor.toElem? with
  | some flat =>
    simp only [hm]
    refine ⟨⟨⟨?_, h16b, hni, hd.count_eq, hd.size_eq, by omega, hnext, ?_⟩, ?_⟩, ?_, rfl, rfl⟩
    · intro e he
      have := mapM_some_all _ _ _ hm (w.stor e) (List.mem_map.2 ⟨e, he, rfl⟩)
      apply flat_valid E e (hg e he)
      cases hst : w.stor e <;> simp [hst, Stor.toElem?, Stor.isFlat] at this ⊢
    · intro hr
      cases ty with
      | none => rw [hd.root_eq] at hr; rw [← hty] at hr; cases hr
      | some t => exact htyv t rfl
    · rw [hd.root_eq, ← hty]
    · intro hr
      exact hrn (by rw [← hd.root_eq]; exact hr)
  | none =>
    simp only [hm] at hside ⊢
    have hok : ∀ e ∈ s.elems, (w.stor e).size = e.size ∧ (w.stor e).RTI ∧ (w.stor e).noCompact :=
      fun e he => stor_ok E e (hg e he)
    have hrt : rtiSts (s.elems.map w.stor) := rtiSts_map _ _ (fun e he => (hok e he).2.1)
    have hnc : noCompactSts (s.elems.map w.stor) := noCompactSts_map _ _ (fun e he => (hok e he).2.2)
    have hsz : sizeSts (s.elems.map w.stor) = sumSizes s.elems := sizeSts_map _ _ (fun e he => (hok e he).1)
    have hsize : (ArrData.mk s.hdr.id s.next ty (s.elems.map w.stor)).size = s.hdr.size := by
      simp only [ArrData.size, hsz, hd.size_eq, DataSlab.prefixSize, hni, hd.root_eq, ← hty]
      cases ty <;> simp
    have hcount : (s.elems.map w.stor).length < 65536 := by rw [List.length_map]; exact h16b
    refine ⟨?_, ?_, hsize, rfl⟩
    · by_cases hn : noInlSts (s.elems.map w.stor)
      · refine Or.inr ⟨hrt, hn, ?_, hside.1, hcount, hnext, htyv, by rw [hsize]; simp only [maxUint32]; omega⟩
        obtain ⟨x, hx, hf⟩ := mapM_none_ex _ _ hm
        exact ⟨x, hx, (toElem?_none_iff x).1 hf⟩
      · exact Or.inl ⟨hrt, hnc, hside.1, hcount, encSts_inl_ne_nil _ [] hrt hnc XOK.nil hn, hside.2, hnext, htyv,
          by rw [hsize]; simp only [maxUint32]; omega⟩
    · intro hr
      simp only at hr
      exact hrn (by rw [← hty]; exact hr)

end Atree.WC
