import AtreeProofs.WorldCodec.Bytes
/-
  Histories of requests run against the storage state machine with the byte codec: the storage shows
  exactly the CODEC-LEVEL content `World.toCodec` of the world (write set, cache, ledger), for every
  history with commits - failing or not - anywhere.
-/
namespace Atree.WC
open Atree Atree.Codec Gen World St C10Persist
open Atree.C09 (newEffects newCreated)

/-- THE DEEP ACCOUNT OF EVERY REQUEST (proved in `AtreeProofs/Props/C10Deep.lean`): a slab that stays in
    the heap with the same shallow content but with a changed embedded child was stored -/
def DeepSteps (D : SlabID → DigestFn 4) : Prop :=
  ∀ {w w' : World} {cx cx' : Ctx}, C09W.Hist D w cx → Req D w cx w' cx' → DeepStoredC w w' (newEffects cx cx')

/-- A HISTORY OF REQUESTS RUN AGAINST THE STORAGE (byte codec): every storage call of every request is
    applied to the storage state machine, a stored slab having the codec-level content it has in the
    world after the request; commits of either kind, with any fault plan, anywhere.  `newCreated = []`:
    the request created no large-value slab (valid values fit their slot: `WValOk`). -/
inductive HistB (D : SlabID → DigestFn 4) : World → Ctx → St Slab (SlabID × Bytes) → Prop
  | new (T addr : Nat) (hT : legalThreshold T = true) : HistB D { T := T, addr := addr } ⟨0, [], []⟩ St.init
  | req {w cx s w' cx'} : HistB D w cx s → Req D w cx w' cx' → newCreated cx cx' = [] →
      HistB D w' cx' (WE2E.applyEffs worldCodec s w'.toCodec (newEffects cx cx'))
  | commit {w cx s} (kind : CommitKind) (faults : List Nat) (mo dlo : List SlabID) : HistB D w cx s →
      HistB D w cx (St.step worldCodec s (.commit kind faults mo dlo)).1

theorem HistB.hist {D : SlabID → DigestFn 4} {w : World} {cx : Ctx} {s : St Slab (SlabID × Bytes)}
    (h : HistB D w cx s) : C09W.Hist D w cx := by
  induction h with
  | new T addr hT => exact .new T addr hT
  | req _ r _ ih => exact r.hist ih
  | commit _ _ _ _ _ ih => exact ih

theorem toCodec_empty (T addr : Nat) (id : SlabID) : ({ T := T, addr := addr } : World).toCodec id = none := rfl

/-- ALONG EVERY HISTORY the storage represents the codec-level content of the world, satisfies the
    storage invariant, and holds no entry for the undefined identifier. -/
theorem histB_rep {D : SlabID → DigestFn 4} (hdeep : DeepSteps D) {w : World} {cx : Ctx}
    {s : St Slab (SlabID × Bytes)} (h : HistB D w cx s) :
    Rep worldCodec s w.toCodec ∧ Inv worldCodec s ∧ AList.find? s.deltas SlabID.undef = none := by
  induction h with
  | new T addr hT =>
    refine ⟨?_, inv_init _, rfl⟩
    intro id _
    rw [toCodec_empty]
    simp [St.view, St.init, St.fresh]
  | @req w cx s w' cx' hb r hcr ih =>
    obtain ⟨h1, h2, h3⟩ := ih
    have hsh := r.shallow hb.hist
    rw [hcr] at hsh
    have hcomp := complete_toCodec hsh (hdeep hb.hist r)
    refine ⟨rep_step _ _ _ _ _ h1 hcomp, applyEffs_keeps_inv _ worldCodec_roundTrip _ _ _ h2, ?_⟩
    rw [WE2E.find?_deltas_applyEffs_undef]
    exact h3
  | commit kind faults mo dlo _ ih =>
    obtain ⟨h1, h2, h3⟩ := ih
    rw [step_commit]
    obtain ⟨k1, k2, _⟩ := commitW_spec worldCodec worldCodec_roundTrip kind (faultPlan faults) mo dlo _ h2
    refine ⟨fun id hid => by rw [k2.view id]; exact h1 id hid, k1, ?_⟩
    rcases k2.pending SlabID.undef with hp | ⟨hp, _, _⟩
    · rw [hp]; exact h3
    · exact hp

end Atree.WC
