import AtreeProofs.WorldCodec.Bytes
import AtreeProofs.WorldCodec.OwnId
import AtreeProofs.CommitLemmas2
import AtreeProofs.World.NoCreated
/-
  Histories of requests run against the storage state machine with the byte codec: the storage shows
  exactly the CODEC-LEVEL content `World.toCodec` of the world (write set, cache, ledger), for every
  history with commits - failing or not - anywhere.
-/
namespace Atree.WC
open Atree Atree.Codec Gen World St C10Persist
open Atree.C09 (newEffects newCreated)

/-- THE DEEP ACCOUNT OF EVERY REQUEST (proved in `AtreeProofs/Props/C10Deep.lean`): a slab that stays in
    the heap with the same shallow content but with a changed embedded child was stored -/
def DeepSteps (D : SlabID → DigestFn 4) : Prop :=
  ∀ {w w' : World} {cx cx' : Ctx}, C09W.Hist D w cx → Req D w cx w' cx' → DeepStoredC w w' (newEffects cx cx')

/-- A HISTORY OF REQUESTS RUN AGAINST THE STORAGE (byte codec): every storage call of every request is
    applied to the storage state machine, a stored slab having the codec-level content it has in the
    world after the request; commits of either kind, with any fault plan, anywhere.  (A request creates
    no large-value slab — valid values fit their slot: `WC.Req.newCreated_nil`.) -/
inductive HistB (D : SlabID → DigestFn 4) : World → Ctx → St Slab (SlabID × Bytes) → Prop
  | new (T addr : Nat) (hT : legalThreshold T = true) : HistB D { T := T, addr := addr } ⟨0, [], []⟩ St.init
  | req {w cx s w' cx'} : HistB D w cx s → Req D w cx w' cx' →
      HistB D w' cx' (WE2E.applyEffs worldCodec s w'.toCodec (newEffects cx cx'))
  | commit {w cx s} (kind : CommitKind) (faults : List Nat) (mo dlo : List SlabID) : HistB D w cx s →
      HistB D w cx (St.step worldCodec s (.commit kind faults mo dlo)).1

theorem HistB.hist {D : SlabID → DigestFn 4} {w : World} {cx : Ctx} {s : St Slab (SlabID × Bytes)}
    (h : HistB D w cx s) : C09W.Hist D w cx := by
  induction h with
  | new T addr hT => exact .new T addr hT
  | req _ r ih => exact r.hist ih
  | commit _ _ _ _ _ ih => exact ih

theorem toCodec_empty (T addr : Nat) (id : SlabID) : ({ T := T, addr := addr } : World).toCodec id = none := rfl

/-- every register is filed under the ID its bytes were encoded for -/
def BaseKeyed (s : St Slab (SlabID × Bytes)) : Prop := ∀ id b, AList.find? s.base id = some b → b.1 = id

/-- ALONG EVERY HISTORY the storage represents the codec-level content of the world, satisfies the
    storage invariant, holds no entry for the undefined identifier, and every register is filed under
    the ID it was encoded for. -/
theorem histB_rep {D : SlabID → DigestFn 4} (hdeep : DeepSteps D) {w : World} {cx : Ctx}
    {s : St Slab (SlabID × Bytes)} (h : HistB D w cx s) :
    Rep worldCodec s w.toCodec ∧ Inv worldCodec s ∧ AList.find? s.deltas SlabID.undef = none ∧ BaseKeyed s := by
  induction h with
  | new T addr hT =>
    refine ⟨?_, inv_init _, rfl, ?_⟩
    · intro id _
      rw [toCodec_empty]
      simp [St.view, St.init, St.fresh]
    · intro id b hb
      simp [St.init, St.fresh, AList.find?] at hb
  | @req w cx s w' cx' hb r ih =>
    obtain ⟨h1, h2, h3, h4⟩ := ih
    have hsh := r.shallow hb.hist
    rw [r.newCreated_nil] at hsh
    have hcomp := complete_toCodec hsh (hdeep hb.hist r)
    refine ⟨rep_step _ _ _ _ _ h1 hcomp, applyEffs_keeps_inv _ worldCodec_roundTrip _ _ _ h2, ?_, ?_⟩
    · rw [WE2E.find?_deltas_applyEffs_undef]
      exact h3
    · intro id b hbase
      rw [(WE2E.applyEffs_frame worldCodec s w'.toCodec (newEffects cx cx')).2] at hbase
      exact h4 id b hbase
  | @commit w cx s kind faults mo dlo hb ih =>
    obtain ⟨h1, h2, h3, h4⟩ := ih
    rw [step_commit]
    obtain ⟨k1, k2, _⟩ := commitW_spec worldCodec worldCodec_roundTrip kind (faultPlan faults) mo dlo _ h2
    refine ⟨fun id hid => by rw [k2.view id]; exact h1 id hid, k1, ?_, ?_⟩
    · rcases k2.pending SlabID.undef with hp | ⟨hp, _, _⟩
      · rw [hp]; exact h3
      · exact hp
    · intro id b hbase
      have hon := (commitW_oldOrNew worldCodec kind (faultPlan faults) mo dlo s h2.deltasNodup).1 id
      rcases hon with ⟨_, hsame⟩ | ⟨_, htgt⟩
      · rw [hsame] at hbase; exact h4 id b hbase
      · rw [htgt] at hbase
        unfold target at hbase
        cases hd : AList.find? s.deltas id with
        | none => rw [hd] at hbase; exact h4 id b hbase
        | some ov =>
          rw [hd] at hbase
          cases ov with
          | none =>
            simp only at hbase
            split at hbase
            · exact h4 id b hbase
            · cases hbase
          | some v =>
            simp only at hbase
            split at hbase
            · exact h4 id b hbase
            · have hne : id ≠ SlabID.undef := by
                intro e; rw [e, h3] at hd; cases hd
              have hview : s.view worldCodec id = some v := view_of_deltas worldCodec s id (some v) hd
              rw [h1 id hne] at hview
              obtain ⟨H, _, _⟩ := C09W.world_heap_exact D w cx hb.hist
              have hid := toCodec_own H hview
              classical
              simp only [worldCodec] at hbase
              split at hbase
              · cases hbase; exact hid
              · cases hbase

end Atree.WC
