import AtreeProofs.WorldCodec.DeepDefs
import AtreeProofs.WorldCodec.Link
import AtreeProofs.Props.C10Persist
/-
  From the shallow account of C09W (`WEffectsComplete`, about `World.slabAt`) and the deep account
  (`DeepStoredC`) to a complete account of the CODEC-LEVEL content `World.toCodec` - the content
  function of the byte-level commit / reopen theorem.
-/
namespace Atree.WC
open Atree Atree.Codec Gen World C10Persist

/-! ### the translation of a slab depends on the renderer only through its local elements -/

theorem melsOf_congr {re re' : Elem → Stor} : ∀ (r : Nat) (e : MElems r),
    (∀ v ∈ localVals r e, re v = re' v) → melsOf re r e = melsOf re' r e
  | 0, (se : SingleElems), h => by
    simp only [melsOf]
    congr 1
    apply List.map_congr_left
    intro x hx
    simp only [selOf]
    rw [h x.val (List.mem_map.2 ⟨x, hx, rfl⟩)]
  | r + 1, (he : HkeyElems (MElems r)), h => by
    simp only [melsOf]
    congr 1
    apply List.map_congr_left
    intro el hel
    have hsub : ∀ v ∈ (match el with
        | .single x => [x.val] | .inl g => localVals r g | .ext _ _ _ => []), re v = re' v := by
      intro v hv
      exact h v (List.mem_flatMap.2 ⟨el, hel, hv⟩)
    cases el with
    | single x =>
      simp only [melOf, selOf]
      rw [hsub x.val (by simp)]
    | inl g =>
      simp only [melOf]
      rw [melsOf_congr r g hsub]
    | ext id sz s => rfl

theorem toCodec_congr {re re' : Elem → Stor} (ws : WSlab) (h : ∀ e ∈ slabElems ws, re e = re' e) :
    ws.toCodec re = ws.toCodec re' := by
  cases ws with
  | arr s ty =>
    cases s with
    | data s =>
      simp only [WSlab.toCodec, dataSlabOf]
      have : s.elems.map re = s.elems.map re' := List.map_congr_left h
      rw [this]
    | index hd chs cs root => rfl
  | map s x =>
    cases s with
    | data s =>
      simp only [WSlab.toCodec, mdataOf]
      rw [melsOf_congr 4 s.elems h]
    | index hd chs root => rfl
    | group g =>
      simp only [WSlab.toCodec, groupOf]
      rw [melsOf_congr 3 g.elems h]

/-- same deep content, same codec-level slab -/
theorem DeepSame.toCodec_eq {w w' : World} {s : WSlab} (h : DeepSame w w' s) :
    s.toCodec w'.stor = s.toCodec w.stor := toCodec_congr s h

/-! ### the complete account of the codec-level content -/

/-- A COMPLETE SHALLOW ACCOUNT + THE DEEP ACCOUNT = A COMPLETE ACCOUNT OF `World.toCodec` -/
theorem complete_toCodec {w w' : World} {E : List Eff} (h : WEffectsComplete w w' E [])
    (hd : DeepStoredC w w' E) : Complete w.toCodec w'.toCodec E := by
  have hsome : ∀ (v : World) id, (v.toCodec id).isSome = (v.slabAt id).isSome := toCodec_isSome
  have hnone : ∀ (v : World) id, (v.toCodec id).isNone = (v.slabAt id).isNone := by
    intro v id; rw [toCodec_eq]; cases v.slabAt id <;> rfl
  refine ⟨?_, ?_, ?_, ?_⟩
  · intro id h1 h2
    rw [hsome] at h1
    by_cases he : w'.slabAt id = w.slabAt id
    · obtain ⟨s, hs⟩ := Option.isSome_iff_exists.1 h1
      have hs0 : w.slabAt id = some s := by rw [← he]; exact hs
      apply hd id s hs hs0
      intro hsame
      apply h2
      rw [toCodec_eq, toCodec_eq, hs, hs0]
      simp only [Option.map_some]
      rw [hsame.toCodec_eq]
    · exact h.changed_stored id h1 he
  · intro id h1 h2
    rw [hsome] at h1; rw [hnone] at h2
    exact h.gone_removed id h1 h2
  · intro id hl
    rw [hsome]
    rcases h.stored_in_heap id hl with h1 | h1
    · exact h1
    · cases h1
  · intro id hl
    rw [hnone]
    exact h.removed_not_in_heap id hl

end Atree.WC
