import AtreeModel.Codec.World
import AtreeProofs.WorldHeap
import AtreeProofs.World.HeapAlg
/-
  `World.toCodec` (AtreeModel/Codec/World.lean) is the slab-wise image of the heap of the world
  (`World.slabAt`, AtreeProofs/WorldHeap.lean) under `WSlab.toCodec`: the executable translation
  looks at exactly the slabs the storage accounts of C09W / C10Persist are about.
-/
namespace Atree
open Gen Codec

theorem flatMap_congr_mem {α β : Type} {f g : α → List β} : ∀ {l : List α}, (∀ a ∈ l, f a = g a) →
    l.flatMap f = l.flatMap g
  | [], _ => rfl
  | a :: l, h => by
    rw [List.flatMap_cons, List.flatMap_cons, h a (List.mem_cons_self ..),
      flatMap_congr_mem (fun b hb => h b (List.mem_cons_of_mem _ hb))]

/-- the type info of the World model is a number: the harness's plain type info -/
def tyOf (ty : Option Nat) : Option TyInfo := ty.map .plain

/-- a map's extra data (type, count, seed) -/
def mxOf (x : Option (Nat × Nat × Nat)) : Option MapExtra :=
  x.map (fun p => { ty := .plain p.1, count := p.2.1, seed := p.2.2 })

/-- THE CODEC-LEVEL SLAB FOR ONE HEAP SLAB of a world, elements rendered by `re` -/
def WSlab.toCodec (re : Elem → Stor) : WSlab → Slab
  | .arr (.data s) ty => dataSlabOf re (tyOf ty) s
  | .arr (.index h chs cs root) ty =>
    .index (tyOf ty) { hdr := h, childHdrs := chs, countSum := cs, children := [], root := root }
  | .map (.data s) x => mdataOf re (mxOf x) s
  | .map (.index h chs _) x => .mindex { id := h.id, extra := mxOf x, childHdrs := chs.map mchildHdrOf }
  | .map (.group g) x => groupOf re (mxOf x) g

theorem atreeSlabs_eq (re : Elem → Stor) (rootID : SlabID) (ty : Nat) :
    ∀ (d : Nat) (t : ATree d),
      atreeSlabs re (fun id => if id = rootID then some (.plain ty) else none) d t =
        (ATree.slabs d t).map (fun p =>
          (p.1, WSlab.toCodec re (WSlab.arr p.2 (if p.1 = rootID then some ty else none))))
  | 0, t => by
    have h : ∀ s : DataSlab, atreeSlabs re (fun id => if id = rootID then some (.plain ty) else none) 0 s =
        (ATree.slabs 0 s).map (fun p =>
          (p.1, WSlab.toCodec re (WSlab.arr p.2 (if p.1 = rootID then some ty else none)))) := by
      intro s
      simp only [atreeSlabs, ATree.slabs, List.map_cons, List.map_nil, WSlab.toCodec, tyOf]
      split <;> rfl
    exact h t
  | d + 1, t => by
    have h : ∀ m : MetaSlab (ATree d),
        atreeSlabs re (fun id => if id = rootID then some (.plain ty) else none) (d + 1) m =
        (ATree.slabs (d + 1) m).map (fun p =>
          (p.1, WSlab.toCodec re (WSlab.arr p.2 (if p.1 = rootID then some ty else none)))) := by
      intro m
      simp only [atreeSlabs, ATree.slabs, List.map_cons, List.map_flatMap, WSlab.toCodec, tyOf]
      congr 1
      · split <;> rfl
      · exact flatMap_congr_mem (fun c _ => atreeSlabs_eq re rootID ty d c)
    exact h t

theorem mtreeSlabs_eq (re : Elem → Stor) (rootID : SlabID) (ty cnt seed : Nat) :
    ∀ (d : Nat) (t : MTree 3 d),
      mtreeSlabs re (fun id => if id = rootID then some { ty := .plain ty, count := cnt, seed := seed } else none) d t =
        (MTree.slabs d t).map (fun p =>
          (p.1, WSlab.toCodec re (WSlab.map p.2 (if p.1 = rootID then some (ty, cnt, seed) else none))))
  | 0, t => by
    have h : ∀ s : MDataSlab 3,
        mtreeSlabs re (fun id => if id = rootID then some { ty := .plain ty, count := cnt, seed := seed } else none) 0 s =
        (MTree.slabs 0 s).map (fun p =>
          (p.1, WSlab.toCodec re (WSlab.map p.2 (if p.1 = rootID then some (ty, cnt, seed) else none)))) := by
      intro s
      simp only [mtreeSlabs, MTree.slabs, List.map_cons, WSlab.toCodec, mxOf]
      congr 1
      · split <;> rfl
      · simp only [groupSlabsOf, MDataSlab.groupSlabs, List.map_filterMap]
        congr 1
        funext el
        cases el with
        | single x => rfl
        | inl g => rfl
        | ext id sz g =>
          simp only [Option.map_some, WSlab.toCodec, mxOf]
          split <;> rfl
    exact h t
  | d + 1, t => by
    have h : ∀ m : MMetaSlab (MTree 3 d),
        mtreeSlabs re (fun id => if id = rootID then some { ty := .plain ty, count := cnt, seed := seed } else none) (d + 1) m =
        (MTree.slabs (d + 1) m).map (fun p =>
          (p.1, WSlab.toCodec re (WSlab.map p.2 (if p.1 = rootID then some (ty, cnt, seed) else none)))) := by
      intro m
      simp only [mtreeSlabs, MTree.slabs, List.map_cons, List.map_flatMap, WSlab.toCodec, mxOf]
      congr 1
      · split <;> rfl
      · exact flatMap_congr_mem (fun c _ => mtreeSlabs_eq re rootID ty cnt seed d c)
    exact h t

namespace Cont

theorem codecTree_eq (re : Elem → Stor) (c : Cont) :
    c.codecTree re = c.treeSlabs.map (fun p => (p.1, WSlab.toCodec re p.2)) := by
  cases c with
  | arr a =>
    simp only [codecTree, treeSlabs, List.map_map]
    rw [atreeSlabs_eq]
    rfl
  | map m =>
    simp only [codecTree, treeSlabs, List.map_map]
    rw [mtreeSlabs_eq]
    rfl

theorem codecSlabs_eq (re : Elem → Stor) (c : Cont) :
    c.codecSlabs re = c.slabs.map (fun p => (p.1, WSlab.toCodec re p.2)) := by
  unfold codecSlabs slabs
  rw [codecTree_eq]
  split
  · rw [List.map_tail]
  · rfl

end Cont

namespace World

theorem codecHeap_eq (w : World) :
    w.codecHeap = w.heapOf.map (fun p => (p.1, WSlab.toCodec w.stor p.2)) := by
  unfold codecHeap heapOf
  rw [List.map_flatMap]
  apply flatMap_congr_mem
  intro x _
  cases w.cont? x with
  | none => rfl
  | some c => exact Cont.codecSlabs_eq w.stor c

theorem find?_map_snd {α β : Type} (f : α → β) (id : SlabID) :
    ∀ (L : List (SlabID × α)), AList.find? (L.map (fun p => (p.1, f p.2))) id = (AList.find? L id).map f
  | [] => rfl
  | (k, v) :: L => by
    simp only [List.map_cons, AList.find?]
    split
    · rfl
    · exact find?_map_snd f id L

/-- THE LINK: the executable translation of slab `id` is the image of the heap slab `slabAt id` -/
theorem toCodec_eq (w : World) (id : SlabID) :
    w.toCodec id = (w.slabAt id).map (WSlab.toCodec w.stor) := by
  unfold toCodec slabAt
  rw [codecHeap_eq]
  exact find?_map_snd _ id _

theorem toCodec_isSome (w : World) (id : SlabID) : (w.toCodec id).isSome = (w.slabAt id).isSome := by
  rw [toCodec_eq]; cases w.slabAt id <;> rfl

end World

end Atree
