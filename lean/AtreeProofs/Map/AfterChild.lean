import AtreeProofs.Map.TreeOps2
/-
  The repair step of an index slab after one of its children has been updated
  (`MMetaSlab.afterChild`: split / merge / rebalance of the child).
-/
namespace Atree
open Gen

variable {T : Nat} {r : Nat} {D : DigestFn (r + 1)} {d : Nat}

/-- shorthand for the concatenated views of a list of sibling subtrees -/
abbrev prs (l : List (MTree r d)) : List (MKey × Elem) := l.flatMap (MTree.toList d)
abbrev dgs (l : List (MTree r d)) : List Nat := l.flatMap (MTree.digests0 d)
abbrev lvs (l : List (MTree r d)) : List (MDataSlab r) := l.flatMap (MTree.leaves d)
abbrev idl (l : List (MTree r d)) : List SlabID := l.flatMap (CtxOk.mapSlabIds d)

theorem mctx_emit_ctr (c : Ctx) (e : Eff) : (c.emit e).ctr = c.ctr := rfl
theorem mctx_alloc_ctr (c : Ctx) (a : Nat) : (c.alloc a).2.ctr = c.ctr + 1 := rfl
theorem mctx_alloc_idx (c : Ctx) (a : Nat) : (c.alloc a).1.idx = c.ctr + 1 := rfl
theorem mctx_alloc_addr (c : Ctx) (a : Nat) : (c.alloc a).1.addr = a := rfl

theorem MTreeInv.fk (hT : legalThreshold T = true) {c : MTree r d} (h : MTreeInv T D d false c) :
    (MTree.hdr d c).firstKey = (MTree.digests0 d c).headD 0 :=
  SInv.firstKey_eq hT d false c (MTreeInv.sinv hT h)

theorem headD_map_cons {α β : Type} (f : α → β) (a : α) (l : List α) (b : β) : ((a :: l).map f).headD b = f a := rfl

/-- postcondition of the repair step; `A`, `B` are the untouched siblings left and right of the
    updated child `child'` -/
structure ACPost (T : Nat) (D : DigestFn (r + 1)) (d : Nat) (top : Bool) (m : MMetaSlab (MTree r d))
    (A B : List (MTree r d)) (child' : MTree r d) (c : Ctx) (m' : MMetaSlab (MTree r d)) (c' : Ctx) : Prop where
  loose : MetaLoose T D d top m'
  len1 : 1 ≤ m'.children.length
  len_le : m'.children.length ≤ m.children.length + 1
  id_eq : m'.hdr.id = m.hdr.id
  pairs : prs m'.children = prs A ++ (MTree.toList d child' ++ prs B)
  digs : dgs m'.children = dgs A ++ (MTree.digests0 d child' ++ dgs B)
  leaves : LeafRel (lvs A ++ (MTree.leaves d child' ++ lvs B)) (lvs m'.children)
  ids : ∀ id ∈ idl m'.children, id ∈ idl A ++ (CtxOk.mapSlabIds d child' ++ idl B) ∨ id.idx ≤ c'.ctr
  ctr : c.ctr ≤ c'.ctr

/-- what is known about the index slab with the updated child put in place -/
structure M1 (T : Nat) (D : DigestFn (r + 1)) (d : Nat) (top : Bool) (m1 : MMetaSlab (MTree r d))
    (A B : List (MTree r d)) (child' : MTree r d) : Prop where
  root : m1.root = top
  ch : m1.children = A ++ child' :: B
  hdrs : m1.childHdrs = m1.children.map (MTree.hdr d)
  size : m1.hdr.size = mapMetaDataSlabPrefixSize + mapSlabHeaderSize * m1.children.length
  fk : m1.hdr.firstKey = (m1.childHdrs.headD default).firstKey
  tightA : ∀ c ∈ A, MTreeInv T D d false c
  tightB : ∀ c ∈ B, MTreeInv T D d false c
  addr : ∀ c ∈ m1.children, (MTree.hdr d c).id.addr = m1.hdr.id.addr
  sorted : (dgs m1.children).Pairwise (· < ·)
  child : SInv T D d false child'

namespace M1
variable {top : Bool} {m1 : MMetaSlab (MTree r d)} {A B : List (MTree r d)} {child' : MTree r d}

theorem hdrs_zip (h : M1 T D d top m1 A B child') :
    m1.childHdrs = A.map (MTree.hdr d) ++ MTree.hdr d child' :: B.map (MTree.hdr d) := by
  rw [h.hdrs, h.ch]; simp

theorem len (h : M1 T D d top m1 A B child') : m1.children.length = A.length + 1 + B.length := by
  rw [h.ch]; simp; omega

end M1

/-- generic re-assembly: an index slab whose children are `P ++ X ++ Q` with all members tight -/
theorem metaLoose_rebuild (hT : legalThreshold T = true) {top : Bool} {m' : MMetaSlab (MTree r d)}
    {P X Q : List (MTree r d)} (hroot : m'.root = top) (hc : m'.children = P ++ (X ++ Q))
    (hh : m'.childHdrs = m'.children.map (MTree.hdr d))
    (hsz : m'.hdr.size = mapMetaDataSlabPrefixSize + mapSlabHeaderSize * m'.children.length)
    (hfk : m'.hdr.firstKey = (m'.childHdrs.headD default).firstKey)
    (hP : ∀ c ∈ P, MTreeInv T D d false c ∧ (MTree.hdr d c).id.addr = m'.hdr.id.addr)
    (hX : ∀ c ∈ X, MTreeInv T D d false c ∧ (MTree.hdr d c).id.addr = m'.hdr.id.addr)
    (hQ : ∀ c ∈ Q, MTreeInv T D d false c ∧ (MTree.hdr d c).id.addr = m'.hdr.id.addr)
    (hs : (dgs (P ++ (X ++ Q))).Pairwise (· < ·)) : MetaLoose T D d top m' := by
  refine MetaLoose.mk' hroot hh hsz hfk ?_ (by rw [hc]; exact hs)
  intro c hcm
  rw [hc] at hcm
  have : MTreeInv T D d false c ∧ (MTree.hdr d c).id.addr = m'.hdr.id.addr := by
    rcases List.mem_append.mp hcm with h | h
    · exact hP c h
    · rcases List.mem_append.mp h with h | h
      · exact hX c h
      · exact hQ c h
  exact ⟨this.1, this.2, this.1.fk hT⟩


theorem mtree_isFull_iff (T : Nat) : ∀ (d : Nat) (t : MTree r d), MTree.isFull T d t = true ↔ maxThr T < (MTree.hdr d t).size
  | 0, s => by show decide (s.hdr.size > maxThr T) = true ↔ _; simp
  | d + 1, m => by show decide (m.hdr.size > maxThr T) = true ↔ _; simp

theorem mtree_isUnderflow_eq (T : Nat) : ∀ (d : Nat) (t : MTree r d), MTree.isUnderflow T d t =
    if minThr T > (MTree.hdr d t).size then some (minThr T - (MTree.hdr d t).size) else none
  | 0, _ => rfl
  | _ + 1, _ => rfl

/-- replacing the adjacent children `Y` of `m1` by `X` with the same content -/
theorem acpost_of_replace (hT : legalThreshold T = true) {top : Bool} {m1 m' : MMetaSlab (MTree r d)}
    {A B P Y X Q : List (MTree r d)} {child' : MTree r d} {c c' : Ctx}
    (h1 : M1 T D d top m1 A B child') (hPYQ : A ++ child' :: B = P ++ (Y ++ Q))
    (hP : ∀ c ∈ P, MTreeInv T D d false c) (hQ : ∀ c ∈ Q, MTreeInv T D d false c)
    (hX : ∀ c ∈ X, MTreeInv T D d false c ∧ (MTree.hdr d c).id.addr = m1.hdr.id.addr) (hXne : X ≠ [])
    (hd : dgs X = dgs Y) (hp : prs X = prs Y) (hl : LeafRel (lvs Y) (lvs X))
    (hi : ∀ id ∈ idl X, id ∈ idl Y ∨ id.idx ≤ c'.ctr)
    (hroot : m'.root = m1.root) (hc : m'.children = P ++ (X ++ Q))
    (hh : m'.childHdrs = m'.children.map (MTree.hdr d))
    (hsz : m'.hdr.size = mapMetaDataSlabPrefixSize + mapSlabHeaderSize * m'.children.length)
    (hid : m'.hdr.id = m1.hdr.id)
    (hfk : m'.hdr.firstKey = (m'.childHdrs.headD default).firstKey)
    (hctr : c.ctr ≤ c'.ctr) (hXlen : X.length ≤ Y.length + 1) :
    ACPost T D d top m1 A B child' c m' c' := by
  have hm1 : m1.children = P ++ (Y ++ Q) := by rw [h1.ch, hPYQ]
  have haddr : ∀ x ∈ P ++ Q, (MTree.hdr d x).id.addr = m'.hdr.id.addr := by
    intro x hx
    rw [hid]
    apply h1.addr x
    rw [hm1]
    rcases List.mem_append.mp hx with h | h
    · exact List.mem_append_left _ h
    · exact List.mem_append_right _ (List.mem_append_right _ h)
  refine ⟨?_, ?_, ?_, hid, ?_, ?_, ?_, ?_, hctr⟩
  · refine metaLoose_rebuild hT (by rw [hroot, h1.root]) hc hh hsz hfk
      (fun x hx => ⟨hP x hx, haddr x (List.mem_append_left _ hx)⟩)
      (fun x hx => ⟨(hX x hx).1, by rw [hid]; exact (hX x hx).2⟩)
      (fun x hx => ⟨hQ x hx, haddr x (List.mem_append_right _ hx)⟩) ?_
    have := h1.sorted
    rw [hm1] at this
    simp only [dgs, List.flatMap_append] at this ⊢
    have hd' : X.flatMap (MTree.digests0 d) = Y.flatMap (MTree.digests0 d) := hd
    rw [hd']; exact this
  · rw [hc]
    simp only [List.length_append]
    have : 1 ≤ X.length := List.length_pos_iff.mpr hXne
    omega
  · rw [hc, hm1]; simp only [List.length_append]; omega
  · rw [hc]
    have hp' : X.flatMap (MTree.toList d) = Y.flatMap (MTree.toList d) := hp
    have : prs (A ++ child' :: B) = prs A ++ (MTree.toList d child' ++ prs B) := by
      simp [prs, List.flatMap_append]
    rw [← this, hPYQ]
    simp only [prs, List.flatMap_append, hp']
  · rw [hc]
    have hd' : X.flatMap (MTree.digests0 d) = Y.flatMap (MTree.digests0 d) := hd
    have : dgs (A ++ child' :: B) = dgs A ++ (MTree.digests0 d child' ++ dgs B) := by
      simp [dgs, List.flatMap_append]
    rw [← this, hPYQ]
    simp only [dgs, List.flatMap_append, hd']
  · rw [hc]
    have : lvs (A ++ child' :: B) = lvs A ++ (MTree.leaves d child' ++ lvs B) := by
      simp [lvs, List.flatMap_append]
    rw [← this, hPYQ]
    simp only [lvs, List.flatMap_append]
    exact hl.lift _ _
  · intro id hidm
    rw [hc] at hidm
    have : idl (A ++ child' :: B) = idl A ++ (CtxOk.mapSlabIds d child' ++ idl B) := by
      simp [idl, List.flatMap_append]
    rw [← this, hPYQ]
    simp only [idl, List.flatMap_append, List.mem_append] at hidm ⊢
    rcases hidm with h | h | h
    · left; left; exact h
    · rcases hi id h with h' | h'
      · left; right; left; exact h'
      · right; exact h'
    · left; right; right; exact h


theorem headD_tight_append (hT : legalThreshold T = true) {l : MTree r d} (hl : MTreeInv T D d false l) (rest : List Nat) :
    (MTree.digests0 d l ++ rest).headD 0 = (MTree.hdr d l).firstKey := by
  rw [hl.fk hT]
  have := MTreeInv.digests_ne_nil hT d l hl
  cases h : MTree.digests0 d l with
  | nil => exact absurd h this
  | cons x xs => simp

/-- the child is over-full: it is split in two -/
theorem splitChild_post (hT : legalThreshold T = true) {top : Bool} {m1 : MMetaSlab (MTree r d)}
    {A B : List (MTree r d)} {child' : MTree r d} (h1 : M1 T D d top m1 A B child') {k : Nat} (hk : A.length = k)
    (hfull : maxThr T < (MTree.hdr d child').size) (hle : (MTree.hdr d child').size ≤ maxThr T + slack T d) (c : Ctx) :
    ∃ m' c', m1.splitChildSlab child' k c = .ok (m', c') ∧ ACPost T D d top m1 A B child' c m' c' := by
  obtain ⟨l, rr, heq, hl, hr, hid1, hid2, hp, hdg, hlv, hids⟩ := MTree.split_spec hT d child' c h1.child hfull hle
  have haddr := h1.addr child' (by rw [h1.ch]; simp)
  have hkm : (A.map (MTree.hdr d)).length = k := by rw [List.length_map]; exact hk
  simp only [MMetaSlab.splitChildSlab, heq, bind, Except.bind, pure, Except.pure]
  refine ⟨_, _, rfl, ?_⟩
  refine acpost_of_replace hT h1 (P := A) (Y := [child']) (X := [l, rr]) (Q := B) (by simp) h1.tightA h1.tightB
    ?_ (by simp) ?_ ?_ ?_ ?_ rfl ?_ ?_ ?_ rfl ?_ ?_ (by simp)
  · intro x hx
    simp only [List.mem_cons, List.mem_nil_iff, or_false] at hx
    rcases hx with rfl | rfl
    · exact ⟨hl, by rw [hid1]; exact haddr⟩
    · exact ⟨hr, by rw [hid2, mctx_alloc_addr]; exact haddr⟩
  · simp [dgs, hdg]
  · simp [prs, hp]
  · simpa [lvs] using hlv
  · intro id hid
    have : id ∈ CtxOk.mapSlabIds d l ++ CtxOk.mapSlabIds d rr := by simpa [idl] using hid
    rcases hids id this with h | h
    · left; simpa [idl] using h
    · right; rw [h, hid2, mctx_alloc_idx]
      simp [mctx_emit_ctr, mctx_alloc_ctr]
  · simp only; rw [h1.ch, zip_set' l hk, zip_insert_succ' rr hk]; simp
  · simp only; rw [h1.hdrs_zip, zip_set' _ hkm, zip_insert_succ' _ hkm, h1.ch, zip_set' l hk, zip_insert_succ' rr hk]
    simp
  · simp only; rw [h1.size, h1.ch, zip_set' l hk, zip_insert_succ' rr hk]
    simp only [List.length_append, List.length_cons, mapMetaDataSlabPrefixSize, mapSlabHeaderSize]; omega
  · simp only
    rw [h1.fk, h1.hdrs_zip, zip_set' _ hkm, zip_insert_succ' _ hkm]
    cases A with
    | nil =>
      simp only [List.map_nil, List.nil_append, List.headD_cons]
      rw [SInv.firstKey_eq hT d false child' h1.child, hdg, headD_tight_append hT hl]
    | cons a A => simp
  · simp [mctx_emit_ctr, mctx_alloc_ctr]


theorem sorted_adjacent {P Q : List (MTree r d)} {x y : MTree r d}
    (h : (dgs (P ++ (x :: y :: Q))).Pairwise (· < ·)) :
    ∀ a ∈ MTree.digests0 d x, ∀ b ∈ MTree.digests0 d y, a < b := by
  simp only [dgs, List.flatMap_append, List.flatMap_cons] at h
  rw [List.pairwise_append] at h
  have h2 := h.2.1
  rw [List.pairwise_append] at h2
  intro a ha b hb
  exact h2.2.2 a ha b (List.mem_append_left _ hb)

theorem rebalanceChildren_eq (m : MMetaSlab (MTree r d)) (left right : MTree r d) (li ri : Nat) (flag : Bool)
    (c : Ctx) {l' r' : MTree r d}
    (heq : (if flag then MTree.borrowFromRight T d left right else MTree.lendToRight T d left right) = .ok (l', r')) :
    m.rebalanceChildren T left right li ri flag c = .ok
      ({ m with childHdrs := (m.childHdrs.set li (MTree.hdr d l')).set ri (MTree.hdr d r'),
                children := (m.children.set li l').set ri r',
                hdr := { m.hdr with firstKey := if li == 0 then (MTree.hdr d l').firstKey else m.hdr.firstKey } },
       ((c.emit (.store (MTree.hdr d l').id)).emit (.store (MTree.hdr d r').id)).emit (.store m.hdr.id)) := by
  cases flag
  · simp only [Bool.false_eq_true, if_false] at heq
    simp only [MMetaSlab.rebalanceChildren, Bool.false_eq_true, if_false, heq, bind, Except.bind, pure, Except.pure]
  · simp only [if_true] at heq
    simp only [MMetaSlab.rebalanceChildren, if_true, heq, bind, Except.bind, pure, Except.pure]

/-- two adjacent children are rebalanced -/
theorem rebalance_post (hT : legalThreshold T = true) {top : Bool} {m1 : MMetaSlab (MTree r d)}
    {A B P Q : List (MTree r d)} {child' left right : MTree r d} (h1 : M1 T D d top m1 A B child')
    (hPYQ : A ++ child' :: B = P ++ ([left, right] ++ Q))
    (hP : ∀ c ∈ P, MTreeInv T D d false c) (hQ : ∀ c ∈ Q, MTreeInv T D d false c)
    {li ri : Nat} (hli : P.length = li) (hri : ri = li + 1) (flag : Bool)
    (hop : ∃ l' r', (if flag then MTree.borrowFromRight T d left right else MTree.lendToRight T d left right)
        = .ok (l', r') ∧ MTree.RebSpec T D d left right l' r') (c : Ctx) :
    ∃ m' c', m1.rebalanceChildren T left right li ri flag c = .ok (m', c') ∧
      ACPost T D d top m1 A B child' c m' c' := by
  subst hri
  obtain ⟨l', r', heq, hl, hr, hid1, hid2, hp, hdg, hlv, hids⟩ := hop
  have hm1 : m1.children = P ++ (left :: right :: Q) := by rw [h1.ch, hPYQ]; simp
  have haddr1 := h1.addr left (by rw [hm1]; simp)
  have haddr2 := h1.addr right (by rw [hm1]; simp)
  have hkm : (P.map (MTree.hdr d)).length = li := by rw [List.length_map]; exact hli
  have hhz : m1.childHdrs = P.map (MTree.hdr d) ++ MTree.hdr d left :: MTree.hdr d right :: Q.map (MTree.hdr d) := by
    rw [h1.hdrs, hm1]; simp
  rw [rebalanceChildren_eq m1 left right li (li + 1) flag c heq]
  refine ⟨_, _, rfl, ?_⟩
  refine acpost_of_replace hT h1 (P := P) (Y := [left, right]) (X := [l', r']) (Q := Q) hPYQ hP hQ
    ?_ (by simp) ?_ ?_ ?_ ?_ rfl ?_ ?_ ?_ rfl ?_ ?_ (by simp)
  · intro x hx
    simp only [List.mem_cons, List.mem_nil_iff, or_false] at hx
    rcases hx with rfl | rfl
    · exact ⟨hl, by rw [hid1]; exact haddr1⟩
    · exact ⟨hr, by rw [hid2]; exact haddr2⟩
  · simp [dgs, hdg]
  · simp [prs, hp]
  · simpa [lvs] using hlv
  · intro id hid
    have : id ∈ CtxOk.mapSlabIds d l' ++ CtxOk.mapSlabIds d r' := by simpa [idl] using hid
    left; simpa [idl] using hids id this
  · simp only; rw [hm1, zip_set' l' hli, zip_set_succ' r' hli]; simp
  · simp only; rw [hhz, zip_set' _ hkm, zip_set_succ' _ hkm, hm1, zip_set' l' hli, zip_set_succ' r' hli]
    simp
  · simp only; rw [h1.size, hm1, zip_set' l' hli, zip_set_succ' r' hli]
    simp only [List.length_append, List.length_cons]
  · simp only
    rw [hhz, zip_set' _ hkm, zip_set_succ' _ hkm]
    cases P with
    | nil => simp at hli; subst hli; simp
    | cons a P =>
      simp at hli
      have : (li == 0) = false := by cases li with | zero => omega | succ n => rfl
      rw [this]
      simp only [Bool.false_eq_true, if_false]
      rw [h1.fk, hhz]; simp
  · simp [mctx_emit_ctr]

/-- two adjacent children are merged -/
theorem merge_post (hT : legalThreshold T = true) {top : Bool} {m1 : MMetaSlab (MTree r d)}
    {A B P Q : List (MTree r d)} {child' left right : MTree r d} (h1 : M1 T D d top m1 A B child')
    (hPYQ : A ++ child' :: B = P ++ ([left, right] ++ Q))
    (hP : ∀ c ∈ P, MTreeInv T D d false c) (hQ : ∀ c ∈ Q, MTreeInv T D d false c)
    {li ri : Nat} (hli : P.length = li) (hri : ri = li + 1)
    (hl : SInv T D d false left) (hr : SInv T D d false right)
    (hband : minThr T + mergeGain d ≤ (MTree.hdr d left).size + (MTree.hdr d right).size ∧
      (MTree.hdr d left).size + (MTree.hdr d right).size ≤ maxThr T + mergeGain d) (c : Ctx) :
    ACPost T D d top m1 A B child' c (m1.mergeChildren left right li ri c).1 (m1.mergeChildren left right li ri c).2 := by
  subst hri
  have hm1 : m1.children = P ++ (left :: right :: Q) := by rw [h1.ch, hPYQ]; simp
  have haddr1 := h1.addr left (by rw [hm1]; simp)
  have haddr2 := h1.addr right (by rw [hm1]; simp)
  have hsorted : (dgs (P ++ (left :: right :: Q))).Pairwise (· < ·) := by rw [← hm1]; exact h1.sorted
  obtain ⟨hs, hsize, hid, hp, hdg, hlv, hids⟩ := MTree.merge_spec hT d left right hl hr
    (by rw [haddr1, haddr2]) (sorted_adjacent hsorted)
  have htight : MTreeInv T D d false (MTree.merge d left right) := by
    rw [mtreeInv_false_iff hT]
    exact ⟨hs, by omega, by omega⟩
  have hkm : (P.map (MTree.hdr d)).length = li := by rw [List.length_map]; exact hli
  have hhz : m1.childHdrs = P.map (MTree.hdr d) ++ MTree.hdr d left :: MTree.hdr d right :: Q.map (MTree.hdr d) := by
    rw [h1.hdrs, hm1]; simp
  simp only [MMetaSlab.mergeChildren]
  refine acpost_of_replace hT h1 (P := P) (Y := [left, right]) (X := [MTree.merge d left right]) (Q := Q) hPYQ hP hQ
    ?_ (by simp) ?_ ?_ ?_ ?_ rfl ?_ ?_ ?_ rfl ?_ ?_ (by simp)
  · intro x hx
    simp only [List.mem_cons, List.mem_nil_iff, or_false] at hx
    subst hx
    exact ⟨htight, by rw [hid]; exact haddr1⟩
  · simp [dgs, hdg]
  · simp [prs, hp]
  · simpa [lvs] using hlv
  · intro id hidm
    have : id ∈ CtxOk.mapSlabIds d (MTree.merge d left right) := by simpa [idl] using hidm
    left; simpa [idl] using hids id this
  · simp only; rw [hm1, zip_set' _ hli, zip_erase_succ' hli]; simp
  · simp only; rw [hhz, zip_set' _ hkm, zip_erase_succ' hkm, hm1, zip_set' _ hli, zip_erase_succ' hli]
    simp
  · simp only; rw [h1.size, hm1, zip_set' _ hli, zip_erase_succ' hli]
    simp only [List.length_append, List.length_cons, mapMetaDataSlabPrefixSize, mapSlabHeaderSize]; omega
  · simp only
    rw [hhz, zip_set' _ hkm, zip_erase_succ' hkm]
    cases P with
    | nil => simp at hli; subst hli; simp
    | cons a P =>
      simp at hli
      have : (li == 0) = false := by cases li with | zero => omega | succ n => rfl
      rw [this]
      simp only [Bool.false_eq_true, if_false]
      rw [h1.fk, hhz]; simp
  · simp [mctx_emit_ctr]

end Atree
