import AtreeProofs.Map.TreeDefs
/-
  `MDataSlab.get / set / remove` on a slab satisfying `MDataLoose`.
-/
namespace Atree
open Gen

namespace MDataSlab
variable {T : Nat} {r : Nat} {D : DigestFn (r + 1)} {cfg : MCfg}

/-- the pairs of a data slab -/
abbrev pairs (s : MDataSlab r) : List (MKey × Elem) := HkeyElems.toList (MElems.ops r) s.elems

theorem toList_eq (s : MDataSlab r) : MTree.toList 0 s = s.pairs := rfl

theorem storeIfNotInlined_ctr (s : MDataSlab r) (c : Ctx) : (s.storeIfNotInlined c).ctr = c.ctr := by
  unfold storeIfNotInlined; split <;> rfl

theorem get_spec (hT : legalThreshold T = true) (hc : CfgFor cfg T (r + 1)) {top : Bool} {s : MDataSlab r}
    (hs : MDataLoose T D top s) {k : MKey} (hk : KeyOk T (r + 1) D k) :
    (∀ v, (k, v) ∈ s.pairs → s.get cfg k = .ok (k, v)) ∧
    ((∀ p ∈ s.pairs, p.1 ≠ k) → s.get cfg k = .error .keyNotFound) :=
  hs.hinv.get (MElems.opsSpec D hT hc r) hc hk rfl

/-- postcondition of a successful `MDataSlab.set` -/
structure SetPost (T : Nat) (D : DigestFn (r + 1)) (top : Bool) (s s' : MDataSlab r) (k : MKey) (sv : Elem)
    (old : Option Elem) (c c' : Ctx) : Prop where
  loose : MDataLoose T D top s'
  eff : SetEffect s.pairs s'.pairs k sv old
  ctr : c.ctr ≤ c'.ctr
  ids : ∀ id ∈ extIds s'.elems.elems, id ∈ extIds s.elems.elems ∨ id.idx ≤ c'.ctr
  hk_new : ∀ x ∈ s'.elems.hkeys, x ∈ s.elems.hkeys ∨ x = k.dig 0
  hk_old : ∀ x ∈ s.elems.hkeys, x ∈ s'.elems.hkeys
  hk_mem : k.dig 0 ∈ s'.elems.hkeys
  id_eq : s'.hdr.id = s.hdr.id
  next_eq : s'.next = s.next
  inl_eq : s'.inlined = s.inlined
  size_le : s'.hdr.size ≤ s.hdr.size + maxEntry T
  size_ge : s.hdr.size ≤ s'.hdr.size + maxInlineMapElem T

theorem set_spec (hT : legalThreshold T = true) (hc : CfgFor cfg T (r + 1)) {top : Bool} {s : MDataSlab r}
    (hs : MDataLoose T D top s) {k : MKey} (hk : KeyOk T (r + 1) D k) {v : Elem} (hv : ValueOkM v) (c : Ctx) :
    (Limited (MElems.ops r) cfg s.elems 0 k → s.set cfg k v c = .error .collisionLimit) ∧
    (¬ Limited (MElems.ops r) cfg s.elems 0 k → ∃ old s' c', s.set cfg k v c = .ok (k, old, s', c') ∧
        SetPost T D top s s' k (storedValue cfg k v c) old c c') := by
  obtain ⟨h1, h2⟩ := hs.hinv.set (MElems.opsSpec D hT hc r) hT hc hk rfl hv c
  constructor
  · intro hl
    have := h1 hl
    simp only [MDataSlab.set, eops, this, bind, Except.bind]
  · intro hnl
    obtain ⟨⟨rk, old, e', c'⟩, hres, hpost⟩ := h2 hnl
    obtain ⟨p1, p2, p3, p4, p5, p6, p7, p8, p9⟩ := hpost
    simp only at p1 p2 p3 p4 p5 p6 p7 p8 p9
    subst p1
    have hp := p9 trivial
    simp only [MDataSlab.set, eops, hres, bind, Except.bind, pure, Except.pure]
    refine ⟨_, _, _, rfl, ?_⟩
    refine ⟨⟨(elemsInv_succ_iff T (r + 1) D r 0 [] e').mpr p2, rfl, rfl, hs.root_eq, hs.inl_root⟩,
      p3, ?_, ?_, p6, p7, p8, rfl, rfl, rfl, ?_, ?_⟩
    · rw [storeIfNotInlined_ctr]; exact p4
    · intro id hid
      rcases p5 id hid with h | h
      · exact Or.inl h
      · right; rw [storeIfNotInlined_ctr]; exact h
    · simp only [maxEntry]; rw [hs.size_eq]; show s.prefixSize + e'.size ≤ _; omega
    · rw [hs.size_eq]; show _ ≤ s.prefixSize + e'.size + _; omega

/-- postcondition of a successful `MDataSlab.remove` -/
structure RemPost (T : Nat) (D : DigestFn (r + 1)) (top : Bool) (s s' : MDataSlab r) (k : MKey) (v : Elem)
    (c c' : Ctx) : Prop where
  loose : MDataLoose T D top s'
  eff : RemEffect s.pairs s'.pairs k v
  ctr : c'.ctr = c.ctr
  ids : ∀ id ∈ extIds s'.elems.elems, id ∈ extIds s.elems.elems
  hk_new : ∀ x ∈ s'.elems.hkeys, x ∈ s.elems.hkeys
  id_eq : s'.hdr.id = s.hdr.id
  next_eq : s'.next = s.next
  inl_eq : s'.inlined = s.inlined
  size_le : s'.hdr.size ≤ s.hdr.size + maxInlineMapElem T
  size_ge : s.hdr.size ≤ s'.hdr.size + maxEntry T

theorem remove_spec (hT : legalThreshold T = true) (hc : CfgFor cfg T (r + 1)) {top : Bool} {s : MDataSlab r}
    (hs : MDataLoose T D top s) {k : MKey} (hk : KeyOk T (r + 1) D k) (c : Ctx) :
    ((∀ p ∈ s.pairs, p.1 ≠ k) → s.remove cfg k c = .error .keyNotFound) ∧
    (∀ v, (k, v) ∈ s.pairs → ∃ s' c', s.remove cfg k c = .ok (k, v, s', c') ∧ RemPost T D top s s' k v c c') := by
  obtain ⟨h1, h2⟩ := hs.hinv.remove (MElems.opsSpec D hT hc r) hT hc hk rfl c
  constructor
  · intro hne
    have := h1 hne
    simp only [MDataSlab.remove, eops, this, bind, Except.bind]
  · intro v hm
    obtain ⟨⟨rk, rv, e', c'⟩, hres, hpost⟩ := h2 v hm
    obtain ⟨p1, p2, p3, p4, p5, p6, p7, p8, p9⟩ := hpost
    simp only at p1 p2 p3 p4 p5 p6 p7 p8 p9
    subst p1 p2
    have hp := p9 trivial
    simp only [MDataSlab.remove, eops, hres, bind, Except.bind, pure, Except.pure]
    refine ⟨_, _, rfl, ?_⟩
    refine ⟨⟨(elemsInv_succ_iff T (r + 1) D r 0 [] e').mpr p3, rfl, rfl, hs.root_eq, hs.inl_root⟩,
      p4, ?_, p6, p7, rfl, rfl, rfl, ?_, ?_⟩
    · rw [storeIfNotInlined_ctr]; exact p5
    · rw [hs.size_eq]; show s.prefixSize + e'.size ≤ _; omega
    · simp only [maxEntry]; rw [hs.size_eq]; show _ ≤ s.prefixSize + e'.size + _; omega

end MDataSlab
end Atree
