import AtreeProofs.Map.Route
/-
  `MTree.get` by induction on the depth.
-/
namespace Atree
open Gen

variable {T : Nat} {r : Nat} {D : DigestFn (r + 1)} {d : Nat} {cfg : MCfg}

theorem absent_of_digs {l : List (MTree r d)} (hl : ∀ c ∈ l, MTreeInv T D d false c) {k : MKey}
    (hno : k.dig 0 ∉ dgs l) : ∀ p ∈ prs l, p.1 ≠ k := by
  intro p hp hpk
  obtain ⟨c, hc, hpc⟩ := List.mem_flatMap.mp hp
  have := (MTreeInv.pairs_ok d false c (hl c hc) p hpc).2
  rw [hpk] at this
  exact hno (List.mem_flatMap.mpr ⟨c, hc, this⟩)

theorem Routed.absent {m : MMetaSlab (MTree r d)} {top : Bool} (hm : MetaLoose T D d top m) {k : MKey} {i : Nat}
    {A B : List (MTree r d)} {child : MTree r d} (hr : Routed d m (k.dig 0) i A child B) :
    (∀ p ∈ prs A, p.1 ≠ k) ∧ (∀ p ∈ prs B, p.1 ≠ k) := by
  have hA : ∀ c ∈ A, MTreeInv T D d false c := fun c hc =>
    hm.2.2.2.2.1 c (by rw [hr.ch]; exact List.mem_append_left _ hc)
  have hB : ∀ c ∈ B, MTreeInv T D d false c := fun c hc =>
    hm.2.2.2.2.1 c (by rw [hr.ch]; exact List.mem_append_right _ (List.mem_cons_of_mem _ hc))
  constructor
  · exact absent_of_digs hA (fun h => by have := hr.lo _ h; omega)
  · exact absent_of_digs hB (fun h => by have := hr.hi _ h; omega)

theorem Routed.toList_eq {m : MMetaSlab (MTree r d)} {hkey i : Nat}
    {A B : List (MTree r d)} {child : MTree r d} (hr : Routed d m hkey i A child B) :
    MTree.toList (d + 1) m = prs A ++ (MTree.toList d child ++ prs B) := by
  rw [MTree.toList_succ, hr.ch]; simp [prs, List.flatMap_append]

theorem get_spec_succ (hT : legalThreshold T = true) {top : Bool} (m : MMetaSlab (MTree r d))
    (hm : MetaLoose T D d top m) (hlen : 1 ≤ m.children.length) {k : MKey}
    (ih : ∀ c ∈ m.children,
      (∀ v, (k, v) ∈ MTree.toList d c → MTree.get cfg d c k = .ok (k, v)) ∧
      ((∀ p ∈ MTree.toList d c, p.1 ≠ k) → MTree.get cfg d c k = .error .keyNotFound)) :
    (∀ v, (k, v) ∈ MTree.toList (d + 1) m → MTree.get cfg (d + 1) m k = .ok (k, v)) ∧
    ((∀ p ∈ MTree.toList (d + 1) m, p.1 ≠ k) → MTree.get cfg (d + 1) m k = .error .keyNotFound) := by
  have hroute := route hT hm hlen (k.dig 0)
  cases hr : MMetaSlab.findChild m.childHdrs (k.dig 0) 0 m.childHdrs.length none (m.childHdrs.length + 1) with
  | none =>
    rw [hr] at hroute
    have habs : ∀ p ∈ MTree.toList (d + 1) m, p.1 ≠ k := by
      rw [MTree.toList_succ]
      exact absent_of_digs hm.2.2.2.2.1 (fun h => by have := hroute.1 _ h; omega)
    constructor
    · intro v hv; exact absurd rfl (habs _ hv)
    · intro _; simp only [MTree.get, hr]
  | some i =>
    rw [hr] at hroute
    obtain ⟨A, child, B, hrt, _⟩ := hroute
    have hci : m.children[i]? = some child := by rw [hrt.ch]; exact zip_get' hrt.len
    obtain ⟨hA, hB⟩ := hrt.absent hm (k := k)
    have hih := ih child (List.mem_of_getElem? hci)
    have htl := hrt.toList_eq
    simp only [MTree.get, hr, hci]
    constructor
    · intro v hv
      rw [htl] at hv
      rcases List.mem_append.mp hv with h | h
      · exact absurd rfl (hA _ h)
      · rcases List.mem_append.mp h with h | h
        · exact hih.1 v h
        · exact absurd rfl (hB _ h)
    · intro hne
      apply hih.2
      intro p hp
      apply hne
      rw [htl]; exact List.mem_append_right _ (List.mem_append_left _ hp)

theorem MTree.get_spec (hT : legalThreshold T = true) (hc : CfgFor cfg T (r + 1)) :
    ∀ (d : Nat) (top : Bool) (t : MTree r d), SInv T D d top t → ∀ {k : MKey}, KeyOk T (r + 1) D k →
    (∀ v, (k, v) ∈ MTree.toList d t → MTree.get cfg d t k = .ok (k, v)) ∧
    ((∀ p ∈ MTree.toList d t, p.1 ≠ k) → MTree.get cfg d t k = .error .keyNotFound)
  | 0, _, _, h, _, hk => MDataSlab.get_spec hT hc h hk
  | d + 1, _, m, h, _, hk =>
    get_spec_succ hT m h.1 h.2 (fun c hcm =>
      MTree.get_spec hT hc d false c (MTreeInv.sinv hT (h.1.2.2.2.2.1 c hcm)) hk)

end Atree
