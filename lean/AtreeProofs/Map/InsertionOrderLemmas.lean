import AtreeProofs.Map.InsertionOrderSpec
import AtreeProofs.Map.Dict
/-
  C13 — list lemmas behind `Props/C13Order.lean`: how `SameCollisionOrder` moves along the four
  kinds of steps, why a digest-sorted key list is DETERMINED by its classes of fully colliding keys,
  and that the stable merge sort by digest vector has exactly those classes.
-/
namespace Atree.C13
open Atree Gen

/-! ### keys under the comparator -/

theorem same_eq_of_keyOk {T L : Nat} {D : DigestFn L} {a b : MKey} (ha : KeyOk T L D a) (hb : KeyOk T L D b)
    (h : a.same b = true) : a = b := by
  simp only [MKey.same, Bool.and_eq_true, beq_iff_eq] at h
  obtain ⟨s1, p1, d1⟩ := a
  obtain ⟨s2, p2, d2⟩ := b
  simp only at h
  obtain ⟨h1, h2⟩ := h
  subst h1 h2
  have e1 : d1 = _ := ha.1
  have e2 : d2 = _ := hb.1
  simp only at e1 e2
  rw [e1, e2]

theorem any_same_iff_mem {T L : Nat} {D : DigestFn L} {l : List MKey} {k : MKey} (hl : ∀ x ∈ l, KeyOk T L D x)
    (hk : KeyOk T L D k) : l.any (fun k' => k'.same k) = true ↔ k ∈ l := by
  rw [List.any_eq_true]
  constructor
  · rintro ⟨x, hx, hs⟩
    rw [← same_eq_of_keyOk (hl x hx) hk hs]; exact hx
  · intro h; exact ⟨k, h, MKey.same_self k⟩

theorem filter_not_same_of_absent {T L : Nat} {D : DigestFn L} {l : List MKey} {k : MKey}
    (hl : ∀ x ∈ l, KeyOk T L D x) (hk : KeyOk T L D k) (h : k ∉ l) :
    l.filter (fun k' => !k'.same k) = l := by
  rw [List.filter_eq_self]
  intro x hx
  cases hs : x.same k with
  | false => rfl
  | true => exact absurd (same_eq_of_keyOk (hl x hx) hk hs ▸ hx) h

/-- in a list of pairwise different keys, taking `k` out is filtering by the comparator -/
theorem erase_eq_filter_not_same {A B : List MKey} {k : MKey}
    (hd : (A ++ k :: B).Pairwise (fun a b => a.same b = false)) :
    A ++ B = (A ++ k :: B).filter (fun k' => !k'.same k) := by
  rw [List.pairwise_append] at hd
  obtain ⟨_, hB, hAB⟩ := hd
  rw [List.pairwise_cons] at hB
  have hA' : A.filter (fun k' => !k'.same k) = A := by
    rw [List.filter_eq_self]
    intro x hx
    rw [hAB x hx k (by simp)]; rfl
  have hB' : B.filter (fun k' => !k'.same k) = B := by
    rw [List.filter_eq_self]
    intro x hx
    have := hB.1 x hx
    rw [MKey.same_comm, this]; rfl
  rw [List.filter_append, List.filter_cons, hA', hB']
  simp [MKey.same_self]

/-! ### `SameCollisionOrder` along the steps -/

theorem SameCollisionOrder.refl (K : List MKey) : SameCollisionOrder K K := fun _ => rfl

theorem SameCollisionOrder.mem_iff {K l : List MKey} (h : SameCollisionOrder K l) (k : MKey) : k ∈ K ↔ k ∈ l := by
  have h1 : k ∈ K ↔ k ∈ K.filter (fun x => x.digs == k.digs) := by simp [List.mem_filter]
  have h2 : k ∈ l ↔ k ∈ l.filter (fun x => x.digs == k.digs) := by simp [List.mem_filter]
  rw [h1, h2, h k.digs]

/-- a NEW key put behind every key with its digest vector ↦ appended to the association list -/
theorem SameCollisionOrder.insert_last {A B l : List MKey} {k : MKey} (h : SameCollisionOrder (A ++ B) l)
    (hB : ∀ b ∈ B, b.digs ≠ k.digs) : SameCollisionOrder (A ++ k :: B) (l ++ [k]) := by
  intro d
  have hd := h d
  rw [List.filter_append] at hd
  rw [List.filter_append, List.filter_cons, List.filter_append, ← hd]
  by_cases e : k.digs = d
  · subst e
    have hBf : B.filter (fun x => x.digs == k.digs) = [] := by
      rw [List.filter_eq_nil_iff]
      intro b hb
      simpa using hB b hb
    simp [hBf]
  · have : (k.digs == d) = false := by simpa using e
    simp [this]

theorem SameCollisionOrder.filter {K l : List MKey} (h : SameCollisionOrder K l) (p : MKey → Bool) :
    SameCollisionOrder (K.filter p) (l.filter p) := by
  intro d
  rw [List.filter_filter, List.filter_filter]
  have := congrArg (List.filter p) (h d)
  rw [List.filter_filter, List.filter_filter] at this
  simpa only [Bool.and_comm] using this

/-! ### a digest-sorted list is determined by its classes -/

/-- ascending digest vectors (the conclusion of `C13.map_order_canonical`, on the key list) -/
def DigSorted (K : List MKey) : Prop := K.Pairwise (fun a b => a.digs = b.digs ∨ a.digs < b.digs)

theorem digSorted_unique : ∀ (K1 K2 : List MKey), DigSorted K1 → DigSorted K2 → SameCollisionOrder K1 K2 → K1 = K2
  | [], K2, _, _, h => by
    cases K2 with
    | nil => rfl
    | cons b K2' =>
      have := h b.digs
      simp at this
  | a :: K1', [], _, _, h => by
    have := h a.digs
    simp at this
  | a :: K1', b :: K2', s1, s2, h => by
    have hab : a = b := by
      by_cases e : b.digs = a.digs
      · have := h a.digs
        simp only [List.filter_cons, beq_self_eq_true, if_true, e] at this
        exact (List.cons.inj this).1
      · exfalso
        -- `b` is in `K1'`, `a` is in `K2'`: contradiction with the two orders
        have hb : b ∈ a :: K1' := (h.mem_iff b).mpr (by simp)
        have ha : a ∈ b :: K2' := (h.mem_iff a).mp (by simp)
        have hb' : b ∈ K1' := by
          rcases List.mem_cons.mp hb with hb | hb
          · exact absurd (by rw [hb]) e
          · exact hb
        have ha' : a ∈ K2' := by
          rcases List.mem_cons.mp ha with ha | ha
          · exact absurd (by rw [ha]) e
          · exact ha
        have o1 := (List.pairwise_cons.mp s1).1 b hb'
        have o2 := (List.pairwise_cons.mp s2).1 a ha'
        rcases o1 with o1 | o1
        · exact e o1.symm
        · rcases o2 with o2 | o2
          · exact e o2
          · exact List.lt_asymm o1 o2
    subst hab
    have hrest : SameCollisionOrder K1' K2' := by
      intro d
      have := h d
      simp only [List.filter_cons] at this
      split at this
      · exact (List.cons.inj this).2
      · exact this
    rw [digSorted_unique K1' K2' (List.pairwise_cons.mp s1).2 (List.pairwise_cons.mp s2).2 hrest]

/-! ### the stable sort by digest vector -/

theorem digLe_iff (a b : MKey) : digLe a b = true ↔ a.digs = b.digs ∨ a.digs < b.digs := by
  simp only [digLe, decide_eq_true_eq]
  rw [List.le_iff_lt_or_eq]
  exact Or.comm

theorem digLe_trans (a b c : MKey) (h1 : digLe a b = true) (h2 : digLe b c = true) : digLe a c = true := by
  rw [digLe_iff] at *
  rcases h1 with h1 | h1
  · rw [h1]; exact h2
  · rcases h2 with h2 | h2
    · rw [← h2]; exact Or.inr h1
    · exact Or.inr (List.lt_trans h1 h2)

theorem digLe_total (a b : MKey) : (digLe a b || digLe b a) = true := by
  simp only [digLe, Bool.or_eq_true, decide_eq_true_eq]
  exact List.le_total _ _

theorem digSorted_mergeSort (l : List MKey) : DigSorted (l.mergeSort digLe) := by
  have := List.pairwise_mergeSort digLe_trans digLe_total l
  exact this.imp (fun {a b} h => (digLe_iff a b).mp h)

/-- STABILITY: the sort keeps every class of fully colliding keys in its original order -/
theorem sameCollisionOrder_mergeSort (l : List MKey) : SameCollisionOrder (l.mergeSort digLe) l := by
  intro d
  have hsub : (l.filter (fun k => k.digs == d)).Sublist (l.mergeSort digLe) := by
    refine List.sublist_mergeSort digLe_trans digLe_total ?_ List.filter_sublist
    rw [List.pairwise_iff_forall_sublist]
    intro a b hab
    have ha : a ∈ l.filter (fun k => k.digs == d) := hab.subset (by simp)
    have hb : b ∈ l.filter (fun k => k.digs == d) := hab.subset (by simp)
    simp only [List.mem_filter, beq_iff_eq] at ha hb
    rw [digLe_iff]
    left
    rw [ha.2, hb.2]
  have hsub' : (l.filter (fun k => k.digs == d)).Sublist ((l.mergeSort digLe).filter (fun k => k.digs == d)) := by
    have := hsub.filter (fun k => k.digs == d)
    rw [List.filter_filter] at this
    simpa only [Bool.and_self] using this
  have hlen : (l.filter (fun k => k.digs == d)).length = ((l.mergeSort digLe).filter (fun k => k.digs == d)).length :=
    ((List.mergeSort_perm l digLe).filter _).length_eq.symm
  exact (hsub'.eq_of_length hlen).symm

end Atree.C13
